import RTV.Lemmas.DtRes
import RTV.Gen.DtMaps
import RTV.Gen.DtMapsX1
import RTV.Gen.DtMapsX2
/-!
# C07 — clock times resolve to the right 24-hour time, alone or attached to a date

Theorems about `RTV.Model.DtRes` (mirrors `BaseTimeParser.match_to_time`, `DateTimeFormatUtil`,
`BaseMergedParser._date_time_resolution/_resolve_ampm`, `BaseDateTimeParser.merge_date_and_time`). They hold for every
reference date, every `TimeParserConfiguration` (numbers table, prefix / suffix adjusters are not reached) and any
Unicode tables in which ASCII digits are decimal digits (`Uni.Ascii`).

A written clock time is a `Clock`: the `hour` group's string with the number it denotes and, optionally, the `min` and
`sec` groups' strings with theirs (`Clock.WF`: `int()` reads them so, hour < 24, minute / second < 60). Its value
entry for hour `hh` is `Clock.value c hh = ⟨T hh[:mm[:ss]], "time", "hh:mm:ss"⟩`.

Variant switch (DESIGN 2.5): `TimeCfg.zeroHourIsNone = true` is the code as found before `fix: 5938cc07e`
(`if not hour: return result`), `false` the repaired code (`if hour is None`). The correspondence check probes which one
the working tree follows. `clock24` is the full-strength statement (repaired variant); `clock24_partial` and
`clock24_hour0_unresolved` document the pre-fix variant as a regression witness.
-/
namespace RTV.DtRes
open RTV.Py RTV.Cal RTV.Gen.DtMaps
set_option linter.unusedVariables false

/-- C07(a) every 24-hour time `H[H][:MM[:SS]]`, 00:00 … 23:59:59, without am/pm resolves to that time; for an hour
1–12 it additionally yields the reading twelve hours later — and nothing else. (Repaired variant.) -/
theorem clock24 (u : Uni) (ha : u.Ascii) (cfg : TimeCfg) (hfix : cfg.zeroHourIsNone = false) (c : Clock) (wf : c.WF u)
    (ref : DT) (hv : ref.date.valid = true) :
    resolveTime u cfg (c.groups false false) ref =
      .ok (some (if 1 ≤ c.h ∧ c.h ≤ 12 then [c.value c.h, c.value (pmHour c.h)] else [c.value c.h])) := by
  have := resolveTime_clock u ha cfg c false false ref wf (Or.inl hfix) hv
  simpa [adjHour, Nat.lt_iff_add_one_le] using this

/-- The same for the code as found (`if not hour`), with the exact guard: hour ≠ 0. -/
theorem clock24_partial (u : Uni) (ha : u.Ascii) (cfg : TimeCfg) (c : Clock) (wf : c.WF u) (h0 : 0 < c.h)
    (ref : DT) (hv : ref.date.valid = true) :
    resolveTime u cfg (c.groups false false) ref =
      .ok (some (if 1 ≤ c.h ∧ c.h ≤ 12 then [c.value c.h, c.value (pmHour c.h)] else [c.value c.h])) := by
  have := resolveTime_clock u ha cfg c false false ref wf (Or.inr h0) hv
  simpa [adjHour, Nat.lt_iff_add_one_le] using this

/-- the clock time `00:30` as the English regexes capture it -/
def clock0030 : Clock := { hs := [48, 48], h := 0, ms := some ([51, 48], 30) }

def refWitness : DT := ⟨2016, 11, 7, 10, 30, 0⟩

/-- Negative witness (pre-fix variant): `00:30` is left unresolved (`resolution = None`) … -/
theorem clock24_hour0_unresolved :
    (resolveTime asciiUni (plainCfg true) (clock0030.groups false false) refWitness).toOption = some none := by decide

/-- … while the repaired variant gives `T00:30` / `00:30:00`. -/
theorem clock24_hour0_repaired :
    (resolveTime asciiUni (plainCfg false) (clock0030.groups false false) refWitness).toOption =
      some (some [{ timex := [84, 48, 48, 58, 51, 48], type := sTime, value := some [48, 48, 58, 51, 48, 58, 48, 48] }]) := by
  decide

example : clock0030.WF asciiUni :=
  ⟨isNum_two asciiUni asciiUni_ascii 0 0 (by omega) (by omega), by decide,
   fun p hp => by
     obtain rfl : p = ([51, 48], 30) := by simpa [clock0030] using hp.symm
     exact ⟨isNum_two asciiUni asciiUni_ascii 3 0 (by omega) (by omega), by decide⟩,
   fun p hp => by simp [clock0030] at hp⟩

/-- C07(b) 12-hour times with am / pm: `12 am ↦ 00`, `h am ↦ h`, `12 pm ↦ 12`, `h pm ↦ h + 12`, for every minute and
second (written or not); exactly one value. Holds for both variants (the hour is never 0). -/
theorem clock12 (u : Uni) (ha : u.Ascii) (cfg : TimeCfg) (c : Clock) (wf : c.WF u) (h1 : 1 ≤ c.h) (h12 : c.h ≤ 12)
    (pm : Bool) (ref : DT) (hv : ref.date.valid = true) :
    resolveTime u cfg (c.groups (!pm) pm) ref = .ok (some [c.value (c.h % 12 + if pm then 12 else 0)]) := by
  have := resolveTime_clock u ha cfg c (!pm) pm ref wf (Or.inr (by omega)) hv
  rw [this]
  cases pm
  · have e : adjHour c.h true false = c.h % 12 := by unfold adjHour; simp; split <;> omega
    simp [e]
  · have e : adjHour c.h false true = c.h % 12 + 12 := by unfold adjHour; simp; split <;> omega
    simp [e]

/-- `clock12` read off at the boundary hours -/
theorem clock12_partial (u : Uni) (ha : u.Ascii) (cfg : TimeCfg) (c : Clock) (wf : c.WF u) (h12 : c.h = 12)
    (ref : DT) (hv : ref.date.valid = true) :
    resolveTime u cfg (c.groups true false) ref = .ok (some [c.value 0]) ∧
    resolveTime u cfg (c.groups false true) ref = .ok (some [c.value 12]) := by
  have a := clock12 u ha cfg c wf (by omega) (by omega) false ref hv
  have b := clock12 u ha cfg c wf (by omega) (by omega) true ref hv
  simp [h12] at a b
  exact ⟨a, b⟩

/-- the second reading is twelve hours from the first -/
theorem toPm_twelve_apart (h : Nat) (h1 : 1 ≤ h) (h12 : h ≤ 12) :
    pmHour h = (h + 12) % 24 ∧ (pmHour h + 24 - h) % 24 = 12 := by
  unfold pmHour; split <;> omega

/-- C07(c) an hour 1–12 without am/pm yields exactly two values: hour `h` and hour `(h + 12) mod 24`, same minute
and second, twelve hours apart. Both variants. -/
theorem ambiguous_two_readings (u : Uni) (ha : u.Ascii) (cfg : TimeCfg) (c : Clock) (wf : c.WF u) (h1 : 1 ≤ c.h)
    (h12 : c.h ≤ 12) (ref : DT) (hv : ref.date.valid = true) :
    resolveTime u cfg (c.groups false false) ref = .ok (some [c.value c.h, c.value ((c.h + 12) % 24)]) ∧
      ((c.h + 12) % 24 + 24 - c.h) % 24 = 12 := by
  have := clock24_partial u ha cfg c wf (by omega) ref hv
  have e := toPm_twelve_apart c.h h1 h12
  rw [this, e.1]
  simp [h1, h12]
  omega


/-- C07(d) `<date> at <time>`, ABSOLUTE dates only (relative and year-less dates: `date_at_time_relative`,
`date_at_time_yearless` below): a resolved absolute date (groups decode to the existing date `y-mo-d`, four-digit year)
followed by a decoded clock time yields the datetime composed of both: TIMEX = date TIMEX ++ time TIMEX
(`YYYY-MM-DDThh[:mm[:ss]]`), value `YYYY-MM-DD hh:mm:ss`, type `datetime`; one value when the hour is unambiguous
(0, 13–23, or am / pm given), the two readings twelve hours apart otherwise. No "morning / afternoon" word in the
text (`pm_time_regex` / `am_time_regex` do not match). Repaired variant or hour ≠ 0. -/
theorem date_at_time (u : Uni) (ha : u.Ascii) (dcfg : DateCfg) (hmax : dcfg.maxTwoDigitYearFuture ≤ 100)
    (dg : DateGroups) (y mo d : Nat) (hdec : Decodes u dcfg dg y mo d) (hy : 1000 ≤ y ∧ y ≤ 9999)
    (hvd : (⟨y, mo, d⟩ : Date).valid = true) (wy : Int) (tcfg : TimeCfg) (c : Clock) (wf : c.WF u) (amD pmD : Bool)
    (hz : tcfg.zeroHourIsNone = false ∨ 0 < c.h) (ref : DT) (hv : ref.date.valid = true) :
    resolveDateAtTime u dcfg dg wy tcfg (c.groups amD pmD) false false ref =
      .ok (some (if 0 < adjHour c.h amD pmD ∧ adjHour c.h amD pmD ≤ 12 ∧ amD = false ∧ pmD = false
                 then [c.dtValue y mo d (adjHour c.h amD pmD), c.dtValue y mo d (pmHour (adjHour c.h amD pmD))]
                 else [c.dtValue y mo d (adjHour c.h amD pmD)])) :=
  resolveDateAtTime_clock u ha dcfg hmax dg y mo d hdec hy hvd wy tcfg c wf amD pmD hz ref hv

/-- `date_at_time` for a 24-hour time whose hour is 0 or 13–23: exactly the one datetime. -/
theorem date_at_time_unambiguous (u : Uni) (ha : u.Ascii) (dcfg : DateCfg) (hmax : dcfg.maxTwoDigitYearFuture ≤ 100)
    (dg : DateGroups) (y mo d : Nat) (hdec : Decodes u dcfg dg y mo d) (hy : 1000 ≤ y ∧ y ≤ 9999)
    (hvd : (⟨y, mo, d⟩ : Date).valid = true) (wy : Int) (tcfg : TimeCfg) (hfix : tcfg.zeroHourIsNone = false) (c : Clock)
    (wf : c.WF u) (hh : c.h = 0 ∨ 13 ≤ c.h) (ref : DT) (hv : ref.date.valid = true) :
    resolveDateAtTime u dcfg dg wy tcfg (c.groups false false) false false ref = .ok (some [c.dtValue y mo d c.h]) := by
  rw [date_at_time u ha dcfg hmax dg y mo d hdec hy hvd wy tcfg c wf false false (Or.inl hfix) ref hv]
  have : ¬ (0 < c.h ∧ c.h ≤ 12) := by omega
  simp [adjHour, this]

/-- `date_at_time` for an hour 1–12 without am/pm: both readings, twelve hours apart, on the same date. -/
theorem date_at_time_ambiguous (u : Uni) (ha : u.Ascii) (dcfg : DateCfg) (hmax : dcfg.maxTwoDigitYearFuture ≤ 100)
    (dg : DateGroups) (y mo d : Nat) (hdec : Decodes u dcfg dg y mo d) (hy : 1000 ≤ y ∧ y ≤ 9999)
    (hvd : (⟨y, mo, d⟩ : Date).valid = true) (wy : Int) (tcfg : TimeCfg) (c : Clock) (wf : c.WF u)
    (h1 : 1 ≤ c.h) (h12 : c.h ≤ 12) (ref : DT) (hv : ref.date.valid = true) :
    resolveDateAtTime u dcfg dg wy tcfg (c.groups false false) false false ref =
      .ok (some [c.dtValue y mo d c.h, c.dtValue y mo d ((c.h + 12) % 24)]) := by
  rw [date_at_time u ha dcfg hmax dg y mo d hdec hy hvd wy tcfg c wf false false (Or.inr (by omega)) ref hv]
  have : (0 < c.h ∧ c.h ≤ 12) := by omega
  simp [adjHour, this, (toPm_twelve_apart c.h h1 h12).1]


/-! ### C07(d) beyond absolute dates (audit item 16)

`date_at_time*` above start from the date GROUPS of an absolute four-digit-year date.  The two theorems below start from the
date parser's RESULT — any TIMEX, any valid date(s) — and therefore cover the relative forms (one resolved date) and the
year-less forms (future / past candidates) that `merge_date_and_time` receives. -/

/-- C07(d) for a RELATIVE date ("tomorrow at 3pm", "next Friday at 15:30", "2 days ago at noon": the date parser hands over
one resolved date — future = past — under WHATEVER TIMEX `dtx` it wrote) and a decoded clock time: the merge composes
TIMEX = date TIMEX ++ time TIMEX and the datetime of that date at that time, for every valid date (`merge_clock`, any
`dtx`), and the resolution emits exactly that one value. -/
theorem date_at_time_relative (u : Uni) (c : Clock) (w60 : c.m < 60 ∧ c.s < 60) (hh : Nat) (h24 : hh < 24) (dtx : Str)
    (y mo d : Nat) (hv : (⟨y, mo, d⟩ : Date).valid = true) (hy : 1000 ≤ y ∧ y < 10000) (tv : DT)
    (htv : tv.hh = hh ∧ tv.mi = c.m ∧ tv.ss = c.s) :
    mergeDateAndTime (toSlot .date (Res.mk true dtx [] ⟨y, mo, d, 0, 0, 0⟩ ⟨y, mo, d, 0, 0, 0⟩))
        (toSlot .time (Res.mk true (c.timex hh) [] tv tv)) false false =
      .ok (Res.mk true (dtx ++ c.timex hh) [] ⟨y, mo, d, hh, c.m, c.s⟩ ⟨y, mo, d, hh, c.m, c.s⟩) ∧
    dateTimeResolution u (toSlot .datetime (Res.mk true (dtx ++ c.timex hh) [] ⟨y, mo, d, hh, c.m, c.s⟩ ⟨y, mo, d, hh, c.m, c.s⟩)) =
      .ok (some [{ timex := dtx ++ c.timex hh, type := sDateTime, value := some (ymd y mo d ++ 32 :: hms hh c.m c.s) }]) := by
  refine ⟨?_, dtRes_datetime_plain u _ y mo d hh c.m c.s hy.1 hy.2⟩
  have := merge_clock c w60 hh h24 dtx [] y mo d hv tv htv
  simpa using this

/-- C07(d) for a YEAR-LESS date ("May 5 at 3pm": the date parser hands over TWO candidates, future and past, one year
apart, TIMEX `XXXX-05-05`): both candidates get the same clock time, the TIMEX is date TIMEX ++ time TIMEX. -/
theorem date_at_time_yearless (c : Clock) (w60 : c.m < 60 ∧ c.s < 60) (hh : Nat) (h24 : hh < 24) (dtx cm : Str)
    (f p : Date) (hf : f.valid = true) (hp : p.valid = true) (tv : DT) (htv : tv.hh = hh ∧ tv.mi = c.m ∧ tv.ss = c.s) :
    mergeDateAndTime (toSlot .date (Res.mk true dtx [] ⟨f.y, f.m, f.d, 0, 0, 0⟩ ⟨p.y, p.m, p.d, 0, 0, 0⟩))
        (toSlot .time (Res.mk true (c.timex hh) cm tv tv)) false false =
      .ok (Res.mk true (dtx ++ c.timex hh) (if hh ≤ 12 ∧ cm ≠ [] then sAmPm else []) ⟨f.y, f.m, f.d, hh, c.m, c.s⟩
        ⟨p.y, p.m, p.d, hh, c.m, c.s⟩) := by
  obtain ⟨e1, e2, e3⟩ := htv
  have mkf := mkDateTime_ok ⟨f.y, f.m, f.d, 0, 0, 0⟩ (by simpa [DT.date] using hf) hh c.m c.s h24 w60.1 w60.2
  have mkp := mkDateTime_ok ⟨p.y, p.m, p.d, 0, 0, 0⟩ (by simpa [DT.date] using hp) hh c.m c.s h24 w60.1 w60.2
  simp only at mkf mkp
  have e : 84 :: (fmtD 2 (hh : Int) ++ c.tail) = c.timex hh := rfl
  simp [mergeDateAndTime, toSlot, e1, e2, e3, timex_not_ampm c w60 hh (by omega), timex_drop3 c hh (by omega), mkf, mkp, e]

/-! ## Every culture's `TimeParserConfiguration`

`clock24`, `clock12`, `ambiguous_two_readings`, `date_at_time` quantify over *every* `TimeCfg`; the instances below
make the cultures explicit: the configuration of a culture is its regenerated `numbers` table, its hand-modelled
`adjust_by_prefix` style and `adjust_by_suffix` style (`RTV/Model/DtRes.lean`, tied by unit correspondence), for any
outcome of the regexes those functions search (`flags`, `ltoh`, `si`). -/

open RTV.Gen.DtMaps in
/-- (numbers, prefix style, suffix style) of the eight cultures that use `BaseTimeParser`; `repaired` = the closing
`else: adjust.has_pm = True` of `adjust_by_suffix` is present in English / Portuguese / Italian / German
(`fix: 2534fc60f`, finding `afternoon-12`). -/
def cultureStyles (repaired : Bool) : List (String × List (Str × Nat) × PrefixStyle × SuffixStyle) :=
  [("en-us", numbers_en, enPrefixStyle, enSuffixStyle repaired), ("es-es", numbers_es, esPrefixStyle, simpleSuffixStyle),
   ("es-mx", numbers_esmx, esPrefixStyle, simpleSuffixStyle), ("fr-fr", numbers_fr, frPrefixStyle, simpleSuffixStyle),
   ("pt-br", numbers_pt, ptPrefixStyle, nightSuffixStyle repaired), ("it-it", numbers_it, itPrefixStyle, nightSuffixStyle repaired),
   ("de-de", numbers_de, dePrefixStyle, nightSuffixStyle repaired), ("nl-nl", numbers_nl, nlPrefixStyle, nlSuffixStyle)]

/-- the `TimeCfg` of a culture for given regex outcomes (repaired hour-0 test) -/
def cultureCfg (u : Uni) (k : String × List (Str × Nat) × PrefixStyle × SuffixStyle) (flags : List Bool)
    (ltoh : Option (Str × Str)) (si : SuffixInfo) : TimeCfg :=
  { numbers := k.2.1, zeroHourIsNone := false, adjustByPrefix := adjustByPrefixG u k.2.1 k.2.2.1 flags ltoh,
    adjustBySuffix := fun _ a => .ok (adjustBySuffixG k.2.2.2 si a) }

/-- C07(a)–(c) for each culture's configuration: 24-hour times, am/pm (description group) times and the two readings
of an ambiguous hour. -/
theorem clock_cultures (u : Uni) (ha : u.Ascii) (rep : Bool) (k) (hk : k ∈ cultureStyles rep) (flags : List Bool)
    (ltoh : Option (Str × Str)) (si : SuffixInfo) (c : Clock) (wf : c.WF u) (ref : DT) (hv : ref.date.valid = true) :
    resolveTime u (cultureCfg u k flags ltoh si) (c.groups false false) ref =
        .ok (some (if 1 ≤ c.h ∧ c.h ≤ 12 then [c.value c.h, c.value ((c.h + 12) % 24)] else [c.value c.h])) ∧
    (1 ≤ c.h → c.h ≤ 12 → ∀ pm : Bool,
      resolveTime u (cultureCfg u k flags ltoh si) (c.groups (!pm) pm) ref =
        .ok (some [c.value (c.h % 12 + if pm then 12 else 0)])) := by
  constructor
  · rw [clock24 u ha _ rfl c wf ref hv]
    split
    · rename_i h; rw [(toPm_twelve_apart c.h h.1 h.2).1]
    · rfl
  · intro h1 h12 pm
    exact clock12 u ha _ c wf h1 h12 pm ref hv

/-- C07(d) for each culture's time configuration (the date side is any `DateCfg`, e.g. the culture's tables). -/
theorem date_at_time_cultures (u : Uni) (ha : u.Ascii) (rep : Bool) (k) (hk : k ∈ cultureStyles rep) (flags : List Bool)
    (ltoh : Option (Str × Str)) (si : SuffixInfo) (dcfg : DateCfg) (hmax : dcfg.maxTwoDigitYearFuture ≤ 100)
    (dg : DateGroups) (y mo d : Nat) (hdec : Decodes u dcfg dg y mo d) (hy : 1000 ≤ y ∧ y ≤ 9999)
    (hvd : (⟨y, mo, d⟩ : Date).valid = true) (wy : Int) (c : Clock) (wf : c.WF u) (amD pmD : Bool) (ref : DT)
    (hv : ref.date.valid = true) :
    resolveDateAtTime u dcfg dg wy (cultureCfg u k flags ltoh si) (c.groups amD pmD) false false ref =
      .ok (some (if 0 < adjHour c.h amD pmD ∧ adjHour c.h amD pmD ≤ 12 ∧ amD = false ∧ pmD = false
                 then [c.dtValue y mo d (adjHour c.h amD pmD), c.dtValue y mo d (pmHour (adjHour c.h amD pmD))]
                 else [c.dtValue y mo d (adjHour c.h amD pmD)])) :=
  date_at_time u ha dcfg hmax dg y mo d hdec hy hvd wy _ c wf amD pmD (Or.inl rfl) ref hv

/-- C07(b) for designator *phrases* (`8 in the morning`, `3 de la tarde`, `7 uur 's avonds`, …), which reach
`match_to_time` through the `suffix` group and `adjust_by_suffix`: for every culture, hour 1–12, any minute / second,
a plain am / pm designator gives exactly one value, `h am ↦ h mod 12`, `h pm ↦ h mod 12 + 12` (so 12 pm is 12 and
12 am is 00). Repaired suffix style (`rep = true`); am designators hold for the code as found too. -/
theorem designator_cultures (u : Uni) (ha : u.Ascii) (rep : Bool) (k) (hk : k ∈ cultureStyles rep) (flags : List Bool)
    (ltoh : Option (Str × Str)) (si : SuffixInfo) (pm : Bool) (hd : PlainDesignator si pm) (hrep : rep = true ∨ pm = false)
    (c : Clock) (wf : c.WF u) (h1 : 1 ≤ c.h) (h12 : c.h ≤ 12) (sfx : Str) (hsfx : blank u sfx = false)
    (ref : DT) (hv : ref.date.valid = true) :
    resolveTime u (cultureCfg u k flags ltoh si) (c.groupsSfx sfx) ref =
      .ok (some [c.value (c.h % 12 + if pm then 12 else 0)]) := by
  have hst : k.2.2.2.simple = true ∨ k.2.2.2.elsePm = true ∨ pm = false := by
    simp only [cultureStyles, List.mem_cons, List.mem_nil_iff, or_false] at hk
    rcases hrep with rfl | rfl
    · rcases hk with rfl | rfl | rfl | rfl | rfl | rfl | rfl | rfl <;>
        simp [enSuffixStyle, simpleSuffixStyle, nightSuffixStyle, nlSuffixStyle]
    · exact Or.inr (Or.inr rfl)
  exact resolveTime_designator u ha _ k.2.2.2 si pm hd hst (fun _ _ => rfl) c wf h1 h12 sfx hsfx ref hv

/-- the suffix outcome of `in the afternoon` (any plain pm designator) -/
def siPlainPm : SuffixInfo := { full := true, pm := [112, 109] }

example : PlainDesignator siPlainPm true := ⟨rfl, rfl, rfl, rfl, rfl, rfl⟩

/-- Negative witness (code as found before `fix: 2534fc60f`, finding `afternoon-12`): `12 in the afternoon` keeps
the `ampm` comment and resolves to both 12:00 and 00:00 … -/
theorem afternoon_12_both_readings :
    (resolveTime asciiUni (cultureCfg asciiUni ("en-us", numbers_en, enPrefixStyle, enSuffixStyle false) [] none siPlainPm)
      (({ hs := [49, 50], h := 12 } : Clock).groupsSfx [105, 110]) refWitness).toOption =
      some (some [{ timex := [84, 49, 50], type := sTime, value := some [49, 50, 58, 48, 48, 58, 48, 48] },
                  { timex := [84, 48, 48], type := sTime, value := some [48, 48, 58, 48, 48, 58, 48, 48] }]) := by
  decide +kernel

/-- … and to 12:00 alone once the closing `else` is there. -/
theorem afternoon_12_repaired :
    (resolveTime asciiUni (cultureCfg asciiUni ("en-us", numbers_en, enPrefixStyle, enSuffixStyle true) [] none siPlainPm)
      (({ hs := [49, 50], h := 12 } : Clock).groupsSfx [105, 110]) refWitness).toOption =
      some (some [{ timex := [84, 49, 50], type := sTime, value := some [49, 50, 58, 48, 48, 58, 48, 48] }]) := by
  decide +kernel


/-! ## Chinese (`ChineseTimeParser`, its own decode step) -/

/-- the Chinese configuration with the regenerated tables -/
def zhCfg (anyHour : Bool) : ZhCfg := { numbersMap := timeNumbers_zh, lowBound := timeLowBound_zh, ampmAnyHour := anyHour }

/-- C07(a),(c) for Chinese digit clock times `H:MM[:SS]` (`handle_digit` → `pack_time_result`): every time 00:00 …
23:59:59 resolves to itself; hours 1–12 without 上午 / 下午 … give exactly the two readings twelve hours apart.
Guarded variant (`fix: 1a38b64a7`). -/
theorem clock24_zh (u : Uni) (ha : u.Ascii) (c : Clock) (w : c.ZhWF u) (ref : DT) (hv : ref.date.valid = true) :
    resolveTimeZh u (zhCfg false) false c.zhGroups ref =
      .ok (some (if 1 ≤ c.h ∧ c.h ≤ 12 then [c.value c.h, c.value ((c.h + 12) % 24)] else [c.value c.h])) := by
  rw [resolveTimeZh_digit u ha (zhCfg false) rfl c w ref hv]
  split
  · rename_i h; rw [(toPm_twelve_apart c.h h.1 h.2).1]
  · rfl

/-- `19:13` as the Chinese extractor captures it -/
def clock1913 : Clock := { hs := [49, 57], h := 19, ms := some ([49, 51], 13) }

/-- Negative witness (code as found before `fix: 1a38b64a7`, finding `zh-ampm-any-hour`): `19:13` gets a second,
impossible reading `T31:13` / `31:13:00` … -/
theorem zh_ampm_any_hour_witness :
    (resolveTimeZh asciiUni (zhCfg true) false clock1913.zhGroups refWitness).toOption =
      some (some [{ timex := [84, 49, 57, 58, 49, 51], type := sTime, value := some [49, 57, 58, 49, 51, 58, 48, 48] },
                  { timex := [84, 51, 49, 58, 49, 51], type := sTime, value := some [51, 49, 58, 49, 51, 58, 48, 48] }]) := by
  decide +kernel

/-- … and exactly `T19:13` in the guarded variant. -/
theorem zh_1913_guarded :
    (resolveTimeZh asciiUni (zhCfg false) false clock1913.zhGroups refWitness).toOption =
      some (some [{ timex := [84, 49, 57, 58, 49, 51], type := sTime, value := some [49, 57, 58, 49, 51, 58, 48, 48] }]) := by
  decide +kernel

/-- 下午 (low bound 12 in the regenerated `TimeLowBoundDesc`) is a pm designator: `下午5:00` is 17:00 and `下午12:00` stays
12:00; 汉字 hours decode through `TimeNumberDictionary` (`十一点半` is 11:30, both readings). Checked on the tables. -/
theorem zh_designator_examples :
    (resolveTimeZh asciiUni (zhCfg false) false { hour := [53], min := [48, 48], daydesc := [19979, 21320] } refWitness).toOption =
      some (some [{ timex := [84, 49, 55, 58, 48, 48], type := sTime, value := some [49, 55, 58, 48, 48, 58, 48, 48] }]) ∧
    (resolveTimeZh asciiUni (zhCfg false) false { hour := [49, 50], min := [48, 48], daydesc := [19979, 21320] } refWitness).toOption =
      some (some [{ timex := [84, 49, 50, 58, 48, 48], type := sTime, value := some [49, 50, 58, 48, 48, 58, 48, 48] }]) ∧
    (resolveTimeZh asciiUni (zhCfg false) true { hour := [21313, 19968], half := [21322] } refWitness).toOption =
      some (some [{ timex := [84, 49, 49, 58, 51, 48], type := sTime, value := some [49, 49, 58, 51, 48, 58, 48, 48] },
                  { timex := [84, 50, 51, 58, 51, 48], type := sTime, value := some [50, 51, 58, 51, 48, 58, 48, 48] }]) := by
  decide +kernel


/-! ## `<date> at <time with a designator phrase>` and the word shift of `merge_date_and_time`

`merge_date_and_time` searches the whole text for a PM word (`afternoon|evening|night`, …) and an AM word (`morning`, …)
and shifts the hour of the *already parsed* time by twelve. `only = false` is the code as found (always shift), `only = true`
the variant that shifts an ambiguous time only (finding `night-attached-shift`). -/

/-- C07(d) with a designator phrase: `<date> at h[:mm[:ss]] <am / pm designator>` (1 ≤ h ≤ 12) is the datetime composed of
the date and the time the phrase designates (`h mod 12`, `+ 12` for pm) — exactly one value — in the repaired variant for
any words in the text, and in the code as found when the words do not contradict the designator (no AM word next to a pm
designator, no PM word next to an am designator). Every culture whose suffix style sets `has_pm`. -/
theorem date_at_designator (u : Uni) (dcfg : DateCfg) (hmax : dcfg.maxTwoDigitYearFuture ≤ 100)
    (dg : DateGroups) (y mo d : Nat) (hdec : Decodes u dcfg dg y mo d) (hy : 1000 ≤ y ∧ y ≤ 9999)
    (hvd : (⟨y, mo, d⟩ : Date).valid = true) (wy : Int) (tcfg : TimeCfg) (st : SuffixStyle) (si : SuffixInfo) (pm : Bool)
    (hd : PlainDesignator si pm) (hst : st.simple = true ∨ st.elsePm = true ∨ pm = false)
    (hcfg : ∀ s a, tcfg.adjustBySuffix s a = .ok (adjustBySuffixG st si a))
    (c : Clock) (wf : c.WF u) (h1 : 1 ≤ c.h) (h12 : c.h ≤ 12) (sfx : Str) (hsfx : blank u sfx = false)
    (pmT amT only : Bool) (hw : only = true ∨ (if pm then amT = false else pmT = false))
    (ref : DT) (hv : ref.date.valid = true) :
    resolveDateAtTime u dcfg dg wy tcfg (c.groupsSfx sfx) pmT amT ref only =
      .ok (some [c.dtValue y mo d (c.h % 12 + if pm then 12 else 0)]) := by
  rw [resolveDateAtTime_designator u dcfg hmax dg y mo d hdec hy hvd wy tcfg st si pm hd hst hcfg c wf h1 h12 sfx hsfx
    pmT amT only ref hv]
  have e : mergeHour (!only) pmT amT (c.h % 12 + if pm then 12 else 0) = c.h % 12 + if pm then 12 else 0 := by
    rcases hw with rfl | hw
    · simp [mergeHour]
    · cases pm
      · simp only [Bool.false_eq_true, if_false] at hw ⊢
        subst hw
        simp only [mergeHour, Nat.add_zero]
        have a : ¬ (c.h % 12 < 12 → False) → True := fun _ => trivial
        split
        · rename_i hc; simp at hc
        · split
          · rename_i hc; simp at hc; omega
          · rfl
      · simp only [if_true] at hw ⊢
        subst hw
        simp only [mergeHour]
        split
        · rename_i hc; simp at hc; omega
        · split
          · rename_i hc; simp at hc
          · rfl
  rw [e]

/-- … and for each culture's configuration (repaired suffix style). -/
theorem date_at_designator_cultures (u : Uni) (k) (hk : k ∈ cultureStyles true) (flags : List Bool)
    (ltoh : Option (Str × Str)) (si : SuffixInfo) (pm : Bool) (hd : PlainDesignator si pm)
    (dcfg : DateCfg) (hmax : dcfg.maxTwoDigitYearFuture ≤ 100) (dg : DateGroups) (y mo d : Nat)
    (hdec : Decodes u dcfg dg y mo d) (hy : 1000 ≤ y ∧ y ≤ 9999) (hvd : (⟨y, mo, d⟩ : Date).valid = true) (wy : Int)
    (c : Clock) (wf : c.WF u) (h1 : 1 ≤ c.h) (h12 : c.h ≤ 12) (sfx : Str) (hsfx : blank u sfx = false)
    (pmT amT only : Bool) (hw : only = true ∨ (if pm then amT = false else pmT = false))
    (ref : DT) (hv : ref.date.valid = true) :
    resolveDateAtTime u dcfg dg wy (cultureCfg u k flags ltoh si) (c.groupsSfx sfx) pmT amT ref only =
      .ok (some [c.dtValue y mo d (c.h % 12 + if pm then 12 else 0)]) := by
  have hst : k.2.2.2.simple = true ∨ k.2.2.2.elsePm = true ∨ pm = false := by
    simp only [cultureStyles, List.mem_cons, List.mem_nil_iff, or_false] at hk
    rcases hk with rfl | rfl | rfl | rfl | rfl | rfl | rfl | rfl <;>
      simp [enSuffixStyle, simpleSuffixStyle, nightSuffixStyle, nlSuffixStyle]
  exact date_at_designator u dcfg hmax dg y mo d hdec hy hvd wy _ k.2.2.2 si pm hd hst (fun _ _ => rfl) c wf h1 h12 sfx hsfx
    pmT amT only hw ref hv

/-- the suffix outcome of `in the night` (English: pm group, night rule) -/
def siNight : SuffixInfo := { full := true, pm := [110, 105, 103, 104, 116], night := true }

/-- `2`, and the date groups of `3/5/2019` -/
def clock2 : Clock := { hs := [50], h := 2 }
def dg352019 : DateGroups := { year := [50, 48, 49, 57], month := [51], day := [53] }
def enDateCfg : DateCfg :=
  { monthOfYear := monthOfYear_en, dayOfMonth := dayOfMonth_en, minTwoDigitYearPast := minTwoDigitYearPastNum,
    maxTwoDigitYearFuture := maxTwoDigitYearFutureNum }

/-- Negative witness (code as found, finding `night-attached-shift`): alone, `2 in the night` is 02:00 (the night rule of
`adjust_by_suffix`) … -/
theorem night_alone_is_2am :
    (resolveTime asciiUni (cultureCfg asciiUni ("en-us", numbers_en, enPrefixStyle, enSuffixStyle true) [] none siNight)
      (clock2.groupsSfx [105, 110]) refWitness).toOption =
      some (some [{ timex := [84, 48, 50], type := sTime, value := some [48, 50, 58, 48, 48, 58, 48, 48] }]) := by
  decide +kernel

/-- … but `3/5/2019 at 2 in the night` is 14:00, because `merge_date_and_time` finds the PM word `night` in the text and
adds twelve hours to the hour the time parser had already resolved; the variant that shifts ambiguous times only keeps 02:00. -/
theorem night_attached_shift :
    (resolveDateAtTime asciiUni enDateCfg dg352019 0
        (cultureCfg asciiUni ("en-us", numbers_en, enPrefixStyle, enSuffixStyle true) [] none siNight)
        (clock2.groupsSfx [105, 110]) true false refWitness false).toOption =
      some (some [{ timex := [50, 48, 49, 57, 45, 48, 51, 45, 48, 53, 84, 49, 52], type := sDateTime,
                    value := some [50, 48, 49, 57, 45, 48, 51, 45, 48, 53, 32, 49, 52, 58, 48, 48, 58, 48, 48] }]) ∧
    (resolveDateAtTime asciiUni enDateCfg dg352019 0
        (cultureCfg asciiUni ("en-us", numbers_en, enPrefixStyle, enSuffixStyle true) [] none siNight)
        (clock2.groupsSfx [105, 110]) true false refWitness true).toOption =
      some (some [{ timex := [50, 48, 49, 57, 45, 48, 51, 45, 48, 53, 84, 48, 50], type := sDateTime,
                    value := some [50, 48, 49, 57, 45, 48, 51, 45, 48, 53, 32, 48, 50, 58, 48, 48, 58, 48, 48] }]) := by
  decide +kernel

/-- A plain clock time next to a PM word (`at 3 tomorrow afternoon` — time `3`, ambiguous): the word decides, hour
1–11 ↦ h + 12, one value; both variants. -/
theorem date_word_shift (u : Uni) (ha : u.Ascii) (dcfg : DateCfg) (hmax : dcfg.maxTwoDigitYearFuture ≤ 100)
    (dg : DateGroups) (y mo d : Nat) (hdec : Decodes u dcfg dg y mo d) (hy : 1000 ≤ y ∧ y ≤ 9999)
    (hvd : (⟨y, mo, d⟩ : Date).valid = true) (wy : Int) (tcfg : TimeCfg) (c : Clock) (wf : c.WF u)
    (h1 : 1 ≤ c.h) (h11 : c.h ≤ 11) (only : Bool) (ref : DT) (hv : ref.date.valid = true) :
    resolveDateAtTime u dcfg dg wy tcfg (c.groups false false) true false ref only =
      .ok (some [c.dtValue y mo d (c.h + 12)]) := by
  have w60 := wf_m60 u c wf
  have hp : pivotYear dcfg y = y := pivot_four dcfg y (by omega) hmax
  have ah : adjHour c.h false false = c.h := by simp [adjHour]
  have hc : (0 < c.h ∧ c.h ≤ 12 ∧ false = false ∧ false = false) := ⟨by omega, by omega, rfl, rfl⟩
  have eq : (sAmPm == sAmPm) = true := by decide
  simp only [resolveDateAtTime, matchToDate_of u dcfg dg y mo d y wy ref hdec hp (by omega), safeCreate_valid y mo d hvd,
    matchToTime_clock u tcfg c false false ref wf (Or.inr (by omega)) hv, bind, Except.bind, Option.getD_some, ah, hc,
    and_self, if_true]
  rw [merge_clock_words c w60 c.h (by omega) _ _ y mo d hvd _ ⟨rfl, rfl, rfl⟩ true false only]
  have mh : mergeHour (!only || sAmPm == sAmPm) true false c.h = c.h + 12 := by
    have : c.h < 12 := by omega
    simp [mergeHour, eq, this]
  have nc : ¬ (c.h + 12 ≤ 12) := by omega
  simp only [mh, nc, false_and, if_false]
  exact dtRes_datetime_plain u _ y mo d _ c.m c.s (by omega) (by omega)


/-! ## Today-relative day words: `tonight at 7`, `this morning at 7:30` (`parse_time_of_today`) -/

/-- English hooks with the regenerated numbers table -/
def enTodCfg (u : Uni) : TodCfg := { numbers := numbers_en, getSwiftDay := enGetSwiftDay u, getHour := enGetHour u }

/-- the slot the time parser hands over for the clock time `c` (what `matchToTime_clock` proves `match_to_time` yields) -/
def Clock.slot (c : Clock) (ref : DT) : Slot :=
  toSlot .time (Res.mk true (c.timex c.h) (if 0 < c.h ∧ c.h ≤ 12 then sAmPm else []) ⟨ref.y, ref.m, ref.d, c.h, c.m, c.s⟩
    ⟨ref.y, ref.m, ref.d, c.h, c.m, c.s⟩)

/-- `<day word> at h[:mm[:ss]]` where the day word (first match of `SpecificTimeOfDayRegex`) has no `next` / `last` and
does not end in `morning` (tonight, this afternoon, this evening …) and 6 ≤ h < 24: exactly one datetime, the reference
date with hour `h + 12` for h < 12 and `h` otherwise — the day word settles the am/pm question. -/
theorem time_of_today_pm_word (u : Uni) (c : Clock) (wf : c.WF u) (ms : Str)
    (hn : startsWith (strip u.isSpace ms) [110, 101, 120, 116] = false)
    (hl : startsWith (strip u.isSpace ms) [108, 97, 115, 116] = false)
    (hm : endsWith (strip u.isSpace ms) [109, 111, 114, 110, 105, 110, 103] = false)
    (h6 : 6 ≤ c.h) (ref : DT) (hv : ref.date.valid = true) (hy : 1000 ≤ ref.y) :
    resolveTimeOfToday u (enTodCfg u) (.parsed (c.slot ref)) (some ms) ref =
      .ok (some [c.dtValue ref.y ref.m ref.d (if c.h < 12 then c.h + 12 else c.h)]) := by
  have w60 := wf_m60 u c wf
  have h24 := wf.h24
  have vr := (valid_iff ref.date).1 hv
  simp only [DT.date] at vr
  have hlt : (if c.h < 12 then c.h + 12 else c.h) < 24 := by split <;> omega
  simp only [resolveTimeOfToday, Clock.slot]
  rw [parseTimeOfToday_parsed u (enTodCfg u) c w60 c.h h24 _ _ ⟨rfl, rfl, rfl⟩ ms (enGetSwiftDay_plain u ms hn hl) _
    (enGetHour_pmWord u ms hm c.h h6 h24) hlt ref hv]
  simp only [bind, Except.bind]
  exact dtRes_datetime_plain u _ ref.y ref.m ref.d _ c.m c.s (by omega) (by omega)

/-- `this morning at h[:mm[:ss]]`, h < 12: the reference date at `h`, one value. -/
theorem time_of_today_morning (u : Uni) (c : Clock) (wf : c.WF u) (ms : Str)
    (hn : startsWith (strip u.isSpace ms) [110, 101, 120, 116] = false)
    (hl : startsWith (strip u.isSpace ms) [108, 97, 115, 116] = false)
    (hm : endsWith (strip u.isSpace ms) [109, 111, 114, 110, 105, 110, 103] = true)
    (h12 : c.h < 12) (ref : DT) (hv : ref.date.valid = true) (hy : 1000 ≤ ref.y) :
    resolveTimeOfToday u (enTodCfg u) (.parsed (c.slot ref)) (some ms) ref =
      .ok (some [c.dtValue ref.y ref.m ref.d c.h]) := by
  have w60 := wf_m60 u c wf
  have vr := (valid_iff ref.date).1 hv
  simp only [DT.date] at vr
  simp only [resolveTimeOfToday, Clock.slot]
  rw [parseTimeOfToday_parsed u (enTodCfg u) c w60 c.h (by omega) _ _ ⟨rfl, rfl, rfl⟩ ms (enGetSwiftDay_plain u ms hn hl) _
    (enGetHour_morning u ms hm c.h h12) (by omega) ref hv]
  simp only [bind, Except.bind]
  exact dtRes_datetime_plain u _ ref.y ref.m ref.d _ c.m c.s (by omega) (by omega)

/-- `tonight at 7` on the witness reference: 2016-11-07T19; `tonight at 2` stays 02:00 (night rule of `get_hour`). -/
theorem tonight_examples :
    (resolveTimeOfToday asciiUni (enTodCfg asciiUni) (.parsed (({ hs := [55], h := 7 } : Clock).slot refWitness))
        (some [116, 111, 110, 105, 103, 104, 116]) refWitness).toOption =
      some (some [{ timex := [50, 48, 49, 54, 45, 49, 49, 45, 48, 55, 84, 49, 57], type := sDateTime,
                    value := some [50, 48, 49, 54, 45, 49, 49, 45, 48, 55, 32, 49, 57, 58, 48, 48, 58, 48, 48] }]) ∧
    (resolveTimeOfToday asciiUni (enTodCfg asciiUni) (.parsed (clock2.slot refWitness))
        (some [116, 111, 110, 105, 103, 104, 116]) refWitness).toOption =
      some (some [{ timex := [50, 48, 49, 54, 45, 49, 49, 45, 48, 55, 84, 48, 50], type := sDateTime,
                    value := some [50, 48, 49, 54, 45, 49, 49, 45, 48, 55, 32, 48, 50, 58, 48, 48, 58, 48, 48] }]) := by
  decide +kernel

/-- shape of the TIMEX: `T`, two digits, then `:mm` / `:ss` exactly for the parts that were written -/
theorem short_time_shape (c : Clock) (hh : Nat) (h : hh < 100) :
    c.timex hh = [84, 48 + hh / 10, 48 + hh % 10] ++ c.tail := by
  simp [Clock.timex, fmtD2 hh h]

end RTV.DtRes
