import RTV.Lemmas.DtExtract
import RTV.Props.C01
import RTV.Props.C12
/-!
# C01 / C12 — the date-time SUB-EXTRACTORS hand `merge_all_tokens` tokens that lie inside the text

Property theorems about `RTV.Model.DtExtract` (the token arithmetic of `BaseDateExtractor`, `BaseTimeExtractor`,
`BaseDurationExtractor`, `BaseDateTimeExtractor`, `BaseDatePeriodExtractor`, `BaseTimePeriodExtractor`,
`BaseDateTimePeriodExtractor`, `AgoLaterUtil`). The regex engine and the sub-recognisers are parameters: every
theorem quantifies over ALL match facts that an engine can report on the string the code ran it on (a match lies in
that string; a `regex.match` starts at 0; a `ConditionalMatch` index + length lies in the searched string; a
sub-extractor result lies in the text) and over all texts lengths `n`. Conclusion everywhere: every token has
`0 ≤ start ≤ end ≤ n` (`Tok.Inside n`); `subextractor_results_ok` then carries that through `merge_all_tokens` to
"every ExtractResult is inside the text, its text is the slice at its span, results are pairwise disjoint".

Where the code does NOT guarantee it the full statement is kept as a comment, a `_partial` theorem states the exact
guard and a witness theorem shows concrete match facts that break it.
-/
namespace RTV.DtExtract
open RTV.Py RTV.Span

/-! ## the bridge to `merge_all_tokens` -/

/-- C01 + C12, any sub-extractor: if every token handed to `merge_all_tokens` lies inside the text, every
`ExtractResult` lies inside the text, carries the slice of the text at its span, and the results are pairwise
disjoint. -/
theorem subextractor_results_ok (src : Str) (ts : List Tok) (h : ∀ t ∈ ts, t.Inside src.length) :
    let tks := ts.zipIdx.map fun x => x.1.toTk x.2
    (∀ e ∈ mergeAllTokens src tks, e.start + e.len ≤ src.length ∧ e.text = sl src e.start e.len) ∧
    (mergeAllTokens src tks).Pairwise Disjoint := by
  intro tks
  have hin : ∀ t ∈ tks, t.start ≤ t.stop ∧ t.stop ≤ src.length := by
    intro t ht
    simp only [tks, List.mem_map] at ht
    obtain ⟨x, hx, rfl⟩ := ht
    have hm : x.1 ∈ ts := by
      have := List.mem_zipIdx hx
      rw [this.2.2]
      exact List.getElem_mem _
    obtain ⟨a, b, c⟩ := h x.1 hm
    unfold Tok.toTk
    simp only
    omega
  refine ⟨?_, mergeAllTokens_disjoint src tks (fun t ht => (hin t ht).1)⟩
  intro e he
  obtain ⟨t, ht, _, _, _, h4, h5⟩ := mergeAllTokens_text src tks e he
  exact ⟨h5 (hin t ht).1 (hin t ht).2, h4⟩

/-! ## BaseDateExtractor -/

/-- `basic_regex_match`: every token lies inside the text — for any validated matches, wherever the matched text
occurs first, and any relative-term match in front of it. -/
theorem dateBasic_inside (n : Int) (fs : List BasicFact) (h : ∀ f ∈ fs, BasicOK n f) :
    ∀ t ∈ dateBasic fs, t.Inside n := by
  intro t ht
  unfold dateBasic at ht
  rw [List.mem_map] at ht
  obtain ⟨f, hf, rfl⟩ := ht
  obtain ⟨h0, h1, ⟨m0, m1, m2⟩, hr⟩ := h f hf
  unfold dateBasicOne
  cases hrel : f.rel with
  | none => unfold Tok.Inside; simp only; omega
  | some c =>
    obtain ⟨c0, c1, c2⟩ := optP_some hr hrel
    simp only
    split <;> (unfold Tok.Inside; simp only; omega)

/-- PRE-FIX REGRESSION (tree without basic-regex-first-occurrence.diff): the token is placed at the FIRST occurrence
of the matched text (`source.index(match.group())`), not at the match: in `"15/12 and 5/12"` the match `5/12` at
`[10, 14)` yields the token `[1, 5)`, which `merge_all_tokens` then drops as contained in `15/12` — the second date
is lost (inside the text, so neither C01 nor C12 fails; a recall defect). -/
theorem dateBasic_first_occurrence :
    dateBasicV Variant.current [⟨0, ⟨0, 5⟩, none⟩, ⟨1, ⟨10, 14⟩, none⟩] = [⟨0, 5⟩, ⟨1, 5⟩] := by decide

/-- facts of the repaired `basic_regex_match`: the relative-term match lies in `source[0:match.start()]`. -/
def BasicOKFixed (n : Int) (f : BasicFact) : Prop := f.m.In n ∧ optP f.rel (fun c => c.In f.m.s)

/-- REPAIRED variant, full strength: every token lies inside the text, ENDS where its match ends and starts at the
match or at the relative term in front of it — every validated match is covered by its own token, wherever else
its text occurs. -/
theorem dateBasic_fixed_covers_match (n : Int) (v : Variant) (hv : v.basicMatchStart = true) (fs : List BasicFact)
    (h : ∀ f ∈ fs, BasicOKFixed n f) :
    ∀ t ∈ dateBasicV v fs, t.Inside n ∧ ∃ f ∈ fs, t.stop = f.m.e ∧ t.start ≤ f.m.s := by
  intro t ht
  unfold dateBasicV at ht
  simp only [hv, ↓reduceIte, List.mem_map] at ht
  obtain ⟨f, hf, rfl⟩ := ht
  obtain ⟨⟨m0, m1, m2⟩, hr⟩ := h f hf
  refine ⟨?_, f, hf, ?_⟩
  · unfold dateBasicOneFixed
    cases hrel : f.rel with
    | none => exact ⟨m0, m1, m2⟩
    | some c =>
      obtain ⟨c0, c1, c2⟩ := optP_some hr hrel
      simp only
      split <;> (unfold Tok.Inside; simp only; omega)
  · unfold dateBasicOneFixed
    cases hrel : f.rel with
    | none => simp
    | some c =>
      obtain ⟨c0, c1, c2⟩ := optP_some hr hrel
      simp only
      split
      · exact ⟨rfl, by simp only; omega⟩
      · exact ⟨rfl, by simp only; omega⟩

/-- … on the facts of the regression input the repaired variant keeps both dates. -/
theorem dateBasic_fixed_keeps_second_date :
    dateBasicV Variant.repaired [⟨0, ⟨0, 5⟩, none⟩, ⟨1, ⟨10, 14⟩, none⟩] = [⟨0, 5⟩, ⟨10, 14⟩] := by decide

/-- `get_tokens_from_regex` (`implicit_date`, `implicit_duration`, `BaseDateTimeExtractor.basic_regex_match`, …). -/
theorem tokensOf_inside (n : Int) (ms : List Mt) (h : ∀ m ∈ ms, m.In n) : ∀ t ∈ tokensOf ms, t.Inside n := by
  intro t ht
  unfold tokensOf at ht
  rw [List.mem_map] at ht
  obtain ⟨m, hm, rfl⟩ := ht
  exact h m hm

/-- `get_year_index(suffix, year, False)` always reports success for a `regex.match` result (anchored at 0, or
`None`), so the "also in prefix" look-up of `extend_with_week_day_and_year` — which is handed the SUFFIX again and
would move the start index left by a suffix length — is never reached, whatever `check_both_before_after` says. -/
theorem yearIndex_prefix_lookup_dead (L : Int) (y : YearIdx) (h : YearOK L y) : (getYearIndex y false).2 = true := by
  rcases getYearIndex_suffix L y h with h | h
  · exact h.1
  · exact h.2.2.1

/-- `extend_with_week_day_and_year`: the start only moves left (to a week day in front), the end only moves right
(year, or week day behind) and both stay inside the text — under the guard that year and week-day-in-suffix do not
both fire. -/
theorem extendWdYear_inside (n si ei : Int) (e : ExtFacts) (h0 : 0 ≤ si) (h1 : si ≤ ei) (h2 : ei ≤ n)
    (h : ExtOK n si ei e) :
    0 ≤ (extendWdYear si ei e).1 ∧ (extendWdYear si ei e).1 ≤ si ∧ ei ≤ (extendWdYear si ei e).2 ∧
      (extendWdYear si ei e).2 ≤ n :=
  extendWdYear_bounds n si ei e h0 h1 h2 h

/-
Full-strength statement, which does not hold (the guard is dropped):
  theorem extendWdYear_inside_full … (YearOK …) (wdStart In (n - ei)) : (extendWdYear si ei e).2 ≤ n
-/

/-- outside the guard: both the year and the week day are matched at the beginning of the SAME old suffix and both
lengths are added — the end index leaves the text (text of length 12, `end = 6`, year match `[0, 5)`, week-day match
`[0, 6)`: end becomes 17). No shipped regex pair matches the same suffix start (monitored: 0 occurrences). -/
theorem extendWdYear_overrun_witness :
    (extendWdYear 0 6 ⟨⟨some ⟨0, 5⟩, true, 6, 6⟩, false, ⟨none, false, 0, 0⟩, none, some ⟨0, 6⟩, true⟩).2 = 17 := by
  decide

/-- `number_with_month`: every token of every branch (month before the number, `for the 25th`, `Thursday the 21st`,
`Monday 21`, `20th of next month`, `second Sunday`, `22nd of June` incl. the year / week-day extension) lies inside
the text — for any number results and any regex outcomes on the prefix / suffix slices. -/
theorem numberWithMonth_inside (n : Int) (fs : List NwmFacts) (h : ∀ f ∈ fs, NwmOK n f) :
    ∀ t ∈ numberWithMonth n fs, t.Inside n := by
  intro t ht
  unfold numberWithMonth at ht
  rw [List.mem_flatMap] at ht
  obtain ⟨f, hf, ht⟩ := ht
  have hok := h f hf
  have hfront := nwmFront_inside n f hok
  obtain ⟨h0, h1, h2, _, _, _, _, _, _, _, _, _, hom⟩ := hok
  unfold nwmOne at ht
  split at ht
  · cases ht
  · simp only at ht
    by_cases hc : (nwmFront f).2 = true
    · simp only [hc, ↓reduceIte] at ht
      exact hfront t ht
    · simp only [hc, Bool.false_eq_true, ↓reduceIte, List.mem_append] at ht
      rcases ht with ht | ht
      · exact hfront t ht
      · split at ht
        · cases hm : f.ofMonth with
          | none => simp [hm] at ht
          | some m =>
            obtain ⟨⟨a, b, c⟩, hext⟩ := optP_some hom hm
            simp only [hm, List.mem_singleton] at ht
            subst ht
            have hb := extendWdYear_bounds n f.start (f.start + f.len + (m.e - m.s)) f.ext2 h0 (by omega) (by omega) hext
            unfold Tok.Inside; simp only; omega
        · cases ht

/-- the hypothesis bundle is satisfiable (`"the 20th of next month"`-shaped facts). -/
def nwmExample : NwmFacts where
  num := 20
  start := 4
  len := 4
  isOrd := true
  invalidPrefix := false
  monthEnd := none
  ext1 := default
  forThe := []
  wdDom := []
  wdDay := []
  relMonth := some ⟨0, 10⟩
  spaceLen := 1
  prefixArt := some ⟨0, 4⟩
  weekDay := none
  weekDayOK := false
  ofMonth := none
  ext2 := default

example : NwmOK 20 nwmExample := by
  unfold NwmOK nwmExample
  refine ⟨by decide, by decide, by decide, trivial, by simp, by simp, by simp, by decide, by decide, ?_, ?_, trivial, trivial⟩
  · show Mt.In _ _; unfold Mt.In; decide
  · show Mt.In _ _; unfold Mt.In; decide

/-- `AgoLaterUtil.extractor_duration_with_before_and_after` (`N units ago / later / from now`, `in N units`, `within
N units`): every appended token lies inside the text. -/
theorem agoLater_inside (n : Int) (ret : List Tok) (f : AgoFacts) (hr : ∀ t ∈ ret, t.Inside n) (h : AgoOK n f) :
    ∀ t ∈ agoLater n ret f, t.Inside n := by
  intro t ht
  unfold agoLater at ht
  rw [List.mem_append] at ht
  rcases ht with ht | ht
  · exact hr t ht
  · exact agoLaterNew_inside' n f h t ht

/-- `BaseDateTimeExtractor.duration_with_before_and_after`. -/
theorem durationWithBeforeAndAfter_inside (n : Int) (fs : List AgoFacts) (h : ∀ f ∈ fs, AgoOK n f) :
    ∀ t ∈ durationWithBeforeAndAfter n fs, t.Inside n := by
  unfold durationWithBeforeAndAfter
  have : ∀ (acc : List Tok), (∀ t ∈ acc, t.Inside n) → ∀ t ∈ fs.foldl (agoLater n) acc, t.Inside n := by
    induction fs with
    | nil => intro acc ha; simpa using ha
    | cons f rest ih =>
      intro acc ha
      simp only [List.foldl_cons]
      exact ih (fun f' hf' => h f' (by simp [hf'])) _ (agoLater_inside n acc f ha (h f (by simp)))
  exact this [] (by simp)

/-- `BaseDateExtractor.relative_duration_date`, first loop (including the list doubling of
`tokens.extend(<the same list>)`): every token lies inside the text. -/
theorem relDurLoop_inside (n : Int) (ds : List DurFact) (h : ∀ d ∈ ds, AgoOK n d.ago) :
    ∀ t ∈ relDurLoop n ds [], t.Inside n :=
  relDurLoop_inside' n ds [] (by simp) h

/-- the doubling: one date-unit duration with an `ago` suffix yields its token twice. -/
theorem relDurLoop_doubles :
    relDurLoop 10 [⟨false, true, ⟨⟨0, 6⟩, false, (⟨true, 4⟩, false), (⟨false, -1⟩, false), -1, false, -1, false⟩⟩] []
      = [⟨0, 10⟩, ⟨0, 10⟩] := by decide

/-
Full-strength statement for the in-prefix part, which does not hold:
  theorem inPrefixOne_inside … (f.dur.In n) (cm.In (n - (dur.start + dur.len))) : ∀ t ∈ inPrefixOne f, t.Inside n
-/

/-- `extract_relative_duration_date_with_in_prefix`: the connector is searched at the end of the text AFTER the
duration and its index — an index into that suffix — becomes the token start: inside `[0, n]` on both ends, but
not ordered. -/
theorem inPrefixOne_partial (n : Int) (f : InPrefFact) (hd : f.dur.In n)
    (hc : optP f.cm (fun c => c.In (n - (f.dur.start + f.dur.len)))) :
    ∀ l, inPrefixOne f = some l → ∀ t ∈ l, 0 ≤ t.start ∧ t.start ≤ n ∧ 0 ≤ t.stop ∧ t.stop ≤ n := by
  intro l hl t ht
  obtain ⟨d0, d1, d2⟩ := hd
  unfold inPrefixOne at hl
  split at hl
  · cases hl; cases ht
  · cases hcm : f.cm with
    | none => simp [hcm] at hl; subst hl; cases ht
    | some c =>
      obtain ⟨c0, c1, c2⟩ := optP_some hc hcm
      simp only [hcm] at hl
      split at hl
      · split at hl
        · cases hl
        · cases hl
          simp only [List.mem_singleton] at ht
          subst ht
          simp only
          omega
      · cases hl; cases ht

/-- … witness: duration `[0, 5)` in a text of length 30 whose tail ends with the connector at suffix index 20: the
token is `(20, 5)`, reversed, so `Token.length` is 0 and `merge_all_tokens` emits an empty result at offset 20.
(Not observed with the shipped regexes: `range_unit_regex.match` must match the duration text at its first
character; monitored, 0 occurrences.) -/
theorem inPrefix_reversed_witness :
    inPrefixOne ⟨⟨0, 5⟩, false, some ⟨20, 2, true⟩, true, false⟩ = some [⟨20, 5⟩] ∧
      (⟨20, 5⟩ : Tok).length = 0 ∧ ¬ (⟨20, 5⟩ : Tok).Inside 30 := by decide

/-- … and when `since_year_suffix_regex` matches the code evaluates `len(<Match>)`: TypeError. -/
theorem inPrefix_since_year_raises : inPrefixOne ⟨⟨3, 7⟩, false, some ⟨0, 2, true⟩, true, true⟩ = none := by decide

/-! ## BaseTimeExtractor -/

/-- `basic_regex_match` / `at_regex_match` / `specials_regex_match`: the kept matches, as they are. -/
theorem tokensOfKept_inside (n : Int) (ms : List (Mt × Bool)) (h : ∀ x ∈ ms, x.1.In n) :
    ∀ t ∈ tokensOfKept ms, t.Inside n := by
  unfold tokensOfKept
  apply mem_filterMap_tok
  intro x hx t ht
  split at ht
  · cases ht; exact h x hx
  · cases ht

/-! ## BaseDurationExtractor -/

/-- `number_with_unit`: a cardinal plus the unit matched at the start of what follows it; the three regex families. -/
theorem numberWithUnit_inside (n : Int) (cs : List (Ent × Option Mt)) (a b c : List Mt)
    (hcs : ∀ x ∈ cs, x.1.In n ∧ optP x.2 (fun m => m.In (n - (x.1.start + x.1.len))))
    (ha : ∀ m ∈ a, m.In n) (hb : ∀ m ∈ b, m.In n) (hc : ∀ m ∈ c, m.In n) :
    ∀ t ∈ numberWithUnit cs a b c, t.Inside n := by
  intro t ht
  unfold numberWithUnit at ht
  simp only [List.mem_append] at ht
  rcases ht with ((ht | ht) | ht) | ht
  · revert t
    apply mem_filterMap_tok
    intro x hx t ht
    obtain ⟨⟨e0, e1, e2⟩, hm⟩ := hcs x hx
    unfold cardinalToToken at ht
    cases hx2 : x.2 with
    | none => simp [hx2] at ht
    | some m =>
      obtain ⟨m0, m1, m2⟩ := optP_some hm hx2
      simp only [hx2, Option.map_some, Option.some.injEq] at ht
      subst ht
      unfold Tok.Inside; simp only; omega
  · exact tokensOf_inside n a ha t ht
  · exact tokensOf_inside n b hb t ht
  · exact tokensOf_inside n c hc t ht

/-- `number_with_unit_and_suffix` (`__base_to_token`): a token inside the text, extended by what the suffix regex
matched at the start of the rest, stays inside the text. -/
theorem numberWithUnitAndSuffix_inside (n : Int) (ts : List (Tok × Option Mt))
    (h : ∀ x ∈ ts, x.1.Inside n ∧ optP x.2 (fun m => m.In (n - x.1.stop))) :
    ∀ t ∈ numberWithUnitAndSuffix ts, t.Inside n := by
  unfold numberWithUnitAndSuffix
  apply mem_filterMap_tok
  intro x hx t ht
  obtain ⟨⟨t0, t1, t2⟩, hm⟩ := h x hx
  unfold baseToToken at ht
  cases hx2 : x.2 with
  | none => simp [hx2] at ht
  | some m =>
    obtain ⟨m0, m1, m2⟩ := optP_some hm hx2
    simp only [hx2, Option.map_some, Option.some.injEq] at ht
    subst ht
    have hl : x.1.length = x.1.stop - x.1.start := by unfold Tok.length; split <;> omega
    unfold Tok.Inside; simp only [hl]; omega

/-- `merge_multiple_duration`: for extractions that are inside the text and ordered (as `merge_all_tokens` returns
them) every returned span — a kept extraction or a merged node from the first start to the last end — lies inside
the text, for any unit values and any connector matches. -/
theorem mergeMultipleDuration_inside (n : Int) (items : List MmItem) (h : MmSorted n items) :
    ∀ e ∈ mergeMultipleDuration items, e.In n := by
  unfold mergeMultipleDuration
  by_cases hlen : items.length ≤ 1
  · simp only [hlen, ↓reduceIte]
    intro e he
    rw [List.mem_map] at he
    obtain ⟨it, hit, rfl⟩ := he
    cases items with
    | nil => cases hit
    | cons a rest =>
      cases rest with
      | nil => simp only [List.mem_singleton] at hit; subst hit; exact h
      | cons b r => simp only [List.length_cons] at hlen; omega
  · simp only [hlen, ↓reduceIte]
    exact mmGo_inside n _ items h

/-- … and an extraction whose text contains no unit of `unit_map` is not returned at all (the outer loop skips it
without appending it). -/
theorem mergeMultipleDuration_drops_unitless :
    mergeMultipleDuration [⟨⟨0, 5⟩, none, false⟩, ⟨⟨10, 6⟩, some 3, false⟩] = [⟨10, 6⟩] := by decide

/-- `tag_inequality_prefix`: the widened result starts at the first occurrence of the matched "more than / less
than" text and ends where the duration ended. -/
theorem tagInequality_inside (n : Int) (e : Ent) (more less : Option (CM × Int)) (he : e.In n)
    (hm : optP more (fun x => 0 ≤ x.2 ∧ x.2 ≤ e.start)) (hl : optP less (fun x => 0 ≤ x.2 ∧ x.2 ≤ e.start)) :
    (tagInequality e more less).In n ∧
      (tagInequality e more less).start + (tagInequality e more less).len = e.start + e.len := by
  obtain ⟨e0, e1, e2⟩ := he
  unfold tagInequality
  have key : ∀ (pick : Option Int), (∀ i, pick = some i → 0 ≤ i ∧ i ≤ e.start) →
      (match pick with | some i => (⟨i, e.len + (e.start - i)⟩ : Ent) | none => e).In n ∧
      (match pick with | some i => (⟨i, e.len + (e.start - i)⟩ : Ent) | none => e).start +
        (match pick with | some i => (⟨i, e.len + (e.start - i)⟩ : Ent) | none => e).len = e.start + e.len := by
    intro pick hp
    cases pick with
    | none => exact ⟨⟨e0, e1, e2⟩, rfl⟩
    | some i =>
      have := hp i rfl
      unfold Ent.In; simp only; omega
  apply key
  intro i hi
  cases more with
  | none =>
    cases less with
    | none => simp at hi
    | some y =>
      obtain ⟨c2, i2⟩ := y
      simp only at hi
      split at hi
      · cases hi; exact hl
      · cases hi
  | some x =>
    obtain ⟨c, i1⟩ := x
    simp only at hi
    split at hi
    · cases hi; exact hm
    · cases less with
      | none => simp at hi
      | some y =>
        obtain ⟨c2, i2⟩ := y
        simp only at hi
        split at hi
        · cases hi; exact hl
        · cases hi

/-- `text.index(match.group())` is not a second slip of the `basic_regex_match` kind: the ConditionalMatch ran on the
PREFIX `text[0:start]`, its own `index` is already the first occurrence of the matched text in that prefix, and the
first occurrence in the whole text is the same position — so with `first = c.idx` the widened result starts
exactly at the ConditionalMatch. (What IS lost — `"more than 2 days and more than 3 days"` tags only the first
duration — is `match_end` searching leftmost; no span is wrong.) -/
theorem tagInequality_starts_at_match (e : Ent) (c : CM) (hs : c.succ = true) :
    (tagInequality e (some (c, c.idx)) none).start = c.idx := by
  unfold tagInequality; simp [hs]

/-! ## BaseDateTimeExtractor -/

/-- `merge_date_and_time`: the token of a gated pair (first entity ends before the second starts, year extension
inside the rest of the text) lies inside the text. -/
theorem mdtPairTok_inside (n : Int) (a b : Ent) (g : Gate) (ha : a.In n) (hb : b.In n)
    (hab : a.start + a.len ≤ b.start) (hg : 0 ≤ g.yext ∧ g.yext ≤ n - (b.start + b.len)) :
    (mdtPairTok a b g).Inside n := by
  obtain ⟨a0, a1, a2⟩ := ha
  obtain ⟨b0, b1, b2⟩ := hb
  unfold mdtPairTok Tok.Inside
  simp only
  omega

/-- the pairing loop only ever emits such pair tokens: every token is `mdtPairTok a b g` for two results of
different kinds at positions `i < j` with `a` ending before `b` starts and `g` one of the recorded gates. -/
theorem mdtLoop_mem (v : Variant) (ers : Array (Ent × Bool)) (fuel i : Nat) (gates : List Gate) (acc out : List Tok)
    (h : mdtLoop v ers fuel i gates acc = some out) :
    ∀ t ∈ out, t ∈ acc ∨ ∃ (i j : Nat) (a b : Ent × Bool) (g : Gate), i < j ∧ ers[i]? = some a ∧ ers[j]? = some b ∧
      g ∈ gates ∧ a.1.start + a.1.len ≤ b.1.start ∧ t = mdtPairTok a.1 b.1 g := by
  induction fuel generalizing i gates acc out with
  | zero => simp only [mdtLoop, Option.some.injEq] at h; subst h; intro t ht; exact Or.inl ht
  | succ fuel ih =>
    unfold mdtLoop at h
    split at h
    · simp only at h
      split at h
      · cases h; intro t ht; exact Or.inl ht
      · split at h
        · rename_i a b ha hb
          split at h
          · split at h
            · exact ih _ _ _ _ h
            · cases gates with
              | nil => simp only [Option.some.injEq] at h; subst h; intro t ht; exact Or.inl ht
              | cons g gs =>
                simp only at h
                split at h
                · cases h
                · intro t ht
                  rcases ih _ _ _ _ h t ht with hacc | ⟨i', j', a', b', g', h1, h2, h3, h4, h5, h6⟩
                  · rw [List.mem_append] at hacc
                    rcases hacc with hacc | hacc
                    · exact Or.inl hacc
                    · simp only [List.mem_singleton] at hacc
                      refine Or.inr ⟨i, skipOverlap ers i ers.size (i + 1), a, b, g, ?_, ha, hb, by simp, by omega, hacc⟩
                      have : ∀ fuel j, j ≤ skipOverlap ers i fuel j := by
                        intro fuel
                        induction fuel with
                        | zero => intro j; simp [skipOverlap]
                        | succ f ihf =>
                          intro j
                          unfold skipOverlap
                          split
                          · split
                            · exact Nat.le_trans (Nat.le_succ j) (ihf (j + 1))
                            · exact Nat.le_refl j
                          · exact Nat.le_refl j
                      have := this ers.size (i + 1)
                      omega
                  · exact Or.inr ⟨i', j', a', b', g', h1, h2, h3, by simp [h4], h5, h6⟩
                · intro t ht
                  rcases ih _ _ _ _ h t ht with hacc | ⟨i', j', a', b', g', h1, h2, h3, h4, h5, h6⟩
                  · exact Or.inl hacc
                  · exact Or.inr ⟨i', j', a', b', g', h1, h2, h3, by simp [h4], h5, h6⟩
          · exact ih _ _ _ _ h
        · cases h; intro t ht; exact Or.inl ht
    · cases h; intro t ht; exact Or.inl ht

/-- the two widening passes keep a token inside the text: the suffix match lies in `source[token.end:]`, the prefix
match in `source[0:token.start]` (only their LENGTHS are used — the matches are un-anchored searches, so the
widened token need not be contiguous with the match; that is a recall matter, not a span one). -/
theorem mdtWiden_inside (n : Int) (t : Tok) (suf pre : Option Mt) (ht : t.Inside n)
    (hs : optP suf (fun m => m.In (n - t.stop))) (hp : optP pre (fun m => m.In t.start)) :
    (mdtWiden t suf pre).Inside n := by
  obtain ⟨t0, t1, t2⟩ := ht
  unfold mdtWiden
  cases hsuf : suf with
  | none =>
    cases hpre : pre with
    | none => exact ⟨t0, t1, t2⟩
    | some p =>
      obtain ⟨p0, p1, p2⟩ := optP_some hp hpre
      unfold Tok.Inside; simp only; omega
  | some m =>
    obtain ⟨m0, m1, m2⟩ := optP_some hs hsuf
    cases hpre : pre with
    | none => unfold Tok.Inside; simp only; omega
    | some p =>
      obtain ⟨p0, p1, p2⟩ := optP_some hp hpre
      unfold Tok.Inside; simp only; omega

/-- PRE-FIX REGRESSION (tree without merge-date-time-len.diff): `merge_date_and_time` raises `TypeError`
(`len(<int>)`) as soon as `suffix_after_regex` matches the text between a date and a time (`"3 pm or later on
monday"`): the merged extractor's caller swallows it and the whole query yields no entity. -/
theorem mergeDateAndTime_raises :
    mergeDateAndTime Variant.current [(⟨0, 4⟩, false), (⟨17, 6⟩, true)] [⟨true, false, true, 0⟩] [] = none := by decide

/-- REPAIRED variant, full strength: the pairing loop never raises — for any entities and any gate outcomes. -/
theorem mdtLoop_total_fixed (v : Variant) (hv : v.mdtLenFixed = true) (ers : Array (Ent × Bool)) (fuel i : Nat)
    (gates : List Gate) (acc : List Tok) : ∃ out, mdtLoop v ers fuel i gates acc = some out := by
  induction fuel generalizing i gates acc with
  | zero => exact ⟨acc, rfl⟩
  | succ fuel ih =>
    unfold mdtLoop
    split
    · simp only
      split
      · exact ⟨acc, rfl⟩
      · split
        · split
          · split
            · exact ih _ _ _
            · cases gates with
              | nil => exact ⟨acc, rfl⟩
              | cons g gs =>
                simp only
                have hg : gateValid v g = some (if g.sufAfter then (!g.restEmpty && g.conn) else g.conn) := by
                  unfold gateValid; simp only [hv, ↓reduceIte]; split <;> rfl
                rw [hg]
                cases (if g.sufAfter then (!g.restEmpty && g.conn) else g.conn) with
                | true => exact ih _ _ _
                | false => exact ih _ _ _
          · exact ih _ _ _
        · exact ⟨acc, rfl⟩
    · exact ⟨acc, rfl⟩

/-- … and on the facts of the regression input it yields the date-time token `[0, 23)`. -/
theorem mergeDateAndTime_fixed_no_raise :
    mergeDateAndTime Variant.repaired [(⟨0, 4⟩, false), (⟨17, 6⟩, true)] [⟨true, false, true, 0⟩] [(none, none)]
      = some [⟨0, 23⟩] := by decide

/-- `time_of_today_before`: the token runs from the start of the "this morning / tonight" match in front of the time
to the end of the time. -/
theorem todBeforeOne_inside (n : Int) (e : Ent) (inner m : Option Mt) (he : e.In n)
    (hm : optP m (fun m => m.In (e.start + e.len))) :
    ∀ t, todBeforeOne n e inner m = some t → t.Inside n := by
  intro t ht
  obtain ⟨e0, e1, e2⟩ := he
  cases hmm : m with
  | none => simp [todBeforeOne, hmm] at ht
  | some mm =>
    obtain ⟨m0, m1, m2⟩ := optP_some hm hmm
    simp only [todBeforeOne, hmm, Option.map_some, Option.ite_none_left_eq_some] at ht
    obtain ⟨_, h⟩ := ht
    cases h
    unfold Tok.Inside; simp only; omega

/-- `time_of_today_after`: the time extended by the LENGTH of the (un-anchored) match in what follows. -/
theorem todAfterOne_inside (n : Int) (e : Ent) (m : Option Mt) (he : e.In n)
    (hm : optP m (fun m => m.In (n - (e.start + e.len)))) :
    ∀ t, todAfterOne n e m = some t → t.Inside n := by
  intro t ht
  obtain ⟨e0, e1, e2⟩ := he
  unfold todAfterOne at ht
  split at ht
  · cases ht
  · cases hmm : m with
    | none => simp [hmm] at ht
    | some mm =>
      obtain ⟨m0, m1, m2⟩ := optP_some hm hmm
      simp only [hmm, Option.map_some, Option.some.injEq] at ht
      subst ht
      unfold Tok.Inside; simp only; omega

/-- `special_time_of_date` (`the end of the day tomorrow` / `tomorrow end of day`): inside the text; `L` = length of
the stripped prefix the `match_end` ran on. -/
theorem specialOne_inside (n L : Int) (e : Ent) (b a : Option CM) (he : e.In n) (hL : L ≤ e.start)
    (hb : optP b (fun c => c.In L)) (ha : optP a (fun c => c.In (n - (e.start + e.len)))) :
    ∀ t, specialOne e b a = some t → t.Inside n := by
  intro t ht
  obtain ⟨e0, e1, e2⟩ := he
  have via : ∀ t, (match a with
      | some c => if c.succ then some (⟨e.start, e.start + e.len + c.idx + c.len⟩ : Tok) else none
      | none => none) = some t → t.Inside n := by
    intro t ht
    cases haa : a with
    | none => simp [haa] at ht
    | some c =>
      obtain ⟨c0, c1, c2⟩ := optP_some ha haa
      simp only [haa] at ht
      split at ht
      · cases ht; unfold Tok.Inside; simp only; omega
      · cases ht
  unfold specialOne at ht
  cases hbb : b with
  | none => simp only [hbb] at ht; exact via t ht
  | some c =>
    obtain ⟨c0, c1, c2⟩ := optP_some hb hbb
    simp only [hbb] at ht
    split at ht
    · cases ht; unfold Tok.Inside; simp only; omega
    · exact via t ht

/-! ## date / time / date-time PERIOD extractors: two points → one range token -/

/-- the from / between words, when found, lie in the prefix in front of the first point, behind its leading blanks:
`lead ≤ index ≤ L`, `L` ≤ start of the first point. -/
def PairOK (L : Int) (f : PairFact) : Prop :=
  0 ≤ f.lead ∧ (f.fromI.matched = true → f.lead ≤ f.fromI.index ∧ f.fromI.index ≤ L) ∧
  (f.betweenI.matched = true → f.lead ≤ f.betweenI.index ∧ f.betweenI.index ≤ L)

theorem lookupIndex_bounds (v : Variant) (L : Int) (f : PairFact) (m : MI) (h0 : 0 ≤ f.lead)
    (h : f.lead ≤ m.index ∧ m.index ≤ L) : 0 ≤ lookupIndex v f m ∧ lookupIndex v f m ≤ L := by
  unfold lookupIndex; split <;> omega

/-- `merge_multiple_extractions` (date period) and the first loop of the date-time period extractor, BOTH variants:
the range token of a reached pair lies inside the text: it ends where the second point ends and starts at the first
point or at the index the from / between look-up handed back. -/
theorem rangePairTok_inside (n L : Int) (v : Variant) (k : RangeKind) (hk : k ≠ .timePeriod) (a b : Ent) (f : PairFact)
    (ha : a.In n) (hb : b.In n) (hab : a.start ≤ b.start + b.len) (hL : L ≤ a.start) (hf : PairOK L f) :
    ∀ t, rangePairTok v k a b f = some t → t.Inside n ∧ t.stop = b.start + b.len ∧ t.start ≤ a.start := by
  intro t ht
  obtain ⟨a0, a1, a2⟩ := ha
  obtain ⟨b0, b1, b2⟩ := hb
  obtain ⟨hl0, hfr, hbt⟩ := hf
  have hk2 : (k == RangeKind.timePeriod) = false := by cases k <;> simp_all
  have key : ∀ pb : Int, 0 ≤ pb → pb ≤ L →
      (⟨pb, b.start + b.len⟩ : Tok).Inside n ∧ (⟨pb, b.start + b.len⟩ : Tok).stop = b.start + b.len ∧
        (⟨pb, b.start + b.len⟩ : Tok).start ≤ a.start := by
    intro pb h1 h2
    refine ⟨?_, rfl, ?_⟩
    · unfold Tok.Inside; simp only; omega
    · simp only; omega
  unfold rangePairTok at ht
  simp only [hk2, Bool.false_and, Bool.false_eq_true, ↓reduceIte] at ht
  split at ht
  · have hpb : ∀ pb : Int, pb = (if f.fromI.matched = true then lookupIndex v f f.fromI
        else if f.betweenI.matched = true then lookupIndex v f f.betweenI else a.start) → 0 ≤ pb ∧ pb ≤ a.start := by
      intro pb hpb
      subst hpb
      cases hfm : f.fromI.matched <;> cases hbm : f.betweenI.matched <;> simp only [Bool.false_eq_true, ↓reduceIte]
      · omega
      · have := lookupIndex_bounds v L f f.betweenI hl0 (hbt hbm); omega
      · have := lookupIndex_bounds v L f f.fromI hl0 (hfr hfm); omega
      · have := lookupIndex_bounds v L f f.fromI hl0 (hfr hfm); omega
    cases k with
    | timePeriod => exact absurd rfl hk
    | datePeriod =>
      simp only [Option.some.injEq] at ht
      subst ht
      have := hpb _ rfl
      refine ⟨?_, rfl, ?_⟩
      · unfold Tok.Inside; simp only; omega
      · simp only; omega
    | dateTimePeriod =>
      simp only [Option.some.injEq] at ht
      subst ht
      have := hpb _ rfl
      refine ⟨?_, rfl, ?_⟩
      · unfold Tok.Inside; simp only; omega
      · simp only; omega
  · split at ht
    · rename_i hc
      simp only [Bool.and_eq_true] at hc
      have := lookupIndex_bounds v L f f.betweenI hl0 (hbt hc.2)
      cases ht
      exact key _ this.1 (by omega)
    · cases ht

/-- REPAIRED variant (range-prefix-index.diff), full strength: when the from / between word is found the token starts
EXACTLY at the word's offset in the source, so it cannot cut into anything that ends at or before that word: for
every entity `p` ending at or before the word the token and `p` share no character. -/
theorem rangePairTok_fixed_starts_at_word (v : Variant) (hv : v.rangeRstrip = true) (k : RangeKind) (a b : Ent)
    (f : PairFact) (t : Tok) (ht : rangePairTok v k a b f = some t)
    (hw : f.fromI.matched = true ∨ f.betweenI.matched = true) (hconn : f.till = true ∨ f.betweenI.matched = true) :
    (t.start = f.fromI.index ∧ f.fromI.matched = true) ∨ (t.start = f.betweenI.index ∧ f.betweenI.matched = true) := by
  unfold rangePairTok at ht
  have hl : ∀ m, lookupIndex v f m = m.index := by intro m; unfold lookupIndex; simp [hv]
  simp only [hl] at ht
  split at ht
  · simp only [Option.some.injEq] at ht
    subst ht
    cases k <;> cases hfm : f.fromI.matched <;> cases hbm : f.betweenI.matched <;> simp_all
  · split at ht
    · rename_i hc
      simp only [Bool.and_eq_true] at hc
      cases ht
      exact Or.inr ⟨rfl, hc.2⟩
    · cases ht

theorem rangePairTok_fixed_clear_of_previous (v : Variant) (hv : v.rangeRstrip = true) (k : RangeKind) (a b : Ent)
    (f : PairFact) (t : Tok) (ht : rangePairTok v k a b f = some t)
    (hw : f.fromI.matched = true ∨ f.betweenI.matched = true) (hconn : f.till = true ∨ f.betweenI.matched = true)
    (p : Ent) (hp1 : f.fromI.matched = true → p.start + p.len ≤ f.fromI.index)
    (hp2 : f.betweenI.matched = true → p.start + p.len ≤ f.betweenI.index) : p.start + p.len ≤ t.start := by
  rcases rangePairTok_fixed_starts_at_word v hv k a b f t ht hw hconn with ⟨h1, h2⟩ | ⟨h1, h2⟩
  · have := hp1 h2; omega
  · have := hp2 h2; omega

/-- PRE-FIX REGRESSION (tree without range-prefix-index.diff): the look-up ran on `source[0:begin].strip()`, so what
it handed back is the word's offset MINUS the leading blanks. `"  today from 4 jan to 5 jan"`: points `4 jan`
`[13, 18)`, `5 jan` `[22, 27)`, `from` at 8, two leading blanks: the range token is `[6, 27)` = `"y from 4 jan to 5
jan"`, cutting into `today` `[2, 7)` — two overlapping entities in the recogniser's output (C12). The repaired
variant yields `[8, 27)` on the same facts. -/
theorem range_from_leading_blank :
    rangeMerge Variant.current .datePeriod [⟨13, 5⟩, ⟨22, 5⟩] (fun _ => false)
      [⟨true, false, ⟨true, 8⟩, ⟨false, -1⟩, ⟨false, -1⟩, 2⟩] = [⟨6, 27⟩] ∧
    rangeMerge Variant.repaired .datePeriod [⟨13, 5⟩, ⟨22, 5⟩] (fun _ => false)
      [⟨true, false, ⟨true, 8⟩, ⟨false, -1⟩, ⟨false, -1⟩, 2⟩] = [⟨8, 27⟩] := by decide

/-
Full-strength statement for the time period extractor, which does not hold:
  theorem rangePairTok_inside_time … : rangePairTok v .timePeriod a b f = some t → t.Inside n
-/

/-- time period extractor: when "between" is found in the text AFTER the second point, the end of the token is
REPLACED by the look-up's index (an index into `source[end : len - end].strip()`), not extended: `3pm to 4pm …
between` gives the token `(0, 0)`. -/
theorem rangePairTok_time_after_between_witness (v : Variant) :
    rangePairTok v .timePeriod ⟨0, 3⟩ ⟨7, 3⟩ ⟨true, false, ⟨false, -1⟩, ⟨false, -1⟩, ⟨true, 0⟩, 0⟩ = some ⟨0, 0⟩ := by
  cases v; rfl

/-- time period extractor, guarded: without a "between" behind the range the token is inside the text. -/
theorem rangePairTok_time_partial (n L : Int) (v : Variant) (a b : Ent) (f : PairFact)
    (ha : a.In n) (hb : b.In n) (hab : a.start ≤ b.start + b.len) (hL : L ≤ a.start) (hf : PairOK L f)
    (hno : f.afterBetween.matched = false) :
    ∀ t, rangePairTok v .timePeriod a b f = some t → t.Inside n := by
  intro t ht
  obtain ⟨a0, a1, a2⟩ := ha
  obtain ⟨b0, b1, b2⟩ := hb
  obtain ⟨hl0, hfr, hbt⟩ := hf
  unfold rangePairTok at ht
  simp only [hno, Bool.and_false, Bool.false_eq_true, ↓reduceIte] at ht
  split at ht
  · simp only [Option.some.injEq] at ht
    subst ht
    cases hfm : f.fromI.matched <;> cases hbm : f.betweenI.matched <;>
      simp only [Bool.false_eq_true, ↓reduceIte] <;> unfold Tok.Inside <;> simp only
    · omega
    · have := lookupIndex_bounds v L f f.betweenI hl0 (hbt hbm); omega
    · have := lookupIndex_bounds v L f f.fromI hl0 (hfr hfm); omega
    · have := lookupIndex_bounds v L f f.betweenI hl0 (hbt hbm); omega
  · split at ht
    · rename_i hc
      simp only [Bool.and_eq_true] at hc
      have := lookupIndex_bounds v L f f.betweenI hl0 (hbt hc.2)
      cases ht
      unfold Tok.Inside; simp only; omega
    · cases ht

/-- the loops emit nothing but pair tokens of ADJACENT results (for the date period: with a non-empty middle). -/
theorem rangeLoop_mem (v : Variant) (k : RangeKind) (ers : Array Ent) (skip : Nat → Bool) (fuel i : Nat)
    (facts : List PairFact) (acc : List Tok) :
    ∀ t ∈ rangeLoop v k ers skip fuel i facts acc, t ∈ acc ∨ ∃ (j : Nat) (a b : Ent) (f : PairFact),
      ers[j]? = some a ∧ ers[j + 1]? = some b ∧ f ∈ facts ∧ rangePairTok v k a b f = some t ∧
      (k = .datePeriod → a.start + a.len < b.start) := by
  induction fuel generalizing i facts acc with
  | zero => intro t ht; exact Or.inl (by simpa [rangeLoop] using ht)
  | succ fuel ih =>
    intro t ht
    unfold rangeLoop at ht
    split at ht
    · split at ht
      · rename_i a b ha hb
        split at ht
        · split at ht
          · exact Or.inl ht
          · exact ih _ _ _ t ht
        · split at ht
          · exact ih _ _ _ t ht
          · rename_i hskip
            cases facts with
            | nil => exact Or.inl ht
            | cons f fs =>
              simp only at ht
              have hmid : k = .datePeriod → a.start + a.len < b.start := by
                intro hk
                subst hk
                simp only [beq_self_eq_true, Bool.true_and, decide_eq_true_eq] at hskip
                omega
              split at ht
              · rename_i tk htk
                have hnew : ∀ t', t' ∈ acc ++ [tk] → t' ∈ acc ∨ ∃ (j : Nat) (a b : Ent) (f' : PairFact),
                    ers[j]? = some a ∧ ers[j + 1]? = some b ∧ f' ∈ f :: fs ∧ rangePairTok v k a b f' = some t' ∧
                    (k = .datePeriod → a.start + a.len < b.start) := by
                  intro t' ht'
                  rw [List.mem_append] at ht'
                  rcases ht' with h | h
                  · exact Or.inl h
                  · simp only [List.mem_singleton] at h
                    subst h
                    exact Or.inr ⟨i, a, b, f, ha, hb, by simp, htk, hmid⟩
                split at ht
                · exact hnew t ht
                · rcases ih _ _ _ t ht with h | ⟨j, a', b', f', h1, h2, h3, h4, h5⟩
                  · exact hnew t h
                  · exact Or.inr ⟨j, a', b', f', h1, h2, by simp [h3], h4, h5⟩
              · rcases ih _ _ _ t ht with h | ⟨j, a', b', f', h1, h2, h3, h4, h5⟩
                · exact Or.inl h
                · exact Or.inr ⟨j, a', b', f', h1, h2, by simp [h3], h4, h5⟩
      · exact Or.inl ht
    · exact Or.inl ht

/-- the hypotheses of `match_duration`'s theorem: the duration lies in the text, the prefix matches lie in
`source[0:dur.start]`, the numbers found in the prefix lie in it. -/
def MdOK (n : Int) (f : MdFact) : Prop :=
  f.dur.In n ∧ optP f.within (fun c => c.In f.dur.start) ∧ optP f.past (fun c => c.In f.dur.start) ∧
  optP f.future (fun c => c.In f.dur.start) ∧ (∀ e ∈ f.numsInPrefix, e.In f.dur.start)

theorem lastByEnd_mem (l : List Ent) (e : Ent) (h : lastByEnd l = some e) : e ∈ l := by
  induction l generalizing e with
  | nil => simp [lastByEnd] at h
  | cons x rest ih =>
    unfold lastByEnd at h
    cases hr : lastByEnd rest with
    | none => simp only [hr, Option.some.injEq] at h; subst h; simp
    | some b =>
      simp only [hr] at h
      split at h
      · cases h; exact List.mem_cons_of_mem _ (ih _ hr)
      · cases h; simp

/-
Full-strength statement, which does not hold (suffix paths):
  theorem matchDurationOne_inside (MdOK n f) (suffix matches In dur.len) : ∀ t ∈ matchDurationOne f, t.Inside n
-/

/-- `match_duration`, prefix paths (`within the next 3 days`, `past 3 weeks`, `next five days`, `2 upcoming days`):
every token lies inside the text. The guard excludes the two suffix look-ups. -/
theorem matchDurationOne_inside_partial (n : Int) (f : MdFact) (h : MdOK n f)
    (hps : optP f.pastSuffix (fun c => c.succ = false)) (hfs : optP f.futureSuffix (fun c => c.succ = false)) :
    ∀ t ∈ matchDurationOne f, t.Inside n := by
  obtain ⟨⟨d0, d1, d2⟩, hw, hp, hfu, hnums⟩ := h
  have hcm : ∀ (c : Option CM), optP c (fun c => c.In f.dur.start) → cmIdx c ≤ f.dur.start := by
    intro c hc
    unfold cmIdx
    cases hcc : c with
    | none => simp only; omega
    | some cc =>
      obtain ⟨c0, c1, c2⟩ := optP_some hc hcc
      simp only
      split <;> omega
  have hidx : mdIndex f ≤ f.dur.start := by
    unfold mdIndex
    have h1 := hcm f.past hp
    have h2 := hcm f.future hfu
    split <;> omega
  have hsuf : ∀ c, optP c (fun c => c.succ = false) → mdSufTok f c = none := by
    intro c hc
    unfold mdSufTok
    cases hcc : c with
    | none => rfl
    | some cc => simp [optP_some hc hcc]
  intro t ht
  unfold matchDurationOne at ht
  split at ht
  · cases ht
  · cases hwt : mdWithin f with
    | some tk =>
      simp only [hwt] at ht
      split at ht
      · simp only [List.mem_singleton] at ht
        subst ht
        unfold mdWithin at hwt
        cases hwi : f.within with
        | none => simp [hwi] at hwt
        | some c =>
          obtain ⟨c0, c1, c2⟩ := optP_some hw hwi
          simp only [hwi] at hwt
          split at hwt
          · cases hwt; unfold Tok.Inside; simp only; omega
          · cases hwt
      · cases ht
    | none =>
      simp only [hwt] at ht
      split at ht
      · rename_i hge
        unfold mdPrefix at ht
        split at ht
        · cases hl : lastByEnd f.numsInPrefix with
          | none => simp [hl] at ht
          | some l =>
            simp only [hl] at ht
            split at ht
            · simp only [List.mem_singleton] at ht
              subst ht
              obtain ⟨l0, l1, l2⟩ := hnums l (lastByEnd_mem _ _ hl)
              unfold Tok.Inside; simp only; omega
            · cases ht
        · simp only [List.mem_singleton] at ht
          subst ht
          unfold Tok.Inside; simp only; omega
      · unfold mdSuffix at ht
        simp [hsuf _ hps, hsuf _ hfs] at ht

/-- outside the guard: the suffix look-ups (`match_begin(past_regex / future_suffix_regex, after_str)`) run on
`after_str = source[dur.start : dur.start + dur.length]` — the duration's OWN text, not the text behind it — and
their `index + length` is added to the duration's end: a duration `[7, 16)` at the end of a 16-character text whose
own text begins with a 4-character match yields the token `[7, 20)`. (Not observed with the shipped regexes:
monitored, 0 occurrences.) -/
theorem matchDuration_suffix_overrun :
    matchDurationOne ⟨⟨7, 9⟩, false, none, false, none, none, [], 0, false, some ⟨0, 4, true⟩, none⟩ = [⟨7, 20⟩] ∧
      ¬ (⟨7, 20⟩ : Tok).Inside 16 := by decide

end RTV.DtExtract
