import RTV.Props.C04
import RTV.Model.NumFrac
import RTV.Gen.ReTables
import RTV.Gen.NumAlts
/-!
# C04 — from the SURFACE TEXT of a numeral to its value: the tokeniser inside the statement (audit item 14)

The theorems of `RTV.Props.C04` / `C04Big` / `C04Big2` start AFTER tokenisation: they evaluate `__get_int_value` on the
token list the specification carries (`spell n v`, `(spellEu s n).2`, `(spellOrdEu s n).2`).  For the cultures whose
tokeniser is modelled — `RTV.NumFrac.textTokens` = `regex.finditer(text_number_regex, text)`, tied to the real pattern by
the `nf.tok` correspondence for en-us, es-es, fr-fr, de-de — this file puts the tokeniser into the statement:

* `alts_are_pattern`: the alternation the model builds from the regenerated maps (`tokenAlts`: word separator, ` -`,
  cardinal keys longest first, ordinal keys longest first, stable) IS the alternation of the pattern text of the real
  parser object (RTV/Gen/NumAlts.lean), and the boundary-free second alternative is present exactly for de-de;
* `english_tokens_sample` / `english_text_sample`: for every numeral of `enSample` (0 … 50, the tens, and fifteen larger ones up
  to 10^15 − 1), every one of the 8 spelling variants of the TEXT and both cardinal and ordinal,
  `textTokens (spellText n v ord) = spell n v` resp. `spellOrd n v`, hence
  `getIntValue (textTokens (spellText n v ord)) = n`.
  It is a SAMPLE (kernel evaluation of the tokeniser, ≈ 0.05 s per numeral); the statement for all `n < 10^15` remains
  the composition of `english_cardinal` / `english_ordinal` (all `n`, token level) with the tokenisation tie the harness
  checks against the REAL tokeniser on every numeral it generates (harness/corr/c04.py `tokenise-en`).
The 8 variants: `spell` / `spellOrd` do not depend on `v.hyphen` (a hyphen is no token), so at TOKEN level there are 4
distinct lists (`spell_ignores_hyphen`); the hyphen variant exists in `spellText` only and is exercised here.
es-es / fr-fr / de-de: `RTV.Props.C04TextEu`.
-/
namespace RTV.Num
open RTV.Py RTV.NumFrac

set_option maxRecDepth 100000

/-- `\w` / `\d` of the running `regex` module (regenerated tables): the tokeniser's boundary tests -/
def tokT : TokTab where
  word c := inRangesArr RTV.Gen.reWordRanges c
  digit c := inRangesArr RTV.Gen.reDigitRanges c

/-- the model's alternation = the alternation of the real pattern text, for the four modelled tokenisers -/
theorem alts_are_pattern :
    enFrac.alts = RTV.Gen.NumAlts.en ∧ enFrac.loose = RTV.Gen.NumAlts.enLoose ∧
    esFrac.alts = RTV.Gen.NumAlts.es ∧ esFrac.loose = RTV.Gen.NumAlts.esLoose ∧
    frFrac.alts = RTV.Gen.NumAlts.fr ∧ frFrac.loose = RTV.Gen.NumAlts.frLoose ∧
    deFrac.alts = RTV.Gen.NumAlts.de ∧ deFrac.loose = RTV.Gen.NumAlts.deLoose := by decide +kernel

/-- `spell` / `spellOrd` ignore the hyphen flag: the "8 variants" are 8 TEXTS but 4 token lists -/
theorem spell_ignores_hyphen (n : Nat) (a b h : Bool) :
    spell n ⟨a, b, h⟩ = spell n ⟨a, b, false⟩ ∧ spellOrd n ⟨a, b, h⟩ = spellOrd n ⟨a, b, false⟩ := by
  have s100 : ∀ o m, (sub100 ⟨a, b, h⟩ o m).map (·.1) = (sub100 ⟨a, b, false⟩ o m).map (·.1) := by
    intro o m
    by_cases h1 : m < 20 <;> by_cases h2 : (m % 10 == 0) = true <;> simp [sub100, h1, h2]
  have s1000 : ∀ o m, (sub1000 ⟨a, b, h⟩ o m).map (·.1) = (sub1000 ⟨a, b, false⟩ o m).map (·.1) := by
    intro o m
    by_cases h1 : m < 100 <;> by_cases h2 : (m % 100 == 0) = true <;> simp [sub1000, h1, h2, s100]
  have grp : ∀ g w, (group ⟨a, b, h⟩ g w).map (·.1) = (group ⟨a, b, false⟩ g w).map (·.1) := by
    intro g w
    by_cases h1 : (g == 0) = true <;> simp [group, h1, s1000]
  have lst : ∀ o hh u, (lastGroup ⟨a, b, h⟩ o hh u).map (·.1) = (lastGroup ⟨a, b, false⟩ o hh u).map (·.1) := by
    intro o hh u
    by_cases h1 : (u == 0) = true <;> simp [lastGroup, h1, s1000]
  have key : ∀ ord, (pieces ⟨a, b, h⟩ ord n).map (·.1) = (pieces ⟨a, b, false⟩ ord n).map (·.1) := by
    intro ord
    by_cases h1 : (n == 0) = true <;> simp [pieces, h1, grp, lst]
  exact ⟨key false, key true⟩
/-- the English sample: 0 … 50, the tens, and numerals with thousands, millions, billions, trillions, zero groups, `and` forms -/
def enSample : List Nat := List.range 51 ++ [60, 70, 80, 90, 99, 100, 101, 110, 115, 121, 999, 1000, 1001, 1100, 12345,
  100000, 1000005, 21021021, 1000000001, 999999999999999]

/-- tokeniser(text) = specification tokens, for one numeral, all 8 text variants, cardinal (and ordinal for `n > 0`) -/
def enTokOK (n : Nat) : Bool :=
  allVariants.all fun v =>
    textTokens tokT RTV.Gen.NumAlts.en RTV.Gen.NumAlts.enLoose (spellText n v false) == spell n v &&
    (n == 0 || textTokens tokT RTV.Gen.NumAlts.en RTV.Gen.NumAlts.enLoose (spellText n v true) == spellOrd n v)

theorem english_tokens_sample : (enSample.all enTokOK) = true := by decide +kernel

/-- **from the text**: for the sample, every variant: `__get_int_value(finditer(text_number_regex, text)) = n` -/
theorem english_text_sample (n : Nat) (hn : n ∈ enSample) (v : Variant) (hv : v ∈ allVariants) :
    getIntValue true enT enL (textTokens tokT enFrac.alts enFrac.loose (spellText n v false)) = .ok n ∧
    (0 < n → getIntValue true enT enL (textTokens tokT enFrac.alts enFrac.loose (spellText n v true)) = .ok n) := by
  obtain ⟨ha, hl, _⟩ := alts_are_pattern
  have hs := List.all_eq_true.1 english_tokens_sample n hn
  unfold enTokOK at hs
  have hv' := List.all_eq_true.1 hs v hv
  simp only [Bool.and_eq_true, Bool.or_eq_true, beq_iff_eq] at hv'
  have hlt : n < 10 ^ 15 := by
    have : (enSample.all fun m => decide (m < 10 ^ 15)) = true := by decide +kernel
    simpa using List.all_eq_true.1 this n hn
  rw [ha, hl]
  refine ⟨?_, fun h0 => ?_⟩
  · rw [hv'.1]; exact english_cardinal n hlt v
  · rcases hv'.2 with h | h
    · omega
    · rw [h]; exact english_ordinal n hlt h0 v

/-- a closed instance: `one million and fifth` (andFinal, hyphen) -/
example : textTokens tokT enFrac.alts enFrac.loose (spellText 1000005 ⟨true, true, true⟩ true) =
    [[111, 110, 101], [109, 105, 108, 108, 105, 111, 110], [97, 110, 100], [102, 105, 102, 116, 104]] := by
  decide +kernel

end RTV.Num
