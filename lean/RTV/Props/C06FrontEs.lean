import RTV.Props.C06FrontX
import RTV.Lemmas.DateFrontEvEsAll
import RTV.Gen.DtMapsX1
import RTV.Gen.DtMapsX2
/-!
# C06, front end — es-es: from the TEXT of a date to TIMEX = value = that date, by theorem

(Skeleton written by harness/lib/datefrontcert.py es-es, witnesses by hand; see Props/C06FrontX.lean for the method.)
`parse_basic_regex_match` of the Spanish configuration — the regenerated `date_regex` list (RTV/Gen/DateRegexEs.lean, 10
patterns, token prefix `en `) — applied to the text of a date in ANY layout of `contracts/C06.json["layouts"]["es-es"]`
(RTV/Gen/DateLayoutsEs.lean; the day comes first: `5/12/2010` is 5 December) hands `match_to_date` the year / month / day
the text was rendered from, and the entity is that date — every year 1900..2099 (digits symbolic), every month, every day.
The evaluated part: RTV/Lemmas/DateFrontEvEs*.lean (acceptance: abstract texts; rejection by the earlier regexes: start
position by start position).  `token_tables_es`: the month / day tokens of the layouts are keys of the regenerated
`MonthOfYear` / `DayOfMonth` of the culture with the right numbers.
-/
namespace RTV.DateFront
open RTV.Re RTV.Py RTV.DtRes RTV.Gen.DateRegexEs RTV.Gen.DateLayoutsEs RTV.Gen.DtMaps

/-- the month tokens (`3`, `03`, month name) / day tokens (with the literal suffix the day group takes along) of every layout
are keys of the regenerated `MonthOfYear` / `DayOfMonth` of es-es with that month / day -/
theorem token_tables_es :
    ((layoutsEs.zip (EvEs.dexts.take layoutsEs.length)).all fun p =>
      monthToksOK namesEs monthOfYear_es p.1 && dayToksOK namesEs dayOfMonth_es p.1 p.2 days31) = true := by
  decide +kernel

/-- every layout of the contract has its evaluated facts and its token checks -/
theorem layouts_have_facts_es : ∀ L ∈ layoutsEs, ∃ dext k,
    LayoutFactsL namesEs dateRegexes dateTokenPrefix days31 L dext k ∧
    monthToksOK namesEs monthOfYear_es L = true ∧ dayToksOK namesEs dayOfMonth_es L dext days31 = true := by
  intro L hL
  simp only [layoutsEs, List.mem_cons, List.mem_nil_iff, or_false] at hL
  rcases hL with rfl | rfl | rfl | rfl | rfl | rfl | rfl | rfl
  · exact ⟨_, _, EvEs.facts0, by decide +kernel, by decide +kernel⟩
  · exact ⟨_, _, EvEs.facts1, by decide +kernel, by decide +kernel⟩
  · exact ⟨_, _, EvEs.facts2, by decide +kernel, by decide +kernel⟩
  · exact ⟨_, _, EvEs.facts3, by decide +kernel, by decide +kernel⟩
  · exact ⟨_, _, EvEs.facts4, by decide +kernel, by decide +kernel⟩
  · exact ⟨_, _, EvEs.facts5, by decide +kernel, by decide +kernel⟩
  · exact ⟨_, _, EvEs.facts6, by decide +kernel, by decide +kernel⟩
  · exact ⟨_, _, EvEs.facts7, by decide +kernel, by decide +kernel⟩

/-- the contract has these layouts, and which regex accepts each -/
theorem layouts_count_es : layoutsEs.length = 8 ∧ EvEs.acceptingRegex = [9, 3, 3, 3, 3, 1, 1, 1] := by decide

/-- FRONT END → DECODE (es-es): the groups the front end yields on a rendered date satisfy `Decodes` for that date. -/
theorem front_decodes_es {T : Tables} (hT : LatinAgree T) {u : Uni} (hu : TextUni u) (L : List Tok) (hL : L ∈ layoutsEs)
    (y m d : Nat) (hy : 1900 ≤ y ∧ y ≤ 2099) (hm : 1 ≤ m ∧ m ≤ 12) (hd : 1 ≤ d ∧ d ≤ 31) :
    ∃ h g, parseBasic T u dateTokenPrefix dateRegexes (renderL namesEs L y m d) = some (some (h, g)) ∧
      Decodes u (genCfg monthOfYear_es dayOfMonth_es) g y m d := by
  obtain ⟨dext, k, hf, hmt, hdt⟩ := layouts_have_facts_es L hL
  obtain ⟨h, g, hp, _, hdec⟩ := front_decodes_gen hT hu hf hmt hdt y m d hy hm ((mem_days31 d).2 hd)
  exact ⟨h, g, hp, hdec⟩

/-- C06 FOR THE TEXT (es-es). A fully specified date `y-m-d`, 1900 ≤ y ≤ 2099, that exists in the calendar, written in ANY
layout of the contract: `parse_basic_regex_match` on the regenerated regexes, `match_to_date`, `BaseDateParser.parse` and
`_date_time_resolution` yield exactly one value of type `date` whose TIMEX and value are `YYYY-MM-DD` — for every reference
`R`, every written-year oracle `wy`, every engine table that agrees with `latinTables` below 256. -/
theorem front_abs_date_es {T : Tables} (hT : LatinAgree T) {u : Uni} (hu : TextUni u) (L : List Tok) (hL : L ∈ layoutsEs)
    (y m d : Nat) (hy : 1900 ≤ y ∧ y ≤ 2099) (hv : (⟨y, m, d⟩ : RTV.Cal.Date).valid = true) (wy : Int) (R : DT) :
    frontResolve T u (genCfg monthOfYear_es dayOfMonth_es) dateTokenPrefix dateRegexes (renderL namesEs L y m d) wy R =
      .ok (some [{ timex := ymd y m d, type := sDate, value := some (ymd y m d) }]) := by
  obtain ⟨dext, k, hf, hmt, hdt⟩ := layouts_have_facts_es L hL
  exact front_abs_date_gen hT hu hf hmt hdt y m d hy hv (valid_day31 y m d hv) wy R

/-- … with the tables of the running `regex` module -/
theorem front_abs_date_engine_es {u : Uni} (hu : TextUni u) (L : List Tok) (hL : L ∈ layoutsEs)
    (y m d : Nat) (hy : 1900 ≤ y ∧ y ≤ 2099) (hv : (⟨y, m, d⟩ : RTV.Cal.Date).valid = true) (wy : Int) (R : DT) :
    frontResolve RTV.Gen.reTables u (genCfg monthOfYear_es dayOfMonth_es) dateTokenPrefix dateRegexes
        (renderL namesEs L y m d) wy R =
      .ok (some [{ timex := ymd y m d, type := sDate, value := some (ymd y m d) }]) :=
  front_abs_date_es retables_latin hu L hL y m d hy hv wy R

/-! ## es-mx: the same configuration -/

/-- the es-mx parser configuration has the same `date_regex` patterns / token prefix, the contract the same month names, and
the regenerated es-mx `MonthOfYear` / `DayOfMonth` maps are the es-es ones -/
theorem esmx_same : esmxSameRegexes = true ∧ esmxSameNames = true ∧ monthOfYear_esmx = monthOfYear_es ∧
    dayOfMonth_esmx = dayOfMonth_es := by
  refine ⟨by decide, by decide, by decide +kernel, by decide +kernel⟩

/-- every es-mx layout of the contract is an es-es layout -/
theorem layouts_esmx_sub : ∀ L ∈ layoutsEsMx, L ∈ layoutsEs := by decide

/-- C06 FOR THE TEXT (es-mx): as `front_abs_date_es`, with the es-mx maps and the es-mx layouts of the contract. -/
theorem front_abs_date_esmx {T : Tables} (hT : LatinAgree T) {u : Uni} (hu : TextUni u) (L : List Tok) (hL : L ∈ layoutsEsMx)
    (y m d : Nat) (hy : 1900 ≤ y ∧ y ≤ 2099) (hv : (⟨y, m, d⟩ : RTV.Cal.Date).valid = true) (wy : Int) (R : DT) :
    frontResolve T u (genCfg monthOfYear_esmx dayOfMonth_esmx) dateTokenPrefix dateRegexes (renderL namesEs L y m d) wy R =
      .ok (some [{ timex := ymd y m d, type := sDate, value := some (ymd y m d) }]) := by
  rw [esmx_same.2.2.1, esmx_same.2.2.2]
  exact front_abs_date_es hT hu L (layouts_esmx_sub L hL) y m d hy hv wy R

/-! ## instances and witnesses (concrete texts, ASCII tables) -/

/-- `5 de marzo de 2019` is the text of 2019-03-05 in layout 5 (the hypotheses are satisfiable) -/
example : layout5 ∈ layoutsEs ∧ renderL namesEs layout5 2019 3 5 =
    [53, 32, 100, 101, 32, 109, 97, 114, 122, 111, 32, 100, 101, 32, 50, 48, 49, 57] := by decide

/-- the DAY comes first: `5/12/2010` is day 5, month 12 (accepted by date_regex[3]) -/
theorem front_day_first_es :
    (parseBasic asciiTables asciiUni dateTokenPrefix dateRegexes [53, 47, 49, 50, 47, 50, 48, 49, 48]).map
        (·.map fun p => gtuple p.2) = some (some ([50, 48, 49, 48], [49, 50], [53], [])) := by
  decide +kernel

/-- near miss: a 13th month is not a month — `5/13/2019` is not accepted day-first (date_regex[3]) but by the month-first
date_regex[7]: month 5, day 13 -/
theorem front_month13_falls_to_month_first_es :
    (parseBasic asciiTables asciiUni dateTokenPrefix dateRegexes [53, 47, 49, 51, 47, 50, 48, 49, 57]).map
        (·.map fun p => gtuple p.2) = some (some ([50, 48, 49, 57], [53], [49, 51], [])) := by
  decide +kernel

theorem front_month13_regex_es :
    (parseBasic asciiTables asciiUni dateTokenPrefix dateRegexes [53, 47, 49, 51, 47, 50, 48, 49, 57]).map
        (·.map fun p => p.1.idx) = some (some 7) := by
  decide +kernel

/-- near miss: day 32 is no day — `32/3/2019` is accepted by no regex; neither is `13/13/2019` -/
theorem front_day32_rejected_es :
    (parseBasic asciiTables asciiUni dateTokenPrefix dateRegexes [51, 50, 47, 51, 47, 50, 48, 49, 57]).map (·.isNone) = some true ∧
    (parseBasic asciiTables asciiUni dateTokenPrefix dateRegexes [49, 51, 47, 49, 51, 47, 50, 48, 49, 57]).map (·.isNone) =
      some true := by
  decide +kernel

/-- an impossible day is still handed on: `30 de febrero de 2019` yields the groups 2019 / febrero / 30, and
`invalid_date_not_resolved` (Props/C06) takes over; a two-digit year reaches `match_to_date` as two digits: `5/3/30` -/
theorem front_invalid_day_groups_es :
    (parseBasic asciiTables asciiUni dateTokenPrefix dateRegexes
      [51, 48, 32, 100, 101, 32, 102, 101, 98, 114, 101, 114, 111, 32, 100, 101, 32, 50, 48, 49, 57]).map
        (·.map fun p => gtuple p.2) = some (some ([50, 48, 49, 57], [102, 101, 98, 114, 101, 114, 111], [51, 48], [])) := by
  decide +kernel

theorem front_two_digit_year_groups_es :
    (parseBasic asciiTables asciiUni dateTokenPrefix dateRegexes [53, 47, 51, 47, 51, 48]).map (·.map fun p => gtuple p.2) =
      some (some ([51, 48], [51], [53], [])) := by
  decide +kernel

end RTV.DateFront
