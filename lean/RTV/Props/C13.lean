import RTV.Lemmas.Ip
import RTV.Lemmas.Seq
import RTV.Lemmas.Guid
import RTV.Lemmas.Ip6
import RTV.Lemmas.Tags
import RTV.Lemmas.UrlDec0
import RTV.Lemmas.UrlDec1
import RTV.Lemmas.UrlDec2
import RTV.Lemmas.UrlDec3
import RTV.Lemmas.PhoneRun
/-!
# C13 — IP addresses, GUIDs and other sequence entities: sound and complete recognition

Theorems about the regenerated regexes (`RTV.Gen.ipv4Regex` … — what the translator read from
`recognizers_sequence/resources/base_ip.py`, `base_GUID.py` on this run), the all-ends matcher `RTV.Re.ends`, and the
model of `BaseIpExtractor.extract` / `BaseIpParser.drop_leading_zeros` (`RTV.Seq`).  They hold for **every** string and
position and for **every** engine tables `T` (what `\d`, `\w` mean) unless a hypothesis says otherwise.

What the EXTRACTOR reports (finditer over both patterns, the `matched` sweep, the ellipsis guards) — completeness with
the exact span for IPv4 and IPv6 tokens, soundness, and the behaviour on longer dotted runs such as `0.1.2.3.4` — is in
`Props/C13Extract.lean`.

History: before /repo commit d5d414a77 the patterns used `\d`, and soundness failed for the engine's real tables
(Unicode Nd): witness `1.2.3.٤`.  That is kept as a regression theorem about the literal pre-fix pattern
(`prefix_ipv4_unsound_unicode_digits`), next to the proof that the current pattern rejects the witness; the
correspondence keeps the probes `1.2.3.٤`, `1.2.3.４`, `::٤` in its corpus.
-/
namespace RTV.C13
open RTV.Re RTV.Seq RTV.Py RTV.Match

/-- The octet alternation `1[0-9]{2}|2[0-4][0-9]|25[0-5]|0?[1-9][0-9]|0{0,2}[0-9]` matches from `i` to `j` iff
`s[i:j]` is 1–3 ASCII digits with value ≤ 255 (positional form `OctetAt`). -/
theorem octet_lang (T : Tables) (s : Array Nat) (i j : Nat) :
    j ∈ ends T s octetRE i ↔ OctetAt s i j := octetOf_lang (digitClass_range T) s i j

/-- `OctetAt` is the list-level `Oct` of the slice. -/
theorem octet_is_oct {s : Array Nat} {i j : Nat} (h : OctetAt s i j) : Oct (slice s i j) := OctetAt_oct h

private theorem ipv4Of_valid {T : Tables} {x : RE} (hx : DigitClass T x) (s : Array Nat) (i j : Nat) :
    j ∈ ends T s (ipv4Of x) i ↔
      isWordB T s i = true ∧ j ≤ s.size ∧ ValidV4 (slice s i j) ∧ isWordB T s j = true := by
  rw [ipv4Of_lang hx]
  constructor
  · rintro ⟨h1, h2, h3⟩
    obtain ⟨k1, _, k2, _, k3, _, h4⟩ := h2
    exact ⟨h1, (OctetAt_bounds h4.2).2, V4Body_valid ⟨k1, ‹_›, k2, ‹_›, k3, ‹_›, h4⟩, h3⟩
  · rintro ⟨h1, h2, h3, h4⟩
    exact ⟨h1, valid_V4Body h2 h3, h4⟩

/-- The language of the regenerated `Ipv4Regex`: word boundary, dotted quad of octets 0..255, word boundary. -/
theorem ipv4_lang (T : Tables) (s : Array Nat) (i j : Nat) :
    Matches T RTV.Gen.ipv4Regex s i j ↔
      isWordB T s i = true ∧ j ≤ s.size ∧ ValidV4 (slice s i j) ∧ isWordB T s j = true := by
  unfold Matches
  rw [gen_ipv4]
  exact ipv4Of_valid (digitClass_range T) s i j

/-- C13 soundness of the IPv4 regex, for every engine tables: every match is a dotted quad of octets 0..255. -/
theorem ipv4_sound (T : Tables) (s : Array Nat) (i j : Nat)
    (h : Matches T RTV.Gen.ipv4Regex s i j) : ValidV4 (slice s i j) :=
  ((ipv4_lang T s i j).1 h).2.2.1

/-- `1.2.3.٤` (U+0664 ARABIC-INDIC DIGIT FOUR) -/
def witnessUnicodeDigit : Array Nat := #[49, 46, 50, 46, 51, 46, 1636]

/-- REGRESSION (defect #8, fixed by /repo d5d414a77): with the tables of the running `regex` module (`\d` = Unicode
Nd) the PRE-FIX pattern `ipv4PreFixRE` matches `1.2.3.٤`, which is not an IPv4 address. -/
theorem prefix_ipv4_unsound_unicode_digits :
    ¬ ∀ (s : Array Nat) (i j : Nat), Matches RTV.Gen.reTables ipv4PreFixRE s i j → ValidV4 (slice s i j) := by
  intro h
  have hm : Matches RTV.Gen.reTables ipv4PreFixRE witnessUnicodeDigit 0 7 := by decide +kernel
  have hv := ValidV4_chars (h _ _ _ hm) 1636 (by decide)
  omega

/-- the pre-fix pattern was sound exactly when `\d` means ASCII digit -/
theorem prefix_ipv4_sound_ascii {T : Tables} (hd : AsciiDigits T) (s : Array Nat) (i j : Nat)
    (h : Matches T ipv4PreFixRE s i j) : ValidV4 (slice s i j) :=
  ((ipv4Of_valid (digitClass_dg hd) s i j).1 h).2.2.1

example : AsciiDigits asciiTables := by
  intro c; simp [asciiTables]

/-- the current pattern finds nothing in the witness (engine's real tables) -/
theorem ipv4_rejects_unicode_digit_witness :
    findAll RTV.Gen.reTables witnessUnicodeDigit RTV.Gen.ipv4Regex = [] := by decide +kernel

/-- a match exists (engine's real tables) -/
example : Matches RTV.Gen.reTables RTV.Gen.ipv4Regex #[49, 46, 50, 46, 51, 46, 52] 0 7 := by decide +kernel

/-- C13 completeness + uniqueness for IPv4: a valid dotted quad at `[i, j)` that is delimited by word boundaries is
matched from `i`, and every match from `i` ends exactly at `j`.  `hw`: ASCII digits are word characters
(`real_digits_are_word` for the engine's tables). -/
theorem ipv4_complete_unique {T : Tables} (hw : ∀ c, 48 ≤ c ∧ c ≤ 57 → T.word c = true)
    (s : Array Nat) (i j : Nat) (hj : j ≤ s.size) (hv : ValidV4 (slice s i j))
    (hbi : isWordB T s i = true) (hbj : isWordB T s j = true) :
    ∀ j', Matches T RTV.Gen.ipv4Regex s i j' ↔ j' = j := by
  intro j'
  constructor
  · intro h
    have h' := (ipv4_lang T s i j').1 h
    exact V4Body_det hw (valid_V4Body h'.2.1 h'.2.2.1) (valid_V4Body hj hv) h'.2.2.2 hbj
  · rintro rfl
    exact (ipv4_lang T s i j').2 ⟨hbi, hj, hv, hbj⟩

/-- … hence a backtracking engine started at `i` reports exactly `[i, j)`. -/
theorem ipv4_reported_span {T : Tables} (hw : ∀ c, 48 ≤ c ∧ c ≤ 57 → T.word c = true)
    (s : Array Nat) (i j : Nat) (hj : j ≤ s.size) (hv : ValidV4 (slice s i j))
    (hbi : isWordB T s i = true) (hbj : isWordB T s j = true) :
    firstEnd T s RTV.Gen.ipv4Regex i = some j :=
  firstEnd_of_unique (ipv4_complete_unique hw s i j hj hv hbi hbj)

/-- the hypotheses are satisfiable: `ip 10.0.0.255!` -/
example : firstEnd RTV.Gen.reTables #[105, 112, 32, 49, 48, 46, 48, 46, 48, 46, 50, 53, 53, 33] RTV.Gen.ipv4Regex 3 = some 13 := by
  decide +kernel

/-- ASCII digits are word characters for the engine's real tables too (hypothesis `hw` above). -/
theorem real_digits_are_word : ∀ c, 48 ≤ c ∧ c ≤ 57 → RTV.Gen.reTables.word c = true := by
  intro c ⟨h1, h2⟩
  have : c = 48 ∨ c = 49 ∨ c = 50 ∨ c = 51 ∨ c = 52 ∨ c = 53 ∨ c = 54 ∨ c = 55 ∨ c = 56 ∨ c = 57 := by omega
  rcases this with rfl | rfl | rfl | rfl | rfl | rfl | rfl | rfl | rfl | rfl <;> decide +kernel

/-! ### IPv6 (`BaseIp.Ipv6Regex`, all nine ellipsis forms; explicit classes, so these hold for every tables) -/

/-- `([0-9a-fA-F]{1,4})` followed by `c`: 1–4 hex digits, then `c`. -/
theorem hextet_lang (T : Tables) (s : Array Nat) (g i j : Nat) :
    j ∈ ends T s (hx g) i ↔ HextetAt s i j := by
  have := seq_hx (T := T) (s := s) (g := g) (i := i) (j := j) (c := .eps)
  rw [seq_eps_right] at this
  rw [this]
  simp only [mem_eps]
  constructor
  · rintro ⟨k, h, rfl⟩; exact h
  · intro h; exact ⟨j, h, rfl⟩

/-- The language of the regenerated `Ipv6Regex`, boundaries included (`V6Match`). -/
theorem ipv6_lang (T : Tables) (s : Array Nat) (i j : Nat) :
    Matches T RTV.Gen.ipv6Regex s i j ↔ V6Match T s i j := by
  unfold Matches; rw [gen_ipv6]; exact ipv6RE_lang s i j

/-- C13 soundness for IPv6: every match is an RFC 4291 text form — eight hextets, or `a` hextets `::` `b` hextets
with `a + b ≤ 7`. -/
theorem ipv6_sound (T : Tables) (s : Array Nat) (i j : Nat) (h : Matches T RTV.Gen.ipv6Regex s i j) :
    V6At s i j := V6Match_sound ((ipv6_lang T s i j).1 h)

/-- C13 completeness for IPv6, exploded and every compressed form: an address text at `[i, j)` with no word
character touching it from outside is matched from `i` to `j`.  (This is membership only: from the start of `1::2:3` the end after `1::2` is also a match.
Which end the engine reports FIRST is `ipv6_reported_span` in `Props/C13Extract.lean`, and what the extractor then
reports is `ipv6_extract_complete` there.) -/
theorem ipv6_complete {T : Tables} (hwx : ∀ c, isHexI c → T.word c = true) (hc : T.word 58 = false)
    (s : Array Nat) (i j : Nat) (hd : Delim T s i j) (hv : V6At s i j) :
    Matches T RTV.Gen.ipv6Regex s i j :=
  (ipv6_lang T s i j).2 (V6At_complete hwx hc hd hv)

/-- the hypotheses hold for the engine's real tables -/
theorem real_hex_are_word : ∀ c, isHexI c → RTV.Gen.reTables.word c = true := by
  intro c h
  unfold isHexI at h
  have : c = 48 ∨ c = 49 ∨ c = 50 ∨ c = 51 ∨ c = 52 ∨ c = 53 ∨ c = 54 ∨ c = 55 ∨ c = 56 ∨ c = 57 ∨
      c = 65 ∨ c = 66 ∨ c = 67 ∨ c = 68 ∨ c = 69 ∨ c = 70 ∨ c = 97 ∨ c = 98 ∨ c = 99 ∨ c = 100 ∨ c = 101 ∨ c = 102 := by
    omega
  rcases this with rfl | rfl | rfl | rfl | rfl | rfl | rfl | rfl | rfl | rfl | rfl | rfl | rfl | rfl | rfl | rfl |
    rfl | rfl | rfl | rfl | rfl | rfl <;> decide +kernel

theorem real_colon_not_word : RTV.Gen.reTables.word 58 = false := by decide +kernel

/-- examples (engine's real tables): `fe80::1:2` in ` fe80::1:2 `, and `::` alone -/
example : firstEnd RTV.Gen.reTables #[32, 102, 101, 56, 48, 58, 58, 49, 58, 50, 32] RTV.Gen.ipv6Regex 1 = some 10 := by
  decide +kernel
example : findAll RTV.Gen.reTables #[58, 58] RTV.Gen.ipv6Regex = [(0, 2)] := by decide +kernel

/-- `drop_leading_zeros` keeps the value of every hex group too: `normNumber` preserves the positional value in any
base for any digit valuation that sends `'0'` to 0 (with `drop_zeros_groupwise`: same IPv6 address). -/
theorem drop_zeros_group_value (B : Nat) (v : Nat → Nat) (hv : v 48 = 0) (g : List Nat) :
    posVal B v (normNumber g) = posVal B v g ∧ Canon (normNumber g) :=
  ⟨normNumber_posVal B v hv g, normNumber_canon g⟩

/-! ### hashtags, mentions, e-mail addresses (`BaseHashtag.HashtagRegex`, `BaseMention.MentionRegex`,
`BaseEmail.EmailRegex`; all compiled with IGNORECASE | DOTALL). -/

/-- C13 (hashtag, what a match is): from `i` the regex matches `#` + any non-empty prefix of the run of tag
characters (`[a-zA-Z0-9_]` and `regex`'s IGNORECASE variants İ ı ſ K), provided `i` is at the start or after `\s`. -/
theorem hashtag_lang (T : Tables) (s : Array Nat) (i j : Nat) :
    Matches T RTV.Gen.hashtagRegex s i j ↔
      AfterSpaceOrStart T s i ∧ code s i = 35 ∧ ∃ n, 1 ≤ n ∧ RunAt isTagChar s (i + 1) n ∧ j = i + 1 + n := by
  unfold Matches; rw [gen_hashtag]; exact hashtagRE_lang i j

/-- C13 (hashtag, exact span): a greedy backtracking engine started at `i` reports `#` plus the **whole** run of tag
characters — or nothing. -/
theorem hashtag_reported_span (T : Tables) (s : Array Nat) (i : Nat) :
    firstEnd T s RTV.Gen.hashtagRegex i =
      if AfterSpaceOrStart T s i ∧ code s i = 35 ∧ 1 ≤ runLen (tagOk T s) (1 + s.size + 1) (i + 1) then
        some (i + 1 + runLen (tagOk T s) (1 + s.size + 1) (i + 1))
      else none := by
  rw [gen_hashtag]; exact hashtagRE_firstEnd i

/-- `see #Tag_1 now` → `[4, 10)` (engine's real tables) -/
example : findAll RTV.Gen.reTables #[115, 101, 101, 32, 35, 84, 97, 103, 95, 49, 32, 110, 111, 119] RTV.Gen.hashtagRegex
    = [(4, 10)] := by decide +kernel

/-- C13 (mention, what a match is): `@`, a non-empty run of tag characters, not followed by `.` + word character,
then a word boundary. -/
theorem mention_lang (T : Tables) (s : Array Nat) (i j : Nat) :
    Matches T RTV.Gen.mentionRegex s i j ↔
      code s i = 64 ∧ ∃ n, 1 ≤ n ∧ RunAt isTagChar s (i + 1) n ∧ j = i + 1 + n ∧ ¬ DotWord T s j ∧
        isWordB T s j = true := by
  unfold Matches; rw [gen_mention]; exact mentionRE_lang i j

/-- C13 (mention, exact span): when tag characters are word characters (`real_tagchars_are_word`) all matches from `i`
end at the same place — the end of the whole run — so that is what the engine reports. -/
theorem mention_unique {T : Tables} (hw : ∀ c, isTagChar c → T.word c = true) (s : Array Nat) (i j j' : Nat)
    (h : Matches T RTV.Gen.mentionRegex s i j) (h' : Matches T RTV.Gen.mentionRegex s i j') : j = j' := by
  unfold Matches at h h'; rw [gen_mention] at h h'; exact mentionRE_unique hw h h'

theorem mention_reported_span {T : Tables} (hw : ∀ c, isTagChar c → T.word c = true) (s : Array Nat) (i j : Nat)
    (h : Matches T RTV.Gen.mentionRegex s i j) : firstEnd T s RTV.Gen.mentionRegex i = some j :=
  firstEnd_of_unique fun j' => ⟨fun h' => mention_unique hw s i j' j h' h, fun e => e ▸ h⟩

instance : DecidablePred isTagChar := fun c => by unfold isTagChar; exact inferInstance

def tagCharList : List Nat :=
  List.range' 48 10 ++ List.range' 65 26 ++ [95] ++ List.range' 97 26 ++ [304, 305, 383, 8490]

theorem real_tagchars_are_word : ∀ c, isTagChar c → RTV.Gen.reTables.word c = true := by
  have hall : tagCharList.all (fun c => RTV.Gen.reTables.word c) = true := by decide +kernel
  intro c hc
  have hm : c ∈ tagCharList := by
    unfold isTagChar at hc
    simp only [tagCharList, List.mem_append, List.mem_range'_1, List.mem_cons, List.mem_nil_iff, or_false]
    omega
  exact List.all_eq_true.1 hall c hm

/-- `hi @bob_1.` → `[3, 9)`; `@bob.x` → nothing (engine's real tables) -/
example : findAll RTV.Gen.reTables #[104, 105, 32, 64, 98, 111, 98, 95, 49, 46] RTV.Gen.mentionRegex = [(3, 9)] := by
  decide +kernel
example : findAll RTV.Gen.reTables #[64, 98, 111, 98, 46, 120] RTV.Gen.mentionRegex = [] := by decide +kernel

/-- C13 (e-mail, what a match is): `local@domain.tld` with the three character classes of the pattern and 2–6 tld
characters.  (`hd0`: NUL is not a digit — true for every engine.) -/
theorem email_lang {T : Tables} (hd0 : T.digit 0 = false) (s : Array Nat) (i j : Nat) :
    Matches T RTV.Gen.emailRegex s i j ↔
      ∃ a b n, 1 ≤ a ∧ RunAt (EmailLocal T) s i a ∧ code s (i + a) = 64 ∧
        1 ≤ b ∧ RunAt (EmailDomain T) s (i + a + 1) b ∧ code s (i + a + 1 + b) = 46 ∧
        2 ≤ n ∧ n ≤ 6 ∧ RunAt (EmailTld T) s (i + a + 1 + b + 1) n ∧ j = i + a + 1 + b + 1 + n := by
  unfold Matches; rw [gen_email]; exact emailRE_lang hd0 i j

example : RTV.Gen.reTables.digit 0 = false := by decide +kernel

/-! ### URLs (`BaseURLExtractor`: `BaseURL.IpUrlRegex`, `UrlRegex`, `UrlRegex2`, the `Tld` group checked against
`BaseURL.TldList` through the `StringMatcher` model of C16, the ambiguous-time-term rejection) -/

/-- C13 (URL, soundness, universal): for any regexes, TLD list and text, every entity `BaseURLExtractor.extract`
reports has exactly the span of a match that passed `_is_valid_match` — an IP-URL match, or a match of
`UrlRegex` / `UrlRegex2` whose `Tld` group is a listed TLD — and is not an ambiguous time term such as `7.am`. -/
theorem url_reported_valid (E : RTV.Url.UrlEnv) (s : List Nat) (ers : List ER) (h : RTV.Url.urlExtract E s = some ers) :
    ∀ r ∈ ers, ∃ b, r.len = b - r.start ∧ r.data = "Url" ∧ RTV.Url.Origin E s r.start b :=
  RTV.Url.url_reported_valid E s ers h

/-- C13 (URL, the explicit grammar `scheme hostpre dom '.' tld tail` of harness/lib/urlgrammar.py, which the pipeline
generates from): for every string of the covering family (every scheme × host prefix × tail, every domain × TLD,
every TLD × tail; alone and in carrier sentences) `recognize_url` as modelled — preprocessing, the three regenerated
regexes, TLD check, sweep, parser — reports exactly one entity: the URL as a whole, at its place, value = text.
(Kernel evaluation on the regenerated data; the full 1080-string language runs through the implementation in the
pipeline of the correspondence.) -/
theorem url_grammar_recognised :
    ∀ c ∈ RTV.Gen.urlFamily0 ++ RTV.Gen.urlFamily1 ++ RTV.Gen.urlFamily2 ++ RTV.Gen.urlFamily3,
      urlModelRun genSeqEnv c.1 =
        [(ofString "url", c.2.1, (c.2.1 : Int) + c.2.2.length - 1, c.2.2, c.2.2)] := by
  intro c hc
  have h0 : urlOK genSeqEnv RTV.Gen.urlFamily0 = true := by rw [← fastSeqEnv_eq]; exact url_family0_fast
  have h1 : urlOK genSeqEnv RTV.Gen.urlFamily1 = true := by rw [← fastSeqEnv_eq]; exact url_family1_fast
  have h2 : urlOK genSeqEnv RTV.Gen.urlFamily2 = true := by rw [← fastSeqEnv_eq]; exact url_family2_fast
  have h3 : urlOK genSeqEnv RTV.Gen.urlFamily3 = true := by rw [← fastSeqEnv_eq]; exact url_family3_fast
  unfold urlOK at h0 h1 h2 h3
  simp only [List.mem_append] at hc
  rcases hc with ((hc | hc) | hc) | hc
  · simpa using List.all_eq_true.1 h0 c hc
  · simpa using List.all_eq_true.1 h1 c hc
  · simpa using List.all_eq_true.1 h2 c hc
  · simpa using List.all_eq_true.1 h3 c hc

set_option maxRecDepth 100000 in
theorem url_family_size :
    RTV.Gen.urlFamily0.length + RTV.Gen.urlFamily1.length + RTV.Gen.urlFamily2.length +
      RTV.Gen.urlFamily3.length ≥ 100 := by decide +kernel

/-! ### phone numbers (`BasePhoneNumberExtractor.extract`: ten regenerated patterns, sweep, post-processing) -/

/-- C13 (phone, span theorem for ANY regex outcome): whatever the regexes / tables answer (`PhoneOracle`), whatever the
mask list, the text and the candidates, every entity that leaves the post-processing loop comes from one candidate
`e`, keeps its tag, `e` passed the digit-count / SSN / forbidden-suffix / false-positive-prefix filters, and the entity
is `e` itself or `e` re-spanned to start at an international dialling prefix: text = stripped slice, end not beyond
`e`'s end (equal to it when the prefix match ends right before the `-`, as `0(0|11)$` does). -/
theorem phone_post_span (O : RTV.Phone.PhoneOracle) (masks : List (Nat × Nat)) (source : List Nat) (ers : List ER)
    (hint : ∀ f a b, O.intl f = some (a, b) → a ≤ b ∧ b ≤ f.length)
    (r : ER) (h : r ∈ RTV.Phone.postProcess O masks source ers) :
    ∃ e ∈ ers, r.data = e.data ∧ RTV.Phone.Passed O source e ∧
      (r = e ∨
        (∃ me, O.intl (sliceI source 0 ((e.start : Int) - 1)) = some (r.start, me) ∧
          r.start ≤ me ∧ me + 1 ≤ e.start ∧ r.len = e.len + (me - r.start) + 1 ∧
          r.text = strip O.isSpace (sliceI source r.start (r.start + r.len)) ∧
          (e.start + e.len ≤ source.length → r.start + r.len ≤ e.start + e.len ∧
            (me + 1 = e.start → r.start + r.len = e.start + e.len)))) :=
  RTV.Phone.postProcess_span O masks source ers hint r h

/-- C13 (phone, the prefix rejections): a candidate that is reported unchanged stands at the start of the text, or the
character before it is no boundary marker (`- . / + # *`) and no forbidden prefix marker (`, : %` — a `:` is allowed
after a letter), or it is a `-` that follows neither a digit nor a lower-case letter. -/
theorem phone_kept_prefix (O : RTV.Phone.PhoneOracle) (source : List Nat) (e : ER)
    (h : RTV.Phone.judge O source e = .keep) :
    e.start = 0 ∨
    (let ch := (index source ((e.start : Int) - 1)).getD 0
     (RTV.Phone.boundaryMarkers.contains ch = false ∧
        (O.forbiddenPrefix.contains ch = false ∨
          (ch = 58 ∧ O.colonOk (sliceI source 0 ((e.start : Int) - 1)) = true))) ∨
     (ch = 45 ∧ 2 ≤ e.start ∧ O.fmtInd e.text = true ∧ O.isDigit (source.getD (e.start - 2) 0) = false ∧
        O.isLower (source.getD (e.start - 2) 0) = false)) :=
  RTV.Phone.judge_keep O source e h

/-- C13 (phone, end to end on the regenerated regexes and tables): every reported entity lies inside the text, stems
from a candidate that is exactly a match of one of the ten phone patterns (tag kept) and passed the filters, and is
that candidate or its extension to the left. -/
theorem phone_extract_spec (E : SeqEnv) (source : List Nat) : ∀ r ∈ phoneExtract E source,
    r.start + r.len ≤ source.length ∧
    ∃ e : ER, e.start + e.len ≤ source.length ∧
      (∃ p ∈ phoneRegexes, e.data = p.2 ∧ r.data = p.2 ∧ Matches E.T p.1 source.toArray e.start (e.start + e.len)) ∧
      RTV.Phone.Passed (phoneOracleOf E) source e ∧
      (r = e ∨ (r.start < e.start ∧ r.start + r.len ≤ e.start + e.len ∧
        r.text = strip E.K.isSpace (sliceI source r.start (r.start + r.len)))) :=
  phoneExtract_spec E source

/-- every end the matcher reports lies at or after the start and inside the string (any regex) -/
theorem ends_inside_text (T : Tables) (s : Array Nat) (r : RE) (i j : Nat) (h : Matches T r s i j) :
    i ≤ j ∧ (i ≤ s.size → j ≤ s.size) := ends_bounds r i j h

/-- `9 00-206-555-0123`: the candidate `206-555-0123` is re-spanned to `00-206-555-0123` (engine's tables) -/
example : (phoneExtract fastSeqEnv (ofString "9 00-206-555-0123")).map (fun r => (r.start, r.len)) = [(2, 15)] := by
  decide +kernel

/-! ### `drop_leading_zeros` -/

/-- `w` is a dotted quad whose octets have the values `x1 … x4` -/
def V4Denotes (w : List Nat) (x1 x2 x3 x4 : Nat) : Prop :=
  ∃ a b c d, Oct a ∧ Oct b ∧ Oct c ∧ Oct d ∧ w = a ++ 46 :: (b ++ 46 :: (c ++ 46 :: d)) ∧
    decVal a = x1 ∧ decVal b = x2 ∧ decVal c = x3 ∧ decVal d = x4

theorem validV4_iff_denotes (w : List Nat) : ValidV4 w ↔ ∃ x1 x2 x3 x4, V4Denotes w x1 x2 x3 x4 := by
  constructor
  · rintro ⟨a, b, c, d, ha, hb, hc, hd, e⟩
    exact ⟨_, _, _, _, a, b, c, d, ha, hb, hc, hd, e, rfl, rfl, rfl, rfl⟩
  · rintro ⟨_, _, _, _, a, b, c, d, ha, hb, hc, hd, e, _⟩
    exact ⟨a, b, c, d, ha, hb, hc, hd, e⟩

theorem oct_no_sep {a : List Nat} (h : Oct a) : ∀ c ∈ a, isSep c = false := by
  intro c hc
  have := h.2.2.1 c hc
  simp [isSep]; omega

/-- what `drop_leading_zeros` does to a dotted quad: `normNumber` on each octet -/
theorem drop_zeros_quad {a b c d : List Nat} (ha : Oct a) (hb : Oct b) (hc : Oct c) (hd : Oct d) :
    dropLeadingZeros (a ++ 46 :: (b ++ 46 :: (c ++ 46 :: d))) =
      normNumber a ++ 46 :: (normNumber b ++ 46 :: (normNumber c ++ 46 :: normNumber d)) := by
  have h := dropLeadingZeros_render a [(46, b), (46, c), (46, d)] (oct_no_sep ha) (by
    intro p hp
    simp at hp
    rcases hp with rfl | rfl | rfl
    · exact ⟨by simp [isSep], oct_no_sep hb⟩
    · exact ⟨by simp [isSep], oct_no_sep hc⟩
    · exact ⟨by simp [isSep], oct_no_sep hd⟩)
  have ne : ∀ {x : List Nat}, Oct x → nz x = normNumber x := by
    intro x hx; unfold nz; have := hx.1; cases x <;> simp_all
  simpa [render, ne ha, ne hb, ne hc, ne hd] using h

/-- C13: the resolved value denotes the same address. -/
theorem drop_zeros_same_address {w : List Nat} {x1 x2 x3 x4 : Nat} (h : V4Denotes w x1 x2 x3 x4) :
    V4Denotes (dropLeadingZeros w) x1 x2 x3 x4 := by
  obtain ⟨a, b, c, d, ha, hb, hc, hd, rfl, rfl, rfl, rfl, rfl⟩ := h
  have na := normNumber_oct ha; have nb := normNumber_oct hb
  have nc := normNumber_oct hc; have nd := normNumber_oct hd
  exact ⟨_, _, _, _, na.1, nb.1, nc.1, nd.1, drop_zeros_quad ha hb hc hd, na.2.1, nb.2.1, nc.2.1, nd.2.1⟩

/-- C13: the resolved value is canonical — every octet is `0` or has no leading zero. -/
theorem drop_zeros_canonical {w : List Nat} (h : ValidV4 w) :
    ∃ a b c d, dropLeadingZeros w = a ++ 46 :: (b ++ 46 :: (c ++ 46 :: d)) ∧
      Oct a ∧ Oct b ∧ Oct c ∧ Oct d ∧ Canon a ∧ Canon b ∧ Canon c ∧ Canon d := by
  obtain ⟨a, b, c, d, ha, hb, hc, hd, rfl⟩ := h
  have na := normNumber_oct ha; have nb := normNumber_oct hb
  have nc := normNumber_oct hc; have nd := normNumber_oct hd
  exact ⟨_, _, _, _, drop_zeros_quad ha hb hc hd, na.1, nb.1, nc.1, nd.1, na.2.2, nb.2.2, nc.2.2, nd.2.2⟩

/-- group-wise specification for every text (IPv4 and IPv6 alike): separators and empty groups are kept, every other
group is replaced by `normNumber` of it, which keeps its value in any base (`normNumber_posVal`). -/
theorem drop_zeros_groupwise (g0 : List Nat) (gs : List (Nat × List Nat)) (h0 : ∀ c ∈ g0, isSep c = false)
    (hs : ∀ p ∈ gs, isSep p.1 = true ∧ ∀ c ∈ p.2, isSep c = false) :
    dropLeadingZeros (render g0 gs) = render (nz g0) (gs.map fun p => (p.1, nz p.2)) :=
  dropLeadingZeros_render g0 gs h0 hs

example : dropLeadingZeros [48, 49, 48, 46, 48, 48, 48, 46, 48, 46, 48, 57] = [49, 48, 46, 48, 46, 48, 46, 57] := by
  decide

/-! ### the extractor reports only spans of regex matches -/

/-- Every entity `BaseIpExtractor.extract` reports has exactly the span of a `finditer` match of the IPv4 or the IPv6
regex, and carries that regex's tag. -/
theorem ip_extract_sound (T : Tables) (K : CharClass) (v4 v6 : RE) (s : List Nat) :
    ∀ r ∈ ipExtract T K v4 v6 s, ∃ b, r.len = b - r.start ∧
      ((r.data = "ipv4" ∧ Matches T v4 s.toArray r.start b) ∨ (r.data = "ipv6" ∧ Matches T v6 s.toArray r.start b)) := by
  intro r hr
  unfold ipExtract ipSweep at hr
  split at hr
  · simp at hr
  · obtain ⟨b, hm, hl⟩ := sweepGo_mem _ _ _ _ _ _ _ r hr
    refine ⟨b, hl, ?_⟩
    rcases List.mem_append.1 hm with hm | hm
    · have := tagged_mem hm
      exact .inl ⟨this.2, findAll_sound _ this.1⟩
    · have := tagged_mem hm
      exact .inr ⟨this.2, findAll_sound _ this.1⟩

/-- … so every entity tagged `ipv4` is a valid dotted quad. -/
theorem ip_extract_v4_valid (T : Tables) (K : CharClass) (v6 : RE) (s : List Nat) :
    ∀ r ∈ ipExtract T K RTV.Gen.ipv4Regex v6 s, r.data = "ipv4" →
      ValidV4 (slice s.toArray r.start (r.start + r.len)) := by
  intro r hr hdata
  obtain ⟨b, hl, h | h⟩ := ip_extract_sound T K _ v6 s r hr
  · have hm := (ipv4_lang T _ _ _).1 h.2
    obtain ⟨a', b', c', d', ha, _, _, _, e⟩ := hm.2.2.1
    have hlt : r.start < b := by
      by_cases hlt : r.start < b
      · exact hlt
      · rw [slice_nil_of_le (by omega)] at e
        have h1 := ha.1
        have h2 := congrArg List.length e
        simp at h2
    have : r.start + r.len = b := by omega
    rw [this]; exact hm.2.2.1
  · rw [hdata] at h; exact absurd h.1 (by decide)

/-! ### GUIDs (`BaseGUID.GUIDRegex`; the classes are explicit ranges, so these hold for the engine's real tables) -/

/-- The language of the regenerated `GUIDRegex`: exactly the five layouts of `GuidAt` around a core
`8-4-4-4-12` / 32 hex digits (either letter case, the regex is compiled with IGNORECASE). Soundness (`→`) and
completeness (`←`) in one statement, for every tables `T`. -/
theorem guid_lang (T : Tables) (s : Array Nat) (i j : Nat) :
    Matches T RTV.Gen.guidRegex s i j ↔ GuidAt T s i j := by
  unfold Matches; rw [gen_guid]; exact guidRE_lang s i j

/-- C13 soundness for GUIDs: every match contains a well-formed core, preceded by at most 9 and followed by at
most 3 wrapper characters. -/
theorem guid_sound (T : Tables) (s : Array Nat) (i j : Nat) (hm : Matches T RTV.Gen.guidRegex s i j) :
    ∃ a b, i ≤ a ∧ a ≤ i + 9 ∧ b ≤ j ∧ j ≤ b + 3 ∧ GuidCoreAt s a b := by
  rcases (guid_lang T s i j).1 hm with ⟨_, h, _⟩ | ⟨_, k, h, _, rfl⟩ | ⟨_, _, _, _, _, _, _, _, _, h, _⟩ |
    ⟨_, _, _, k, h, _, _, _, rfl⟩ | ⟨_, _, k, h, _, rfl⟩
  · exact ⟨i, j, by omega, by omega, by omega, by omega, h⟩
  · exact ⟨i + 1, k, by omega, by omega, by omega, by omega, h⟩
  · exact ⟨i + 9, j, by omega, by omega, by omega, by omega, h⟩
  · exact ⟨i + 3, k, by omega, by omega, by omega, by omega, h⟩
  · exact ⟨i + 2, k, by omega, by omega, by omega, by omega, h⟩

private theorem hex_ne {c : Nat} (h : isHexI c) :
    c ≠ 123 ∧ c ≠ 85 ∧ c ≠ 117 ∧ c ≠ 37 ∧ c ≠ 88 ∧ c ≠ 120 := by unfold isHexI at h; omega

/-- C13 completeness + uniqueness, plain / upper-case / undashed layouts: a GUID core at `[i, j)` delimited by word
boundaries is matched from `i`, and every match from `i` ends at `j`. -/
theorem guid_complete_unique_plain (T : Tables) (s : Array Nat) (i j : Nat) (hc : GuidCoreAt s i j)
    (hbi : isWordB T s i = true) (hbj : isWordB T s j = true) :
    ∀ j', Matches T RTV.Gen.guidRegex s i j' ↔ j' = j := by
  intro j'
  rw [guid_lang]
  have hx := hex_ne (GuidCoreAt_first_hex hc)
  constructor
  · rintro (⟨_, h, _⟩ | ⟨h0, _⟩ | ⟨h0, _⟩ | ⟨h0, _⟩ | ⟨h0, _⟩)
    · exact GuidCoreAt_det h hc
    · exact absurd h0 hx.1
    · rcases h0 with h0 | h0
      · exact absurd h0 hx.2.1
      · exact absurd h0 hx.2.2.1
    · exact absurd h0 hx.2.2.2.1
    · rcases h0 with h0 | h0
      · exact absurd h0 hx.2.2.2.2.1
      · exact absurd h0 hx.2.2.2.2.2
  · rintro rfl; exact .inl ⟨hbi, hc, hbj⟩

/-- … braced layout `{core}`: no boundary condition is needed. -/
theorem guid_complete_unique_braced (T : Tables) (s : Array Nat) (i k : Nat) (h0 : code s i = 123)
    (hc : GuidCoreAt s (i + 1) k) (h1 : code s k = 125) :
    ∀ j', Matches T RTV.Gen.guidRegex s i j' ↔ j' = k + 1 := by
  intro j'
  rw [guid_lang]
  constructor
  · rintro (⟨_, h, _⟩ | ⟨_, k', h, _, rfl⟩ | ⟨h, _⟩ | ⟨h, _⟩ | ⟨h, _⟩)
    · have := hex_ne (GuidCoreAt_first_hex h); exact absurd h0 this.1
    · rw [GuidCoreAt_det h hc]
    · omega
    · omega
    · omega
  · rintro rfl; exact .inr (.inl ⟨h0, k, hc, h1, rfl⟩)

/-- hence the engine reports exactly the token — plain / upper-case / undashed layouts (a core between word
boundaries); the braced layout is `guid_reported_span_braced` -/
theorem guid_reported_span (T : Tables) (s : Array Nat) (i j : Nat) (hc : GuidCoreAt s i j)
    (hbi : isWordB T s i = true) (hbj : isWordB T s j = true) :
    firstEnd T s RTV.Gen.guidRegex i = some j :=
  firstEnd_of_unique (guid_complete_unique_plain T s i j hc hbi hbj)

/-- … and the braced layout `{core}`: the engine reports it with both braces, whatever surrounds it -/
theorem guid_reported_span_braced (T : Tables) (s : Array Nat) (i k : Nat) (h0 : code s i = 123)
    (hc : GuidCoreAt s (i + 1) k) (h1 : code s k = 125) :
    firstEnd T s RTV.Gen.guidRegex i = some (k + 1) :=
  firstEnd_of_unique (guid_complete_unique_braced T s i k h0 hc h1)

/-- the hypotheses are satisfiable (real engine tables): `{01234567-89AB-cdef-0123-456789abcdef}` and the core alone -/
example : firstEnd RTV.Gen.reTables
    #[123, 48, 49, 50, 51, 52, 53, 54, 55, 45, 56, 57, 65, 66, 45, 99, 100, 101, 102, 45, 48, 49, 50, 51, 45, 52, 53, 54,
      55, 56, 57, 97, 98, 99, 100, 101, 102, 125] RTV.Gen.guidRegex 0 = some 38 := by decide +kernel

/-- Every entity `BaseGUIDExtractor.extract` reports has exactly the span of a match of the GUID regex. -/
theorem guid_extract_sound (T : Tables) (K : CharClass) (g : RE) (s : List Nat) :
    ∀ r ∈ guidExtract T K g s, ∃ b, r.len = b - r.start ∧ Matches T g s.toArray r.start b := by
  intro r hr
  unfold guidExtract seqSweep at hr
  split at hr
  · simp at hr
  · obtain ⟨b, hm, hl⟩ := sweepGo_mem _ _ _ _ _ _ _ r hr
    exact ⟨b, hl, findAll_sound _ (tagged_mem hm).1⟩

end RTV.C13
