import RTV.Lemmas.Ip
import RTV.Lemmas.Seq
/-!
# C13 — IP addresses, GUIDs and other sequence entities: sound and complete recognition

Theorems about the regenerated regexes (`RTV.Gen.ipv4Regex` … — what the translator read from
`recognizers_sequence/resources/base_ip.py`, `base_GUID.py` on this run), the all-ends matcher `RTV.Re.ends`, and the
model of `BaseIpExtractor.extract` / `BaseIpParser.drop_leading_zeros` (`RTV.Seq`).  They hold for **every** string and
position.  `Tables` (what `\d`, `\w` mean) is a parameter; hypotheses say what is needed of it.

Full statement of soundness, which the faithful model violates:
  `∀ s i j, Matches reTables ipv4Regex s i j → ValidV4 (slice s i j)`   (with the engine's real `\d` = Unicode Nd)
It is proved under `AsciiDigits T` (`ipv4_sound`) and refuted for the engine's real tables by the witness `1.2.3.٤`
(`ipv4_unsound_unicode_digits`), which the correspondence replays on `recognize_ip_address` (finding
`ipv4-unicode-digit`).
-/
namespace RTV.C13
open RTV.Re RTV.Seq RTV.Py RTV.Match

/-- The octet alternation `1\d{2}|2[0-4]\d|25[0-5]|0?[1-9]\d|0{0,2}\d` matches from `i` to `j` iff `s[i:j]` is 1–3
ASCII digits with value ≤ 255 (positional form `OctetAt`). -/
theorem octet_lang {T : Tables} (hd : AsciiDigits T) (s : Array Nat) (i j : Nat) :
    j ∈ ends T s octetRE i ↔ OctetAt s i j := octetRE_lang hd s i j

/-- `OctetAt` is the list-level `Oct` of the slice. -/
theorem octet_is_oct {s : Array Nat} {i j : Nat} (h : OctetAt s i j) : Oct (slice s i j) := OctetAt_oct h

/-- The language of the regenerated `Ipv4Regex`: word boundary, dotted quad, word boundary. -/
theorem ipv4_lang {T : Tables} (hd : AsciiDigits T) (s : Array Nat) (i j : Nat) :
    Matches T RTV.Gen.ipv4Regex s i j ↔
      isWordB T s i = true ∧ j ≤ s.size ∧ ValidV4 (slice s i j) ∧ isWordB T s j = true := by
  unfold Matches
  rw [gen_ipv4, ipv4RE_lang hd]
  constructor
  · rintro ⟨h1, h2, h3⟩
    obtain ⟨k1, _, k2, _, k3, _, h4⟩ := h2
    exact ⟨h1, (OctetAt_bounds h4.2).2, V4Body_valid ⟨k1, ‹_›, k2, ‹_›, k3, ‹_›, h4⟩, h3⟩
  · rintro ⟨h1, h2, h3, h4⟩
    exact ⟨h1, valid_V4Body h2 h3, h4⟩

/-- C13 soundness of the IPv4 regex when `\d` means ASCII digit: every match is a dotted quad of octets 0..255. -/
theorem ipv4_sound {T : Tables} (hd : AsciiDigits T) (s : Array Nat) (i j : Nat)
    (h : Matches T RTV.Gen.ipv4Regex s i j) : ValidV4 (slice s i j) :=
  ((ipv4_lang hd s i j).1 h).2.2.1

/-- `1.2.3.٤` (U+0664 ARABIC-INDIC DIGIT FOUR) -/
def witnessUnicodeDigit : Array Nat := #[49, 46, 50, 46, 51, 46, 1636]

/-- NEGATIVE: with the tables of the running `regex` module (`\d` = Unicode Nd) the regex matches `1.2.3.٤`,
which is not an IPv4 address (defect #8; replayed on `recognize_ip_address` by the correspondence). -/
theorem ipv4_unsound_unicode_digits :
    ¬ ∀ (s : Array Nat) (i j : Nat), Matches RTV.Gen.reTables RTV.Gen.ipv4Regex s i j → ValidV4 (slice s i j) := by
  intro h
  have hm : Matches RTV.Gen.reTables RTV.Gen.ipv4Regex witnessUnicodeDigit 0 7 := by decide +kernel
  have hv := ValidV4_chars (h _ _ _ hm) 1636 (by decide)
  omega

/-- the hypothesis of `ipv4_sound` is satisfiable (`re.ASCII` tables) … -/
example : AsciiDigits asciiTables := by
  intro c; simp [asciiTables]
/-- … and a match exists under it -/
example : Matches asciiTables RTV.Gen.ipv4Regex #[49, 46, 50, 46, 51, 46, 52] 0 7 := by decide +kernel

/-- C13 completeness + uniqueness for IPv4: a valid dotted quad at `[i, j)` that is delimited by word boundaries is
matched from `i`, and every match from `i` ends exactly at `j`. -/
theorem ipv4_complete_unique {T : Tables} (hd : AsciiDigits T) (hw : ∀ c, 48 ≤ c ∧ c ≤ 57 → T.word c = true)
    (s : Array Nat) (i j : Nat) (hj : j ≤ s.size) (hv : ValidV4 (slice s i j))
    (hbi : isWordB T s i = true) (hbj : isWordB T s j = true) :
    ∀ j', Matches T RTV.Gen.ipv4Regex s i j' ↔ j' = j := by
  intro j'
  constructor
  · intro h
    have h' := (ipv4_lang hd s i j').1 h
    exact V4Body_det hw (valid_V4Body h'.2.1 h'.2.2.1) (valid_V4Body hj hv) h'.2.2.2 hbj
  · rintro rfl
    exact (ipv4_lang hd s i j').2 ⟨hbi, hj, hv, hbj⟩

/-- … hence a backtracking engine started at `i` reports exactly `[i, j)`. -/
theorem ipv4_reported_span {T : Tables} (hd : AsciiDigits T) (hw : ∀ c, 48 ≤ c ∧ c ≤ 57 → T.word c = true)
    (s : Array Nat) (i j : Nat) (hj : j ≤ s.size) (hv : ValidV4 (slice s i j))
    (hbi : isWordB T s i = true) (hbj : isWordB T s j = true) :
    firstEnd T s RTV.Gen.ipv4Regex i = some j :=
  firstEnd_of_unique (ipv4_complete_unique hd hw s i j hj hv hbi hbj)

/-- the hypotheses are satisfiable: `ip 10.0.0.255!` -/
example : firstEnd asciiTables #[105, 112, 32, 49, 48, 46, 48, 46, 48, 46, 50, 53, 53, 33] RTV.Gen.ipv4Regex 3 = some 13 := by
  decide +kernel

/-- ASCII digits are word characters for the engine's real tables too (hypothesis `hw` above). -/
theorem real_digits_are_word : ∀ c, 48 ≤ c ∧ c ≤ 57 → RTV.Gen.reTables.word c = true := by
  intro c ⟨h1, h2⟩
  have : c = 48 ∨ c = 49 ∨ c = 50 ∨ c = 51 ∨ c = 52 ∨ c = 53 ∨ c = 54 ∨ c = 55 ∨ c = 56 ∨ c = 57 := by omega
  rcases this with rfl | rfl | rfl | rfl | rfl | rfl | rfl | rfl | rfl | rfl <;> decide +kernel

/-! ### `drop_leading_zeros` -/

/-- `w` is a dotted quad whose octets have the values `x1 … x4` -/
def V4Denotes (w : List Nat) (x1 x2 x3 x4 : Nat) : Prop :=
  ∃ a b c d, Oct a ∧ Oct b ∧ Oct c ∧ Oct d ∧ w = a ++ 46 :: (b ++ 46 :: (c ++ 46 :: d)) ∧
    decVal a = x1 ∧ decVal b = x2 ∧ decVal c = x3 ∧ decVal d = x4

theorem validV4_iff_denotes (w : List Nat) : ValidV4 w ↔ ∃ x1 x2 x3 x4, V4Denotes w x1 x2 x3 x4 := by
  constructor
  · rintro ⟨a, b, c, d, ha, hb, hc, hd, e⟩
    exact ⟨_, _, _, _, a, b, c, d, ha, hb, hc, hd, e, rfl, rfl, rfl, rfl⟩
  · rintro ⟨_, _, _, _, a, b, c, d, ha, hb, hc, hd, e, _⟩
    exact ⟨a, b, c, d, ha, hb, hc, hd, e⟩

theorem oct_no_sep {a : List Nat} (h : Oct a) : ∀ c ∈ a, isSep c = false := by
  intro c hc
  have := h.2.2.1 c hc
  simp [isSep]; omega

/-- what `drop_leading_zeros` does to a dotted quad: `normNumber` on each octet -/
theorem drop_zeros_quad {a b c d : List Nat} (ha : Oct a) (hb : Oct b) (hc : Oct c) (hd : Oct d) :
    dropLeadingZeros (a ++ 46 :: (b ++ 46 :: (c ++ 46 :: d))) =
      normNumber a ++ 46 :: (normNumber b ++ 46 :: (normNumber c ++ 46 :: normNumber d)) := by
  have h := dropLeadingZeros_render a [(46, b), (46, c), (46, d)] (oct_no_sep ha) (by
    intro p hp
    simp at hp
    rcases hp with rfl | rfl | rfl
    · exact ⟨by simp [isSep], oct_no_sep hb⟩
    · exact ⟨by simp [isSep], oct_no_sep hc⟩
    · exact ⟨by simp [isSep], oct_no_sep hd⟩)
  have ne : ∀ {x : List Nat}, Oct x → nz x = normNumber x := by
    intro x hx; unfold nz; have := hx.1; cases x <;> simp_all
  simpa [render, ne ha, ne hb, ne hc, ne hd] using h

/-- C13: the resolved value denotes the same address. -/
theorem drop_zeros_same_address {w : List Nat} {x1 x2 x3 x4 : Nat} (h : V4Denotes w x1 x2 x3 x4) :
    V4Denotes (dropLeadingZeros w) x1 x2 x3 x4 := by
  obtain ⟨a, b, c, d, ha, hb, hc, hd, rfl, rfl, rfl, rfl, rfl⟩ := h
  have na := normNumber_oct ha; have nb := normNumber_oct hb
  have nc := normNumber_oct hc; have nd := normNumber_oct hd
  exact ⟨_, _, _, _, na.1, nb.1, nc.1, nd.1, drop_zeros_quad ha hb hc hd, na.2.1, nb.2.1, nc.2.1, nd.2.1⟩

/-- C13: the resolved value is canonical — every octet is `0` or has no leading zero. -/
theorem drop_zeros_canonical {w : List Nat} (h : ValidV4 w) :
    ∃ a b c d, dropLeadingZeros w = a ++ 46 :: (b ++ 46 :: (c ++ 46 :: d)) ∧
      Oct a ∧ Oct b ∧ Oct c ∧ Oct d ∧ Canon a ∧ Canon b ∧ Canon c ∧ Canon d := by
  obtain ⟨a, b, c, d, ha, hb, hc, hd, rfl⟩ := h
  have na := normNumber_oct ha; have nb := normNumber_oct hb
  have nc := normNumber_oct hc; have nd := normNumber_oct hd
  exact ⟨_, _, _, _, drop_zeros_quad ha hb hc hd, na.1, nb.1, nc.1, nd.1, na.2.2, nb.2.2, nc.2.2, nd.2.2⟩

/-- group-wise specification for every text (IPv4 and IPv6 alike): separators and empty groups are kept, every other
group is replaced by `normNumber` of it, which keeps its value in any base (`normNumber_posVal`). -/
theorem drop_zeros_groupwise (g0 : List Nat) (gs : List (Nat × List Nat)) (h0 : ∀ c ∈ g0, isSep c = false)
    (hs : ∀ p ∈ gs, isSep p.1 = true ∧ ∀ c ∈ p.2, isSep c = false) :
    dropLeadingZeros (render g0 gs) = render (nz g0) (gs.map fun p => (p.1, nz p.2)) :=
  dropLeadingZeros_render g0 gs h0 hs

example : dropLeadingZeros [48, 49, 48, 46, 48, 48, 48, 46, 48, 46, 48, 57] = [49, 48, 46, 48, 46, 48, 46, 57] := by
  decide

/-! ### the extractor reports only spans of regex matches -/

/-- Every entity `BaseIpExtractor.extract` reports has exactly the span of a `finditer` match of the IPv4 or the IPv6
regex, and carries that regex's tag. -/
theorem ip_extract_sound (T : Tables) (K : CharClass) (v4 v6 : RE) (s : List Nat) :
    ∀ r ∈ ipExtract T K v4 v6 s, ∃ b, r.len = b - r.start ∧
      ((r.data = "ipv4" ∧ Matches T v4 s.toArray r.start b) ∨ (r.data = "ipv6" ∧ Matches T v6 s.toArray r.start b)) := by
  intro r hr
  unfold ipExtract ipSweep at hr
  split at hr
  · simp at hr
  · obtain ⟨b, hm, hl⟩ := sweepGo_mem _ _ _ _ _ _ _ r hr
    refine ⟨b, hl, ?_⟩
    rcases List.mem_append.1 hm with hm | hm
    · have := tagged_mem hm
      exact .inl ⟨this.2, findAll_sound _ this.1⟩
    · have := tagged_mem hm
      exact .inr ⟨this.2, findAll_sound _ this.1⟩

/-- … so, under ASCII `\d`, every entity tagged `ipv4` is a valid dotted quad. -/
theorem ip_extract_v4_valid {T : Tables} (hd : AsciiDigits T) (K : CharClass) (v6 : RE) (s : List Nat) :
    ∀ r ∈ ipExtract T K RTV.Gen.ipv4Regex v6 s, r.data = "ipv4" →
      ValidV4 (slice s.toArray r.start (r.start + r.len)) := by
  intro r hr hdata
  obtain ⟨b, hl, h | h⟩ := ip_extract_sound T K _ v6 s r hr
  · have hm := (ipv4_lang hd _ _ _).1 h.2
    obtain ⟨a', b', c', d', ha, _, _, _, e⟩ := hm.2.2.1
    have hlt : r.start < b := by
      by_cases hlt : r.start < b
      · exact hlt
      · rw [slice_nil_of_le (by omega)] at e
        have h1 := ha.1
        have h2 := congrArg List.length e
        simp at h2
    have : r.start + r.len = b := by omega
    rw [this]; exact hm.2.2.1
  · rw [hdata] at h; exact absurd h.1 (by decide)

end RTV.C13
