import RTV.Model.NumCfg
import RTV.Model.Spell
namespace RTV.Num
theorem c04_placeholder : True := trivial
end RTV.Num
