import RTV.Lemmas.Spell
import RTV.Lemmas.SpellEs
import RTV.Lemmas.SpellFr
import RTV.Lemmas.SpellPt
import RTV.Lemmas.SpellDe
import RTV.Lemmas.SpellIt
import RTV.Lemmas.SpellNl
import RTV.Lemmas.SpellEsK
import RTV.Lemmas.SpellPtK
import RTV.Lemmas.SpellDeK
import RTV.Lemmas.SpellNlK
import RTV.Lemmas.CjkZh
import RTV.Lemmas.CjkJa
/-!
# C04 — spelled-out cardinals and ordinals resolve to the integer they denote (English: all `n < 10^15`)

Model: `RTV.Num.getIntValue` = `BaseNumberParser.__get_int_value` (end-word scan, stack walk, round-number
recursion; the variant in the tree, whose scan reaches index 0) with the **regenerated** English maps
(`RTV/Gen/NumEn.lean`); specification: `RTV.Num.pieces` — the standard written-out form of `n` in 8 spelling
variants of the TEXT (with/without "and" after "hundred", British "and" before a final group below 100, hyphenated
tens), cardinal and ordinal.  At TOKEN level these are 4 distinct lists: `spell` / `spellOrd` do not depend on `v.hyphen`
(a hyphen is no token; `RTV.Props.C04Text.spell_ignores_hyphen`), the hyphen exists in `spellText` only.  The theorems of
this file start AFTER tokenisation (`spell n v` = the token list); the tokeniser enters the statement in
`RTV.Props.C04Text` / `C04TextEu` (`getIntValue (textTokens (spellText n v ord)) = n`, on samples, en / es / fr / de), and
the correspondence harness takes its English inputs from this very function (driver op `n.spell`) and checks on every
numeral it generates that the REAL `text_number_regex` tokenises the surface string into exactly `spell n v`.

Proof shape: the words of 1..99 (cardinal / ordinal, with / without a leading "and") and the round words are
evaluated by the kernel on the regenerated maps (`flat_facts`, `round_words` in `Lemmas/Spell` — a wrong map entry,
e.g. `"seventy" ↦ 17`, breaks them); hundreds and the thousand / million / billion / trillion groups are composed
with the round-number step lemma `good_step` (`Lemmas/IntValue`), for every `n`, without bound on the recursion.
Other cultures: Spanish, Portuguese, German, Dutch (all `n < 10^6` here, `n < 10^15` in `RTV.Props.C04Big`), French and
Italian with exact guards (`C04Big2`), ordinals below 1000 (`C04Big2`), Chinese / Japanese (below; `C04Cjk`) — each on the
specification's token list `(spellEu … n).2`, whose tie to the written form `.1` is the harness's tokenisation check on the
real tokeniser plus, for es / fr / de, the tokeniser model on samples (`C04TextEu`).
-/
namespace RTV.Num
open RTV.Py

/-- value of the numeral of `n` (cardinal, or ordinal for `n > 0`) in every spelling variant -/
theorem english_value (v : Variant) (ord : Bool) (n : Nat) (hn : n < 10 ^ 15) (hpos : ord = true → 0 < n) :
    getIntValue true enT enL (toks (pieces v ord n)) = .ok n := by
  unfold getIntValue
  by_cases h0 : n = 0
  · subst h0
    have ho : ord = false := by
      cases ord
      · rfl
      · exact absurd (hpos rfl) (by omega)
    subst ho
    obtain ⟨z1, z2⟩ := zero_word
    have e : toks (pieces v false 0) = [wordAt small 0] := by simp [pieces, toks]
    rw [e, eval_flat enT enL _ _ (by simpa using z2), (okNat_iff _ _).mp z1]
    rfl
  · rw [toks_pieces v ord n h0]
    generalize hwt : (if ord && n / 1000000000 % 1000 == 0 && n / 1000000 % 1000 == 0 &&
          n / 1000 % 1000 == 0 && n % 1000 == 0 then w_trillionth else w_trillion) = wt
    generalize hwb : (if ord && n / 1000000 % 1000 == 0 && n / 1000 % 1000 == 0 &&
          n % 1000 == 0 then w_billionth else w_billion) = wb
    generalize hwm : (if ord && n / 1000 % 1000 == 0 && n % 1000 == 0 then w_millionth else w_million) = wm
    generalize hwk : (if ord && n % 1000 == 0 then w_thousandth else w_thousand) = wk
    obtain ⟨_, _, r3, r4, r5, r6, r7, r8, r9, r10⟩ := round_words
    have lt : lookup enR wt = some 1000000000000 := by rw [← hwt]; split <;> assumption
    have lb : lookup enR wb = some 1000000000 := by rw [← hwb]; split <;> assumption
    have lm : lookup enR wm = some 1000000 := by rw [← hwm]; split <;> assumption
    have lk : lookup enR wk = some 1000 := by rw [← hwk]; split <;> assumption
    generalize hT : toks (group v (n / 1000000000000 % 1000) wt) ++ (toks (group v (n / 1000000000 % 1000) wb) ++
      (toks (group v (n / 1000000 % 1000) wm) ++ (toks (group v (n / 1000 % 1000) wk) ++
        toks (lastGroup v ord (decide (n ≥ 1000)) (n % 1000))))) = T
    -- the last group
    have base : ∃ e, Good true (getIntValueF true enT enL (T.length + 2)) enR
        (toks (lastGroup v ord (decide (n ≥ 1000)) (n % 1000))) (n % 1000) e ∧ e ≤ 100 ∧
        (100 ≤ n % 1000 → e = 100) := by
      by_cases hu : n % 1000 = 0
      · exact ⟨1, by simpa [lastGroup, hu, toks] using good_nil _ enR, by omega, by omega⟩
      · have hb : (n % 1000 == 0) = false := by simp [hu]
        by_cases c : (v.andFinal = true ∧ 1000 ≤ n) ∧ n % 1000 < 100
        · have := good_sub1000 (T.length + 1) v ord true (n % 1000) (by omega) (by omega) (fun _ => c.2)
          simpa [lastGroup, hb, c, toks_append, toks] using this
        · have := good_sub1000 (T.length + 1) v ord false (n % 1000) (by omega) (by omega) (by simp)
          simpa [lastGroup, hb, c, toks_append, toks] using this
    obtain ⟨e0, g0, he0, h100⟩ := base
    obtain ⟨e1, g1, he1, hk1, hk0⟩ := good_group T.length v (n / 1000 % 1000) wk 1000 _ _ e0 g0 (by omega) (by omega) lk
      (by omega)
    obtain ⟨e2, g2, he2, hm1, hm0⟩ := good_group T.length v (n / 1000000 % 1000) wm 1000000 _ _ e1 g1 (by omega)
      (by omega) lm (by omega)
    obtain ⟨e3, g3, he3, hb1, hb0⟩ := good_group T.length v (n / 1000000000 % 1000) wb 1000000000 _ _ e2 g2 (by omega)
      (by omega) lb (by omega)
    obtain ⟨e4, g4, he4, ht1, ht0⟩ := good_group T.length v (n / 1000000000000 % 1000) wt 1000000000000 _ _ e3 g3
      (by omega) (by omega) lt (by omega)
    rw [hT] at g4
    have hval : 1000000000000 * (n / 1000000000000 % 1000) + (1000000000 * (n / 1000000000 % 1000) +
        (1000000 * (n / 1000000 % 1000) + (1000 * (n / 1000 % 1000) + n % 1000))) = n := by
      have : n < 1000000000000000 := by simpa using hn
      omega
    rw [hval] at g4
    have hTne : T ≠ [] := by
      intro hnil
      rw [hnil] at g4
      have := g4.2
      simp [scanR, segGo] at this
      exact h0 this.symm
    by_cases hbig : 100 ≤ n
    · -- some end word is present: the scan does not end with 1
      have he : e4 ≠ 1 := by
        by_cases a : n / 1000000000000 % 1000 = 0
        · by_cases b : n / 1000000000 % 1000 = 0
          · by_cases c : n / 1000000 % 1000 = 0
            · by_cases d : n / 1000 % 1000 = 0
              · have := h100 (by omega); have := ht0 a; have := hb0 b; have := hm0 c; have := hk0 d; omega
              · have := hk1 d; have := ht0 a; have := hb0 b; have := hm0 c; omega
            · have := hm1 c; have := ht0 a; have := hb0 b; omega
          · have := hb1 b; have := ht0 a; omega
        · have := ht1 a; omega
      exact eval_of_good enT enL (T.length + 2) T n e4 g4 hTne he
    · -- below 100: a flat list
      have hlt : n < 100 := by omega
      have e : T = flat ord false n := by
        rw [← hT]
        have a : n / 1000000000000 % 1000 = 0 := by omega
        have b : n / 1000000000 % 1000 = 0 := by omega
        have c : n / 1000000 % 1000 = 0 := by omega
        have d : n / 1000 % 1000 = 0 := by omega
        have u : n % 1000 = n := by omega
        have hb : (n == 0) = false := by simp [h0]
        have hge : decide (n ≥ 1000) = false := by simp; omega
        simp only [a, b, c, d, u, group, lastGroup, hb, hge]
        have key := toks_sub1000 v ord n (by omega)
        simp only [hlt, if_true] at key
        simpa [toks] using key
      rw [e]
      exact rec_flat _ ord false n (by omega) hlt

/-- **C04 (English cardinals)** for every `n < 10^15` and every spelling variant, `__get_int_value` applied to the
tokens of the written-out form of `n` is `n`. -/
theorem english_cardinal (n : Nat) (hn : n < 10 ^ 15) (v : Variant) :
    getIntValue true enT enL (spell n v) = .ok n :=
  english_value v false n hn (by simp)

/-- **C04 (English ordinals)** the ordinal form ("twenty-first", "two hundredth", "one million and fifth") denotes
the same integer. -/
theorem english_ordinal (n : Nat) (hn : n < 10 ^ 15) (h0 : 0 < n) (v : Variant) :
    getIntValue true enT enL (spellOrd n v) = .ok n :=
  english_value v true n hn (fun _ => h0)

/-- the block lemma, as a statement of its own: every numeral below 1000 -/
theorem english_sub1000 (n : Nat) (hn : n < 1000) (v : Variant) : getIntValue true enT enL (spell n v) = .ok n :=
  english_cardinal n (by omega) v

/-- hypotheses are satisfiable / the statement is not vacuous: a closed instance evaluated by the kernel -/
example : getIntValue true enT enL (spell 1234567 ⟨true, true, true⟩) = .ok 1234567 :=
  english_cardinal 1234567 (by decide) _

/-- Table sanity on the regenerated maps: every word the generator emits for 1..99 is a key of the cardinal map
(ordinal map for the ordinal forms) and none of them is a round word; the round words carry their values. -/
theorem spell_words_in_maps :
    (∀ r, 1 ≤ r → r < 100 → ∀ t ∈ toks (sub100 v0 false r), hasKey enL.cardinal t = true ∧ lookup enR t = none) ∧
    lookup enR w_hundred = some 100 ∧ lookup enR w_thousand = some 1000 ∧ lookup enR w_million = some 1000000 ∧
    lookup enR w_billion = some 1000000000 ∧ lookup enR w_trillion = some 1000000000000 := by
  obtain ⟨r1, _, r3, _, r5, _, r7, _, r9, _⟩ := round_words
  refine ⟨?_, r1, r3, r5, r7, r9⟩
  intro r h1 h2 t ht
  have hf := flat_facts false false r h1 h2
  have hmem : t ∈ flat false false r := by simpa [flat] using ht
  refine ⟨?_, hf.2 t hmem⟩
  have : ((List.range 100).all fun r => (toks (sub100 v0 false r)).all fun t => hasKey enL.cardinal t) = true := by
    decide +kernel
  rw [List.all_eq_true] at this
  have := this r (List.mem_range.mpr h2)
  rw [List.all_eq_true] at this
  exact this t ht

/-! ### the other word-based cultures: every numeral below 1000

`spellEu <culture>Spell n` (`RTV/Model/SpellEu.lean`) is the standard written-out form of `n < 1000` with the token
list `text_number_regex` yields for it (tie checked by the harness on every run); the shared `getIntValue` is
instantiated with the culture's regenerated maps and its own `resolve_composite_number`. -/

/-- Spanish: `cero` … `novecientos noventa y nueve` -/
theorem spanish_sub1000 (n : Nat) (h : n < 1000) :
    getIntValue true asciiDigits es.lang (spellEu esSpell n).2 = .ok n := es_all n h rfl

/-- Portuguese (Brazilian spelling): `zero` … `novecentos e noventa e nove` -/
theorem portuguese_sub1000 (n : Nat) (h : n < 1000) :
    getIntValue true asciiDigits pt.lang (spellEu ptSpell n).2 = .ok n := pt_all n h rfl

/-- German: `null` … `neunhundertneunundneunzig` (compounds split by the tokeniser) -/
theorem german_sub1000 (n : Nat) (h : n < 1000) :
    getIntValue true asciiDigits de.lang (spellEu deSpell n).2 = .ok n := de_all n h rfl

/-- Dutch: `nul` … `negenhonderdnegenennegentig` -/
theorem dutch_sub1000 (n : Nat) (h : n < 1000) :
    getIntValue true asciiDigits nl.lang (spellEu nlSpell n).2 = .ok n := nl_all n h rfl

/- French, full statement (fails): ∀ n < 1000, getIntValue fr (spellEu frSpell n).2 = n.
   The plural `cents` of the round hundreds 200 … 900 is not a key of the French maps, the tokeniser drops it. -/
/-- French, exact guard: every numeral below 1000 except the round hundreds `deux cents` … `neuf cents`. -/
theorem french_sub1000_partial (n : Nat) (h : n < 1000) (hg : ¬ (n % 100 = 0 ∧ 200 ≤ n)) :
    getIntValue true asciiDigits fr.lang (spellEu frSpell n).2 = .ok n :=
  fr_all n h (by simp only [frGuard, Bool.not_eq_true', Bool.and_eq_false_iff, beq_eq_false_iff_ne, ne_eq,
    decide_eq_false_iff_not]; omega)

/-- negative witness (recorded finding `fr-fr:cardinal:plural-cents:span`): `deux cents` is tokenised to `deux` -/
theorem french_plural_cents_witness :
    (spellEu frSpell 200).2 = [[100, 101, 117, 120]] ∧
    getIntValue true asciiDigits fr.lang (spellEu frSpell 200).2 = .ok 2 := by decide +kernel

/- Italian, full statement (fails): ∀ n < 1000, getIntValue it (spellEu itSpell n).2 = n.
   The accented `-tré` of 23, 33, …, 93 (and x23 …) is not a key, the tokeniser drops it. -/
/-- Italian, exact guard: every numeral below 1000 whose last two digits are not 23, 33, …, 93. -/
theorem italian_sub1000_partial (n : Nat) (h : n < 1000) (hg : ¬ (n % 10 = 3 ∧ 20 ≤ n % 100)) :
    getIntValue true asciiDigits it.lang (spellEu itSpell n).2 = .ok n :=
  it_all n h (by simp only [itGuard, Bool.not_eq_true', Bool.and_eq_false_iff, beq_eq_false_iff_ne, ne_eq,
    decide_eq_false_iff_not]; omega)

/-- negative witness (recorded finding `it-it:cardinal:accented-tre:no-entity`): `ventitré` is tokenised to `venti` -/
theorem italian_accented_tre_witness :
    getIntValue true asciiDigits it.lang (spellEu itSpell 23).2 = .ok 20 := by decide +kernel

/-! ### Spanish, Portuguese, German, Dutch: every numeral below 10^6

`spellEuAll <c>Big n` = the numeral below 1000, or multiplier + thousand word + remainder with the culture's rules
(Spanish apocope `veintiún mil`, `ciento un mil`; bare `mil` / `duizend` but `eintausend`; Portuguese ` e ` before a
remainder below 100 or a round hundred). The step from 1000 to 10^6 is the structural lemma `thousand_group`
(`Lemmas/Thousand`, by `good_step`, for any configuration) — not an enumeration; per number only two cheap decidable
side facts are checked on the regenerated maps (`multFact`, `restFact`). -/

theorem sub1e6_of (b : EuBig) (c : LangCfg)
    (hsub : ∀ n, n < 1000 → getIntValue true asciiDigits c (spellEu b.base n).2 = .ok n)
    (hbig : ∀ n, 1000 ≤ n → n < 1000000 → getIntValue true asciiDigits c (spellEuBig b n).2 = .ok n)
    (n : Nat) (h : n < 1000000) : getIntValue true asciiDigits c (spellEuAll b n).2 = .ok n := by
  unfold spellEuAll
  split
  · rename_i h1; exact hsub n h1
  · rename_i h1; exact hbig n (by omega) h

/-- Spanish: `cero` … `novecientos noventa y nueve mil novecientos noventa y nueve` -/
theorem spanish_sub1e6 (n : Nat) (h : n < 1000000) :
    getIntValue true asciiDigits es.lang (spellEuAll esBig n).2 = .ok n :=
  sub1e6_of esBig es.lang (fun n h => es_all n h rfl) es_lift n h

/-- Portuguese -/
theorem portuguese_sub1e6 (n : Nat) (h : n < 1000000) :
    getIntValue true asciiDigits pt.lang (spellEuAll ptBig n).2 = .ok n :=
  sub1e6_of ptBig pt.lang (fun n h => pt_all n h rfl) pt_lift n h

/-- German -/
theorem german_sub1e6 (n : Nat) (h : n < 1000000) :
    getIntValue true asciiDigits de.lang (spellEuAll deBig n).2 = .ok n :=
  sub1e6_of deBig de.lang (fun n h => de_all n h rfl) de_lift n h

/-- Dutch -/
theorem dutch_sub1e6 (n : Nat) (h : n < 1000000) :
    getIntValue true asciiDigits nl.lang (spellEuAll nlBig n).2 = .ok n :=
  sub1e6_of nlBig nl.lang (fun n h => nl_all n h rfl) nl_lift n h


/-! ### Chinese and Japanese: the integer walk of `CJKNumberParser.get_int_value` on every numeral below 10000 -/

/-- **Chinese** (`spellZh`: standard Mandarin, `零` for skipped positions, `十一` for 11): read back exactly, for
every `n < 10000`. Larger numerals (万 / 亿 sections) are tied by correspondence. -/
theorem cjk_int_zh (n : Nat) (h : n < 10000) : cjkIntValue asciiDigits zhCjk (spellZh n) = n :=
  zh_all n h rfl

/- Japanese, full statement (fails): ∀ n < 10000, cjkIntValue ja (spellJa n) = n. -/
/-- **Japanese**, exact guard (`jaGuard`): every `n < 10000` in which no bare 十 / 百 follows a higher position
with digit 2..9. -/
theorem cjk_int_ja_partial (n : Nat) (h : n < 10000) (hg : jaGuard n = true) :
    cjkIntValue asciiDigits jaCjk (spellJa n) = n :=
  ja_all n h hg

/-- negative witnesses (recorded findings `ja-jp:cardinal:bare-ten:value`, `ja-jp:cardinal:bare-unit:value`):
`二百十八` ↦ 228, `五千百三十八` ↦ 5538 — `before_value` is not reset after a round character. -/
theorem cjk_ja_bare_unit_witness :
    cjkIntValue asciiDigits jaCjk (spellJa 218) = 228 ∧ cjkIntValue asciiDigits jaCjk (spellJa 5138) = 5538 ∧
      jaGuard 218 = false ∧ jaGuard 5138 = false := by decide +kernel

/-- `round_default = round_recent / 10` is exact: every round character of both tables is a multiple of 10 (the
code computes it as a float division). -/
theorem cjk_round_div10 :
    (zhCjk.roundChar.all fun p => p.2 % 10 == 0) = true ∧ (jaCjk.roundChar.all fun p => p.2 % 10 == 0) = true := by
  decide

/-! ### table consistency of the regenerated maps -/

/-- a round word that is also an ordinal / cardinal key carries the same value in both maps (`except` = keys left out) -/
def roundConsistent (c : Culture) (except : List Str) : Bool :=
  c.lang.round.all fun p =>
    except.contains p.1 ||
      ((match lookup c.lang.ordinal p.1 with | some v => v == p.2 | none => true) &&
       (match lookup c.lang.cardinal p.1 with | some v => v == p.2 | none => true))

/-- **`round_map_consistent`**: in the English, Spanish, French, Portuguese, Italian and Dutch configurations every
word of `RoundNumberMap` that is also a key of `OrdinalNumberMap` / `CardinalNumberMap` has the same value there (the
end-word scan multiplies by the round value, the stack walk adds the ordinal / cardinal value: a disagreement makes
`twee miljardste` and `tweemiljardste` differ). -/
theorem round_map_consistent_en : roundConsistent en [] = true := by decide +kernel
theorem round_map_consistent_es : roundConsistent es [] = true := by decide +kernel
theorem round_map_consistent_fr : roundConsistent fr [] = true := by decide +kernel
theorem round_map_consistent_pt : roundConsistent pt [] = true := by decide +kernel
theorem round_map_consistent_it : roundConsistent it [] = true := by decide +kernel
theorem round_map_consistent_nl : roundConsistent nl [] = true := by decide +kernel

theorem round_map_consistent :
    roundConsistent en [] = true ∧ roundConsistent es [] = true ∧ roundConsistent fr [] = true ∧
      roundConsistent pt [] = true ∧ roundConsistent it [] = true ∧ roundConsistent nl [] = true :=
  ⟨round_map_consistent_en, round_map_consistent_es, round_map_consistent_fr, round_map_consistent_pt,
    round_map_consistent_it, round_map_consistent_nl⟩

/- German, full statement (fails): roundConsistent de [] = true. -/
/-- German: consistent except for the key `milliard` … -/
theorem round_map_consistent_de_partial : roundConsistent de [[109, 105, 108, 108, 105, 97, 114, 100]] = true := by
  decide +kernel

/-- … whose cardinal value is 10^8 while its round value is 10^9 (finding `de-de:round-map:milliard`; the real word
`milliarde` is consistent). -/
theorem german_milliard_witness :
    lookup de.lang.round [109, 105, 108, 108, 105, 97, 114, 100] = some 1000000000 ∧
    lookup de.lang.cardinal [109, 105, 108, 108, 105, 97, 114, 100] = some 100000000 := by decide +kernel

end RTV.Num
