import RTV.Lemmas.Match
/-!
# C16 — dictionary matching finds exactly the listed phrases at token boundaries

Property theorems about `RTV.Model.Match` (mirrors `recognizers_text/matcher`). They hold for **every**
string, dictionary and query and for **any** Unicode database (`CharClass` is a parameter).
Helper lemmas are in `RTV/Lemmas/Match.lean`.
-/
namespace RTV.Match
set_option linter.unusedSimpArgs false

theorem simpleKind_space (k : CharClass) (p : Option Nat) (b : Bool) (c : Nat) :
    simpleKind k p b c = .space ↔ k.isSpace c = true := by
  unfold simpleKind
  split
  · simp_all
  · split <;> simp_all

theorem nwuKind_space (k : CharClass) (p : Option Nat) (b : Bool) (c : Nat) :
    nwuKind k p b c = .space ↔ k.isSpace c = true := by
  unfold nwuKind
  split
  · simp_all
  · split
    · simp_all
    · split
      · split <;> simp_all
      · simp_all

/-- Master statement for both tokenizers (any branch selector that says `.space` exactly on spaces):
in-bounds, non-empty, text = slice of the input, ordered and pairwise disjoint, and the tokens cover exactly
the non-space positions. -/
theorem tokenizeWith_spec (kind : Option Nat → Bool → Nat → Kind) (sp : Nat → Bool)
    (hsp : ∀ p b c, kind p b c = .space ↔ sp c = true) (s : List Nat) :
    Spec s sp 0 0 s (tokenizeWith kind s) := by
  have := tokGo_spec kind sp hsp s s 0 none none (by simp)
  simpa [tokenizeWith] using this

/-- C16(a) each token's text is the slice of the input at its offsets, it is non-empty and in bounds —
`SimpleTokenizer`. -/
theorem tokenizeSimple_slices (k : CharClass) (s : List Nat) :
    ∀ t ∈ tokenizeSimple k s, t.text = slice s t.start (t.start + t.len) ∧ 0 < t.len ∧
      t.start + t.len ≤ s.length := by
  intro t ht
  have h := tokenizeWith_spec (simpleKind k) k.isSpace (simpleKind_space k) s
  exact ⟨h.txt t ht, h.pos t ht, by simpa using h.hi t ht⟩

/-- C16(b) tokens come in order and never overlap — `SimpleTokenizer`. -/
theorem tokenizeSimple_ordered_disjoint (k : CharClass) (s : List Nat) :
    (tokenizeSimple k s).Pairwise (fun a b => a.start + a.len ≤ b.start) :=
  (tokenizeWith_spec (simpleKind k) k.isSpace (simpleKind_space k) s).ordered

/-- C16(c) a position is inside a token iff its character is not a space — `SimpleTokenizer`. -/
theorem tokenizeSimple_covers (k : CharClass) (s : List Nat) (j : Nat) (hj : j < s.length) :
    Cov (tokenizeSimple k s) j ↔ k.isSpace s[j] = false := by
  have h := (tokenizeWith_spec (simpleKind k) k.isSpace (simpleKind_space k) s).covers j (by omega)
    (by omega)
  rw [tokenizeSimple, h]
  simp [Here, hj]

theorem tokenizeNWU_slices (k : CharClass) (s : List Nat) :
    ∀ t ∈ tokenizeNWU k s, t.text = slice s t.start (t.start + t.len) ∧ 0 < t.len ∧
      t.start + t.len ≤ s.length := by
  intro t ht
  have h := tokenizeWith_spec (nwuKind k) k.isSpace (nwuKind_space k) s
  exact ⟨h.txt t ht, h.pos t ht, by simpa using h.hi t ht⟩

theorem tokenizeNWU_ordered_disjoint (k : CharClass) (s : List Nat) :
    (tokenizeNWU k s).Pairwise (fun a b => a.start + a.len ≤ b.start) :=
  (tokenizeWith_spec (nwuKind k) k.isSpace (nwuKind_space k) s).ordered

theorem tokenizeNWU_covers (k : CharClass) (s : List Nat) (j : Nat) (hj : j < s.length) :
    Cov (tokenizeNWU k s) j ↔ k.isSpace s[j] = false := by
  have h := (tokenizeWith_spec (nwuKind k) k.isSpace (nwuKind_space k) s).covers j (by omega)
    (by omega)
  rw [tokenizeNWU, h]
  simp [Here, hj]

/-- "exactly once": in an ordered, non-overlapping token list a position lies in at most one token. -/
theorem cov_unique (toks : List Tok) (h : toks.Pairwise (fun a b => a.start + a.len ≤ b.start)) (j : Nat)
    (t₁ t₂ : Tok) (h₁ : t₁ ∈ toks) (h₂ : t₂ ∈ toks)
    (c₁ : t₁.start ≤ j ∧ j < t₁.start + t₁.len) (c₂ : t₂.start ≤ j ∧ j < t₂.start + t₂.len) : t₁ = t₂ := by
  induction toks with
  | nil => cases h₁
  | cons a rest ih =>
    rw [List.pairwise_cons] at h
    simp only [List.mem_cons] at h₁ h₂
    rcases h₁ with h₁ | h₁ <;> rcases h₂ with h₂ | h₂
    · rw [h₁, h₂]
    · subst h₁; have := h.1 t₂ h₂; omega
    · subst h₂; have := h.1 t₁ h₁; omega
    · exact ih h.2 h₁ h₂

/-- The dictionary entries `TrieTree.insert` keeps: phrases with at least one token. -/
def kept (dict : List (List (List Nat) × List Nat)) : List (List (List Nat) × List Nat) :=
  dict.filter fun p => !p.1.isEmpty

/-- C16(d) `TrieTree.find` after `batch_insert dict` — **no misses, no extras**: `(i, len, ids)` is reported
iff the `len` query tokens from `i` are exactly an inserted phrase, `ids` are the ids inserted for that phrase
(in insertion order) and at least one id is a non-empty string (Python `any(values)`). -/
theorem trieFind_spec (dict : List (List (List Nat) × List Nat)) (q : List (List Nat))
    (i len : Nat) (ids : List (List Nat)) :
    (i, len, ids) ∈ trieFind (build dict) q ↔
      i < q.length ∧ i + len ≤ q.length ∧ ids = idsOf (kept dict) ((q.drop i).take len) ∧
        ids.any (fun v => !v.isEmpty) = true := by
  unfold trieFind
  rw [trieFindFrom_spec]
  have hb : ∀ p, valuesAt (build dict) p = idsOf (kept dict) p := by
    intro p
    have := build_valuesAt (kept dict) p Node.empty
    simpa [build, buildRaw, kept, valuesAt_empty] using this
  constructor
  · rintro ⟨k, hk, h1, h2, m, hm, he, hi⟩
    have hki : k = i := by omega
    subst hki
    refine ⟨hk, h2, ?_, ?_⟩
    · rw [← hb, valuesAt, hm]; exact hi
    · rw [hi]; exact he
  · rintro ⟨h1, h2, h3, h4⟩
    refine ⟨i, h1, by omega, h2, ?_⟩
    have hv := hb ((q.drop i).take len)
    rw [valuesAt] at hv
    cases hf : (build dict).follow ((q.drop i).take len) with
    | none => rw [hf] at hv; rw [h3, ← hv] at h4; simp at h4
    | some m =>
      rw [hf] at hv
      simp only at hv
      exact ⟨m, rfl, by rw [Node.isEnd, hv, ← h3]; exact h4, by rw [hv]; exact h3⟩

/-- Every reported match spans at least one token (a consequence of the early return in `insert`; this is what
makes `query_tokens[r.start + r.length - 1]` a legal, non-wrapping index). -/
theorem trieFind_len_pos (dict : List (List (List Nat) × List Nat)) (q : List (List Nat))
    (r : Nat × Nat × List (List Nat)) (h : r ∈ trieFind (build dict) q) : 1 ≤ r.2.1 := by
  obtain ⟨i, len, ids⟩ := r
  have h' := (trieFind_spec dict q i len ids).1 h
  obtain ⟨_, _, h3, h4⟩ := h'
  cases len with
  | succ n => simp
  | zero =>
    exfalso
    have : idsOf (kept dict) (List.take 0 (List.drop i q)) = [] := by
      simp [idsOf, kept, List.filter_filter]
      intro a b hab hne
      exact of_decide_eq_true hne
    rw [this] at h3
    subst h3
    simp at h4

theorem mapM_option_congr {α β} (f g : α → Option β) (l : List α) (h : ∀ a ∈ l, f a = g a) :
    l.mapM f = l.mapM g := by
  induction l with
  | nil => rfl
  | cons a rest ih =>
    simp only [List.mapM_cons]
    rw [h a (by simp), ih (fun b hb => h b (by simp [hb]))]

/-- Character span of the token run `i .. i+len-1`. -/
def spanOf (toks : List Tok) (q : List Nat) (i len : Nat) (ids : List (List Nat)) : Option MatchRes := do
  let st ← toks[i]?
  let en ← toks[i + len - 1]?
  pure ⟨st.start, (en.stop : Int) - st.start,
        sliceInt q st.start ((st.start : Int) + ((en.stop : Int) - st.start)), ids⟩

/-- C16(e) *unfolding lemma, not a specification*: `spanOf` is the loop body of `matcherFind` with the two
negative-index-wrapping lookups (`pyIndex`) replaced by plain ones — which is all this says: for trie results with
`len ≥ 1` neither `query_tokens[r.start]` nor `query_tokens[r.start + r.length - 1]` wraps. The slice inside
`spanOf` is still `sliceInt` (clamping, negative stops) and the result is still an `Option`. What the property
demands of the results — defined, in bounds, text = plain slice of the query, exactly the token-boundary
occurrences — is stated without `spanOf` in C16(f)–(h) below. The hypothesis `len ≥ 1` is forced by the code
(see `matcher_empty_phrase_wrapped_before_fix`). -/
theorem matcherFind_offsets (tk : List Nat → List Tok) (root : Node) (q : List Nat)
    (hpos : ∀ r ∈ trieFind root ((tk q).map (·.text)), 1 ≤ r.2.1) :
    matcherFind tk root q =
      (trieFind root ((tk q).map (·.text))).mapM (fun r => spanOf (tk q) q r.1 r.2.1 r.2.2) := by
  unfold matcherFind
  simp only
  apply mapM_option_congr  -- pointwise on the results
  intro r hr
  obtain ⟨i, len, ids⟩ := r
  have h1 : 1 ≤ len := hpos _ hr
  simp only [spanOf, pyIndex]
  have e1 : (0 : Int) ≤ (i : Int) := by omega
  have e2 : (0 : Int) ≤ (i : Int) + (len : Int) - 1 := by omega
  have e3 : ((i : Int) + (len : Int) - 1).toNat = i + len - 1 := by omega
  have e4 : (1 : Int) ≤ (i : Int) + (len : Int) := by omega
  simp [e1, e2, e3, e4]

/-- C16(e′) for tries built by `batch_insert` the hypothesis of `matcherFind_offsets` always holds, for **every**
dictionary and query, with any tokenizer. Like `matcherFind_offsets` this restates the implementation (same
`Option`, same `sliceInt`); it is the normal form the proofs of C16(f)–(h) start from. -/
theorem matcherRun_offsets (tk : List Nat → List Tok) (dict : List (List Nat × List Nat)) (q : List Nat) :
    matcherRun tk dict q =
      (trieFind (build (dict.map fun p => ((tk p.1).map (·.text), p.2))) ((tk q).map (·.text))).mapM
        (fun r => spanOf (tk q) q r.1 r.2.1 r.2.2) := by
  unfold matcherRun
  exact matcherFind_offsets tk _ q (fun r hr => trieFind_len_pos _ _ r hr)

/-! ### C16(f)–(h): what `StringMatcher.find` returns, in plain terms (no `spanOf`, no `sliceInt`, no `Option`) -/

theorem tokenizeSimple_ok (k : CharClass) (q : List Nat) : TokOK q (tokenizeSimple k q) :=
  ⟨fun t ht => (tokenizeSimple_slices k q t ht).2.1, fun t ht => (tokenizeSimple_slices k q t ht).2.2,
    tokenizeSimple_ordered_disjoint k q⟩

theorem tokenizeNWU_ok (k : CharClass) (q : List Nat) : TokOK q (tokenizeNWU k q) :=
  ⟨fun t ht => (tokenizeNWU_slices k q t ht).2.1, fun t ht => (tokenizeNWU_slices k q t ht).2.2,
    tokenizeNWU_ordered_disjoint k q⟩

/-- the span of a run of `len ≥ 1` tokens from token `i` (helper: `spanOf` evaluated) -/
theorem spanOf_plain (q : List Nat) (toks : List Tok) (hok : TokOK q toks) (i len : Nat) (ids : List (List Nat))
    (hl : 1 ≤ len) (hi : i + len ≤ toks.length) :
    ∃ st en, toks[i]? = some st ∧ toks[i + len - 1]? = some en ∧ st.start < en.start + en.len ∧
      en.start + en.len ≤ q.length ∧
      spanOf toks q i len ids = some ⟨(st.start : Int), ((en.start + en.len - st.start : Nat) : Int),
        (q.drop st.start).take (en.start + en.len - st.start), ids⟩ := by
  have h1 : i < toks.length := by omega
  have h2 : i + len - 1 < toks.length := by omega
  refine ⟨toks[i], toks[i + len - 1], List.getElem?_eq_getElem h1, List.getElem?_eq_getElem h2, ?_, ?_, ?_⟩
  · by_cases h : len = 1
    · subst h
      have := hok.pos toks[i] (List.getElem_mem h1)
      simp; omega
    · have := ordered_getElem_le toks hok.ordered i (i + len - 1) (by omega) h2
      have := hok.pos toks[i + len - 1] (List.getElem_mem h2)
      omega
  · exact hok.hi _ (List.getElem_mem h2)
  · have hlt : toks[i].start ≤ toks[i + len - 1].start + toks[i + len - 1].len := by
      by_cases h : len = 1
      · subst h; simp
      · have := ordered_getElem_le toks hok.ordered i (i + len - 1) (by omega) h2
        omega
    have hhi := hok.hi _ (List.getElem_mem h2)
    simp only [spanOf, List.getElem?_eq_getElem h1, List.getElem?_eq_getElem h2, Tok.stop, Option.bind_eq_bind,
      Option.bind_some, Option.pure_def]
    have := sliceInt_nat q toks[i].start (toks[i + len - 1].start + toks[i + len - 1].len) hlt hhi
    rw [Option.some.injEq]
    congr 1
    omega

/-- the tokenised dictionary `StringMatcher.init` hands to `TrieTree.batch_insert` -/
def tokDict (tk : List Nat → List Tok) (dict : List (List Nat × List Nat)) : List (List (List Nat) × List Nat) :=
  dict.map fun p => ((tk p.1).map (·.text), p.2)

/-- C16(f) **`find` is defined**: `StringMatcher.init(values, ids)` followed by `find(query)` raises no `IndexError`,
for every dictionary, every query and *any* tokenizer — both token lookups of every iteration succeed (`none` in
the model = the call raises). -/
theorem matcherRun_defined (tk : List Nat → List Tok) (dict : List (List Nat × List Nat)) (q : List Nat) :
    ∃ rs, matcherRun tk dict q = some rs := by
  rw [matcherRun_offsets]
  apply Option.isSome_iff_exists.1
  apply mapM_option_isSome
  rintro ⟨i, len, ids⟩ hr
  have hp := trieFind_len_pos _ _ _ hr
  obtain ⟨h1, h2, -, -⟩ := (trieFind_spec _ _ i len ids).1 hr
  simp only [List.length_map] at h1 h2
  simp only at hp
  have h3 : i + len - 1 < (tk q).length := by omega
  simp [spanOf, List.getElem?_eq_getElem h1, List.getElem?_eq_getElem h3]

/-- C16(h) **exactly the occurrences at token boundaries — no misses, no extras — with their character span, text
and ids**: `r` is among the results of `find(q)` iff there is a run of `len ≥ 1` consecutive query tokens, from
token `i` (`st`) to token `i+len-1` (`en`), such that
* `r.start` is the first character of `st` and `r.start + r.length` is the end of `en` (token boundaries),
* `r.text` is the Python slice `q[r.start : r.start + r.length]` (plain `drop`/`take` on the **query**),
* `r.canonical_values` are the ids inserted for exactly that token sequence (in insertion order), one of them a
  non-empty string (Python `any(values)`).
For any tokenizer whose token list of `q` is `TokOK` (both are: `tokenizeSimple_ok`, `tokenizeNWU_ok`). -/
theorem matcherRun_mem_iff (tk : List Nat → List Tok) (dict : List (List Nat × List Nat)) (q : List Nat)
    (hok : TokOK q (tk q)) (rs : List MatchRes) (h : matcherRun tk dict q = some rs) (r : MatchRes) :
    r ∈ rs ↔ ∃ i len st en, 1 ≤ len ∧ i + len ≤ (tk q).length ∧
      (tk q)[i]? = some st ∧ (tk q)[i + len - 1]? = some en ∧
      r.start = (st.start : Int) ∧ r.start + r.len = ((en.start + en.len : Nat) : Int) ∧
      r.text = (q.drop r.start.toNat).take r.len.toNat ∧
      r.ids = idsOf (kept (tokDict tk dict)) ((((tk q).map (·.text)).drop i).take len) ∧
      r.ids.any (fun v => !v.isEmpty) = true := by
  rw [matcherRun_offsets] at h
  rw [mapM_option_mem _ _ _ h r]
  constructor
  · rintro ⟨⟨i, len, ids⟩, hr, hs⟩
    have hp := trieFind_len_pos _ _ _ hr
    obtain ⟨h1, h2, h3, h4⟩ := (trieFind_spec _ _ i len ids).1 hr
    simp only [List.length_map] at h1 h2
    simp only at hp hs
    obtain ⟨st, en, e1, e2, e3, e4, e5⟩ := spanOf_plain q (tk q) hok i len ids hp h2
    rw [e5] at hs
    have hs := (Option.some.inj hs).symm
    subst hs
    refine ⟨i, len, st, en, hp, h2, e1, e2, rfl, ?_, ?_, h3, ?_⟩
    · simp only; omega
    · simp only [Int.toNat_natCast]
    · exact h4
  · rintro ⟨i, len, st, en, hp, h2, e1, e2, hs, hl, ht, hi, ha⟩
    refine ⟨(i, len, r.ids), ?_, ?_⟩
    · rw [trieFind_spec]
      simp only [List.length_map]
      exact ⟨by omega, h2, hi, ha⟩
    · obtain ⟨st', en', e1', e2', e3, e4, e5⟩ := spanOf_plain q (tk q) hok i len r.ids hp h2
      rw [e1] at e1'; rw [e2] at e2'
      have := Option.some.inj e1'; subst this
      have := Option.some.inj e2'; subst this
      simp only
      rw [e5]
      obtain ⟨rs', rl, rt, ri⟩ := r
      simp only at hs hl ht ⊢
      subst hs
      have hl' : rl = ((en.start + en.len - st.start : Nat) : Int) := by omega
      subst hl'
      simp only [Int.toNat_natCast] at ht
      rw [ht]

/-- C16(g) **every result is in bounds and its text is the slice of the query at its offsets**:
`0 ≤ start`, `length ≥ 1`, `start + length ≤ len(query)`, `text = query[start : start + length]` (plain
`drop`/`take`, no clamping happens), `len(text) = length`, `text` non-empty. -/
theorem matcherRun_results_plain (tk : List Nat → List Tok) (dict : List (List Nat × List Nat)) (q : List Nat)
    (hok : TokOK q (tk q)) (rs : List MatchRes) (h : matcherRun tk dict q = some rs) :
    ∀ r ∈ rs, 0 ≤ r.start ∧ 1 ≤ r.len ∧ r.start + r.len ≤ (q.length : Int) ∧
      r.text = (q.drop r.start.toNat).take r.len.toNat ∧ r.text.length = r.len.toNat ∧ r.text ≠ [] := by
  intro r hr
  obtain ⟨i, len, st, en, hp, h2, e1, e2, hs, hl, ht, -, -⟩ := (matcherRun_mem_iff tk dict q hok rs h r).1 hr
  have hen : en ∈ tk q := List.mem_of_getElem? e2
  have hhi := hok.hi en hen
  have hlen : r.text.length = r.len.toNat := by
    rw [ht, List.length_take, List.length_drop]; omega
  obtain ⟨st', en', e1', e2', e3, e4, -⟩ := spanOf_plain q (tk q) hok i len [] hp h2
  rw [e1] at e1'; rw [e2] at e2'
  have := Option.some.inj e1'; subst this
  have := Option.some.inj e2'; subst this
  refine ⟨by omega, by omega, by omega, ht, hlen, ?_⟩
  intro hnil
  rw [hnil] at hlen
  simp at hlen
  omega

/-- C16(f)+(g) for `SimpleTokenizer`, every character class, dictionary and query: `find` returns a list (no
exception) and every element is in bounds with `text = query[start : start + length]`, non-empty. -/
theorem matcherSimple_plain (k : CharClass) (dict : List (List Nat × List Nat)) (q : List Nat) :
    ∃ rs, matcherRun (tokenizeSimple k) dict q = some rs ∧
      ∀ r ∈ rs, 0 ≤ r.start ∧ 1 ≤ r.len ∧ r.start + r.len ≤ (q.length : Int) ∧
        r.text = (q.drop r.start.toNat).take r.len.toNat ∧ r.text.length = r.len.toNat ∧ r.text ≠ [] := by
  obtain ⟨rs, h⟩ := matcherRun_defined (tokenizeSimple k) dict q
  exact ⟨rs, h, matcherRun_results_plain _ dict q (tokenizeSimple_ok k q) rs h⟩

/-- C16(f)+(g) for `NumberWithUnitTokenizer`. -/
theorem matcherNWU_plain (k : CharClass) (dict : List (List Nat × List Nat)) (q : List Nat) :
    ∃ rs, matcherRun (tokenizeNWU k) dict q = some rs ∧
      ∀ r ∈ rs, 0 ≤ r.start ∧ 1 ≤ r.len ∧ r.start + r.len ≤ (q.length : Int) ∧
        r.text = (q.drop r.start.toNat).take r.len.toNat ∧ r.text.length = r.len.toNat ∧ r.text ≠ [] := by
  obtain ⟨rs, h⟩ := matcherRun_defined (tokenizeNWU k) dict q
  exact ⟨rs, h, matcherRun_results_plain _ dict q (tokenizeNWU_ok k q) rs h⟩

/-- C16(h) for `SimpleTokenizer` / `NumberWithUnitTokenizer`: the hypothesis of `matcherRun_mem_iff` discharged. -/
theorem matcherSimple_mem_iff (k : CharClass) (dict : List (List Nat × List Nat)) (q : List Nat)
    (rs : List MatchRes) (h : matcherRun (tokenizeSimple k) dict q = some rs) (r : MatchRes) :
    r ∈ rs ↔ ∃ i len st en, 1 ≤ len ∧ i + len ≤ (tokenizeSimple k q).length ∧
      (tokenizeSimple k q)[i]? = some st ∧ (tokenizeSimple k q)[i + len - 1]? = some en ∧
      r.start = (st.start : Int) ∧ r.start + r.len = ((en.start + en.len : Nat) : Int) ∧
      r.text = (q.drop r.start.toNat).take r.len.toNat ∧
      r.ids = idsOf (kept (tokDict (tokenizeSimple k) dict)) ((((tokenizeSimple k q).map (·.text)).drop i).take len) ∧
      r.ids.any (fun v => !v.isEmpty) = true :=
  matcherRun_mem_iff _ dict q (tokenizeSimple_ok k q) rs h r

theorem matcherNWU_mem_iff (k : CharClass) (dict : List (List Nat × List Nat)) (q : List Nat)
    (rs : List MatchRes) (h : matcherRun (tokenizeNWU k) dict q = some rs) (r : MatchRes) :
    r ∈ rs ↔ ∃ i len st en, 1 ≤ len ∧ i + len ≤ (tokenizeNWU k q).length ∧
      (tokenizeNWU k q)[i]? = some st ∧ (tokenizeNWU k q)[i + len - 1]? = some en ∧
      r.start = (st.start : Int) ∧ r.start + r.len = ((en.start + en.len : Nat) : Int) ∧
      r.text = (q.drop r.start.toNat).take r.len.toNat ∧
      r.ids = idsOf (kept (tokDict (tokenizeNWU k) dict)) ((((tokenizeNWU k q).map (·.text)).drop i).take len) ∧
      r.ids.any (fun v => !v.isEmpty) = true :=
  matcherRun_mem_iff _ dict q (tokenizeNWU_ok k q) rs h r

/-! (f)–(h) are not consequences of the *shape* of the loop in `matcherFind`: they need `trieFind_len_pos` (the early
return of `TrieTree.insert`). With the pre-fix trie the same loop body wraps to the last token and returns a negative
length — `matcher_empty_phrase_wrapped_before_fix` below. -/

/-- A concrete ASCII character class for the examples below. -/
def asciiClass : CharClass where
  isSpace c := c == 32 || (9 ≤ c && c ≤ 13)
  isDigit c := 48 ≤ c && c ≤ 57
  isAlpha c := (65 ≤ c && c ≤ 90) || (97 ≤ c && c ≤ 122)

/-- Non-vacuity: a concrete dictionary/query meeting `matcherFind_offsets`' hypothesis, with a real match:
dictionary {"us$" ↦ "USD", "a b" ↦ "AB"}, query "1us$ a b". -/
example : matcherRun (tokenizeNWU asciiClass) [([117,115,36],[85]), ([97,32,98],[65])] [49,117,115,36,32,97,32,98]
    = some [⟨1, 3, [117,115,36], [[85]]⟩, ⟨5, 3, [97,32,98], [[65]]⟩] := by decide

/-- Regression witness for the defect repaired by the `fix:` commit on `TrieTree.insert` (a phrase that
tokenises to nothing used to make the root an end node: zero-length matches at every start index, index wrap,
negative lengths). With the early return the whitespace-only phrase is ignored. -/
theorem matcher_empty_phrase_ignored :
    matcherRun (tokenizeSimple asciiClass) [([32],[120])] [97,32,98] = some [] := by decide

/-- What the pre-fix code computed (kept as documentation of the finding): with the raw insertion the same
dictionary reports a whole-query match and a match of length −1. -/
theorem matcher_empty_phrase_wrapped_before_fix :
    matcherFind (tokenizeSimple asciiClass) (buildRaw [([],[120])]) [97,32,98] =
      some [⟨0, 3, [97,32,98], [[120]]⟩, ⟨2, -1, [], [[120]]⟩] := by decide

end RTV.Match
