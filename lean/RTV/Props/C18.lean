import RTV.Lemmas.ResGen
import RTV.Lemmas.ResGenEmit
/-!
# C18 — generated pattern resources are faithful to the shared Patterns YAML

The property itself is a finite equality of artefacts and is decided exhaustively on every run by
`harness/corr/c18.py` (translation validation: the repository's own generator is re-run and compared definition
by definition with the checked-in modules). What Lean contributes:

* a **reference emitter** (`RTV/Model/ResGenEmit.lean`: `writeToken` = every writer of `code_writer.py` behind
  `generate_code`'s dispatch, `assemble` = `base_code_generator.generate`), required byte-identical to the
  repository's generator on every definition of every Patterns YAML, every run;
* an **evaluator** of the emitted text (`evalDef`, `pStr`, `pRaw`, …) whose results are required equal to the
  attribute values of the imported checked-in modules, every run;
* the theorems below, for **all** strings / definitions: what the emitter writes, the evaluator reads back as
  the YAML definition — with the exact side conditions, and concrete witnesses where the generator is not
  faithful (none of them occurs in the Patterns of the repository; the correspondence replays them).
-/
namespace RTV.ResGen

/-! ## kept from the first version (evaluator `evalLit`) -/

/-- `SimpleRegexWriter`: for every definition `d` (any code points, incl. quotes, backslashes, braces, control
characters), the body `sanitize(d)` placed inside `f'…'` is a valid Python f-string literal whose value is `d`. -/
theorem sanitize_fstring_roundtrip (d : Str) : evalF (sanitize d []) = some d := by
  rw [evalF, sanitize_nil_eq]
  exact evalLit_flatMap_enc d _ (Nat.le_refl _)

/-- `DictionaryWriter` keys/values of type string: `create_entry(e, 'string')` is a valid Python `"…"` literal
whose value is `e` — provided `e` has no raw line feed, no raw carriage return and no NUL. The generator escapes
none of the three, so the guard is the code's, not ours. Observed on the real `create_entry` + CPython 3.12:
the entries a‹LF›b and a‹CR›b → `SyntaxError: unterminated string literal` (the tokenizer treats a lone CR as a
line end, in `eval`/`exec` of a string as well as in an imported file), a‹NUL›b → `SyntaxError: source code string
cannot contain null bytes`; the YAML loader does deliver all three from double-quoted escapes.
`evalLit` (the first-version evaluator used here, tied to CPython by no correspondence op) accepts a raw CR and a
raw NUL, so without `c ≠ 13 ∧ c ≠ 0` this theorem was true of the model and false of CPython — the two conjuncts are
hypotheses the proof does not use. For CR the CPython-tied evaluator `pValue`/`pStr` is exact: see
`create_entry_roundtrip_tied` and the witnesses below. NUL is modelled by neither evaluator (no Lean witness). -/
theorem create_entry_roundtrip (e : Str) (hn : ∀ c ∈ e, c ≠ 10 ∧ c ≠ 13 ∧ c ≠ 0) :
    evalDQ (createEntryString e) = some e := by
  rw [createEntry_eq]
  simp only [evalDQ, List.cons_append, List.nil_append, List.reverse_append, List.reverse_cons, List.reverse_nil,
    List.reverse_reverse]
  exact evalLit_flatMap_encDQ e (fun c hc => (hn c hc).1) _ (by simp)

/-- The same round trip for the evaluator the correspondence ties to CPython (`rg.evalsq`, the dictionary
theorems): here `c ≠ 13` is needed by the proof. -/
theorem create_entry_roundtrip_tied (stop : Nat) (e tl : Str) (hn : ∀ c ∈ e, c ≠ 10 ∧ c ≠ 13 ∧ c ≠ 0) :
    pValue stop (createEntryString e ++ tl) = some (.str e, tl) :=
  pValue_string stop e tl (fun c hc => ⟨(hn c hc).1, (hn c hc).2.1⟩)

/-- Non-vacuity / the guard is needed: an entry containing a raw newline does not evaluate. -/
theorem create_entry_newline_breaks : evalDQ (createEntryString [97, 10, 98]) = none := by decide

/-- The guard `c ≠ 13` is needed: an entry containing a raw carriage return is not a literal for the CPython-tied
evaluator (as for CPython) … -/
theorem create_entry_cr_breaks : pValue 41 (createEntryString [97, 13, 98] ++ [41]) = none := by decide

/-- … while the first-version evaluator reads it back (which is why `create_entry_roundtrip` has to *assume*
`c ≠ 13`). The hypotheses are satisfiable: `a"\b` round-trips through both. -/
example : evalDQ (createEntryString [97, 13, 98]) = some [97, 13, 98] := by decide
example : evalDQ (createEntryString [97, 34, 92, 98]) = some [97, 34, 92, 98] ∧
    pValue 41 (createEntryString [97, 34, 92, 98] ++ [41]) = some (.str [97, 34, 92, 98], [41]) := by decide

example : sanitize [92, 100, 123, 50, 125, 39] [] = [92, 92, 100, 123, 123, 50, 125, 125, 92, 39] := by decide
example : sanitize [123, 65, 125, 43] [[65]] = [123, 65, 125, 43] := by decide

/-! ## regexes: `f'…'` with replacement fields -/

/-- **NestedRegexWriter.** For every definition `d`, every list of reference names and every environment:
evaluating the emitted f-string body `sanitize(d, None, refs)` — replacement fields `{R}` looked up in `env` —
gives exactly `subst env refs d`: every `{R}` with `R` a listed reference replaced by the value of `R`, every
other character (including every other brace, e.g. a quantifier `{2}` or an unlisted `{Name}`) literal.
Conditions on the reference names — both needed, see the witnesses below:
* each is a name or dotted name (`validRef`: ASCII `ident(.ident)*`), which is also all the evaluator (and a
  Python replacement field without conversion/format) accepts;
* no name is listed twice.
A name that is a substring or prefix of another (`A`, `AB`) is harmless, as is `{R}` inside further braces
(`{{R}}` evaluates to `{`value`}` on both sides). -/
theorem nested_regex_faithful (env : Str → Option Str) (d : Str) (refs : List Str)
    (hv : ∀ r ∈ refs, validRef r = true) (hnd : refs.Nodup) :
    evalFE env (sanitize d refs) = subst env refs d := by
  rw [evalFE, sanitize_eq_mark d refs (fun r hr => validRef_braceFree (hv r hr)) hnd,
    pStr_mark env refs hv [39] d.length d (Nat.le_refl _), pStr_end]
  cases subst env refs d <;> simp [prepend, whole]

/-- **SimpleRegexWriter** (no references), for the evaluator with replacement fields: the value is `d`, in any
environment. -/
theorem simple_regex_faithful (env : Str → Option Str) (d : Str) : evalFE env (sanitize d []) = some d := by
  rw [nested_regex_faithful env d [] (by simp) (by simp)]
  induction d with
  | nil => exact subst_nil env []
  | cons c d ih =>
    by_cases h : c = 123
    · subst h; rw [subst_brace_none env [] d (fieldAt_nil d), ih]; rfl
    · rw [subst_cons_ne env [] c h, ih]; rfl

/-- Witness 1 (the naive statement without `Nodup` is false): a reference listed twice loses its braces in the
second pass — `{A}` with `references: [A, A]` is emitted as the literal text `A`. -/
theorem nested_regex_duplicate_reference :
    evalFE (fun _ => some [88]) (sanitize [123, 65, 125] [[65], [65]]) = some [65] ∧
    subst (fun _ => some [88]) [[65], [65]] [123, 65, 125] = some [88] := by decide

/-- Witness 2 (the naive statement without `validRef` is false): a "reference" that is not a plain name, e.g.
`A!r`, is emitted as the replacement field `{A!r}`, which is not a lookup of that name (Python applies the
conversion `!r` to `A`; the evaluator rejects it). -/
theorem nested_regex_invalid_name :
    evalFE (fun _ => some [88]) (sanitize [123, 65, 33, 114, 125] [[65, 33, 114]]) = none ∧
    subst (fun _ => some [88]) [[65, 33, 114]] [123, 65, 33, 114, 125] = some [88] := by decide

/-- The conditions are satisfiable and the cases one might worry about are fine: `A` and `AB` both listed,
`{A}` inside doubled braces, an unlisted `{C}`, a quantifier. `{AB}{A}{{A}}{C}x{2}` ↦ `YX{X}{C}x{2}`. -/
example :
    evalFE (fun r => if r = [65] then some [88] else if r = [65, 66] then some [89] else none)
      (sanitize [123, 65, 66, 125, 123, 65, 125, 123, 123, 65, 125, 125, 123, 67, 125, 120, 123, 50, 125] [[65], [65, 66]])
      = some [89, 88, 123, 88, 125, 123, 67, 125, 120, 123, 50, 125] := by decide

/-- **ParamsRegexWriter.** Calling the emitted `def Name(params): return f'…'` with arguments `args` gives the
definition with every `{param}` replaced by the corresponding argument and everything else literal.
(Parameters are names, pairwise different — Python rejects anything else in a `def`.) -/
theorem params_regex_faithful (d : Str) (params args : List Str)
    (hv : ∀ p ∈ params, validRef p = true) (hnd : params.Nodup) (hl : params.length = args.length) :
    callFunc params (sanitize d params) args = subst (lookup (params.zip args)) params d := by
  simp only [callFunc, hl, if_true]
  exact nested_regex_faithful _ d params hv hnd

/-! ## `DefaultWriter`, `BooleanWriter` -/

/-- **DefaultWriter**, exactly: the emitted plain literal `'…sanitize(d)…'` evaluates to `d` *with every brace
doubled* (`sanitize` doubles them for an f-string, but the literal is not one). -/
theorem default_writer_value (d : Str) : evalSQ (sanitize d []) = some (doubleBraces d) := by
  rw [evalSQ, sanitize_nil_esc, pStr_plain_esc [39] (doubleBraces d), pStr_end]
  simp [prepend, whole]

/-- **DefaultWriter** is faithful on every brace-free scalar (any quotes, backslashes, control characters). -/
theorem default_writer_faithful (d : Str) (h : ∀ c ∈ d, c ≠ 123 ∧ c ≠ 125) : evalSQ (sanitize d []) = some d := by
  rw [default_writer_value, doubleBraces_free d h]

/-- Witness: the guard is needed — an untagged scalar `{` is emitted as `'{{'`, whose value is `{{`. -/
theorem default_writer_brace_doubled : evalSQ (sanitize [123] []) = some [123, 123] := by decide

/-- **DefaultWriter / whole definition**: `Name = '…'` evaluates to `(Name, d)`. -/
theorem default_definition_faithful (env : Str → Option Str) (name d : Str)
    (hname : ∀ c ∈ name, isIdentChar c = true) (h : ∀ c ∈ d, c ≠ 123 ∧ c ≠ 125) :
    evalDef env (defaultWrite name d) = some (name, .val (.str d)) := by
  have e : defaultWrite name d = name ++ 32 :: 61 :: 32 :: (39 :: (sanitize d [] ++ [39])) := by simp [defaultWrite]
  have := default_writer_faithful d h
  rw [evalSQ] at this
  rw [e, evalDef_name env name _ hname]
  simp only [evalRhs, this]
  rfl

/-- **BooleanWriter / whole definition**: `Name = True` / `Name = False` evaluates to `(Name, b)`. -/
theorem bool_writer_faithful (env : Str → Option Str) (name : Str) (b : Bool)
    (hname : ∀ c ∈ name, isIdentChar c = true) :
    evalDef env (boolWrite name b) = some (name, .val (.bool b)) := by
  have e : boolWrite name b = name ++ 32 :: 61 :: 32 :: (if b then sTrue else sFalse) := by simp [boolWrite]
  rw [e, evalDef_name env name _ hname]
  cases b <;> simp [evalRhs, sTrue, sFalse]

/-- **Simple/NestedRegexWriter / whole definition**: `Name = f'…'` evaluates to `(Name, subst env refs d)`. -/
theorem regex_definition_faithful (env : Str → Option Str) (name d : Str) (refs : List Str)
    (hname : ∀ c ∈ name, isIdentChar c = true) (hv : ∀ r ∈ refs, validRef r = true) (hnd : refs.Nodup) :
    evalDef env (regexWrite name d refs) = (subst env refs d).map fun v => (name, .val (.str v)) := by
  have e : regexWrite name d refs = name ++ 32 :: 61 :: 32 :: (102 :: 39 :: (sanitize d refs ++ [39])) := by
    simp [regexWrite]
  have := nested_regex_faithful env d refs hv hnd
  rw [evalFE] at this
  rw [e, evalDef_name env name _ hname]
  simp only [evalRhs, this]
  cases subst env refs d <;> rfl

/-! ## dictionaries -/

/-- **DictionaryWriter, one entry**: the emitted `("key", "value")` / `("key", ["v1", "v2"])` is read back as the
pair (key, value) — for string-typed keys and values without a raw line break, and sequence values (written
with `json.dumps`, so every character outside `' '..'~'` as `\uXXXX`) whose characters are below U+10000. -/
theorem dict_entry_faithful (keyType valueType : Str) (kv : Str × DictVal) (tl : Str)
    (h : entryOK keyType valueType kv) :
    pDictEntry (dictEntry keyType valueType kv ++ tl) = some ((.str kv.1, valOf kv.2), tl) :=
  pDictEntry_entry keyType valueType kv tl h

/-- values of the other types (`int`, `long`, `double`, …) are emitted verbatim: the YAML scalar's text is the
Python expression. -/
theorem dict_value_verbatim (valueType s : Str) (h1 : toPythonType valueType ≠ tString)
    (h2 : toPythonType valueType ≠ tBool) : dictValue valueType (.scalar s) = s := by
  simp [dictValue, createEntry, h1, h2]

/-- Witness (sequence values): a character above U+FFFF is written by `json.dumps` as a surrogate pair, which a
Python string literal reads as two code points — `["😀"]` does not evaluate back. -/
theorem dict_list_astral_not_faithful :
    pValue 41 (dictValue tString (.list [[128512]]) ++ [41]) = some (.list [[55357, 56832]], [41]) := by decide

/-- Witness (the line-break guard is the code's): a key with a raw line feed is not a valid literal. -/
theorem dict_entry_newline_breaks :
    pDictEntry (dictEntry tString tString ([97, 10], .scalar [98])) = none := by decide

/-- **DictionaryWriter / whole definition**: `Name = dict([(k, v),\n<blanks>(k, v)…])` — including the column
alignment of the continuation lines — evaluates to the list of (key, value) pairs in YAML order. -/
theorem dictionary_faithful (env : Str → Option Str) (name keyType valueType : Str) (entries : List (Str × DictVal))
    (hname : ∀ c ∈ name, isIdentChar c = true) (h : ∀ e ∈ entries, entryOK keyType valueType e) :
    evalDef env (dictWrite name keyType valueType entries) =
      some (name, .dict (entries.map fun kv => (.str kv.1, valOf kv.2))) := by
  have e : dictWrite name keyType valueType entries = name ++ 32 :: 61 :: 32 ::
      (100 :: 105 :: 99 :: 116 :: 40 :: 91 ::
        (join (dictSep name) (entries.map (dictEntry keyType valueType)) ++ [93, 41])) := by
    simp [dictWrite, sDictOpen]
  rw [e, evalDef_name env name _ hname]
  cases entries with
  | nil => simp [evalRhs, join]
  | cons x r =>
    have hne : join (dictSep name) ((x :: r).map (dictEntry keyType valueType)) ++ [93, 41] ≠ [93, 41] := by
      intro hh
      have := join_dictEntry_head (dictSep name) keyType valueType x r [93, 41]
      rw [hh] at this
      exact absurd this (by decide)
    have hlen : (x :: r).length ≤ (join (dictSep name) ((x :: r).map (dictEntry keyType valueType)) ++ [93, 41]).length + 1 := by
      have := join_length_ge (dictSep name) ((x :: r).map (dictEntry keyType valueType)) (by
        intro y hy
        obtain ⟨z, _, rfl⟩ := List.mem_map.mp hy
        simp [dictEntry])
      simp only [List.length_map, List.length_append] at this ⊢
      omega
    simp only [evalRhs, hne, if_false]
    rw [pDictEntries_join name keyType valueType (x :: r) _ (by simp) hlen h]
    rfl

/-! ## lists: `r'…'` entries -/

/-- **ArrayWriter, one entry** — exactly what `r'…'` evaluates to: the entry with a backslash in front of every
apostrophe (a raw literal keeps the backslash that protects the quote). This is a statement about the generator,
not a violation: as regular-expression text `\'` matches `'`. Conditions: the raw literal is well formed
(`rawOK`: no apostrophe preceded by an odd run of backslashes, no odd run at the end) and has no line break. -/
theorem list_entry_raw (e tl : Str) (hok : rawOK e = true) (hn : ∀ c ∈ e, c ≠ 10 ∧ c ≠ 13) :
    pRaw 39 false (replaceChar 39 [92, 39] e ++ 39 :: tl) = some (replaceChar 39 [92, 39] e, tl) :=
  pRaw_entry tl e false hok hn

/-- … so an entry without apostrophes evaluates to itself … -/
theorem list_entry_identity (e tl : Str) (hq : ∀ c ∈ e, c ≠ 39) (hok : rawOK e = true)
    (hn : ∀ c ∈ e, c ≠ 10 ∧ c ≠ 13) : pRaw 39 false (replaceChar 39 [92, 39] e ++ 39 :: tl) = some (e, tl) := by
  have := replaceChar_absent 39 [92, 39] e hq
  rw [this]
  have key := list_entry_raw e tl hok hn
  rw [this] at key
  exact key

/-- … and `o'clock` evaluates to `o\'clock` (the entry written `o'clock` in the YAML). -/
theorem list_entry_apostrophe_keeps_backslash :
    pRaw 39 false (arrayEntry tString [111, 39, 99] |>.drop 2) = some ([111, 92, 39, 99], []) := by decide

/-- Witnesses (`rawOK` is needed): an entry ending in a backslash swallows the closing quote; a backslash in front
of an apostrophe pairs with the inserted one and the literal ends early. -/
theorem list_entry_trailing_backslash : pRaw 39 false (replaceChar 39 [92, 39] [97, 92] ++ [39]) = none := by decide
theorem list_entry_backslash_apostrophe :
    pRaw 39 false (replaceChar 39 [92, 39] [92, 39, 97] ++ [39]) = some ([92, 92], [97, 39]) := by decide

/-- **ArrayWriter / whole definition** (`!list` of type string/char, or an untagged sequence):
`Name = [r'…', r'…']` evaluates to the list of the entries, each with a backslash before every apostrophe. -/
theorem list_faithful (env : Str → Option Str) (name : Str) (entries : List Str)
    (hname : ∀ c ∈ name, isIdentChar c = true) (h : ∀ e ∈ entries, rawOK e = true ∧ noNewline e) :
    evalDef env (arrayWrite name tString entries) =
      some (name, .val (.list (entries.map (replaceChar 39 [92, 39])))) := by
  have e : arrayWrite name tString entries = name ++ 32 :: 61 :: 32 ::
      (91 :: (join [44, 32] (entries.map (arrayEntry tString)) ++ [93])) := by simp [arrayWrite]
  rw [e, evalDef_name env name _ hname]
  cases entries with
  | nil => simp [evalRhs, join]
  | cons x r =>
    have hd : ∃ w, join [44, 32] ((x :: r).map (arrayEntry tString)) ++ [93] = 114 :: w :=
      ⟨(join [44, 32] ((x :: r).map (arrayEntry tString)) ++ [93]).tail, by cases r <;> simp [join, arrayEntry_string]⟩
    obtain ⟨w, hw⟩ := hd
    have hlen : (x :: r).length ≤ w.length + 2 := by
      have := join_length_ge [44, 32] ((x :: r).map (arrayEntry tString)) (by
        intro y hy
        obtain ⟨z, _, rfl⟩ := List.mem_map.mp hy
        simp [arrayEntry_string])
      have hl := congrArg List.length hw
      simp only [List.length_map, List.length_append, List.length_cons, List.length_nil] at this hl ⊢
      omega
    have key := pRawItems_join (x :: r) (w.length + 2) (by simp) hlen h
    rw [hw] at key ⊢
    simp only [evalRhs, key]
    rfl

/-! ## `base_code_generator.generate` -/

/-- a block without line-break characters (in the sense of `str.splitlines`) is written as one indented line … -/
theorem block_single_line (text : Str) (h : ∀ c ∈ text, isLineBreak c = false) (hne : text ≠ []) :
    blockLines text = indent4 ++ text ++ [10] := by
  simp [blockLines, splitlines_noBreak text h hne, hne]

/-- … and its value in the file is the value of the writer's text … -/
theorem block_value_single_line (env : Str → Option Str) (text : Str) (h : ∀ c ∈ text, isLineBreak c = false)
    (hne : text ≠ []) : evalBlock env text = evalDef env text := by
  simp [evalBlock, fileText, splitlines_noBreak text h hne, join]

/-- … whereas U+0085 / U+2028 / U+2029 inside a definition (not escaped by `sanitize`) break the line: the
f-string is cut in two and the module does not evaluate. -/
theorem block_line_separator_breaks :
    evalDef (fun _ => none) (regexWrite [65] [97, 8232, 98] []) = some ([65], .val (.str [97, 8232, 98])) ∧
    evalBlock (fun _ => none) (regexWrite [65] [97, 8232, 98] []) = none := by decide

/-- the file: header comment, blank line, header, the blocks, footer, final newline -/
theorem assemble_shape (hc header footer : Str) (blocks : List Str) :
    assemble hc header footer blocks =
      hc ++ [10, 10] ++ header ++ [10] ++ blocks.flatMap blockLines ++ footer ++ [10] := rfl

end RTV.ResGen
