import RTV.Lemmas.ResGen
/-!
# C18 — generated pattern resources are faithful to the shared Patterns YAML

The property itself is a finite equality of artefacts and is decided exhaustively on every run by
`harness/corr/c18.py` (translation validation: the repository's own generator is re-run and compared definition
by definition with the checked-in modules). What Lean contributes are theorems about the *generator's escaping
functions* for **all** strings: what `code_writer.sanitize` / `create_entry` emit, Python evaluates back to the YAML
definition — so "regenerated text = checked-in text" implies "imported value = YAML definition".
The model (`RTV/Model/ResGen.lean`) is tied to `lib/code_writer.py` by unit correspondence.
-/
namespace RTV.ResGen

/-- `SimpleRegexWriter`: for every definition `d` (any code points, incl. quotes, backslashes, braces, control
characters), the body `sanitize(d)` placed inside `f'…'` is a valid Python f-string literal whose value is `d`. -/
theorem sanitize_fstring_roundtrip (d : Str) : evalF (sanitize d []) = some d := by
  rw [evalF, sanitize_nil_eq]
  exact evalLit_flatMap_enc d _ (Nat.le_refl _)

/-- `DictionaryWriter` keys/values of type string: `create_entry(e, 'string')` is a valid Python `"…"` literal
whose value is `e` — provided `e` has no raw line feed (a raw newline would end the literal; the generator does
not escape it, so the guard is the code's, not ours — see `create_entry_newline_breaks`). -/
theorem create_entry_roundtrip (e : Str) (hn : ∀ c ∈ e, c ≠ 10) : evalDQ (createEntryString e) = some e := by
  rw [createEntry_eq]
  simp only [evalDQ, List.cons_append, List.nil_append, List.reverse_append, List.reverse_cons, List.reverse_nil,
    List.reverse_reverse]
  exact evalLit_flatMap_encDQ e hn _ (by simp)

/-- Non-vacuity / the guard is needed: an entry containing a raw newline does not evaluate. -/
theorem create_entry_newline_breaks : evalDQ (createEntryString [97, 10, 98]) = none := by decide

/-- Examples: a regex with quotes, braces and a backslash survives; `{BaseX}` stays a replacement field only when
it is listed as a reference (nested regex). -/
example : sanitize [92, 100, 123, 50, 125, 39] [] = [92, 92, 100, 123, 123, 50, 125, 125, 92, 39] := by decide
example : sanitize [123, 65, 125, 43] [[65]] = [123, 65, 125, 43] := by decide

end RTV.ResGen
