import RTV.Props.C06FrontX
import RTV.Lemmas.DateFrontEvFrAll
import RTV.Gen.DtMapsX1
import RTV.Gen.DtMapsX2
/-!
# C06, front end — fr-fr: from the TEXT of a date to TIMEX = value = that date, by theorem

(Skeleton written by harness/lib/datefrontcert.py fr-fr, witnesses by hand; see Props/C06FrontX.lean for the method.)
`parse_basic_regex_match` of the French configuration — the regenerated `date_regex` list (RTV/Gen/DateRegexFr.lean, 10
patterns, token prefix `le `) — applied to the text of a date in ANY layout of `contracts/C06.json["layouts"]["fr-fr"]`
(RTV/Gen/DateLayoutsFr.lean; the day comes first: `5/12/2010` is 5 December) hands `match_to_date` the year / month / day
the text was rendered from, and the entity is that date — every year 1900..2099 (digits symbolic), every month, every day.
The evaluated part: RTV/Lemmas/DateFrontEvFr*.lean (acceptance: abstract texts; rejection by the earlier regexes: start
position by start position).  `token_tables_fr`: the month / day tokens of the layouts are keys of the regenerated
`MonthOfYear` / `DayOfMonth` of the culture with the right numbers.
-/
namespace RTV.DateFront
open RTV.Re RTV.Py RTV.DtRes RTV.Gen.DateRegexFr RTV.Gen.DateLayoutsFr RTV.Gen.DtMaps

/-- the month tokens (`3`, `03`, month name) / day tokens (with the literal suffix the day group takes along) of every layout
are keys of the regenerated `MonthOfYear` / `DayOfMonth` of fr-fr with that month / day -/
theorem token_tables_fr :
    ((layoutsFr.zip (EvFr.dexts.take layoutsFr.length)).all fun p =>
      monthToksOK namesFr monthOfYear_fr p.1 && dayToksOK namesFr dayOfMonth_fr p.1 p.2 days31) = true := by
  decide +kernel

/-- every layout of the contract has its evaluated facts and its token checks -/
theorem layouts_have_facts_fr : ∀ L ∈ layoutsFr, ∃ dext k,
    LayoutFactsL namesFr dateRegexes dateTokenPrefix days31 L dext k ∧
    monthToksOK namesFr monthOfYear_fr L = true ∧ dayToksOK namesFr dayOfMonth_fr L dext days31 = true := by
  intro L hL
  simp only [layoutsFr, List.mem_cons, List.mem_nil_iff, or_false] at hL
  rcases hL with rfl | rfl | rfl | rfl | rfl | rfl
  · exact ⟨_, _, EvFr.facts0, by decide +kernel, by decide +kernel⟩
  · exact ⟨_, _, EvFr.facts1, by decide +kernel, by decide +kernel⟩
  · exact ⟨_, _, EvFr.facts2, by decide +kernel, by decide +kernel⟩
  · exact ⟨_, _, EvFr.facts3, by decide +kernel, by decide +kernel⟩
  · exact ⟨_, _, EvFr.facts4, by decide +kernel, by decide +kernel⟩
  · exact ⟨_, _, EvFr.facts5, by decide +kernel, by decide +kernel⟩

/-- the contract has these layouts, and which regex accepts each -/
theorem layouts_count_fr : layoutsFr.length = 6 ∧ EvFr.acceptingRegex = [9, 2, 2, 2, 2, 1, 1] := by decide

/-- FRONT END → DECODE (fr-fr): the groups the front end yields on a rendered date satisfy `Decodes` for that date. -/
theorem front_decodes_fr {T : Tables} (hT : LatinAgree T) {u : Uni} (hu : TextUni u) (L : List Tok) (hL : L ∈ layoutsFr)
    (y m d : Nat) (hy : 1900 ≤ y ∧ y ≤ 2099) (hm : 1 ≤ m ∧ m ≤ 12) (hd : 1 ≤ d ∧ d ≤ 31) :
    ∃ h g, parseBasic T u dateTokenPrefix dateRegexes (renderL namesFr L y m d) = some (some (h, g)) ∧
      Decodes u (genCfg monthOfYear_fr dayOfMonth_fr) g y m d := by
  obtain ⟨dext, k, hf, hmt, hdt⟩ := layouts_have_facts_fr L hL
  obtain ⟨h, g, hp, _, hdec⟩ := front_decodes_gen hT hu hf hmt hdt y m d hy hm ((mem_days31 d).2 hd)
  exact ⟨h, g, hp, hdec⟩

/-- C06 FOR THE TEXT (fr-fr). A fully specified date `y-m-d`, 1900 ≤ y ≤ 2099, that exists in the calendar, written in ANY
layout of the contract: `parse_basic_regex_match` on the regenerated regexes, `match_to_date`, `BaseDateParser.parse` and
`_date_time_resolution` yield exactly one value of type `date` whose TIMEX and value are `YYYY-MM-DD` — for every reference
`R`, every written-year oracle `wy`, every engine table that agrees with `latinTables` below 256. -/
theorem front_abs_date_fr {T : Tables} (hT : LatinAgree T) {u : Uni} (hu : TextUni u) (L : List Tok) (hL : L ∈ layoutsFr)
    (y m d : Nat) (hy : 1900 ≤ y ∧ y ≤ 2099) (hv : (⟨y, m, d⟩ : RTV.Cal.Date).valid = true) (wy : Int) (R : DT) :
    frontResolve T u (genCfg monthOfYear_fr dayOfMonth_fr) dateTokenPrefix dateRegexes (renderL namesFr L y m d) wy R =
      .ok (some [{ timex := ymd y m d, type := sDate, value := some (ymd y m d) }]) := by
  obtain ⟨dext, k, hf, hmt, hdt⟩ := layouts_have_facts_fr L hL
  exact front_abs_date_gen hT hu hf hmt hdt y m d hy hv (valid_day31 y m d hv) wy R

/-- … with the tables of the running `regex` module -/
theorem front_abs_date_engine_fr {u : Uni} (hu : TextUni u) (L : List Tok) (hL : L ∈ layoutsFr)
    (y m d : Nat) (hy : 1900 ≤ y ∧ y ≤ 2099) (hv : (⟨y, m, d⟩ : RTV.Cal.Date).valid = true) (wy : Int) (R : DT) :
    frontResolve RTV.Gen.reTables u (genCfg monthOfYear_fr dayOfMonth_fr) dateTokenPrefix dateRegexes
        (renderL namesFr L y m d) wy R =
      .ok (some [{ timex := ymd y m d, type := sDate, value := some (ymd y m d) }]) :=
  front_abs_date_fr retables_latin hu L hL y m d hy hv wy R

/-- the layouts of the contract that are the text of day 1 only (`1er`) -/
theorem layouts_have_facts_fr_day1 : ∀ L ∈ layoutsFrDay1, ∃ dext k,
    LayoutFactsL namesFr dateRegexes dateTokenPrefix [1] L dext k ∧
    monthToksOK namesFr monthOfYear_fr L = true ∧ dayToksOK namesFr dayOfMonth_fr L dext [1] = true := by
  intro L hL
  simp only [layoutsFrDay1, List.mem_cons, List.mem_nil_iff, or_false] at hL
  rcases hL with rfl
  · exact ⟨_, _, EvFr.facts6, by decide +kernel, by decide +kernel⟩

/-- C06 FOR THE TEXT (fr-fr), first of the month written `1er`: every year 1900..2099, every month, day 1. -/
theorem front_abs_date_fr_day1 {T : Tables} (hT : LatinAgree T) {u : Uni} (hu : TextUni u) (L : List Tok)
    (hL : L ∈ layoutsFrDay1) (y m : Nat) (hy : 1900 ≤ y ∧ y ≤ 2099) (hm : 1 ≤ m ∧ m ≤ 12) (wy : Int) (R : DT) :
    frontResolve T u (genCfg monthOfYear_fr dayOfMonth_fr) dateTokenPrefix dateRegexes (renderL namesFr L y m 1) wy R =
      .ok (some [{ timex := ymd y m 1, type := sDate, value := some (ymd y m 1) }]) := by
  obtain ⟨dext, k, hf, hmt, hdt⟩ := layouts_have_facts_fr_day1 L hL
  have hv : (⟨y, m, 1⟩ : RTV.Cal.Date).valid = true := by
    rw [RTV.Cal.valid_iff]
    refine ⟨by show 1 ≤ y; omega, by show y ≤ 9999; omega, hm.1, hm.2, Nat.le_refl 1, ?_⟩
    show 1 ≤ RTV.Cal.daysInMonth y m
    obtain ⟨h1, h2⟩ := hm
    have : m = 1 ∨ m = 2 ∨ m = 3 ∨ m = 4 ∨ m = 5 ∨ m = 6 ∨ m = 7 ∨ m = 8 ∨ m = 9 ∨ m = 10 ∨ m = 11 ∨ m = 12 := by omega
    rcases this with rfl | rfl | rfl | rfl | rfl | rfl | rfl | rfl | rfl | rfl | rfl | rfl <;>
      simp only [RTV.Cal.daysInMonth] <;> (try split) <;> omega
  exact front_abs_date_gen hT hu hf hmt hdt y m 1 hy hv (by simp) wy R

/-! ## instances and witnesses (concrete texts, Latin-1 tables) -/

/-- `5 février 2019` is the text of 2019-02-05 in layout 5, `1er août 2019` of 2019-08-01 in layout 6 -/
example : layout5 ∈ layoutsFr ∧ renderL namesFr layout5 2019 2 5 = [53, 32, 102, 233, 118, 114, 105, 101, 114, 32, 50, 48, 49, 57] ∧
    layout6 ∈ layoutsFrDay1 ∧ renderL namesFr layout6 2019 8 1 = [49, 101, 114, 32, 97, 111, 251, 116, 32, 50, 48, 49, 57] := by decide

/-- the DAY comes first: `5/12/2010` is day 5, month 12 -/
theorem front_day_first_fr :
    (parseBasic latinTables asciiUni dateTokenPrefix dateRegexes [53, 47, 49, 50, 47, 50, 48, 49, 48]).map
        (·.map fun p => gtuple p.2) = some (some ([50, 48, 49, 48], [49, 50], [53], [])) := by
  decide +kernel

/-- near miss: a 13th month is not a month — `5/13/2019` is accepted month-first (date_regex[4]): month 5, day 13 -/
theorem front_month13_falls_to_month_first_fr :
    (parseBasic latinTables asciiUni dateTokenPrefix dateRegexes [53, 47, 49, 51, 47, 50, 48, 49, 57]).map
        (·.map fun p => gtuple p.2) = some (some ([50, 48, 49, 57], [53], [49, 51], [])) := by
  decide +kernel

/-- … by date_regex[4] -/
theorem front_month13_regex_fr :
    (parseBasic latinTables asciiUni dateTokenPrefix dateRegexes [53, 47, 49, 51, 47, 50, 48, 49, 57]).map
        (·.map fun p => p.1.idx) = some (some 4) := by
  decide +kernel

/-- near miss: day 32 is no day — `32/3/2019` is accepted by no regex -/
theorem front_day32_rejected_fr :
    (parseBasic latinTables asciiUni dateTokenPrefix dateRegexes [51, 50, 47, 51, 47, 50, 48, 49, 57]).map (·.isNone) = some true := by
  decide +kernel

/-- the day group of `1er août 2019` is `1er` (a key of the French `DayOfMonth`) -/
theorem front_1er_groups_fr :
    (parseBasic latinTables asciiUni dateTokenPrefix dateRegexes [49, 101, 114, 32, 97, 111, 251, 116, 32, 50, 48, 49, 57]).map
        (·.map fun p => gtuple p.2) = some (some ([50, 48, 49, 57], [97, 111, 251, 116], [49, 101, 114], [])) := by
  decide +kernel

/-- near miss: `2er mars 2019` is accepted too, with the day group `2er` — which is no key of `DayOfMonth`
(the contract layout `{d1er}` is the text of day 1 only) -/
theorem front_2er_groups_fr :
    (parseBasic latinTables asciiUni dateTokenPrefix dateRegexes [50, 101, 114, 32, 109, 97, 114, 115, 32, 50, 48, 49, 57]).map
        (·.map fun p => gtuple p.2) = some (some ([50, 48, 49, 57], [109, 97, 114, 115], [50, 101, 114], [])) := by
  decide +kernel

/-- an impossible day is still handed on: `30 février 2019` -/
theorem front_invalid_day_groups_fr :
    (parseBasic latinTables asciiUni dateTokenPrefix dateRegexes [51, 48, 32, 102, 233, 118, 114, 105, 101, 114, 32, 50, 48, 49, 57]).map
        (·.map fun p => gtuple p.2) = some (some ([50, 48, 49, 57], [102, 233, 118, 114, 105, 101, 114], [51, 48], [])) := by
  decide +kernel

/-- a two-digit year reaches `match_to_date` as two digits: `5/3/30` -/
theorem front_two_digit_year_groups_fr :
    (parseBasic latinTables asciiUni dateTokenPrefix dateRegexes [53, 47, 51, 47, 51, 48]).map
        (·.map fun p => gtuple p.2) = some (some ([51, 48], [51], [53], [])) := by
  decide +kernel

/-- `2er` is no key of the regenerated French `DayOfMonth`, `1er` is -/
theorem day_2er_no_key_fr : lookup dayOfMonth_fr [50, 101, 114] = none ∧ lookup dayOfMonth_fr [49, 101, 114] = some 1 := by
  decide +kernel

end RTV.DateFront
