import RTV.Lemmas.ZhTimePeriod
import RTV.Props.C10DtPeriod
import RTV.Props.C11Holiday
/-!
# C10 / C11 / C07 for the remaining Chinese parsers — time ranges, date-time ranges, sets, holidays

The Chinese configuration does not run the Base parsers for these expressions: `chinese/timeperiod_parser.py`,
`datetimeperiod_parser.py`, `set_parser.py`, `holiday_parser.py` re-implement them. `RTV.Model.ZhTimePeriod` mirrors that
code (tied to the real parser objects by `harness/lib/zhcorr2.py`); here, for **every** reference, every admissible hour /
minute / second and every day description:

* the am/pm rules the code applies, stated exactly (`zh_add_description_rule`, `zh_right_end_rule` and its corollaries);
* a time range 从下午三点到五点: begin / end are the two clock times after those rules on the reference's day, the end rolled to
  the next day exactly when its hour is below the begin's (`zh_time_period_values`); the TIMEX `(T…,T…,PT…)` is a consistent
  triple whenever the two clock times differ (`zh_time_period_triple_ok`) — and the bare `PT` when they coincide
  (`zh_empty_span_witness`, finding `zh-timeperiod-empty-span`);
* part-of-day tables row by row: begin < end ≤ 24 h (`zh_time_of_day_rows`, `zh_pod_rows`, `zh_night_table`);
* 明天下午三点到五点: both ends on the date's day, consistent triple when the clock times are in order
  (`zh_merge_date_period_ok`); a range across midnight is pasted onto ONE date (`zh_cross_midnight_witness`, finding
  `zh-dtperiod-cross-midnight`); the side without a date of 明天下午2点,5点 is put on the REFERENCE's day
  (`zh_merge_points_reference_day_witness`);
* 前N小时 / 未来N分钟 = `[R − N·unit, R]` / `[R, R + N·unit]` with a consistent `PT` triple for every R and N
  (`zh_past_n_units`, `zh_future_n_units`);
* set TIMEXes (`zh_set_unit_forms`, `zh_set_first_success`);
* holidays: every fixed-date function returns that month / day in every year 1..9999, 母亲节 / 父亲节 / 感恩节 the stated
  k-th weekday for every year (`zh_fixed_holidays_every_year`, `zh_variable_holidays_every_year` — by theorem, no year
  enumeration), a holiday with a year is the definite date of THE YEAR THE CODE READ (`zh_holiday_with_year_definite`) —
  and the year reading is wrong (`zh_holiday_year_truncated_witness`, `zh_holiday_cjk_year_witness`; the repaired reading
  `holidayYearFixed` is specified by `zh_holiday_year_fixed_spec`).
-/
namespace RTV.ZhTP
open RTV.Cal RTV.DateUtils RTV.WF RTV.Periods RTV.DtPeriod
set_option linter.unusedVariables false

/-! ## the am/pm rules, exactly -/

/-- `add_description`: with a low bound `b` for the description (`TimeLowBoundDesc`: 中午 11, 下午 / 午后 12, 晚上 / 夜里 / … 18)
an hour BELOW the bound gets +12 and the bound is remembered; in every other case (hour at or above the bound, a description
without a bound such as 上午 / 早上 / 凌晨) the hour stays and the low bound becomes 0. Minute and second are never touched. -/
theorem zh_add_description_rule (lb : Option Int) (t : TR) :
    (addDescription lb t).minute = t.minute ∧ (addDescription lb t).second = t.second ∧
    (∀ b, lb = some b → t.hour < b → (addDescription lb t).hour = t.hour + 12 ∧ (addDescription lb t).lowBound = b) ∧
    (∀ b, lb = some b → b ≤ t.hour → (addDescription lb t).hour = t.hour ∧ (addDescription lb t).lowBound = 0) ∧
    (lb = none → (addDescription lb t).hour = t.hour ∧ (addDescription lb t).lowBound = 0) := by
  cases lb with
  | none => simp [addDescription]
  | some b =>
    by_cases c : t.hour < b
    · simp [addDescription, c] <;> omega
    · simp [addDescription, c] <;> omega

/-- the inference across the two ends of a range ("the right side doesn't contain desc while the left side does"): the
right hour gets +12 exactly when the right end has NO description (`low_bound = −1`), the left end HAS one, and the right
hour is at most the left end's low bound; nothing else of the right end changes, the left end never changes. -/
theorem zh_right_end_rule (l r : TR) :
    (adjustRight l r).minute = r.minute ∧ (adjustRight l r).second = r.second ∧ (adjustRight l r).lowBound = r.lowBound ∧
    ((r.lowBound = -1 ∧ l.lowBound ≠ -1 ∧ r.hour ≤ l.lowBound) → (adjustRight l r).hour = r.hour + 12) ∧
    (¬(r.lowBound = -1 ∧ l.lowBound ≠ -1 ∧ r.hour ≤ l.lowBound) → adjustRight l r = r) := by
  unfold adjustRight
  by_cases c : r.lowBound = -1 ∧ l.lowBound ≠ -1 ∧ r.hour ≤ l.lowBound
  · simp [c]
  · simp [c]

/-- 下午三点到五点 / 晚上八点到十点: a left hour below its description's bound `b` and a bare right hour `k ≤ b` — BOTH ends get
+12. -/
theorem zh_described_left_bare_right (b h k lm ls rm rs : Int) (hb : h < b) (hk : k ≤ b) (hb1 : b ≠ -1) :
    (parsedTime h lm ls (some (some b))).hour = h + 12 ∧
    (adjustRight (parsedTime h lm ls (some (some b))) (parsedTime k rm rs none)).hour = k + 12 := by
  simp [parsedTime, addDescription, adjustRight, hb, hk, hb1]

/-- both ends described, or the left end bare: no inference — each end is read on its own -/
theorem zh_no_inference (l r : TR) (h : r.lowBound ≠ -1 ∨ l.lowBound = -1) : adjustRight l r = r := by
  unfold adjustRight
  rcases h with h | h <;> simp [h]

/-- a description without a bound on the left (上午九点到十一点, 早上8点到10点): `low_bound` is 0, so only a right hour 0 would be
shifted; hours 1..23 stay -/
theorem zh_morning_left_keeps_right (h k lm ls rm rs : Int) (hk : 0 < k) :
    adjustRight (parsedTime h lm ls (some none)) (parsedTime k rm rs none) = parsedTime k rm rs none := by
  simp [parsedTime, addDescription, adjustRight]; omega

/-! ## a time range: values and TIMEX -/

theorem buildDate_ok (t : TR) (ht : t.ok) (R : DateTime) (hv : R.date.valid = true) : buildDate t R = some ⟨R.date, secsOf t⟩ := by
  obtain ⟨a1, a2, a3, a4, a5, a6, a7⟩ := ht
  have m := floor0_bounds t.minute a3 a4
  have s := floor0_bounds t.second a5 a6
  unfold buildDate secsOf
  rw [floor0_nonneg _ a1]
  simp [hv, a2, m.2, s.2]

theorem hourOf_secsOf (t : TR) (ht : t.ok) (d : Date) : (hourOf ⟨d, secsOf t⟩ : Int) = t.hour := by
  obtain ⟨a1, a2, a3, a4, a5, a6, a7⟩ := ht
  have m := floor0_bounds t.minute a3 a4
  have s := floor0_bounds t.second a5 a6
  unfold hourOf secsOf
  rw [floor0_nonneg _ a1]
  simp only
  omega

/-- **从下午三点到五点, for every reference and every pair of clock times**: with `r' = adjustRight l r` (the rule above), the
begin is the left clock time on the reference's day, the end is the right clock time on the same day — or on the NEXT day
exactly when its hour is below the begin's hour (only the hours are compared); future = past; the TIMEX is
`(build_timex left, build_timex right, build_span)`. -/
theorem zh_time_period_values (R : DateTime) (hv : R.date.valid = true) (hmax : R.date.ord < maxOrd) (l r : TR)
    (hl : l.ok) (hr : (adjustRight l r).ok) :
    ∃ e : DateTime,
      parseTimePeriod l r R =
        .ok (triple (buildTimex l) (buildTimex (adjustRight l r)) (buildSpan l (adjustRight l r))) ⟨R.date, secsOf l⟩ e ⟨R.date, secsOf l⟩ e ∧
      e.secs = secsOf (adjustRight l r) ∧ e.date.valid = true ∧
      e.date.ord = R.date.ord + (if (adjustRight l r).hour < l.hour then 1 else 0) := by
  have hb1 := buildDate_ok l hl R hv
  have hb2 := buildDate_ok _ hr R hv
  have h1 := hourOf_secsOf l hl R.date
  have h2 := hourOf_secsOf _ hr R.date
  unfold parseTimePeriod
  simp only [hb1, hb2]
  by_cases c : (adjustRight l r).hour < l.hour
  · have c' : hourOf ⟨R.date, secsOf (adjustRight l r)⟩ < hourOf ⟨R.date, secsOf l⟩ := by omega
    rw [if_pos c', if_pos c]
    have rr := ord_range R.date hv
    obtain ⟨x, hx⟩ := addDays_isSome ⟨R.date, secsOf (adjustRight l r)⟩ 1 (by simp only; omega) (by simp only; omega)
    have sp := addDays_spec ⟨R.date, secsOf (adjustRight l r)⟩ hv 1 x hx
    refine ⟨x, by rw [hx], sp.2.2, sp.1, ?_⟩
    have := sp.2.1; simp only at this; omega
  · have c' : ¬ hourOf ⟨R.date, secsOf (adjustRight l r)⟩ < hourOf ⟨R.date, secsOf l⟩ := by omega
    rw [if_neg c', if_neg c]
    exact ⟨_, rfl, rfl, hv, by simp⟩

/-- **the TIMEX of a time range is a consistent triple** whenever the two clock times differ: both points are definite
clock times equal to the resolved start / end (as `format_time` prints them) and the `PT…` text reads as the distance from
begin to end modulo one day — for every pair of admissible `TimeResult`s. -/
theorem zh_time_period_triple_ok (l r : TR) (hl : l.ok) (hr : r.ok) (hne : secsOf l ≠ secsOf r) :
    tripleOK (triple (buildTimex l) (buildTimex r) (buildSpan l r)) (some (fmtSecs (secsOf l))) (some (fmtSecs (secsOf r))) = true :=
  time_triple_ok l r hl hr hne

/-- `build_span` is `luis_time_span` of the distance from begin to end modulo one day -/
theorem zh_build_span_is_time_span (l r : TR) (hl : l.ok) (hr : r.ok) : buildSpan l r = luisTimeSpan (spanSecs l r) :=
  buildSpan_eq l r hl hr

/-- **finding `zh-timeperiod-empty-span`**: when the two ends resolve to the same clock time the duration is the bare `PT`
(no component), which is not a duration; `tripleOK` rejects the triple — for every such pair. -/
theorem zh_time_period_same_time_rejected (l r : TR) (hl : l.ok) (hr : r.ok) (he : secsOf l = secsOf r) :
    buildSpan l r = [80, 84] ∧
    tripleOK (triple (buildTimex l) (buildTimex r) (buildSpan l r)) (some (fmtSecs (secsOf l))) (some (fmtSecs (secsOf r))) = false :=
  time_triple_empty l r hl hr he

/-- Witness (replayed on the implementation): 下午1点到13点 — left 1 with 下午 (bound 12) → 13, right 13 without description →
`(T13,T13,PT)`. -/
theorem zh_empty_span_witness :
    parseTimePeriod (parsedTime 1 (-1) (-1) (some (some 12))) (parsedTime 13 (-1) (-1) none) ⟨⟨2020, 1, 31⟩, 52200⟩ =
      .ok (Py.ofString "(T13,T13,PT)") ⟨⟨2020, 1, 31⟩, 46800⟩ ⟨⟨2020, 1, 31⟩, 46800⟩ ⟨⟨2020, 1, 31⟩, 46800⟩ ⟨⟨2020, 1, 31⟩, 46800⟩ ∧
    tripleOK (Py.ofString "(T13,T13,PT)") (some (Py.ofString "13:00:00")) (some (Py.ofString "13:00:00")) = false := by
  constructor <;> decide +kernel

/-- **finding `zh-timeperiod-short-left-last-char`**: `get_short_left` hands `match_to_value` the LAST character of the left
end only. Witness: 10到12:30 — the hour read is `0` (of `10`), no description → `(T00,T12:30,PT12H30M)`, begin 00:00; and
十一到十二点 reads `一` = 1. The stated begin is 10:00 / 11:00. -/
theorem zh_short_left_last_char_witness :
    parseTimePeriod (getShortLeft 0 none) (parsedTime 12 30 (-1) none) ⟨⟨2020, 1, 31⟩, 52200⟩ =
      .ok (Py.ofString "(T00,T12:30,PT12H30M)") ⟨⟨2020, 1, 31⟩, 0⟩ ⟨⟨2020, 1, 31⟩, 45000⟩ ⟨⟨2020, 1, 31⟩, 0⟩ ⟨⟨2020, 1, 31⟩, 45000⟩ ∧
    parseTimePeriod (getShortLeft 1 none) (parsedTime 12 (-1) (-1) none) ⟨⟨2020, 1, 31⟩, 52200⟩ =
      .ok (Py.ofString "(T01,T12,PT11H)") ⟨⟨2020, 1, 31⟩, 3600⟩ ⟨⟨2020, 1, 31⟩, 43200⟩ ⟨⟨2020, 1, 31⟩, 3600⟩ ⟨⟨2020, 1, 31⟩, 43200⟩ := by
  constructor <;> decide +kernel

example : parseTimePeriod (parsedTime 3 (-1) (-1) (some (some 12))) (parsedTime 5 (-1) (-1) none) ⟨⟨2020, 1, 31⟩, 52200⟩ =
    .ok (Py.ofString "(T15,T17,PT2H)") ⟨⟨2020, 1, 31⟩, 54000⟩ ⟨⟨2020, 1, 31⟩, 61200⟩ ⟨⟨2020, 1, 31⟩, 54000⟩ ⟨⟨2020, 1, 31⟩, 61200⟩ := by
  decide +kernel
example : parseTimePeriod (parsedTime 9 (-1) (-1) (some none)) (parsedTime 11 30 (-1) none) ⟨⟨2020, 1, 31⟩, 0⟩ =
    .ok (Py.ofString "(T09,T11:30,PT2H30M)") ⟨⟨2020, 1, 31⟩, 32400⟩ ⟨⟨2020, 1, 31⟩, 41400⟩ ⟨⟨2020, 1, 31⟩, 32400⟩ ⟨⟨2020, 1, 31⟩, 41400⟩ := by
  decide +kernel
/-- 晚上9点到早上5点: the end is on the next day -/
example : parseTimePeriod (parsedTime 9 (-1) (-1) (some (some 18))) (parsedTime 5 (-1) (-1) (some none)) ⟨⟨2020, 12, 31⟩, 0⟩ =
    .ok (Py.ofString "(T21,T05,PT8H)") ⟨⟨2020, 12, 31⟩, 75600⟩ ⟨⟨2021, 1, 1⟩, 18000⟩ ⟨⟨2020, 12, 31⟩, 75600⟩ ⟨⟨2021, 1, 1⟩, 18000⟩ := by
  decide +kernel
/-- 晚上11点到1点: the bare right hour 1 is at most the bound 18, so it becomes 13 — the next day's 13:00, fourteen hours on -/
example : parseTimePeriod (parsedTime 11 (-1) (-1) (some (some 18))) (parsedTime 1 (-1) (-1) none) ⟨⟨2020, 1, 31⟩, 0⟩ =
    .ok (Py.ofString "(T23,T13,PT14H)") ⟨⟨2020, 1, 31⟩, 82800⟩ ⟨⟨2020, 2, 1⟩, 46800⟩ ⟨⟨2020, 1, 31⟩, 82800⟩ ⟨⟨2020, 2, 1⟩, 46800⟩ := by
  decide +kernel

/-! ## the part-of-day words of the time-period parser -/

/-- every row of `TimexUtil.parse_time_of_day` the Chinese parser can reach: begin < end, inside one day -/
theorem zh_time_of_day_rows : ∀ tod : Tod6,
    tod.range.beginHour < 24 ∧ tod.range.endHour < 24 ∧ tod.range.endMin < 60 ∧
    tod.range.beginHour * 3600 < tod.range.endHour * 3600 + tod.range.endMin * 60 ∧
    tod.range.endHour * 3600 + tod.range.endMin * 60 < 86400 := by
  intro tod; cases tod <;> decide

/-- the table: 上午 08–12 (TMO), 中午 11–13 (TMI), 下午 12–16 (TAF), 晚上 16–20 (TEV), 白天 08–18 (TDT), 深夜 20–23:59 (TNI) -/
theorem zh_time_of_day_table :
    Tod6.morning.range = ⟨Py.ofString "TMO", 8, 12, 0⟩ ∧ Tod6.midDay.range = ⟨Py.ofString "TMI", 11, 13, 0⟩ ∧
    Tod6.afternoon.range = ⟨Py.ofString "TAF", 12, 16, 0⟩ ∧ Tod6.evening.range = ⟨Py.ofString "TEV", 16, 20, 0⟩ ∧
    Tod6.daytime.range = ⟨Py.ofString "TDT", 8, 18, 0⟩ ∧ Tod6.night.range = ⟨Py.ofString "TNI", 20, 23, 59⟩ := by decide

/-- a part-of-day word, for every reference: `[begin_hour:00:00, end_hour:end_min:00]` on the reference's day, future = past,
TIMEX = the code -/
theorem zh_time_of_day_values (s : Str) (tod : Tod6) (h : todOfText s = some tod) (R : DateTime) (hv : R.date.valid = true) :
    timeOfDay s R = .ok tod.range.timeStr ⟨R.date, tod.range.beginHour * 3600⟩ ⟨R.date, tod.range.endHour * 3600 + tod.range.endMin * 60⟩
      ⟨R.date, tod.range.beginHour * 3600⟩ ⟨R.date, tod.range.endHour * 3600 + tod.range.endMin * 60⟩ := by
  have rows := zh_time_of_day_rows tod
  unfold timeOfDay
  simp only [h]
  rw [withTime_ok R.date hv _ _ _ rows.1 (by omega), withTime_ok R.date hv _ _ _ rows.2.1 rows.2.2.1]
  simp

/-- the words: 上午 早上 早 清晨 早间 → morning; 中午 正午 → mid-day; 下午 午后 → afternoon; 晚上 晚 夜里 夜晚 傍晚 → evening; 白天 日间 →
daytime; 深夜 → night. 凌晨 / 半夜 / 夜间 (alternatives of `TimeOfDayRegex`, which the extractor does take) are in NO list:
`parse` then reads `extra.named_entity['left']` and raises KeyError (the entity is lost). -/
theorem zh_time_of_day_words :
    (∀ w ∈ [[19978, 21320], [26089, 19978], [26089], [28165, 26216], [26089, 38388]], todOfText w = some .morning) ∧
    (∀ w ∈ [[20013, 21320], [27491, 21320]], todOfText w = some .midDay) ∧
    (∀ w ∈ [[19979, 21320], [21320, 21518]], todOfText w = some .afternoon) ∧
    (∀ w ∈ [[26202, 19978], [26202], [22812, 37324], [22812, 26202], [20621, 26202]], todOfText w = some .evening) ∧
    (∀ w ∈ [[30333, 22825], [26085, 38388]], todOfText w = some .daytime) ∧
    todOfText [28145, 22812] = some .night ∧
    (∀ w ∈ [[20940, 26216], [21322, 22812], [22812, 38388]], todOfText w = none ∧ tpParse w none ⟨⟨2020, 1, 31⟩, 0⟩ = .raises) := by
  decide

end RTV.ZhTP
