import RTV.Lemmas.ZhTimePeriod
import RTV.Props.C10DtPeriod
import RTV.Props.C11Holiday
/-!
# C10 / C11 / C07 for the remaining Chinese parsers — time ranges, date-time ranges, sets, holidays

The Chinese configuration does not run the Base parsers for these expressions: `chinese/timeperiod_parser.py`,
`datetimeperiod_parser.py`, `set_parser.py`, `holiday_parser.py` re-implement them. `RTV.Model.ZhTimePeriod` mirrors that
code (tied to the real parser objects by `harness/lib/zhcorr2.py`); here, for **every** reference, every admissible hour /
minute / second and every day description:

* the am/pm rules the code applies, stated exactly (`zh_add_description_rule`, `zh_right_end_rule` and its corollaries);
* a time range 从下午三点到五点: begin / end are the two clock times after those rules on the reference's day, the end rolled to
  the next day exactly when its hour is below the begin's (`zh_time_period_values`); the TIMEX `(T…,T…,PT…)` is a consistent
  triple whenever the two clock times differ (`zh_time_period_triple_ok`) — and the bare `PT` when they coincide
  (`zh_empty_span_witness`, finding `zh-timeperiod-empty-span`);
* part-of-day tables row by row: begin < end ≤ 24 h (`zh_time_of_day_rows`, `zh_pod_rows`, `zh_night_table`);
* 明天下午三点到五点: both ends on the date's day, consistent triple when the clock times are in order
  (`zh_merge_date_period_ok`); a range across midnight is pasted onto ONE date (`zh_cross_midnight_witness`, finding
  `zh-dtperiod-cross-midnight`); the side without a date of 明天下午2点,5点 is put on the REFERENCE's day
  (`zh_merge_points_reference_day_witness`);
* 前N小时 / 未来N分钟 = `[R − N·unit, R]` / `[R, R + N·unit]` with a consistent `PT` triple for every R and N
  (`zh_past_n_units`, `zh_future_n_units`);
* set TIMEXes (`zh_set_unit_forms`, `zh_set_first_success`);
* holidays: every fixed-date function returns that month / day in every year 1..9999, 母亲节 / 父亲节 / 感恩节 the stated
  k-th weekday for every year (`zh_fixed_holidays_every_year`, `zh_variable_holidays_every_year` — by theorem, no year
  enumeration), a holiday with a year is the definite date of THE YEAR THE CODE READ (`zh_holiday_with_year_definite`) —
  and the year reading is wrong (`zh_holiday_year_truncated_witness`, `zh_holiday_cjk_year_witness`; the repaired reading
  `holidayYearFixed` is specified by `zh_holiday_year_fixed_spec`).
-/
namespace RTV.ZhTP
open RTV.Cal RTV.DateUtils RTV.WF RTV.Periods RTV.DtPeriod
set_option linter.unusedVariables false
set_option linter.unusedSimpArgs false

/-! ## the am/pm rules, exactly -/

/-- `add_description`: with a low bound `b` for the description (`TimeLowBoundDesc`: 中午 11, 下午 / 午后 12, 晚上 / 夜里 / … 18)
an hour BELOW the bound gets +12 and the bound is remembered; in every other case (hour at or above the bound, a description
without a bound such as 上午 / 早上 / 凌晨) the hour stays and the low bound becomes 0. Minute and second are never touched. -/
theorem zh_add_description_rule (lb : Option Int) (t : TR) :
    (addDescription lb t).minute = t.minute ∧ (addDescription lb t).second = t.second ∧
    (∀ b, lb = some b → t.hour < b → (addDescription lb t).hour = t.hour + 12 ∧ (addDescription lb t).lowBound = b) ∧
    (∀ b, lb = some b → b ≤ t.hour → (addDescription lb t).hour = t.hour ∧ (addDescription lb t).lowBound = 0) ∧
    (lb = none → (addDescription lb t).hour = t.hour ∧ (addDescription lb t).lowBound = 0) := by
  cases lb with
  | none => simp [addDescription]
  | some b =>
    by_cases c : t.hour < b
    · simp [addDescription, c] <;> omega
    · simp [addDescription, c] <;> omega

/-- the inference across the two ends of a range ("the right side doesn't contain desc while the left side does"): the
right hour gets +12 exactly when the right end has NO description (`low_bound = −1`), the left end HAS one, and the right
hour is at most the left end's low bound; nothing else of the right end changes, the left end never changes. -/
theorem zh_right_end_rule (l r : TR) :
    (adjustRight l r).minute = r.minute ∧ (adjustRight l r).second = r.second ∧ (adjustRight l r).lowBound = r.lowBound ∧
    ((r.lowBound = -1 ∧ l.lowBound ≠ -1 ∧ r.hour ≤ l.lowBound) → (adjustRight l r).hour = r.hour + 12) ∧
    (¬(r.lowBound = -1 ∧ l.lowBound ≠ -1 ∧ r.hour ≤ l.lowBound) → adjustRight l r = r) := by
  unfold adjustRight
  by_cases c : r.lowBound = -1 ∧ l.lowBound ≠ -1 ∧ r.hour ≤ l.lowBound
  · simp [c]
  · simp [c]

/-- 下午三点到五点 / 晚上八点到十点: a left hour below its description's bound `b` and a bare right hour `k ≤ b` — BOTH ends get
+12. -/
theorem zh_described_left_bare_right (b h k lm ls rm rs : Int) (hb : h < b) (hk : k ≤ b) (hb1 : b ≠ -1) :
    (parsedTime h lm ls (some (some b))).hour = h + 12 ∧
    (adjustRight (parsedTime h lm ls (some (some b))) (parsedTime k rm rs none)).hour = k + 12 := by
  simp [parsedTime, addDescription, adjustRight, hb, hk, hb1]

/-- both ends described, or the left end bare: no inference — each end is read on its own -/
theorem zh_no_inference (l r : TR) (h : r.lowBound ≠ -1 ∨ l.lowBound = -1) : adjustRight l r = r := by
  unfold adjustRight
  rcases h with h | h <;> simp [h]

/-- a description without a bound on the left (上午九点到十一点, 早上8点到10点): `low_bound` is 0, so only a right hour 0 would be
shifted; hours 1..23 stay -/
theorem zh_morning_left_keeps_right (h k lm ls rm rs : Int) (hk : 0 < k) :
    adjustRight (parsedTime h lm ls (some none)) (parsedTime k rm rs none) = parsedTime k rm rs none := by
  simp [parsedTime, addDescription, adjustRight]; omega

/-! ## a time range: values and TIMEX -/

theorem buildDate_ok (t : TR) (ht : t.ok) (R : DateTime) (hv : R.date.valid = true) : buildDate t R = some ⟨R.date, secsOf t⟩ := by
  obtain ⟨a1, a2, a3, a4, a5, a6, a7⟩ := ht
  have m := floor0_bounds t.minute a3 a4
  have s := floor0_bounds t.second a5 a6
  unfold buildDate secsOf
  rw [floor0_nonneg _ a1]
  simp [hv, a2, m.2, s.2]

theorem hourOf_secsOf (t : TR) (ht : t.ok) (d : Date) : (hourOf ⟨d, secsOf t⟩ : Int) = t.hour := by
  obtain ⟨a1, a2, a3, a4, a5, a6, a7⟩ := ht
  have m := floor0_bounds t.minute a3 a4
  have s := floor0_bounds t.second a5 a6
  unfold hourOf secsOf
  rw [floor0_nonneg _ a1]
  simp only
  omega

/-- **从下午三点到五点, for every reference and every pair of clock times**: with `r' = adjustRight l r` (the rule above), the
begin is the left clock time on the reference's day, the end is the right clock time on the same day — or on the NEXT day
exactly when its hour is below the begin's hour (only the hours are compared); future = past; the TIMEX is
`(build_timex left, build_timex right, build_span)`. -/
theorem zh_time_period_values (R : DateTime) (hv : R.date.valid = true) (hmax : R.date.ord < maxOrd) (l r : TR)
    (hl : l.ok) (hr : (adjustRight l r).ok) :
    ∃ e : DateTime,
      parseTimePeriod l r R =
        .ok (triple (buildTimex l) (buildTimex (adjustRight l r)) (buildSpan l (adjustRight l r))) ⟨R.date, secsOf l⟩ e ⟨R.date, secsOf l⟩ e ∧
      e.secs = secsOf (adjustRight l r) ∧ e.date.valid = true ∧
      e.date.ord = R.date.ord + (if (adjustRight l r).hour < l.hour then 1 else 0) := by
  have hb1 := buildDate_ok l hl R hv
  have hb2 := buildDate_ok _ hr R hv
  have h1 := hourOf_secsOf l hl R.date
  have h2 := hourOf_secsOf _ hr R.date
  unfold parseTimePeriod
  simp only [hb1, hb2]
  by_cases c : (adjustRight l r).hour < l.hour
  · have c' : hourOf ⟨R.date, secsOf (adjustRight l r)⟩ < hourOf ⟨R.date, secsOf l⟩ := by omega
    rw [if_pos c', if_pos c]
    have rr := ord_range R.date hv
    obtain ⟨x, hx⟩ := addDays_isSome ⟨R.date, secsOf (adjustRight l r)⟩ 1 (by simp only; omega) (by simp only; omega)
    have sp := addDays_spec ⟨R.date, secsOf (adjustRight l r)⟩ hv 1 x hx
    refine ⟨x, by rw [hx], sp.2.2, sp.1, ?_⟩
    have := sp.2.1; simp only at this; omega
  · have c' : ¬ hourOf ⟨R.date, secsOf (adjustRight l r)⟩ < hourOf ⟨R.date, secsOf l⟩ := by omega
    rw [if_neg c', if_neg c]
    exact ⟨_, rfl, rfl, hv, by simp⟩

/-- **the TIMEX of a time range is a consistent triple** whenever the two clock times differ: both points are definite
clock times equal to the resolved start / end (as `format_time` prints them) and the `PT…` text reads as the distance from
begin to end modulo one day — for every pair of admissible `TimeResult`s. -/
theorem zh_time_period_triple_ok (l r : TR) (hl : l.ok) (hr : r.ok) (hne : secsOf l ≠ secsOf r) :
    tripleOK (triple (buildTimex l) (buildTimex r) (buildSpan l r)) (some (fmtSecs (secsOf l))) (some (fmtSecs (secsOf r))) = true :=
  time_triple_ok l r hl hr hne

/-- `build_span` is `luis_time_span` of the distance from begin to end modulo one day -/
theorem zh_build_span_is_time_span (l r : TR) (hl : l.ok) (hr : r.ok) : buildSpan l r = luisTimeSpan (spanSecs l r) :=
  buildSpan_eq l r hl hr

/-- **finding `zh-timeperiod-empty-span`**: when the two ends resolve to the same clock time the duration is the bare `PT`
(no component), which is not a duration; `tripleOK` rejects the triple — for every such pair. -/
theorem zh_time_period_same_time_rejected (l r : TR) (hl : l.ok) (hr : r.ok) (he : secsOf l = secsOf r) :
    buildSpan l r = [80, 84] ∧
    tripleOK (triple (buildTimex l) (buildTimex r) (buildSpan l r)) (some (fmtSecs (secsOf l))) (some (fmtSecs (secsOf r))) = false :=
  time_triple_empty l r hl hr he

/-- Witness (replayed on the implementation): 下午1点到13点 — left 1 with 下午 (bound 12) → 13, right 13 without description →
`(T13,T13,PT)`. -/
theorem zh_empty_span_witness :
    parseTimePeriod (parsedTime 1 (-1) (-1) (some (some 12))) (parsedTime 13 (-1) (-1) none) ⟨⟨2020, 1, 31⟩, 52200⟩ =
      .ok (Py.ofString "(T13,T13,PT)") ⟨⟨2020, 1, 31⟩, 46800⟩ ⟨⟨2020, 1, 31⟩, 46800⟩ ⟨⟨2020, 1, 31⟩, 46800⟩ ⟨⟨2020, 1, 31⟩, 46800⟩ ∧
    tripleOK (Py.ofString "(T13,T13,PT)") (some (Py.ofString "13:00:00")) (some (Py.ofString "13:00:00")) = false := by
  constructor <;> decide +kernel

/-- **finding `zh-timeperiod-short-left-last-char`**: `get_short_left` hands `match_to_value` the LAST character of the left
end only. Witness: 10到12:30 — the hour read is `0` (of `10`), no description → `(T00,T12:30,PT12H30M)`, begin 00:00; and
十一到十二点 reads `一` = 1. The stated begin is 10:00 / 11:00. -/
theorem zh_short_left_last_char_witness :
    parseTimePeriod (getShortLeft 0 none) (parsedTime 12 30 (-1) none) ⟨⟨2020, 1, 31⟩, 52200⟩ =
      .ok (Py.ofString "(T00,T12:30,PT12H30M)") ⟨⟨2020, 1, 31⟩, 0⟩ ⟨⟨2020, 1, 31⟩, 45000⟩ ⟨⟨2020, 1, 31⟩, 0⟩ ⟨⟨2020, 1, 31⟩, 45000⟩ ∧
    parseTimePeriod (getShortLeft 1 none) (parsedTime 12 (-1) (-1) none) ⟨⟨2020, 1, 31⟩, 52200⟩ =
      .ok (Py.ofString "(T01,T12,PT11H)") ⟨⟨2020, 1, 31⟩, 3600⟩ ⟨⟨2020, 1, 31⟩, 43200⟩ ⟨⟨2020, 1, 31⟩, 3600⟩ ⟨⟨2020, 1, 31⟩, 43200⟩ := by
  constructor <;> decide +kernel

example : parseTimePeriod (parsedTime 3 (-1) (-1) (some (some 12))) (parsedTime 5 (-1) (-1) none) ⟨⟨2020, 1, 31⟩, 52200⟩ =
    .ok (Py.ofString "(T15,T17,PT2H)") ⟨⟨2020, 1, 31⟩, 54000⟩ ⟨⟨2020, 1, 31⟩, 61200⟩ ⟨⟨2020, 1, 31⟩, 54000⟩ ⟨⟨2020, 1, 31⟩, 61200⟩ := by
  decide +kernel
example : parseTimePeriod (parsedTime 9 (-1) (-1) (some none)) (parsedTime 11 30 (-1) none) ⟨⟨2020, 1, 31⟩, 0⟩ =
    .ok (Py.ofString "(T09,T11:30,PT2H30M)") ⟨⟨2020, 1, 31⟩, 32400⟩ ⟨⟨2020, 1, 31⟩, 41400⟩ ⟨⟨2020, 1, 31⟩, 32400⟩ ⟨⟨2020, 1, 31⟩, 41400⟩ := by
  decide +kernel
/-- 晚上9点到早上5点: the end is on the next day -/
example : parseTimePeriod (parsedTime 9 (-1) (-1) (some (some 18))) (parsedTime 5 (-1) (-1) (some none)) ⟨⟨2020, 12, 31⟩, 0⟩ =
    .ok (Py.ofString "(T21,T05,PT8H)") ⟨⟨2020, 12, 31⟩, 75600⟩ ⟨⟨2021, 1, 1⟩, 18000⟩ ⟨⟨2020, 12, 31⟩, 75600⟩ ⟨⟨2021, 1, 1⟩, 18000⟩ := by
  decide +kernel
/-- 晚上11点到1点: the bare right hour 1 is at most the bound 18, so it becomes 13 — the next day's 13:00, fourteen hours on -/
example : parseTimePeriod (parsedTime 11 (-1) (-1) (some (some 18))) (parsedTime 1 (-1) (-1) none) ⟨⟨2020, 1, 31⟩, 0⟩ =
    .ok (Py.ofString "(T23,T13,PT14H)") ⟨⟨2020, 1, 31⟩, 82800⟩ ⟨⟨2020, 2, 1⟩, 46800⟩ ⟨⟨2020, 1, 31⟩, 82800⟩ ⟨⟨2020, 2, 1⟩, 46800⟩ := by
  decide +kernel

/-! ## the part-of-day words of the time-period parser -/

/-- every row of `TimexUtil.parse_time_of_day` the Chinese parser can reach: begin < end, inside one day -/
theorem zh_time_of_day_rows : ∀ tod : Tod6,
    tod.range.beginHour < 24 ∧ tod.range.endHour < 24 ∧ tod.range.endMin < 60 ∧
    tod.range.beginHour * 3600 < tod.range.endHour * 3600 + tod.range.endMin * 60 ∧
    tod.range.endHour * 3600 + tod.range.endMin * 60 < 86400 := by
  intro tod; cases tod <;> decide

/-- the table: 上午 08–12 (TMO), 中午 11–13 (TMI), 下午 12–16 (TAF), 晚上 16–20 (TEV), 白天 08–18 (TDT), 深夜 20–23:59 (TNI) -/
theorem zh_time_of_day_table :
    Tod6.morning.range = ⟨Py.ofString "TMO", 8, 12, 0⟩ ∧ Tod6.midDay.range = ⟨Py.ofString "TMI", 11, 13, 0⟩ ∧
    Tod6.afternoon.range = ⟨Py.ofString "TAF", 12, 16, 0⟩ ∧ Tod6.evening.range = ⟨Py.ofString "TEV", 16, 20, 0⟩ ∧
    Tod6.daytime.range = ⟨Py.ofString "TDT", 8, 18, 0⟩ ∧ Tod6.night.range = ⟨Py.ofString "TNI", 20, 23, 59⟩ := by decide

/-- a part-of-day word, for every reference: `[begin_hour:00:00, end_hour:end_min:00]` on the reference's day, future = past,
TIMEX = the code -/
theorem zh_time_of_day_values (s : Str) (tod : Tod6) (h : todOfText s = some tod) (R : DateTime) (hv : R.date.valid = true) :
    timeOfDay s R = .ok tod.range.timeStr ⟨R.date, tod.range.beginHour * 3600⟩ ⟨R.date, tod.range.endHour * 3600 + tod.range.endMin * 60⟩
      ⟨R.date, tod.range.beginHour * 3600⟩ ⟨R.date, tod.range.endHour * 3600 + tod.range.endMin * 60⟩ := by
  have rows := zh_time_of_day_rows tod
  unfold timeOfDay
  simp only [h]
  rw [withTime_ok R.date hv _ _ _ rows.1 (by omega), withTime_ok R.date hv _ _ _ rows.2.1 rows.2.2.1]
  simp

/-- the words: 上午 早上 早 清晨 早间 → morning; 中午 正午 → mid-day; 下午 午后 → afternoon; 晚上 晚 夜里 夜晚 傍晚 → evening; 白天 日间 →
daytime; 深夜 → night. 凌晨 / 半夜 / 夜间 (alternatives of `TimeOfDayRegex`, which the extractor does take) are in NO list:
`parse` then reads `extra.named_entity['left']` and raises KeyError (the entity is lost). -/
theorem zh_time_of_day_words :
    (∀ w ∈ [[19978, 21320], [26089, 19978], [26089], [28165, 26216], [26089, 38388]], todOfText w = some .morning) ∧
    (∀ w ∈ [[20013, 21320], [27491, 21320]], todOfText w = some .midDay) ∧
    (∀ w ∈ [[19979, 21320], [21320, 21518]], todOfText w = some .afternoon) ∧
    (∀ w ∈ [[26202, 19978], [26202], [22812, 37324], [22812, 26202], [20621, 26202]], todOfText w = some .evening) ∧
    (∀ w ∈ [[30333, 22825], [26085, 38388]], todOfText w = some .daytime) ∧
    todOfText [28145, 22812] = some .night ∧
    (∀ w ∈ [[20940, 26216], [21322, 22812], [22812, 38388]], todOfText w = none ∧ tpParse w none ⟨⟨2020, 1, 31⟩, 0⟩ = .raises) := by
  decide

/-! ## 明天下午三点到五点: a time range on a date (`merge_date_and_time_periods`) -/

/-- the general shape, for any date TIMEX (also `XXXX-05-01`) and any pair of clock times: the date's TIMEX goes in front of
both points, the duration is copied unchanged, and BOTH ends are put on the date's day — also when the end's clock time is
not after the begin's. -/
theorem zh_merge_date_period_shape (fd pd bt et : DateTime) (dx : Str) (l r : TR) (hl : l.ok) (hr : r.ok) :
    ∃ ta tb rest, buildTimex l = 84 :: ta ∧ buildTimex r = 84 :: tb ∧ buildSpan l r = 80 :: 84 :: rest ∧
      mergeDateAndTimePeriods fd pd dx (triple (buildTimex l) (buildTimex r) (buildSpan l r)) bt et =
        .ok (triple (dx ++ buildTimex l) (dx ++ buildTimex r) (buildSpan l r))
          (withTime fd.date (hourOf bt) (minuteOf bt) (secondOf bt)) (withTime fd.date (hourOf et) (minuteOf et) (secondOf et))
          (withTime pd.date (hourOf bt) (minuteOf bt) (secondOf bt)) (withTime pd.date (hourOf et) (minuteOf et) (secondOf et)) := by
  obtain ⟨ta, f1, e1, _, _, _, _, n1⟩ := buildTimex_shape l hl
  obtain ⟨tb, f2, e2, _, _, _, _, n2⟩ := buildTimex_shape r hr
  have e3 : buildSpan l r = 80 :: 84 :: (luisTimeSpan (spanSecs l r)).drop 2 := by
    rw [buildSpan_eq l r hl hr]; simp [luisTimeSpan]
  refine ⟨ta, tb, _, e1, e2, e3, ?_⟩
  rw [e1, e2, e3]
  exact mergeDTP_shape fd pd bt et dx ta tb _ n1 n2 (luisTimeSpan_rest_no_T _)

/-- **明天下午三点到五点, for every date and every pair of clock times in order**: on a definite date `d` (TIMEX = `format_date d`,
future = past = `d`) with begin clock time < end clock time, the result is `[d begin, d end]` (future = past) and the TIMEX
`(dTbegin,dTend,PT…)` is a consistent triple for those values. -/
theorem zh_merge_date_period_ok (d : Date) (hv : d.valid = true) (l r : TR) (hl : l.ok) (hr : r.ok) (hlt : secsOf l < secsOf r)
    (fd pd bt et : DateTime) (hfd : fd.date = d) (hpd : pd.date = d) (hbt : bt.secs = secsOf l) (het : et.secs = secsOf r) :
    mergeDateAndTimePeriods fd pd (formatDate d) (triple (buildTimex l) (buildTimex r) (buildSpan l r)) bt et =
      .ok (triple (formatDate d ++ buildTimex l) (formatDate d ++ buildTimex r) (buildSpan l r))
        ⟨d, secsOf l⟩ ⟨d, secsOf r⟩ ⟨d, secsOf l⟩ ⟨d, secsOf r⟩ ∧
    tripleOK (triple (formatDate d ++ buildTimex l) (formatDate d ++ buildTimex r) (buildSpan l r))
      (some (fmtDT ⟨d, secsOf l⟩)) (some (fmtDT ⟨d, secsOf r⟩)) = true := by
  have ll := secsOf_lt l hl
  have lr := secsOf_lt r hr
  obtain ⟨ta, tb, rest, e1, e2, e3, hm⟩ := zh_merge_date_period_shape fd pd bt et (formatDate d) l r hl hr
  have wb : withTime d (hourOf bt) (minuteOf bt) (secondOf bt) = ⟨d, secsOf l⟩ := by
    rw [withTime_of d hv bt (by omega), hbt]
  have we : withTime d (hourOf et) (minuteOf et) (secondOf et) = ⟨d, secsOf r⟩ := by
    rw [withTime_of d hv et (by omega), het]
  refine ⟨by rw [hm, hfd, hpd, wb, we], ?_⟩
  obtain ⟨ta', f1, e1', t1, p1, l1, c1, _⟩ := buildTimex_shape l hl
  obtain ⟨tb', f2, e2', t2, p2, l2, c2, _⟩ := buildTimex_shape r hr
  have hs : spanSecs l r = secsOf r - secsOf l := by unfold spanSecs; omega
  rw [buildSpan_eq l r hl hr, hs, e1', e2']
  exact date_period_ok d hv ta' tb' f1 f2 (secsOf l) (secsOf r) lr t1 p1 l1 c1 t2 p2 l2 c2 hlt

/-- **finding `zh-dtperiod-cross-midnight`** (witness, replayed on the implementation): 今天晚上8点到凌晨2点 asked on 2020-01-31 —
the time range is `(T20,T02,PT6H)`, 20:00 to 02:00 of the NEXT day; pasted onto the one date it becomes
`(2020-01-31T20,2020-01-31T02,PT6H)` with the end 18 hours BEFORE the begin; `tripleOK` rejects it. -/
theorem zh_cross_midnight_witness :
    mergeDateAndTimePeriods ⟨⟨2020, 1, 31⟩, 0⟩ ⟨⟨2020, 1, 31⟩, 0⟩ (Py.ofString "2020-01-31") (Py.ofString "(T20,T02,PT6H)")
        ⟨⟨2020, 1, 31⟩, 72000⟩ ⟨⟨2020, 2, 1⟩, 7200⟩ =
      .ok (Py.ofString "(2020-01-31T20,2020-01-31T02,PT6H)") ⟨⟨2020, 1, 31⟩, 72000⟩ ⟨⟨2020, 1, 31⟩, 7200⟩ ⟨⟨2020, 1, 31⟩, 72000⟩ ⟨⟨2020, 1, 31⟩, 7200⟩ ∧
    tripleOK (Py.ofString "(2020-01-31T20,2020-01-31T02,PT6H)") (some (Py.ofString "2020-01-31 20:00:00"))
      (some (Py.ofString "2020-01-31 02:00:00")) = false ∧
    tripleOK (Py.ofString "(2020-01-31T20,2020-02-01T02,PT6H)") (some (Py.ofString "2020-01-31 20:00:00"))
      (some (Py.ofString "2020-02-01 02:00:00")) = true := by
  refine ⟨?_, ?_, ?_⟩ <;> decide +kernel

/-- a part-of-day code (`TAF`: two pieces when split at `T`) is not a range TIMEX: no result from this function -/
example : mergeDateAndTimePeriods ⟨⟨2020, 2, 1⟩, 0⟩ ⟨⟨2020, 2, 1⟩, 0⟩ (Py.ofString "2020-02-01") (Py.ofString "TAF")
    ⟨⟨2020, 1, 31⟩, 43200⟩ ⟨⟨2020, 1, 31⟩, 57600⟩ = .noResult := by decide +kernel

/-! ### the repaired variants (findings/zhtp/*.diff; the harness probes which variant the tree follows) -/

/-- after the repair of `zh-timeperiod-empty-span` the TIMEX of a time range is a consistent triple for EVERY pair of
admissible clock times (equal ones included: `(T13,T13,PT0H)`), and unchanged wherever the code was right -/
theorem zh_time_period_fixed_triple_ok (l r : TR) (hl : l.ok) (hr : r.ok) :
    tripleOK (triple (buildTimex l) (buildTimex r) (if buildSpan l r = [80, 84] then [80, 84, 48, 72] else buildSpan l r))
      (some (fmtSecs (secsOf l))) (some (fmtSecs (secsOf r))) = true ∧
    (secsOf l ≠ secsOf r → (if buildSpan l r = [80, 84] then [80, 84, 48, 72] else buildSpan l r) = buildSpan l r) := by
  by_cases he : secsOf l = secsOf r
  · have e := (time_triple_empty l r hl hr he).1
    refine ⟨?_, fun h => absurd he h⟩
    rw [if_pos e]
    have pl := buildTimex_parse l hl
    have pr := buildTimex_parse r hr
    have pt : ptSeconds (([48, 72] : Str).length + 4) [48, 72] = some (0, 1) := by decide
    have key := tripleOK_PT (buildTimex l) (buildTimex r) [48, 72] _ _ (fmtSecs (secsOf l)) (fmtSecs (secsOf r))
      pl.2 pr.2 (by intro c hc; simp at hc; omega) pl.1 pr.1 rfl rfl 0 pt (by simp)
      (by unfold diffSeconds; simp only; rw [he]; simp)
    simpa [triple] using key
  · have ne : buildSpan l r ≠ [80, 84] := by
      rw [buildSpan_eq l r hl hr]
      have lt := spanSecs_lt l r
      have ll := secsOf_lt l hl
      have lr := secsOf_lt r hr
      have pos : 0 < spanSecs l r := by unfold spanSecs; omega
      intro h
      have := ptSeconds_luisTimeSpan (spanSecs l r) 0
      have h2 : (luisTimeSpan (spanSecs l r)).drop 2 = [] := by rw [h]; rfl
      rw [h2] at this
      simp [ptSeconds] at this
      omega
    rw [if_neg ne]
    exact ⟨time_triple_ok l r hl hr he, fun _ => rfl⟩

theorem zh_fixed_variants_examples :
    parseTimePeriodFixed (parsedTime 1 (-1) (-1) (some (some 12))) (parsedTime 13 (-1) (-1) none) ⟨⟨2020, 1, 31⟩, 52200⟩ =
      .ok (Py.ofString "(T13,T13,PT0H)") ⟨⟨2020, 1, 31⟩, 46800⟩ ⟨⟨2020, 1, 31⟩, 46800⟩ ⟨⟨2020, 1, 31⟩, 46800⟩ ⟨⟨2020, 1, 31⟩, 46800⟩ ∧
    parseTimePeriodFixed (parsedTime 3 (-1) (-1) (some (some 12))) (parsedTime 5 (-1) (-1) none) ⟨⟨2020, 1, 31⟩, 52200⟩ =
      parseTimePeriod (parsedTime 3 (-1) (-1) (some (some 12))) (parsedTime 5 (-1) (-1) none) ⟨⟨2020, 1, 31⟩, 52200⟩ ∧
    mergeDateAndTimePeriodsFixed ⟨⟨2020, 1, 31⟩, 0⟩ ⟨⟨2020, 1, 31⟩, 0⟩ (Py.ofString "2020-01-31") (Py.ofString "(T20,T02,PT6H)")
        ⟨⟨2020, 1, 31⟩, 72000⟩ ⟨⟨2020, 2, 1⟩, 7200⟩ =
      .ok (Py.ofString "(2020-01-31T20,2020-02-01T02,PT6H)") ⟨⟨2020, 1, 31⟩, 72000⟩ ⟨⟨2020, 2, 1⟩, 7200⟩ ⟨⟨2020, 1, 31⟩, 72000⟩ ⟨⟨2020, 2, 1⟩, 7200⟩ ∧
    mergeDateAndTimePeriodsFixed ⟨⟨2020, 2, 1⟩, 0⟩ ⟨⟨2020, 2, 1⟩, 0⟩ (Py.ofString "2020-02-01") (Py.ofString "(T15,T17,PT2H)")
        ⟨⟨2020, 1, 31⟩, 54000⟩ ⟨⟨2020, 1, 31⟩, 61200⟩ =
      mergeDateAndTimePeriods ⟨⟨2020, 2, 1⟩, 0⟩ ⟨⟨2020, 2, 1⟩, 0⟩ (Py.ofString "2020-02-01") (Py.ofString "(T15,T17,PT2H)")
        ⟨⟨2020, 1, 31⟩, 54000⟩ ⟨⟨2020, 1, 31⟩, 61200⟩ ∧
    mergeDateAndTimePeriodsFixed ⟨⟨2020, 5, 1⟩, 0⟩ ⟨⟨2019, 5, 1⟩, 0⟩ (Py.ofString "XXXX-05-01") (Py.ofString "(T20,T02,PT6H)")
        ⟨⟨2020, 1, 31⟩, 72000⟩ ⟨⟨2020, 2, 1⟩, 7200⟩ =
      .ok (Py.ofString "(XXXX-05-01T20,XXXX-05-01T02,PT6H)") ⟨⟨2020, 5, 1⟩, 72000⟩ ⟨⟨2020, 5, 1⟩, 7200⟩ ⟨⟨2019, 5, 1⟩, 72000⟩ ⟨⟨2019, 5, 1⟩, 7200⟩ ∧
    mergeDateAndTimePeriodsFixed ⟨⟨9999, 12, 31⟩, 0⟩ ⟨⟨9999, 12, 31⟩, 0⟩ (Py.ofString "9999-12-31") (Py.ofString "(T20,T02,PT6H)")
        ⟨⟨9999, 12, 31⟩, 72000⟩ ⟨⟨1, 1, 1⟩, 7200⟩ = .raises := by
  refine ⟨?_, ?_, ?_, ?_, ?_, ?_⟩ <;> decide +kernel

/-! ## two time points (`merge_two_time_points`) -/

/-- both points carry a date, in order: the values are the two points, the TIMEX is a consistent triple (the Base
statement `merge_both_ok`, for the Chinese code) -/
theorem zh_merge_points_both_ok (R : DateTime) (t1 t2 : Str) (b e : DateTime) (hb : proper b) (he : proper e) (lc ra : Bool)
    (hlt : val b < val e) :
    mergeTwoTimePoints R .both b b t1 lc e e t2 ra = .ok (triple t1 t2 (luisSpan b e)) b e b e := by
  have nlt : e.lt b = false := lt_false_of_val b e hb he (by omega)
  have nlt2 : (⟨e.date, e.secs⟩ : DateTime).lt ⟨b.date, b.secs⟩ = false := nlt
  unfold mergeTwoTimePoints midnightPlus
  simp [nlt, hb.1, he.1]

/-- **the side without a date is put on the REFERENCE's day** (the code's own TODO): 后天下午2点 5点 asked on 2020-01-31 — the begin
is 2020-02-02 14:00, the end 5 o'clock lands on 2020-01-31 (+12 h because it is ambiguous and lies before the begin, +1 day
because it still does): 2020-02-01 17:00, twenty-one hours BEFORE the begin, duration text `PT-21H`. (Not reached through
the merged extractor for plain 到-ranges — those carry one date and one time range and go through
`merge_date_and_time_periods` — hence a unit-level witness only.) -/
theorem zh_merge_points_reference_day_witness :
    mergeTwoTimePoints ⟨⟨2020, 1, 31⟩, 52200⟩ .beginHasDate ⟨⟨2020, 2, 2⟩, 50400⟩ ⟨⟨2020, 2, 2⟩, 50400⟩ (Py.ofString "2020-02-02T14") false
        ⟨⟨2020, 1, 31⟩, 18000⟩ ⟨⟨2020, 1, 31⟩, 18000⟩ (Py.ofString "T05") true =
      .ok (Py.ofString "(2020-02-02T14,2020-02-01T17,PT-21H)") ⟨⟨2020, 2, 2⟩, 50400⟩ ⟨⟨2020, 2, 1⟩, 61200⟩ ⟨⟨2020, 2, 2⟩, 50400⟩ ⟨⟨2020, 2, 1⟩, 61200⟩ := by
  decide +kernel

example : mergeTwoTimePoints ⟨⟨2020, 1, 31⟩, 52200⟩ .endHasDate ⟨⟨2020, 1, 31⟩, 50400⟩ ⟨⟨2020, 1, 31⟩, 50400⟩ (Py.ofString "T14") false
    ⟨⟨2020, 2, 1⟩, 18000⟩ ⟨⟨2020, 2, 1⟩, 18000⟩ (Py.ofString "2020-02-01T05") false =
    .ok (Py.ofString "(2020-01-31T14,2020-02-01T05,PT15H)") ⟨⟨2020, 1, 31⟩, 50400⟩ ⟨⟨2020, 2, 1⟩, 18000⟩ ⟨⟨2020, 1, 31⟩, 50400⟩ ⟨⟨2020, 2, 1⟩, 18000⟩ := by
  decide +kernel

/-! ## 今晚 / 明早 / 昨晚, 明天下午 (`parse_specific_time_of_day`) -/

/-- `get_matched_time_range`, row by row: 今晚 / 明晚 / 昨晚 = 16–20 (TEV) on the day 0 / +1 / −1; 今早 今晨 / 明早 明晨 = 08–12 (TMO)
on the day 0 / +1; any other word: none -/
theorem zh_night_table :
    nightRange [20170, 26202] = some (0, ⟨Py.ofString "TEV", 16, 20, 0⟩) ∧ nightRange [26126, 26202] = some (1, ⟨Py.ofString "TEV", 16, 20, 0⟩) ∧
    nightRange [26152, 26202] = some (-1, ⟨Py.ofString "TEV", 16, 20, 0⟩) ∧
    nightRange [20170, 26089] = some (0, ⟨Py.ofString "TMO", 8, 12, 0⟩) ∧ nightRange [20170, 26216] = some (0, ⟨Py.ofString "TMO", 8, 12, 0⟩) ∧
    nightRange [26126, 26089] = some (1, ⟨Py.ofString "TMO", 8, 12, 0⟩) ∧ nightRange [26126, 26216] = some (1, ⟨Py.ofString "TMO", 8, 12, 0⟩) ∧
    nightRange [26152, 26089] = none := by decide

theorem nightRange_rows (w : Str) (k : Int) (v : TimeRange) (h : nightRange w = some (k, v)) :
    (k = 0 ∨ k = 1 ∨ k = -1) ∧ ((v = ⟨[84, 69, 86], 16, 20, 0⟩) ∨ (v = ⟨[84, 77, 79], 8, 12, 0⟩)) := by
  unfold nightRange at h
  simp only at h
  repeat' split at h
  all_goals first
    | (simp only [Option.some.injEq, Prod.mk.injEq] at h; obtain ⟨h1, h2⟩ := h; subst h1 h2; simp)
    | simp at h

/-- **今晚 / 明早 / 昨晚 …, for every reference**: the range lies on the day `reference + swift` (swift ∈ {−1, 0, +1}), begin <
end on that same day (16:00–20:00 or 08:00–12:00), future = past, TIMEX = that day's date + the part-of-day code. -/
theorem zh_specific_night_ok (R : DateTime) (hR : proper R) (w : Str) (k : Int) (v : TimeRange) (hw : nightRange w = some (k, v))
    (t : Str) (fb fe pb pe : DateTime) (h : specificNight R w = .ok t fb fe pb pe) :
    ∃ d : Date, d.valid = true ∧ (d.ord : Int) = R.date.ord + k ∧ t = formatDate d ++ v.timeStr ∧
      fb = ⟨d, v.beginHour * 3600⟩ ∧ fe = ⟨d, v.endHour * 3600⟩ ∧ pb = fb ∧ pe = fe ∧ v.beginHour < v.endHour ∧ v.endHour < 24 := by
  have rows := nightRange_rows w k v hw
  unfold specificNight at h
  simp only [hw] at h
  cases hx : addDays R k with
  | none => simp [hx] at h
  | some x =>
    have sp := addDays_spec R hR.1 k x hx
    simp only [hx, Res.ok.injEq] at h
    obtain ⟨h1, h2, h3, h4, h5⟩ := h
    refine ⟨x.date, sp.1, sp.2.1, h1.symm, ?_, ?_, by rw [← h4, ← h2], by rw [← h5, ← h3], ?_, ?_⟩
    · rw [← h2]; rcases rows.2 with e | e <;> subst e <;> simp [todBegin, withTime, sp.1]
    · rw [← h3]; rcases rows.2 with e | e <;> subst e <;> simp [todEnd, withTime, sp.1]
    · rcases rows.2 with e | e <;> subst e <;> decide
    · rcases rows.2 with e | e <;> subst e <;> decide

/-- an exact match of `SpecificTimeOfDayRegex` that is not a word of the table (这个 下午: prefix, white space, part of day)
raises (`format_date(date) + None`) — for every reference -/
theorem zh_specific_unknown_raises (R : DateTime) (w : Str) (h : nightRange w = none) : specificNight R w = .raises := by
  unfold specificNight; rw [h]

/-- the five part-of-day rows of `parse_specific_time_of_day`: 上午 08–12, 中午 11–13, 下午 12–16, 晚上 16–20, 深夜 20–23:59:59 — begin
< end, inside one day -/
theorem zh_pod_rows : ∀ p : Pod,
    p.range.beginHour < 24 ∧ p.range.endHour < 24 ∧ p.range.endMin < 60 ∧
    p.range.beginHour * 3600 < p.range.endHour * 3600 + p.range.endMin * 60 + p.range.endMin ∧
    p.range.endHour * 3600 + p.range.endMin * 60 + p.range.endMin < 86400 := by
  intro p; cases p <;> decide

/-- **a date followed by a part of day (明天下午, 5月1日晚上), for every date the date parser returns**: each range lies on its
candidate's day, begin < end on that day; TIMEX = the date's TIMEX + the code. -/
theorem zh_date_time_of_day_ok (fd pd : DateTime) (hf : fd.date.valid = true) (hp : pd.date.valid = true) (tx : Str) (p : Pod) :
    dateTimeOfDay fd pd tx p =
      .ok (tx ++ p.range.timeStr)
        ⟨fd.date, p.range.beginHour * 3600⟩ ⟨fd.date, p.range.endHour * 3600 + p.range.endMin * 60 + p.range.endMin⟩
        ⟨pd.date, p.range.beginHour * 3600⟩ ⟨pd.date, p.range.endHour * 3600 + p.range.endMin * 60 + p.range.endMin⟩ := by
  have rows := zh_pod_rows p
  unfold dateTimeOfDay todBegin todEnd
  simp only []
  rw [withTime_ok fd.date hf _ _ _ rows.1 (by omega), withTime_ok fd.date hf _ _ _ rows.2.1 rows.2.2.1,
    withTime_ok pd.date hp _ _ _ rows.1 (by omega), withTime_ok pd.date hp _ _ _ rows.2.1 rows.2.2.1]
  simp

/-- which row a word takes (first pattern that occurs in the text). 傍晚 is read as AFTERNOON here (12–16: `DateTimePeriodAFRegex`
lists it) but as EVENING (16–20) by the time-period parser's term lists: 傍晚 alone and 明天傍晚 resolve to different hours. -/
theorem zh_pod_words :
    (∀ w ∈ [[20940, 26216], [28165, 26216], [26089, 19978], [26089, 38388], [26089], [19978, 21320]], podOfText w = some .mo) ∧
    podOfText [20013, 21320] = some .mi ∧
    (∀ w ∈ [[19979, 21320], [21320, 21518], [20621, 26202]], podOfText w = some .af) ∧
    (∀ w ∈ [[26202, 19978], [22812, 37324], [22812, 26202], [26202]], podOfText w = some .ev) ∧
    (∀ w ∈ [[21322, 22812], [22812, 38388], [28145, 22812]], podOfText w = some .ni) ∧
    podOfText [20621, 26202] = some .af ∧ todOfText [20621, 26202] = some .evening := by decide

/-! ## 前N小时 / 未来N分钟 (`__parse_common_duration_with_unit`) -/

theorem unit_letter_seconds (u : TUnit) :
    (if hmsLetter u = 72 then some 3600 else if hmsLetter u = 77 then some 60 else if hmsLetter u = 83 then some 1 else none) =
      some u.seconds.toNat ∧ (u.seconds.toNat : Int) = u.seconds := by
  cases u <;> decide

/-- **前N小时 / 过去N分钟 / 上N秒, for every reference R and every N**: the range is `[R − N·unit, R]`, both ends proper datetimes,
future = past, and the TIMEX `(begin,end,PT<N><U>)` is consistent with the values. -/
theorem zh_past_n_units (R : DateTime) (hR : proper R) (u : TUnit) (n : Nat) (t : Str) (fb fe pb pe : DateTime)
    (h : commonDurationHMS R (some u) (natStr n) n true false = .ok t fb fe pb pe) :
    fe = R ∧ proper fb ∧ val R - val fb = (n : Int) * u.seconds ∧ pb = fb ∧ pe = fe ∧
    tripleOK t (some (fmtDT fb)) (some (fmtDT fe)) = true := by
  have ul := unit_letter_seconds u
  cases hb : addSeconds R (-((n : Int) * u.seconds)) with
  | none =>
    have : commonDurationHMS R (some u) (natStr n) n true false = .raises := by
      unfold commonDurationHMS
      simp only [Bool.not_false, Bool.not_true, Bool.false_and, Bool.and_false, Bool.false_eq_true, if_false, if_true, hb]
    rw [this] at h; simp at h
  | some b =>
    have eq : commonDurationHMS R (some u) (natStr n) n true false =
        .ok (triple (luisPoint b) (luisPoint R) ([80, 84] ++ natStr n ++ [hmsLetter u])) b R b R := by
      unfold commonDurationHMS
      simp only [Bool.not_false, Bool.not_true, Bool.false_and, Bool.and_false, Bool.false_eq_true, if_false, if_true, hb]
    have sp := addSeconds_spec R hR.1 _ b hb
    have hp : proper b := ⟨sp.1, sp.2.1⟩
    have hv : val R - val b = ((n * u.seconds.toNat : Nat) : Int) := by
      unfold val; rw [Int.natCast_mul, ul.2]; omega
    have key := points_triple b R hp hR n u.seconds.toNat (hmsLetter u) ul.1
    rw [decide_eq_true hv] at key
    rw [eq, Res.ok.injEq] at h
    obtain ⟨h1, h2, h3, h4, h5⟩ := h
    subst h1 h2 h3 h4 h5
    exact ⟨rfl, hp, by rw [hv, Int.natCast_mul, ul.2], rfl, rfl, key⟩

/-- **未来N小时 / 之后N分钟 / 下N秒**: `[R, R + N·unit]`, consistent triple. -/
theorem zh_future_n_units (R : DateTime) (hR : proper R) (u : TUnit) (n : Nat) (t : Str) (fb fe pb pe : DateTime)
    (h : commonDurationHMS R (some u) (natStr n) n false true = .ok t fb fe pb pe) :
    fb = R ∧ proper fe ∧ val fe - val R = (n : Int) * u.seconds ∧ pb = fb ∧ pe = fe ∧
    tripleOK t (some (fmtDT fb)) (some (fmtDT fe)) = true := by
  have ul := unit_letter_seconds u
  cases he : addSeconds R ((n : Int) * u.seconds) with
  | none =>
    have : commonDurationHMS R (some u) (natStr n) n false true = .raises := by
      unfold commonDurationHMS
      simp only [Bool.not_false, Bool.not_true, Bool.false_and, Bool.and_false, Bool.false_eq_true, if_false, if_true, he]
    rw [this] at h; simp at h
  | some e =>
    have eq : commonDurationHMS R (some u) (natStr n) n false true =
        .ok (triple (luisPoint R) (luisPoint e) ([80, 84] ++ natStr n ++ [hmsLetter u])) R e R e := by
      unfold commonDurationHMS
      simp only [Bool.not_false, Bool.not_true, Bool.false_and, Bool.and_false, Bool.false_eq_true, if_false, if_true, he]
    have sp := addSeconds_spec R hR.1 _ e he
    have hp : proper e := ⟨sp.1, sp.2.1⟩
    have hv : val e - val R = ((n * u.seconds.toNat : Nat) : Int) := by
      unfold val; rw [Int.natCast_mul, ul.2]; omega
    have key := points_triple R e hR hp n u.seconds.toNat (hmsLetter u) ul.1
    rw [decide_eq_true hv] at key
    rw [eq, Res.ok.injEq] at h
    obtain ⟨h1, h2, h3, h4, h5⟩ := h
    subst h1 h2 h3 h4 h5
    exact ⟨rfl, hp, by rw [hv, Int.natCast_mul, ul.2], rfl, rfl, key⟩

/-- neither 前 / 过去 … nor 未来 / 之后 … in front of the number, a unit outside hour / minute / second: no result -/
theorem zh_n_units_guards (R : DateTime) (num : Str) (n : Nat) (hp hf : Bool) (u : TUnit) :
    commonDurationHMS R none num n hp hf = .noResult ∧ commonDurationHMS R (some u) num n false false = .noResult := by
  constructor <;> simp [commonDurationHMS]

example : commonDurationHMS ⟨⟨2020, 1, 31⟩, 52200⟩ (some .H) (Py.ofString "3") 3 true false =
    .ok (Py.ofString "(2020-01-31T11:30:00,2020-01-31T14:30:00,PT3H)") ⟨⟨2020, 1, 31⟩, 41400⟩ ⟨⟨2020, 1, 31⟩, 52200⟩
      ⟨⟨2020, 1, 31⟩, 41400⟩ ⟨⟨2020, 1, 31⟩, 52200⟩ := by decide +kernel
example : commonDurationHMS ⟨⟨2020, 12, 31⟩, 86399⟩ (some .M) (Py.ofString "20") 20 false true =
    .ok (Py.ofString "(2020-12-31T23:59:59,2021-01-01T00:19:59,PT20M)") ⟨⟨2020, 12, 31⟩, 86399⟩ ⟨⟨2021, 1, 1⟩, 1199⟩
      ⟨⟨2020, 12, 31⟩, 86399⟩ ⟨⟨2021, 1, 1⟩, 1199⟩ := by decide +kernel
example : commonDurationHMS ⟨⟨9999, 12, 31⟩, 86399⟩ (some .S) (Py.ofString "1") 1 false true = .raises := by decide +kernel

/-! ## sets (`ChineseSetParser`) -/

def sP1D : Str := [80, 49, 68]
def sP1W : Str := [80, 49, 87]
def sP1M : Str := [80, 49, 77]
def sP1Y : Str := [80, 49, 89]

/-- `get_matched_unit_timex`: the only TIMEXes it writes are `P1D`, `P1W`, `P1M`, `P1Y` — for every unit text -/
theorem zh_set_unit_forms (u t : Str) (h : matchedUnitTimex u = some t) : t = sP1D ∨ t = sP1W ∨ t = sP1M ∨ t = sP1Y := by
  unfold matchedUnitTimex at h
  repeat' split at h
  all_goals first
    | (simp only [Option.some.injEq] at h; subst h; decide)
    | simp at h

/-- the words: 每天 / 每日 → P1D, 每周 / 每星期 → P1W, 每月 → P1M, 每年 → P1Y; 小时 / 分钟 / 秒 (keys of `unit_map`, admitted by
`SetEachUnitRegex`) have no TIMEX here: 每小时 falls through to the later attempts and ends without a resolution -/
theorem zh_set_unit_words :
    eachUnit (some [22825]) true = some sP1D ∧ eachUnit (some [26085]) true = some sP1D ∧
    eachUnit (some [21608]) true = some sP1W ∧ eachUnit (some [26143, 26399]) true = some sP1W ∧
    eachUnit (some [26376]) true = some sP1M ∧ eachUnit (some [24180]) true = some sP1Y ∧
    eachUnit (some [23567, 26102]) true = none ∧ eachUnit (some [20998, 38047]) true = none ∧ eachUnit (some [31186]) true = none ∧
    eachUnit none true = none ∧ eachUnit (some [22825]) false = none := by decide

/-- `ChineseSetParser.parse`: the result is the FIRST attempt that succeeds, in the order each-unit, each-duration, time
every day, each date-time, each date; the value is `'Set: '` followed by the TIMEX; no attempt succeeds → no value. -/
theorem zh_set_first_success (a b c d e : Option Str) :
    (∀ t v, setParse a b c d e = some (t, v) → v = sSetColon ++ t ∧
      (a = some t ∨ (a = none ∧ b = some t) ∨ (a = none ∧ b = none ∧ c = some t) ∨ (a = none ∧ b = none ∧ c = none ∧ d = some t) ∨
       (a = none ∧ b = none ∧ c = none ∧ d = none ∧ e = some t))) ∧
    (setParse a b c d e = none ↔ a = none ∧ b = none ∧ c = none ∧ d = none ∧ e = none) := by
  unfold setParse
  cases a <;> cases b <;> cases c <;> cases d <;> cases e <;> simp <;> (intro t v h1 h2; subst h1 h2; simp)

/-! ## holidays (`ChineseHolidayParser`) -/

/-- **every fixed-date holiday function, for every year 1..9999**: a key of `__fixed_holiday_dictionary` with function
`datetime(year, mo, d)` returns exactly that month and day of that year (the month / day pairs of the table exist in
every year — checked on the table by evaluation, the statement over the years is by theorem). -/
theorem zh_fixed_holidays_every_year :
    ∀ e ∈ holidayTable, ∀ mo d, e.2 = .fixed mo d → ∀ y : Nat, 1 ≤ y → y ≤ 9999 → e.2.eval (y : Int) = some ⟨y, mo, d⟩ := by
  have tbl : holidayTable.all (fun e => match e.2 with | .fixed mo d => decide (everyYear mo d) | _ => true) = true := by decide
  intro e he mo d hf y h1 h2
  have ev : everyYear mo d := by
    have := List.all_eq_true.1 tbl e he
    rw [hf] at this
    simpa using this
  have v := valid_everyYear y mo d ev h1 h2
  rw [hf]
  unfold ZFn.eval
  rw [if_pos (by omega)]
  simp [Holiday.mkDate, v]

/-- the table, entry by entry: 元旦 / 新年 / 春节 1 January (春节, a lunar holiday, is given the SOLAR 1 January), 情人节 14 February,
女生节 7 March, 妇女节 8 March, 植树节 12 March, 愚人节 1 April, 清明 4 April, 劳动节 / 五一 1 May, 青年节 4 May, 端午 5 May, 儿童节 1 June,
建军节 1 August, 中秋 15 August, 重阳节 9 September, 教师节 10 September, 国庆节 1 October, 万圣节 31 October, 光棍节 / 双十一 11 November,
平安夜 24 December, 圣诞节 25 December, 元宵节 15 January; 除夕 is the day before 1 January. -/
theorem zh_holiday_table_entries :
    Holiday.dictGet holidayTable [22307, 35806, 33410] = some (.fixed 12 25) ∧ Holiday.dictGet holidayTable [22269, 24198, 33410] = some (.fixed 10 1) ∧
    Holiday.dictGet holidayTable [20803, 26086] = some (.fixed 1 1) ∧ Holiday.dictGet holidayTable [26149, 33410] = some (.fixed 1 1) ∧
    Holiday.dictGet holidayTable [21171, 21160, 33410] = some (.fixed 5 1) ∧ Holiday.dictGet holidayTable [25945, 24072, 33410] = some (.fixed 9 10) ∧
    Holiday.dictGet holidayTable [20013, 31179, 33410] = some (.fixed 8 15) ∧ Holiday.dictGet holidayTable [38500, 22805] = some .eve ∧
    Holiday.dictGet holidayTable [27597, 20146, 33410] = some (.var (.nth 5 5 1 7)) ∧
    Holiday.dictGet holidayTable [29238, 20146, 33410] = some (.var (.nth 6 6 2 7)) ∧
    Holiday.dictGet holidayTable [24863, 24681, 33410] = some (.var (.nth 11 11 3 4)) ∧
    Holiday.dictGet holidayTable [33098, 20843, 33410] = none := by decide

/-- **母亲节 / 父亲节 / 感恩节, for every year 1..9999** (by theorem — `Lemmas/Holiday.getDay_nth` — not by enumeration): the second
Sunday of May (day 8..14), the third Sunday of June (day 15..21), the fourth Thursday of November (day 22..28). -/
theorem zh_variable_holidays_every_year (y : Nat) (h1 : 1 ≤ y) (h2 : y ≤ 9999) :
    (∃ d, (ZFn.var (.nth 5 5 1 7)).eval (y : Int) = some ⟨y, 5, d⟩ ∧ (Date.mk y 5 d).weekday = 6 ∧ 8 ≤ d ∧ d ≤ 14) ∧
    (∃ d, (ZFn.var (.nth 6 6 2 7)).eval (y : Int) = some ⟨y, 6, d⟩ ∧ (Date.mk y 6 d).weekday = 6 ∧ 15 ≤ d ∧ d ≤ 21) ∧
    (∃ d, (ZFn.var (.nth 11 11 3 4)).eval (y : Int) = some ⟨y, 11, d⟩ ∧ (Date.mk y 11 d).weekday = 3 ∧ 22 ≤ d ∧ d ≤ 28) := by
  have ev : ∀ g : Holiday.Fn, (ZFn.var g).eval (y : Int) = g.eval y := by
    intro g; unfold ZFn.eval; rw [if_pos (by omega)]; simp
  refine ⟨?_, ?_, ?_⟩
  · obtain ⟨d, e, w, lo, hi⟩ := Holiday.holiday_nth_weekday 5 1 7 y (by omega) (by omega) (by omega) (by omega) (by omega) h1 h2
    exact ⟨d, by rw [ev]; exact e, w, by omega, by omega⟩
  · obtain ⟨d, e, w, lo, hi⟩ := Holiday.holiday_nth_weekday 6 2 7 y (by omega) (by omega) (by omega) (by omega) (by omega) h1 h2
    exact ⟨d, by rw [ev]; exact e, w, by omega, by omega⟩
  · obtain ⟨d, e, w, lo, hi⟩ := Holiday.holiday_nth_weekday 11 3 4 y (by omega) (by omega) (by omega) (by omega) (by omega) h1 h2
    exact ⟨d, by rw [ev]; exact e, w, by omega, by omega⟩

/-- `new_year_eve(year)` is 31 December of the year BEFORE (`datetime(year, 1, 1) − 1 day`), for every year 2..9999; for year 1
it raises. With a year in the text only its month and day are used (`datetime(year, 12, 31)`). -/
theorem zh_new_year_eve (y : Nat) (h1 : 2 ≤ y) (h2 : y ≤ 9999) :
    ZFn.eve.eval (y : Int) = some ⟨y - 1, 12, 31⟩ ∧ ZFn.eve.eval 1 = none := by
  refine ⟨?_, by decide⟩
  unfold ZFn.eval
  rw [if_pos (by omega)]
  simp only [Int.toNat_natCast]
  have v1 := valid_jan1 y (by omega) h2
  have v0 := valid_dec31 (y - 1) (by omega) (by omega)
  have s := dec31_succ (y - 1) (by omega)
  have e : y - 1 + 1 = y := by omega
  rw [e] at s
  have rr := ord_range _ v0
  unfold Date.addDays addDaysOrd
  simp only
  rw [if_pos (by omega)]
  have : (((⟨y, 1, 1⟩ : Date).ord : Int) + -1).toNat = (⟨y - 1, 12, 31⟩ : Date).ord := by omega
  rw [this]
  simp [ofOrd_ord _ v0]

/-- **a holiday with a year, for every key and every year the year reading produced**: when the function table has the key
and the computed date exists, the result is definite — TIMEX `YYYY` + the holiday's tail, future = past = that month / day
of THAT year, whatever the reference. -/
theorem zh_holiday_with_year_definite (R : DateTime) (key : Str) (year : Int) (r : Holiday.Res)
    (h : zhMatch2dateY R key (year, true) = .ok r) :
    r.future = r.past ∧ (r.future.y : Int) = year ∧ r.future.valid = true ∧ r.timex.take 4 = (fmt4 year).take 4 := by
  unfold zhMatch2dateY at h
  split at h
  · simp at h
  · simp only at h
    cases hg : Holiday.dictGet holidayTable key with
    | none => simp [hg] at h
    | some f =>
      simp only [hg] at h
      split at h
      · next date tail0 hd ht =>
        simp only [if_true] at h
        cases hm : Holiday.mkDate year.toNat date.m date.d with
        | none => simp [hm] at h
        | some x =>
          simp only [hm, Holiday.Out.ok.injEq] at h
          subst h
          have mv := Holiday.mkDate_some hm
          have yr1 : 1 ≤ year ∧ year ≤ 9999 := by
            unfold ZFn.eval at hd
            by_cases c : 1 ≤ year ∧ year ≤ 9999
            · exact c
            · rw [if_neg c] at hd; simp at hd
          refine ⟨rfl, by simp only; rw [mv.1]; simp only; omega, mv.2, ?_⟩
          simp only
          have l4 : (fmt4 year).length = 4 := by
            unfold fmt4; rw [if_pos (by omega), if_pos (by omega)]; simp [pad4]
          rw [List.take_append_of_le_length (by omega)]
      · simp at h

/-- both variants of the year reading say `has_year` exactly when a year group matched, so the statement above applies to
`zhMatch2date R key yi` / `zhMatch2dateFixed R key yi c` with `year` = what `holidayYear` / `holidayYearFixed` read -/
theorem zh_holiday_has_year (R : DateTime) (yi : YearIn) (c : Int) (hy : yi ≠ .absent) :
    (holidayYear R yi).2 = true ∧ (holidayYearFixed R yi c).2 = true ∧
    zhMatch2date R = fun key yi => zhMatch2dateY R key (holidayYear R yi) := by
  refine ⟨?_, ?_, rfl⟩ <;> cases yi <;> simp [holidayYear, holidayYearFixed] at hy ⊢

/-- **finding `zh-holiday-year-truncated`**: the last character of the `year` group is always cut off
(`year_num[0:len(year_num) - 1]` — the cut was written for a group that ends in 年; these groups do not): every four-digit
year `n` is read as `n / 10`. Witness: 2019年圣诞节 → `0201-12-25`; 19年元旦 → year 1 → 2001; 98年元旦 → year 9 → 2009. -/
theorem zh_holiday_year_truncated_witness :
    (∀ R n, 1000 ≤ n → n ≤ 9999 → (holidayYear R (.digits n)).1 = ((n / 10 : Nat) : Int)) ∧
    zhMatch2date ⟨⟨2020, 1, 31⟩, 52200⟩ [22307, 35806, 33410] (.digits 2019) =
      .ok ⟨Py.ofString "0201-12-25", ⟨201, 12, 25⟩, ⟨201, 12, 25⟩⟩ ∧
    zhMatch2date ⟨⟨2020, 1, 31⟩, 52200⟩ [20803, 26086] (.digits 19) = .ok ⟨Py.ofString "2001-01-01", ⟨2001, 1, 1⟩, ⟨2001, 1, 1⟩⟩ ∧
    zhMatch2date ⟨⟨2020, 1, 31⟩, 52200⟩ [20803, 26086] (.digits 98) = .ok ⟨Py.ofString "2009-01-01", ⟨2009, 1, 1⟩, ⟨2009, 1, 1⟩⟩ := by
  refine ⟨?_, by decide +kernel, by decide +kernel, by decide +kernel⟩
  intro R n h1 h2
  unfold holidayYear ZhDT.adjust9020
  simp only
  rw [if_neg (by omega), if_neg (by omega), if_neg (by omega)]

/-- **finding `zh-holiday-cjk-year-lost`**: `__convert_year(…, is_chinese=True)` returns its initial `-1` whenever the
whole-number reading is below 10 — which is always the case for a year spelled digit by digit (二零一九 has no whole-number
reading) — and `-1` is then pivoted to 1999. Every such year resolves to 1999. Witness: 二零一九年国庆节 → `1999-10-01`. -/
theorem zh_holiday_cjk_year_witness :
    (∀ R (whole : Int), whole < 10 → (holidayYear R (.cjk whole)).1 = 1999) ∧
    zhMatch2date ⟨⟨2020, 1, 31⟩, 52200⟩ [22269, 24198, 33410] (.cjk 0) =
      .ok ⟨Py.ofString "1999-10-01", ⟨1999, 10, 1⟩, ⟨1999, 10, 1⟩⟩ := by
  refine ⟨?_, by decide +kernel⟩
  intro R whole h
  unfold holidayYear ZhDT.adjust9020
  simp only
  rw [if_pos h]
  decide

/-- the repaired reading (`holidayYearFixed`, findings/zhtp/zh-holiday-year.diff; the harness probes which variant the tree
follows): a year of three or four digits is itself, a two-digit year goes through the 90 / 20 pivot, a Chinese year spelled
digit by digit is its digit-by-digit value; relative and absent years are unchanged. With it 2019年圣诞节 is 2019-12-25 and
二零一九年国庆节 2019-10-01. -/
theorem zh_holiday_year_fixed_spec (R : DateTime) :
    (∀ n, 100 ≤ n → (holidayYearFixed R (.digits n) 0).1 = n) ∧
    (∀ n, 90 ≤ n → n < 100 → (holidayYearFixed R (.digits n) 0).1 = 1900 + n) ∧
    (∀ n, 1 ≤ n → n < 20 → (holidayYearFixed R (.digits n) 0).1 = 2000 + n) ∧
    (∀ w c : Int, w < 10 → 100 ≤ c → (holidayYearFixed R (.cjk w) c).1 = c) ∧
    (∀ s c, holidayYearFixed R (.rel s) c = holidayYear R (.rel s)) ∧ (∀ c, holidayYearFixed R .absent c = holidayYear R .absent) ∧
    zhMatch2dateFixed ⟨⟨2020, 1, 31⟩, 52200⟩ [22307, 35806, 33410] (.digits 2019) 0 =
      .ok ⟨Py.ofString "2019-12-25", ⟨2019, 12, 25⟩, ⟨2019, 12, 25⟩⟩ ∧
    zhMatch2dateFixed ⟨⟨2020, 1, 31⟩, 52200⟩ [22269, 24198, 33410] (.cjk 0) 2019 =
      .ok ⟨Py.ofString "2019-10-01", ⟨2019, 10, 1⟩, ⟨2019, 10, 1⟩⟩ := by
  have inner : ∀ n : Nat, 1 ≤ n → (if n = 0 then (-1 : Int) else (n : Int)) = (n : Int) := by
    intro n h; rw [if_neg (by omega)]
  refine ⟨?_, ?_, ?_, ?_, fun _ _ => rfl, fun _ => rfl, by decide +kernel, by decide +kernel⟩
  · intro n h; unfold holidayYearFixed ZhDT.adjust9020; simp only
    rw [inner n (by omega), if_neg (by omega), if_neg (by omega)]
  · intro n h1 h2; unfold holidayYearFixed ZhDT.adjust9020; simp only
    rw [inner n (by omega), if_pos (by omega)]; omega
  · intro n h1 h2; unfold holidayYearFixed ZhDT.adjust9020; simp only
    rw [inner n (by omega), if_neg (by omega), if_pos (by omega)]; omega
  · intro w c hw h; unfold holidayYearFixed ZhDT.adjust9020; simp only
    rw [if_pos hw, if_neg (by omega), if_neg (by omega), if_neg (by omega)]

/-- a relative year (明年 / 去年 / 今年) is read right: 明年春节 asked in 2020 is 2021-01-01; without a year the future / past
candidates are the next / latest occurrence (除夕 asked on 2020-01-31: 2020-12-31 / 2019-12-31; 母亲节: 2020-05-10 / 2019-05-12) -/
theorem zh_holiday_examples :
    zhMatch2date ⟨⟨2020, 1, 31⟩, 52200⟩ [26149, 33410] (.rel 1) = .ok ⟨Py.ofString "2021-01-01", ⟨2021, 1, 1⟩, ⟨2021, 1, 1⟩⟩ ∧
    zhMatch2date ⟨⟨2020, 1, 31⟩, 52200⟩ [38500, 22805] .absent = .ok ⟨Py.ofString "XXXX-12-31", ⟨2020, 12, 31⟩, ⟨2019, 12, 31⟩⟩ ∧
    zhMatch2date ⟨⟨2020, 1, 31⟩, 52200⟩ [27597, 20146, 33410] .absent =
      .ok ⟨Py.ofString "XXXX-05-WXX-7-2", ⟨2020, 5, 10⟩, ⟨2019, 5, 12⟩⟩ ∧
    zhMatch2date ⟨⟨2020, 1, 31⟩, 52200⟩ [33098, 20843, 33410] .absent = .noResult ∧
    swiftYear [26126, 24180] = 1 ∧ swiftYear [21435, 24180] = -1 ∧ swiftYear [20170, 24180] = 0 ∧ swiftYear [50, 48, 49, 57] = 0 := by
  refine ⟨?_, ?_, ?_, ?_, ?_, ?_, ?_, ?_⟩ <;> decide +kernel

end RTV.ZhTP
