import RTV.Lemmas.DateUtils
/-!
# C08 — relative date expressions are calendar arithmetic on the reference date

Property theorems about `RTV.Model.DateUtils` (mirrors `DateUtils.this/next/last`, `AgoLaterUtil.get_date_result`,
`BaseDateParser.parse_implicit_date`, `BaseDatePeriodParser._parse_one_word_period`, `parse_basic_regex('now')`).
They hold for **every** reference datetime `R` whose date is a valid date of 0001..9999 — no other bound; a result
`some …` means the Python code did not raise (it raises only when the answer would leave 0001..9999).
`mondayOrd n` is the ordinal of the Monday of the ISO week containing ordinal `n`; days of one Monday-to-Sunday block
share ISO year and ISO week number (`Cal.isoCalendar_same_week`). Helper lemmas: `RTV/Lemmas/Cal.lean`, `DateUtils.lean`.

One statement of the property fails on the faithful model: `next month` from a day that does not exist in the next
month (with the roll-forward semantics of `datedelta`). It is kept below as a comment, proved with its exact guard
(`month_period_partial`), refuted by a concrete witness (`next_month_fails_on_day_overflow`) and proved in full for
the repaired variant (`month_period_fixed`).
-/
namespace RTV.DateUtils
open RTV.Cal RTV.Py
set_option linter.unusedVariables false

/-! ## next / this / last `<weekday>` -/

/-- "this `<weekday>`" is that weekday of the ISO week containing `R` (time of day kept). `dow` is the culture's
number (Sunday = 0) or the `DayOfWeek` enum's (Sunday = 7); `target` maps 0 to 7. -/
theorem this_in_iso_week (R : DateTime) (hv : R.date.valid = true) (dow : Nat) (hd : dow ≤ 7) (r : DateTime)
    (h : this R dow = some r) :
    r.date.valid = true ∧ r.secs = R.secs ∧ isoWeekdayOrd r.date.ord = target dow ∧
    mondayOrd r.date.ord = mondayOrd R.date.ord := by
  have s := this_spec R hv dow r h
  have m := mondayOrd_spec R.date.ord (ord_range R.date hv).1
  have tr : 1 ≤ target dow ∧ target dow ≤ 7 := by unfold target; split <;> omega
  have w := week_of_ord r.date.ord (mondayOrd R.date.ord) (target dow) m.2.2.2.1 tr.1 tr.2 s.2.2
  exact ⟨s.1, s.2.1, w.1, w.2⟩

/-- "next `<weekday>`" is that weekday of the *following* ISO week. -/
theorem next_is_following_week (R : DateTime) (hv : R.date.valid = true) (dow : Nat) (hd : dow ≤ 7) (r : DateTime)
    (h : next R dow = some r) :
    r.date.valid = true ∧ r.secs = R.secs ∧ isoWeekdayOrd r.date.ord = target dow ∧
    mondayOrd r.date.ord = mondayOrd R.date.ord + 7 := by
  have s := next_spec R hv dow r h
  have m := mondayOrd_spec R.date.ord (ord_range R.date hv).1
  have tr : 1 ≤ target dow ∧ target dow ≤ 7 := by unfold target; split <;> omega
  have w := week_of_ord r.date.ord (mondayOrd R.date.ord + 7) (target dow)
    (by rw [weekdayOrd_add7]; exact m.2.2.2.1) tr.1 tr.2 (by omega)
  exact ⟨s.1, s.2.1, w.1, w.2⟩

/-- "last `<weekday>`" is that weekday of the *preceding* ISO week. -/
theorem last_is_preceding_week (R : DateTime) (hv : R.date.valid = true) (dow : Nat) (hd : dow ≤ 7) (r : DateTime)
    (h : last R dow = some r) :
    r.date.valid = true ∧ r.secs = R.secs ∧ isoWeekdayOrd r.date.ord = target dow ∧
    mondayOrd r.date.ord + 7 = mondayOrd R.date.ord := by
  have s := last_spec R hv dow r h
  have m := mondayOrd_spec R.date.ord (ord_range R.date hv).1
  have r1 := (ord_range r.date s.1).1
  have tr : 1 ≤ target dow ∧ target dow ≤ 7 := by unfold target; split <;> omega
  have m7 : 7 ≤ mondayOrd R.date.ord := by
    have := m.2.2.2.1; unfold weekdayOrd at this; omega
  have w := week_of_ord r.date.ord (mondayOrd R.date.ord - 7) (target dow)
    (by have := weekdayOrd_add7 (mondayOrd R.date.ord - 7)
        rw [show mondayOrd R.date.ord - 7 + 7 = mondayOrd R.date.ord by omega] at this
        rw [← this]; exact m.2.2.2.1) tr.1 tr.2 (by omega)
  exact ⟨s.1, s.2.1, w.1, by omega⟩

/-- The three results exist whenever the asked day lies inside 0001-01-01..9999-12-31. -/
theorem this_defined (R : DateTime) (hv : R.date.valid = true) (dow : Nat)
    (h : mondayOrd R.date.ord + target dow - 1 ≤ maxOrd) : ∃ r, this R dow = some r := by
  have m := mondayOrd_spec R.date.ord (ord_range R.date hv).1
  have tr : 1 ≤ target dow := by unfold target; split <;> omega
  have e : this R dow = addDays R ((target dow : Int) - ((weekdayOrd R.date.ord + 1 : Nat) : Int)) := rfl
  rw [e]
  apply addDays_isSome <;> omega

example : this ⟨⟨2020, 1, 31⟩, 52200⟩ 0 = some ⟨⟨2020, 2, 2⟩, 52200⟩ := by decide
example : next ⟨⟨2020, 12, 31⟩, 0⟩ 1 = some ⟨⟨2021, 1, 4⟩, 0⟩ := by decide
example : last ⟨⟨2021, 1, 3⟩, 86399⟩ 5 = some ⟨⟨2020, 12, 25⟩, 86399⟩ := by decide

/-- `parse_implicit_date` prints the date of the value as the TIMEX. -/
theorem weekday_timex (R : DateTime) (dow : Nat) (t : Str) (v : DateTime) :
    (nextWeekday R dow = some (t, v) → next R dow = some v ∧ t = luisDateOf v) ∧
    (thisWeekday R dow = some (t, v) → this R dow = some v ∧ t = luisDateOf v) ∧
    (lastWeekday R dow = some (t, v) → last R dow = some v ∧ t = luisDateOf v) := by
  unfold nextWeekday thisWeekday lastWeekday
  refine ⟨?_, ?_, ?_⟩
  all_goals
    intro h
    first
    | (cases hn : next R dow <;> rw [hn] at h)
    | (cases hn : this R dow <;> rw [hn] at h)
    | (cases hn : last R dow <;> rw [hn] at h)
  all_goals simp only [Option.map_none, Option.map_some, Option.some.injEq, Prod.mk.injEq, reduceCtorEq] at h
  all_goals (obtain ⟨a, b⟩ := h; subst b; exact ⟨rfl, a.symm⟩)

/-! ## today / tomorrow / yesterday -/

/-- "today" is the reference's date at midnight, TIMEX = that date. -/
theorem today_is_reference_date (R : DateTime) (hv : R.date.valid = true) :
    specialDay R 0 = some (luisDate R.date.y R.date.m R.date.d, ⟨R.date, 0⟩) := by
  unfold specialDay
  rw [safeCreate_valid R.date hv]
  simp only [addDays, Date.addDays_zero R.date hv]
  rfl

/-- "tomorrow" is the day after the reference's date (midnight), TIMEX = that date. -/
theorem tomorrow_is_next_day (R : DateTime) (hv : R.date.valid = true) (t : Str) (v : DateTime)
    (h : specialDay R 1 = some (t, v)) :
    v.date.valid = true ∧ v.date.ord = R.date.ord + 1 ∧ v.secs = 0 ∧ t = luisDateOf v := by
  have s := specialDay_spec R hv 1 t v h
  exact ⟨s.1, by omega, s.2.2.1, s.2.2.2⟩

/-- "yesterday" is the day before the reference's date. -/
theorem yesterday_is_previous_day (R : DateTime) (hv : R.date.valid = true) (t : Str) (v : DateTime)
    (h : specialDay R (-1) = some (t, v)) :
    v.date.valid = true ∧ v.date.ord + 1 = R.date.ord ∧ v.secs = 0 ∧ t = luisDateOf v := by
  have s := specialDay_spec R hv (-1) t v h
  exact ⟨s.1, by omega, s.2.2.1, s.2.2.2⟩

/-- Any special day with swift `k` ("the day after tomorrow" = 2, …). -/
theorem special_day_is_reference_plus_swift (R : DateTime) (hv : R.date.valid = true) (k : Int) (t : Str)
    (v : DateTime) (h : specialDay R k = some (t, v)) :
    v.date.valid = true ∧ (v.date.ord : Int) = R.date.ord + k ∧ v.secs = 0 ∧ t = luisDateOf v :=
  specialDay_spec R hv k t v h

example : specialDay ⟨⟨2020, 2, 28⟩, 50000⟩ 1 = some (luisDate 2020 2 29, ⟨⟨2020, 2, 29⟩, 0⟩) := by decide
example : specialDay ⟨⟨2021, 1, 1⟩, 50000⟩ (-1) = some (luisDate 2020 12 31, ⟨⟨2020, 12, 31⟩, 0⟩) := by decide

/-! ## N days | weeks ago, in N days | weeks, N days from now -/

/-- "N days ago": the reference minus N days (for every N), time of day kept, TIMEX = that date. -/
theorem n_days_ago (R : DateTime) (hv : R.date.valid = true) (n : Nat) (t : Str) (v : DateTime)
    (h : getDateResult .D n R false = some (t, v)) :
    v.date.valid = true ∧ v.date.ord + n = R.date.ord ∧ v.secs = R.secs ∧ t = luisDateOf v := by
  have s := getDateResult_days R hv n false t v h
  simp only [Bool.false_eq_true, if_false] at s
  exact ⟨s.1, by omega, s.2.2.1, s.2.2.2⟩

/-- "in N days" / "N days from now": the reference plus N days. -/
theorem in_n_days (R : DateTime) (hv : R.date.valid = true) (n : Nat) (t : Str) (v : DateTime)
    (h : getDateResult .D n R true = some (t, v)) :
    v.date.valid = true ∧ v.date.ord = R.date.ord + n ∧ v.secs = R.secs ∧ t = luisDateOf v := by
  have s := getDateResult_days R hv n true t v h
  simp only [if_true] at s
  exact ⟨s.1, by omega, s.2.2.1, s.2.2.2⟩

/-- "N weeks" is "7N days", in both directions. -/
theorem n_weeks_is_7n_days (R : DateTime) (n : Nat) (fut : Bool) :
    getDateResult .W n R fut = getDateResult .D (7 * n) R fut :=
  getDateResult_weeks R n fut

/-- The result exists exactly when it stays inside 0001-01-01..9999-12-31. -/
theorem n_days_defined (R : DateTime) (hv : R.date.valid = true) (n : Nat) :
    (n < R.date.ord → ∃ r, getDateResult .D n R false = some r) ∧
    (R.date.ord + n ≤ maxOrd → ∃ r, getDateResult .D n R true = some r) := by
  have rr := ord_range R.date hv
  constructor <;> intro h
  · obtain ⟨r, hr⟩ := addDays_isSome R (-(n : Int)) (by omega) (by omega)
    exact ⟨(luisDateOf r, r), by simp [getDateResult, hr]⟩
  · obtain ⟨r, hr⟩ := addDays_isSome R (n : Int) (by omega) (by omega)
    exact ⟨(luisDateOf r, r), by simp [getDateResult, hr]⟩

example : getDateResult .D 5000 ⟨⟨2020, 1, 31⟩, 52200⟩ true = some (luisDate 2033 10 9, ⟨⟨2033, 10, 9⟩, 52200⟩) := by
  decide
example : getDateResult .W 2 ⟨⟨2020, 3, 7⟩, 0⟩ false = some (luisDate 2020 2 22, ⟨⟨2020, 2, 22⟩, 0⟩) := by decide

/-! ## this / next / last week -/

/-- "this/next/last week" (`k` = 0/+1/−1, in fact any `k`) is `[Monday(R) + 7k, Monday(R) + 7k + 7)`. -/
theorem this_week_is_monday_to_monday (R : DateTime) (hv : R.date.valid = true) (k : Int) (t : Str) (b e : DateTime)
    (h : weekPeriod R k = some (t, b, e)) :
    b.date.valid = true ∧ e.date.valid = true ∧ (b.date.ord : Int) = mondayOrd R.date.ord + 7 * k ∧
    e.date.ord = b.date.ord + 7 ∧ weekdayOrd b.date.ord = 0 ∧ b.secs = R.secs ∧ e.secs = R.secs := by
  have s := weekPeriod_spec R hv k t b e h
  have m := mondayOrd_spec R.date.ord (ord_range R.date hv).1
  refine ⟨s.1, s.2.1, s.2.2.2.2.1, by omega, ?_, s.2.2.1, s.2.2.2.1⟩
  have := s.2.2.2.2.1
  unfold weekdayOrd at m ⊢
  omega

/-- The week TIMEX `YYYY-Www` carries the ISO year and ISO week number of `isocalendar()` of the period's first
day (a Monday), although the code reads them off the Thursday of that week. -/
theorem week_timex_matches_isocalendar (R : DateTime) (hv : R.date.valid = true) (k : Int) (t : Str) (b e : DateTime)
    (h : weekPeriod R k = some (t, b, e)) :
    t = pad 4 (isoCalendar b.date).1 ++ [45, 87] ++ pad 2 (isoCalendar b.date).2.1 ∧ (isoCalendar b.date).2.2 = 1 := by
  have s := weekPeriod_spec R hv k t b e h
  have w := this_week_is_monday_to_monday R hv k t b e h
  refine ⟨s.2.2.2.2.2.2, ?_⟩
  rw [isoCalendar_weekday b.date s.1, isoWeekdayOrd_eq, w.2.2.2.2.1]

example : weekPeriod ⟨⟨2020, 12, 31⟩, 0⟩ 1 =
    some (ofString "2021-W01", ⟨⟨2021, 1, 4⟩, 0⟩, ⟨⟨2021, 1, 11⟩, 0⟩) := by decide
example : weekPeriod ⟨⟨2021, 1, 3⟩, 100⟩ 0 =
    some (ofString "2020-W53", ⟨⟨2020, 12, 28⟩, 100⟩, ⟨⟨2021, 1, 4⟩, 100⟩) := by decide

/-! ## this / next / last year -/

/-- "this/next/last year" is `[Jan 1 of R.year + k, Jan 1 of R.year + k + 1)` with TIMEX `YYYY`. -/
theorem year_period (R : DateTime) (hv : R.date.valid = true) (k : Int) (t : Str) (b e : DateTime)
    (h : yearPeriod R k = some (t, b, e)) :
    ∃ Y : Nat, (Y : Int) = R.date.y + k ∧ t = pad 4 Y ∧ b = ⟨⟨Y, 1, 1⟩, 0⟩ ∧ e = ⟨⟨Y + 1, 1, 1⟩, 0⟩ := by
  obtain ⟨Y, h1, _, _, h2, h3, h4⟩ := yearPeriod_spec R hv k t b e h
  exact ⟨Y, h1, h2, h3, h4⟩

example : yearPeriod ⟨⟨2020, 2, 29⟩, 7⟩ 1 = some (ofString "2021", ⟨⟨2021, 1, 1⟩, 0⟩, ⟨⟨2022, 1, 1⟩, 0⟩) := by decide
example : yearPeriod ⟨⟨2020, 2, 29⟩, 7⟩ (-1) = some (ofString "2019", ⟨⟨2019, 1, 1⟩, 0⟩, ⟨⟨2020, 1, 1⟩, 0⟩) := by decide

/-! ## this / next / last month

Full statement (FAILS on the faithful model, see `next_month_fails_on_day_overflow`):
  `monthPeriod R k = some (t, b, e) → (Y, M) = shiftMonth R.y R.m k → t = "YYYY-MM" ∧ b = 1st of (Y, M) ∧
   e = 1st of the month after`, for every `R` and `k`.
The code reads the month off `reference + datedelta(months=k)`; for `k > 0` a reference day that does not exist in
the target month rolls forward into the month after it. -/

/-- Holds exactly under the guard "`k ≤ 0`, or the reference's day exists in the target month". -/
theorem month_period_partial (R : DateTime) (hv : R.date.valid = true) (k : Int) (t : Str) (b e : DateTime)
    (h : monthPeriod R k = some (t, b, e))
    (g : k ≤ 0 ∨ R.date.d ≤ daysInMonth (shiftMonth R.date.y R.date.m k).1.toNat (shiftMonth R.date.y R.date.m k).2) :
    ∃ Y M Y2 M2 : Nat, ((Y : Int), M) = shiftMonth R.date.y R.date.m k ∧ ((Y2 : Int), M2) = shiftMonth Y M 1 ∧
      t = pad 4 Y ++ [45] ++ pad 2 M ∧ b = ⟨⟨Y, M, 1⟩, 0⟩ ∧ e = ⟨⟨Y2, M2, 1⟩, 0⟩ := by
  obtain ⟨Y, M, Y2, M2, h1, h2, h3, h4, h5, _⟩ := monthPeriod_spec R hv k t b e h g
  exact ⟨Y, M, Y2, M2, h1, h2, h3, h4, h5⟩

/-- Negative witness: `next month` asked on 2020-01-31 answers March 2020, not February. -/
theorem next_month_fails_on_day_overflow :
    monthPeriod ⟨⟨2020, 1, 31⟩, 0⟩ 1 = some (ofString "2020-03", ⟨⟨2020, 3, 1⟩, 0⟩, ⟨⟨2020, 4, 1⟩, 0⟩) ∧
    shiftMonth 2020 1 1 = (2020, 2) := by decide

/-- The repaired variant (shift the first of the month) satisfies the full statement, for every `R` and `k`. -/
theorem month_period_fixed (R : DateTime) (hv : R.date.valid = true) (k : Int) (t : Str) (b e : DateTime)
    (h : monthPeriodFixed R k = some (t, b, e)) :
    ∃ Y M Y2 M2 : Nat, ((Y : Int), M) = shiftMonth R.date.y R.date.m k ∧ ((Y2 : Int), M2) = shiftMonth Y M 1 ∧
      t = pad 4 Y ++ [45] ++ pad 2 M ∧ b = ⟨⟨Y, M, 1⟩, 0⟩ ∧ e = ⟨⟨Y2, M2, 1⟩, 0⟩ := by
  unfold monthPeriodFixed at h
  have hvy := (valid_iff R.date).1 hv
  have v1 := valid_first R.date.y R.date.m hvy.1 hvy.2.1 hvy.2.2.1 hvy.2.2.2.1
  have sr := shiftMonth_range R.date.y R.date.m k
  have ge := daysInMonth_ge (shiftMonth R.date.y R.date.m k).1.toNat (shiftMonth R.date.y R.date.m k).2 sr.1 sr.2
  obtain ⟨Y, M, Y2, M2, h1, h2, h3, h4, h5, _⟩ :=
    monthPeriod_spec ⟨⟨R.date.y, R.date.m, 1⟩, R.secs⟩ v1 k t b e h (Or.inr (by simp only; omega))
  exact ⟨Y, M, Y2, M2, h1, h2, h3, h4, h5⟩

example : monthPeriod ⟨⟨2020, 3, 31⟩, 0⟩ (-1) = some (ofString "2020-02", ⟨⟨2020, 2, 1⟩, 0⟩, ⟨⟨2020, 3, 1⟩, 0⟩) := by
  decide
example : monthPeriod ⟨⟨2020, 12, 15⟩, 9⟩ 1 = some (ofString "2021-01", ⟨⟨2021, 1, 1⟩, 0⟩, ⟨⟨2021, 2, 1⟩, 0⟩) := by
  decide
example : monthPeriodFixed ⟨⟨2020, 1, 31⟩, 0⟩ 1 = some (ofString "2020-02", ⟨⟨2020, 2, 1⟩, 0⟩, ⟨⟨2020, 3, 1⟩, 0⟩) := by
  decide

/-! ## now -/

/-- "now" resolves to the reference itself (past and future value). -/
theorem now_is_reference (R : DateTime) : now R = (R, R) := rfl

end RTV.DateUtils
