import RTV.Lemmas.DateUtils
/-!
# C08 — relative date expressions are calendar arithmetic on the reference date

Property theorems about `RTV.Model.DateUtils` (mirrors `DateUtils.this/next/last`, `AgoLaterUtil.get_date_result`,
`BaseDateParser.parse_implicit_date`, `BaseDatePeriodParser._parse_one_word_period`, `parse_basic_regex('now')`).
They hold for **every** reference datetime `R` whose date is a valid date of 0001..9999 — no other bound; a result
`some …` means the Python code did not raise (it raises only when the answer would leave 0001..9999).
`mondayOrd n` is the ordinal of the Monday of the ISO week containing ordinal `n`; days of one Monday-to-Sunday block
share ISO year and ISO week number (`Cal.isoCalendar_same_week`). Helper lemmas: `RTV/Lemmas/Cal.lean`, `DateUtils.lean`.

`next month` used to fail from a day that does not exist in the next month; it was fixed in /repo (d8aa8bf73) and the
model mirrors the fixed code (`month_period_fixed`, full statement); the pre-fix variant, its guard and the witness
2020-01-31 are kept as a labelled regression. Round 2 adds hours/minutes/seconds, the early/mid/late prefixes, weekend,
year/month to date and `rest of …`. Two of those statements failed on the pre-fix code (weekend TIMEX year at a year
boundary, past value of `month to date`); both were fixed in /repo (10db50e3c, f19a69b3f), the model mirrors the fixed
code (`weekend_timex_fixed`, `month_to_date`: full statements) and the pre-fix variants are kept as labelled regressions.
-/
namespace RTV.DateUtils
open RTV.Cal RTV.Py
set_option linter.unusedVariables false

/-! ## next / this / last `<weekday>` -/

/-- "this `<weekday>`" is that weekday of the ISO week containing `R` (time of day kept). `dow` is the culture's
number (Sunday = 0) or the `DayOfWeek` enum's (Sunday = 7); `target` maps 0 to 7. -/
theorem this_in_iso_week (R : DateTime) (hv : R.date.valid = true) (dow : Nat) (hd : dow ≤ 7) (r : DateTime)
    (h : this R dow = some r) :
    r.date.valid = true ∧ r.secs = R.secs ∧ isoWeekdayOrd r.date.ord = target dow ∧
    mondayOrd r.date.ord = mondayOrd R.date.ord := by
  have s := this_spec R hv dow r h
  have m := mondayOrd_spec R.date.ord (ord_range R.date hv).1
  have tr : 1 ≤ target dow ∧ target dow ≤ 7 := by unfold target; split <;> omega
  have w := week_of_ord r.date.ord (mondayOrd R.date.ord) (target dow) m.2.2.2.1 tr.1 tr.2 s.2.2
  exact ⟨s.1, s.2.1, w.1, w.2⟩

/-- "next `<weekday>`" is that weekday of the *following* ISO week. -/
theorem next_is_following_week (R : DateTime) (hv : R.date.valid = true) (dow : Nat) (hd : dow ≤ 7) (r : DateTime)
    (h : next R dow = some r) :
    r.date.valid = true ∧ r.secs = R.secs ∧ isoWeekdayOrd r.date.ord = target dow ∧
    mondayOrd r.date.ord = mondayOrd R.date.ord + 7 := by
  have s := next_spec R hv dow r h
  have m := mondayOrd_spec R.date.ord (ord_range R.date hv).1
  have tr : 1 ≤ target dow ∧ target dow ≤ 7 := by unfold target; split <;> omega
  have w := week_of_ord r.date.ord (mondayOrd R.date.ord + 7) (target dow)
    (by rw [weekdayOrd_add7]; exact m.2.2.2.1) tr.1 tr.2 (by omega)
  exact ⟨s.1, s.2.1, w.1, w.2⟩

/-- "last `<weekday>`" is that weekday of the *preceding* ISO week. -/
theorem last_is_preceding_week (R : DateTime) (hv : R.date.valid = true) (dow : Nat) (hd : dow ≤ 7) (r : DateTime)
    (h : last R dow = some r) :
    r.date.valid = true ∧ r.secs = R.secs ∧ isoWeekdayOrd r.date.ord = target dow ∧
    mondayOrd r.date.ord + 7 = mondayOrd R.date.ord := by
  have s := last_spec R hv dow r h
  have m := mondayOrd_spec R.date.ord (ord_range R.date hv).1
  have r1 := (ord_range r.date s.1).1
  have tr : 1 ≤ target dow ∧ target dow ≤ 7 := by unfold target; split <;> omega
  have m7 : 7 ≤ mondayOrd R.date.ord := by
    have := m.2.2.2.1; unfold weekdayOrd at this; omega
  have w := week_of_ord r.date.ord (mondayOrd R.date.ord - 7) (target dow)
    (by have := weekdayOrd_add7 (mondayOrd R.date.ord - 7)
        rw [show mondayOrd R.date.ord - 7 + 7 = mondayOrd R.date.ord by omega] at this
        rw [← this]; exact m.2.2.2.1) tr.1 tr.2 (by omega)
  exact ⟨s.1, s.2.1, w.1, by omega⟩

/-- The three results exist whenever the asked day lies inside 0001-01-01..9999-12-31. -/
theorem this_defined (R : DateTime) (hv : R.date.valid = true) (dow : Nat)
    (h : mondayOrd R.date.ord + target dow - 1 ≤ maxOrd) : ∃ r, this R dow = some r := by
  have m := mondayOrd_spec R.date.ord (ord_range R.date hv).1
  have tr : 1 ≤ target dow := by unfold target; split <;> omega
  have e : this R dow = addDays R ((target dow : Int) - ((weekdayOrd R.date.ord + 1 : Nat) : Int)) := rfl
  rw [e]
  apply addDays_isSome <;> omega

example : this ⟨⟨2020, 1, 31⟩, 52200⟩ 0 = some ⟨⟨2020, 2, 2⟩, 52200⟩ := by decide
example : next ⟨⟨2020, 12, 31⟩, 0⟩ 1 = some ⟨⟨2021, 1, 4⟩, 0⟩ := by decide
example : last ⟨⟨2021, 1, 3⟩, 86399⟩ 5 = some ⟨⟨2020, 12, 25⟩, 86399⟩ := by decide

/-- `parse_implicit_date` prints the date of the value as the TIMEX. -/
theorem weekday_timex (R : DateTime) (dow : Nat) (t : Str) (v : DateTime) :
    (nextWeekday R dow = some (t, v) → next R dow = some v ∧ t = luisDateOf v) ∧
    (thisWeekday R dow = some (t, v) → this R dow = some v ∧ t = luisDateOf v) ∧
    (lastWeekday R dow = some (t, v) → last R dow = some v ∧ t = luisDateOf v) := by
  unfold nextWeekday thisWeekday lastWeekday
  refine ⟨?_, ?_, ?_⟩
  all_goals
    intro h
    first
    | (cases hn : next R dow <;> rw [hn] at h)
    | (cases hn : this R dow <;> rw [hn] at h)
    | (cases hn : last R dow <;> rw [hn] at h)
  all_goals simp only [Option.map_none, Option.map_some, Option.some.injEq, Prod.mk.injEq, reduceCtorEq] at h
  all_goals (obtain ⟨a, b⟩ := h; subst b; exact ⟨rfl, a.symm⟩)

/-! ## today / tomorrow / yesterday -/

/-- "today" is the reference's date at midnight, TIMEX = that date. -/
theorem today_is_reference_date (R : DateTime) (hv : R.date.valid = true) :
    specialDay R 0 = some (luisDate R.date.y R.date.m R.date.d, ⟨R.date, 0⟩) := by
  unfold specialDay
  rw [safeCreate_valid R.date hv]
  simp only [addDays, Date.addDays_zero R.date hv]
  rfl

/-- "tomorrow" is the day after the reference's date (midnight), TIMEX = that date. -/
theorem tomorrow_is_next_day (R : DateTime) (hv : R.date.valid = true) (t : Str) (v : DateTime)
    (h : specialDay R 1 = some (t, v)) :
    v.date.valid = true ∧ v.date.ord = R.date.ord + 1 ∧ v.secs = 0 ∧ t = luisDateOf v := by
  have s := specialDay_spec R hv 1 t v h
  exact ⟨s.1, by omega, s.2.2.1, s.2.2.2⟩

/-- "yesterday" is the day before the reference's date. -/
theorem yesterday_is_previous_day (R : DateTime) (hv : R.date.valid = true) (t : Str) (v : DateTime)
    (h : specialDay R (-1) = some (t, v)) :
    v.date.valid = true ∧ v.date.ord + 1 = R.date.ord ∧ v.secs = 0 ∧ t = luisDateOf v := by
  have s := specialDay_spec R hv (-1) t v h
  exact ⟨s.1, by omega, s.2.2.1, s.2.2.2⟩

/-- Any special day with swift `k` ("the day after tomorrow" = 2, …). -/
theorem special_day_is_reference_plus_swift (R : DateTime) (hv : R.date.valid = true) (k : Int) (t : Str)
    (v : DateTime) (h : specialDay R k = some (t, v)) :
    v.date.valid = true ∧ (v.date.ord : Int) = R.date.ord + k ∧ v.secs = 0 ∧ t = luisDateOf v :=
  specialDay_spec R hv k t v h

example : specialDay ⟨⟨2020, 2, 28⟩, 50000⟩ 1 = some (luisDate 2020 2 29, ⟨⟨2020, 2, 29⟩, 0⟩) := by decide
example : specialDay ⟨⟨2021, 1, 1⟩, 50000⟩ (-1) = some (luisDate 2020 12 31, ⟨⟨2020, 12, 31⟩, 0⟩) := by decide

/-! ## N days | weeks ago, in N days | weeks, N days from now -/

/-- "N days ago": the reference minus N days (for every N), time of day kept, TIMEX = that date. -/
theorem n_days_ago (R : DateTime) (hv : R.date.valid = true) (n : Nat) (t : Str) (v : DateTime)
    (h : getDateResult .D n R false = some (t, v)) :
    v.date.valid = true ∧ v.date.ord + n = R.date.ord ∧ v.secs = R.secs ∧ t = luisDateOf v := by
  have s := getDateResult_days R hv n false t v h
  simp only [Bool.false_eq_true, if_false] at s
  exact ⟨s.1, by omega, s.2.2.1, s.2.2.2⟩

/-- "in N days" / "N days from now": the reference plus N days. -/
theorem in_n_days (R : DateTime) (hv : R.date.valid = true) (n : Nat) (t : Str) (v : DateTime)
    (h : getDateResult .D n R true = some (t, v)) :
    v.date.valid = true ∧ v.date.ord = R.date.ord + n ∧ v.secs = R.secs ∧ t = luisDateOf v := by
  have s := getDateResult_days R hv n true t v h
  simp only [if_true] at s
  exact ⟨s.1, by omega, s.2.2.1, s.2.2.2⟩

/-- "N weeks" is "7N days", in both directions. -/
theorem n_weeks_is_7n_days (R : DateTime) (n : Nat) (fut : Bool) :
    getDateResult .W n R fut = getDateResult .D (7 * n) R fut :=
  getDateResult_weeks R n fut

/-- The result exists exactly when it stays inside 0001-01-01..9999-12-31. -/
theorem n_days_defined (R : DateTime) (hv : R.date.valid = true) (n : Nat) :
    (n < R.date.ord → ∃ r, getDateResult .D n R false = some r) ∧
    (R.date.ord + n ≤ maxOrd → ∃ r, getDateResult .D n R true = some r) := by
  have rr := ord_range R.date hv
  constructor <;> intro h
  · obtain ⟨r, hr⟩ := addDays_isSome R (-(n : Int)) (by omega) (by omega)
    exact ⟨(luisDateOf r, r), by simp [getDateResult, hr]⟩
  · obtain ⟨r, hr⟩ := addDays_isSome R (n : Int) (by omega) (by omega)
    exact ⟨(luisDateOf r, r), by simp [getDateResult, hr]⟩

example : getDateResult .D 5000 ⟨⟨2020, 1, 31⟩, 52200⟩ true = some (luisDate 2033 10 9, ⟨⟨2033, 10, 9⟩, 52200⟩) := by
  decide
example : getDateResult .W 2 ⟨⟨2020, 3, 7⟩, 0⟩ false = some (luisDate 2020 2 22, ⟨⟨2020, 2, 22⟩, 0⟩) := by decide

/-! ## this / next / last week -/

/-- "this/next/last week" (`k` = 0/+1/−1, in fact any `k`) is `[Monday(R) + 7k, Monday(R) + 7k + 7)`. -/
theorem this_week_is_monday_to_monday (R : DateTime) (hv : R.date.valid = true) (k : Int) (t : Str) (b e : DateTime)
    (h : weekPeriod R k = some (t, b, e)) :
    b.date.valid = true ∧ e.date.valid = true ∧ (b.date.ord : Int) = mondayOrd R.date.ord + 7 * k ∧
    e.date.ord = b.date.ord + 7 ∧ weekdayOrd b.date.ord = 0 ∧ b.secs = R.secs ∧ e.secs = R.secs := by
  have s := weekPeriod_spec R hv k t b e h
  have m := mondayOrd_spec R.date.ord (ord_range R.date hv).1
  refine ⟨s.1, s.2.1, s.2.2.2.2.1, by omega, ?_, s.2.2.1, s.2.2.2.1⟩
  have := s.2.2.2.2.1
  unfold weekdayOrd at m ⊢
  omega

/-- The week TIMEX `YYYY-Www` carries the ISO year and ISO week number of `isocalendar()` of the period's first
day (a Monday), although the code reads them off the Thursday of that week. -/
theorem week_timex_matches_isocalendar (R : DateTime) (hv : R.date.valid = true) (k : Int) (t : Str) (b e : DateTime)
    (h : weekPeriod R k = some (t, b, e)) :
    t = pad 4 (isoCalendar b.date).1 ++ [45, 87] ++ pad 2 (isoCalendar b.date).2.1 ∧ (isoCalendar b.date).2.2 = 1 := by
  have s := weekPeriod_spec R hv k t b e h
  have w := this_week_is_monday_to_monday R hv k t b e h
  refine ⟨s.2.2.2.2.2.2, ?_⟩
  rw [isoCalendar_weekday b.date s.1, isoWeekdayOrd_eq, w.2.2.2.2.1]

example : weekPeriod ⟨⟨2020, 12, 31⟩, 0⟩ 1 =
    some (ofString "2021-W01", ⟨⟨2021, 1, 4⟩, 0⟩, ⟨⟨2021, 1, 11⟩, 0⟩) := by decide
example : weekPeriod ⟨⟨2021, 1, 3⟩, 100⟩ 0 =
    some (ofString "2020-W53", ⟨⟨2020, 12, 28⟩, 100⟩, ⟨⟨2021, 1, 4⟩, 100⟩) := by decide

/-! ## this / next / last year -/

/-- "this/next/last year" is `[Jan 1 of R.year + k, Jan 1 of R.year + k + 1)` with TIMEX `YYYY`. -/
theorem year_period (R : DateTime) (hv : R.date.valid = true) (k : Int) (t : Str) (b e : DateTime)
    (h : yearPeriod R k = some (t, b, e)) :
    ∃ Y : Nat, (Y : Int) = R.date.y + k ∧ t = pad 4 Y ∧ b = ⟨⟨Y, 1, 1⟩, 0⟩ ∧ e = ⟨⟨Y + 1, 1, 1⟩, 0⟩ := by
  obtain ⟨Y, h1, _, _, h2, h3, h4⟩ := yearPeriod_spec R hv k t b e h
  exact ⟨Y, h1, h2, h3, h4⟩

example : yearPeriod ⟨⟨2020, 2, 29⟩, 7⟩ 1 = some (ofString "2021", ⟨⟨2021, 1, 1⟩, 0⟩, ⟨⟨2022, 1, 1⟩, 0⟩) := by decide
example : yearPeriod ⟨⟨2020, 2, 29⟩, 7⟩ (-1) = some (ofString "2019", ⟨⟨2019, 1, 1⟩, 0⟩, ⟨⟨2020, 1, 1⟩, 0⟩) := by decide

/-! ## this / next / last month -/

/-- "this/next/last month" (any shift `k`) is `[1st of the shifted month, 1st of the month after)` with TIMEX
`YYYY-MM`, for every reference — the code after `fix: 'next/last month' shifts from the first of the month`
(`temp_date = reference.replace(day=1) + datedelta(months=swift)`). -/
theorem month_period_fixed (R : DateTime) (hv : R.date.valid = true) (k : Int) (t : Str) (b e : DateTime)
    (h : monthPeriod R k = some (t, b, e)) :
    ∃ Y M Y2 M2 : Nat, ((Y : Int), M) = shiftMonth R.date.y R.date.m k ∧ ((Y2 : Int), M2) = shiftMonth Y M 1 ∧
      t = pad 4 Y ++ [45] ++ pad 2 M ∧ b = ⟨⟨Y, M, 1⟩, 0⟩ ∧ e = ⟨⟨Y2, M2, 1⟩, 0⟩ := by
  unfold monthPeriod at h
  have hvy := (valid_iff R.date).1 hv
  have v1 := valid_first R.date.y R.date.m hvy.1 hvy.2.1 hvy.2.2.1 hvy.2.2.2.1
  have sr := shiftMonth_range R.date.y R.date.m k
  have ge := daysInMonth_ge (shiftMonth R.date.y R.date.m k).1.toNat (shiftMonth R.date.y R.date.m k).2 sr.1 sr.2
  obtain ⟨Y, M, Y2, M2, h1, h2, h3, h4, h5, _⟩ :=
    monthPeriodPreFix_spec ⟨⟨R.date.y, R.date.m, 1⟩, R.secs⟩ v1 k t b e h (Or.inr (by simp only; omega))
  exact ⟨Y, M, Y2, M2, h1, h2, h3, h4, h5⟩

example : monthPeriod ⟨⟨2020, 1, 31⟩, 0⟩ 1 = some (ofString "2020-02", ⟨⟨2020, 2, 1⟩, 0⟩, ⟨⟨2020, 3, 1⟩, 0⟩) := by decide
example : monthPeriod ⟨⟨2020, 3, 31⟩, 0⟩ (-1) = some (ofString "2020-02", ⟨⟨2020, 2, 1⟩, 0⟩, ⟨⟨2020, 3, 1⟩, 0⟩) := by
  decide
example : monthPeriod ⟨⟨2020, 12, 15⟩, 9⟩ 1 = some (ofString "2021-01", ⟨⟨2021, 1, 1⟩, 0⟩, ⟨⟨2021, 2, 1⟩, 0⟩) := by
  decide

/-! ### REGRESSION (pre-fix code, before d8aa8bf73)

The code used to read the month off `reference + datedelta(months=k)`; for `k > 0` a reference day that does not
exist in the target month rolled forward into the month after it. Kept so that a revert is recognised. -/

/-- The pre-fix code satisfied the statement only under "`k ≤ 0`, or the reference's day exists in the target
month". -/
theorem month_period_prefix_partial (R : DateTime) (hv : R.date.valid = true) (k : Int) (t : Str) (b e : DateTime)
    (h : monthPeriodPreFix R k = some (t, b, e))
    (g : k ≤ 0 ∨ R.date.d ≤ daysInMonth (shiftMonth R.date.y R.date.m k).1.toNat (shiftMonth R.date.y R.date.m k).2) :
    ∃ Y M Y2 M2 : Nat, ((Y : Int), M) = shiftMonth R.date.y R.date.m k ∧ ((Y2 : Int), M2) = shiftMonth Y M 1 ∧
      t = pad 4 Y ++ [45] ++ pad 2 M ∧ b = ⟨⟨Y, M, 1⟩, 0⟩ ∧ e = ⟨⟨Y2, M2, 1⟩, 0⟩ := by
  obtain ⟨Y, M, Y2, M2, h1, h2, h3, h4, h5, _⟩ := monthPeriodPreFix_spec R hv k t b e h g
  exact ⟨Y, M, Y2, M2, h1, h2, h3, h4, h5⟩

/-- Regression witness: the pre-fix code answered March 2020 for `next month` asked on 2020-01-31. -/
theorem next_month_prefix_regression :
    monthPeriodPreFix ⟨⟨2020, 1, 31⟩, 0⟩ 1 = some (ofString "2020-03", ⟨⟨2020, 3, 1⟩, 0⟩, ⟨⟨2020, 4, 1⟩, 0⟩) ∧
    shiftMonth 2020 1 1 = (2020, 2) := by decide

/-! ## now -/

/-- "now" resolves to the reference itself (past and future value). -/
theorem now_is_reference (R : DateTime) : now R = (R, R) := rfl

/-! # Round 2: hours / minutes / seconds, prefixes, weekend, to-date, rest-of -/

/-! ## N hours | minutes | seconds ago / later (relative to the reference *time*) -/

/-- "N hours ago", "in N minutes", "N seconds ago" …: the reference instant minus / plus N units, counted in
seconds since 0001-01-01 00:00:00 (`ord * 86400 + secs`), for every N; TIMEX `YYYY-MM-DDTHH:MM:SS` of the value. -/
theorem hms_ago_later (u : TUnit) (R : DateTime) (hv : R.date.valid = true) (n : Nat) (fut : Bool) (t : Str)
    (v : DateTime) (h : getDateTimeResult u n R fut = some (t, v)) :
    v.date.valid = true ∧ v.secs < 86400 ∧
    (v.date.ord : Int) * 86400 + v.secs =
      (R.date.ord : Int) * 86400 + R.secs + (n : Int) * (if fut then 1 else -1) * u.seconds ∧
    t = luisDateTime v :=
  getDateTimeResult_spec u R hv n fut t v h

/-- N minutes = 60 N seconds, N hours = 3600 N seconds. -/
theorem hms_units (R : DateTime) (n : Nat) (fut : Bool) :
    getDateTimeResult .M n R fut = getDateTimeResult .S (60 * n) R fut ∧
    getDateTimeResult .H n R fut = getDateTimeResult .S (3600 * n) R fut := by
  unfold getDateTimeResult TUnit.seconds
  simp only
  constructor <;> (congr 2; cases fut <;> simp <;> omega)

/-- The result exists exactly when it stays inside 0001-01-01..9999-12-31. -/
theorem hms_defined (u : TUnit) (R : DateTime) (n : Nat) (fut : Bool)
    (h1 : 86400 ≤ (R.date.ord : Int) * 86400 + R.secs + (n : Int) * (if fut then 1 else -1) * u.seconds)
    (h2 : (R.date.ord : Int) * 86400 + R.secs + (n : Int) * (if fut then 1 else -1) * u.seconds < ((maxOrd : Int) + 1) * 86400) :
    ∃ r, getDateTimeResult u n R fut = some r := by
  obtain ⟨r, hr⟩ := addSeconds_isSome R _ h1 h2
  exact ⟨(luisDateTime r, r), by unfold getDateTimeResult; simp only; rw [hr]; rfl⟩

example : getDateTimeResult .H 3 ⟨⟨2020, 1, 29⟩, 52200⟩ false =
    some (ofString "2020-01-29T11:30:00", ⟨⟨2020, 1, 29⟩, 41400⟩) := by decide
example : getDateTimeResult .H 15 ⟨⟨2020, 12, 31⟩, 52200⟩ true =
    some (ofString "2021-01-01T05:30:00", ⟨⟨2021, 1, 1⟩, 19800⟩) := by decide
example : getDateTimeResult .S 30 ⟨⟨2020, 3, 1⟩, 10⟩ false =
    some (ofString "2020-02-29T23:59:40", ⟨⟨2020, 2, 29⟩, 86380⟩) := by decide

/-! ## early / mid / late this | next | last week -/

/-- What the week branch computes with a prefix, for every reference and shift: early = `[Mon, Thu)`,
mid = `[Tue, Sat)`, late = `[Thu, next Mon)` of the shifted week; for the *current* week (`k = 0`) an early period
ends at the reference at the latest and a late period starts at the reference at the earliest
(`weekPrefixBounds`). The TIMEX is the week's `YYYY-Www` (ISO year and week of the week's Monday). Note: "early
this week" asked on the Monday gives begin = end (an empty range). -/
theorem week_prefix_period (R : DateTime) (hv : R.date.valid = true) (k : Int) (early mid late : Bool) (t : Str)
    (b e : DateTime) (h : weekPeriodP R k early mid late = some (t, b, e)) :
    b.date.valid = true ∧ e.date.valid = true ∧ b.secs = R.secs ∧ e.secs = R.secs ∧
    ((b.date.ord : Int), (e.date.ord : Int)) = weekPrefixBounds (mondayOrd R.date.ord) R.date.ord k early mid late ∧
    (∃ mon : Date, mon.valid = true ∧ (mon.ord : Int) = mondayOrd R.date.ord + 7 * k ∧
      t = pad 4 (isoCalendar mon).1 ++ [45, 87] ++ pad 2 (isoCalendar mon).2.1) :=
  weekPeriodP_spec R hv k early mid late t b e h

example : weekPrefixBounds 100 102 1 true false false = (107, 110) ∧ weekPrefixBounds 100 102 0 true false false = (100, 102) ∧
    weekPrefixBounds 100 102 0 false true false = (101, 105) ∧ weekPrefixBounds 100 102 0 false false true = (103, 107) ∧
    weekPrefixBounds 100 105 0 false false true = (105, 107) ∧ weekPrefixBounds 100 100 0 true false false = (100, 100) := by
  decide
example : weekPeriodP ⟨⟨2020, 1, 29⟩, 52200⟩ 1 true false false =
    some (ofString "2020-W06", ⟨⟨2020, 2, 3⟩, 52200⟩, ⟨⟨2020, 2, 6⟩, 52200⟩) := by decide
example : weekPeriodP ⟨⟨2020, 1, 29⟩, 52200⟩ 0 true false false =
    some (ofString "2020-W05", ⟨⟨2020, 1, 27⟩, 52200⟩, ⟨⟨2020, 1, 29⟩, 52200⟩) := by decide
example : weekPeriodP ⟨⟨2020, 1, 29⟩, 52200⟩ 0 false false true =
    some (ofString "2020-W05", ⟨⟨2020, 1, 30⟩, 52200⟩, ⟨⟨2020, 2, 3⟩, 52200⟩) := by decide

/-! ## this / next / last weekend -/

/-- The weekend is `[Saturday, Monday)` of the shifted week and its TIMEX is `YYYY-Www-WE` with the ISO year and ISO
week of that Saturday, for every reference and shift — the code after `fix: the weekend TIMEX takes its year from the
ISO year of the Saturday` (10db50e3c). -/
theorem weekend_timex_fixed (R : DateTime) (hv : R.date.valid = true) (k : Int) (t : Str) (b e : DateTime)
    (h : weekendPeriod R k = some (t, b, e)) :
    b.date.valid = true ∧ e.date.valid = true ∧ b.secs = R.secs ∧ e.secs = R.secs ∧
    (b.date.ord : Int) = mondayOrd R.date.ord + 5 + 7 * k ∧ e.date.ord = b.date.ord + 2 ∧
    t = pad 4 (isoCalendar b.date).1 ++ [45, 87] ++ pad 2 (isoCalendar b.date).2.1 ++ [45, 87, 69] := by
  unfold weekendPeriod at h
  cases hw : weekendPeriodPreFix R k with
  | none => simp [hw] at h
  | some r =>
    simp only [hw, Option.map_some, Option.some.injEq, Prod.mk.injEq] at h
    obtain ⟨t', b', e'⟩ := r
    have s := weekendPeriodPreFix_spec R hv k t' b' e' hw
    simp only at h
    obtain ⟨ht, hb, he⟩ := h
    subst hb he
    exact ⟨s.1, s.2.1, s.2.2.1, s.2.2.2.1, s.2.2.2.2.1, s.2.2.2.2.2.1, ht.symm⟩

/-- The weekend is `[Saturday, Monday)` of the shifted week (corollary kept under its round-2 name). -/
theorem weekend_is_saturday_to_monday (R : DateTime) (hv : R.date.valid = true) (k : Int) (t : Str) (b e : DateTime)
    (h : weekendPeriod R k = some (t, b, e)) :
    b.date.valid = true ∧ e.date.valid = true ∧ b.secs = R.secs ∧ e.secs = R.secs ∧
    (b.date.ord : Int) = mondayOrd R.date.ord + 5 + 7 * k ∧ e.date.ord = b.date.ord + 2 := by
  have s := weekend_timex_fixed R hv k t b e h
  exact ⟨s.1, s.2.1, s.2.2.1, s.2.2.2.1, s.2.2.2.2.1, s.2.2.2.2.2.1⟩

example : weekendPeriod ⟨⟨2020, 1, 29⟩, 52200⟩ 0 =
    some (ofString "2020-W05-WE", ⟨⟨2020, 2, 1⟩, 52200⟩, ⟨⟨2020, 2, 3⟩, 52200⟩) := by decide
example : weekendPeriod ⟨⟨2020, 12, 31⟩, 0⟩ 1 = some (ofString "2021-W01-WE", ⟨⟨2021, 1, 9⟩, 0⟩, ⟨⟨2021, 1, 11⟩, 0⟩) := by
  decide
example : weekendPeriod ⟨⟨2021, 1, 3⟩, 0⟩ 0 = some (ofString "2020-W53-WE", ⟨⟨2021, 1, 2⟩, 0⟩, ⟨⟨2021, 1, 4⟩, 0⟩) := by
  decide

/-! ### REGRESSION (pre-fix code, before 10db50e3c): the TIMEX year was the reference's calendar year -/

/-- The pre-fix TIMEX was right only when the reference's calendar year is the ISO year of the Saturday. -/
theorem weekend_timex_prefix_partial (R : DateTime) (hv : R.date.valid = true) (k : Int) (t : Str) (b e : DateTime)
    (h : weekendPeriodPreFix R k = some (t, b, e)) (g : (isoCalendar b.date).1 = R.date.y) :
    t = pad 4 (isoCalendar b.date).1 ++ [45, 87] ++ pad 2 (isoCalendar b.date).2.1 ++ [45, 87, 69] := by
  have s := weekendPeriodPreFix_spec R hv k t b e h
  rw [g]; exact s.2.2.2.2.2.2

/-- Regression witnesses: the pre-fix code answered `2020-W01-WE` for "next weekend" asked on 2020-12-31 (Saturday
2021-01-09, ISO 2021-W01) and `2021-W53-WE` for "this weekend" asked on 2021-01-03 (Saturday 2021-01-02, ISO 2020-W53). -/
theorem weekend_timex_prefix_regression :
    weekendPeriodPreFix ⟨⟨2020, 12, 31⟩, 0⟩ 1 = some (ofString "2020-W01-WE", ⟨⟨2021, 1, 9⟩, 0⟩, ⟨⟨2021, 1, 11⟩, 0⟩) ∧
    isoCalendar ⟨2021, 1, 9⟩ = (2021, 1, 6) ∧
    weekendPeriodPreFix ⟨⟨2021, 1, 3⟩, 0⟩ 0 = some (ofString "2021-W53-WE", ⟨⟨2021, 1, 2⟩, 0⟩, ⟨⟨2021, 1, 4⟩, 0⟩) ∧
    isoCalendar ⟨2021, 1, 2⟩ = (2020, 53, 6) := by decide

/-! ## early / mid / late month and year -/

/-- Month with a prefix (code after the fix): early = `[1st, 16th)`, late = `[16th, 1st of the next month)`, mid or
no prefix = the whole month; TIMEX `YYYY-MM` of the shifted month, for every reference and shift. -/
theorem month_prefix_period (R : DateTime) (hv : R.date.valid = true) (k : Int) (early late : Bool) (t : Str)
    (b e : DateTime) (h : monthPeriodP R k early late = some (t, b, e)) :
    ∃ Y M Y2 M2 : Nat, ((Y : Int), M) = shiftMonth R.date.y R.date.m k ∧ ((Y2 : Int), M2) = shiftMonth Y M 1 ∧
      t = pad 4 Y ++ [45] ++ pad 2 M ∧
      b = (if early then ⟨⟨Y, M, 1⟩, 0⟩ else if late then ⟨⟨Y, M, 16⟩, 0⟩ else ⟨⟨Y, M, 1⟩, 0⟩) ∧
      e = (if early then ⟨⟨Y, M, 16⟩, 0⟩ else ⟨⟨Y2, M2, 1⟩, 0⟩) :=
  monthPeriodP_spec R hv k early late t b e h

/-- Year with a prefix: late starts on 1 July, early ends before 1 July; mid or no prefix = the whole year. -/
theorem year_prefix_period (R : DateTime) (hv : R.date.valid = true) (k : Int) (early late : Bool) (t : Str)
    (b e : DateTime) (h : yearPeriodP R k early late = some (t, b, e)) :
    ∃ Y : Nat, (Y : Int) = R.date.y + k ∧ t = pad 4 Y ∧
      b = (if late then ⟨⟨Y, 7, 1⟩, 0⟩ else ⟨⟨Y, 1, 1⟩, 0⟩) ∧
      e = (if early then ⟨⟨Y, 7, 1⟩, 0⟩ else ⟨⟨Y + 1, 1, 1⟩, 0⟩) := by
  obtain ⟨Y, h1, _, _, h2, h3, h4⟩ := yearPeriodP_spec R hv k early late t b e h
  exact ⟨Y, h1, h2, h3, h4⟩

example : monthPeriodP ⟨⟨2020, 1, 31⟩, 5⟩ 1 false true = some (ofString "2020-02", ⟨⟨2020, 2, 16⟩, 0⟩, ⟨⟨2020, 3, 1⟩, 0⟩) := by
  decide
example : monthPeriodP ⟨⟨2020, 1, 31⟩, 5⟩ 0 true false = some (ofString "2020-01", ⟨⟨2020, 1, 1⟩, 0⟩, ⟨⟨2020, 1, 16⟩, 0⟩) := by
  decide
example : yearPeriodP ⟨⟨2020, 2, 29⟩, 5⟩ (-1) false true = some (ofString "2019", ⟨⟨2019, 7, 1⟩, 0⟩, ⟨⟨2020, 1, 1⟩, 0⟩) := by
  decide
example : yearPeriodP ⟨⟨2020, 2, 29⟩, 5⟩ 1 true false = some (ofString "2021", ⟨⟨2021, 1, 1⟩, 0⟩, ⟨⟨2021, 7, 1⟩, 0⟩) := by
  decide

/-! ## year to date, month to date -/

/-- "year to date" = `[1 January of R's year (midnight), R]`, TIMEX `YYYY`. -/
theorem year_to_date (R : DateTime) (hv : R.date.valid = true) :
    yearToDate R = (pad 4 R.date.y, ⟨⟨R.date.y, 1, 1⟩, 0⟩, R) := yearToDate_spec R hv

/-- "month to date" = `[1st of R's month (midnight), R]` for the future **and** the past value, TIMEX `YYYY-MM` — the
code after `fix: 'month to date' starts on the first of the month in its past value too` (f19a69b3f). -/
theorem month_to_date (R : DateTime) (hv : R.date.valid = true) :
    monthToDate R = (pad 4 R.date.y ++ [45] ++ pad 2 R.date.m, ⟨⟨R.date.y, R.date.m, 1⟩, 0⟩,
      ⟨⟨R.date.y, R.date.m, 1⟩, 0⟩, R) := monthToDate_spec R hv

example : monthToDate ⟨⟨2020, 5, 20⟩, 52200⟩ =
    (ofString "2020-05", ⟨⟨2020, 5, 1⟩, 0⟩, ⟨⟨2020, 5, 1⟩, 0⟩, ⟨⟨2020, 5, 20⟩, 52200⟩) := by decide

/-! ### REGRESSION (pre-fix code, before f19a69b3f): the past value started on day number = month number at 01:00 -/

/-- What the pre-fix code computed: the *past* value started on day = month number at 01:00:00 (arguments
`(year, month, month, 1)`), the 1st only in January. -/
theorem month_to_date_prefix (R : DateTime) (hv : R.date.valid = true) :
    monthToDatePreFix R = (pad 4 R.date.y ++ [45] ++ pad 2 R.date.m, ⟨⟨R.date.y, R.date.m, 1⟩, 0⟩,
      ⟨⟨R.date.y, R.date.m, R.date.m⟩, 3600⟩, R) := monthToDatePreFix_spec R hv

/-- Regression witness: "month to date" at 2020-05-20: the pre-fix past value started on 2020-05-05 01:00:00. -/
theorem month_to_date_prefix_regression :
    monthToDatePreFix ⟨⟨2020, 5, 20⟩, 52200⟩ =
      (ofString "2020-05", ⟨⟨2020, 5, 1⟩, 0⟩, ⟨⟨2020, 5, 5⟩, 3600⟩, ⟨⟨2020, 5, 20⟩, 52200⟩) := by decide

/-! ## rest of the week | month | year

What the code computes (C10/C11 record the shape): begin = the reference; end = the *inclusive* last day (Sunday of
R's week with R's time of day; last day of R's month / 31 December at midnight); TIMEX `(begin,end,P<n>D)` where `n`
is `end − begin` in days for the week but `end − begin + 1` for month and year. -/

theorem rest_of_week (R : DateTime) (hv : R.date.valid = true) (res : Option (Str × DateTime × DateTime))
    (h : restOf .W R = some res) :
    ∃ e : DateTime, e.date.valid = true ∧ e.secs = R.secs ∧ e.date.ord = mondayOrd R.date.ord + 6 ∧
      R.date.ord ≤ e.date.ord ∧
      res = some (ofString "(" ++ luisDateOf R ++ ofString "," ++ luisDateOf e ++ ofString ",P" ++
                    natStr (e.date.ord - R.date.ord) ++ ofString "D)", R, e) :=
  restOf_week_spec R hv res h

theorem rest_of_month (R : DateTime) (hv : R.date.valid = true) :
    let E : DateTime := ⟨⟨R.date.y, R.date.m, daysInMonth R.date.y R.date.m⟩, 0⟩
    E.date.valid = true ∧ R.date.d ≤ daysInMonth R.date.y R.date.m ∧
    restOf .MON R = some (if R ≠ E then
        some (ofString "(" ++ luisDateOf R ++ ofString "," ++ luisDateOf E ++ ofString ",P" ++
                natStr (daysInMonth R.date.y R.date.m - R.date.d + 1) ++ ofString "D)", R, E)
      else none) := by
  intro E
  have s := restOf_month_spec R hv
  have hvy := (valid_iff R.date).1 hv
  refine ⟨s.2.2, hvy.2.2.2.2.2, ?_⟩
  rw [s.1, restOfFin_nonneg _ _ _ _ s.2.1]
  have dt : ((daysInMonth R.date.y R.date.m : Int) - (R.date.d : Int) + 1).toNat =
      daysInMonth R.date.y R.date.m - R.date.d + 1 := by omega
  rw [dt]
  simp only [Bool.false_eq_true, or_false]
  rfl

theorem rest_of_year (R : DateTime) (hv : R.date.valid = true) :
    let E : DateTime := ⟨⟨R.date.y, 12, 31⟩, 0⟩
    E.date.valid = true ∧ R.date.ord ≤ E.date.ord ∧
    restOf .Y R = some (if R ≠ E then
        some (ofString "(" ++ luisDateOf R ++ ofString "," ++ luisDateOf E ++ ofString ",P" ++
                natStr (E.date.ord - R.date.ord + 1) ++ ofString "D)", R, E)
      else none) := by
  intro E
  have s := restOf_year_spec R hv
  refine ⟨s.2.2, s.2.1, ?_⟩
  rw [s.1, restOfFin_nonneg _ _ _ _ (by have := s.2.1; omega)]
  have dt : (((⟨R.date.y, 12, 31⟩ : Date).ord : Int) - (R.date.ord : Int) + 1).toNat =
      (⟨R.date.y, 12, 31⟩ : Date).ord - R.date.ord + 1 := by have := s.2.1; omega
  rw [dt]
  simp only [Bool.false_eq_true, or_false]
  rfl

/-- Witnesses of the shape: Wednesday 2020-01-29 → week `P4D` up to Sunday 02-02 (5 days inclusive), month `P3D` up
to 01-31 (3 days inclusive); on the last day of the month at 00:00:00 there is no result, with a time of day the
range is `[31st, 31st]`. -/
theorem rest_of_witnesses :
    restOf .W ⟨⟨2020, 1, 29⟩, 52200⟩ =
      some (some (ofString "(2020-01-29,2020-02-02,P4D)", ⟨⟨2020, 1, 29⟩, 52200⟩, ⟨⟨2020, 2, 2⟩, 52200⟩)) ∧
    restOf .MON ⟨⟨2020, 1, 29⟩, 52200⟩ =
      some (some (ofString "(2020-01-29,2020-01-31,P3D)", ⟨⟨2020, 1, 29⟩, 52200⟩, ⟨⟨2020, 1, 31⟩, 0⟩)) ∧
    restOf .MON ⟨⟨2021, 1, 31⟩, 0⟩ = some none ∧
    restOf .MON ⟨⟨2021, 1, 31⟩, 36000⟩ =
      some (some (ofString "(2021-01-31,2021-01-31,P1D)", ⟨⟨2021, 1, 31⟩, 36000⟩, ⟨⟨2021, 1, 31⟩, 0⟩)) ∧
    restOf .W ⟨⟨2021, 1, 3⟩, 0⟩ =
      some (some (ofString "(2021-01-03,2021-01-03,P0D)", ⟨⟨2021, 1, 3⟩, 0⟩, ⟨⟨2021, 1, 3⟩, 0⟩)) := by
  refine ⟨?_, ?_, ?_, ?_, ?_⟩ <;> decide

/-! # Definedness (audit item 31): the theorems above take `f R = some r` as a hypothesis — here is when it holds

`this_defined`, `n_days_defined`, `hms_defined` are above.  The month branch (`monthPeriod`) has no definedness lemma yet:
it is exercised by the closed examples only. -/

/-- definedness of "next `<weekday>`": the result exists whenever that day of the following week lies inside
0001-01-01..9999-12-31 (otherwise `date + timedelta` raises OverflowError). -/
theorem next_defined (R : DateTime) (hv : R.date.valid = true) (dow : Nat)
    (h : mondayOrd R.date.ord + target dow - 1 + 7 ≤ maxOrd) : ∃ r, next R dow = some r := by
  have tr : 1 ≤ target dow := by unfold target; split <;> omega
  obtain ⟨r0, h0⟩ := this_defined R hv dow (by omega)
  have s := this_spec R hv dow r0 h0
  obtain ⟨r, hr⟩ := addDays_isSome r0 7 (by omega) (by omega)
  exact ⟨r, by simp [next, h0, hr]⟩

/-- definedness of "last `<weekday>`": exists whenever that day of the preceding week is not before 0001-01-01. -/
theorem last_defined (R : DateTime) (hv : R.date.valid = true) (dow : Nat)
    (h1 : 8 ≤ mondayOrd R.date.ord + target dow - 1) (h2 : mondayOrd R.date.ord + target dow - 1 ≤ maxOrd) :
    ∃ r, last R dow = some r := by
  have tr : 1 ≤ target dow := by unfold target; split <;> omega
  obtain ⟨r0, h0⟩ := this_defined R hv dow h2
  have s := this_spec R hv dow r0 h0
  obtain ⟨r, hr⟩ := addDays_isSome r0 (-7) (by omega) (by omega)
  exact ⟨r, by simp [last, h0, hr]⟩

/-- … hence the three `parse_implicit_date` branches succeed under the same guards (no `example` needed). -/
theorem weekday_branches_defined (R : DateTime) (hv : R.date.valid = true) (dow : Nat)
    (h1 : 8 ≤ mondayOrd R.date.ord + target dow - 1) (h2 : mondayOrd R.date.ord + target dow - 1 + 7 ≤ maxOrd) :
    (∃ r, thisWeekday R dow = some r) ∧ (∃ r, nextWeekday R dow = some r) ∧ (∃ r, lastWeekday R dow = some r) := by
  obtain ⟨a, ha⟩ := this_defined R hv dow (by omega)
  obtain ⟨b, hb⟩ := next_defined R hv dow h2
  obtain ⟨c, hc⟩ := last_defined R hv dow h1 (by omega)
  exact ⟨⟨(luisDateOf a, a), by simp [thisWeekday, ha]⟩, ⟨(luisDateOf b, b), by simp [nextWeekday, hb]⟩,
    ⟨(luisDateOf c, c), by simp [lastWeekday, hc]⟩⟩

/-- definedness of a special day with swift `k`: exists exactly when reference + k days stays inside the calendar. -/
theorem special_day_defined (R : DateTime) (hv : R.date.valid = true) (k : Int)
    (h1 : 1 ≤ (R.date.ord : Int) + k) (h2 : (R.date.ord : Int) + k ≤ maxOrd) : ∃ r, specialDay R k = some r := by
  unfold specialDay
  rw [safeCreate_valid R.date hv]
  obtain ⟨r, hr⟩ := addDays_isSome ⟨R.date, 0⟩ k h1 h2
  exact ⟨(luisDateOf r, r), by simp [hr]⟩

/-- today / tomorrow / yesterday exist for every reference except the two ends of the calendar. -/
theorem today_tomorrow_yesterday_defined (R : DateTime) (hv : R.date.valid = true) :
    (∃ r, specialDay R 0 = some r) ∧ (R.date.ord < maxOrd → ∃ r, specialDay R 1 = some r) ∧
    (2 ≤ R.date.ord → ∃ r, specialDay R (-1) = some r) := by
  have rr := ord_range R.date hv
  exact ⟨special_day_defined R hv 0 (by omega) (by omega), fun h => special_day_defined R hv 1 (by omega) (by omega),
    fun h => special_day_defined R hv (-1) (by omega) (by omega)⟩

/-- definedness of this / next / last week (any shift `k`): exists whenever the reference's OWN week lies inside the
calendar (the code first computes Thursday / Monday / Sunday of the reference's week: in the last, incomplete week of year
9999 `this(ref, SUNDAY)` overflows whatever the shift — witness below), the Monday of the shifted week is not before
0001-01-01 and the Monday after it not after 9999-12-31. -/
theorem week_period_defined (R : DateTime) (hv : R.date.valid = true) (k : Int)
    (hin : mondayOrd R.date.ord + 6 ≤ maxOrd)
    (h1 : 1 ≤ (mondayOrd R.date.ord : Int) + 7 * k) (h2 : (mondayOrd R.date.ord : Int) + 7 * k + 7 ≤ maxOrd) :
    ∃ r, weekPeriod R k = some r := by
  have m := mondayOrd_spec R.date.ord (ord_range R.date hv).1
  have rr := ord_range R.date hv
  have t4 : target 4 = 4 := by decide
  have t1 : target 1 = 1 := by decide
  have t7 : target 7 = 7 := by decide
  obtain ⟨a, ha⟩ := this_defined R hv 4 (by rw [t4]; omega)
  obtain ⟨b, hb⟩ := this_defined R hv 1 (by rw [t1]; omega)
  obtain ⟨c, hc⟩ := this_defined R hv 7 (by rw [t7]; omega)
  have sa := this_spec R hv 4 a ha
  have sb := this_spec R hv 1 b hb
  have sc := this_spec R hv 7 c hc
  rw [t4] at sa; rw [t1] at sb; rw [t7] at sc
  obtain ⟨a', ha'⟩ := addDays_isSome a (7 * k) (by omega) (by omega)
  obtain ⟨b', hb'⟩ := addDays_isSome b (7 * k) (by omega) (by omega)
  obtain ⟨c', hc'⟩ := addDays_isSome c (7 * k) (by omega) (by omega)
  have sc' := addDays_spec c sc.1 (7 * k) c' hc'
  obtain ⟨e, he⟩ := addDays_isSome c' 1 (by omega) (by omega)
  refine ⟨(pad 4 a'.date.y ++ [45, 87] ++ pad 2 (isoCalendar a'.date).2.1, b', e), ?_⟩
  unfold weekPeriod
  simp only [ha, hb, hc, Option.bind_some, addDelta_days a sa.1, addDelta_days b sb.1, addDelta_days c sc.1, ha', hb', hc',
    addDelta_days c' sc'.1, he]

/-- the guard `hin` is needed: "last week" asked on 9999-12-31 (a Friday) raises although last week exists. -/
example : weekPeriod ⟨⟨9999, 12, 31⟩, 0⟩ (-1) = none := by decide

/-- definedness of this / next / last year (any shift `k`): exists whenever both the shifted year and the year after it
are inside 1..9999. -/
theorem year_period_defined (R : DateTime) (hv : R.date.valid = true) (k : Int)
    (h1 : 1 ≤ (R.date.y : Int) + k) (h2 : (R.date.y : Int) + k + 1 ≤ 9999) : ∃ r, yearPeriod R k = some r := by
  obtain ⟨tmp, ht⟩ := datedeltaAdd_years_isSome R.date hv k h1 (by omega)
  have hy := datedeltaAdd_years R.date hv k tmp ht
  have v31 : (⟨tmp.y, 12, 31⟩ : Date).valid = true := by
    have := (valid_iff tmp).1 hy.1
    simp [Date.valid, daysInMonth, this.1, this.2.1]
  have sc := safeCreate_ymd tmp.y 12 31 v31
  have o := ord_range ⟨tmp.y, 12, 31⟩ v31
  have lt : (⟨tmp.y, 12, 31⟩ : Date).ord < maxOrd := by
    have v2 : (⟨tmp.y + 1, 1, 1⟩ : Date).valid = true := by
      have : tmp.y + 1 ≤ 9999 := by omega
      simp [Date.valid, daysInMonth, this]
    have := ord_lt_of_lexLt ⟨tmp.y, 12, 31⟩ ⟨tmp.y + 1, 1, 1⟩ v31 v2 (by simp [Date.lexLt])
    have := ord_range ⟨tmp.y + 1, 1, 1⟩ v2
    omega
  obtain ⟨e, he⟩ := addDays_isSome ⟨⟨tmp.y, 12, 31⟩, 0⟩ 1 (by simp only; omega) (by simp only; omega)
  refine ⟨(pad 4 tmp.y, safeCreateFromMinValue tmp.y 1 1, e), ?_⟩
  unfold yearPeriod addDelta
  simp only [ht, Option.map_some, Option.bind_some]
  rw [sc]
  have := addDelta_days ⟨⟨tmp.y, 12, 31⟩, 0⟩ v31 1
  unfold addDelta at this
  rw [this, he]
  rfl
end RTV.DateUtils
