import RTV.Lemmas.NumExtractLit
import RTV.Gen.NumRegexIndex
import RTV.Gen.ReTables
import RTV.Gen.NumFollow
import RTV.Gen.CharTables
import RTV.Model.Preprocess
/-!
# C03 — the EXTRACTION front end: a digit literal is recognised as ONE entity covering the WHOLE literal

Subject: `recognizers_number/number/extractors.py` `BaseNumberExtractor.extract` run with the DIGIT FAMILY of each
culture's extractor list (the `IntegerNum` / `DoubleNum` regexes that consume digits, blanks and punctuation only —
RTV/Gen/NumRegex*.lean, regenerated from the pattern texts of the REAL extractor objects, both for
`NumberMode.DEFAULT` and for `NumberMode.PURE_NUMBER` = what `NumberRecognizer` builds), `_generate_format_regex`,
`BaseNumbers.IntegerRegexDefinition` / `DoubleRegexDefinition`.  Model: `RTV.NumExtract.extract` = leftmost
non-overlapping `finditer` of every family regex (`RTV.Re.findAll`, backtracking priority order) + the `matched[]`
sweep with its exact-span `src_match` lookup + negative-term widening + `_filter_ambiguity`.

Proved here ABOUT THE DIGIT FAMILY, for ALL literals (any number of thousands groups, any number of decimals, either
sign) and ALL carriers `pre ++ literal ++ post` (`pre` empty or ending in a blank and free of digits, `-`, `.`, `,`;
`post` empty or starting with a blank, free of digits, and — `PostOK.noFollower` — not beginning with a word that
CONTINUES a literal in that culture's full list: multiplier suffixes `k m b …`, round-number words `thousand dozen …`,
fraction connectors `over in out …`, regenerated in RTV/Gen/NumFollow.lean.  That the remaining entries of the real
extractor list (23 in English) add nothing on such carriers is NOT a theorem: it is the `family` / `follower` tie of
harness/lib/numextractcorr.py, run on the carriers of these theorems; `post_b_excluded`, `post_k_excluded`,
`post_dozen_excluded` show the carriers `a 7777 b`, `total 1,234,567 k`, `… dozen` are outside the contract, and
`family_ignores_follower_witness` that the family alone would report the bare literal there while the real list reports
`7777 b` / `1,234,567 k` / nothing (`total 1,234,567 dozen`: a recorded finding)):
* `gen_integer_definitions`, `gen_double_definitions`: the regenerated ASTs ARE `IntegerRegexDefinition(placeholder, mark)` /
  `DoubleRegexDefinition(placeholder, mark, mark)` of the model (a changed f-string, e.g. a capped group repetition,
  breaks these);
* `families_ok`: every regex of every regenerated family can only match something that begins with a sign, digit or
  mark and ends with a digit (so no match can leak into the carrier);
* `grouped_literal_extracted`: grouped integers, cultures en-us, es-es, fr-fr, pt-br, it-it, both modes;
* `grouped_decimal_literal_extracted`: grouped decimals, all eight cultures, both modes;
  both by `integerDef_first` / `doubleDef_first_*` (RTV/Lemmas/NumExtractDef.lean: induction over the number of groups
  through `rep_det_cons`) and `extract_single`;
* witnesses where the REAL regexes lose a well-formed literal (not demanded by the check's contract, see
  harness/corr/c03.py `demanded`): `de_plain_decimal_split_witness`, `nl_plain_decimal_split_witness`,
  `de_negative_grouped_witness`, `esmx_two_groups_split_witness`.
Plain integers and plain decimals (NumbersWithPlaceHolder, DoubleDecimalPointRegex: per-culture sign prefixes):
`RTV.Props.C03ExtractPlain` (universal, the cultures whose regex has the common form) and
`RTV.Props.C03ExtractBounded` (kernel evaluation on bounded instances, all configurations); everything is also tied by
the correspondence (harness/lib/numextractcorr.py).  The full `extract` adds the hypothesis `QuietAt` (no negative term
ends at the literal, no ambiguity-filter match meets it); `grouped_literal_sweep` is the statement for the sweep alone.
-/
namespace RTV.Props.C03Extract
open RTV.Py RTV.Re RTV.Span RTV.Num RTV.NumExtract RTV.Gen.NumRegex

/-! ## the engine's tables -/

set_option maxRecDepth 100000

theorem tables_ok : TablesOK RTV.Gen.reTables := by
  refine ⟨?_, ?_, ?_, by decide +kernel, by decide +kernel, by decide +kernel, by decide +kernel, by decide +kernel,
    by decide +kernel, by decide +kernel, by decide +kernel⟩
  all_goals
    intro c h1 h2
    have : c = 48 ∨ c = 49 ∨ c = 50 ∨ c = 51 ∨ c = 52 ∨ c = 53 ∨ c = 54 ∨ c = 55 ∨ c = 56 ∨ c = 57 := by omega
    rcases this with rfl | rfl | rfl | rfl | rfl | rfl | rfl | rfl | rfl | rfl <;> decide +kernel

/-! ## the regenerated regexes are the definitions -/

/-- `_generate_format_regex(LongFormatMode.INTEGER_<mark>, placeholder)` of every extractor, both modes -/
theorem gen_integer_definitions :
    enDefault_r2 = integerRegexDefinition placeHolderDefault 44 ∧ enPure_r2 = integerRegexDefinition placeHolderPure 44 ∧
    esDefault_r2 = integerRegexDefinition placeHolderDefaultEu 46 ∧ esPure_r2 = integerRegexDefinition placeHolderPure 46 ∧
    frDefault_r2 = integerRegexDefinition placeHolderDefaultEu 46 ∧ frPure_r2 = integerRegexDefinition placeHolderPure 46 ∧
    ptDefault_r2 = integerRegexDefinition placeHolderDefaultEu 46 ∧ ptPure_r2 = integerRegexDefinition placeHolderPure 46 ∧
    itDefault_r2 = integerRegexDefinition placeHolderDefaultEu 46 ∧ itPure_r2 = integerRegexDefinition placeHolderPure 46 ∧
    deDefault_r2 = integerRegexDefinition placeHolderDefaultEu 44 ∧ dePure_r2 = integerRegexDefinition placeHolderPure 44 ∧
    nlDefault_r2 = integerRegexDefinition placeHolderDefaultEu 44 ∧ nlPure_r2 = integerRegexDefinition placeHolderPure 44 := by
  decide

/-- `_generate_format_regex(LongFormatMode.DOUBLE_<mark>_<mark>, placeholder)` -/
theorem gen_double_definitions :
    enDefault_r11 = doubleRegexDefinition placeHolderDefault 44 46 ∧ enPure_r11 = doubleRegexDefinition placeHolderPure 44 46 ∧
    esDefault_r16 = doubleRegexDefinition placeHolderDefaultEu 46 44 ∧ esPure_r16 = doubleRegexDefinition placeHolderPure 46 44 ∧
    frDefault_r11 = doubleRegexDefinition placeHolderDefaultEu 46 44 ∧ frPure_r11 = doubleRegexDefinition placeHolderPure 46 44 ∧
    ptDefault_r16 = doubleRegexDefinition placeHolderDefaultEu 46 44 ∧ ptPure_r16 = doubleRegexDefinition placeHolderPure 46 44 ∧
    itDefault_r11 = doubleRegexDefinition placeHolderDefaultEu 44 46 ∧ itPure_r11 = doubleRegexDefinition placeHolderPure 44 46 ∧
    deDefault_r11 = doubleRegexDefinition placeHolderDefaultEu 44 46 ∧ dePure_r11 = doubleRegexDefinition placeHolderPure 44 46 ∧
    nlDefault_r11 = doubleRegexDefinition placeHolderDefaultEu 46 44 ∧ nlPure_r11 = doubleRegexDefinition placeHolderPure 46 44 := by
  decide

/-- `generateFormatRegex` dispatches on the decimals mark as `_generate_format_regex` does -/
theorem generate_format_regex_cases (ph : RE) (t d : Nat) :
    generateFormatRegex ⟨t, none⟩ ph = integerRegexDefinition ph t ∧
    generateFormatRegex ⟨t, some d⟩ ph = doubleRegexDefinition ph t d := ⟨rfl, rfl⟩

/-- every family regex begins with a sign / digit / mark and ends with a digit -/
theorem families_ok : ∀ e ∈ allExt, FamilyOK e.2.fam = true := by decide

/-! ## configurations -/

/-- an extractor list together with the marks a culture writes -/
structure Cfg where
  ext : Ext
  ph : RE
  g : Nat
  d : Nat
  /-- index of the list entry made by `_generate_format_regex(LongFormatMode.DOUBLE_…)` for comma and dot -/
  didx : Nat
  /-- the words that continue a literal in this extractor's full list (RTV/Gen/NumFollow.lean) -/
  follow : List Str

/-- `str.lower()` of one character where that is one character (regenerated table) -/
def lowerC : Nat → Nat := RTV.Preprocess.lowerSimple RTV.Gen.lowerPairs

/-- the follower test of `PostOK` for a follower list -/
def folOf (follow : List Str) : Str → Bool := isFollower RTV.Gen.reTables lowerC follow

/-- cultures whose family contains `IntegerRegexDefinition` for their OWN grouping mark, both modes -/
def groupedCfgs : List Cfg := [
  ⟨enDefaultExt, placeHolderDefault, 44, 46, 11, Gen.NumFollow.en⟩,
  ⟨enPureExt, placeHolderPure, 44, 46, 11, Gen.NumFollow.en⟩,       -- en-us
  ⟨esDefaultExt, placeHolderDefaultEu, 46, 44, 16, Gen.NumFollow.es⟩,
  ⟨esPureExt, placeHolderPure, 46, 44, 16, Gen.NumFollow.es⟩,       -- es-es
  ⟨frDefaultExt, placeHolderDefaultEu, 46, 44, 11, Gen.NumFollow.fr⟩,
  ⟨frPureExt, placeHolderPure, 46, 44, 11, Gen.NumFollow.fr⟩,       -- fr-fr
  ⟨ptDefaultExt, placeHolderDefaultEu, 46, 44, 16, Gen.NumFollow.pt⟩,
  ⟨ptPureExt, placeHolderPure, 46, 44, 16, Gen.NumFollow.pt⟩,       -- pt-br
  ⟨itDefaultExt, placeHolderDefaultEu, 46, 44, 11, Gen.NumFollow.it⟩,
  ⟨itPureExt, placeHolderPure, 46, 44, 11, Gen.NumFollow.it⟩]       -- it-it

/-- all eight cultures (es-mx = the Spanish list with `,` `.`), both modes -/
def allCfgs : List Cfg := groupedCfgs ++ [
  ⟨esDefaultExt, placeHolderDefaultEu, 44, 46, 16, Gen.NumFollow.es⟩,
  ⟨esPureExt, placeHolderPure, 44, 46, 16, Gen.NumFollow.es⟩,       -- es-mx
  ⟨deDefaultExt, placeHolderDefaultEu, 46, 44, 11, Gen.NumFollow.de⟩,
  ⟨dePureExt, placeHolderPure, 46, 44, 11, Gen.NumFollow.de⟩,       -- de-de
  ⟨nlDefaultExt, placeHolderDefaultEu, 46, 44, 11, Gen.NumFollow.nl⟩,
  ⟨nlPureExt, placeHolderPure, 46, 44, 11, Gen.NumFollow.nl⟩]       -- nl-nl

/-- the marks of the configurations are the marks of the regenerated culture table -/
theorem cfg_marks_regenerated :
    cultures.map (fun c => (c.2.2.1, c.2.2.2)) =
      [(44, 46), (46, 44), (44, 46), (46, 44), (46, 44), (46, 44), (46, 44), (46, 44)] := by decide

theorem grouped_cfg_has_definition : ∀ c ∈ groupedCfgs,
    IsPlaceHolder c.ph ∧ (c.g = 44 ∨ c.g = 46) ∧ FamilyOK c.ext.fam = true ∧
      (2, integerRegexDefinition c.ph c.g) ∈ c.ext.fam := by
  unfold IsPlaceHolder
  decide

theorem all_cfg_has_definition : ∀ c ∈ allCfgs,
    IsPlaceHolder c.ph ∧ (c.g = 44 ∨ c.g = 46) ∧ (c.d = 44 ∨ c.d = 46) ∧ c.g ≠ c.d ∧ FamilyOK c.ext.fam = true ∧
      ((c.didx, doubleRegexDefinition c.ph c.g c.d) ∈ c.ext.fam ∨ (c.didx, doubleRegexDefinition c.ph c.d c.g) ∈ c.ext.fam) := by
  unfold IsPlaceHolder
  decide

/-! ## literals -/

theorem text_grouped (g d : Nat) (l : Literal) (a : List Nat) (rest : List (List Nat)) (hg : l.groups = a :: rest)
    (hf : l.frac = none) : l.text g d = groupedIntText g l.neg a rest := by
  simp [Literal.text, hg, hf, joinGroups_cons, groupedIntText, signText, List.append_assoc]

theorem text_groupedDecimal (g d : Nat) (l : Literal) (a : List Nat) (rest : List (List Nat)) (F : List Nat)
    (hg : l.groups = a :: rest) (hf : l.frac = some F) : l.text g d = groupedDecText g d l.neg a rest F := by
  simp [Literal.text, Literal.fracDigits, hg, hf, joinGroups_cons, groupedDecText, groupedIntText, signText,
    List.append_assoc]

theorem shape_grouped {l : Literal} (h : l.shape = .grouped) : l.frac = none ∧ 1 < l.groups.length := by
  unfold Literal.shape at h
  cases h2 : l.frac <;> cases h1 : decide (l.groups.length ≤ 1) <;> simp [h1, h2] at h
  simp at h1
  exact ⟨rfl, h1⟩

theorem shape_groupedDecimal {l : Literal} (h : l.shape = .groupedDecimal) :
    (∃ F, l.frac = some F) ∧ 1 < l.groups.length := by
  unfold Literal.shape at h
  cases h2 : l.frac <;> cases h1 : decide (l.groups.length ≤ 1) <;> simp [h1, h2] at h
  simp at h1
  exact ⟨⟨_, rfl⟩, h1⟩

/-- `str.isspace` is false on ASCII digits (the only thing the theorems need of it) -/
def SpaceOK (sp : Nat → Bool) : Prop := ∀ c, isDig c → sp c = false

/-- the other two inputs of `extract` do not interfere at the literal -/
def QuietAt (T : Tables) (e : Ext) (src : Str) (a n : Nat) : Prop :=
  Quiet (negSpan T src e.neg) (ambMatches T src.toArray e.amb) a (a + n)

/-- **Grouped integers** (`1,234,567` / `-1.234`, any number of groups): in every culture of `groupedCfgs`, in both
modes, for every carrier, the model extractor returns exactly one result, at the literal's position, of the literal's
length, with the literal as text. -/
theorem grouped_literal_extracted : ∀ c ∈ groupedCfgs, ∀ (sp : Nat → Bool), SpaceOK sp →
    ∀ (l : Literal), l.WellFormed → l.Grouped3 → l.shape = .grouped →
    ∀ (pre post : Str), PreOK RTV.Gen.reTables pre → PostOK RTV.Gen.reTables (folOf c.follow) post →
      QuietAt RTV.Gen.reTables c.ext (pre ++ l.text c.g c.d ++ post) pre.length (l.text c.g c.d).length →
      ∃ tag, extract RTV.Gen.reTables sp c.ext (pre ++ l.text c.g c.d ++ post) =
        [⟨pre.length, (l.text c.g c.d).length, strip sp (l.text c.g c.d), tag⟩] := by
  intro c hc sp hsp l hw hg3 hs pre post hpre hpost hq
  obtain ⟨hph, hm, hfam, hidx⟩ := grouped_cfg_has_definition c hc
  obtain ⟨hfr, hlen⟩ := shape_grouped hs
  unfold Literal.Grouped3 at hg3
  cases hgr : l.groups with
  | nil => simp [hgr] at hg3
  | cons a rest =>
    rw [hgr] at hg3 hlen
    simp only at hg3
    have hrest : rest ≠ [] := by
      intro h; subst h; simp at hlen
    ·
      have htext := text_grouped c.g c.d l a rest hgr hfr
      rw [htext] at hq ⊢
      have hd := hw.digits
      rw [hgr] at hd
      obtain ⟨tag, _, heq⟩ := extract_groupedInt tables_ok sp hsp c.ext.fam hfam hph hm hidx pre post hpre hpost l.neg a
        rest ⟨hg3.1, hg3.2.1⟩ (hd a (by simp)) hrest
        (fun grp hgm => ⟨hg3.2.2.2 grp hgm, hd grp (by simp [hgm])⟩) _ _ hq
      exact ⟨tag, heq⟩

/-- **Grouped decimals** (`1,234,567.89` / `-1.234,5`): all eight cultures (es-mx, de-de, it-it through the SECOND
branch of the other marks' `DoubleRegexDefinition`), both modes, every carrier: exactly one result = the literal. -/
theorem grouped_decimal_literal_extracted : ∀ c ∈ allCfgs, ∀ (sp : Nat → Bool), SpaceOK sp →
    ∀ (l : Literal), l.WellFormed → l.Grouped3 → l.shape = .groupedDecimal → 1 ≤ l.fracDigits.length →
    ∀ (pre post : Str), PreOK RTV.Gen.reTables pre → PostOK RTV.Gen.reTables (folOf c.follow) post →
      QuietAt RTV.Gen.reTables c.ext (pre ++ l.text c.g c.d ++ post) pre.length (l.text c.g c.d).length →
      ∃ tag, extract RTV.Gen.reTables sp c.ext (pre ++ l.text c.g c.d ++ post) =
        [⟨pre.length, (l.text c.g c.d).length, strip sp (l.text c.g c.d), tag⟩] := by
  intro c hc sp hsp l hw hg3 hs hfl pre post hpre hpost hq
  obtain ⟨hph, hm, hdm, hmd, hfam, hidx⟩ := all_cfg_has_definition c hc
  obtain ⟨⟨F, hfr⟩, hlen⟩ := shape_groupedDecimal hs
  unfold Literal.Grouped3 at hg3
  cases hgr : l.groups with
  | nil => simp [hgr] at hg3
  | cons a rest =>
    rw [hgr] at hg3 hlen
    simp only at hg3
    have hrest : rest ≠ [] := by
      intro h; subst h; simp at hlen
    ·
      have htext := text_groupedDecimal c.g c.d l a rest F hgr hfr
      rw [htext] at hq ⊢
      have hd := hw.digits
      rw [hgr] at hd
      have hfd := hw.fdigits
      simp only [Literal.fracDigits, hfr, Option.getD_some] at hfd hfl
      obtain ⟨tag, _, heq⟩ := extract_groupedDec tables_ok sp hsp c.ext.fam hfam hph hm hdm hmd hidx pre post hpre
        hpost l.neg a rest F ⟨hg3.1, hg3.2.1⟩ (hd a (by simp)) hrest
        (fun grp hgm => ⟨hg3.2.2.2 grp hgm, hd grp (by simp [hgm])⟩) hfl hfd _ _ hq
      exact ⟨tag, heq⟩

/-- the sweep alone (`extractCore`: no negative terms, no ambiguity filters) needs no `QuietAt` -/
theorem grouped_literal_sweep : ∀ c ∈ groupedCfgs, ∀ (sp : Nat → Bool), SpaceOK sp →
    ∀ (l : Literal), l.WellFormed → l.Grouped3 → l.shape = .grouped →
    ∀ (pre post : Str), PreOK RTV.Gen.reTables pre → PostOK RTV.Gen.reTables (folOf c.follow) post →
      ∃ tag, extractCore RTV.Gen.reTables sp c.ext.fam (pre ++ l.text c.g c.d ++ post) =
        [⟨pre.length, (l.text c.g c.d).length, strip sp (l.text c.g c.d), tag⟩] := by
  intro c hc sp hsp l hw hg3 hs pre post hpre hpost
  obtain ⟨hph, hm, hfam, hidx⟩ := grouped_cfg_has_definition c hc
  obtain ⟨hfr, hlen⟩ := shape_grouped hs
  unfold Literal.Grouped3 at hg3
  cases hgr : l.groups with
  | nil => simp [hgr] at hg3
  | cons a rest =>
    rw [hgr] at hg3 hlen
    simp only at hg3
    have hrest : rest ≠ [] := by
      intro h; subst h; simp at hlen
    have htext := text_grouped c.g c.d l a rest hgr hfr
    rw [htext]
    have hd := hw.digits
    rw [hgr] at hd
    obtain ⟨tag, _, heq⟩ := extract_groupedInt tables_ok sp hsp c.ext.fam hfam hph hm hidx pre post hpre hpost l.neg a
      rest ⟨hg3.1, hg3.2.1⟩ (hd a (by simp)) hrest
      (fun grp hgm => ⟨hg3.2.2.2 grp hgm, hd grp (by simp [hgm])⟩) _ _ (quiet_plain _ _)
    exact ⟨tag, heq⟩

/-! ## the hypotheses are satisfiable; concrete instances -/

/-- a blank test for the concrete instances (`str.isspace` restricted to what occurs in them) -/
def spB (c : Nat) : Bool := c == 32

theorem spB_ok : SpaceOK spB := by
  intro c h; unfold isDig at h; unfold spB; simp; omega

def spans (l : List ER) : List (Nat × Nat) := l.map fun e => (e.start, e.len)

/-- `total 1,234,567 .` -/
example : PreOK RTV.Gen.reTables [116, 111, 116, 97, 108, 32] ∧
    PostOK RTV.Gen.reTables (folOf RTV.Gen.NumFollow.en) [32, 46] := by
  refine ⟨⟨Or.inr rfl, ?_⟩, ⟨Or.inr rfl, ?_, ?_⟩⟩ <;> decide +kernel

/-- `-1,234,567` standing alone is quiet for the English list: `minus` / `the one` are nowhere -/
example : QuietAt RTV.Gen.reTables enDefaultExt [45, 49, 44, 50, 51, 52, 44, 53, 54, 55] 0 10 := by
  refine ⟨by decide +kernel, ?_⟩
  have : ambMatches RTV.Gen.reTables [45, 49, 44, 50, 51, 52, 44, 53, 54, 55].toArray enDefaultExt.amb = [] := by
    decide +kernel
  rw [this]; intro amb h; cases h

example : spans (extract RTV.Gen.reTables spB enDefaultExt
    [116, 111, 116, 97, 108, 32, 45, 49, 44, 50, 51, 52, 44, 53, 54, 55, 32, 46]) = [(6, 10)] := by decide +kernel

/-! ## where the real regexes lose a well-formed literal (the check's contract does not demand these forms) -/

/-- de-de `1234,5`: DoubleDecimalPointRegex is `\d{1,3}(\.\d{3})*(,\d+)?`, the plain integer regex stops at the comma -/
theorem de_plain_decimal_split_witness :
    spans (extract RTV.Gen.reTables spB deDefaultExt [49, 50, 51, 52, 44, 53]) = [(0, 4), (5, 1)] ∧
    spans (extract RTV.Gen.reTables spB dePureExt [49, 50, 51, 52, 44, 53]) = [(0, 4), (5, 1)] := by decide +kernel

theorem nl_plain_decimal_split_witness :
    spans (extract RTV.Gen.reTables spB nlDefaultExt [49, 50, 51, 52, 44, 53]) = [(0, 4), (5, 1)] ∧
    spans (extract RTV.Gen.reTables spB nlPureExt [49, 50, 51, 52, 44, 53]) = [(0, 4), (5, 1)] := by decide +kernel

/-- de-de / nl-nl `-1.000`: no integer format uses `.` as thousands mark, DoubleDecimalPointRegex has no sign branch
and its `(?<=\b)` fails after `-`: NOTHING is extracted (the digit family alone; the full list agrees, see the
correspondence) -/
theorem de_negative_grouped_witness :
    extract RTV.Gen.reTables spB deDefaultExt [45, 49, 46, 48, 48, 48] = [] ∧
    extract RTV.Gen.reTables spB dePureExt [45, 49, 46, 48, 48, 48] = [] ∧
    extract RTV.Gen.reTables spB nlDefaultExt [45, 49, 46, 48, 48, 48] = [] := by decide +kernel

/-- es-mx `1,000,000`: the Spanish list only has dot-grouping integer formats; one comma group is read by
`\d+[\.,]\d+` (`1,000` is ONE result), two are not -/
theorem esmx_two_groups_split_witness :
    spans (extract RTV.Gen.reTables spB esDefaultExt [49, 44, 48, 48, 48, 44, 48, 48, 48]) = [(0, 1), (2, 3), (6, 3)] ∧
    spans (extract RTV.Gen.reTables spB esPureExt [49, 44, 48, 48, 48, 44, 48, 48, 48]) = [(0, 1), (2, 3), (6, 3)] ∧
    spans (extract RTV.Gen.reTables spB esDefaultExt [49, 44, 48, 48, 48]) = [(0, 5)] := by decide +kernel

/-! ## the right context: what the carrier contract excludes, and why (audit item 13) -/

/-- ` b` (as in `a 7777 b`: `b` = billion suffix of `NumbersWithSuffix`) is NOT an admissible right context, in any
configuration -/
theorem post_b_excluded : ∀ c ∈ allCfgs, ¬ PostOK RTV.Gen.reTables (folOf c.follow) [32, 98] := by
  have h : (allCfgs.all fun c => folOf c.follow [32, 98]) = true := by decide +kernel
  intro c hc hp
  have := List.all_eq_true.1 h c hc
  rw [hp.noFollower] at this
  cases this

/-- ` k` (as in `total 1,234,567 k`), ` K`, `  k.` are not admissible either -/
theorem post_k_excluded : ∀ c ∈ allCfgs, ¬ PostOK RTV.Gen.reTables (folOf c.follow) [32, 107] ∧
    ¬ PostOK RTV.Gen.reTables (folOf c.follow) [32, 75] ∧ ¬ PostOK RTV.Gen.reTables (folOf c.follow) [32, 32, 107, 46] := by
  have h : (allCfgs.all fun c => folOf c.follow [32, 107] && folOf c.follow [32, 75] &&
      folOf c.follow [32, 32, 107, 46]) = true := by decide +kernel
  intro c hc
  have := List.all_eq_true.1 h c hc
  simp only [Bool.and_eq_true] at this
  refine ⟨fun hp => ?_, fun hp => ?_, fun hp => ?_⟩
  · rw [hp.noFollower] at this; simp at this
  · rw [hp.noFollower] at this; simp at this
  · rw [hp.noFollower] at this; simp at this

/-- ` dozen` and ` thousand` after an English literal are not admissible -/
theorem post_dozen_excluded :
    ¬ PostOK RTV.Gen.reTables (folOf Gen.NumFollow.en) [32, 100, 111, 122, 101, 110] ∧
    ¬ PostOK RTV.Gen.reTables (folOf Gen.NumFollow.en) [32, 116, 104, 111, 117, 115, 97, 110, 100] := by
  have h : (folOf Gen.NumFollow.en [32, 100, 111, 122, 101, 110] &&
      folOf Gen.NumFollow.en [32, 116, 104, 111, 117, 115, 97, 110, 100]) = true := by decide +kernel
  simp only [Bool.and_eq_true] at h
  refine ⟨fun hp => ?_, fun hp => ?_⟩
  · rw [hp.noFollower] at h; simp at h
  · rw [hp.noFollower] at h; simp at h

/-- ordinary right contexts ARE admissible in every configuration: ` .`, ` zq.`, ` yesterday` (the contract is not
vacuous) -/
theorem post_ordinary_ok : ∀ c ∈ allCfgs, PostOK RTV.Gen.reTables (folOf c.follow) [32, 46] ∧
    PostOK RTV.Gen.reTables (folOf c.follow) [32, 122, 113, 46] ∧
    PostOK RTV.Gen.reTables (folOf c.follow) [32, 121, 101, 115, 116, 101, 114, 100, 97, 121] := by
  have h : (allCfgs.all fun c => !folOf c.follow [32, 46] && !folOf c.follow [32, 122, 113, 46] &&
      !folOf c.follow [32, 121, 101, 115, 116, 101, 114, 100, 97, 121]) = true := by decide +kernel
  intro c hc
  have := List.all_eq_true.1 h c hc
  simp only [Bool.and_eq_true, Bool.not_eq_true'] at this
  refine ⟨⟨Or.inr rfl, ?_, this.1.1⟩, ⟨Or.inr rfl, ?_, this.1.2⟩, ⟨Or.inr rfl, ?_, this.2⟩⟩ <;> decide +kernel

/-- What the digit family ALONE reports on the excluded carriers: the bare literal.  The real English list reports
`7777 b` (2, 6), `1,234,567 k` (6, 11) and NOTHING for `total 1,234,567 dozen` (the union `1,234,567 dozen` of the
matches of `IntegerRegexDefinition` and `\d+\s+dozen` is the span of no single match: the `matched[]` sweep drops it —
finding `number:en-us:grouped:dozen-suffix:no-entity`); replayed by harness/lib/numextractcorr.py (`follower` tie). -/
theorem family_ignores_follower_witness :
    spans (extract RTV.Gen.reTables spB enDefaultExt [97, 32, 55, 55, 55, 55, 32, 98]) = [(2, 4)] ∧
    spans (extract RTV.Gen.reTables spB enDefaultExt
      [116, 111, 116, 97, 108, 32, 49, 44, 50, 51, 52, 44, 53, 54, 55, 32, 107]) = [(6, 9)] ∧
    spans (extract RTV.Gen.reTables spB enDefaultExt
      [116, 111, 116, 97, 108, 32, 49, 44, 50, 51, 52, 44, 53, 54, 55, 32, 100, 111, 122, 101, 110]) = [(6, 9)] := by
  decide +kernel

end RTV.Props.C03Extract
