import RTV.Props.C11
import RTV.Lemmas.Holiday
import RTV.Gen.Holiday
/-!
# C11 for holiday entities

`BaseHolidayParser` builds its values from `datetime` objects returned by the holiday date functions
(`get_day`-based "k-th <weekday> of <month>" and fixed month/day functions).  The function tables below are
**translated from the source text of the working tree on every run** (`RTV.Gen.holidayCultures`,
`harness/translate/holiday.py`), so the table facts are re-decided by the kernel against what the code says now.

* `holiday_values_wellformed` — whatever the table, the key, the year / "next|last|this" word and the reference: when
  `_match2date` returns, every value the model emits for the entity is a valid calendar date or `'not resolved'`.
* `holiday_definite_agrees` — with an explicit year and a fixed-date holiday the TIMEX is `YYYY-MM-DD` and the single
  value equals it.
* `holiday_fn_never_raises` / `holiday_tables_sane` — every shipped function of every culture (except the ones the
  translator cannot classify, listed by `holiday_unknown_functions`) returns a valid date of the asked year for EVERY
  year 1..9999; `holiday_nth_weekday` / `holiday_last_weekday`: that date is the (k+1)-th / last <weekday> of the month.
-/
namespace RTV.Holiday
open RTV.Cal RTV.WF

/-- a sane function never raises for a year `datetime` accepts, and answers with a valid date of that year -/
theorem holiday_fn_never_raises (f : Fn) (hs : f.sane = true) (y : Nat) (hy1 : 1 ≤ y) (hy2 : y ≤ 9999) :
    ∃ x, f.eval y = some x ∧ x.valid = true ∧ (f = .minValue ∨ x.y = y) := by
  cases f with
  | fixed mo d =>
    simp only [Fn.sane, decide_eq_true_eq] at hs
    have hle := daysInMonth_year1_le y mo
    refine ⟨⟨y, mo, d⟩, ?_, ?_, Or.inr rfl⟩
    · simp [Fn.eval, mkDate, Date.valid]; omega
    · simp [Date.valid]; omega
  | nth mo mi k dow =>
    simp only [Fn.sane, decide_eq_true_eq] at hs
    obtain ⟨hmm, h1, h2, hk0, hk3, hd1, hd2⟩ := hs
    subst hmm
    obtain ⟨kn, rfl⟩ : ∃ kn : Nat, k = (kn : Int) := ⟨k.toNat, by omega⟩
    obtain ⟨d, hg, a, b, _, _, _⟩ := getDay_nth y mo kn dow h1 h2 (by omega) hd1 hd2
    refine ⟨⟨y, mo, d⟩, ?_, ?_, Or.inr rfl⟩
    · simp [Fn.eval, hg, mkDate, Date.valid]; omega
    · simp [Date.valid]; omega
  | last mo mi dow =>
    simp only [Fn.sane, decide_eq_true_eq] at hs
    obtain ⟨hmm, h1, h2, hd1, hd2⟩ := hs
    subst hmm
    obtain ⟨d, hg, a, b, _, _⟩ := getDay_last y mo dow h1 h2 hd1 hd2
    refine ⟨⟨y, mo, d⟩, ?_, ?_, Or.inr rfl⟩
    · simp [Fn.eval, hg, mkDate, Date.valid]; omega
    · simp [Date.valid]; omega
  | minValue => exact ⟨minDate, rfl, by decide, Or.inl rfl⟩
  | unknown => simp [Fn.sane] at hs

/-- "the (k+1)-th <weekday> of <month>": the date lies in days `7k+1 … 7k+7` of the month and falls on that weekday -/
theorem holiday_nth_weekday (mo k dow y : Nat) (h1 : 1 ≤ mo) (h2 : mo ≤ 12) (hk : k ≤ 3) (hd1 : 1 ≤ dow) (hd2 : dow ≤ 7)
    (hy1 : 1 ≤ y) (hy2 : y ≤ 9999) :
    ∃ d, (Fn.nth mo mo (k : Int) dow).eval y = some ⟨y, mo, d⟩ ∧ (Date.mk y mo d).weekday = dow - 1 ∧ 7 * k < d ∧ d ≤ 7 * k + 7 := by
  obtain ⟨d, hg, a, b, w, lo, hi⟩ := getDay_nth y mo k dow h1 h2 hk hd1 hd2
  refine ⟨d, ?_, w, lo, hi⟩
  simp [Fn.eval, hg, mkDate, Date.valid]; omega

/-- "the last <weekday> of <month>" -/
theorem holiday_last_weekday (mo dow y : Nat) (h1 : 1 ≤ mo) (h2 : mo ≤ 12) (hd1 : 1 ≤ dow) (hd2 : dow ≤ 7)
    (hy1 : 1 ≤ y) (hy2 : y ≤ 9999) :
    ∃ d, (Fn.last mo mo dow).eval y = some ⟨y, mo, d⟩ ∧ (Date.mk y mo d).weekday = dow - 1 ∧ d ≤ daysInMonth y mo ∧
      daysInMonth y mo < d + 7 := by
  obtain ⟨d, hg, a, b, w, hi⟩ := getDay_last y mo dow h1 h2 hd1 hd2
  refine ⟨d, ?_, w, b, hi⟩
  simp [Fn.eval, hg, mkDate, Date.valid]; omega

/-- the regenerated tables: every function of every culture is of a shape the model knows and is sane — except the ones
named by `holiday_unknown_functions` -/
theorem holiday_tables_sane :
    ∀ c ∈ RTV.Gen.holidayCultures, ∀ e ∈ c.2.1, e.2 = Fn.unknown ∨ e.2.sane = true := by
  decide +kernel

/-- the functions the translator could not classify (today: the Spanish Easter computation, `pascuas`) -/
theorem holiday_unknown_functions :
    (RTV.Gen.holidayCultures.map fun c => (c.2.1.filter fun e => e.2 == Fn.unknown).length).sum ≤ 1 := by
  decide +kernel

/-- `get_day` / `get_last_day` still read as the text `getDay` mirrors -/
theorem holiday_get_day_shape : RTV.Gen.getDayShape = true := by decide

theorem holidayFor_ok_valid (tdict : List (Str × Str)) (k : Str) (f : Fn) (year : Nat) (hasYear : Bool) (ref : DateTime)
    (r : Res) (h : holidayFor tdict k f year hasYear ref = .ok r) : r.future.valid = true ∧ r.past.valid = true := by
  unfold holidayFor at h
  split at h
  · cases h
  · rename_i value hev
    have hval := eval_valid f _ value hev
    split at h
    · cases h; exact ⟨by decide, by decide⟩
    · split at h
      · split at h
        · cases h
        · rename_i x hx
          cases h
          exact ⟨(mkDate_some hx).2, (mkDate_some hx).2⟩
      · split at h
        · rename_i fu pa hfu hpa
          cases h
          refine ⟨?_, ?_⟩
          · unfold futureValue at hfu
            split at hfu
            · exact eval_valid f _ fu hfu
            · cases hfu; exact hval
          · unfold pastValue at hpa
            split at hpa
            · cases hpa; exact hval
            · exact eval_valid f _ pa hpa
        · cases h

/-- when `_match2date` returns a result, both values are dates `datetime` accepts -/
theorem match2date_ok_valid (funcs : List (Str × Fn)) (tdict : List (Str × Str)) (key : Option Str) (yg : Option Nat)
    (sw : Option Int) (ref : DateTime) (r : Res) (h : match2date funcs tdict key yg sw ref = .ok r) :
    r.future.valid = true ∧ r.past.valid = true := by
  unfold match2date at h
  split at h
  · cases h
  · split at h
    · cases h
    · split at h
      · cases h
      · split at h
        · cases h
        · split at h
          · cases h
          · exact holidayFor_ok_valid _ _ _ _ _ _ r h

/-- **C11 for holidays.** Whatever the function table, the TIMEX dictionary, the holiday key, the year or
"next / last / this" word and the reference: every value emitted for a holiday entity is a valid calendar date
`YYYY-MM-DD` or `'not resolved'`. -/
theorem holiday_values_wellformed (funcs : List (Str × Fn)) (tdict : List (Str × Str)) (key : Option Str)
    (yg : Option Nat) (sw : Option Int) (ref : DateTime) (r : Res)
    (h : match2date funcs tdict key yg sw ref = .ok r) :
    ∀ v ∈ holidayValues r, shapeOK v = true := by
  obtain ⟨hf, hp⟩ := match2date_ok_valid funcs tdict key yg sw ref r h
  exact assembly_wellformed_date r.timex r.past r.future hp hf

theorem holidayFor_definite (tdict : List (Str × Str)) (k : Str) (f : Fn) (year : Nat) (ref : DateTime) (r : Res)
    (hk : dictGet tdict k = none) (h : holidayFor tdict k f year true ref = .ok r) (hne : r.timex ≠ []) :
    r.timex = formatDate r.future ∧ r.past = r.future ∧ r.future.valid = true := by
  have hv := (holidayFor_ok_valid _ _ _ _ _ _ r h).1
  unfold holidayFor at h
  split at h
  · cases h
  · split at h
    · cases h; simp at hne
    · simp only [if_true] at h
      split at h
      · cases h
      · rename_i x hx
        cases h
        have hx' := (mkDate_some hx).1
        subst hx'
        exact ⟨by simp [timexTail, hk, formatDate], rfl, hv⟩

/-- **C11, definite TIMEX.** With an explicit year and a holiday that has no variable-TIMEX tail, the TIMEX is the fully
definite `YYYY-MM-DD` of the computed date, past and future coincide, and every emitted value equals the TIMEX. -/
theorem holiday_definite_agrees (funcs : List (Str × Fn)) (tdict : List (Str × Str)) (k : Str) (y : Nat)
    (sw : Option Int) (ref : DateTime) (r : Res) (hk : dictGet tdict k = none)
    (h : match2date funcs tdict (some k) (some y) sw ref = .ok r) (hne : r.timex ≠ []) :
    r.timex = formatDate r.future ∧ r.past = r.future ∧ ∀ v ∈ holidayValues r, definiteOK v = true := by
  have key : r.timex = formatDate r.future ∧ r.past = r.future ∧ r.future.valid = true := by
    unfold match2date at h
    simp only [resolveYear] at h
    split at h
    · cases h
    · split at h
      · cases h
      · split at h
        · cases h
        · exact holidayFor_definite _ _ _ _ _ r hk h hne
  obtain ⟨ht, hp, hv⟩ := key
  refine ⟨ht, hp, ?_⟩
  intro v hmem
  unfold holidayValues at hmem
  rw [hp, ht] at hmem
  rcases resolveSingle_mem _ _ _ _ v hmem with e | e | e <;> subst e
  · exact definiteOK_date_self r.future hv
  · exact definiteOK_date_self r.future hv
  · simp [definiteOK]

/-- a date outside year 0001 is not mistaken for the sentinel: its `format_date` does not start with `0001-` -/
theorem formatDate_take5 (x : Date) (h : x.valid = true) (hy : 2 ≤ x.y) : (formatDate x).take 5 ≠ sYear1 := by
  have hb := (valid_bounds x h).1
  simp only [formatDate, pad4, sYear1]
  intro hc
  simp at hc
  omega

/-- **C11, no sentinel-derived value.** When both computed dates lie after year 0001 (any reference from year 3 on), no
emitted value starts with `0001-`. -/
theorem holiday_values_sentinel_free (funcs : List (Str × Fn)) (tdict : List (Str × Str)) (key : Option Str)
    (yg : Option Nat) (sw : Option Int) (ref : DateTime) (r : Res)
    (h : match2date funcs tdict key yg sw ref = .ok r) (hf : 2 ≤ r.future.y) (hp : 2 ≤ r.past.y) :
    ∀ v ∈ holidayValues r, sentinelOK v = true := by
  obtain ⟨vf, vp⟩ := match2date_ok_valid funcs tdict key yg sw ref r h
  intro v hmem
  unfold holidayValues at hmem
  rcases resolveSingle_mem _ _ _ _ v hmem with e | e | e <;> subst e
  · simp [sentinelOK, formatDate_take5 r.past vp hp]
  · simp [sentinelOK, formatDate_take5 r.future vf hf]
  · simp [sentinelOK, sNotResolved, sYear1]

/-! ### the hypotheses are satisfiable; what the regenerated English table computes -/

private def kThanksgiving : Str := [116, 104, 97, 110, 107, 115, 103, 105, 118, 105, 110, 103]   -- 'thanksgiving'
private def kChristmas : Str := [99, 104, 114, 105, 115, 116, 109, 97, 115]                       -- 'christmas'
private def kMemorial : Str := [109, 101, 109, 111, 114, 105, 97, 108]                            -- 'memorial'
private def ref2016 : DateTime := ⟨⟨2016, 11, 7⟩, 0⟩

/-- "thanksgiving 2018": the 4th Thursday of November 2018, TIMEX with the variable tail -/
example : match2date RTV.Gen.holidayFuncs_en_us RTV.Gen.holidayTimex_en_us (some kThanksgiving) (some 2018) none ref2016 =
    .ok ⟨"2018-11-WXX-4-4".toList.map Char.toNat, ⟨2018, 11, 22⟩, ⟨2018, 11, 22⟩⟩ := by decide +kernel
/-- "thanksgiving" on 2016-11-07: this year's is still ahead, the past one is 2015's -/
example : match2date RTV.Gen.holidayFuncs_en_us RTV.Gen.holidayTimex_en_us (some kThanksgiving) none none ref2016 =
    .ok ⟨"XXXX-11-WXX-4-4".toList.map Char.toNat, ⟨2016, 11, 24⟩, ⟨2015, 11, 26⟩⟩ := by decide +kernel
/-- "christmas 2019": definite TIMEX = value -/
example : match2date RTV.Gen.holidayFuncs_en_us RTV.Gen.holidayTimex_en_us (some kChristmas) (some 2019) none ref2016 =
    .ok ⟨"2019-12-25".toList.map Char.toNat, ⟨2019, 12, 25⟩, ⟨2019, 12, 25⟩⟩ := by decide +kernel
/-- "memorial day next year": the last Monday of May 2017 -/
example : match2date RTV.Gen.holidayFuncs_en_us RTV.Gen.holidayTimex_en_us (some kMemorial) none (some 1) ref2016 =
    .ok ⟨"2017-05-WXX-1-4".toList.map Char.toNat, ⟨2017, 5, 29⟩, ⟨2017, 5, 29⟩⟩ := by decide +kernel
/-- a year `datetime` rejects: the code raises -/
example : match2date RTV.Gen.holidayFuncs_en_us RTV.Gen.holidayTimex_en_us (some kChristmas) none (some 1) ⟨⟨9999, 6, 1⟩, 0⟩ =
    .raises := by decide +kernel

end RTV.Holiday
