import RTV.Props.C08Config
/-!
# C08 — the culture parser configurations, part 2: the culture's own next / last / this words

Kernel evaluation of the REGENERATED definitions (`RTV.Gen.CC.*`) on the instances of the culture's own
NextPrefixRegex / PreviousPrefixRegex / ThisPrefixRegex (`wordsOf` computes them from the regenerated regex).
See `Props/C08Config.lean` for the statements that hold for every text.
-/
namespace RTV.Props.C08Config
open RTV.CultureCfg RTV.Gen.CC

/-! ## next / last / this: the culture's own prefix words -/

structure SwiftCfg where
  name : String
  next : RTV.Re.RE
  prev : RTV.Re.RE
  this : RTV.Re.RE
  dom : Method
  year : Method

/-- cultures whose date-period configuration decides with the three prefix regexes -/
def cfgs : List SwiftCfg := [
  ⟨"english", English.re_DatePeriodParser_next_prefix_regex, English.re_DatePeriodParser_previous_prefix_regex, English.re_DatePeriodParser_this_prefix_regex,
    English.DatePeriodParser_get_swift_day_or_month, English.DatePeriodParser_get_swift_year⟩,
  ⟨"spanish", Spanish.re_DatePeriodParser_next_prefix_regex, Spanish.re_DatePeriodParser_previous_prefix_regex, Spanish.re_DatePeriodParser_this_prefix_regex,
    Spanish.DatePeriodParser_get_swift_day_or_month, Spanish.DatePeriodParser_get_swift_year⟩,
  ⟨"portuguese", Portuguese.re_DatePeriodParser_next_prefix_regex, Portuguese.re_DatePeriodParser_previous_prefix_regex, Portuguese.re_DatePeriodParser_this_prefix_regex,
    Portuguese.DatePeriodParser_get_swift_day_or_month, Portuguese.DatePeriodParser_get_swift_year⟩,
  ⟨"italian", Italian.re_DatePeriodParser_next_prefix_regex, Italian.re_DatePeriodParser_previous_prefix_regex, Italian.re_DatePeriodParser_this_prefix_regex,
    Italian.DatePeriodParser_get_swift_day_or_month, Italian.DatePeriodParser_get_swift_year⟩,
  ⟨"german", German.re_DatePeriodParser_next_prefix_regex, German.re_DatePeriodParser_previous_prefix_regex, German.re_DatePeriodParser_this_prefix_regex,
    German.DatePeriodParser_get_swift_day_or_month, German.DatePeriodParser_get_swift_year⟩,
  ⟨"dutch", Dutch.re_DatePeriodParser_next_prefix_regex, Dutch.re_DatePeriodParser_previous_prefix_regex, Dutch.re_DatePeriodParser_this_prefix_regex,
    Dutch.DatePeriodParser_get_swift_day_or_month, Dutch.DatePeriodParser_get_swift_year⟩]

def cfgChinese : SwiftCfg :=
⟨"chinese", Chinese.re_DatePeriodParser_next_prefix_regex, Chinese.re_DatePeriodParser_previous_prefix_regex, Chinese.re_DatePeriodParser_this_prefix_regex,
    Chinese.DatePeriodParser_get_swift_day_or_month, Chinese.DatePeriodParser_get_swift_year⟩

/-- the instances are there: the theorems below are not vacuous.  The German / Italian previous-prefix families depend
on which variant the tree follows (regenerated flag `pastPrefixFollowsPrevious`): before the repair the German regex was
`.^` (no instance at all) and the Italian one only `scors*` — see `Props/C08ConfigLast.lean`. -/
theorem words_nonempty :
    (cfgs.map fun c => ((wordsOf T c.next).length, (wordsOf T c.this).length)) =
      [(6, 2), (18, 5), (9, 12), (81, 4), (14, 17), (17, 4)] ∧
    (cfgs.map fun c => (wordsOf T c.prev).length) =
      [4, 17, 12, if Italian.pastPrefixFollowsPrevious then 66 else 20,
       if German.pastPrefixFollowsPrevious then 18 else 0, 10] := by decide +kernel

/-- every instance of the culture's next-prefix regex: `get_swift_day_or_month` = +1 -/
theorem next_words_swift_plus_one :
    ∀ c ∈ cfgChinese :: cfgs, ∀ w ∈ wordsOf T c.next, c.dom.on T w = int 1 := by decide +kernel

/-- … and `get_swift_year` = +1 (English, Portuguese, Italian, German, Dutch; Spanish: next theorem) -/
theorem next_words_year_plus_one :
    ∀ c ∈ cfgs, c.name ≠ "spanish" → ∀ w ∈ wordsOf T c.next, c.year.on T w = int 1 := by decide +kernel

/- full statement for Spanish: ∀ w ∈ wordsOf T next, get_swift_year w = 1.  The code tests `previous` / `this` in a
   second `if … elif`, so a this-word after a next-word wins: partial statement + witness. -/
theorem spanish_next_year_partial :
    ∀ w ∈ wordsOf T Spanish.re_DatePeriodParser_next_prefix_regex,
      searchRe T Spanish.re_DatePeriodParser_this_prefix_regex w = false →
      Spanish.DatePeriodParser_get_swift_year.on T w = int 1 := by decide +kernel

/-- witness: `este próximo` (an instance of the Spanish NextPrefixRegex) → 0, not +1 (latent: the extractor never hands
`este` to the parser, `este próximo año` resolves to next year through the pipeline) -/
theorem spanish_este_proximo_witness :
    [101, 115, 116, 101, 32, 112, 114, 243, 120, 105, 109, 111] ∈ wordsOf T Spanish.re_DatePeriodParser_next_prefix_regex ∧
    Spanish.DatePeriodParser_get_swift_year.on T [101, 115, 116, 101, 32, 112, 114, 243, 120, 105, 109, 111] = int 0 := by decide +kernel

/-- every instance of the this-prefix regex: 0 / 0 -/
theorem this_words_swift_zero :
    ∀ c ∈ cfgs, ∀ w ∈ wordsOf T c.this, c.dom.on T w = int 0 ∧ c.year.on T w = int 0 := by decide +kernel

theorem this_words_swift_zero_chinese :
    ∀ w ∈ wordsOf T cfgChinese.this, cfgChinese.dom.on T w = int 0 := by decide +kernel

/-- hypotheses are satisfiable / the tables are the regenerated ones -/
example : English.DateParser_get_swift_day.on T [100, 97, 121, 32, 97, 102, 116, 101, 114, 32, 116, 111, 109, 111, 114, 114, 111, 119] = int 2 := by decide +kernel
example : (wordsOf T English.re_DatePeriodParser_next_prefix_regex).contains [110, 101, 120, 116] = true := by decide +kernel

end RTV.Props.C08Config
