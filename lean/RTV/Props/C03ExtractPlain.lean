import RTV.Lemmas.NumExtractPlain
import RTV.Props.C03Extract
/-!
# C03 extraction front end — plain integers and plain decimals of ANY length

For the cultures whose `NumbersWithPlaceHolder` / `DoubleDecimalPointRegex` entry (index 0 / 9 of the regenerated family)
IS `(((?<!{lb1})-\s*)|{boundary})\d+(?!{nla})(?={placeholder})` resp. `…\d+[{marks}]\d+(?!…)(?=…)` applied to its own
parts, with look-behind bodies that must begin with a digit and a negative look-ahead that must begin with `.` / `,`
(`plain_shapes`, `decimal_shapes`: decided on the regenerated ASTs), every plain integer / plain decimal — any number of
digits, either sign — in every carrier is extracted as ONE result covering the WHOLE literal:
* `plain_literal_extracted`: es-es, es-mx, fr-fr, pt-br, de-de, nl-nl (both modes);
* `decimal_literal_extracted`: es-es, es-mx, fr-fr, pt-br, it-it (both modes).
Like `RTV.Props.C03Extract` these are statements about the DIGIT FAMILY of the list; the right context must not begin
with a word that continues a literal in the full list (`PostOK.noFollower`, follower lists RTV/Gen/NumFollow.lean).
Not of this form (kernel-evaluated on bounded instances in `RTV.Props.C03ExtractBounded`, tied by the correspondence):
en-us (`\p{L}` alternative in the look-behind, `(?<=(?=\D)|\b)`), it-it plain integers (`(?<=\W|^)-`), the English
DoubleDecimalPointRegex (an alternation), de-de / nl-nl decimals (`\d{1,3}(\.\d{3})*(,\d+)?`, no sign: witnesses in
`RTV.Props.C03Extract`).
-/
namespace RTV.Props.C03Extract
open RTV.Py RTV.Re RTV.Span RTV.Num RTV.NumExtract RTV.Gen.NumRegex

set_option maxRecDepth 100000

/-- entry number `idx` of a family -/
def entry (e : Ext) (idx : Nat) : RE := ((e.fam.find? fun p => p.1 == idx).map (·.2)).getD .eps

/-- what a negative look-ahead of these regexes must begin with: `.` or `,` -/
def nlaItems : List Item := [.range 46 46, .range 44 44]

def phOK (ph : RE) : Bool := ph == placeHolderDefault || ph == placeHolderDefaultEu || ph == placeHolderPure

def lb2OK : Option RE → Bool
  | none => true
  | some b => headS [.digit] b

def plainShapeOK (r : RE) : Bool :=
  r == numbersWithPlaceHolderOf (lb1Of r) (boundaryWith (lb2Of r)) (plainNlaOf r) (plainPhOf r) &&
    headS [.digit] (lb1Of r) && lb2OK (lb2Of r) && headS nlaItems (plainNlaOf r) && phOK (plainPhOf r)

def decimalShapeOK (r : RE) : Bool :=
  r == doubleDecimalPointOf (lb1Of r) (boundaryWith (lb2Of r)) (decMarksOf r) (decNlaOf r) (decPhOf r) &&
    headS [.digit] (lb1Of r) && lb2OK (lb2Of r) && headS nlaItems (decNlaOf r) && phOK (decPhOf r)

theorem phOK_sound {ph : RE} (h : phOK ph = true) : IsPlaceHolder ph := by
  unfold phOK at h
  simp only [Bool.or_eq_true, beq_iff_eq] at h
  unfold IsPlaceHolder
  rcases h with (h | h) | h
  · exact Or.inl h
  · exact Or.inr (Or.inl h)
  · exact Or.inr (Or.inr h)

theorem parts_ok (T : Tables) {lb1 : RE} {lb2 : Option RE} {nla ph : RE} (h1 : headS [.digit] lb1 = true)
    (h2 : lb2OK lb2 = true) (h3 : headS nlaItems nla = true) (h4 : phOK ph = true) :
    PartsOK T lb1 lb2 nlaItems nla ph :=
  ⟨h1, fun b hb => by subst hb; exact h2, h3, by simp [nlaItems, clsTest, Item.test], phOK_sound h4⟩

/-- the configurations (`allCfgs`: extractor list, marks, follower list) whose list has entry 0 of the plain form:
es-es, fr-fr, pt-br | es-mx, de-de, nl-nl — both modes -/
def plainCfgs : List Cfg := (allCfgs.drop 2).take 6 ++ allCfgs.drop 10

/-- the configurations whose entry 9 is of the decimal form and reads the configuration's decimal mark `c.d`:
es-es, fr-fr, pt-br, it-it, es-mx — both modes -/
def decimalCfgs : List Cfg := (allCfgs.drop 2).take 10

theorem plain_shapes : ∀ c ∈ plainCfgs,
    plainShapeOK (entry c.ext 0) = true ∧ (0, entry c.ext 0) ∈ c.ext.fam ∧ FamilyOK c.ext.fam = true := by decide

theorem decimal_shapes : ∀ c ∈ decimalCfgs,
    decimalShapeOK (entry c.ext 9) = true ∧ (9, entry c.ext 9) ∈ c.ext.fam ∧ FamilyOK c.ext.fam = true ∧
      (c.d = 44 ∨ c.d = 46) ∧ clsTest RTV.Gen.reTables (decMarksOf (entry c.ext 9)) false c.d = true := by decide +kernel

/-- the forms NOT covered here really are different regexes (so that this file's scope is a checked statement) -/
theorem other_shapes :
    plainShapeOK (entry enDefaultExt 0) = false ∧ plainShapeOK (entry enPureExt 0) = false ∧
    plainShapeOK (entry itDefaultExt 0) = false ∧ decimalShapeOK (entry enDefaultExt 9) = false ∧
    decimalShapeOK (entry deDefaultExt 9) = false ∧ decimalShapeOK (entry nlDefaultExt 9) = false := by decide

theorem shape_plain {l : Literal} (h : l.shape = .plain) : l.frac = none ∧ l.groups.length ≤ 1 := by
  unfold Literal.shape at h
  cases h2 : l.frac <;> cases h1 : decide (l.groups.length ≤ 1) <;> simp [h1, h2] at h
  simp at h1
  exact ⟨rfl, h1⟩

theorem shape_decimal {l : Literal} (h : l.shape = .decimal) : (∃ F, l.frac = some F) ∧ l.groups.length ≤ 1 := by
  unfold Literal.shape at h
  cases h2 : l.frac <;> cases h1 : decide (l.groups.length ≤ 1) <;> simp [h1, h2] at h
  simp at h1
  exact ⟨⟨_, rfl⟩, h1⟩

theorem single_group {l : Literal} (hw : l.WellFormed) (h : l.groups.length ≤ 1) : ∃ a, l.groups = [a] := by
  have := hw.nonempty
  match hg : l.groups with
  | [] => exact absurd hg this
  | [a] => exact ⟨a, rfl⟩
  | _ :: _ :: _ => rw [hg] at h; simp at h

/-- **Plain integers** (`1234567` / `-5`, any number of digits): every configuration of `plainCfgs`, every carrier: exactly one
result, at the literal's position, of the literal's length.  (The text does not depend on the marks.) -/
theorem plain_literal_extracted : ∀ c ∈ plainCfgs, ∀ (sp : Nat → Bool), SpaceOK sp →
    ∀ (l : Literal) (g d : Nat), l.WellFormed → (∀ grp ∈ l.groups, grp ≠ []) → l.shape = .plain →
    ∀ (pre post : Str), PreOK RTV.Gen.reTables pre → PostOK RTV.Gen.reTables (folOf c.follow) post →
      QuietAt RTV.Gen.reTables c.ext (pre ++ l.text g d ++ post) pre.length (l.text g d).length →
      ∃ tag, extract RTV.Gen.reTables sp c.ext (pre ++ l.text g d ++ post) =
        [⟨pre.length, (l.text g d).length, strip sp (l.text g d), tag⟩] := by
  intro c he sp hsp l g d hw hne hs pre post hpre hpost hq
  obtain ⟨hshape, hidx, hfam⟩ := plain_shapes c he
  unfold plainShapeOK at hshape
  simp only [Bool.and_eq_true, beq_iff_eq] at hshape
  obtain ⟨⟨⟨⟨heq, h1⟩, h2⟩, h3⟩, h4⟩ := hshape
  rw [heq] at hidx
  obtain ⟨hfr, hlen⟩ := shape_plain hs
  obtain ⟨a, hgr⟩ := single_group hw hlen
  have htext : l.text g d = plainIntText l.neg a := by
    simp [Literal.text, hgr, hfr, Literal.joinGroups, plainIntText, signText]
  rw [htext] at hq ⊢
  have hd := hw.digits a (by simp [hgr])
  have ha : 1 ≤ a.length := by
    have := hne a (by simp [hgr])
    exact List.length_pos_iff.2 this
  obtain ⟨tag, _, hres⟩ := extract_plainInt tables_ok sp hsp c.ext.fam hfam (parts_ok _ h1 h2 h3 h4) hidx pre post hpre hpost
    l.neg a ha hd _ _ hq
  exact ⟨tag, hres⟩

/-- **Plain decimals** (`1234,5` / `-0.25`, any number of digits on both sides) written with the culture's decimal
mark: every configuration of `decimalCfgs`, every carrier: exactly one result = the literal. -/
theorem decimal_literal_extracted : ∀ c ∈ decimalCfgs, ∀ (sp : Nat → Bool), SpaceOK sp →
    ∀ (l : Literal) (g : Nat), l.WellFormed → (∀ grp ∈ l.groups, grp ≠ []) → l.shape = .decimal →
      1 ≤ l.fracDigits.length →
    ∀ (pre post : Str), PreOK RTV.Gen.reTables pre → PostOK RTV.Gen.reTables (folOf c.follow) post →
      QuietAt RTV.Gen.reTables c.ext (pre ++ l.text g c.d ++ post) pre.length (l.text g c.d).length →
      ∃ tag, extract RTV.Gen.reTables sp c.ext (pre ++ l.text g c.d ++ post) =
        [⟨pre.length, (l.text g c.d).length, strip sp (l.text g c.d), tag⟩] := by
  intro c hc sp hsp l g hw hne hs hfl pre post hpre hpost hq
  obtain ⟨hshape, hidx, hfam, hd2, hmark⟩ := decimal_shapes c hc
  unfold decimalShapeOK at hshape
  simp only [Bool.and_eq_true, beq_iff_eq] at hshape
  obtain ⟨⟨⟨⟨heq, h1⟩, h2⟩, h3⟩, h4⟩ := hshape
  rw [heq] at hidx
  obtain ⟨⟨F, hfr⟩, hlen⟩ := shape_decimal hs
  obtain ⟨a, hgr⟩ := single_group hw hlen
  have htext : l.text g c.d = plainDecText c.d l.neg a F := by
    simp [Literal.text, Literal.fracDigits, hgr, hfr, Literal.joinGroups, plainDecText, plainIntText, signText]
  rw [htext] at hq ⊢
  have hd := hw.digits a (by simp [hgr])
  have ha : 1 ≤ a.length := by
    have := hne a (by simp [hgr])
    exact List.length_pos_iff.2 this
  have hfd := hw.fdigits
  simp only [Literal.fracDigits, hfr, Option.getD_some] at hfd hfl
  have hdd : RTV.Gen.reTables.digit c.d = false := by
    rcases hd2 with h | h <;> rw [h]
    · exact tables_ok.d44
    · exact tables_ok.d46
  obtain ⟨tag, _, hres⟩ := extract_plainDec tables_ok sp hsp c.ext.fam hfam (parts_ok _ h1 h2 h3 h4) (d := c.d)
    (by rcases hd2 with h | h <;> omega) hmark hdd hidx pre post hpre hpost l.neg a F ha hd hfl hfd _ _ hq
  exact ⟨tag, hres⟩

end RTV.Props.C03Extract
