import RTV.Lemmas.DateParser
/-!
# C09 (with C08 / C11) — the remaining branches of `BaseDateParser`

Property theorems about `RTV.Model.DateParser` (mirrors `parse_implicit_date`'s day-number, relative-weekday,
"Friday the 15th", "Friday 15" branches, `parse_weekday_of_month` + `_compute_date`, `parse_single_number`, `parse`), for
**every** reference datetime `R` (date valid in 0001..9999, any time of day unless a guard says so), every day number,
cardinal, weekday (the culture map's value, Sunday = 0) and month.

What the properties demand of this code — the emitted future and past values are valid dates, `future ≥ R > past`, both are
what the text states (that day number, that weekday, inside that month), and nothing nearer qualifies — holds on the
faithful model only in part. Each deviation is stated exactly and has a witness theorem that the correspondence replays on
the real code (`harness/lib/dateparsercorr.py: WITNESSES`):

* `_compute_date` builds the k-th weekday with `replace(day=…)`: a fifth occurrence the month does not have **raises**
  (`kth_weekday_overflow_raises`), so "last friday of june" gives no result unless June has five Fridays
  (`wom_last_means_fifth_raises`); `reference.replace(month=month + swift)` raises in December / January and for a
  reference day the target month lacks (`wom_next_month_december_raises`).
* a day number on its own: the reference's month must have that day or `strptime` raises (`on_day_missing_raises`); the
  candidates move by `datedelta(months=±1)`, which rolls a missing day to the 1st of the month after / the last day of the
  month before — "the 31st" in December has the past value 30 November (`on_day_past_clamped`, `on_day_future_rolls`); the
  comparison is with the full reference datetime, so the reference's own day counts as past once the time of day is not
  00:00:00 (`on_day_time_of_day`).
* "Friday 15": for the culture map's Sunday (0) neither search can finish (`weekday_and_day_sunday_never`): the code walks
  to year 10000 and raises; a stated day the reference's month lacks raises at once (`weekday_and_day_short_month_raises`);
  the past search tests the *future* date's month and hits `min_value` as soon as it crosses a month without the day
  (`wdd_past_search_raises`).
* `parse_single_number` moves with `replace(month=month ± 1)`: raises in December (`single_number_december_raises`).
* "one monday from now" on a Wednesday is today (`rel_weekday_zero_is_today`).
-/
namespace RTV.DateParser
open RTV.Cal RTV.DateUtils RTV.Py
set_option linter.unusedVariables false
set_option linter.unusedSimpArgs false

/-! ## `_compute_date`: the k-th weekday of a month -/

/-- Whenever `_compute_date` returns, the value is the stated weekday, lies in the stated month and year (at midnight),
and is the `c`-th such weekday of the month: its day number is in `7(c-1)+1 .. 7c` (each block of seven consecutive days
of a month holds every weekday exactly once). -/
theorem kth_weekday_of_month (c : Int) (dow mo y : Nat) (hv : (⟨y, mo, 1⟩ : Date).valid = true) (hd : dow ≤ 7)
    (v : DateTime) (h : computeDateR c dow mo (y : Int) = some v) :
    v.date.valid = true ∧ v.secs = 0 ∧ v.date.y = y ∧ v.date.m = mo ∧
    isoWeekdayOrd v.date.ord = target dow ∧ 7 * (c - 1) < (v.date.d : Int) ∧ (v.date.d : Int) ≤ 7 * c := by
  rw [computeDateR_eq c dow mo y hv hd] at h
  have fw := firstWeekday_eq y mo dow hv hd
  split at h
  · next g =>
    simp only [Option.some.injEq] at h
    subst h
    have f1 := fw.2.1
    have f7 := fw.2.2.1
    have vd := valid_day y mo ((firstDow y mo dow : Int) + 7 * (c - 1)).toNat hv (by omega) g.2
    refine ⟨vd, rfl, rfl, rfl, ?_, by simp only; omega, by simp only; omega⟩
    show isoWeekdayOrd (⟨y, mo, ((firstDow y mo dow : Int) + 7 * (c - 1)).toNat⟩ : Date).ord = target dow
    have o1 := ord_day y mo ((firstDow y mo dow : Int) + 7 * (c - 1)).toNat (by omega)
    have o2 := ord_day y mo (firstDow y mo dow) f1
    have iw := fw.2.2.2
    unfold isoWeekdayOrd at iw ⊢
    omega
  · cases h

/-- The overflow behaviour, stated: `_compute_date` **raises** exactly when the month has no `c`-th such weekday (the
first one is on day `firstDow`, 1..7; the `c`-th would be day `firstDow + 7 (c - 1)`). -/
theorem kth_weekday_overflow_raises (c : Int) (hc : 1 ≤ c) (dow mo y : Nat) (hv : (⟨y, mo, 1⟩ : Date).valid = true)
    (hd : dow ≤ 7) :
    computeDateR c dow mo (y : Int) = none ↔ (daysInMonth y mo : Int) < firstDow y mo dow + 7 * (c - 1) := by
  rw [computeDateR_eq c dow mo y hv hd]
  have fw := firstWeekday_eq y mo dow hv hd
  constructor
  · intro h
    split at h
    · cases h
    · next g => omega
  · intro h
    rw [if_neg (by omega)]

/-- every month has a first .. fourth of every weekday: no overflow for `c ≤ 4` -/
theorem kth_weekday_exists_upto_four (c : Int) (hc : 1 ≤ c) (h4 : c ≤ 4) (dow mo y : Nat)
    (hv : (⟨y, mo, 1⟩ : Date).valid = true) (hd : dow ≤ 7) : (computeDateR c dow mo (y : Int)).isSome = true := by
  have fw := firstWeekday_eq y mo dow hv hd
  have dim := daysInMonth_ge y mo ((valid_iff _).1 hv).2.2.1 ((valid_iff _).1 hv).2.2.2.1
  cases hcd : computeDateR c dow mo (y : Int) with
  | some v => rfl
  | none =>
    have := (kth_weekday_overflow_raises c hc dow mo y hv hd).1 hcd
    omega

example : computeDateR 1 1 6 2020 = some ⟨⟨2020, 6, 1⟩, 0⟩ := by decide
example : computeDateR 5 1 6 2020 = some ⟨⟨2020, 6, 29⟩, 0⟩ := by decide
example : computeDateR 5 5 6 2020 = none := by decide              -- June 2020 has four Fridays
example : computeDateR 1 0 6 2020 = some ⟨⟨2020, 6, 7⟩, 0⟩ := by decide   -- Sunday = 0

/-! ## `parse_weekday_of_month` -/

/-- A named month ("first monday of june"), for every reference: when the code returns, the future value is that
month's `c`-th stated weekday of the reference's year or the next, the past value of the reference's year or the one
before, `past < R ≤ future` **as datetimes** (the values are midnights), TIMEX `XXXX-MM-WXX-<dow>-#<c>`. -/
theorem weekday_of_month_named (R : DateTime) (hv : R.date.valid = true) (c : Int) (dow mo : Nat) (hd : dow ≤ 7)
    (hm1 : 1 ≤ mo) (hm2 : mo ≤ 12) (hy1 : 2 ≤ R.date.y) (hy2 : R.date.y ≤ 9998) (sw : Int) (t : Str) (f p : DateTime)
    (h : weekdayOfMonth R c dow (some mo) sw = .ok t f p) :
    (∃ yf : Nat, (yf = R.date.y ∨ yf = R.date.y + 1) ∧ computeDateR c dow mo (yf : Int) = some f) ∧
    (∃ yp : Nat, (yp = R.date.y ∨ yp + 1 = R.date.y) ∧ computeDateR c dow mo (yp : Int) = some p) ∧
    f.lt R = false ∧ p.lt R = true ∧
    t = ofString "XXXX-" ++ pad 2 mo ++ ofString "-WXX-" ++ natStr dow ++ ofString "-#" ++ intStr c := by
  have v0 := valid_first R.date.y mo (by omega) (by omega) hm1 hm2
  have v1 := valid_first (R.date.y + 1) mo (by omega) (by omega) hm1 hm2
  have v2 := valid_first (R.date.y - 1) mo (by omega) (by omega) hm1 hm2
  have e1 : (R.date.y : Int) + 1 = ((R.date.y + 1 : Nat) : Int) := by omega
  have e2 : (R.date.y : Int) - 1 = ((R.date.y - 1 : Nat) : Int) := by omega
  unfold weekdayOfMonth ofOpt at h
  simp only [Option.bind_eq_bind, Option.bind_some, Option.pure_def] at h
  cases hc0 : computeDateR c dow mo (R.date.y : Int) with
  | none => simp [hc0] at h
  | some value =>
    have k0 := kth_weekday_of_month c dow mo R.date.y v0 hd value hc0
    simp only [hc0, Option.bind_some, k0.2.2.2.1, ne_eq, not_true_eq_false, if_false, Bool.true_and] at h
    -- future
    cases hlt : value.lt R with
    | true =>
      simp only [hlt, if_true] at h
      cases hc1 : computeDateR c dow mo ((R.date.y : Int) + 1) with
      | none => simp [hc1] at h
      | some fu =>
        have hc1' := hc1
        rw [e1] at hc1'
        have k1 := kth_weekday_of_month c dow mo (R.date.y + 1) v1 hd fu hc1'
        simp only [hc1, Option.bind_some, k1.2.2.2.1, ne_eq, not_true_eq_false, if_false] at h
        have nle : R.le value = false := by
          have : ¬ (R.le value = true) := by
            have := (lt_iff value R).1 hlt
            rw [le_iff]; omega
          simpa using this
        simp only [nle, if_false, Bool.false_eq_true, Option.bind_some, Option.getD_some, Res.ok.injEq] at h
        obtain ⟨ht, hf, hp⟩ := h
        subst hf hp
        have := ord_year_lt R.date fu.date hv k1.1 (by rw [k1.2.2.1]; omega)
        refine ⟨⟨R.date.y + 1, Or.inr rfl, hc1'⟩, ⟨R.date.y, Or.inl rfl, hc0⟩, (lt_of_ord R fu this).2, hlt, ?_⟩
        rw [← ht]; simp [ofString, List.append_assoc]
    | false =>
      simp only [hlt, if_false, Bool.false_eq_true] at h
      have hle := not_lt_le value R hlt
      simp only [hle, if_true] at h
      cases hc2 : computeDateR c dow mo ((R.date.y : Int) - 1) with
      | none => simp [hc2] at h
      | some pa =>
        have hc2' := hc2
        rw [e2] at hc2'
        have k2 := kth_weekday_of_month c dow mo (R.date.y - 1) v2 hd pa hc2'
        simp only [hc2, Option.bind_some, k2.2.2.2.1, ne_eq, not_true_eq_false, if_false, Option.getD_some,
          Res.ok.injEq] at h
        obtain ⟨ht, hf, hp⟩ := h
        subst hf hp
        have := ord_year_lt pa.date R.date k2.1 hv (by rw [k2.2.2.1]; omega)
        refine ⟨⟨R.date.y, Or.inl rfl, hc0⟩, ⟨R.date.y - 1, Or.inr (by omega), hc2'⟩, hlt, (lt_of_ord pa R this).1, ?_⟩
        rw [← ht]; simp [ofString, List.append_assoc]

/-- "… of next month" asked in December, "… of last month" asked in January: `reference.replace(month=13 / 0)` raises,
for every reference, cardinal and weekday. -/
theorem wom_relative_month_turn_raises (R : DateTime) (c : Int) (dow : Nat) (sw : Int)
    (h : (R.date.m : Int) + sw ≤ 0 ∨ 13 ≤ (R.date.m : Int) + sw) : weekdayOfMonth R c dow none sw = .raises := by
  unfold weekdayOfMonth replaceMonth
  have : ¬ (1 ≤ (R.date.m : Int) + sw ∧ isValidDate (R.date.y : Int) ((R.date.m : Int) + sw).toNat R.date.d = true) := by
    intro ⟨a, b⟩
    unfold isValidDate at b
    simp only [Bool.and_eq_true, decide_eq_true_eq] at b
    have := (valid_iff _).1 b.2
    simp only at this
    omega
  simp [this, ofOpt]

/-- Witness: "last monday of june" asked on 2020-02-12 — "last" is read as the fifth; June 2020 has five Mondays but
June 2019 (the past candidate) has four: the call raises. -/
theorem wom_last_means_fifth_raises : weekdayOfMonth ⟨⟨2020, 2, 12⟩, 50400⟩ 5 1 (some 6) 0 = .raises := by decide

/-- Witness: "first monday of next month" asked on 2020-12-12 raises (month 13). -/
theorem wom_next_month_december_raises : weekdayOfMonth ⟨⟨2020, 12, 12⟩, 50400⟩ 1 1 none 1 = .raises := by decide

example : weekdayOfMonth ⟨⟨2020, 2, 12⟩, 50400⟩ 1 1 (some 6) 0 =
    .ok (ofString "XXXX-06-WXX-1-#1") ⟨⟨2020, 6, 1⟩, 0⟩ ⟨⟨2019, 6, 3⟩, 0⟩ := by decide
/-- the reference's own day counts as past once it has a time of day -/
example : weekdayOfMonth ⟨⟨2020, 6, 1⟩, 36000⟩ 1 1 (some 6) 0 =
    .ok (ofString "XXXX-06-WXX-1-#1") ⟨⟨2021, 6, 7⟩, 0⟩ ⟨⟨2020, 6, 1⟩, 0⟩ := by decide
example : weekdayOfMonth ⟨⟨2020, 6, 1⟩, 0⟩ 1 1 (some 6) 0 =
    .ok (ofString "XXXX-06-WXX-1-#1") ⟨⟨2020, 6, 1⟩, 0⟩ ⟨⟨2019, 6, 3⟩, 0⟩ := by decide

/-! ## "two mondays from now" -/

/-- `k` = the count after the code's adjustment (one less when the reference's ISO weekday is past the map's value).
The value is the reference's own date for `k = 0`, else the stated weekday `k` weeks after the reference's ISO week
(Monday-based): "the Monday of the current week + 7 k"; midnight, future = past, definite TIMEX. -/
theorem relative_weekday_spec (R : DateTime) (hv : R.date.valid = true) (n : Int) (dow : Nat) (hd : dow ≤ 7)
    (t : Str) (f p : DateTime) (h : relativeWeekday R (some n) dow = .ok t f p) :
    let k := (if R.date.isoWeekday > dow then n - 1 else n).toNat
    f = p ∧ f.secs = 0 ∧ f.date.valid = true ∧ t = luisDate f.date.y f.date.m f.date.d ∧
    (k = 0 → f.date = R.date) ∧
    (1 ≤ k → (f.date.ord : Int) = mondayOrd R.date.ord + 7 * k + (target dow : Int) - 1 ∧
             isoWeekdayOrd f.date.ord = target dow) := by
  intro k
  unfold relativeWeekday at h
  simp only at h
  cases hl : relLoop dow (if R.date.isoWeekday > dow then n - 1 else n).toNat R with
  | none => simp [hl] at h
  | some v =>
    simp only [hl, Res.ok.injEq] at h
    obtain ⟨ht, hf, hp⟩ := h
    have s := relLoop_spec dow hd _ R v hv hl
    have mv : midnightOf v = ⟨v.date, 0⟩ := by unfold midnightOf; exact safeCreate_valid v.date s.1
    rw [mv] at hf hp
    subst hf hp
    refine ⟨rfl, rfl, s.1, by rw [← ht]; rfl, fun k0 => by rw [s.2.2.1 k0], fun k1 => ?_⟩
    have o := s.2.2.2 k1
    refine ⟨o, ?_⟩
    have tr := target_range dow hd
    have m := mondayOrd_spec R.date.ord (ord_range R.date hv).1
    have := week_of_ord v.date.ord (mondayOrd R.date.ord + 7 * k) (target dow)
      (by have := m.2.2.2.1; unfold weekdayOrd at this ⊢; omega) tr.1 tr.2 (by show (v.date.ord : Int) = _; omega)
    exact this.1

/-- Witness: "one monday from now" asked on Wednesday 2020-02-12 is 2020-02-12 itself (the count drops to zero). -/
theorem rel_weekday_zero_is_today :
    relativeWeekday ⟨⟨2020, 2, 12⟩, 50400⟩ (some 1) 1 = .ok (ofString "2020-02-12") ⟨⟨2020, 2, 12⟩, 0⟩ ⟨⟨2020, 2, 12⟩, 0⟩ := by
  decide

example : relativeWeekday ⟨⟨2020, 2, 12⟩, 50400⟩ (some 2) 1 =
    .ok (ofString "2020-02-17") ⟨⟨2020, 2, 17⟩, 0⟩ ⟨⟨2020, 2, 17⟩, 0⟩ := by decide
example : relativeWeekday ⟨⟨2020, 2, 12⟩, 50400⟩ (some 2) 0 =
    .ok (ofString "2020-02-23") ⟨⟨2020, 2, 23⟩, 0⟩ ⟨⟨2020, 2, 23⟩, 0⟩ := by decide

/-! ## "for the 27th", "Friday the 15th" -/

/-- The stated day of the reference's month, or the code raises — exactly when that month has no such day. -/
theorem for_the_spec (R : DateTime) (day : Nat) :
    forThe R day = if (⟨R.date.y, R.date.m, day⟩ : Date).valid = true
      then .ok (luisDayOnly day) ⟨⟨R.date.y, R.date.m, day⟩, 0⟩ ⟨⟨R.date.y, R.date.m, day⟩, 0⟩ else .raises := by
  unfold forThe; rw [mkDate_nat]
  by_cases hv : (⟨R.date.y, R.date.m, day⟩ : Date).valid = true <;> simp [hv]

/-- "Friday the 15th" is the 15th of the reference's month whatever its weekday (left to the extractor), with the
definite TIMEX of that date; raises when the month has no such day. -/
theorem weekday_and_day_of_month_spec (R : DateTime) (day : Nat) :
    weekdayAndDayOfMonth R day = if (⟨R.date.y, R.date.m, day⟩ : Date).valid = true
      then .ok (luisDate R.date.y R.date.m day) ⟨⟨R.date.y, R.date.m, day⟩, 0⟩ ⟨⟨R.date.y, R.date.m, day⟩, 0⟩
      else .raises := by
  unfold weekdayAndDayOfMonth; rw [mkDate_nat]
  by_cases hv : (⟨R.date.y, R.date.m, day⟩ : Date).valid = true <;> simp [hv]

/-! ## "Friday 15": the two month-by-month searches -/

/-- Termination within the stated bound: from any valid pivot neither search runs out of `fuelMonths` rounds — each
round moves at least one month and the date arithmetic raises outside 0001..9999. -/
theorem weekday_and_day_fuel (R pivot : DateTime) (hp : pivot.date.valid = true) (day dow fm : Nat) (hday : 1 ≤ day) :
    futLoop R day dow fuelMonths pivot ≠ .fuelOut ∧ pastLoop R day dow fm fuelMonths pivot ≠ .fuelOut := by
  have b := idx_bound pivot.date hp
  exact ⟨futLoop_fuel R day dow hday fuelMonths pivot hp (by unfold fuelMonths; omega),
         pastLoop_fuel R day dow fm fuelMonths pivot hp (by unfold fuelMonths; omega)⟩

/-- What the code returns for "Friday 15" is a 15th that is a Friday on each side: either the reference's own day
(stated day and weekday, definite TIMEX), or a future value `≥ R` and a past value `≤ R` that both are the stated day
number and the stated weekday, with TIMEX `XXXX-WXX-<dow>`. -/
theorem weekday_and_day_result (R : DateTime) (u : Bool) (day dow : Nat) (t : Str) (f p : DateTime)
    (h : weekdayAndDay R u day dow = .ok t f p) :
    (f = p ∧ f.date = ⟨R.date.y, R.date.m, day⟩ ∧ day = R.date.d ∧ f.date.isoWeekday = dow ∧
      t = luisDate R.date.y R.date.m day) ∨
    (f.date.d = day ∧ p.date.d = day ∧ f.date.isoWeekday = dow ∧ p.date.isoWeekday = dow ∧
      f.lt R = false ∧ R.lt p = false ∧ t = ofString "XXXX-WXX-" ++ natStr (if dow == 0 then 7 else dow)) := by
  unfold weekdayAndDay at h
  split at h
  · cases h
  · simp only at h
    split at h
    · cases h
    · next pivot hpv =>
      split at h
      · cases h
      · split at h
        · next cnd =>
          left
          simp only [Bool.and_eq_true, beq_iff_eq] at cnd
          cases hm : mkDate (R.date.y : Int) R.date.m day with
          | none => simp [hm] at h
          | some d =>
            simp only [hm, Res.ok.injEq] at h
            obtain ⟨ht, hf, hp⟩ := h
            subst hf hp
            rw [mkDate_nat] at hm
            split at hm
            · next vd =>
              simp only [Option.some.injEq] at hm
              subst hm
              refine ⟨rfl, rfl, cnd.1, ?_, ht.symm⟩
              -- the pivot is this very date
              by_cases hdim : daysInMonth R.date.y R.date.m ≥ day
              · rw [if_pos hdim] at hpv
                simp only [Option.some.injEq] at hpv
                rw [← hpv, safeCreate_ymd _ _ _ vd] at cnd
                exact cnd.2
              · exfalso
                have := (valid_iff _).1 vd
                simp only at this
                omega
            · cases hm
        · right
          cases hfl : futLoop R day dow fuelMonths pivot with
          | raises => simp [hfl] at h
          | fuelOut => simp [hfl] at h
          | done fu =>
            simp only [hfl] at h
            cases hpl : pastLoop R day dow fu.date.m fuelMonths pivot with
            | raises => simp [hpl] at h
            | fuelOut => simp [hpl] at h
            | done pa =>
              simp only [hpl, Res.ok.injEq] at h
              obtain ⟨ht, hf, hp⟩ := h
              subst hf hp
              have a := futLoop_done R day dow _ _ _ hfl
              have b := pastLoop_done R day dow _ _ _ _ hpl
              exact ⟨a.2.1, b.2.1, a.1, b.1, a.2.2, b.2.2, ht.symm⟩

/-- For the culture map's Sunday (0) the code never returns a result: `isoweekday()` is 1..7, the own-day test and
both loop conditions compare it with 0. (The Python code walks month by month to year 10000 and raises `ValueError`.) -/
theorem weekday_and_day_sunday_never (R : DateTime) (u : Bool) (day : Nat) (t : Str) (f p : DateTime) :
    weekdayAndDay R u day 0 ≠ .ok t f p := by
  intro h
  have := weekday_and_day_result R u day 0 t f p h
  have pos := isoWeekday_pos f.date
  rcases this with ⟨_, _, _, e, _⟩ | ⟨_, _, e, _⟩ <;> omega

/-- A stated day the reference's month does not have: `datetime(year, month, day)` raises. -/
theorem weekday_and_day_short_month_raises (R : DateTime) (hv : R.date.valid = true) (day dow : Nat)
    (h : daysInMonth R.date.y R.date.m < day) : weekdayAndDay R false day dow = .raises := by
  unfold weekdayAndDay
  have nv : ¬ ((⟨R.date.y, R.date.m, day⟩ : Date).valid = true) := by rw [valid_iff]; simp only; omega
  simp only [Bool.false_eq_true, if_false, ge_iff_le, if_neg (by omega : ¬ day ≤ daysInMonth R.date.y R.date.m),
    mkDate_nat, if_neg nv, Option.bind_none]

/-- Witness: "monday 31" asked on 2020-03-12. The future search finds 2020-08-31; the past search steps from 31 March
to 29 February, rebuilds the day as 31 because *August* has 31 days, gets `min_value`, and the next step leaves year 1:
the call raises. -/
theorem wdd_past_search_raises : weekdayAndDay ⟨⟨2020, 3, 12⟩, 50400⟩ false 31 1 = .raises := by decide

/-- Witness: "monday 31" asked in February raises at once. -/
theorem wdd_short_month_raises : weekdayAndDay ⟨⟨2020, 2, 12⟩, 50400⟩ false 31 1 = .raises := by decide

example : weekdayAndDay ⟨⟨2020, 2, 12⟩, 50400⟩ false 15 5 =
    .ok (ofString "XXXX-WXX-5") ⟨⟨2020, 5, 15⟩, 0⟩ ⟨⟨2019, 11, 15⟩, 0⟩ := by decide
example : weekdayAndDay ⟨⟨2020, 2, 12⟩, 50400⟩ false 12 3 =
    .ok (ofString "2020-02-12") ⟨⟨2020, 2, 12⟩, 0⟩ ⟨⟨2020, 2, 12⟩, 0⟩ := by decide
example : weekdayAndDay ⟨⟨2020, 2, 12⟩, 50400⟩ true 3 1 = .noResult := by decide


/-! ## a day number on its own ("on the 15th" → `the 15th`; `parse_single_number`) -/

/-- the stated day of the reference's month is before the reference datetime -/
def dayBefore (R : DateTime) (day : Nat) : Prop := day < R.date.d ∨ (day = R.date.d ∧ 0 < R.secs)

theorem d0_lt_iff (R : DateTime) (hv : R.date.valid = true) (day : Nat) (h1 : 1 ≤ day) :
    (⟨⟨R.date.y, R.date.m, day⟩, 0⟩ : DateTime).lt R = true ↔ dayBefore R day := by
  rw [lt_iff]
  have a := ord_day R.date.y R.date.m day h1
  have b := ord_day R.date.y R.date.m R.date.d ((valid_iff _).1 hv).2.2.2.2.1
  have e : (⟨R.date.y, R.date.m, R.date.d⟩ : Date) = R.date := rfl
  rw [e] at b
  unfold dayBefore
  simp only
  omega

/-- For a day every month has (1..28) and every reference: both values are the stated day, at midnight, in two
consecutive months, `past < R ≤ future` as datetimes — the nearest occurrence on each side. TIMEX `XXXX-XX-DD`. -/
theorem on_day_spec (R : DateTime) (hv : R.date.valid = true) (day : Nat) (h1 : 1 ≤ day) (h28 : day ≤ 28)
    (hy1 : 2 ≤ R.date.y) (hy2 : R.date.y ≤ 9998) :
    ∃ f p, onDay R day = .ok (luisDayOnly day) f p ∧ f.secs = 0 ∧ p.secs = 0 ∧
      f.date.valid = true ∧ p.date.valid = true ∧ f.date.d = day ∧ p.date.d = day ∧
      monthIdx f.date = monthIdx p.date + 1 ∧ f.lt R = false ∧ p.lt R = true := by
  have hR := (valid_iff _).1 hv
  have vd : (⟨R.date.y, R.date.m, day⟩ : Date).valid = true := valid_md _ _ _ (by omega) (by omega) hR.2.2.1 hR.2.2.2.1 h1 h28
  have am := addMonth_small ⟨R.date.y, R.date.m, day⟩ vd h28
  simp only at am
  unfold onDay
  rw [isValidDate_nat, vd, if_pos rfl, safeCreate_ymd _ _ _ vd]
  have eR : (⟨R.date.y, R.date.m, R.date.d⟩ : Date) = R.date := rfl
  cases hlt : (⟨⟨R.date.y, R.date.m, day⟩, 0⟩ : DateTime).lt R with
  | true =>
    have nle : R.le ⟨⟨R.date.y, R.date.m, day⟩, 0⟩ = false := by
      have : ¬ (R.le ⟨⟨R.date.y, R.date.m, day⟩, 0⟩ = true) := by
        have := (lt_iff _ R).1 hlt
        rw [le_iff]; omega
      simpa using this
    have e := am.1 (by omega)
    simp only [hlt, if_true, nle, Bool.false_eq_true, if_false, addDelta, e, ofOpt, Option.bind_eq_bind, Option.map_some,
      Option.bind_some, Option.pure_def, Option.getD_some]
    refine ⟨_, _, rfl, rfl, rfl, ?_, vd, ?_, rfl, ?_, ?_, hlt⟩
    · split
      · exact valid_md _ _ _ (by omega) (by omega) (by omega) (by omega) h1 h28
      · exact valid_md _ _ _ (by omega) (by omega) (by omega) (by omega) h1 h28
    · split <;> rfl
    · unfold monthIdx; split <;> simp only <;> omega
    · have : R.date.ord < (if R.date.m = 12 then (⟨R.date.y + 1, 1, day⟩ : Date) else ⟨R.date.y, R.date.m + 1, day⟩).ord := by
        apply ord_lt_of_lexLt _ _ hv
        · split
          · exact valid_md _ _ _ (by omega) (by omega) (by omega) (by omega) h1 h28
          · exact valid_md _ _ _ (by omega) (by omega) (by omega) (by omega) h1 h28
        · unfold Date.lexLt; split <;> simp <;> omega
      exact (lt_of_ord R ⟨_, 0⟩ this).2
  | false =>
    have hle := not_lt_le _ R hlt
    have e := am.2 (by omega)
    simp only [hlt, Bool.false_eq_true, if_false, hle, if_true, addDelta, e, ofOpt, Option.bind_eq_bind, Option.map_some,
      Option.bind_some, Option.pure_def, Option.getD_some]
    refine ⟨_, _, rfl, rfl, rfl, vd, ?_, rfl, ?_, ?_, hlt, ?_⟩
    · split
      · exact valid_md _ _ _ (by omega) (by omega) (by omega) (by omega) h1 h28
      · exact valid_md _ _ _ (by omega) (by omega) (by omega) (by omega) h1 h28
    · split <;> rfl
    · unfold monthIdx; split <;> simp only <;> omega
    · have : (if R.date.m = 1 then (⟨R.date.y - 1, 12, day⟩ : Date) else ⟨R.date.y, R.date.m - 1, day⟩).ord < R.date.ord := by
        apply ord_lt_of_lexLt _ _ _ hv
        · unfold Date.lexLt; split <;> simp <;> omega
        · split
          · exact valid_md _ _ _ (by omega) (by omega) (by omega) (by omega) h1 h28
          · exact valid_md _ _ _ (by omega) (by omega) (by omega) (by omega) h1 h28
      exact (lt_of_ord ⟨_, 0⟩ R this).1

/-- Days 29..31 included: whatever `onDay` returns are valid calendar dates at midnight (C11: never an invalid value;
the month arithmetic of `datedelta` rolls or clamps instead). -/
theorem on_day_values_valid (R : DateTime) (hv : R.date.valid = true) (day : Nat) (t : Str) (f p : DateTime)
    (h : onDay R day = .ok t f p) :
    f.date.valid = true ∧ p.date.valid = true ∧ f.secs = 0 ∧ p.secs = 0 ∧ t = luisDayOnly day := by
  unfold onDay at h
  rw [isValidDate_nat] at h
  by_cases vd : (⟨R.date.y, R.date.m, day⟩ : Date).valid = true
  · rw [if_pos vd, safeCreate_ymd _ _ _ vd] at h
    have keep : ∀ (k : Int) (hk : k = 1 ∨ k = -1) (r : DateTime),
        addDelta ⟨⟨R.date.y, R.date.m, day⟩, 0⟩ 0 k 0 = some r → r.date.valid = true ∧ r.secs = 0 := by
      intro k hk r hr
      refine ⟨(addDelta_month_idx _ vd k hk r hr).1, ?_⟩
      unfold addDelta at hr
      cases hd : datedeltaAdd (⟨R.date.y, R.date.m, day⟩ : Date) 0 k 0 with
      | none => simp [hd] at hr
      | some d => simp only [hd, Option.map_some, Option.some.injEq] at hr; subst hr; rfl
    cases hlt : (⟨⟨R.date.y, R.date.m, day⟩, 0⟩ : DateTime).lt R <;>
      cases hle : R.le (⟨⟨R.date.y, R.date.m, day⟩, 0⟩ : DateTime) <;>
      simp only [hlt, hle, if_true, if_false, Bool.false_eq_true, ofOpt, Option.bind_eq_bind, Option.pure_def,
        Option.bind_some] at h
    · simp only [Option.getD_some, Res.ok.injEq] at h
      obtain ⟨ht, e1, e2⟩ := h
      subst e1 e2
      exact ⟨vd, vd, rfl, rfl, ht.symm⟩
    · cases hp : addDelta ⟨⟨R.date.y, R.date.m, day⟩, 0⟩ 0 (-1) 0 with
      | none => simp [hp] at h
      | some pa =>
        simp only [hp, Option.bind_some, Option.getD_some, Res.ok.injEq] at h
        obtain ⟨ht, e1, e2⟩ := h
        subst e1 e2
        have b := keep (-1) (Or.inr rfl) pa hp
        exact ⟨vd, b.1, rfl, b.2, ht.symm⟩
    · cases hf : addDelta ⟨⟨R.date.y, R.date.m, day⟩, 0⟩ 0 1 0 with
      | none => simp [hf] at h
      | some fu =>
        simp only [hf, Option.bind_some, Option.getD_some, Res.ok.injEq] at h
        obtain ⟨ht, e1, e2⟩ := h
        subst e1 e2
        have a := keep 1 (Or.inl rfl) fu hf
        exact ⟨a.1, vd, a.2, rfl, ht.symm⟩
    · cases hf : addDelta ⟨⟨R.date.y, R.date.m, day⟩, 0⟩ 0 1 0 with
      | none => simp [hf] at h
      | some fu =>
        cases hp : addDelta ⟨⟨R.date.y, R.date.m, day⟩, 0⟩ 0 (-1) 0 with
        | none => simp [hf, hp] at h
        | some pa =>
          simp only [hf, hp, Option.bind_some, Option.getD_some, Res.ok.injEq] at h
          obtain ⟨ht, e1, e2⟩ := h
          subst e1 e2
          have a := keep 1 (Or.inl rfl) fu hf
          have b := keep (-1) (Or.inr rfl) pa hp
          exact ⟨a.1, b.1, a.2, b.2, ht.symm⟩
  · rw [if_neg vd] at h; cases h

/-! ## "two days from tomorrow" -/

/-- `N days from <today | tomorrow | yesterday>`: the reference's date + N + swift days, at midnight, future = past,
definite TIMEX (C08: calendar arithmetic on the reference date). -/
theorem special_day_with_num_spec (R : DateTime) (hv : R.date.valid = true) (n sw : Int) (t : Str) (f p : DateTime)
    (h : specialDayWithNum R (some n) sw = .ok t f p) :
    f = p ∧ f.secs = 0 ∧ f.date.valid = true ∧ (f.date.ord : Int) = R.date.ord + n + sw ∧
    t = luisDate f.date.y f.date.m f.date.d := by
  unfold specialDayWithNum at h
  simp only at h
  rw [addDelta_days R hv] at h
  cases ha : addDays R (n + sw) with
  | none => simp [ha] at h
  | some v =>
    simp only [ha, Res.ok.injEq] at h
    obtain ⟨ht, hf, hp⟩ := h
    have s := addDays_spec R hv _ v ha
    have mv : midnightOf v = ⟨v.date, 0⟩ := by unfold midnightOf; exact safeCreate_valid v.date s.1
    rw [mv] at hf hp
    subst hf hp
    exact ⟨rfl, rfl, s.1, by simp only; omega, by rw [← ht]; rfl⟩

example : specialDayWithNum ⟨⟨2020, 2, 28⟩, 50400⟩ (some 2) 1 =
    .ok (ofString "2020-03-02") ⟨⟨2020, 3, 2⟩, 0⟩ ⟨⟨2020, 3, 2⟩, 0⟩ := by decide

/-- A day the reference's month does not have: `strptime` raises — no result at all, for every reference
("the 31st" asked in any 30-day month, "the 30th" in February). -/
theorem on_day_missing_raises (R : DateTime) (day : Nat) (h : daysInMonth R.date.y R.date.m < day) :
    onDay R day = .raises := by
  unfold onDay
  have nv : ¬ ((⟨R.date.y, R.date.m, day⟩ : Date).valid = true) := by rw [valid_iff]; simp only; omega
  rw [isValidDate_nat]
  simp [nv]

/-- Witness (days 29..31, past side): "the 31st" asked on 2020-12-12 → past value 2020-11-30, which is not a 31st
(`datedelta(months=-1)` clamps); the nearest 31st before is 2020-10-31. -/
theorem on_day_past_clamped :
    onDay ⟨⟨2020, 12, 12⟩, 50400⟩ 31 = .ok (ofString "XXXX-XX-31") ⟨⟨2020, 12, 31⟩, 0⟩ ⟨⟨2020, 11, 30⟩, 0⟩ := by decide

/-- Witness (days 29..31, future side): "the 31st" asked on 2020-01-31 14:00 → future value 2020-03-01 (the shim of
`datedelta` rolls forward; the nearest 31st on or after is 2020-01-31 itself, the next one 2020-03-31). -/
theorem on_day_future_rolls :
    onDay ⟨⟨2020, 1, 31⟩, 50400⟩ 31 = .ok (ofString "XXXX-XX-31") ⟨⟨2020, 3, 1⟩, 0⟩ ⟨⟨2020, 1, 31⟩, 0⟩ := by decide

/-- Witness (time of day): "the 15th" asked on 2020-05-15 12:00 → future 2020-06-15, past 2020-05-15: `past < R ≤
future` holds for datetimes, but on *dates* the reference's own day is the past value, not the future one
(at 00:00:00 it is the future value: `on_day_spec` with `R.secs = 0`). -/
theorem on_day_time_of_day :
    onDay ⟨⟨2020, 5, 15⟩, 43200⟩ 15 = .ok (ofString "XXXX-XX-15") ⟨⟨2020, 6, 15⟩, 0⟩ ⟨⟨2020, 5, 15⟩, 0⟩ ∧
    onDay ⟨⟨2020, 5, 15⟩, 0⟩ 15 = .ok (ofString "XXXX-XX-15") ⟨⟨2020, 5, 15⟩, 0⟩ ⟨⟨2020, 4, 15⟩, 0⟩ := by decide

/-- On dates: when the reference is at 00:00:00, `past.date < R.date ≤ future.date` (corollary of `on_day_spec`). -/
theorem on_day_dates_at_midnight (R : DateTime) (hs : R.secs = 0) (f p : DateTime) (hf : f.lt R = false) (hp : p.lt R = true) :
    p.date.ord < R.date.ord ∧ R.date.ord ≤ f.date.ord := by
  have a : ¬ (f.lt R = true) := by simp [hf]
  rw [lt_iff] at a hp
  omega

/-- `parse_single_number`, a day every month has: like `on_day_spec`, **unless** the reference is in December and the
stated day is already past — then `replace(month=13)` raises (`single_number_december_raises`). -/
theorem single_number_spec (R : DateTime) (hv : R.date.valid = true) (day : Nat) (h1 : 1 ≤ day) (h28 : day ≤ 28)
    (hy1 : 2 ≤ R.date.y) (hy2 : R.date.y ≤ 9998) (g : ¬ (R.date.m = 12 ∧ dayBefore R day)) :
    ∃ f p, singleNumber R day = .ok (luisDayOnly day) f p ∧ f.secs = 0 ∧ p.secs = 0 ∧
      f.date.valid = true ∧ p.date.valid = true ∧ f.date.d = day ∧ p.date.d = day ∧
      monthIdx f.date = monthIdx p.date + 1 ∧ f.lt R = false ∧ p.lt R = true := by
  have hR := (valid_iff _).1 hv
  have vd : (⟨R.date.y, R.date.m, day⟩ : Date).valid = true := valid_md _ _ _ (by omega) (by omega) hR.2.2.1 hR.2.2.2.1 h1 h28
  have ne : (⟨⟨R.date.y, R.date.m, day⟩, 0⟩ : DateTime) ≠ minValue := by
    intro e
    have : R.date.y = 1 := by
      have := congrArg (fun x : DateTime => x.date.y) e
      simpa [minValue] using this
    omega
  have dl := d0_lt_iff R hv day h1
  unfold singleNumber
  rw [safeCreate_ymd _ _ _ vd]
  simp only [ne_eq, ne, not_false_eq_true, decide_true, Bool.true_and]
  cases hlt : (⟨⟨R.date.y, R.date.m, day⟩, 0⟩ : DateTime).lt R with
  | true =>
    have hm : R.date.m ≠ 12 := fun e => g ⟨e, dl.1 hlt⟩
    have nle : R.le ⟨⟨R.date.y, R.date.m, day⟩, 0⟩ = false := by
      have : ¬ (R.le ⟨⟨R.date.y, R.date.m, day⟩, 0⟩ = true) := by
        have := (lt_iff _ R).1 hlt
        rw [le_iff]; omega
      simpa using this
    have vn : (⟨R.date.y, R.date.m + 1, day⟩ : Date).valid = true :=
      valid_md _ _ _ (by omega) (by omega) (by omega) (by omega) h1 h28
    have rm : replaceMonth ⟨⟨R.date.y, R.date.m, day⟩, 0⟩ ((R.date.m : Int) + 1) = some ⟨⟨R.date.y, R.date.m + 1, day⟩, 0⟩ := by
      unfold replaceMonth
      have : ((R.date.m : Int) + 1).toNat = R.date.m + 1 := by omega
      simp only [this, isValidDate_nat, vn, and_true]
      rw [if_pos (by omega)]
    simp only [hlt, if_true, nle, Bool.false_eq_true, if_false, rm, ofOpt, Option.bind_eq_bind, Option.bind_some,
      Option.pure_def, Option.getD_some]
    refine ⟨_, _, rfl, rfl, rfl, vn, vd, rfl, rfl, ?_, ?_, hlt⟩
    · unfold monthIdx; simp only; omega
    · have : R.date.ord < (⟨R.date.y, R.date.m + 1, day⟩ : Date).ord := by
        apply ord_lt_of_lexLt _ _ hv vn
        unfold Date.lexLt; simp <;> omega
      exact (lt_of_ord R ⟨_, 0⟩ this).2
  | false =>
    have hle := not_lt_le _ R hlt
    simp only [hlt, Bool.false_eq_true, if_false, hle, if_true]
    by_cases hm1 : R.date.m = 1
    · have vp : (⟨R.date.y - 1, 12, day⟩ : Date).valid = true :=
        valid_md _ _ _ (by omega) (by omega) (by omega) (by omega) h1 h28
      have rm : replaceMonthYear ⟨⟨R.date.y, R.date.m, day⟩, 0⟩ 12 ((R.date.y : Int) - 1) = some ⟨⟨R.date.y - 1, 12, day⟩, 0⟩ := by
        unfold replaceMonthYear
        have e1 : ((R.date.y : Int) - 1) = ((R.date.y - 1 : Nat) : Int) := by omega
        have e2 : ((R.date.y : Int) - 1).toNat = R.date.y - 1 := by omega
        simp only [e2]
        rw [e1, isValidDate_nat]
        simp [vp]
      have c : ((R.date.m : Int) - 1 == 0) = true := by simp; omega
      simp only [c, if_true, rm, ofOpt, Option.bind_eq_bind, Option.bind_some, Option.pure_def, Option.getD_some]
      refine ⟨_, _, rfl, rfl, rfl, vd, vp, rfl, rfl, ?_, hlt, ?_⟩
      · unfold monthIdx; simp only; omega
      · have : (⟨R.date.y - 1, 12, day⟩ : Date).ord < R.date.ord := by
          apply ord_lt_of_lexLt _ _ vp hv
          unfold Date.lexLt; simp <;> omega
        exact (lt_of_ord ⟨_, 0⟩ R this).1
    · have vp : (⟨R.date.y, R.date.m - 1, day⟩ : Date).valid = true :=
        valid_md _ _ _ (by omega) (by omega) (by omega) (by omega) h1 h28
      have rm : replaceMonth ⟨⟨R.date.y, R.date.m, day⟩, 0⟩ ((R.date.m : Int) - 1) = some ⟨⟨R.date.y, R.date.m - 1, day⟩, 0⟩ := by
        unfold replaceMonth
        have : ((R.date.m : Int) - 1).toNat = R.date.m - 1 := by omega
        simp only [this, isValidDate_nat, vp, and_true]
        rw [if_pos (by omega)]
      have c : ((R.date.m : Int) - 1 == 0) = false := by simp; omega
      simp only [c, Bool.false_eq_true, if_false, rm, ofOpt, Option.bind_eq_bind, Option.bind_some, Option.pure_def,
        Option.getD_some]
      refine ⟨_, _, rfl, rfl, rfl, vd, vp, rfl, rfl, ?_, hlt, ?_⟩
      · unfold monthIdx; simp only; omega
      · have : (⟨R.date.y, R.date.m - 1, day⟩ : Date).ord < R.date.ord := by
          apply ord_lt_of_lexLt _ _ vp hv
          unfold Date.lexLt; simp <;> omega
        exact (lt_of_ord ⟨_, 0⟩ R this).1

/-- In December a stated day that is already past makes `parse_single_number` raise (`replace(month=13)`), for every
such reference and day. -/
theorem single_number_december_raises (R : DateTime) (hv : R.date.valid = true) (day : Nat) (h1 : 1 ≤ day)
    (hy : 2 ≤ R.date.y) (hm : R.date.m = 12) (hb : dayBefore R day) : singleNumber R day = .raises := by
  have hR := (valid_iff _).1 hv
  have hd31 : day ≤ 31 := by
    have := daysInMonth_le R.date.y R.date.m
    unfold dayBefore at hb; omega
  have vd : (⟨R.date.y, R.date.m, day⟩ : Date).valid = true := by
    rw [valid_iff]; simp only
    have : daysInMonth R.date.y R.date.m = 31 := by rw [hm]; rfl
    omega
  have ne : (⟨⟨R.date.y, R.date.m, day⟩, 0⟩ : DateTime) ≠ minValue := by
    intro e
    have : R.date.y = 1 := by
      have := congrArg (fun x : DateTime => x.date.y) e
      simpa [minValue] using this
    omega
  have hlt := (d0_lt_iff R hv day h1).2 hb
  unfold singleNumber
  rw [safeCreate_ymd _ _ _ vd]
  have rm : replaceMonth ⟨⟨R.date.y, R.date.m, day⟩, 0⟩ ((R.date.m : Int) + 1) = none := by
    unfold replaceMonth
    have : ¬ (1 ≤ (R.date.m : Int) + 1 ∧ isValidDate (R.date.y : Int) ((R.date.m : Int) + 1).toNat day = true) := by
      intro ⟨_, b⟩
      have e : ((R.date.m : Int) + 1).toNat = 13 := by omega
      rw [e, isValidDate_nat, valid_iff] at b
      simp only at b
      omega
    simp only at this ⊢
    rw [if_neg this]
  simp [ne, hlt, rm, ofOpt]

/-- Witness: "the thirtieth" asked on 2020-12-31 raises. -/
theorem single_december_raises : singleNumber ⟨⟨2020, 12, 31⟩, 36000⟩ 30 = .raises := by decide

example : singleNumber ⟨⟨2020, 2, 10⟩, 50400⟩ 15 = .ok (ofString "XXXX-XX-15") ⟨⟨2020, 2, 15⟩, 0⟩ ⟨⟨2020, 1, 15⟩, 0⟩ := by
  decide
/-- a day the month lacks: both values are `min_value`, which the merged parser turns into no value -/
example : singleNumber ⟨⟨2020, 2, 1⟩, 36000⟩ 31 = .ok (ofString "XXXX-XX-31") minValue minValue := by decide

/-! ## the order of the branches and of the sub-parsers -/

/-- `parse_implicit_date` asks the patterns in a fixed order; the first that matches decides alone. -/
theorem implicit_order (R : DateTime) (mt : Matches) :
    (∀ d, mt.on = some d → implicitDate R mt = onDay R d) ∧
    (mt.on = none → mt.special = none → ∀ x, mt.specialNum = some x → implicitDate R mt = specialDayWithNum R x.1 x.2) ∧
    (mt.on = none → mt.special = none → mt.specialNum = none → ∀ x, mt.relWeekday = some x →
      implicitDate R mt = relativeWeekday R x.1 x.2) ∧
    (mt.on = none → mt.special = none → mt.specialNum = none → mt.relWeekday = none → mt.next = none → mt.this = none →
      mt.last = none → mt.bare = none →
      (∀ d, mt.forThe = some d → implicitDate R mt = forThe R d) ∧
      (mt.forThe = none → ∀ d, mt.wdDayOfMonth = some d → implicitDate R mt = weekdayAndDayOfMonth R d) ∧
      (mt.forThe = none → mt.wdDayOfMonth = none → ∀ x, mt.wdDay = some x →
        implicitDate R mt = weekdayAndDay R x.1 x.2.1 x.2.2) ∧
      (mt.forThe = none → mt.wdDayOfMonth = none → mt.wdDay = none → implicitDate R mt = .noResult)) := by
  refine ⟨?_, ?_, ?_, ?_⟩
  · intro d h; unfold implicitDate; rw [h]
  · intro h1 h2 x h3; unfold implicitDate; rw [h1, h2, h3]
  · intro h1 h2 h3 x h4; unfold implicitDate; rw [h1, h2, h3, h4]
  · intro h1 h2 h3 h4 h5 h6 h7 h8
    refine ⟨?_, ?_, ?_, ?_⟩
    · intro d h; unfold implicitDate; rw [h1, h2, h3, h4, h5, h6, h7, h8, h]
    · intro h9 d h; unfold implicitDate; rw [h1, h2, h3, h4, h5, h6, h7, h8, h9, h]
    · intro h9 h10 x h; unfold implicitDate; rw [h1, h2, h3, h4, h5, h6, h7, h8, h9, h10, h]
    · intro h9 h10 h11; unfold implicitDate; rw [h1, h2, h3, h4, h5, h6, h7, h8, h9, h10, h11]

/-- `parse` keeps the first sub-parser that succeeds, in the order basic regex → implicit date → weekday of month →
ago / later → number with month → single number, and never runs (hence never raises in) a later one; a sub-parser that
raises before any success makes `parse` raise. -/
theorem parse_order (R : DateTime) (s : Subs) :
    (∀ t f p, s.basic = .ok t f p → parseInner R s = .ok t f p) ∧
    (s.basic = .raises → parseInner R s = .raises) ∧
    (s.basic = .noResult → ∀ t f p, implicitDate R s.implicit = .ok t f p → parseInner R s = .ok t f p) ∧
    (s.basic = .noResult → implicitDate R s.implicit = .raises → parseInner R s = .raises) ∧
    (s.basic = .noResult → implicitDate R s.implicit = .noResult → ∀ x, s.wom = some x →
      ∀ t f p, weekdayOfMonth R x.1 x.2.1 x.2.2.1 x.2.2.2 = .ok t f p → parseInner R s = .ok t f p) ∧
    (s.basic = .noResult → implicitDate R s.implicit = .noResult → s.wom = none → s.agoLater = .noResult →
      s.numberWithMonth = .noResult → ∀ d, s.single = some d → parseInner R s = singleNumber R d ∨
        (singleNumber R d = .noResult ∧ parseInner R s = .noResult)) := by
  refine ⟨?_, ?_, ?_, ?_, ?_, ?_⟩
  · intro t f p h; simp [parseInner, firstSuccess, h]
  · intro h; simp [parseInner, firstSuccess, h]
  · intro h t f p hi; simp [parseInner, firstSuccess, h, hi]
  · intro h hi; simp [parseInner, firstSuccess, h, hi]
  · intro h hi x hx t f p hw; simp [parseInner, firstSuccess, h, hi, hx, hw]
  · intro h hi hw ha hn d hd
    cases hs : singleNumber R d with
    | raises => left; simp [parseInner, firstSuccess, h, hi, hw, ha, hn, hd, hs]
    | noResult => right; simp [parseInner, firstSuccess, h, hi, hw, ha, hn, hd, hs]
    | ok t f p => left; simp [parseInner, firstSuccess, h, hi, hw, ha, hn, hd, hs]

/-- The result `parse` assembles: `timex_str` is the sub-parser's TIMEX, the two resolution strings are
`format_date` of its future and past values, and nothing else. -/
theorem parse_assembly (R : DateTime) (s : Subs) (t fr pr : Str) (f p : DateTime)
    (h : parseDate R s = some (some (t, fr, pr, f, p))) :
    parseInner R s = .ok t f p ∧ fr = luisDate f.date.y f.date.m f.date.d ∧ pr = luisDate p.date.y p.date.m p.date.d := by
  unfold parseDate at h
  cases hi : parseInner R s with
  | raises => simp [hi] at h
  | noResult => simp [hi] at h
  | ok t' f' p' =>
    simp only [hi, Option.some.injEq, Prod.mk.injEq] at h
    obtain ⟨a, b, c, d, e⟩ := h
    subst a d e
    exact ⟨rfl, b.symm, c.symm⟩

end RTV.DateParser
