import RTV.Lemmas.TimePeriod
/-!
# Clock-time ranges, parts of the day, "now", "end of day", "N hours ago" — companion of C07 (feeds C10 / C08)

Theorems about `RTV.TimePeriod` (Model/TimePeriod.lean), the model of `BaseTimePeriodParser.parse_pure_numbers /
parse_specific_time / parse_time_of_day / parse` and of `BaseDateTimeParser.parse_basic_regex /
parse_special_time_of_date / parser_duration_with_ago_and_later`.  Start / end of a range are seconds from the reference's
midnight.  What the properties demand: the two ends are the stated clock times under the am / pm rule the code applies
(12 am = 00, 12 pm = 12), begin before end or the documented roll to the next day, a TIMEX `(Tb,Te,PT…)` whose duration
is end − begin (`RTV.WF.tripleOK`, the C10 predicate), both ends valid times of day; `N <unit> ago / later` = the
reference ∓ N·unit; "now" = the reference.  Where the code as found violates this there is a witness theorem (`…_witness`)
and the statement for the repaired variant (`Variant`).
-/
namespace RTV.TimePeriod
open RTV.Cal RTV.WF
set_option linter.unusedVariables false

/-! ## `parse_pure_numbers`: "3 to 5 pm", "from 11 to 3am" -/

/-- 24-hour reading of a 12-hour clock hour with its designator: 12 am = 00, 12 pm = 12 -/
def hour24 (h : Nat) (pm : Bool) : Nat := h % 12 + (if pm then 12 else 0)

/-- what the pm rule must deliver for the stated hours `b`, `e` -/
def PmOK (b e : Nat) : Bool :=
  match pureHours .pm b e with
  | some (b', e') => e' == hour24 e true && b' % 12 == b % 12 && decide (b' < e') && decide (e' - b' ≤ 12)
  | none => false

/-- what the am rule must deliver -/
def AmOK (b e : Nat) : Bool :=
  match pureHours .am b e with
  | some (b', e') => e' == hour24 e false && b' % 12 == b % 12 && decide (b' < 24)
  | none => false

theorem pmOK_fin : ∀ b e : Fin 13, 1 ≤ e.val → ¬(b.val = 12 ∧ e.val = 12) → PmOK b.val e.val = true := by decide
theorem amOK_fin : ∀ b e : Fin 13, 1 ≤ e.val → AmOK b.val e.val = true := by decide

/-- **The pm rule**, for every pair of 12-hour hours (not both 12): the end is the stated hour pm (`12 pm = 12`); the begin
is the stated hour read as pm when that is still before the end, otherwise as written ("3 to 5 pm" = 15 → 17, "11 to 3 pm"
= 11 → 15, "12 to 1 pm" = 12 → 13): begin and stated hour agree modulo 12, the begin is before the end and at most twelve
hours before it. -/
theorem pure_pm_rule (b e : Nat) (hb : b ≤ 12) (he1 : 1 ≤ e) (he : e ≤ 12) (hne : ¬(b = 12 ∧ e = 12)) :
    ∃ b' e', pureHours .pm b e = some (b', e') ∧ e' = hour24 e true ∧ b' % 12 = b % 12 ∧ b' < e' ∧ e' - b' ≤ 12 := by
  have h := pmOK_fin ⟨b, by omega⟩ ⟨e, by omega⟩ he1 hne
  unfold PmOK at h
  simp only at h
  cases hp : pureHours .pm b e with
  | none => simp [hp] at h
  | some p =>
    obtain ⟨b', e'⟩ := p
    simp only [hp, Bool.and_eq_true, beq_iff_eq, decide_eq_true_eq] at h
    exact ⟨b', e', rfl, h.1.1.1, h.1.1.2, h.1.2, h.2⟩

/-- **The am rule**, for every pair of 12-hour hours: the end is the stated hour am (`12 am = 00`); the begin agrees with
the stated hour modulo 12 — it is folded below 12 when that keeps it before the end, and moved to the evening when it
would otherwise come after the end ("11 to 3 am" = 23 → 03, "12 to 1 am" = 00 → 01). -/
theorem pure_am_rule (b e : Nat) (hb : b ≤ 12) (he1 : 1 ≤ e) (he : e ≤ 12) :
    ∃ b' e', pureHours .am b e = some (b', e') ∧ e' = hour24 e false ∧ b' % 12 = b % 12 ∧ b' < 24 := by
  have h := amOK_fin ⟨b, by omega⟩ ⟨e, by omega⟩ he1
  unfold AmOK at h
  simp only at h
  cases hp : pureHours .am b e with
  | none => simp [hp] at h
  | some p =>
    obtain ⟨b', e'⟩ := p
    simp only [hp, Bool.and_eq_true, beq_iff_eq, decide_eq_true_eq] at h
    exact ⟨b', e', rfl, h.1.1, h.1.2, h.2⟩

def HoursValid (side : Side) (b e : Nat) : Bool :=
  match pureHours side b e with
  | some (b', e') => decide (b' ≤ 23) && decide (e' ≤ 23)
  | none => true

theorem hoursValid_fin : ∀ side : Side, ∀ b e : Fin 24, HoursValid side b.val e.val = true := by
  intro side; cases side <;> decide

/-- Hours that are valid (≤ 23) stay valid under both rules. -/
theorem pure_hours_valid (side : Side) (b e b' e' : Nat) (hb : b ≤ 23) (he : e ≤ 23)
    (h : pureHours side b e = some (b', e')) : b' ≤ 23 ∧ e' ≤ 23 := by
  have k := hoursValid_fin side ⟨b, by omega⟩ ⟨e, by omega⟩
  unfold HoursValid at k
  simp only [h, Bool.and_eq_true, decide_eq_true_eq] at k
  exact k

/-- **TIMEX, values and the roll**: with the hours settled the range runs from `b:00` to `e:00`, the end on the next
day exactly when it is not after the begin, and the `PT…H` amount is end − begin in hours (never 0, at most 24). -/
theorem pure_result_spec (b e : Nat) :
    pureResult b e = .ok (pureTimex b e ((if b ≥ e then e + 24 else e) - b)) [] [] ((b : Int) * 3600)
      (((if b ≥ e then e + 24 else e : Nat) : Int) * 3600) ∧
    (b < 24 → b < (if b ≥ e then e + 24 else e)) := by
  refine ⟨rfl, ?_⟩; intro hb; split <;> omega

/-- **C10 for pure-number ranges**: for all valid, different hours the emitted `(Tbb,Tee,PTdH)` is a consistent triple —
its two points are the resolved start / end (`bb:00:00`, `ee:00:00`) and `d` hours is the distance from start to end. -/
theorem pure_triple_consistent (b e : Nat) (hb : b < 24) (he : e < 24) (hne : b ≠ e) :
    ∃ t c m s f, pureResult b e = .ok t c m s f ∧ tripleOK t (some (fmtOff s)) (some (fmtOff f)) = true ∧
      fmtOff s = formatTime b 0 0 ∧ fmtOff f = formatTime e 0 0 := by
  have hs : fmtOff ((b : Int) * 3600) = formatTime b 0 0 := by
    rw [fmtOff_hours, Nat.mod_eq_of_lt hb]
  have hf : fmtOff (((if b ≥ e then e + 24 else e : Nat) : Int) * 3600) = formatTime e 0 0 := by
    rw [fmtOff_hours]; congr 1; split <;> omega
  refine ⟨_, _, _, _, _, rfl, ?_, hs, hf⟩
  rw [hs, hf]
  have key := clockTriple_ok b 0 e 0 false false hb (by omega) he (by omega) (fun _ => rfl) (fun _ => rfl)
    (RTV.WF.natStr ((if b ≥ e then e + 24 else e) - b) ++ [72]) (((if b ≥ e then e + 24 else e) - b) * 3600) (by simp)
    (pt_H _) (by intro c hc; simp only [List.mem_append, List.mem_singleton] at hc
                 rcases hc with hc | hc
                 · exact natStr_no_comma _ c hc
                 · omega)
    (by split <;> omega)
  simpa [pureTimex, pt, fmt2_lt b (by omega), fmt2_lt e (by omega), natStr] using key

/-! ## `parse_specific_time`: "3:30 to 4 pm", "from 10pm to 12am" -/

/-- the description a side carries: `pm` / `am` -/
def desc (pm : Bool) : Str := if pm then [112, 109] else [97, 109]

/-- minutes of a side: the captured value, 0 when the group is absent (−1) -/
def minOf (m : Int) : Int := if m > 0 then m else 0

theorem both_aux (v : Variant) (ge : Bool) (hge : v.rightAmGe = ge) (bh eh : Nat) (bm em : Int) (lpm rpm : Bool)
    (hc : ge = true ∨ rpm = true ∨ eh ≠ 12)
    (hb1 : 1 ≤ bh) (hb : bh ≤ 12) (he1 : 1 ≤ eh) (he : eh ≤ 12) (hbm : -1 ≤ bm ∧ bm ≤ 59) (hem : -1 ≤ em ∧ em ≤ 59) :
    ∃ t, specificCore v bh eh bm em (desc lpm) (desc rpm) =
      .ok t [] [] ((hour24 bh lpm : Int) * 3600 + minOf bm * 60)
        (if (hour24 eh rpm : Int) * 3600 + minOf em * 60 < (hour24 bh lpm : Int) * 3600 + minOf bm * 60
         then (hour24 eh rpm : Int) * 3600 + minOf em * 60 + 86400
         else (hour24 eh rpm : Int) * 3600 + minOf em * 60) := by
  have g : ¬(bh > 23 ∨ eh > 23 ∨ (if bm > 0 then bm else 0) > 59 ∨ (if em > 0 then em else 0) > 59) := by
    rintro (h | h | h | h)
    · omega
    · omega
    · split at h <;> omega
    · split at h <;> omega
  unfold specificCore
  simp only [g, if_false]
  cases ge <;> cases lpm <;> cases rpm <;> simp at hc <;>
    simp [desc, specificShift, hge, hour24, minOf, H12, H24]
  all_goals (generalize (if 0 < bm then bm else 0) = x; generalize (if 0 < em then em else 0) = y)
  all_goals (refine ⟨?_, ?_⟩ <;> (repeat' split) <;> omega)

/-- **Both sides carry am / pm** ("from 10:30pm to 12am"), for all 12-hour hours and minutes: the begin is the stated
left clock time, the end the stated right clock time (`12 am = 00`, `12 pm = 12`), taken on the next day when it is before
the begin; the TIMEX is `(Tb,Te,PT…)` with exactly those points and it is a consistent triple (C10); the printed start /
end are `hh:mm:00` of the stated times.  In the code as found this holds unless the right side is `12 … am`
(`specific_12am_end_witness`); with the repair `end_hour >= 12` it holds for every input. -/
theorem specific_both_described (v : Variant) (bh eh : Nat) (bm em : Int) (lpm rpm : Bool)
    (hc : v.rightAmGe = true ∨ rpm = true ∨ eh ≠ 12)
    (hb1 : 1 ≤ bh) (hb : bh ≤ 12) (he1 : 1 ≤ eh) (he : eh ≤ 12) (hbm : -1 ≤ bm ∧ bm ≤ 59) (hem : -1 ≤ em ∧ em ≤ 59) :
    ∃ (B E : Int), B = (hour24 bh lpm : Int) * 3600 + minOf bm * 60 ∧
      (E = (hour24 eh rpm : Int) * 3600 + minOf em * 60 ∨ E = (hour24 eh rpm : Int) * 3600 + minOf em * 60 + 86400) ∧
      B ≤ E ∧ E - B < 86400 ∧
      specificCore v bh eh bm em (desc lpm) (desc rpm) = .ok (specTimex B E bm em) [] [] B E ∧
      tripleOK (specTimex B E bm em) (some (fmtOff B)) (some (fmtOff E)) = true ∧
      fmtOff B = formatTime (hour24 bh lpm) (minOf bm).toNat 0 ∧ fmtOff E = formatTime (hour24 eh rpm) (minOf em).toNat 0 := by
  obtain ⟨t, ht⟩ := both_aux v v.rightAmGe rfl bh eh bm em lpm rpm hc hb1 hb he1 he hbm hem
  have sh := specificCore_shape _ _ _ _ _ _ _ _ _ _ _ _ ht
  have hh1 : hour24 bh lpm < 24 := by unfold hour24; split <;> omega
  have hh2 : hour24 eh rpm < 24 := by unfold hour24; split <;> omega
  have m1 : 0 ≤ minOf bm ∧ minOf bm ≤ 59 ∧ (bm < 0 → minOf bm = 0) := by unfold minOf; split <;> omega
  have m2 : 0 ≤ minOf em ∧ minOf em ≤ 59 ∧ (em < 0 → minOf em = 0) := by unfold minOf; split <;> omega
  generalize hB : (hour24 bh lpm : Int) * 3600 + minOf bm * 60 = B at ht sh
  generalize hE0 : (hour24 eh rpm : Int) * 3600 + minOf em * 60 = E0 at ht sh
  generalize hE : (if E0 < B then E0 + 86400 else E0) = E at ht sh
  have hEor : E = E0 ∨ E = E0 + 86400 := by rw [← hE]; split <;> simp
  have hle : B ≤ E ∧ E - B < 86400 := by rw [← hE]; split <;> omega
  refine ⟨B, E, rfl, hEor, hle.1, hle.2, ?_, ?_, ?_, ?_⟩
  · rw [ht, sh.1]
  · apply specTimex_triple B E bm em <;> omega
  · have := fmtOff_hms (hour24 bh lpm) (minOf bm).toNat 0 0 hh1 (by omega) (by omega)
    rw [← this]; congr 1; omega
  · rcases hEor with h | h
    · have := fmtOff_hms (hour24 eh rpm) (minOf em).toNat 0 0 hh2 (by omega) (by omega)
      rw [← this]; congr 1; omega
    · have := fmtOff_hms (hour24 eh rpm) (minOf em).toNat 0 1 hh2 (by omega) (by omega)
      rw [← this]; congr 1; omega

/-- **Every result of `parse_specific_time` whose ends are at most a day apart is a consistent triple** — whatever
branch of the am / pm logic produced the two offsets: the TIMEX points are the hour[:minute] of the resolved start / end and
the `PT…` text is their distance. (Hypotheses on the offsets: whole minutes, and a side without a minute capture is on the
hour — both hold for what `specificCore` computes, whose shifts are multiples of twelve hours.) -/
theorem specific_triple_consistent (v : Variant) (bh eh : Nat) (bm em : Int) (l r t c m : Str) (b e : Int)
    (h : specificCore v bh eh bm em l r = .ok t c m b e)
    (hb : b % 60 = 0) (he : e % 60 = 0) (h1 : b ≤ e) (h2 : e - b < 86400)
    (zb : bm < 0 → b % 3600 = 0) (ze : em < 0 → e % 3600 = 0) :
    tripleOK t (some (fmtOff b)) (some (fmtOff e)) = true := by
  rw [(specificCore_shape _ _ _ _ _ _ _ _ _ _ _ _ h).1]
  exact specTimex_triple b e bm em hb he h1 h2 zb ze

/-- **Witness (finding `timerange-12am-end`)**: "from 10pm to 12am" — as found the end stays at 12:00 (`(T22,T12,PT14H)`,
22:00 → 12:00 next day) because the right-hand test is `end_hour > 12` while the left-hand one is `>= 12`; with
`end_hour >= 12` it is `(T22,T00,PT2H)`, 22:00 → 24:00. -/
theorem specific_12am_end_witness :
    specificCore {} 10 12 (-1) (-1) (desc true) (desc false) =
      .ok ("(T22,T12,PT14H)".toList.map Char.toNat) [] [] 79200 129600 ∧
    specificCore { rightAmGe := true } 10 12 (-1) (-1) (desc true) (desc false) =
      .ok ("(T22,T00,PT2H)".toList.map Char.toNat) [] [] 79200 86400 ∧
    fmtOff 129600 = "12:00:00".toList.map Char.toNat ∧ fmtOff 86400 = "00:00:00".toList.map Char.toNat := by
  decide +kernel

/-- the left side *is* folded in the code as found: "from 12am to 2am" = 00:00 → 02:00 -/
theorem specific_12am_begin_folded :
    specificCore {} 12 2 (-1) (-1) (desc false) (desc false) = .ok ("(T00,T02,PT2H)".toList.map Char.toNat) [] [] 0 7200 := by
  decide +kernel

def cp (s : String) : Str := s.toList.map Char.toNat
abbrev aU : Uni := RTV.DtRes.asciiUni

/-- **Witness (finding `timerange-seconds-dropped`)**: "from 10:00:05 to 11:00:20" (groups as the regex captures them) —
`parse_specific_time` never reads the `sec` group: `(T10:00,T11:00,PT1H)`, 10:00:00 → 11:00:00. With the repair it
returns no result, and `BaseTimePeriodParser.parse` then takes what `merge_two_time_points` computes from the two parsed
time points (`time_range_duration_repaired` in Props/C07Ranges: `PT1H15S`). -/
theorem specific_seconds_witness :
    specificTime {} aU [] [cp "10", cp "11"] [cp "00", cp "00"] [] (cp "10:00:05") (cp "11:00:20") [] [] true true =
      .ok (cp "(T10:00,T11:00,PT1H)") RTV.DtRes.sAmPm [] 36000 39600 ∧
    specificTime { secondsBail := true } aU [] [cp "10", cp "11"] [cp "00", cp "00"] [] (cp "10:00:05") (cp "11:00:20") [] []
      true true = .noResult := by
  decide +kernel

/-- **Witness (finding `timerange-minute-wrong-side`)**: "from 10 to 5:10pm" — the only minute capture `10` is tested with
`minute_str in time1`, a substring test that the *hour* text `10` satisfies: the range starts at 10:10 and ends at 17:00
(`(T10:10,T17,PT6H50M)`). Attributed by the capture's position it is `(T10,T17:10,PT7H10M)`. -/
theorem specific_minute_side_witness :
    specificTime {} aU [] [cp "10", cp "5"] [cp "10"] [cp "pm"] (cp "10") (cp "5:10pm") [] [] false false =
      .ok (cp "(T10:10,T17,PT6H50M)") [] [] 36600 61200 ∧
    specificTime { minuteBySpan := true } aU [] [cp "10", cp "5"] [cp "10"] [cp "pm"] (cp "10") (cp "5:10pm") [] [] false false =
      .ok (cp "(T10,T17:10,PT7H10M)") [] [] 36000 61800 := by
  decide +kernel

/-- **Witness (truthiness of a table value 0)**: the word `zero` is in the `Numbers` table with value 0; `if not
begin_hour:` sends it to `int('zero')`, which raises — "from zero to 3am" is lost by `parse_pure_numbers` and
`parse_specific_time` alike (the digit `0` is fine). -/
theorem zero_word_raises :
    pureNumbers aU [(cp "zero", 0), (cp "three", 3)] [cp "zero", cp "3"] [] (cp "am") [] [] true false = .raises "ValueError" ∧
    pureNumbers aU [(cp "zero", 0), (cp "three", 3)] [cp "0", cp "three"] [] (cp "am") [] [] true false =
      .ok (cp "(T00,T03,PT3H)") [] [] 0 10800 := by
  decide +kernel

/-- **Witnesses at the edge of the hour pattern** (`2[0-4]` admits 24): "from 3 to 24pm" prints the point `T24`, which is
no time of day; "from 17 to 5pm" (both hours equal after the rule) prints `PT24H` between two equal points, which
`tripleOK` rejects. -/
theorem pure_edge_witnesses :
    pureNumbers aU [] [cp "3", cp "24"] [] (cp "pm") [] [] false true = .ok (cp "(T15,T24,PT9H)") [] [] 54000 86400 ∧
    pureNumbers aU [] [cp "17", cp "5"] [] (cp "pm") [] [] false true = .ok (cp "(T17,T17,PT24H)") [] [] 61200 147600 ∧
    tripleOK (cp "(T17,T17,PT24H)") (some (fmtOff 61200)) (some (fmtOff 147600)) = false := by
  decide +kernel

/-! ## `BaseTimePeriodParser.parse`: which sub-parser answers -/

/-- The first sub-parser that succeeds answers: a result of `parse_specific_time` hides whatever
`merge_two_time_points` would have computed (this is why the two findings above reach the user although
`merge_two_time_points` resolves both texts correctly), and the printed start / end are `format_time` of its offsets. -/
theorem parse_specific_shadows_merge (t c m : Str) (b e : Int) (merge tod : Res) :
    periodParse [.noResult, .ok t c m b e, merge, tod] = some (t, fmtOff b, fmtOff e) := rfl

/-- when the first two give nothing the merged time points answer, then the part of day -/
theorem parse_falls_through (t c m : Str) (b e : Int) (tod : Res) :
    periodParse [.noResult, .noResult, .ok t c m b e, tod] = some (t, fmtOff b, fmtOff e) ∧
    periodParse [.noResult, .noResult, .noResult, .ok t c m b e] = some (t, fmtOff b, fmtOff e) ∧
    periodParse [.noResult, .noResult, .noResult, .noResult] = none := ⟨rfl, rfl, rfl⟩

/-- both printed ends are valid times of day (hour < 24), whatever the offsets -/
theorem parse_ends_valid (rs : List Res) (t s f : Str) (h : periodParse rs = some (t, s, f)) :
    (∃ h m x, h < 24 ∧ m < 60 ∧ x < 60 ∧ s = formatTime h m x) ∧ (∃ h m x, h < 24 ∧ m < 60 ∧ x < 60 ∧ f = formatTime h m x) := by
  unfold periodParse at h
  split at h
  · simp only [Option.some.injEq, Prod.mk.injEq] at h
    obtain ⟨_, h2, h3⟩ := h
    subst h2 h3
    exact ⟨fmtOff_valid _, fmtOff_valid _⟩
  · simp at h

end RTV.TimePeriod
