import RTV.Lemmas.TimePeriod
/-!
# Clock-time ranges, parts of the day, "now", "end of day", "N hours ago" — companion of C07 (feeds C10 / C08)

Theorems about `RTV.TimePeriod` (Model/TimePeriod.lean), the model of `BaseTimePeriodParser.parse_pure_numbers /
parse_specific_time / parse_time_of_day / parse` and of `BaseDateTimeParser.parse_basic_regex /
parse_special_time_of_date / parser_duration_with_ago_and_later`.  Start / end of a range are seconds from the reference's
midnight.  What the properties demand: the two ends are the stated clock times under the am / pm rule the code applies
(12 am = 00, 12 pm = 12), begin before end or the documented roll to the next day, a TIMEX `(Tb,Te,PT…)` whose duration
is end − begin (`RTV.WF.tripleOK`, the C10 predicate), both ends valid times of day; `N <unit> ago / later` = the
reference ∓ N·unit; "now" = the reference.  Where the code as found violates this there is a witness theorem (`…_witness`)
and the statement for the repaired variant (`Variant`).
-/
namespace RTV.TimePeriod
open RTV.Cal RTV.WF
set_option linter.unusedVariables false

/-! ## `parse_pure_numbers`: "3 to 5 pm", "from 11 to 3am" -/

/-- 24-hour reading of a 12-hour clock hour with its designator: 12 am = 00, 12 pm = 12 -/
def hour24 (h : Nat) (pm : Bool) : Nat := h % 12 + (if pm then 12 else 0)

/-- what the pm rule must deliver for the stated hours `b`, `e` -/
def PmOK (b e : Nat) : Bool :=
  match pureHours .pm b e with
  | some (b', e') => e' == hour24 e true && b' % 12 == b % 12 && decide (b' < e') && decide (e' - b' ≤ 12)
  | none => false

/-- what the am rule must deliver -/
def AmOK (b e : Nat) : Bool :=
  match pureHours .am b e with
  | some (b', e') => e' == hour24 e false && b' % 12 == b % 12 && decide (b' < 24)
  | none => false

theorem pmOK_fin : ∀ b e : Fin 13, 1 ≤ e.val → ¬(b.val = 12 ∧ e.val = 12) → PmOK b.val e.val = true := by decide
theorem amOK_fin : ∀ b e : Fin 13, 1 ≤ e.val → AmOK b.val e.val = true := by decide

/-- **The pm rule**, for every pair of 12-hour hours (not both 12): the end is the stated hour pm (`12 pm = 12`); the begin
is the stated hour read as pm when that is still before the end, otherwise as written ("3 to 5 pm" = 15 → 17, "11 to 3 pm"
= 11 → 15, "12 to 1 pm" = 12 → 13): begin and stated hour agree modulo 12, the begin is before the end and at most twelve
hours before it. -/
theorem pure_pm_rule (b e : Nat) (hb : b ≤ 12) (he1 : 1 ≤ e) (he : e ≤ 12) (hne : ¬(b = 12 ∧ e = 12)) :
    ∃ b' e', pureHours .pm b e = some (b', e') ∧ e' = hour24 e true ∧ b' % 12 = b % 12 ∧ b' < e' ∧ e' - b' ≤ 12 := by
  have h := pmOK_fin ⟨b, by omega⟩ ⟨e, by omega⟩ he1 hne
  unfold PmOK at h
  simp only at h
  cases hp : pureHours .pm b e with
  | none => simp [hp] at h
  | some p =>
    obtain ⟨b', e'⟩ := p
    simp only [hp, Bool.and_eq_true, beq_iff_eq, decide_eq_true_eq] at h
    exact ⟨b', e', rfl, h.1.1.1, h.1.1.2, h.1.2, h.2⟩

/-- **The am rule**, for every pair of 12-hour hours: the end is the stated hour am (`12 am = 00`); the begin agrees with
the stated hour modulo 12 — it is folded below 12 when that keeps it before the end, and moved to the evening when it
would otherwise come after the end ("11 to 3 am" = 23 → 03, "12 to 1 am" = 00 → 01). -/
theorem pure_am_rule (b e : Nat) (hb : b ≤ 12) (he1 : 1 ≤ e) (he : e ≤ 12) :
    ∃ b' e', pureHours .am b e = some (b', e') ∧ e' = hour24 e false ∧ b' % 12 = b % 12 ∧ b' < 24 := by
  have h := amOK_fin ⟨b, by omega⟩ ⟨e, by omega⟩ he1
  unfold AmOK at h
  simp only at h
  cases hp : pureHours .am b e with
  | none => simp [hp] at h
  | some p =>
    obtain ⟨b', e'⟩ := p
    simp only [hp, Bool.and_eq_true, beq_iff_eq, decide_eq_true_eq] at h
    exact ⟨b', e', rfl, h.1.1, h.1.2, h.2⟩

def HoursValid (side : Side) (b e : Nat) : Bool :=
  match pureHours side b e with
  | some (b', e') => decide (b' ≤ 23) && decide (e' ≤ 23)
  | none => true

theorem hoursValid_fin : ∀ side : Side, ∀ b e : Fin 24, HoursValid side b.val e.val = true := by
  intro side; cases side <;> decide

/-- Hours that are valid (≤ 23) stay valid under both rules. -/
theorem pure_hours_valid (side : Side) (b e b' e' : Nat) (hb : b ≤ 23) (he : e ≤ 23)
    (h : pureHours side b e = some (b', e')) : b' ≤ 23 ∧ e' ≤ 23 := by
  have k := hoursValid_fin side ⟨b, by omega⟩ ⟨e, by omega⟩
  unfold HoursValid at k
  simp only [h, Bool.and_eq_true, decide_eq_true_eq] at k
  exact k

/-- **TIMEX, values and the roll**: with the hours settled the range runs from `b:00` to `e:00`, the end on the next
day exactly when it is not after the begin, and the `PT…H` amount is end − begin in hours (never 0, at most 24). -/
theorem pure_result_spec (b e : Nat) :
    pureResult b e = .ok (pureTimex b e ((if b ≥ e then e + 24 else e) - b)) [] [] ((b : Int) * 3600)
      (((if b ≥ e then e + 24 else e : Nat) : Int) * 3600) ∧
    (b < 24 → b < (if b ≥ e then e + 24 else e)) := by
  refine ⟨rfl, ?_⟩; intro hb; split <;> omega

/-- **C10 for pure-number ranges**: for all valid, different hours the emitted `(Tbb,Tee,PTdH)` is a consistent triple —
its two points are the resolved start / end (`bb:00:00`, `ee:00:00`) and `d` hours is the distance from start to end. -/
theorem pure_triple_consistent (b e : Nat) (hb : b < 24) (he : e < 24) (hne : b ≠ e) :
    ∃ t c m s f, pureResult b e = .ok t c m s f ∧ tripleOK t (some (fmtOff s)) (some (fmtOff f)) = true ∧
      fmtOff s = formatTime b 0 0 ∧ fmtOff f = formatTime e 0 0 := by
  have hs : fmtOff ((b : Int) * 3600) = formatTime b 0 0 := by
    rw [fmtOff_hours, Nat.mod_eq_of_lt hb]
  have hf : fmtOff (((if b ≥ e then e + 24 else e : Nat) : Int) * 3600) = formatTime e 0 0 := by
    rw [fmtOff_hours]; congr 1; split <;> omega
  refine ⟨_, _, _, _, _, rfl, ?_, hs, hf⟩
  rw [hs, hf]
  have key := clockTriple_ok b 0 e 0 false false hb (by omega) he (by omega) (fun _ => rfl) (fun _ => rfl)
    (RTV.WF.natStr ((if b ≥ e then e + 24 else e) - b) ++ [72]) (((if b ≥ e then e + 24 else e) - b) * 3600) (by simp)
    (pt_H _) (by intro c hc; simp only [List.mem_append, List.mem_singleton] at hc
                 rcases hc with hc | hc
                 · exact natStr_no_comma _ c hc
                 · omega)
    (by split <;> omega)
  simpa [pureTimex, pt, fmt2_lt b (by omega), fmt2_lt e (by omega), natStr] using key

/-! ## `parse_specific_time`: "3:30 to 4 pm", "from 10pm to 12am" -/

/-- the description a side carries: `pm` / `am` -/
def desc (pm : Bool) : Str := if pm then [112, 109] else [97, 109]

/-- minutes of a side: the captured value, 0 when the group is absent (−1) -/
def minOf (m : Int) : Int := if m > 0 then m else 0

theorem both_aux (v : Variant) (ge : Bool) (hge : v.rightAmGe = ge) (bh eh : Nat) (bm em : Int) (lpm rpm : Bool)
    (hc : ge = true ∨ rpm = true ∨ eh ≠ 12)
    (hb1 : 1 ≤ bh) (hb : bh ≤ 12) (he1 : 1 ≤ eh) (he : eh ≤ 12) (hbm : -1 ≤ bm ∧ bm ≤ 59) (hem : -1 ≤ em ∧ em ≤ 59) :
    ∃ t, specificCore v bh eh bm em (desc lpm) (desc rpm) =
      .ok t [] [] ((hour24 bh lpm : Int) * 3600 + minOf bm * 60)
        (if (hour24 eh rpm : Int) * 3600 + minOf em * 60 < (hour24 bh lpm : Int) * 3600 + minOf bm * 60
         then (hour24 eh rpm : Int) * 3600 + minOf em * 60 + 86400
         else (hour24 eh rpm : Int) * 3600 + minOf em * 60) := by
  have g : ¬(bh > 23 ∨ eh > 23 ∨ (if bm > 0 then bm else 0) > 59 ∨ (if em > 0 then em else 0) > 59) := by
    rintro (h | h | h | h)
    · omega
    · omega
    · split at h <;> omega
    · split at h <;> omega
  unfold specificCore
  simp only [g, if_false]
  cases ge <;> cases lpm <;> cases rpm <;> simp at hc <;>
    simp [desc, specificShift, hge, hour24, minOf, H12, H24]
  all_goals (generalize (if 0 < bm then bm else 0) = x; generalize (if 0 < em then em else 0) = y)
  all_goals (refine ⟨?_, ?_⟩ <;> (repeat' split) <;> omega)

/-- **Both sides carry am / pm** ("from 10:30pm to 12am"), for all 12-hour hours and minutes: the begin is the stated
left clock time, the end the stated right clock time (`12 am = 00`, `12 pm = 12`), taken on the next day when it is before
the begin; the TIMEX is `(Tb,Te,PT…)` with exactly those points and it is a consistent triple (C10); the printed start /
end are `hh:mm:00` of the stated times.  In the code as found this holds unless the right side is `12 … am`
(`specific_12am_end_witness`); with the repair `end_hour >= 12` it holds for every input. -/
theorem specific_both_described (v : Variant) (bh eh : Nat) (bm em : Int) (lpm rpm : Bool)
    (hc : v.rightAmGe = true ∨ rpm = true ∨ eh ≠ 12)
    (hb1 : 1 ≤ bh) (hb : bh ≤ 12) (he1 : 1 ≤ eh) (he : eh ≤ 12) (hbm : -1 ≤ bm ∧ bm ≤ 59) (hem : -1 ≤ em ∧ em ≤ 59) :
    ∃ (B E : Int), B = (hour24 bh lpm : Int) * 3600 + minOf bm * 60 ∧
      (E = (hour24 eh rpm : Int) * 3600 + minOf em * 60 ∨ E = (hour24 eh rpm : Int) * 3600 + minOf em * 60 + 86400) ∧
      B ≤ E ∧ E - B < 86400 ∧
      specificCore v bh eh bm em (desc lpm) (desc rpm) = .ok (specTimex B E bm em) [] [] B E ∧
      tripleOK (specTimex B E bm em) (some (fmtOff B)) (some (fmtOff E)) = true ∧
      fmtOff B = formatTime (hour24 bh lpm) (minOf bm).toNat 0 ∧ fmtOff E = formatTime (hour24 eh rpm) (minOf em).toNat 0 := by
  obtain ⟨t, ht⟩ := both_aux v v.rightAmGe rfl bh eh bm em lpm rpm hc hb1 hb he1 he hbm hem
  have sh := specificCore_shape _ _ _ _ _ _ _ _ _ _ _ _ ht
  have hh1 : hour24 bh lpm < 24 := by unfold hour24; split <;> omega
  have hh2 : hour24 eh rpm < 24 := by unfold hour24; split <;> omega
  have m1 : 0 ≤ minOf bm ∧ minOf bm ≤ 59 ∧ (bm < 0 → minOf bm = 0) := by unfold minOf; split <;> omega
  have m2 : 0 ≤ minOf em ∧ minOf em ≤ 59 ∧ (em < 0 → minOf em = 0) := by unfold minOf; split <;> omega
  generalize hB : (hour24 bh lpm : Int) * 3600 + minOf bm * 60 = B at ht sh
  generalize hE0 : (hour24 eh rpm : Int) * 3600 + minOf em * 60 = E0 at ht sh
  generalize hE : (if E0 < B then E0 + 86400 else E0) = E at ht sh
  have hEor : E = E0 ∨ E = E0 + 86400 := by rw [← hE]; split <;> simp
  have hle : B ≤ E ∧ E - B < 86400 := by rw [← hE]; split <;> omega
  refine ⟨B, E, rfl, hEor, hle.1, hle.2, ?_, ?_, ?_, ?_⟩
  · rw [ht, sh.1]
  · apply specTimex_triple B E bm em <;> omega
  · have := fmtOff_hms (hour24 bh lpm) (minOf bm).toNat 0 0 hh1 (by omega) (by omega)
    rw [← this]; congr 1; omega
  · rcases hEor with h | h
    · have := fmtOff_hms (hour24 eh rpm) (minOf em).toNat 0 0 hh2 (by omega) (by omega)
      rw [← this]; congr 1; omega
    · have := fmtOff_hms (hour24 eh rpm) (minOf em).toNat 0 1 hh2 (by omega) (by omega)
      rw [← this]; congr 1; omega

/-- **Only the right side carries pm** ("3:30 to 4 pm", "11 to 3:15 pm"), for all hours 1..11 and minutes: the end is
the stated time pm; the begin is read as pm too when the stated begin is not after the stated end, otherwise it stays in the
morning — so the range never exceeds twelve hours and never runs backwards. -/
theorem specific_right_pm_rule (v : Variant) (bh eh : Nat) (bm em : Int)
    (hb1 : 1 ≤ bh) (hb : bh ≤ 11) (he1 : 1 ≤ eh) (he : eh ≤ 11) (hbm : -1 ≤ bm ∧ bm ≤ 59) (hem : -1 ≤ em ∧ em ≤ 59) :
    ∃ t, specificCore v bh eh bm em [] (desc true) =
      .ok t [] [] ((bh : Int) * 3600 + minOf bm * 60 +
          (if (bh : Int) * 3600 + minOf bm * 60 ≤ (eh : Int) * 3600 + minOf em * 60 then 43200 else 0))
        ((eh : Int) * 3600 + minOf em * 60 + 43200) := by
  have g : ¬(bh > 23 ∨ eh > 23 ∨ (if bm > 0 then bm else 0) > 59 ∨ (if em > 0 then em else 0) > 59) := by
    rintro (h | h | h | h)
    · omega
    · omega
    · split at h <;> omega
    · split at h <;> omega
  unfold specificCore
  simp only [g, if_false]
  simp [desc, specificShift, minOf, H12, H24]
  have hx : 0 ≤ (if 0 < bm then bm else 0) ∧ (if 0 < bm then bm else 0) ≤ 59 := by split <;> omega
  have hy : 0 ≤ (if 0 < em then em else 0) ∧ (if 0 < em then em else 0) ≤ 59 := by split <;> omega
  generalize (if 0 < bm then bm else 0) = x at hx ⊢
  generalize (if 0 < em then em else 0) = y at hy ⊢
  have hbh : bh < 12 := by omega
  have heh : eh < 12 := by omega
  simp only [hbh, heh, if_true]
  refine ⟨?_, ?_⟩ <;> (repeat' split) <;> omega

/-- **Every successful `parse_specific_time` computation is a consistent triple (C10)** — for all hours, minutes and
descriptions, whichever branch of the am / pm logic runs (both sides described, one side, none): begin ≤ end (the end rolled
to the next day when needed), less than a day apart, whole minutes, the TIMEX is `(Tb,Te,PT…)` with the hour[:minute] of the
resolved start / end and the `PT…` text is their distance (`RTV.WF.tripleOK`).  (`specificShift_spec`: every branch moves
each end by a whole number of half days and leaves the two less than a day apart.) -/
theorem specific_triple_consistent (v : Variant) (bh eh : Nat) (bm em : Int) (l r t c m : Str) (b e : Int)
    (h : specificCore v bh eh bm em l r = .ok t c m b e) :
    b ≤ e ∧ e - b < 86400 ∧ b % 60 = 0 ∧ e % 60 = 0 ∧ t = specTimex b e bm em ∧
    tripleOK t (some (fmtOff b)) (some (fmtOff e)) = true := by
  have sh := specificCore_shape _ _ _ _ _ _ _ _ _ _ _ _ h
  unfold specificCore at h
  simp only at h
  by_cases g : (bh > 23 ∨ eh > 23 ∨ (if bm > 0 then bm else 0) > 59 ∨ (if em > 0 then em else 0) > 59)
  · rw [if_pos g] at h; cases h
  · rw [if_neg g] at h
    have gb : bh ≤ 23 := by omega
    have ge : eh ≤ 23 := by omega
    have gx : 0 ≤ (if bm > 0 then bm else 0) ∧ (if bm > 0 then bm else 0) ≤ 59 ∧ (bm < 0 → (if bm > 0 then bm else 0) = 0) := by
      refine ⟨by split <;> omega, by omega, by intro; split <;> omega⟩
    have gy : 0 ≤ (if em > 0 then em else 0) ∧ (if em > 0 then em else 0) ≤ 59 ∧ (em < 0 → (if em > 0 then em else 0) = 0) := by
      refine ⟨by split <;> omega, by omega, by intro; split <;> omega⟩
    generalize (if bm > 0 then bm else 0) = x at h gx
    generalize (if em > 0 then em else 0) = y at h gy
    have hl : ¬((!l.isEmpty && decide (l.head? = some 97)) = true ∧ (!l.isEmpty && decide (l.head? = some 112)) = true) := by
      cases l <;> simp; intro h1 h2; omega
    have hr : ¬((!r.isEmpty && decide (r.head? = some 97)) = true ∧ (!r.isEmpty && decide (r.head? = some 112)) = true) := by
      cases r <;> simp; intro h1 h2; omega
    have sp := specificShift_spec v bh eh gb ge _ _ _ _ hl hr ((bh : Int) * 3600 + x * 60) ((eh : Int) * 3600 + y * 60)
      (by omega) (by omega)
    generalize specificShift v bh eh _ _ _ _ _ _ = s at h sp
    obtain ⟨b1, e1, amb⟩ := s
    simp only [Res.ok.injEq] at h
    obtain ⟨_, _, _, h4, h5⟩ := h
    simp only at sp
    have hbe : b ≤ e ∧ e - b < 86400 ∧ b % 60 = 0 ∧ e % 60 = 0 ∧ (bm < 0 → b % 3600 = 0) ∧ (em < 0 → e % 3600 = 0) := by
      subst h4 h5; unfold H24
      refine ⟨?_, ?_, ?_, ?_, ?_, ?_⟩
      · split <;> omega
      · split <;> omega
      · omega
      · split <;> omega
      · intro hh; have := gx.2.2 hh; omega
      · intro hh; have := gy.2.2 hh; split <;> omega
    refine ⟨hbe.1, hbe.2.1, hbe.2.2.1, hbe.2.2.2.1, sh.1, ?_⟩
    rw [sh.1]
    exact specTimex_triple b e bm em hbe.2.2.1 hbe.2.2.2.1 hbe.1 hbe.2.1 hbe.2.2.2.2.1 hbe.2.2.2.2.2

/-- **Witness (finding `timerange-12am-end`)**: "from 10pm to 12am" — as found the end stays at 12:00 (`(T22,T12,PT14H)`,
22:00 → 12:00 next day) because the right-hand test is `end_hour > 12` while the left-hand one is `>= 12`; with
`end_hour >= 12` it is `(T22,T00,PT2H)`, 22:00 → 24:00. -/
theorem specific_12am_end_witness :
    specificCore {} 10 12 (-1) (-1) (desc true) (desc false) =
      .ok ("(T22,T12,PT14H)".toList.map Char.toNat) [] [] 79200 129600 ∧
    specificCore { rightAmGe := true } 10 12 (-1) (-1) (desc true) (desc false) =
      .ok ("(T22,T00,PT2H)".toList.map Char.toNat) [] [] 79200 86400 ∧
    fmtOff 129600 = "12:00:00".toList.map Char.toNat ∧ fmtOff 86400 = "00:00:00".toList.map Char.toNat := by
  decide +kernel

/-- the left side *is* folded in the code as found: "from 12am to 2am" = 00:00 → 02:00 -/
theorem specific_12am_begin_folded :
    specificCore {} 12 2 (-1) (-1) (desc false) (desc false) = .ok ("(T00,T02,PT2H)".toList.map Char.toNat) [] [] 0 7200 := by
  decide +kernel

def cp (s : String) : Str := s.toList.map Char.toNat
abbrev aU : Uni := RTV.DtRes.asciiUni

/-- **Witness (finding `timerange-seconds-dropped`)**: "from 10:00:05 to 11:00:20" (groups as the regex captures them) —
`parse_specific_time` never reads the `sec` group: `(T10:00,T11:00,PT1H)`, 10:00:00 → 11:00:00. With the repair it
returns no result, and `BaseTimePeriodParser.parse` then takes what `merge_two_time_points` computes from the two parsed
time points (`time_range_duration_repaired` in Props/C07Ranges: `PT1H15S`). -/
theorem specific_seconds_witness :
    specificTime {} aU [] [cp "10", cp "11"] [cp "00", cp "00"] [] (cp "10:00:05") (cp "11:00:20") [] [] true true =
      .ok (cp "(T10:00,T11:00,PT1H)") RTV.DtRes.sAmPm [] 36000 39600 ∧
    specificTime { secondsBail := true } aU [] [cp "10", cp "11"] [cp "00", cp "00"] [] (cp "10:00:05") (cp "11:00:20") [] []
      true true = .noResult := by
  decide +kernel

/-- **Witness (finding `timerange-minute-wrong-side`)**: "from 10 to 5:10pm" — the only minute capture `10` is tested with
`minute_str in time1`, a substring test that the *hour* text `10` satisfies: the range starts at 10:10 and ends at 17:00
(`(T10:10,T17,PT6H50M)`). Attributed by the capture's position it is `(T10,T17:10,PT7H10M)`. -/
theorem specific_minute_side_witness :
    specificTime {} aU [] [cp "10", cp "5"] [cp "10"] [cp "pm"] (cp "10") (cp "5:10pm") [] [] false false =
      .ok (cp "(T10:10,T17,PT6H50M)") [] [] 36600 61200 ∧
    specificTime { minuteBySpan := true } aU [] [cp "10", cp "5"] [cp "10"] [cp "pm"] (cp "10") (cp "5:10pm") [] [] false false =
      .ok (cp "(T10,T17:10,PT7H10M)") [] [] 36000 61800 := by
  decide +kernel

/-- **Witness (truthiness of a table value 0)**: the word `zero` is in the `Numbers` table with value 0; `if not
begin_hour:` sends it to `int('zero')`, which raises — "from zero to 3am" is lost by `parse_pure_numbers` and
`parse_specific_time` alike (the digit `0` is fine). -/
theorem zero_word_raises :
    pureNumbers aU [(cp "zero", 0), (cp "three", 3)] [cp "zero", cp "3"] [] (cp "am") [] [] true false = .raises "ValueError" ∧
    pureNumbers aU [(cp "zero", 0), (cp "three", 3)] [cp "0", cp "three"] [] (cp "am") [] [] true false =
      .ok (cp "(T00,T03,PT3H)") [] [] 0 10800 := by
  decide +kernel

/-- **Witnesses at the edge of the hour pattern** (`2[0-4]` admits 24): "from 3 to 24pm" prints the point `T24`, which is
no time of day; "from 17 to 5pm" (both hours equal after the rule) prints `PT24H` between two equal points, which
`tripleOK` rejects. -/
theorem pure_edge_witnesses :
    pureNumbers aU [] [cp "3", cp "24"] [] (cp "pm") [] [] false true = .ok (cp "(T15,T24,PT9H)") [] [] 54000 86400 ∧
    pureNumbers aU [] [cp "17", cp "5"] [] (cp "pm") [] [] false true = .ok (cp "(T17,T17,PT24H)") [] [] 61200 147600 ∧
    tripleOK (cp "(T17,T17,PT24H)") (some (fmtOff 61200)) (some (fmtOff 147600)) = false := by
  decide +kernel

/-! ## `BaseTimePeriodParser.parse`: which sub-parser answers -/

/-- The first sub-parser that succeeds answers: a result of `parse_specific_time` hides whatever
`merge_two_time_points` would have computed (this is why the two findings above reach the user although
`merge_two_time_points` resolves both texts correctly), and the printed start / end are `format_time` of its offsets. -/
theorem parse_specific_shadows_merge (t c m : Str) (b e : Int) (merge tod : Res) :
    periodParse [.noResult, .ok t c m b e, merge, tod] = some (t, fmtOff b, fmtOff e) := rfl

/-- when the first two give nothing the merged time points answer, then the part of day -/
theorem parse_falls_through (t c m : Str) (b e : Int) (tod : Res) :
    periodParse [.noResult, .noResult, .ok t c m b e, tod] = some (t, fmtOff b, fmtOff e) ∧
    periodParse [.noResult, .noResult, .noResult, .ok t c m b e] = some (t, fmtOff b, fmtOff e) ∧
    periodParse [.noResult, .noResult, .noResult, .noResult] = none := ⟨rfl, rfl, rfl⟩

/-- both printed ends are valid times of day (hour < 24), whatever the offsets -/
theorem parse_ends_valid (rs : List Res) (t s f : Str) (h : periodParse rs = some (t, s, f)) :
    (∃ h m x, h < 24 ∧ m < 60 ∧ x < 60 ∧ s = formatTime h m x) ∧ (∃ h m x, h < 24 ∧ m < 60 ∧ x < 60 ∧ f = formatTime h m x) := by
  unfold periodParse at h
  split at h
  · simp only [Option.some.injEq, Prod.mk.injEq] at h
    obtain ⟨_, h2, h3⟩ := h
    subst h2 h3
    exact ⟨fmtOff_valid _, fmtOff_valid _⟩
  · simp at h

/-! ## `parse_time_of_day`: "morning", "early afternoon", "late night" -/

def RowOK (c : Str) : Bool :=
  match timexParseTimeOfDay c with
  | some r => r.timex == c && decide (r.beginHour < r.endHour) && decide (r.endHour ≤ 23) && (r.endMin == 0 || r.endMin == 59)
  | none => false

/-- **The part-of-day table** (`TimexUtil.parse_time_of_day`), every row: the row's TIMEX is the code it was asked for,
begin hour < end hour ≤ 23, and the end minute is 0 or 59 (so that `datetime(…, end_hour, end_min, end_min)` is a time of
day before midnight). -/
theorem tod_table_rows (c : Str) (hc : c ∈ todCodes) :
    ∃ r, timexParseTimeOfDay c = some r ∧ r.timex = c ∧ r.beginHour < r.endHour ∧ r.endHour ≤ 23 ∧ (r.endMin = 0 ∨ r.endMin = 59) := by
  have all : todCodes.all RowOK = true := by decide
  have := List.all_eq_true.mp all c hc
  unfold RowOK at this
  cases hr : timexParseTimeOfDay c with
  | none => simp [hr] at this
  | some r =>
    simp only [hr, Bool.and_eq_true, Bool.or_eq_true, beq_iff_eq, decide_eq_true_eq] at this
    exact ⟨r, rfl, this.1.1.1, this.1.1.2, this.1.2, this.2⟩

/-- the English and the Spanish `get_matched_timex_range` only produce codes the table knows (the `TypeError` branch of
the model is unreachable) -/
theorem tod_codes_known (u : Uni) (s c : Str) (h : enTodCode u s = some c ∨ esTodCode u s = some c) : c ∈ todCodes := by
  rcases h with h | h
  · unfold enTodCode at h
    simp only at h
    repeat' (split at h)
    all_goals first
      | (simp only [Option.some.injEq] at h; subst h; decide)
      | simp at h
  · unfold esTodCode at h
    simp only at h
    repeat' (split at h)
    all_goals first
      | (simp only [Option.some.injEq] at h; subst h; decide)
      | simp at h

/-- **A plain part of the day** resolves to its row: TIMEX = the code, from `begin:00:00` to `end:mm:mm` of the reference
day (`endMin` doubles as the seconds: 23:59:59 for the night). -/
theorem tod_plain (code : Str → Option Str) (src c : Str) (row : TodRow) (h1 : code src = some c)
    (h2 : timexParseTimeOfDay c = some row) (hv : row.beginHour ≤ 23 ∧ row.endHour ≤ 23 ∧ row.endMin ≤ 59) :
    timeOfDay code src [] [] = .ok row.timex [] [] ((row.beginHour : Int) * 3600)
      ((row.endHour : Int) * 3600 + (row.endMin : Int) * 60 + (row.endMin : Int)) := by
  have g : ¬(row.beginHour > 23 ∨ row.endHour > 23 ∨ row.endMin > 59) := by omega
  simp [timeOfDay, h1, h2, g]

def TodOK (c early late : Str) (wantMod : Str) : Bool :=
  match timeOfDay (fun _ => some c) [] early late with
  | .ok t _ m s e => t == c && m == wantMod && decide (0 ≤ s) && decide (s < e) && decide (e < 86400)
  | _ => false

/-- **Every row, plain / early / late**: the result keeps the row's code as TIMEX and is a non-empty range inside the
reference day (0 ≤ start < end < 24:00:00); `early …` is the first two hours (`Mod = start`), `late …` starts two hours in
(`Mod = end`).  Exception (`tod_late_empty_witness`): the two-hour rows `TMI` / `TMEL` have an empty `late` window; no
`early` / `late` word can precede them in the English or Spanish pattern. -/
theorem tod_windows :
    todCodes.all (fun c => TodOK c [] [] []) = true ∧
    todCodes.all (fun c => TodOK c (cp "early ") [] (cp "start")) = true ∧
    (todCodes.filter (fun c => c ≠ sTMI ∧ c ≠ sTMEL)).all (fun c => TodOK c [] (cp "late ") (cp "end")) = true := by
  decide +kernel

theorem tod_late_empty_witness :
    timeOfDay (fun _ => some sTMEL) [] [] (cp "late ") = .ok sTMEL (cp "late") (cp "end") 46800 46800 := by decide +kernel

/-- examples through the English hook, with the early / late word removed from the text first -/
theorem tod_examples :
    timeOfDay (enTodCode aU) (cp "morning") [] [] = .ok sTMO [] [] 28800 43200 ∧
    timeOfDay (enTodCode aU) (cp "in the early afternoons") (cp "early ") [] = .ok sTAF (cp "early") (cp "start") 43200 50400 ∧
    timeOfDay (enTodCode aU) (cp "late night") [] (cp "late ") = .ok sTNI (cp "late") (cp "end") 79200 86399 ∧
    timeOfDay (enTodCode aU) (cp "brunch") [] [] = .ok sTBH [] [] 28800 64800 ∧
    timeOfDay (esTodCode aU) (cp "madrugada") [] [] = .ok sTDA [] [] 14400 28800 ∧
    timeOfDay (enTodCode aU) (cp "noon") [] [] = .noResult := by
  decide +kernel

/-! ## `parse_basic_regex`: "now" -/

/-- **"now" = the reference**: whenever `parse_basic_regex` succeeds, future and past value are the reference itself (to
the second), and the TIMEX is the culture hook's; without a whole-text match nothing is resolved. -/
theorem now_is_reference_datetime (now : Str → Option Str) (src : Str) (whole : Bool) (ref : DateTime) (t : Str)
    (f p : DateTime) (h : basicRegex now src whole ref = some (t, f, p)) :
    f = ref ∧ p = ref ∧ whole = true ∧ now src = some t := by
  unfold basicRegex at h
  cases whole with
  | false => simp at h
  | true =>
    cases hn : now src with
    | none => simp [hn] at h
    | some t' =>
      simp only [hn, if_true, Option.map_some, Option.some.injEq, Prod.mk.injEq] at h
      exact ⟨h.2.1.symm, h.2.2.symm, rfl, by rw [h.1]⟩

/-- the English hook: `now` / `right now` → `PRESENT_REF`, `recently` / `previously` → `PAST_REF`, `asap` / `as soon as
possible` → `FUTURE_REF`; the other spellings `NowRegex` matches (`at present`, `at the moment`, …) get no TIMEX, so the
parser does not resolve them. -/
theorem now_english_codes :
    enNowTimex aU (cp "now") = some sPresentRef ∧ enNowTimex aU (cp " right now ") = some sPresentRef ∧
    enNowTimex aU (cp "recently") = some sPastRef ∧ enNowTimex aU (cp "previously") = some sPastRef ∧
    enNowTimex aU (cp "asap") = some sFutureRef ∧ enNowTimex aU (cp "as soon as possible") = some sFutureRef ∧
    enNowTimex aU (cp "at present") = none ∧ enNowTimex aU (cp "at the moment") = none := by
  decide +kernel

/-! ## `parse_special_time_of_date`: "end of day", "end of tomorrow" -/

/-- **end of day** = 23:59:59 of the reference's date, TIMEX `<date>T23:59:59`, whatever else the text holds. -/
theorem end_of_day_is_235959 (ref : RTV.DtRes.DT) (n : Nat) (hit : Bool) (pr : Option (Str × RTV.DtRes.DT × RTV.DtRes.DT)) :
    specialTimeOfDate true ref n hit pr =
      .ok { success := true, timex := RTV.DtRes.formatDate ref ++ cp "T23:59:59", comment := [],
            future := ⟨ref.y, ref.m, ref.d, 23, 59, 59⟩, past := ⟨ref.y, ref.m, ref.d, 23, 59, 59⟩ } := by
  simp [specialTimeOfDate, RTV.DtRes.endOfToday, RTV.DtRes.resolveEndOfDay, cp]

/-- **end of `<date>`** = 23:59:59 of the date parser's future / past date, TIMEX = the date's TIMEX + `T23:59:59`;
nothing is resolved unless exactly one date was found next to an "end of" phrase. -/
theorem end_of_date_is_235959 (ref : RTV.DtRes.DT) (t : Str) (f p : RTV.DtRes.DT) :
    specialTimeOfDate false ref 1 true (some (t, f, p)) =
      .ok { success := true, timex := t ++ cp "T23:59:59", comment := [],
            future := ⟨f.y, f.m, f.d, 23, 59, 59⟩, past := ⟨p.y, p.m, p.d, 23, 59, 59⟩ } ∧
    specialTimeOfDate false ref 1 false (some (t, f, p)) = .ok {} ∧
    specialTimeOfDate false ref 2 true (some (t, f, p)) = .ok {} := by
  simp [specialTimeOfDate, RTV.DtRes.resolveEndOfDay, cp]

/-! ## `parser_duration_with_ago_and_later`: "3 hours ago", "in 20 minutes", "2 days later" -/

def unitSeconds : AUnit → Int
  | .H => 3600 | .M => 60 | .S => 1 | _ => 0

/-- **N hours | minutes | seconds ago / later = the reference ∓ N·unit seconds**, for every valid reference and every N:
the value is a valid datetime exactly `N·unit` seconds before (`is_future = False`) or after the reference — across
midnights, month ends and leap days, since the arithmetic is on (ordinal, second-of-day) — and the TIMEX is the value
printed by `luis_date_time` (`luis_date` in DATE mode). -/
theorem ago_later_seconds (un : AUnit) (hu : un = .H ∨ un = .M ∨ un = .S) (num : Nat) (ref : DateTime)
    (hv : ref.date.valid = true) (fut dm : Bool) (t : Str) (v : DateTime)
    (h : getDateResultAll un num ref fut dm = some (t, v)) :
    v.date.valid = true ∧ v.secs < 86400 ∧
    (v.date.ord : Int) * 86400 + v.secs =
      (ref.date.ord : Int) * 86400 + ref.secs + (if fut then 1 else -1) * ((num : Int) * unitSeconds un) ∧
    t = (if dm then RTV.DateUtils.luisDateOf v else RTV.DateUtils.luisDateTime v) := by
  unfold getDateResultAll at h
  simp only at h
  cases hs : shifted un ((num : Int) * (if fut then 1 else -1)) ref with
  | none => simp [hs] at h
  | some w =>
    simp only [hs, Option.map_some, Option.some.injEq, Prod.mk.injEq] at h
    obtain ⟨h1, h2⟩ := h
    subst h2
    refine ⟨?_, ?_, ?_, h1.symm⟩
    all_goals
      rcases hu with hu | hu | hu <;> subst hu <;> simp only [shifted] at hs <;>
      have := RTV.DateUtils.addSeconds_spec ref hv _ w hs
    all_goals first
      | exact this.1
      | exact this.2.1
      | (rw [this.2.2]; simp only [unitSeconds]; cases fut <;> simp <;> omega)

/-- **N days | weeks ago / later**: the date moves by exactly N (7·N) days, the time of day is kept. -/
theorem ago_later_days (un : AUnit) (hu : un = .D ∨ un = .W) (num : Nat) (ref : DateTime)
    (hv : ref.date.valid = true) (fut dm : Bool) (t : Str) (v : DateTime)
    (h : getDateResultAll un num ref fut dm = some (t, v)) :
    v.date.valid = true ∧ v.secs = ref.secs ∧
    (v.date.ord : Int) = ref.date.ord + (if fut then 1 else -1) * ((num : Int) * (if un = .W then 7 else 1)) := by
  unfold getDateResultAll at h
  simp only at h
  cases hs : shifted un ((num : Int) * (if fut then 1 else -1)) ref with
  | none => simp [hs] at h
  | some w =>
    simp only [hs, Option.map_some, Option.some.injEq, Prod.mk.injEq] at h
    obtain ⟨h1, h2⟩ := h
    subst h2
    rcases hu with hu | hu <;> subst hu <;> simp only [shifted] at hs <;>
      have := RTV.DateUtils.addDays_spec ref hv _ w hs
    · refine ⟨this.1, this.2.2, ?_⟩; rw [this.2.1]; cases fut <;> simp <;> omega
    · refine ⟨this.1, this.2.2, ?_⟩; rw [this.2.1]; cases fut <;> simp <;> omega

/-- **The whole function**: when `parser_duration_with_ago_and_later` succeeds, an "ago" text gives the reference shifted
back, a "later / in" text shifted forward, by the amount read off the duration TIMEX in the unit `unit_map` gives for the
matched unit word; the duration sub-entity is marked `before` / `after`. "ago" is tested first. -/
theorem ago_later_spec (u : Uni) (vt ts su : Str) (unitMap : List (Str × Str)) (ago later : Bool) (ref : DateTime)
    (t : Str) (v : DateTime) (m : Str)
    (h : agoLater u (some (some (vt, ts))) (some su) unitMap ago later ref = .ok t v m) :
    ∃ num code un, numOfTimex u vt = some num ∧ (unitMap.find? (fun p => p.1 == su)).map (·.2) = some code ∧
      unitOfCode code = some un ∧ (ago = true ∨ later = true) ∧
      getDateResultAll un num ref (!ago) (dateModeOf ts) = some (t, v) ∧
      m = (if ago then cp "before" else cp "after") := by
  unfold agoLater at h
  simp only at h
  cases hn : numOfTimex u vt with
  | none => simp [hn] at h
  | some num =>
    cases hc : (unitMap.find? (fun p => p.1 == su)).map (·.2) with
    | none => simp [hn, hc] at h
    | some code =>
      simp only [hn, hc] at h
      split at h
      · cases h
      · split at h
        · rename_i ha
          cases hu : unitOfCode code with
          | none => simp [hu] at h
          | some un =>
            simp only [hu] at h
            cases hg : getDateResultAll un num ref false (dateModeOf ts) with
            | none => simp [hg] at h
            | some r =>
              obtain ⟨t', v'⟩ := r
              simp only [hg, ARes.ok.injEq] at h
              refine ⟨num, code, un, rfl, rfl, hu, Or.inl ha, ?_, ?_⟩
              · simp [ha, hg, h.1, h.2.1]
              · simp [ha, cp, RTV.Py.ofString, ← h.2.2]
        · rename_i ha
          split at h
          · rename_i hl
            cases hu : unitOfCode code with
            | none => simp [hu] at h
            | some un =>
              simp only [hu] at h
              cases hg : getDateResultAll un num ref true (dateModeOf ts) with
              | none => simp [hg] at h
              | some r =>
                obtain ⟨t', v'⟩ := r
                simp only [hg, ARes.ok.injEq] at h
                have ha' : ago = false := by simpa using ha
                refine ⟨num, code, un, rfl, rfl, hu, Or.inr hl, ?_, ?_⟩
                · simp [ha', hg, h.1, h.2.1]
                · simp [ha', cp, RTV.Py.ofString, ← h.2.2]
          · cases h

/-- examples: "3 hours ago" at 2020-03-01 00:00:10 crosses the leap day; "in 20 minutes" at 23:59:59 of a New Year's Eve
crosses the year; a decimal amount (`PT1.5H`) makes `int()` raise. -/
theorem ago_later_examples :
    agoLater aU (some (some (cp "PT3H", cp "PT3H"))) (some (cp "hours")) [(cp "hours", cp "H")] true false ⟨⟨2020, 3, 1⟩, 10⟩ =
      .ok (cp "2020-02-29T21:00:10") ⟨⟨2020, 2, 29⟩, 75610⟩ (cp "before") ∧
    agoLater aU (some (some (cp "PT20M", cp "PT20M"))) (some (cp "minutes")) [(cp "minutes", cp "M")] false true
        ⟨⟨2019, 12, 31⟩, 86399⟩ = .ok (cp "2020-01-01T00:19:59") ⟨⟨2020, 1, 1⟩, 1199⟩ (cp "after") ∧
    agoLater aU (some (some (cp "P2D", cp "P2D"))) (some (cp "days")) [(cp "days", cp "D")] false true ⟨⟨2020, 2, 28⟩, 37800⟩ =
      .ok (cp "2020-03-01") ⟨⟨2020, 3, 1⟩, 37800⟩ (cp "after") ∧
    agoLater aU (some (some (cp "PT1.5H", cp "PT1.5H"))) (some (cp "hours")) [(cp "hours", cp "H")] true false ⟨⟨2020, 3, 1⟩, 10⟩ =
      .raises "ValueError" ∧
    agoLater aU (some (some (cp "PT3H", cp "PT3H"))) (some (cp "hours")) [(cp "hours", cp "H")] false false ⟨⟨2020, 3, 1⟩, 10⟩ =
      .noResult := by
  decide +kernel

end RTV.TimePeriod
