import RTV.Lemmas.TimexGuard
import RTV.Model.TimexConvert
/-!
# C14 — TIMEX strings survive parsing and formatting unchanged

Theorems about `RTV.Model.Timex` (mirrors `datatypes_timex_expression`: timex.py, time.py, timex_parsing.py,
timex_regex.py, timex_format.py, timex_inference.py). The grammar is the set of strings the `TimexRegex` patterns
accept with ASCII digits: a well-formed TIMEX is a value of `WF` (one constructor per pattern / combination, the
digits are parameters) and `render` writes it down.  The theorems hold for **every** configuration that satisfies
`CfgOK` (the 18 patterns as they stood when the proofs were made, a digit table that knows the ASCII digits) and
`genCfg_ok` shows that the configuration regenerated from the working tree is one.

**Scope of the guards (audit item 17).**  `WF` contains every string `TimexParsing` takes apart: any of the 12 `'date'`
patterns, any of the 4 `'time'` patterns, and ANY `'date'` pattern followed by ANY `'time'` pattern (that is how
`extract_date_time` composes them).  The round-trip theorems carry the guard `InRange`; section "the guards are exact"
proves that the guard is not only sufficient but NECESSARY: `inRange_exact : InRange w ↔ RoundTrips genCfg (render w)`.
The strings outside the guard are of two kinds:
* out-of-range field values — year `0000`, month `XXXX-00`, weekday `XXXX-WXX-0` (three strings): the property
  quantifies over years 0001–9999 and over months / weekdays that exist; Python truthiness of `0` makes `format` print
  `''` (`out_of_range_format_empty`).  Recorded as an observation, not as a finding.
* a year, month, season, week, weekend, week-of-month form followed by a time of day or part of day (`2020-05T05`,
  `2020T05`, `SUTMO`, …): the datatype ACCEPTS them (fields of both halves are assigned) and `timex_value()` drops the
  time (`dt_guard_necessary`, for all digits; `noncombinable_witnesses` are the instances the check replays).  The
  property does NOT quantify over them: its grammar lists "date+time combinations", and a year / month / season / week /
  week-of-month followed by `T..` is not a date + time.  Recorded as an observation (evidence counter), not a finding.
-/
namespace RTV.Timex
open RTV.Py RTV.Cal
set_option linter.unusedSimpArgs false
set_option linter.unusedVariables false

/-- The patterns, constants and digit table regenerated from the working tree are the ones the theorems are
about (an edit of `timex_regex.py`, `timex_creator.py`, `timex_constants.py` breaks this obligation). -/
theorem genCfg_ok : CfgOK genCfg := by
  constructor <;> decide

/-! ## `from_date`, `from_date_time`, `from_time` are canonical -/

example : isoDateStr ⟨2020, 2, 29⟩ = [50, 48, 50, 48, 45, 48, 50, 45, 50, 57] ∧
    isoTimeStr 5 30 0 = [84, 48, 53, 58, 51, 48] := by decide

/-- C14 **from_date_canonical** — for every valid date 0001-01-01 … 9999-12-31, `Timex.from_date(d).timex_value()`
is `YYYY-MM-DD`. -/
theorem from_date_canonical (d : Date) (hv : d.valid = true) :
    formatT (Timex.fromDate d) = .ok (isoDateStr d) := format_fromDate d hv

theorem fixed2_zero : fixedFormat (some (.int 0)) 2 = [48, 48] := by decide

/-- C14 **from_time_canonical** — for every `h < 100`, `m, s < 100` (in particular all clock times)
`Timex.from_time(Time(h, m, s)).timex_value()` is `Thh[:mm[:ss]]`. -/
theorem from_time_canonical (h m s : Nat) (hh : h < 100) (hm : m < 100) (hs : s < 100) :
    formatT (Timex.fromTime ⟨.int h, .int m, .int s⟩) = .ok (isoTimeStr h m s) := by
  by_cases h1 : m = 0 <;> by_cases h2 : s = 0 <;>
    simp [formatT, formatFuel, Timex.fromTime, Timex.initTime, Timex.setHour, Timex.setMinute, Timex.setSecond, infer,
      isDate, isDateRange, isDuration, isTime, isDefinite, truthyO, truthyS, formatTime, eq0, Num.eqInt, Num.scaled,
      pow10, Timex.hour, Timex.minute, Timex.second, fixed2 h hh, fixed2 m hm, fixed2 s hs, isoTimeStr, d2,
      bind, Except.bind, pure, Except.pure, h1, h2, fixed2_zero]

/-- C14 **from_date_time_canonical** — for every valid date and clock time,
`Timex.from_date_time(dt).timex_value()` is `YYYY-MM-DD` followed by `Thh[:mm[:ss]]`. -/
theorem from_date_time_canonical (d : Date) (hv : d.valid = true) (h m s : Nat) (hh : h < 24) (hm : m < 60)
    (hs : s < 60) :
    formatT (Timex.fromDateTime d h m s) = .ok (isoDateStr d ++ isoTimeStr h m s) := by
  obtain ⟨hy, hmo, hd⟩ := valid_bounds d hv
  by_cases h1 : m = 0 <;> by_cases h2 : s = 0 <;>
    simp [formatT, formatFuel, Timex.fromDateTime, Timex.fromDate, Timex.initTime, Timex.setHour, Timex.setMinute,
      Timex.setSecond, infer, isDate, isDateRange, isDuration, isTime, isDefinite, truthyO, truthyS, formatTime,
      formatDate, andChainNotNone, eq0, Num.eqInt, Num.scaled, pow10, Timex.hour, Timex.minute, Timex.second,
      fixed4 d.y hy, fixed2 d.m hmo, fixed2 d.d hd, fixed2 h (by omega), fixed2 m (by omega), fixed2 s (by omega),
      isoTimeStr, isoDateStr, d2, d4, bind, Except.bind, pure, Except.pure, h1, h2, fixed2_zero]

example : (⟨2020, 2, 29⟩ : Date).valid = true := by decide

/-! ## the property theorems -/

theorem format_parse (cfg : Cfg) (hc : CfgOK cfg) (w : WF) (hr : InRange w) :
    formatT (parse cfg (render w)) = .ok (render (norm w)) := by
  cases w with
  | d f => exact format_parse_D cfg hc f hr
  | t g => exact format_parse_T cfg hc g
  | dt f g => exact format_parse_DT cfg hc f g hr
  | present => simp [render, norm, parse, parseInto, formatT, formatFuel, infer, bind, Except.bind, pure, Except.pure]

theorem parse_norm (cfg : Cfg) (hc : CfgOK cfg) (w : WF) (hr : InRange w) :
    parse cfg (render (norm w)) = parse cfg (render w) := by
  cases w with
  | d f => rfl
  | t g => exact parse_normT cfg hc g
  | dt f g => exact parse_norm_DT cfg hc f g hr
  | present => rfl

theorem inRange_norm (w : WF) (hr : InRange w) : InRange (norm w) := by
  cases w with
  | d f => exact hr
  | t g => simp [norm, InRange]
  | dt f g => exact hr
  | present => exact hr

theorem norm_idem (w : WF) : norm (norm w) = norm w := by
  cases w <;> simp [norm, normT_idem]

/-- C14 **parse_format_fields** — for every well-formed in-range TIMEX `s = render w`, `Timex(s).timex_value()` is
a string whose `Timex(…)` has the same field values as `Timex(s)`. -/
theorem parse_format_fields (cfg : Cfg) (hc : CfgOK cfg) (w : WF) (hr : InRange w) :
    ∃ v, formatT (parse cfg (render w)) = .ok v ∧ parse cfg v = parse cfg (render w) :=
  ⟨render (norm w), format_parse cfg hc w hr, parse_norm cfg hc w hr⟩

/-- C14 **format_idempotent** — formatting the re-parsed output gives the same string again. -/
theorem format_idempotent (cfg : Cfg) (hc : CfgOK cfg) (w : WF) (hr : InRange w) :
    ∃ v, formatT (parse cfg (render w)) = .ok v ∧ formatT (parse cfg v) = .ok v := by
  refine ⟨render (norm w), format_parse cfg hc w hr, ?_⟩
  have := format_parse cfg hc (norm w) (inRange_norm w hr)
  rwa [norm_idem] at this

/-! ### canonical strings, defined by a grammar (not as the image of `format`)

A canonical TIMEX is `render w` for a `w` of the grammar whose time part is SHORT — written without a trailing `:00`
(`T05`, `T05:30`, `T05:30:15`, never `T05:00` or `T05:30:00`) — and whose fields are in range (`InRange`: no year
`0000`, month `00`, weekday `0`; a time only after a full date, an open-year date or a weekday).  Nothing in this
definition mentions `format`, `parse` or `norm`. -/

/-- a time form without a trailing `:00` part -/
def ShortT : TimeForm → Prop
  | .hm _ _ m1 m2 => ¬ (m1 = 0 ∧ m2 = 0)
  | .hms _ _ _ _ s1 s2 => ¬ (s1 = 0 ∧ s2 = 0)
  | _ => True

def CanonicalW : WF → Prop
  | .t g => ShortT g
  | .dt f g => Combinable f ∧ ShortT g
  | w => InRange w

/-- canonical strings: a grammar -/
def Canonical (s : Str) : Prop := ∃ w, CanonicalW w ∧ s = render w

theorem normT_short (g : TimeForm) (h : ShortT g) : normT g = g := by
  cases g <;> simp_all [normT, ShortT]

theorem short_normT (g : TimeForm) : ShortT (normT g) := by
  cases g with
  | h => simp [normT, ShortT]
  | pod => simp [normT, ShortT]
  | hm h1 h2 m1 m2 => by_cases hz : m1 = 0 ∧ m2 = 0 <;> simp [normT, ShortT, hz]
  | hms h1 h2 m1 m2 s1 s2 =>
    by_cases hs : s1 = 0 ∧ s2 = 0 <;> by_cases hz : m1 = 0 ∧ m2 = 0 <;> simp [normT, ShortT, hs, hz]

theorem canonicalW_iff (w : WF) : CanonicalW w ↔ InRange w ∧ norm w = w := by
  cases w with
  | d f => simp [CanonicalW, norm]
  | t g =>
    simp only [CanonicalW, InRange, norm, true_and]
    constructor
    · intro h; rw [normT_short g h]
    · intro h; have := short_normT g; simp only [WF.t.injEq] at h; rwa [h] at this
  | dt f g =>
    simp only [CanonicalW, InRange, norm]
    constructor
    · intro h; exact ⟨h.1, by rw [normT_short g h.2]⟩
    · intro h; refine ⟨h.1, ?_⟩; have := short_normT g; have h2 := h.2; simp only [WF.dt.injEq, true_and] at h2; rwa [h2] at this
  | present => simp [CanonicalW, norm]

/-- C14 **canonical_fixed** — a string already in canonical form (the grammar `Canonical`) comes back identical. -/
theorem canonical_fixed (cfg : Cfg) (hc : CfgOK cfg) (s : Str) (h : Canonical s) :
    formatT (parse cfg s) = .ok s := by
  obtain ⟨w, hw, rfl⟩ := h
  obtain ⟨h1, h2⟩ := (canonicalW_iff w).1 hw
  have := format_parse cfg hc w h1
  rwa [h2] at this

/-- the grammar `Canonical` is exactly the set of strings `format` produces on the in-range grammar: nothing the
formatter emits is missing from it, and it contains nothing else -/
theorem canonical_iff_image (s : Str) : Canonical s ↔ ∃ w, InRange w ∧ s = render (norm w) := by
  constructor
  · rintro ⟨w, hw, rfl⟩
    obtain ⟨h1, h2⟩ := (canonicalW_iff w).1 hw
    exact ⟨w, h1, by rw [h2]⟩
  · rintro ⟨w, hw, rfl⟩
    exact ⟨norm w, (canonicalW_iff _).2 ⟨inRange_norm w hw, norm_idem w⟩, rfl⟩

/-- `T05:30`, `2020-02-29T05` are canonical; `T05:00` is not a `render` of any canonical form (its canonical form is
`T05`) -/
example : Canonical [84, 48, 53, 58, 51, 48] ∧ Canonical [50, 48, 50, 48, 45, 48, 50, 45, 50, 57, 84, 48, 53] :=
  ⟨⟨.t (.hm 0 5 3 0), by simp [CanonicalW, ShortT], by decide⟩,
   ⟨.dt (.date 2 0 2 0 0 2 2 9) (.h 0 5), by simp [CanonicalW, ShortT, Combinable], by decide⟩⟩

/-- the three theorems for the configuration regenerated from the working tree -/
theorem tree_roundtrip (w : WF) (hr : InRange w) :
    (∃ v, formatT (parse genCfg (render w)) = .ok v ∧ parse genCfg v = parse genCfg (render w) ∧
      formatT (parse genCfg v) = .ok v) := by
  obtain ⟨v, h1, h2⟩ := parse_format_fields genCfg genCfg_ok w hr
  obtain ⟨v', h1', h3⟩ := format_idempotent genCfg genCfg_ok w hr
  rw [h1] at h1'; cases h1'
  exact ⟨v, h1, h2, h3⟩

/-- hypotheses are satisfiable: `2020-02-29`, `XXXX-WXX-3`, `T05:30:00` (canonical form `T05:30`),
`2020-02-29T05:30:00` (canonical form `2020-02-29T05:30`) -/
example : InRange (.d (.date 2 0 2 0 0 2 2 9)) ∧ InRange (.d (.weekday 3)) ∧ InRange (.t (.hms 0 5 3 0 0 0)) ∧
    render (norm (.t (.hms 0 5 3 0 0 0))) = [84, 48, 53, 58, 51, 48] ∧
    InRange (.dt (.date 2 0 2 0 0 2 2 9) (.hms 0 5 3 0 0 0)) ∧
    render (norm (.dt (.date 2 0 2 0 0 2 2 9) (.hms 0 5 3 0 0 0))) =
      [50, 48, 50, 48, 45, 48, 50, 45, 50, 57, 84, 48, 53, 58, 51, 48] := by
  refine ⟨by simp [InRange], by simp [InRange], by simp [InRange], by decide, by simp [InRange, Combinable], by decide⟩

/-! ## the guards are exact

`RoundTrips cfg s` is the round-trip clause of the property for one string.  `InRange` is sufficient
(`inRange_roundTrips`) AND necessary (`dt_guard_necessary`, `inRange_d_exact`): on the grammar `WF` the property holds
exactly on the guarded set. -/

theorem inRange_roundTrips (cfg : Cfg) (hc : CfgOK cfg) (w : WF) (hr : InRange w) : RoundTrips cfg (render w) := by
  obtain ⟨v, h1, h2⟩ := parse_format_fields cfg hc w hr
  obtain ⟨v', h1', h3⟩ := format_idempotent cfg hc w hr
  rw [h1] at h1'; cases h1'
  exact ⟨v, h1, h2, h3⟩

/-- C14 **dt_guard_necessary** — the guard `Combinable` of the date + time clause is NECESSARY: for EVERY date form
that is not combinable (year, year-month, season, year-season, ISO week, weekend, open month, week of month,
`XXXX-MM-WXX-w-d`, and weekday `0`), every time form and all digits, the string is accepted (`dt_has_time`: the fields
of the time half are assigned) and its `timex_value()` is a text with OTHER field values (`lossy`: the time of day is
dropped).  These strings are accepted by the datatype but lie outside the property's quantifier ("date+time
combinations" are a date, an open-year date or a weekday followed by a time): the theorem documents exactly where the
guard is needed and what the code does there. -/
theorem dt_guard_necessary (cfg : Cfg) (hc : CfgOK cfg) (f : DateForm) (g : TimeForm) (hf : ¬ Combinable f) :
    ¬ RoundTrips cfg (renderD f ++ renderT g) :=
  not_roundTrips cfg _ _ (format_lossy cfg hc f g hf) (lossy_fields_differ cfg hc f g hf)

/-- witnesses outside the guard (the check runs them through the unit correspondence): `2020-05T05 ↦ 2020-05`, `2020T05 ↦ 2020`,
`SUTMO ↦ SU`, `2020-W05T05 ↦ 2020-W05`, `XXXX-05-WXX-2-3TMO ↦ XXXX-WXX-3TMO`; in each case the parsed string has a time of
day / part of day / month that the re-parsed output lacks -/
theorem noncombinable_witnesses :
    (formatT (parse genCfg [50, 48, 50, 48, 45, 48, 53, 84, 48, 53]) = .ok [50, 48, 50, 48, 45, 48, 53] ∧
      (parse genCfg [50, 48, 50, 48, 45, 48, 53, 84, 48, 53]).hour = some (.int 5) ∧
      (parse genCfg [50, 48, 50, 48, 45, 48, 53]).hour = none) ∧
    (formatT (parse genCfg [50, 48, 50, 48, 84, 48, 53]) = .ok [50, 48, 50, 48] ∧
      (parse genCfg [50, 48, 50, 48, 84, 48, 53]).hour = some (.int 5) ∧ (parse genCfg [50, 48, 50, 48]).hour = none) ∧
    (formatT (parse genCfg [83, 85, 84, 77, 79]) = .ok [83, 85] ∧
      (parse genCfg [83, 85, 84, 77, 79]).partOfDay = some [77, 79] ∧ (parse genCfg [83, 85]).partOfDay = none) ∧
    (formatT (parse genCfg [50, 48, 50, 48, 45, 87, 48, 53, 84, 48, 53]) = .ok [50, 48, 50, 48, 45, 87, 48, 53]) ∧
    (formatT (parse genCfg [88, 88, 88, 88, 45, 48, 53, 45, 87, 88, 88, 45, 50, 45, 51, 84, 77, 79]) =
        .ok [88, 88, 88, 88, 45, 87, 88, 88, 45, 51, 84, 77, 79] ∧
      (parse genCfg [88, 88, 88, 88, 45, 48, 53, 45, 87, 88, 88, 45, 50, 45, 51, 84, 77, 79]).month = some (.int 5) ∧
      (parse genCfg [88, 88, 88, 88, 45, 87, 88, 88, 45, 51, 84, 77, 79]).month = none) := by
  decide

/-- out-of-range observations (NOT findings: the property quantifies over years 0001–9999 and over months / weekdays
that exist): the three strings of the twelve date patterns that `InRange` excludes — `0000`, `XXXX-00`, `XXXX-WXX-0` —
are accepted (a field is set: the `Timex` differs from the empty one) and format to `''` (Python truthiness of `0`). -/
theorem out_of_range_format_empty :
    (formatT (parse genCfg [48, 48, 48, 48]) = .ok [] ∧ parse genCfg [] ≠ parse genCfg [48, 48, 48, 48]) ∧
    (formatT (parse genCfg [88, 88, 88, 88, 45, 48, 48]) = .ok [] ∧
      parse genCfg [] ≠ parse genCfg [88, 88, 88, 88, 45, 48, 48]) ∧
    (formatT (parse genCfg [88, 88, 88, 88, 45, 87, 88, 88, 45, 48]) = .ok [] ∧
      parse genCfg [] ≠ parse genCfg [88, 88, 88, 88, 45, 87, 88, 88, 45, 48]) := by
  decide

/-- on the twelve date patterns the guard is exact (tree configuration) -/
theorem inRange_d_exact (f : DateForm) : InRange (.d f) ↔ RoundTrips genCfg (renderD f) := by
  constructor
  · exact fun h => inRange_roundTrips genCfg genCfg_ok (.d f) h
  · intro h
    refine Classical.byContradiction fun hn => ?_
    obtain ⟨⟨a1, a2⟩, ⟨b1, b2⟩, ⟨c1, c2⟩⟩ := out_of_range_format_empty
    cases f <;> simp only [InRange, not_true_eq_false, Classical.not_not, ne_eq] at hn
    case weekday w =>
      have : w = 0 := Fin.ext hn
      subst this
      exact not_roundTrips genCfg _ _ c1 c2 h
    case year y1 y2 y3 y4 =>
      obtain ⟨e1, e2, e3, e4⟩ := hn
      have : y1 = 0 := Fin.ext e1
      have : y2 = 0 := Fin.ext e2
      have : y3 = 0 := Fin.ext e3
      have : y4 = 0 := Fin.ext e4
      subst_vars
      exact not_roundTrips genCfg _ _ a1 a2 h
    case month m1 m2 =>
      obtain ⟨e1, e2⟩ := hn
      have : m1 = 0 := Fin.ext e1
      have : m2 = 0 := Fin.ext e2
      subst_vars
      exact not_roundTrips genCfg _ _ b1 b2 h

/-- C14 **inRange_exact** — on the whole grammar `WF` (every string `TimexParsing` takes apart into a `'date'` part
and / or a `'time'` part, and `PRESENT_REF`), for the configuration regenerated from the tree: the round-trip clause of
the property holds EXACTLY on the guarded set. -/
theorem inRange_exact (w : WF) : InRange w ↔ RoundTrips genCfg (render w) := by
  constructor
  · exact inRange_roundTrips genCfg genCfg_ok w
  · intro h
    cases w with
    | d f => exact (inRange_d_exact f).2 h
    | t g => trivial
    | dt f g =>
      refine Classical.byContradiction fun hn => ?_
      exact dt_guard_necessary genCfg genCfg_ok f g hn h
    | present => trivial

/-! ## durations with integer amounts -/

inductive DUnit | Y | Mo | W | D | H | Mi | S
def DUnit.isTime : DUnit → Bool
  | .H | .Mi | .S => true
  | _ => false
def DUnit.ch : DUnit → Nat
  | .Y => 89 | .Mo => 77 | .W => 87 | .D => 68 | .H => 72 | .Mi => 77 | .S => 83

/-- `P<digits><unit>` / `PT<digits><unit>` -/
def renderDur (u : DUnit) (digs : Str) : Str := 80 :: ((if u.isTime then [84] else []) ++ digs ++ [u.ch])

/-- the duration field a unit sets -/
def durFields (u : DUnit) (x : Num) : Timex := match u with
  | .Y => { years := some x } | .Mo => { months := some x } | .W => { weeks := some x } | .D => { days := some x }
  | .H => { hours := some x } | .Mi => { minutes := some x } | .S => { seconds := some x }

/-- parsing `P[T]<amount><unit>` for an amount string `a` that the amount group captures whole (`hm`) and whose first
character is neither `R` nor `T`: exactly the unit's field is set, to `Decimal(a)` -/
theorem parse_dur_gen (cfg : Cfg) (hc : CfgOK cfg) (u : DUnit) (d0 : Nat) (dt : Str) (x : Num)
    (n82 : ¬ (d0 = 82)) (n84 : ¬ (d0 = 84))
    (hm : ∀ c, cfg.dv c = none → c ≠ 46 → matchAmount cfg.dv (d0 :: (dt ++ [c])) = some (d0 :: dt, [c]))
    (hpd : parseDecimal cfg.dv (d0 :: dt) = x) :
    parse cfg (renderDur u (d0 :: dt)) = durFields u x := by
  have hT : matchAmount cfg.dv (84 :: d0 :: (dt ++ [72])) = none ∧ matchAmount cfg.dv (84 :: d0 :: (dt ++ [77])) = none ∧
      matchAmount cfg.dv (84 :: d0 :: (dt ++ [83])) = none := by
    refine ⟨?_, ?_, ?_⟩ <;> simp [matchAmount, takeDigits, isDig, hc.dv.2 84 (by decide)]
  have e89 := hm 89 (hc.dv.2 89 (by decide)) (by decide)
  have e77 := hm 77 (hc.dv.2 77 (by decide)) (by decide)
  have e87 := hm 87 (hc.dv.2 87 (by decide)) (by decide)
  have e68 := hm 68 (hc.dv.2 68 (by decide)) (by decide)
  have e72 := hm 72 (hc.dv.2 72 (by decide)) (by decide)
  have e83 := hm 83 (hc.dv.2 83 (by decide)) (by decide)
  cases u <;>
    simp [renderDur, DUnit.isTime, DUnit.ch, parse, parseInto, sPresentRef, extractDuration, extract, hc.period, stdPeriod,
      firstSome, matchItems, startsWith, Timex.assign, Timex.assignDuration, dictGet, durFields, hpd, n82, n84,
      e89, e77, e87, e68, e72, e83, hT, sY, sM, sW, sD, sH, sS]

/-- parsing a duration with an integer amount (any non-empty ASCII digit string, leading zeros allowed) sets exactly
the unit's field to `Decimal(amount)` -/
theorem parse_dur (cfg : Cfg) (hc : CfgOK cfg) (u : DUnit) (digs : Str) (hd : AsciiDigs digs) (hne : digs ≠ []) :
    parse cfg (renderDur u digs) = durFields u (.dec false (parseNatDv cfg.dv digs) 0) := by
  obtain ⟨d0, dt, rfl⟩ : ∃ d0 dt, digs = d0 :: dt := by
    cases digs with
    | nil => exact absurd rfl hne
    | cons a r => exact ⟨a, r, rfl⟩
  have h0 := hd d0 (by simp)
  refine parse_dur_gen cfg hc u d0 dt _ (by omega) (by omega) ?_ (parseDecimal_int hc.dv (d0 :: dt) hd)
  intro c h1 h2
  have := matchAmount_int hc.dv (d0 :: dt) c [] hd (by simp) h1 h2
  simpa using this

/-- parsing a duration with a fractional amount `ip.fp` (`ip` possibly empty, `fp` non-empty, ASCII digits):
the unit's field is `Decimal` with coefficient `int(ip ++ fp)` and exponent `-len(fp)` -/
theorem parse_dur_frac (cfg : Cfg) (hc : CfgOK cfg) (u : DUnit) (ip fp : Str) (hip : AsciiDigs ip) (hfp : AsciiDigs fp)
    (hne : fp ≠ []) :
    parse cfg (renderDur u (ip ++ 46 :: fp)) =
      durFields u (.dec false (parseNatDv cfg.dv (ip ++ fp)) (-(fp.length : Int))) := by
  have hpd := parseDecimal_frac hc.dv ip fp hip
  have hm : ∀ c, cfg.dv c = none → matchAmount cfg.dv (ip ++ 46 :: fp ++ [c]) = some (ip ++ 46 :: fp, [c]) :=
    fun c h1 => matchAmount_frac hc.dv ip fp c [] hip hfp hne h1
  cases ip with
  | nil =>
    refine parse_dur_gen cfg hc u 46 fp _ (by decide) (by decide) ?_ (by simpa using hpd)
    intro c h1 _
    simpa using hm c h1
  | cons d0 dt =>
    have h0 := hip d0 (by simp)
    refine parse_dur_gen cfg hc u d0 (dt ++ 46 :: fp) _ (by omega) (by omega) ?_ (by simpa using hpd)
    intro c h1 _
    simpa using hm c h1

/-- a duration field with an integral `Decimal` prints as `P[T]<n><unit>` with the plain digits of `n` -/
theorem format_dur (u : DUnit) (n : Nat) : formatT (durFields u (.dec false n 0)) = .ok (renderDur u (nstr n)) := by
  cases u <;>
    simp [durFields, renderDur, DUnit.isTime, DUnit.ch, formatT, formatFuel, infer, isDate, isDateRange, isDuration, isTime,
      isDefinite, truthyO, truthyS, formatDuration, optStr, Num.str, decStr_int, bind, Except.bind, pure, Except.pure]

/-- C14 **duration_int_roundtrip** — for all seven units and every integer amount written with any non-empty
ASCII digit string `digs` (leading zeros allowed, zero included since fix b6d61daf1): `Timex(s).timex_value()` is the
same duration with the amount in plain digits without leading zeros; that string parses to the same field values
(`parse_format_fields`) and formats to itself (`format_idempotent`, `canonical_fixed`). -/
theorem duration_int_roundtrip (cfg : Cfg) (hc : CfgOK cfg) (u : DUnit) (digs : Str) (hd : AsciiDigs digs)
    (hne : digs ≠ []) :
    let v := renderDur u (nstr (parseNatDv cfg.dv digs))
    formatT (parse cfg (renderDur u digs)) = .ok v ∧ parse cfg v = parse cfg (renderDur u digs) ∧
      formatT (parse cfg v) = .ok v := by
  have h1 := parse_dur cfg hc u digs hd hne
  have h2 := parse_dur cfg hc u (nstr (parseNatDv cfg.dv digs)) (nstr_ascii _) (nstr_ne_nil _)
  rw [parseNatDv_nstr hc.dv] at h2
  refine ⟨?_, ?_, ?_⟩
  · rw [h1, format_dur]
  · rw [h1, h2]
  · rw [h2, format_dur]

example : AsciiDigs [48, 48, 49, 48] ∧ renderDur .D [48, 48, 49, 48] = [80, 48, 48, 49, 48, 68] ∧
    renderDur .Mi (nstr 90) = [80, 84, 57, 48, 77] := by
  refine ⟨by intro c hc; simp at hc; omega, by decide, by decide⟩

/-- a duration field holding any non-negative `Decimal` prints as `P[T]<str(Decimal)><unit>` -/
theorem format_dur_dec (u : DUnit) (c : Nat) (e : Int) :
    formatT (durFields u (.dec false c e)) = .ok (renderDur u (decStr false c e)) := by
  cases u <;>
    simp [durFields, renderDur, DUnit.isTime, DUnit.ch, formatT, formatFuel, infer, isDate, isDateRange, isDuration, isTime,
      isDefinite, truthyO, truthyS, formatDuration, optStr, Num.str, bind, Except.bind, pure, Except.pure]

/-- C14 **duration_frac_roundtrip** — for all seven units and every fractional amount `ip.fp` (ASCII digits, `ip`
possibly empty as in `P.5D`, `fp` non-empty) under the **exact guard** `len(fp) < len(str(int(ip ++ fp))) + 6` — the
condition under which `str(Decimal)` stays in plain notation — `Timex(s).timex_value()` is a duration string `v`
that parses to the same field values and formats to itself.  (`P0.5D`, `P1.50D`, `P.5D ↦ P0.5D`, `P0.000001D`; when
the guard fails, e.g. `P0.0000001D`, the text is `P1E-7D`: `tiny_amount_not_stable`.) -/
theorem duration_frac_roundtrip (cfg : Cfg) (hc : CfgOK cfg) (u : DUnit) (ip fp : Str) (hip : AsciiDigs ip)
    (hfp : AsciiDigs fp) (hne : fp ≠ [])
    (guard : fp.length < (nstr (parseNatDv cfg.dv (ip ++ fp))).length + 6) :
    ∃ v, formatT (parse cfg (renderDur u (ip ++ 46 :: fp))) = .ok v ∧
      parse cfg v = parse cfg (renderDur u (ip ++ 46 :: fp)) ∧ formatT (parse cfg v) = .ok v := by
  have hk : 1 ≤ fp.length := List.length_pos_iff.mpr hne
  have h1 := parse_dur_frac cfg hc u ip fp hip hfp hne
  obtain ⟨ip', fp', hs, hip', hfp', hne', hlen, hval⟩ :=
    decStr_frac_shape (parseNatDv cfg.dv (ip ++ fp)) fp.length hk guard
  have hne'' : fp' ≠ [] := by intro h; rw [h] at hlen; simp at hlen; omega
  have h2 := parse_dur_frac cfg hc u ip' fp' hip' hfp' hne''
  rw [hval cfg.dv hc.dv, hlen, ← hs] at h2
  refine ⟨renderDur u (decStr false (parseNatDv cfg.dv (ip ++ fp)) (-(fp.length : Int))), ?_, ?_, ?_⟩
  · rw [h1, format_dur_dec]
  · rw [h1, h2]
  · rw [h2, format_dur_dec]

example : (nstr 5).length = 1 ∧ (nstr 150).length = 3 ∧ decStr false 5 (-1) = [48, 46, 53] ∧
    decStr false 1 (-6) = [48, 46, 48, 48, 48, 48, 48, 49] ∧ decStr false 1 (-7) = [49, 69, 45, 55] := by decide

/-- a duration string whose amount is followed by an `E` (what `str(Decimal)` prints in scientific notation) matches
no pattern: `Timex(s)` has no field at all -/
theorem parse_dur_exponent (cfg : Cfg) (hc : CfgOK cfg) (u : DUnit) (d0 : Nat) (dt R : Str)
    (n82 : ¬ (d0 = 82)) (n84 : ¬ (d0 = 84))
    (hm : ∀ rest, matchAmount cfg.dv (d0 :: (dt ++ 69 :: rest)) = some (d0 :: dt, 69 :: rest)) :
    parse cfg (renderDur u (d0 :: dt ++ 69 :: R)) = {} := by
  have hT : ∀ rest, matchAmount cfg.dv (84 :: d0 :: rest) = none := by
    intro rest; simp [matchAmount, takeDigits, isDig, hc.dv.2 84 (by decide)]
  cases u <;>
    simp [renderDur, DUnit.isTime, DUnit.ch, parse, parseInto, sPresentRef, extractDuration, extract, hc.period, stdPeriod,
      firstSome, matchItems, startsWith, Timex.assign, n82, n84, hm, hT]

/-- C14 **tiny_amount_general** — the other side of the guard of `duration_frac_roundtrip`, for ALL amounts: when
`len(fp) ≥ len(str(int(ip ++ fp))) + 6` the formatter prints the amount in scientific notation (`1E-7`), a text no
`TimexRegex` pattern accepts — `Timex(Timex(s).timex_value())` has no field, while `Timex(s)` has its duration field.
(Recorded finding `tiny-amount-scientific`; `tiny_amount_not_stable` is the instance the check replays.) -/
theorem tiny_amount_general (cfg : Cfg) (hc : CfgOK cfg) (u : DUnit) (ip fp : Str) (hip : AsciiDigs ip)
    (hfp : AsciiDigs fp) (hne : fp ≠ [])
    (hguard : fp.length ≥ (nstr (parseNatDv cfg.dv (ip ++ fp))).length + 6) :
    ∃ v, formatT (parse cfg (renderDur u (ip ++ 46 :: fp))) = .ok v ∧ parse cfg v = {} ∧
      parse cfg (renderDur u (ip ++ 46 :: fp)) ≠ {} := by
  have h1 := parse_dur_frac cfg hc u ip fp hip hfp hne
  refine ⟨renderDur u (decStr false (parseNatDv cfg.dv (ip ++ fp)) (-(fp.length : Int))), ?_, ?_, ?_⟩
  · rw [h1, format_dur_dec]
  · -- the scientific text: one digit, optionally `.` and more digits, then `E-n`
    have hds := nstr_ascii (parseNatDv cfg.dv (ip ++ fp))
    have hnn := nstr_ne_nil (parseNatDv cfg.dv (ip ++ fp))
    have h69 : cfg.dv 69 = none := hc.dv.2 69 (by decide)
    by_cases hl : (nstr (parseNatDv cfg.dv (ip ++ fp))).length = 1
    · rw [decStr_sci1 _ _ hl hguard]
      obtain ⟨d0, hd0⟩ : ∃ d0, nstr (parseNatDv cfg.dv (ip ++ fp)) = [d0] := by
        cases hx : nstr (parseNatDv cfg.dv (ip ++ fp)) with
        | nil => exact absurd hx hnn
        | cons a r => cases r with
          | nil => exact ⟨a, rfl⟩
          | cons b r' => rw [hx] at hl; simp at hl
      rw [hd0] at hds ⊢
      have hb := hds d0 (by simp)
      refine parse_dur_exponent cfg hc u d0 [] _ (by omega) (by omega) ?_
      intro rest
      have := matchAmount_int hc.dv [d0] 69 rest hds (by simp) h69 (by decide)
      simpa using this
    · have hlen : 1 < (nstr (parseNatDv cfg.dv (ip ++ fp))).length := by
        have : 0 < (nstr (parseNatDv cfg.dv (ip ++ fp))).length := List.length_pos_iff.mpr hnn
        omega
      rw [decStr_sciN _ _ hlen hguard]
      obtain ⟨d0, r, hd0⟩ : ∃ d0 r, nstr (parseNatDv cfg.dv (ip ++ fp)) = d0 :: r := by
        cases hx : nstr (parseNatDv cfg.dv (ip ++ fp)) with
        | nil => exact absurd hx hnn
        | cons a r => exact ⟨a, r, rfl⟩
      rw [hd0] at hds hlen ⊢
      have hb := hds d0 (by simp)
      have hr : AsciiDigs r := fun x hx => hds x (by simp [hx])
      have hrne : r ≠ [] := by intro h; rw [h] at hlen; simp at hlen
      simp only [List.take_succ_cons, List.take_zero, List.drop_succ_cons, List.drop_zero, List.cons_append, List.nil_append,
        List.append_assoc]
      refine parse_dur_exponent cfg hc u d0 (46 :: r) _ (by omega) (by omega) ?_
      intro rest
      have := matchAmount_frac hc.dv [d0] r 69 rest (fun x hx => by simp at hx; subst hx; exact hb) hr hrne h69
      simpa using this
  · rw [h1]
    cases u <;> simp [durFields]

/-! ## durations and the recorded / repaired defects -/

/-- integral amounts print as plain digits for every unit field (here days and hours): `Timex(days=Decimal(n))`
formats to `PnD` -/
theorem duration_int_format (n : Nat) :
    formatT { days := some (.dec false n 0) } = .ok (80 :: nstr n ++ [68]) ∧
    formatT { hours := some (.dec false n 0) } = .ok (80 :: 84 :: nstr n ++ [72]) := by
  constructor <;>
    simp [formatT, formatFuel, infer, isDate, isDateRange, isDuration, isTime, isDefinite, truthyO, truthyS,
      formatDuration, optStr, Num.str, decStr_int, bind, Except.bind, pure, Except.pure]

/-- round trips of duration strings with integer and fractional amounts (`P10D`, `PT1.5H`, `P0.25W`, `P1.50Y`) -/
theorem duration_examples :
    ∀ s ∈ ([[80, 49, 48, 68], [80, 84, 49, 46, 53, 72], [80, 48, 46, 50, 53, 87], [80, 49, 46, 53, 48, 89],
            [80, 51, 54, 77], [80, 84, 57, 48, 77], [80, 84, 52, 53, 83]] : List Str),
      formatT (parse genCfg s) = .ok s := by
  decide

/-- regression (was finding `zero-amount-empty`): `P0D` formats to `P0D` (before fix b6d61daf1: `''`);
regression (was finding `week-of-month-reformat`): `XXXX-05-W02` formats to itself — the text the code printed
before fix 127911630, `XXXX-05-WXX-2`, is accepted by no pattern (its `Timex` has no field). -/
theorem repaired_roundtrips :
    formatT (parse genCfg [80, 48, 68]) = .ok [80, 48, 68] ∧
    formatT (parse genCfg [88, 88, 88, 88, 45, 48, 53, 45, 87, 48, 50]) = .ok [88, 88, 88, 88, 45, 48, 53, 45, 87, 48, 50] ∧
    parse genCfg [88, 88, 88, 88, 45, 48, 53, 45, 87, 88, 88, 45, 50] = {} := by
  decide

/-
Full statement for durations: ∀ amount of the language `\d*\.?\d+`, parse (format (parse ('P' amount unit))) =
parse ('P' amount unit).  FALSE in the faithful model for amounts below 10⁻⁶ (`str(Decimal)` switches to
scientific notation, which `TimexRegex` does not accept) — recorded finding `tiny-amount-scientific`:
-/
/-- negative witness (replayed by the check): `P0.0000001D` formats to `P1E-7D`, whose `Timex` has no field. -/
theorem tiny_amount_not_stable :
    formatT (parse genCfg [80, 48, 46, 48, 48, 48, 48, 48, 48, 49, 68]) = .ok [80, 49, 69, 45, 55, 68] ∧
    parse genCfg [80, 49, 69, 45, 55, 68] = {} ∧
    parse genCfg [80, 48, 46, 48, 48, 48, 48, 48, 48, 49, 68] = { days := some (.dec false 1 (-7)) } := by
  decide

/-! ## package functions outside the C14 property (characterisation only)

`Timex.to_string` / `Timex.to_natural_language` (english_timex_convert.py, english_timex_relative_convert.py),
`convert_timex_set_to_string`, `TimexInference.infer` on the grammar and `TimexCreator` are not part of the parse /
format property (nor of C15).  The theorems below say what they compute — including what is plainly odd — so that a
change of behaviour is a broken obligation; the check ties `RTV.Model.TimexConvert` to the code by unit correspondence
and gives no property verdict for these functions. -/

/-- the constants of `EnglishConstants` the statements below quote (regenerated from the tree) -/
theorem genEng_facts :
    genEng.days.length = 7 ∧ genEng.months.length = 12 ∧ genEng.weeks.length = 4 ∧
    genEng.dateAbbreviation = [(0, [116, 104]), (1, [115, 116]), (2, [110, 100]), (3, [114, 100]), (4, [116, 104]),
      (5, [116, 104]), (6, [116, 104]), (7, [116, 104]), (8, [116, 104]), (9, [116, 104])] := by decide

theorem month_idx_ok (m : Nat) (h1 : 1 ≤ m) (h : m ≤ 12) :
    ∃ month, listIdx genEng.months ((m : Int) - 1) = .ok month := by
  have : ∀ k : Fin 12, (Py.index genEng.months (k.val : Int)).isSome = true := by decide
  have hk := this ⟨m - 1, by omega⟩
  unfold listIdx
  have e : ((m : Int) - 1) = ((m - 1 : Nat) : Int) := by omega
  rw [e]
  cases hx : Py.index genEng.months ((m - 1 : Nat) : Int) with
  | none => simp [hx] at hk
  | some x => exact ⟨x, rfl⟩

/-- **convert_time** is a 12-hour clock: for every clock time that is not exactly midnight or midday the text is
`((h + 11) mod 12) + 1`, then `:mm` unless minute and second are both zero, then `:ss` unless the second is zero, then
`AM` for `h < 12` and `PM` otherwise. -/
theorem convert_time_12h (h m s : Nat) (hh : h < 24)
    (hn : ¬ (m = 0 ∧ s = 0 ∧ (h = 0 ∨ h = 12))) :
    convertTime { time := some ⟨.int h, .int m, .int s⟩ } =
      .ok (nstr ((h + 11) % 12 + 1) ++ (if m = 0 ∧ s = 0 then [] else 58 :: rjust0 2 (nstr m)) ++
        (if s = 0 then [] else 58 :: rjust0 2 (nstr s)) ++ (if h < 12 then sAM else sPM)) := by
  have h0 : ¬ ((h : Int) = 0 ∧ (m : Int) = 0 ∧ (s : Int) = 0) := by omega
  have h12 : ¬ ((h : Int) = 12 ∧ (m : Int) = 0 ∧ (s : Int) = 0) := by omega
  have e12 : (if (h : Int) = 0 then [49, 50] else if (h : Int) > 12 then istr ((h : Int) - 12) else istr (h : Int)) =
      nstr ((h + 11) % 12 + 1) := by
    by_cases a : h = 0
    · subst a; decide
    · by_cases b : h > 12
      · have : ((h : Int) - 12) = (((h + 11) % 12 + 1 : Nat) : Int) := by omega
        simp only [show ¬ ((h : Int) = 0) by omega, show (h : Int) > 12 by omega, if_true, if_false, this, istr_nat]
      · have : (h : Int) = (((h + 11) % 12 + 1 : Nat) : Int) := by omega
        simp only [show ¬ ((h : Int) = 0) by omega, show ¬ ((h : Int) > 12) by omega, if_false]
        rw [this, istr_nat]
  have em : ((m : Int) = 0) ↔ m = 0 := by omega
  have es : ((s : Int) = 0) ↔ s = 0 := by omega
  have el : ((h : Int) < 12) ↔ h < 12 := by omega
  simp only [convertTime, Timex.hour, Timex.minute, Timex.second, Option.map_some, cInt, bind, Except.bind, pure,
    Except.pure, h0, h12, if_false, e12]
  simp only [em, es, el, istr_nat]

example : convertTime { time := some ⟨.int 17, .int 0, .int 5⟩ } = .ok [53, 58, 48, 48, 58, 48, 53, 80, 77] ∧
    convertTime { time := some ⟨.int 0, .int 0, .int 0⟩ } = .ok sMidnight ∧
    convertTime { time := some ⟨.int 12, .int 0, .int 0⟩ } = .ok sMidday := by decide

/-- **english_convert_date** picks the ordinal suffix by the LAST DIGIT of the day only: `1st 2nd 3rd 4th … 21st 22nd`,
but also `11st`, `12nd`, `13rd` (no special case for the teens). -/
theorem english_date_suffix (m dd : Nat) (hm1 : 1 ≤ m) (hm : m ≤ 12) :
    ∃ month, listIdx genEng.months ((m : Int) - 1) = .ok month ∧
      englishConvertDate genEng { month := some (.int m), dayOfMonth := some (.int dd) } =
        .ok (nstr dd ++ (match dd % 10 with
          | 1 => [115, 116] | 2 => [110, 100] | 3 => [114, 100] | _ => [116, 104]) ++ 32 :: month) := by
  have hidx := month_idx_ok m hm1 hm
  obtain ⟨month, hmo⟩ := hidx
  refine ⟨month, hmo, ?_⟩
  have hneg : ¬ ((dd : Int) < 0) := by omega
  have hmod : ((dd : Int) % 10) = ((dd % 10 : Nat) : Int) := by omega
  have hab : assocInt genEng.dateAbbreviation ((dd % 10 : Nat) : Int) = .ok (match dd % 10 with
      | 1 => [115, 116] | 2 => [110, 100] | 3 => [114, 100] | _ => [116, 104]) := by
    have hlt : dd % 10 < 10 := Nat.mod_lt _ (by decide)
    generalize dd % 10 = k at hlt
    have : k = 0 ∨ k = 1 ∨ k = 2 ∨ k = 3 ∨ k = 4 ∨ k = 5 ∨ k = 6 ∨ k = 7 ∨ k = 8 ∨ k = 9 := by omega
    rcases this with rfl | rfl | rfl | rfl | rfl | rfl | rfl | rfl | rfl | rfl <;> decide
  simp only [englishConvertDate, cInt, bind, Except.bind, pure, Except.pure, hmo, hneg, if_false, hmod, hab, istr_nat]

example : englishConvertDate genEng { month := some (.int 5), dayOfMonth := some (.int 11) } =
    .ok [49, 49, 115, 116, 32, 77, 97, 121] := by decide   -- '11st May'

/-- `Timex.to_string()` of every ISO-week TIMEX raises `NotImplementedError` (`weekend` is `False`, never `None`), and
`convert_timex_set_to_string` always raises `TypeError` (it calls the `types` property) -/
theorem to_string_week_not_implemented (y w : Nat) (we : Bool) :
    timexToString genEng { year := some (.int y), weekOfYear := some (.int w), weekend := some we } =
      .error .notImplemented := by
  cases we <;>
    simp [timexToString, infer, isDate, isDateRange, isDuration, isTime, isDefinite, truthyO, truthyS, convertDateRange,
      fstr, bind, Except.bind, pure, Except.pure] <;> rfl

theorem set_to_string_always_raises (e : EngCfg) (t : Timex) : timexSetToString e t = .error .typeError := rfl

/-- `convert_date` of english_timex_convert.py (reached through `to_string()` of a date + part of day) looks the WHOLE
day up in `DATE_ABBREVIATION`: a KeyError for every day ≥ 10 -/
theorem convert_date_keyerror (m dd : Nat) (hm1 : 1 ≤ m) (hm : m ≤ 12) (hd : 10 ≤ dd) :
    convertDateE genEng { month := some (.int m), dayOfMonth := some (.int dd) } = .error .keyError := by
  have hidx := month_idx_ok m hm1 hm
  obtain ⟨month, hmo⟩ := hidx
  have hk : assocInt genEng.dateAbbreviation (dd : Int) = .error .keyError := by
    rw [genEng_facts.2.2.2]
    have nk : ∀ k : Int, k < 10 → (k == (dd : Int)) = false := by
      intro k hk; rw [beq_eq_false_iff_ne]; omega
    simp [assocInt, List.find?, nk]
    rfl
  simp only [convertDateE, cInt, bind, Except.bind, pure, Except.pure, hmo, hk]

/-- `TimexCreator.yesterday(date)` is the canonical TIMEX of the day before -/
theorem creator_yesterday (d : Date) (hv : d.valid = true) (h2 : 2 ≤ d.ord) :
    creatorYesterday d = .ok (isoDateStr (Date.ofOrd (d.ord - 1))) := by
  have hr := ord_range d hv
  have ha := addDays_ok d (-1) (by omega) (by omega) (by decide)
  have e : ((d.ord : Int) + -1).toNat = d.ord - 1 := by omega
  rw [e] at ha
  have hv' := (ord_ofOrd (d.ord - 1) (by omega) (by omega)).2
  simp only [creatorYesterday, ha, liftR, bind, Except.bind, format_fromDate _ hv']

/-- the types `TimexInference.infer` gives to each date pattern (no time of day): a full date is `definite` + `date`; a
weekday is a `date` unless its digit is 0 (Python truthiness); an open-year date is a `date`; years, months, seasons,
weeks and week-of-month forms are `daterange`s; `XXXX-MM-WXX-w-d` is a `daterange` and, unless `d = 0`, also a `date` -/
def typesOfD : DateForm → Types
  | .date .. => { definite := true, date := true }
  | .weekday w => if w.val = 0 then {} else { date := true }
  | .openyear .. => { date := true }
  | .monthweekday _ _ _ d => if d.val = 0 then { daterange := true } else { date := true, daterange := true }
  | _ => { daterange := true }

/-- **infer_date_forms** — `Timex(s).types` for every string of the twelve date patterns -/
theorem infer_date_forms (cfg : Cfg) (hc : CfgOK cfg) (f : DateForm) : infer (parse cfg (renderD f)) = typesOfD f := by
  have h88 : isDig cfg.dv 88 = false := by simp [isDig, hc.dv.2 88 (by decide)]
  have h45 : isDig cfg.dv 45 = false := by simp [isDig, hc.dv.2 45 (by decide)]
  have h87 : isDig cfg.dv 87 = false := by simp [isDig, hc.dv.2 87 (by decide)]
  have h83 : isDig cfg.dv 83 = false := by simp [isDig, hc.dv.2 83 (by decide)]
  have h70 : isDig cfg.dv 70 = false := by simp [isDig, hc.dv.2 70 (by decide)]
  rw [parse_renderD cfg hc, hc.date]
  cases f
  case season s => cases s <;> simp [extract, stdDate, xxxx, seasons, firstSome, matchItems, renderD, startsWith,
      seasonStr, Timex.assign, h88, h45, h87, h83, h70, infer, isDate, isDateRange, isDuration, isTime, isDefinite,
      truthyO, truthyS, typesOfD]
  case yearseason y1 y2 y3 y4 s => cases s <;> simp [extract, stdDate, xxxx, seasons, firstSome, matchItems, renderD,
      isDig_dch cfg hc, startsWith, dch_ne, ne_dch, seasonStr, Timex.assign, parseNatDv, dv_dch cfg hc, h88, h45, h87,
      h83, h70, infer, isDate, isDateRange, isDuration, isTime, isDefinite, truthyO, truthyS, typesOfD]
  all_goals
    simp [extract, stdDate, xxxx, seasons, firstSome, matchItems, renderD, isDig_dch cfg hc, startsWith, dch_ne, ne_dch,
      seasonStr, Timex.assign, parseNatDv, dv_dch cfg hc, h88, h45, h87, h83, h70, infer, isDate, isDateRange,
      isDuration, isTime, isDefinite, truthyO, truthyS, Num.truthy, typesOfD]
  all_goals (try (split <;> simp_all))

/-- **infer_time_forms** — a time of day is a `time`, a part of day a `timerange` -/
theorem infer_time_forms (cfg : Cfg) (hc : CfgOK cfg) (g : TimeForm) :
    infer (parse cfg (renderT g)) = (match g with
      | .pod _ => { timerange := true }
      | _ => { time := true }) := by
  have h58 : isDig cfg.dv 58 = false := by simp [isDig, hc.dv.2 58 (by decide)]
  rw [parse_renderT cfg hc, extract_date_nil cfg hc, hc.time]
  cases g
  case pod p => cases p <;> simp [extract, stdTime, partsOfDay, firstSome, matchItems, renderT, startsWith, podStr,
      dictMerge, dictSet, Timex.assign, infer, isDate, isDateRange, isDuration, isTime, isDefinite, truthyO, truthyS,
      isDig, hc.dv.2]
  all_goals
    simp [extract, stdTime, firstSome, matchItems, renderT, isDig_dch cfg hc, dictMerge, dictSet, Timex.assign,
      parseNatDv, dv_dch cfg hc, Timex.setHour, Timex.setMinute, Timex.setSecond, infer, isDate, isDateRange, isDuration,
      isTime, isDefinite, truthyO, truthyS, h58, dch_ne, ne_dch]

end RTV.Timex
