import RTV.Model.TimexCfg
/-! # C14 — TIMEX strings survive parsing and formatting unchanged (work in progress) -/
namespace RTV.Timex

/-- The patterns, constants and digit table regenerated from the working tree are the ones the theorems are
about. -/
theorem genCfg_ok : CfgOK genCfg := by
  constructor <;> decide

end RTV.Timex
