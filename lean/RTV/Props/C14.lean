import RTV.Lemmas.Timex
/-!
# C14 — TIMEX strings survive parsing and formatting unchanged

Theorems about `RTV.Model.Timex` (mirrors `datatypes_timex_expression`: timex.py, time.py, timex_parsing.py,
timex_regex.py, timex_format.py, timex_inference.py). The grammar is the set of strings the `TimexRegex` patterns
accept with ASCII digits: a well-formed TIMEX is a value of `WF` (one constructor per pattern / combination, the
digits are parameters) and `render` writes it down.  The theorems hold for **every** configuration that satisfies
`CfgOK` (the 18 patterns as they stood when the proofs were made, a digit table that knows the ASCII digits) and
`genCfg_ok` shows that the configuration regenerated from the working tree is one.
-/
namespace RTV.Timex
open RTV.Py RTV.Cal
set_option linter.unusedSimpArgs false
set_option linter.unusedVariables false

/-- The patterns, constants and digit table regenerated from the working tree are the ones the theorems are
about (an edit of `timex_regex.py`, `timex_creator.py`, `timex_constants.py` breaks this obligation). -/
theorem genCfg_ok : CfgOK genCfg := by
  constructor <;> decide

/-! ## `from_date`, `from_date_time`, `from_time` are canonical -/

example : isoDateStr ⟨2020, 2, 29⟩ = [50, 48, 50, 48, 45, 48, 50, 45, 50, 57] ∧
    isoTimeStr 5 30 0 = [84, 48, 53, 58, 51, 48] := by decide

/-- C14 **from_date_canonical** — for every valid date 0001-01-01 … 9999-12-31, `Timex.from_date(d).timex_value()`
is `YYYY-MM-DD`. -/
theorem from_date_canonical (d : Date) (hv : d.valid = true) :
    formatT (Timex.fromDate d) = .ok (isoDateStr d) := format_fromDate d hv

theorem fixed2_zero : fixedFormat (some (.int 0)) 2 = [48, 48] := by decide

/-- C14 **from_time_canonical** — for every `h < 100`, `m, s < 100` (in particular all clock times)
`Timex.from_time(Time(h, m, s)).timex_value()` is `Thh[:mm[:ss]]`. -/
theorem from_time_canonical (h m s : Nat) (hh : h < 100) (hm : m < 100) (hs : s < 100) :
    formatT (Timex.fromTime ⟨.int h, .int m, .int s⟩) = .ok (isoTimeStr h m s) := by
  by_cases h1 : m = 0 <;> by_cases h2 : s = 0 <;>
    simp [formatT, formatFuel, Timex.fromTime, Timex.initTime, Timex.setHour, Timex.setMinute, Timex.setSecond, infer,
      isDate, isDateRange, isDuration, isTime, isDefinite, truthyO, truthyS, formatTime, eq0, Num.eqInt, Num.scaled,
      pow10, Timex.hour, Timex.minute, Timex.second, fixed2 h hh, fixed2 m hm, fixed2 s hs, isoTimeStr, d2,
      bind, Except.bind, pure, Except.pure, h1, h2, fixed2_zero]

/-- C14 **from_date_time_canonical** — for every valid date and clock time,
`Timex.from_date_time(dt).timex_value()` is `YYYY-MM-DD` followed by `Thh[:mm[:ss]]`. -/
theorem from_date_time_canonical (d : Date) (hv : d.valid = true) (h m s : Nat) (hh : h < 24) (hm : m < 60)
    (hs : s < 60) :
    formatT (Timex.fromDateTime d h m s) = .ok (isoDateStr d ++ isoTimeStr h m s) := by
  obtain ⟨hy, hmo, hd⟩ := valid_bounds d hv
  by_cases h1 : m = 0 <;> by_cases h2 : s = 0 <;>
    simp [formatT, formatFuel, Timex.fromDateTime, Timex.fromDate, Timex.initTime, Timex.setHour, Timex.setMinute,
      Timex.setSecond, infer, isDate, isDateRange, isDuration, isTime, isDefinite, truthyO, truthyS, formatTime,
      formatDate, andChainNotNone, eq0, Num.eqInt, Num.scaled, pow10, Timex.hour, Timex.minute, Timex.second,
      fixed4 d.y hy, fixed2 d.m hmo, fixed2 d.d hd, fixed2 h (by omega), fixed2 m (by omega), fixed2 s (by omega),
      isoTimeStr, isoDateStr, d2, d4, bind, Except.bind, pure, Except.pure, h1, h2, fixed2_zero]

example : (⟨2020, 2, 29⟩ : Date).valid = true := by decide

/-! ## the grammar -/

abbrev Dg := Fin 10
/-- the ASCII digit character of a digit -/
def dch (d : Dg) : Nat := 48 + d.val

inductive Season | SP | SU | FA | WI
inductive Pod | DT | NI | MO | AF | EV
def seasonStr : Season → Str
  | .SP => [83, 80] | .SU => [83, 85] | .FA => [70, 65] | .WI => [87, 73]
def podStr : Pod → Str
  | .DT => [68, 84] | .NI => [78, 73] | .MO => [77, 79] | .AF => [65, 70] | .EV => [69, 86]

/-- the twelve date patterns, digits as parameters -/
inductive DateForm
  | date (y1 y2 y3 y4 m1 m2 d1 d2 : Dg)
  | weekday (w : Dg)
  | openyear (m1 m2 d1 d2 : Dg)
  | year (y1 y2 y3 y4 : Dg)
  | yearmonth (y1 y2 y3 y4 m1 m2 : Dg)
  | season (s : Season)
  | yearseason (y1 y2 y3 y4 : Dg) (s : Season)
  | week (y1 y2 y3 y4 w1 w2 : Dg)
  | weekend (y1 y2 y3 y4 w1 w2 : Dg)
  | month (m1 m2 : Dg)
  | monthweek (m1 m2 w1 w2 : Dg)
  | monthweekday (m1 m2 w d : Dg)

/-- the four time patterns -/
inductive TimeForm
  | h (h1 h2 : Dg)
  | hm (h1 h2 m1 m2 : Dg)
  | hms (h1 h2 m1 m2 s1 s2 : Dg)
  | pod (p : Pod)

def renderD : DateForm → Str
  | .date y1 y2 y3 y4 m1 m2 d1 d2 => [dch y1, dch y2, dch y3, dch y4, 45, dch m1, dch m2, 45, dch d1, dch d2]
  | .weekday w => [88, 88, 88, 88, 45, 87, 88, 88, 45, dch w]
  | .openyear m1 m2 d1 d2 => [88, 88, 88, 88, 45, dch m1, dch m2, 45, dch d1, dch d2]
  | .year y1 y2 y3 y4 => [dch y1, dch y2, dch y3, dch y4]
  | .yearmonth y1 y2 y3 y4 m1 m2 => [dch y1, dch y2, dch y3, dch y4, 45, dch m1, dch m2]
  | .season s => seasonStr s
  | .yearseason y1 y2 y3 y4 s => [dch y1, dch y2, dch y3, dch y4, 45] ++ seasonStr s
  | .week y1 y2 y3 y4 w1 w2 => [dch y1, dch y2, dch y3, dch y4, 45, 87, dch w1, dch w2]
  | .weekend y1 y2 y3 y4 w1 w2 => [dch y1, dch y2, dch y3, dch y4, 45, 87, dch w1, dch w2, 45, 87, 69]
  | .month m1 m2 => [88, 88, 88, 88, 45, dch m1, dch m2]
  | .monthweek m1 m2 w1 w2 => [88, 88, 88, 88, 45, dch m1, dch m2, 45, 87, dch w1, dch w2]
  | .monthweekday m1 m2 w d => [88, 88, 88, 88, 45, dch m1, dch m2, 45, 87, 88, 88, 45, dch w, 45, dch d]

def renderT : TimeForm → Str
  | .h h1 h2 => [84, dch h1, dch h2]
  | .hm h1 h2 m1 m2 => [84, dch h1, dch h2, 58, dch m1, dch m2]
  | .hms h1 h2 m1 m2 s1 s2 => [84, dch h1, dch h2, 58, dch m1, dch m2, 58, dch s1, dch s2]
  | .pod p => 84 :: podStr p

/-- a well-formed TIMEX of the families C14 names: a date form, a time form, a date + time combination, or
`PRESENT_REF` (durations: see `duration_int_roundtrip`) -/
inductive WF
  | d (f : DateForm)
  | t (g : TimeForm)
  | dt (f : DateForm) (g : TimeForm)
  | present

def render : WF → Str
  | .d f => renderD f
  | .t g => renderT g
  | .dt f g => renderD f ++ renderT g
  | .present => sPresentRef

/-- canonical form of a time: trailing `:00` parts are not printed (`T05:00` and `T05` have the same fields) -/
def normT : TimeForm → TimeForm
  | .hm h1 h2 m1 m2 => if m1 = 0 ∧ m2 = 0 then .h h1 h2 else .hm h1 h2 m1 m2
  | .hms h1 h2 m1 m2 s1 s2 =>
    if s1 = 0 ∧ s2 = 0 then (if m1 = 0 ∧ m2 = 0 then .h h1 h2 else .hm h1 h2 m1 m2) else .hms h1 h2 m1 m2 s1 s2
  | g => g

def norm : WF → WF
  | .t g => .t (normT g)
  | .dt f g => .dt f (normT g)
  | w => w

/-- the date forms that combine with a time of day or a part of day: `YYYY-MM-DD`, `XXXX-MM-DD`, `XXXX-WXX-d` -/
def Combinable : DateForm → Prop
  | .date .. => True
  | .openyear .. => True
  | .weekday w => w.val ≠ 0
  | _ => False

/-- in-range fields, as far as the formatter depends on them: a year / open month that stands alone is not zero,
a weekday is not zero; a time of day or part of day combines with full dates, open-year dates and weekdays. -/
def InRange : WF → Prop
  | .d (.year y1 y2 y3 y4) => ¬ (y1.val = 0 ∧ y2.val = 0 ∧ y3.val = 0 ∧ y4.val = 0)
  | .d (.month m1 m2) => ¬ (m1.val = 0 ∧ m2.val = 0)
  | .d (.weekday w) => w.val ≠ 0
  | .dt f _ => Combinable f
  | _ => True

section

theorem dv_dch (cfg : Cfg) (hc : CfgOK cfg) (d : Dg) : cfg.dv (dch d) = some d.val := hc.dv.1 d.val d.isLt
theorem isDig_dch (cfg : Cfg) (hc : CfgOK cfg) (d : Dg) : isDig cfg.dv (dch d) = true := by
  simp [isDig, dv_dch cfg hc d]
theorem dch_ne (d : Dg) (c : Nat) (h : c < 48 ∨ 57 < c) : (dch d = c) = False := by
  have := d.isLt
  unfold dch; simp; omega
theorem ne_dch (d : Dg) (c : Nat) (h : c < 48 ∨ 57 < c) : (c = dch d) = False := by
  have := d.isLt
  unfold dch; simp; omega

theorem fixed2_dg (a b : Dg) : fixedFormat (some (.int ((0 * 10 + a.val) * 10 + b.val : Nat))) 2 = [dch a, dch b] := by
  have := a.isLt; have := b.isLt
  have e1 : ((0 * 10 + a.val) * 10 + b.val) / 10 = a.val := by omega
  have e2 : ((0 * 10 + a.val) * 10 + b.val) % 10 = b.val := by omega
  rw [fixed2 _ (by omega), e1, e2]; rfl
theorem fixed4_dg (a b c d : Dg) :
    fixedFormat (some (.int ((((0 * 10 + a.val) * 10 + b.val) * 10 + c.val) * 10 + d.val : Nat))) 4 =
      [dch a, dch b, dch c, dch d] := by
  have := a.isLt; have := b.isLt; have := c.isLt; have := d.isLt
  have e1 : ((((0 * 10 + a.val) * 10 + b.val) * 10 + c.val) * 10 + d.val) / 1000 = a.val := by omega
  have e2 : ((((0 * 10 + a.val) * 10 + b.val) * 10 + c.val) * 10 + d.val) / 100 % 10 = b.val := by omega
  have e3 : ((((0 * 10 + a.val) * 10 + b.val) * 10 + c.val) * 10 + d.val) / 10 % 10 = c.val := by omega
  have e4 : ((((0 * 10 + a.val) * 10 + b.val) * 10 + c.val) * 10 + d.val) % 10 = d.val := by omega
  rw [fixed4 _ (by omega), e1, e2, e3, e4]; rfl
theorem str1_dg (a : Dg) : optStr (some (.int ((0 * 10 + a.val : Nat)))) = [dch a] := by
  have := a.isLt
  have e : 0 * 10 + a.val = a.val := by omega
  simp only [optStr, Num.str]; rw [istr_nat, nstr_lt10 _ (by omega), e]; rfl

/-- evaluation of parse ∘ render and of format on the resulting fields -/
theorem parse_renderD (cfg : Cfg) (hc : CfgOK cfg) (f : DateForm) :
    parse cfg (renderD f) = Timex.assign cfg.dv {} (extract cfg.dv cfg.date (renderD f)) := by
  have h88 := hc.dv.2 88 (by decide)
  cases f <;> (try rename_i s) <;> (try cases s) <;>
    simp [parse, parseInto, extractDateTime, renderD, sPresentRef, indexOf, dch_ne, ne_dch, seasonStr, podStr]

theorem fixed2_dg' (a b : Dg) : fixedFormat (some (.int ((a.val : Int) * 10 + (b.val : Int)))) 2 = [dch a, dch b] := by
  have e : ((a.val : Int) * 10 + (b.val : Int)) = (((0 * 10 + a.val) * 10 + b.val : Nat) : Int) := by omega
  rw [e, fixed2_dg]
theorem fixed4_dg' (a b c d : Dg) :
    fixedFormat (some (.int ((((a.val : Int) * 10 + (b.val : Int)) * 10 + (c.val : Int)) * 10 + (d.val : Int)))) 4 =
      [dch a, dch b, dch c, dch d] := by
  have e : ((((a.val : Int) * 10 + (b.val : Int)) * 10 + (c.val : Int)) * 10 + (d.val : Int)) =
      (((((0 * 10 + a.val) * 10 + b.val) * 10 + c.val) * 10 + d.val : Nat) : Int) := by omega
  rw [e, fixed4_dg]
theorem str1_dg' (a : Dg) : optStr (some (.int (a.val : Int))) = [dch a] := by
  have e : (a.val : Int) = ((0 * 10 + a.val : Nat) : Int) := by omega
  rw [e, str1_dg]

theorem format_parse_D (cfg : Cfg) (hc : CfgOK cfg) (f : DateForm) (hr : InRange (.d f)) :
    formatT (parse cfg (renderD f)) = .ok (renderD f) := by
  have h88 : isDig cfg.dv 88 = false := by simp [isDig, hc.dv.2 88 (by decide)]
  have h45 : isDig cfg.dv 45 = false := by simp [isDig, hc.dv.2 45 (by decide)]
  have h87 : isDig cfg.dv 87 = false := by simp [isDig, hc.dv.2 87 (by decide)]
  have h83 : isDig cfg.dv 83 = false := by simp [isDig, hc.dv.2 83 (by decide)]
  have h70 : isDig cfg.dv 70 = false := by simp [isDig, hc.dv.2 70 (by decide)]
  rw [parse_renderD cfg hc, hc.date]
  cases f
  case season s => cases s <;> simp [extract, stdDate, xxxx, seasons, firstSome, matchItems, renderD, startsWith,
      seasonStr, Timex.assign, h88, h45, h87, h83, h70, formatT, formatFuel, infer, isDate, isDateRange, isDuration,
      isTime, isDefinite, truthyO, truthyS, formatDateRange, bind, Except.bind, pure, Except.pure]
  case yearseason y1 y2 y3 y4 s => cases s <;> simp [extract, stdDate, xxxx, seasons, firstSome, matchItems, renderD,
      isDig_dch cfg hc, startsWith, dch_ne, ne_dch, seasonStr, Timex.assign, parseNatDv, dv_dch cfg hc, h88, h45, h87,
      h83, h70, formatT, formatFuel, infer, isDate, isDateRange, isDuration, isTime, isDefinite, truthyO, truthyS,
      Num.truthy, formatDateRange, bind, Except.bind, pure, Except.pure, fixed4_dg']
  all_goals (try simp only [InRange] at hr)
  all_goals
    simp [extract, stdDate, xxxx, seasons, firstSome, matchItems, renderD, isDig_dch cfg hc, startsWith, dch_ne, ne_dch,
      seasonStr, Timex.assign, parseNatDv, dv_dch cfg hc, h88, h45, h87, h83, h70,
      formatT, formatFuel, infer, isDate, isDateRange, isDuration, isTime, isDefinite, truthyO, truthyS, Num.truthy,
      formatDate, formatDateRange, andChainNotNone, sXXXX, sWXX, bind, Except.bind, pure, Except.pure,
      fixed2_dg', fixed4_dg', str1_dg', hr]
  all_goals omega

theorem parse_renderT (cfg : Cfg) (hc : CfgOK cfg) (g : TimeForm) :
    parse cfg (renderT g) = Timex.assign cfg.dv {} (dictMerge (extract cfg.dv cfg.date []) (extract cfg.dv cfg.time (renderT g))) := by
  cases g <;> (try rename_i p; cases p) <;>
    simp [parse, parseInto, extractDateTime, renderT, sPresentRef, indexOf, dch_ne, ne_dch, podStr]

theorem extract_date_nil (cfg : Cfg) (hc : CfgOK cfg) : extract cfg.dv cfg.date [] = [] := by
  rw [hc.date]
  simp [extract, stdDate, xxxx, seasons, firstSome, matchItems, startsWith]

theorem format_parse_T (cfg : Cfg) (hc : CfgOK cfg) (g : TimeForm) :
    formatT (parse cfg (renderT g)) = .ok (renderT (normT g)) := by
  have h58 : isDig cfg.dv 58 = false := by simp [isDig, hc.dv.2 58 (by decide)]
  rw [parse_renderT cfg hc, extract_date_nil cfg hc, hc.time]
  cases g
  case pod p => cases p <;> simp [extract, stdTime, partsOfDay, firstSome, matchItems, renderT, startsWith, podStr,
      dictMerge, dictSet, Timex.assign, formatT, formatFuel, infer, isDate, isDateRange, isDuration, isTime,
      isDefinite, truthyO, truthyS, formatTimeRange, normT, bind, Except.bind, pure, Except.pure, isDig, hc.dv.2]
  case h h1 h2 =>
    simp [extract, stdTime, firstSome, matchItems, renderT, isDig_dch cfg hc, dictMerge, dictSet, Timex.assign,
      parseNatDv, dv_dch cfg hc, Timex.setHour, formatT, formatFuel, infer, isDate, isDateRange, isDuration, isTime,
      isDefinite, truthyO, truthyS, formatTime, eq0, Num.eqInt, Num.scaled, pow10, Timex.hour, Timex.minute,
      Timex.second, normT, bind, Except.bind, pure, Except.pure, fixed2_dg']
  case hm h1 h2 m1 m2 =>
    by_cases hz : m1.val = 0 ∧ m2.val = 0
    · have e1 : m1 = 0 := Fin.ext hz.1
      have e2 : m2 = 0 := Fin.ext hz.2
      subst e1 e2
      simp [extract, stdTime, firstSome, matchItems, renderT, isDig_dch cfg hc, dictMerge, dictSet, Timex.assign,
        parseNatDv, dv_dch cfg hc, Timex.setHour, Timex.setMinute, formatT, formatFuel, infer, isDate, isDateRange,
        isDuration, isTime, isDefinite, truthyO, truthyS, formatTime, eq0, Num.eqInt, Num.scaled, pow10, Timex.hour,
        Timex.minute, Timex.second, normT, bind, Except.bind, pure, Except.pure, fixed2_dg', h58, dch_ne, ne_dch]
    · have hz' : ¬ (m1 = 0 ∧ m2 = 0) := fun h => hz ⟨by simp [h.1], by simp [h.2]⟩
      have hne : ¬ ((m1.val : Int) * 10 + (m2.val : Int) = 0) := by omega
      simp [extract, stdTime, firstSome, matchItems, renderT, isDig_dch cfg hc, dictMerge, dictSet, Timex.assign,
        parseNatDv, dv_dch cfg hc, Timex.setHour, Timex.setMinute, formatT, formatFuel, infer, isDate, isDateRange,
        isDuration, isTime, isDefinite, truthyO, truthyS, formatTime, eq0, Num.eqInt, Num.scaled, pow10, Timex.hour,
        Timex.minute, Timex.second, normT, bind, Except.bind, pure, Except.pure, fixed2_dg', h58, dch_ne, ne_dch,
        hz', hne]
  case hms h1 h2 m1 m2 s1 s2 =>
    by_cases hs : s1.val = 0 ∧ s2.val = 0
    · have e1 : s1 = 0 := Fin.ext hs.1
      have e2 : s2 = 0 := Fin.ext hs.2
      subst e1 e2
      by_cases hz : m1.val = 0 ∧ m2.val = 0
      · have e1 : m1 = 0 := Fin.ext hz.1
        have e2 : m2 = 0 := Fin.ext hz.2
        subst e1 e2
        simp [extract, stdTime, firstSome, matchItems, renderT, isDig_dch cfg hc, dictMerge, dictSet, Timex.assign,
        parseNatDv, dv_dch cfg hc, Timex.setHour, Timex.setMinute, Timex.setSecond, formatT, formatFuel, infer, isDate,
        isDateRange, isDuration, isTime, isDefinite, truthyO, truthyS, formatTime, eq0, Num.eqInt, Num.scaled, pow10,
        Timex.hour, Timex.minute, Timex.second, normT, bind, Except.bind, pure, Except.pure, fixed2_dg', h58, dch_ne,
        ne_dch]
      · have hz' : ¬ (m1 = 0 ∧ m2 = 0) := fun h => hz ⟨by simp [h.1], by simp [h.2]⟩
        have hne : ¬ ((m1.val : Int) * 10 + (m2.val : Int) = 0) := by omega
        simp [extract, stdTime, firstSome, matchItems, renderT, isDig_dch cfg hc, dictMerge, dictSet, Timex.assign,
        parseNatDv, dv_dch cfg hc, Timex.setHour, Timex.setMinute, Timex.setSecond, formatT, formatFuel, infer, isDate,
        isDateRange, isDuration, isTime, isDefinite, truthyO, truthyS, formatTime, eq0, Num.eqInt, Num.scaled, pow10,
        Timex.hour, Timex.minute, Timex.second, normT, bind, Except.bind, pure, Except.pure, fixed2_dg', h58, dch_ne,
        ne_dch, hz', hne]
    · have hs' : ¬ (s1 = 0 ∧ s2 = 0) := fun h => hs ⟨by simp [h.1], by simp [h.2]⟩
      have hne : ¬ ((s1.val : Int) * 10 + (s2.val : Int) = 0) := by omega
      simp [extract, stdTime, firstSome, matchItems, renderT, isDig_dch cfg hc, dictMerge, dictSet, Timex.assign,
        parseNatDv, dv_dch cfg hc, Timex.setHour, Timex.setMinute, Timex.setSecond, formatT, formatFuel, infer, isDate,
        isDateRange, isDuration, isTime, isDefinite, truthyO, truthyS, formatTime, eq0, Num.eqInt, Num.scaled, pow10,
        Timex.hour, Timex.minute, Timex.second, normT, bind, Except.bind, pure, Except.pure, fixed2_dg', h58, dch_ne,
        ne_dch, hs', hne]

/-- a time and its canonical form have the same field values (`T05:00` ≡ `T05`: `hour = 5` makes
`minute = second = 0`) -/
theorem parse_normT (cfg : Cfg) (hc : CfgOK cfg) (g : TimeForm) :
    parse cfg (renderT (normT g)) = parse cfg (renderT g) := by
  have h58 : isDig cfg.dv 58 = false := by simp [isDig, hc.dv.2 58 (by decide)]
  rw [parse_renderT cfg hc, parse_renderT cfg hc, extract_date_nil cfg hc, hc.time]
  cases g
  case pod p => rfl
  case h h1 h2 => rfl
  case hm h1 h2 m1 m2 =>
    by_cases hz : m1.val = 0 ∧ m2.val = 0
    · have e1 : m1 = 0 := Fin.ext hz.1
      have e2 : m2 = 0 := Fin.ext hz.2
      subst e1 e2
      simp [extract, stdTime, firstSome, matchItems, renderT, isDig_dch cfg hc, dictMerge, dictSet, Timex.assign,
        parseNatDv, dv_dch cfg hc, Timex.setHour, Timex.setMinute, Timex.setSecond, normT, h58, dch_ne, ne_dch]
    · have hz' : ¬ (m1 = 0 ∧ m2 = 0) := fun h => hz ⟨by simp [h.1], by simp [h.2]⟩
      simp [normT, hz']
  case hms h1 h2 m1 m2 s1 s2 =>
    by_cases hs : s1.val = 0 ∧ s2.val = 0
    · have e1 : s1 = 0 := Fin.ext hs.1
      have e2 : s2 = 0 := Fin.ext hs.2
      subst e1 e2
      by_cases hz : m1.val = 0 ∧ m2.val = 0
      · have e1 : m1 = 0 := Fin.ext hz.1
        have e2 : m2 = 0 := Fin.ext hz.2
        subst e1 e2
        simp [extract, stdTime, firstSome, matchItems, renderT, isDig_dch cfg hc, dictMerge, dictSet, Timex.assign,
        parseNatDv, dv_dch cfg hc, Timex.setHour, Timex.setMinute, Timex.setSecond, normT, h58, dch_ne, ne_dch]
      · have hz' : ¬ (m1 = 0 ∧ m2 = 0) := fun h => hz ⟨by simp [h.1], by simp [h.2]⟩
        simp [extract, stdTime, firstSome, matchItems, renderT, isDig_dch cfg hc, dictMerge, dictSet, Timex.assign,
        parseNatDv, dv_dch cfg hc, Timex.setHour, Timex.setMinute, Timex.setSecond, normT, h58, dch_ne, ne_dch, hz']
    · have hs' : ¬ (s1 = 0 ∧ s2 = 0) := fun h => hs ⟨by simp [h.1], by simp [h.2]⟩
      simp [normT, hs']

theorem normT_idem (g : TimeForm) : normT (normT g) = normT g := by
  cases g <;> simp [normT] <;> (repeat' split) <;> simp_all [normT]

end

/-! ## date + time combinations -/

theorem parse_renderDT (cfg : Cfg) (hc : CfgOK cfg) (f : DateForm) (g : TimeForm) (hf : Combinable f) :
    parse cfg (renderD f ++ renderT g) =
      Timex.assign cfg.dv {} (dictMerge (extract cfg.dv cfg.date (renderD f)) (extract cfg.dv cfg.time (renderT g))) := by
  cases f <;> simp only [Combinable] at hf <;> cases g <;> (try rename_i p; cases p) <;>
    simp [parse, parseInto, extractDateTime, renderD, renderT, sPresentRef, indexOf, dch_ne, ne_dch, podStr]

theorem format_parse_DT (cfg : Cfg) (hc : CfgOK cfg) (f : DateForm) (g : TimeForm) (hf : Combinable f) :
    formatT (parse cfg (renderD f ++ renderT g)) = .ok (renderD f ++ renderT (normT g)) := by
  have h88 : isDig cfg.dv 88 = false := by simp [isDig, hc.dv.2 88 (by decide)]
  have h45 : isDig cfg.dv 45 = false := by simp [isDig, hc.dv.2 45 (by decide)]
  have h87 : isDig cfg.dv 87 = false := by simp [isDig, hc.dv.2 87 (by decide)]
  have h58 : isDig cfg.dv 58 = false := by simp [isDig, hc.dv.2 58 (by decide)]
  rw [parse_renderDT cfg hc f g hf, hc.date, hc.time]
  cases g
  case pod p =>
    cases f <;> simp only [Combinable] at hf <;> cases p <;>
      (try (have hw : ¬ ((‹Dg›.val : Int) = 0) := by omega)) <;>
      simp [extract, stdDate, stdTime, xxxx, seasons, partsOfDay, firstSome, matchItems, renderD, renderT,
      isDig_dch cfg hc, startsWith, dch_ne, ne_dch, podStr, dictMerge, dictSet, Timex.assign, parseNatDv, dv_dch cfg hc,
      h88, h45, h87, h58, Timex.setHour, Timex.setMinute, Timex.setSecond, formatT, formatFuel, infer, isDate,
      isDateRange, isDuration, isTime, isDefinite, truthyO, truthyS, Num.truthy, formatDate, formatTime,
      formatTimeRange, andChainNotNone, eq0, Num.eqInt, Num.scaled, pow10, Timex.hour, Timex.minute, Timex.second,
      sXXXX, sWXX, normT, bind, Except.bind, pure, Except.pure, fixed2_dg', fixed4_dg', str1_dg', isDig, hc.dv.2, hf]
  case h h1 h2 =>
    cases f <;> simp only [Combinable] at hf <;>
      simp [extract, stdDate, stdTime, xxxx, seasons, partsOfDay, firstSome, matchItems, renderD, renderT,
      isDig_dch cfg hc, startsWith, dch_ne, ne_dch, podStr, dictMerge, dictSet, Timex.assign, parseNatDv, dv_dch cfg hc,
      h88, h45, h87, h58, Timex.setHour, Timex.setMinute, Timex.setSecond, formatT, formatFuel, infer, isDate,
      isDateRange, isDuration, isTime, isDefinite, truthyO, truthyS, Num.truthy, formatDate, formatTime,
      formatTimeRange, andChainNotNone, eq0, Num.eqInt, Num.scaled, pow10, Timex.hour, Timex.minute, Timex.second,
      sXXXX, sWXX, normT, bind, Except.bind, pure, Except.pure, fixed2_dg', fixed4_dg', str1_dg', isDig, hc.dv.2, hf]
  case hm h1 h2 m1 m2 =>
    by_cases hz : m1.val = 0 ∧ m2.val = 0
    · have e1 : m1 = 0 := Fin.ext hz.1
      have e2 : m2 = 0 := Fin.ext hz.2
      subst e1 e2
      cases f <;> simp only [Combinable] at hf <;>
        simp [extract, stdDate, stdTime, xxxx, seasons, partsOfDay, firstSome, matchItems, renderD, renderT,
      isDig_dch cfg hc, startsWith, dch_ne, ne_dch, podStr, dictMerge, dictSet, Timex.assign, parseNatDv, dv_dch cfg hc,
      h88, h45, h87, h58, Timex.setHour, Timex.setMinute, Timex.setSecond, formatT, formatFuel, infer, isDate,
      isDateRange, isDuration, isTime, isDefinite, truthyO, truthyS, Num.truthy, formatDate, formatTime,
      formatTimeRange, andChainNotNone, eq0, Num.eqInt, Num.scaled, pow10, Timex.hour, Timex.minute, Timex.second,
      sXXXX, sWXX, normT, bind, Except.bind, pure, Except.pure, fixed2_dg', fixed4_dg', str1_dg', isDig, hc.dv.2, hf]
    · have hz' : ¬ (m1 = 0 ∧ m2 = 0) := fun h => hz ⟨by simp [h.1], by simp [h.2]⟩
      have hne : ¬ ((m1.val : Int) * 10 + (m2.val : Int) = 0) := by omega
      cases f <;> simp only [Combinable] at hf <;>
        simp [extract, stdDate, stdTime, xxxx, seasons, partsOfDay, firstSome, matchItems, renderD, renderT,
      isDig_dch cfg hc, startsWith, dch_ne, ne_dch, podStr, dictMerge, dictSet, Timex.assign, parseNatDv, dv_dch cfg hc,
      h88, h45, h87, h58, Timex.setHour, Timex.setMinute, Timex.setSecond, formatT, formatFuel, infer, isDate,
      isDateRange, isDuration, isTime, isDefinite, truthyO, truthyS, Num.truthy, formatDate, formatTime,
      formatTimeRange, andChainNotNone, eq0, Num.eqInt, Num.scaled, pow10, Timex.hour, Timex.minute, Timex.second,
      sXXXX, sWXX, normT, bind, Except.bind, pure, Except.pure, fixed2_dg', fixed4_dg', str1_dg', isDig, hc.dv.2, hf, hz', hne]
  case hms h1 h2 m1 m2 s1 s2 =>
    by_cases hs : s1.val = 0 ∧ s2.val = 0
    · have e1 : s1 = 0 := Fin.ext hs.1
      have e2 : s2 = 0 := Fin.ext hs.2
      subst e1 e2
      by_cases hz : m1.val = 0 ∧ m2.val = 0
      · have e1 : m1 = 0 := Fin.ext hz.1
        have e2 : m2 = 0 := Fin.ext hz.2
        subst e1 e2
        cases f <;> simp only [Combinable] at hf <;>
          simp [extract, stdDate, stdTime, xxxx, seasons, partsOfDay, firstSome, matchItems, renderD, renderT,
      isDig_dch cfg hc, startsWith, dch_ne, ne_dch, podStr, dictMerge, dictSet, Timex.assign, parseNatDv, dv_dch cfg hc,
      h88, h45, h87, h58, Timex.setHour, Timex.setMinute, Timex.setSecond, formatT, formatFuel, infer, isDate,
      isDateRange, isDuration, isTime, isDefinite, truthyO, truthyS, Num.truthy, formatDate, formatTime,
      formatTimeRange, andChainNotNone, eq0, Num.eqInt, Num.scaled, pow10, Timex.hour, Timex.minute, Timex.second,
      sXXXX, sWXX, normT, bind, Except.bind, pure, Except.pure, fixed2_dg', fixed4_dg', str1_dg', isDig, hc.dv.2, hf]
      · have hz' : ¬ (m1 = 0 ∧ m2 = 0) := fun h => hz ⟨by simp [h.1], by simp [h.2]⟩
        have hne : ¬ ((m1.val : Int) * 10 + (m2.val : Int) = 0) := by omega
        cases f <;> simp only [Combinable] at hf <;>
          simp [extract, stdDate, stdTime, xxxx, seasons, partsOfDay, firstSome, matchItems, renderD, renderT,
      isDig_dch cfg hc, startsWith, dch_ne, ne_dch, podStr, dictMerge, dictSet, Timex.assign, parseNatDv, dv_dch cfg hc,
      h88, h45, h87, h58, Timex.setHour, Timex.setMinute, Timex.setSecond, formatT, formatFuel, infer, isDate,
      isDateRange, isDuration, isTime, isDefinite, truthyO, truthyS, Num.truthy, formatDate, formatTime,
      formatTimeRange, andChainNotNone, eq0, Num.eqInt, Num.scaled, pow10, Timex.hour, Timex.minute, Timex.second,
      sXXXX, sWXX, normT, bind, Except.bind, pure, Except.pure, fixed2_dg', fixed4_dg', str1_dg', isDig, hc.dv.2, hf, hz', hne]
    · have hs' : ¬ (s1 = 0 ∧ s2 = 0) := fun h => hs ⟨by simp [h.1], by simp [h.2]⟩
      have hne : ¬ ((s1.val : Int) * 10 + (s2.val : Int) = 0) := by omega
      cases f <;> simp only [Combinable] at hf <;>
        simp [extract, stdDate, stdTime, xxxx, seasons, partsOfDay, firstSome, matchItems, renderD, renderT,
      isDig_dch cfg hc, startsWith, dch_ne, ne_dch, podStr, dictMerge, dictSet, Timex.assign, parseNatDv, dv_dch cfg hc,
      h88, h45, h87, h58, Timex.setHour, Timex.setMinute, Timex.setSecond, formatT, formatFuel, infer, isDate,
      isDateRange, isDuration, isTime, isDefinite, truthyO, truthyS, Num.truthy, formatDate, formatTime,
      formatTimeRange, andChainNotNone, eq0, Num.eqInt, Num.scaled, pow10, Timex.hour, Timex.minute, Timex.second,
      sXXXX, sWXX, normT, bind, Except.bind, pure, Except.pure, fixed2_dg', fixed4_dg', str1_dg', isDig, hc.dv.2, hf, hs', hne]

/-- a date + time and its canonical form have the same field values -/
theorem parse_norm_DT (cfg : Cfg) (hc : CfgOK cfg) (f : DateForm) (g : TimeForm) (hf : Combinable f) :
    parse cfg (renderD f ++ renderT (normT g)) = parse cfg (renderD f ++ renderT g) := by
  have h88 : isDig cfg.dv 88 = false := by simp [isDig, hc.dv.2 88 (by decide)]
  have h45 : isDig cfg.dv 45 = false := by simp [isDig, hc.dv.2 45 (by decide)]
  have h87 : isDig cfg.dv 87 = false := by simp [isDig, hc.dv.2 87 (by decide)]
  have h58 : isDig cfg.dv 58 = false := by simp [isDig, hc.dv.2 58 (by decide)]
  rw [parse_renderDT cfg hc f _ hf, parse_renderDT cfg hc f g hf, hc.date, hc.time]
  cases g
  case pod p => rfl
  case h h1 h2 => rfl
  case hm h1 h2 m1 m2 =>
    by_cases hz : m1.val = 0 ∧ m2.val = 0
    · have e1 : m1 = 0 := Fin.ext hz.1
      have e2 : m2 = 0 := Fin.ext hz.2
      subst e1 e2
      cases f <;> simp only [Combinable] at hf <;>
        simp [extract, stdDate, stdTime, xxxx, firstSome, matchItems, renderD, renderT, isDig_dch cfg hc, startsWith, dch_ne,
        ne_dch, dictMerge, dictSet, Timex.assign, parseNatDv, dv_dch cfg hc, h88, h45, h87, h58, Timex.setHour,
        Timex.setMinute, Timex.setSecond, normT, isDig, hc.dv.2]
    · have hz' : ¬ (m1 = 0 ∧ m2 = 0) := fun h => hz ⟨by simp [h.1], by simp [h.2]⟩
      simp [normT, hz']
  case hms h1 h2 m1 m2 s1 s2 =>
    by_cases hs : s1.val = 0 ∧ s2.val = 0
    · have e1 : s1 = 0 := Fin.ext hs.1
      have e2 : s2 = 0 := Fin.ext hs.2
      subst e1 e2
      by_cases hz : m1.val = 0 ∧ m2.val = 0
      · have e1 : m1 = 0 := Fin.ext hz.1
        have e2 : m2 = 0 := Fin.ext hz.2
        subst e1 e2
        cases f <;> simp only [Combinable] at hf <;>
          simp [extract, stdDate, stdTime, xxxx, firstSome, matchItems, renderD, renderT, isDig_dch cfg hc, startsWith, dch_ne,
        ne_dch, dictMerge, dictSet, Timex.assign, parseNatDv, dv_dch cfg hc, h88, h45, h87, h58, Timex.setHour,
        Timex.setMinute, Timex.setSecond, normT, isDig, hc.dv.2]
      · have hz' : ¬ (m1 = 0 ∧ m2 = 0) := fun h => hz ⟨by simp [h.1], by simp [h.2]⟩
        cases f <;> simp only [Combinable] at hf <;>
          simp [extract, stdDate, stdTime, xxxx, firstSome, matchItems, renderD, renderT, isDig_dch cfg hc, startsWith, dch_ne,
        ne_dch, dictMerge, dictSet, Timex.assign, parseNatDv, dv_dch cfg hc, h88, h45, h87, h58, Timex.setHour,
        Timex.setMinute, Timex.setSecond, normT, isDig, hc.dv.2, hz']
    · have hs' : ¬ (s1 = 0 ∧ s2 = 0) := fun h => hs ⟨by simp [h.1], by simp [h.2]⟩
      simp [normT, hs']

/-! ## the property theorems -/

theorem format_parse (cfg : Cfg) (hc : CfgOK cfg) (w : WF) (hr : InRange w) :
    formatT (parse cfg (render w)) = .ok (render (norm w)) := by
  cases w with
  | d f => exact format_parse_D cfg hc f hr
  | t g => exact format_parse_T cfg hc g
  | dt f g => exact format_parse_DT cfg hc f g hr
  | present => simp [render, norm, parse, parseInto, formatT, formatFuel, infer, bind, Except.bind, pure, Except.pure]

theorem parse_norm (cfg : Cfg) (hc : CfgOK cfg) (w : WF) (hr : InRange w) :
    parse cfg (render (norm w)) = parse cfg (render w) := by
  cases w with
  | d f => rfl
  | t g => exact parse_normT cfg hc g
  | dt f g => exact parse_norm_DT cfg hc f g hr
  | present => rfl

theorem inRange_norm (w : WF) (hr : InRange w) : InRange (norm w) := by
  cases w with
  | d f => exact hr
  | t g => simp [norm, InRange]
  | dt f g => exact hr
  | present => exact hr

theorem norm_idem (w : WF) : norm (norm w) = norm w := by
  cases w <;> simp [norm, normT_idem]

/-- C14 **parse_format_fields** — for every well-formed in-range TIMEX `s = render w`, `Timex(s).timex_value()` is
a string whose `Timex(…)` has the same field values as `Timex(s)`. -/
theorem parse_format_fields (cfg : Cfg) (hc : CfgOK cfg) (w : WF) (hr : InRange w) :
    ∃ v, formatT (parse cfg (render w)) = .ok v ∧ parse cfg v = parse cfg (render w) :=
  ⟨render (norm w), format_parse cfg hc w hr, parse_norm cfg hc w hr⟩

/-- C14 **format_idempotent** — formatting the re-parsed output gives the same string again. -/
theorem format_idempotent (cfg : Cfg) (hc : CfgOK cfg) (w : WF) (hr : InRange w) :
    ∃ v, formatT (parse cfg (render w)) = .ok v ∧ formatT (parse cfg v) = .ok v := by
  refine ⟨render (norm w), format_parse cfg hc w hr, ?_⟩
  have := format_parse cfg hc (norm w) (inRange_norm w hr)
  rwa [norm_idem] at this

/-- canonical strings: the image of `format` on the grammar -/
def Canonical (s : Str) : Prop := ∃ w, InRange w ∧ s = render (norm w)

/-- C14 **canonical_fixed** — a string already in canonical form comes back identical. -/
theorem canonical_fixed (cfg : Cfg) (hc : CfgOK cfg) (s : Str) (h : Canonical s) :
    formatT (parse cfg s) = .ok s := by
  obtain ⟨w, hr, rfl⟩ := h
  have := format_parse cfg hc (norm w) (inRange_norm w hr)
  rwa [norm_idem] at this

/-- the three theorems for the configuration regenerated from the working tree -/
theorem tree_roundtrip (w : WF) (hr : InRange w) :
    (∃ v, formatT (parse genCfg (render w)) = .ok v ∧ parse genCfg v = parse genCfg (render w) ∧
      formatT (parse genCfg v) = .ok v) := by
  obtain ⟨v, h1, h2⟩ := parse_format_fields genCfg genCfg_ok w hr
  obtain ⟨v', h1', h3⟩ := format_idempotent genCfg genCfg_ok w hr
  rw [h1] at h1'; cases h1'
  exact ⟨v, h1, h2, h3⟩

/-- hypotheses are satisfiable: `2020-02-29`, `XXXX-WXX-3`, `T05:30:00` (canonical form `T05:30`),
`2020-02-29T05:30:00` (canonical form `2020-02-29T05:30`) -/
example : InRange (.d (.date 2 0 2 0 0 2 2 9)) ∧ InRange (.d (.weekday 3)) ∧ InRange (.t (.hms 0 5 3 0 0 0)) ∧
    render (norm (.t (.hms 0 5 3 0 0 0))) = [84, 48, 53, 58, 51, 48] ∧
    InRange (.dt (.date 2 0 2 0 0 2 2 9) (.hms 0 5 3 0 0 0)) ∧
    render (norm (.dt (.date 2 0 2 0 0 2 2 9) (.hms 0 5 3 0 0 0))) =
      [50, 48, 50, 48, 45, 48, 50, 45, 50, 57, 84, 48, 53, 58, 51, 48] := by
  refine ⟨by simp [InRange], by simp [InRange], by simp [InRange], by decide, by simp [InRange, Combinable], by decide⟩

/-! ## durations with integer amounts -/

inductive DUnit | Y | Mo | W | D | H | Mi | S
def DUnit.isTime : DUnit → Bool
  | .H | .Mi | .S => true
  | _ => false
def DUnit.ch : DUnit → Nat
  | .Y => 89 | .Mo => 77 | .W => 87 | .D => 68 | .H => 72 | .Mi => 77 | .S => 83

/-- `P<digits><unit>` / `PT<digits><unit>` -/
def renderDur (u : DUnit) (digs : Str) : Str := 80 :: ((if u.isTime then [84] else []) ++ digs ++ [u.ch])

/-- the duration field a unit sets -/
def durFields (u : DUnit) (x : Num) : Timex := match u with
  | .Y => { years := some x } | .Mo => { months := some x } | .W => { weeks := some x } | .D => { days := some x }
  | .H => { hours := some x } | .Mi => { minutes := some x } | .S => { seconds := some x }

/-- parsing `P[T]<amount><unit>` for an amount string `a` that the amount group captures whole (`hm`) and whose first
character is neither `R` nor `T`: exactly the unit's field is set, to `Decimal(a)` -/
theorem parse_dur_gen (cfg : Cfg) (hc : CfgOK cfg) (u : DUnit) (d0 : Nat) (dt : Str) (x : Num)
    (n82 : ¬ (d0 = 82)) (n84 : ¬ (d0 = 84))
    (hm : ∀ c, cfg.dv c = none → c ≠ 46 → matchAmount cfg.dv (d0 :: (dt ++ [c])) = some (d0 :: dt, [c]))
    (hpd : parseDecimal cfg.dv (d0 :: dt) = x) :
    parse cfg (renderDur u (d0 :: dt)) = durFields u x := by
  have hT : matchAmount cfg.dv (84 :: d0 :: (dt ++ [72])) = none ∧ matchAmount cfg.dv (84 :: d0 :: (dt ++ [77])) = none ∧
      matchAmount cfg.dv (84 :: d0 :: (dt ++ [83])) = none := by
    refine ⟨?_, ?_, ?_⟩ <;> simp [matchAmount, takeDigits, isDig, hc.dv.2 84 (by decide)]
  have e89 := hm 89 (hc.dv.2 89 (by decide)) (by decide)
  have e77 := hm 77 (hc.dv.2 77 (by decide)) (by decide)
  have e87 := hm 87 (hc.dv.2 87 (by decide)) (by decide)
  have e68 := hm 68 (hc.dv.2 68 (by decide)) (by decide)
  have e72 := hm 72 (hc.dv.2 72 (by decide)) (by decide)
  have e83 := hm 83 (hc.dv.2 83 (by decide)) (by decide)
  cases u <;>
    simp [renderDur, DUnit.isTime, DUnit.ch, parse, parseInto, sPresentRef, extractDuration, extract, hc.period, stdPeriod,
      firstSome, matchItems, startsWith, Timex.assign, Timex.assignDuration, dictGet, durFields, hpd, n82, n84,
      e89, e77, e87, e68, e72, e83, hT, sY, sM, sW, sD, sH, sS]

/-- parsing a duration with an integer amount (any non-empty ASCII digit string, leading zeros allowed) sets exactly
the unit's field to `Decimal(amount)` -/
theorem parse_dur (cfg : Cfg) (hc : CfgOK cfg) (u : DUnit) (digs : Str) (hd : AsciiDigs digs) (hne : digs ≠ []) :
    parse cfg (renderDur u digs) = durFields u (.dec false (parseNatDv cfg.dv digs) 0) := by
  obtain ⟨d0, dt, rfl⟩ : ∃ d0 dt, digs = d0 :: dt := by
    cases digs with
    | nil => exact absurd rfl hne
    | cons a r => exact ⟨a, r, rfl⟩
  have h0 := hd d0 (by simp)
  refine parse_dur_gen cfg hc u d0 dt _ (by omega) (by omega) ?_ (parseDecimal_int hc.dv (d0 :: dt) hd)
  intro c h1 h2
  have := matchAmount_int hc.dv (d0 :: dt) c [] hd (by simp) h1 h2
  simpa using this

/-- parsing a duration with a fractional amount `ip.fp` (`ip` possibly empty, `fp` non-empty, ASCII digits):
the unit's field is `Decimal` with coefficient `int(ip ++ fp)` and exponent `-len(fp)` -/
theorem parse_dur_frac (cfg : Cfg) (hc : CfgOK cfg) (u : DUnit) (ip fp : Str) (hip : AsciiDigs ip) (hfp : AsciiDigs fp)
    (hne : fp ≠ []) :
    parse cfg (renderDur u (ip ++ 46 :: fp)) =
      durFields u (.dec false (parseNatDv cfg.dv (ip ++ fp)) (-(fp.length : Int))) := by
  have hpd := parseDecimal_frac hc.dv ip fp hip
  have hm : ∀ c, cfg.dv c = none → matchAmount cfg.dv (ip ++ 46 :: fp ++ [c]) = some (ip ++ 46 :: fp, [c]) :=
    fun c h1 => matchAmount_frac hc.dv ip fp c [] hip hfp hne h1
  cases ip with
  | nil =>
    refine parse_dur_gen cfg hc u 46 fp _ (by decide) (by decide) ?_ (by simpa using hpd)
    intro c h1 _
    simpa using hm c h1
  | cons d0 dt =>
    have h0 := hip d0 (by simp)
    refine parse_dur_gen cfg hc u d0 (dt ++ 46 :: fp) _ (by omega) (by omega) ?_ (by simpa using hpd)
    intro c h1 _
    simpa using hm c h1

/-- a duration field with an integral `Decimal` prints as `P[T]<n><unit>` with the plain digits of `n` -/
theorem format_dur (u : DUnit) (n : Nat) : formatT (durFields u (.dec false n 0)) = .ok (renderDur u (nstr n)) := by
  cases u <;>
    simp [durFields, renderDur, DUnit.isTime, DUnit.ch, formatT, formatFuel, infer, isDate, isDateRange, isDuration, isTime,
      isDefinite, truthyO, truthyS, formatDuration, optStr, Num.str, decStr_int, bind, Except.bind, pure, Except.pure]

/-- C14 **duration_int_roundtrip** — for all seven units and every integer amount written with any non-empty
ASCII digit string `digs` (leading zeros allowed, zero included since fix b6d61daf1): `Timex(s).timex_value()` is the
same duration with the amount in plain digits without leading zeros; that string parses to the same field values
(`parse_format_fields`) and formats to itself (`format_idempotent`, `canonical_fixed`). -/
theorem duration_int_roundtrip (cfg : Cfg) (hc : CfgOK cfg) (u : DUnit) (digs : Str) (hd : AsciiDigs digs)
    (hne : digs ≠ []) :
    let v := renderDur u (nstr (parseNatDv cfg.dv digs))
    formatT (parse cfg (renderDur u digs)) = .ok v ∧ parse cfg v = parse cfg (renderDur u digs) ∧
      formatT (parse cfg v) = .ok v := by
  have h1 := parse_dur cfg hc u digs hd hne
  have h2 := parse_dur cfg hc u (nstr (parseNatDv cfg.dv digs)) (nstr_ascii _) (nstr_ne_nil _)
  rw [parseNatDv_nstr hc.dv] at h2
  refine ⟨?_, ?_, ?_⟩
  · rw [h1, format_dur]
  · rw [h1, h2]
  · rw [h2, format_dur]

example : AsciiDigs [48, 48, 49, 48] ∧ renderDur .D [48, 48, 49, 48] = [80, 48, 48, 49, 48, 68] ∧
    renderDur .Mi (nstr 90) = [80, 84, 57, 48, 77] := by
  refine ⟨by intro c hc; simp at hc; omega, by decide, by decide⟩

/-- a duration field holding any non-negative `Decimal` prints as `P[T]<str(Decimal)><unit>` -/
theorem format_dur_dec (u : DUnit) (c : Nat) (e : Int) :
    formatT (durFields u (.dec false c e)) = .ok (renderDur u (decStr false c e)) := by
  cases u <;>
    simp [durFields, renderDur, DUnit.isTime, DUnit.ch, formatT, formatFuel, infer, isDate, isDateRange, isDuration, isTime,
      isDefinite, truthyO, truthyS, formatDuration, optStr, Num.str, bind, Except.bind, pure, Except.pure]

/-- C14 **duration_frac_roundtrip** — for all seven units and every fractional amount `ip.fp` (ASCII digits, `ip`
possibly empty as in `P.5D`, `fp` non-empty) under the **exact guard** `len(fp) < len(str(int(ip ++ fp))) + 6` — the
condition under which `str(Decimal)` stays in plain notation — `Timex(s).timex_value()` is a duration string `v`
that parses to the same field values and formats to itself.  (`P0.5D`, `P1.50D`, `P.5D ↦ P0.5D`, `P0.000001D`; when
the guard fails, e.g. `P0.0000001D`, the text is `P1E-7D`: `tiny_amount_not_stable`.) -/
theorem duration_frac_roundtrip (cfg : Cfg) (hc : CfgOK cfg) (u : DUnit) (ip fp : Str) (hip : AsciiDigs ip)
    (hfp : AsciiDigs fp) (hne : fp ≠ [])
    (guard : fp.length < (nstr (parseNatDv cfg.dv (ip ++ fp))).length + 6) :
    ∃ v, formatT (parse cfg (renderDur u (ip ++ 46 :: fp))) = .ok v ∧
      parse cfg v = parse cfg (renderDur u (ip ++ 46 :: fp)) ∧ formatT (parse cfg v) = .ok v := by
  have hk : 1 ≤ fp.length := List.length_pos_iff.mpr hne
  have h1 := parse_dur_frac cfg hc u ip fp hip hfp hne
  obtain ⟨ip', fp', hs, hip', hfp', hne', hlen, hval⟩ :=
    decStr_frac_shape (parseNatDv cfg.dv (ip ++ fp)) fp.length hk guard
  have hne'' : fp' ≠ [] := by intro h; rw [h] at hlen; simp at hlen; omega
  have h2 := parse_dur_frac cfg hc u ip' fp' hip' hfp' hne''
  rw [hval cfg.dv hc.dv, hlen, ← hs] at h2
  refine ⟨renderDur u (decStr false (parseNatDv cfg.dv (ip ++ fp)) (-(fp.length : Int))), ?_, ?_, ?_⟩
  · rw [h1, format_dur_dec]
  · rw [h1, h2]
  · rw [h2, format_dur_dec]

example : (nstr 5).length = 1 ∧ (nstr 150).length = 3 ∧ decStr false 5 (-1) = [48, 46, 53] ∧
    decStr false 1 (-6) = [48, 46, 48, 48, 48, 48, 48, 49] ∧ decStr false 1 (-7) = [49, 69, 45, 55] := by decide

/-! ## durations and the recorded / repaired defects -/

/-- integral amounts print as plain digits for every unit field (here days and hours): `Timex(days=Decimal(n))`
formats to `PnD` -/
theorem duration_int_format (n : Nat) :
    formatT { days := some (.dec false n 0) } = .ok (80 :: nstr n ++ [68]) ∧
    formatT { hours := some (.dec false n 0) } = .ok (80 :: 84 :: nstr n ++ [72]) := by
  constructor <;>
    simp [formatT, formatFuel, infer, isDate, isDateRange, isDuration, isTime, isDefinite, truthyO, truthyS,
      formatDuration, optStr, Num.str, decStr_int, bind, Except.bind, pure, Except.pure]

/-- round trips of duration strings with integer and fractional amounts (`P10D`, `PT1.5H`, `P0.25W`, `P1.50Y`) -/
theorem duration_examples :
    ∀ s ∈ ([[80, 49, 48, 68], [80, 84, 49, 46, 53, 72], [80, 48, 46, 50, 53, 87], [80, 49, 46, 53, 48, 89],
            [80, 51, 54, 77], [80, 84, 57, 48, 77], [80, 84, 52, 53, 83]] : List Str),
      formatT (parse genCfg s) = .ok s := by
  decide

/-- regression (was finding `zero-amount-empty`): `P0D` formats to `P0D` (before fix b6d61daf1: `''`);
regression (was finding `week-of-month-reformat`): `XXXX-05-W02` formats to itself — the text the code printed
before fix 127911630, `XXXX-05-WXX-2`, is accepted by no pattern (its `Timex` has no field). -/
theorem repaired_roundtrips :
    formatT (parse genCfg [80, 48, 68]) = .ok [80, 48, 68] ∧
    formatT (parse genCfg [88, 88, 88, 88, 45, 48, 53, 45, 87, 48, 50]) = .ok [88, 88, 88, 88, 45, 48, 53, 45, 87, 48, 50] ∧
    parse genCfg [88, 88, 88, 88, 45, 48, 53, 45, 87, 88, 88, 45, 50] = {} := by
  decide

/-
Full statement for durations: ∀ amount of the language `\d*\.?\d+`, parse (format (parse ('P' amount unit))) =
parse ('P' amount unit).  FALSE in the faithful model for amounts below 10⁻⁶ (`str(Decimal)` switches to
scientific notation, which `TimexRegex` does not accept) — recorded finding `tiny-amount-scientific`:
-/
/-- negative witness (replayed by the check): `P0.0000001D` formats to `P1E-7D`, whose `Timex` has no field. -/
theorem tiny_amount_not_stable :
    formatT (parse genCfg [80, 48, 46, 48, 48, 48, 48, 48, 48, 49, 68]) = .ok [80, 49, 69, 45, 55, 68] ∧
    parse genCfg [80, 49, 69, 45, 55, 68] = {} ∧
    parse genCfg [80, 48, 46, 48, 48, 48, 48, 48, 48, 49, 68] = { days := some (.dec false 1 (-7)) } := by
  decide

end RTV.Timex
