import RTV.Lemmas.DateUtils
/-!
# C09 — dates without a year resolve to the nearest past and the next future occurrence

Property theorems about `RTV.Model.DateUtils.generateDates` (mirrors `DateUtils.generate_dates`) and `bareWeekday`
(the "Friday" branch of `BaseDateParser.parse_implicit_date`). For **every** reference datetime `R` (date valid in
0001..9999, any time of day unless a guard says otherwise).

"Latest occurrence strictly before `R`'s date and earliest occurrence on or after it" is stated as
`past < R.date ≤ future` together with "no occurrence strictly between past and future" — for weekdays
`future = past + 7`, for a month-day two consecutive years, for 29 February no leap year strictly in between.

Two statements fail on the faithful model:
* month-day (and 29 February from a leap year): `generate_dates` compares the *midnight* candidate with the *full*
  reference datetime, so when the stated day is the reference's own day and the reference has a time of day the
  pair is `[R.date, R.date + 1 year]` instead of `[R.date − 1 year, R.date]`
  (`monthday_fails_with_time_of_day`, `feb29_fails_with_time_of_day`); the repaired variant compares dates
  (`monthday_candidates_fixed`).
* 29 February from a leap year next to a non-leap century (1896, 1904, 2096, 2104 …): the code adds / subtracts 4
  years without checking (`feb29_fails_next_to_century`); outside 1950..2090, reported as an observation.
-/
namespace RTV.DateUtils
open RTV.Cal RTV.Py
set_option linter.unusedVariables false

/-! ## bare weekday -/

/-- A bare weekday name yields `past` and `future` with the stated weekday, `past < R.date ≤ future`, exactly one
week apart (hence `past` is the latest such day before `R.date` and `future` the earliest on or after it — also when
the stated weekday is the reference's own weekday: then `future = R.date`), at midnight, TIMEX `XXXX-WXX-d`. -/
theorem weekday_candidates (R : DateTime) (hv : R.date.valid = true) (dow : Nat) (hd : dow ≤ 7) (t : Str)
    (f p : DateTime) (h : bareWeekday R dow = some (t, f, p)) :
    f.date.valid = true ∧ p.date.valid = true ∧ f.secs = 0 ∧ p.secs = 0 ∧
    isoWeekdayOrd f.date.ord = target dow ∧ isoWeekdayOrd p.date.ord = target dow ∧
    f.date.ord = p.date.ord + 7 ∧ p.date.ord < R.date.ord ∧ R.date.ord ≤ f.date.ord ∧
    t = ofString "XXXX-WXX-" ++ natStr (target dow) :=
  bareWeekday_spec R hv dow hd t f p h

/-- nothing with the same weekday lies strictly between the two candidates -/
theorem weekday_candidates_adjacent (a b n : Nat) (h : b = a + 7) (h1 : a < n) (h2 : n < b) :
    isoWeekdayOrd n ≠ isoWeekdayOrd a := by
  unfold isoWeekdayOrd; omega

example : bareWeekday ⟨⟨2020, 1, 31⟩, 52200⟩ 5 =
    some (ofString "XXXX-WXX-5", ⟨⟨2020, 1, 31⟩, 0⟩, ⟨⟨2020, 1, 24⟩, 0⟩) := by decide
example : bareWeekday ⟨⟨2020, 1, 31⟩, 0⟩ 0 =
    some (ofString "XXXX-WXX-7", ⟨⟨2020, 2, 2⟩, 0⟩, ⟨⟨2020, 1, 26⟩, 0⟩) := by decide

/-! ## month and day without a year

Full statement (FAILS on the faithful model, see `monthday_fails_with_time_of_day`): for every `R` and every
`(m, d)` other than 29 February, `generateDates true R R.year m d = (⟨Y+1, m, d⟩, ⟨Y, m, d⟩)` with
`⟨Y, m, d⟩ < R.date ≤ ⟨Y+1, m, d⟩`. -/

/-- Holds when the reference's time of day is 00:00:00. -/
theorem monthday_candidates_partial (R : DateTime) (hv : R.date.valid = true) (m d : Nat) (he : everyYear m d)
    (hy1 : 2 ≤ R.date.y) (hy2 : R.date.y ≤ 9998) (hs : R.secs = 0) :
    ∃ Y : Nat, monthDayNoYear R m d = (luisDateNoYear m d, ⟨⟨Y + 1, m, d⟩, 0⟩, ⟨⟨Y, m, d⟩, 0⟩) ∧
      (⟨Y, m, d⟩ : Date).valid = true ∧ (⟨Y + 1, m, d⟩ : Date).valid = true ∧
      (⟨Y, m, d⟩ : Date).ord < R.date.ord ∧ R.date.ord ≤ (⟨Y + 1, m, d⟩ : Date).ord := by
  obtain ⟨Y, h1, h2⟩ := generateDates_monthday R hv m d he hy1 hy2 hs
  exact ⟨Y, by unfold monthDayNoYear; rw [h1], h2⟩

/-- Negative witness: `May 10` asked at 2020-05-10 14:00:00 → future 2021-05-10, past 2020-05-10
(the property wants 2020-05-10 as the future and 2019-05-10 as the past candidate). -/
theorem monthday_fails_with_time_of_day :
    monthDayNoYear ⟨⟨2020, 5, 10⟩, 50400⟩ 5 10 = (ofString "XXXX-05-10", ⟨⟨2021, 5, 10⟩, 0⟩, ⟨⟨2020, 5, 10⟩, 0⟩) := by
  decide

/-- The repaired variant (compare with the reference's date) satisfies the full statement for every time of day. -/
theorem monthday_candidates_fixed (R : DateTime) (hv : R.date.valid = true) (m d : Nat) (he : everyYear m d)
    (hy1 : 2 ≤ R.date.y) (hy2 : R.date.y ≤ 9998) :
    ∃ Y : Nat, generateDatesFixed true R R.date.y m d = (⟨⟨Y + 1, m, d⟩, 0⟩, ⟨⟨Y, m, d⟩, 0⟩) ∧
      (⟨Y, m, d⟩ : Date).valid = true ∧ (⟨Y + 1, m, d⟩ : Date).valid = true ∧
      (⟨Y, m, d⟩ : Date).ord < R.date.ord ∧ R.date.ord ≤ (⟨Y + 1, m, d⟩ : Date).ord :=
  generateDates_monthday ⟨R.date, 0⟩ hv m d he hy1 hy2 rfl

example : everyYear 5 10 ∧ everyYear 2 28 ∧ everyYear 12 31 ∧ ¬ everyYear 2 29 ∧ ¬ everyYear 4 31 := by decide
example : monthDayNoYear ⟨⟨2020, 5, 10⟩, 0⟩ 5 10 = (ofString "XXXX-05-10", ⟨⟨2020, 5, 10⟩, 0⟩, ⟨⟨2019, 5, 10⟩, 0⟩) := by
  decide
example : monthDayNoYear ⟨⟨2020, 5, 10⟩, 50400⟩ 5 11 = (ofString "XXXX-05-11", ⟨⟨2020, 5, 11⟩, 0⟩, ⟨⟨2019, 5, 11⟩, 0⟩) := by
  decide
example : generateDatesFixed true ⟨⟨2020, 5, 10⟩, 50400⟩ 2020 5 10 = (⟨⟨2020, 5, 10⟩, 0⟩, ⟨⟨2019, 5, 10⟩, 0⟩) := by decide

/-! ## 29 February -/

/-- From a reference in a non-leap year (any time of day): the candidates are 29 February of the neighbouring leap
years — century rules included: no leap year lies strictly between them (1896/1904 around 1900, 2096/2104 around
2100). -/
theorem feb29_candidates_nonleap_reference (R : DateTime) (hv : R.date.valid = true) (hl : isLeap R.date.y = false)
    (h5 : 5 ≤ R.date.y) (h9 : R.date.y ≤ 9990) :
    ∃ Yp Yf : Nat, monthDayNoYear R 2 29 = (luisDateNoYear 2 29, ⟨⟨Yf, 2, 29⟩, 0⟩, ⟨⟨Yp, 2, 29⟩, 0⟩) ∧
      (⟨Yp, 2, 29⟩ : Date).valid = true ∧ (⟨Yf, 2, 29⟩ : Date).valid = true ∧
      Yp < R.date.y ∧ R.date.y < Yf ∧ (∀ z : Nat, Yp < z → z < Yf → isLeap z = false) := by
  obtain ⟨Yp, Yf, h1, h2⟩ := generateDates_feb29_nonleap R hv hl h5 h9
  exact ⟨Yp, Yf, by unfold monthDayNoYear; rw [h1], h2⟩

/-- From a reference in a leap year: holds when the time of day is 00:00:00 and the year the code jumps to
(`year + 4` after 29 February, `year − 4` up to it) is a leap year. -/
theorem feb29_candidates_leap_reference_partial (R : DateTime) (hv : R.date.valid = true)
    (hl : isLeap R.date.y = true) (hs : R.secs = 0)
    (g1 : (⟨R.date.y, 2, 29⟩ : Date).ord < R.date.ord → isLeap (R.date.y + 4) = true ∧ R.date.y + 4 ≤ 9999)
    (g2 : R.date.ord ≤ (⟨R.date.y, 2, 29⟩ : Date).ord → isLeap (R.date.y - 4) = true ∧ 5 ≤ R.date.y) :
    ∃ Yp : Nat, monthDayNoYear R 2 29 = (luisDateNoYear 2 29, ⟨⟨Yp + 4, 2, 29⟩, 0⟩, ⟨⟨Yp, 2, 29⟩, 0⟩) ∧
      (⟨Yp, 2, 29⟩ : Date).valid = true ∧ (⟨Yp + 4, 2, 29⟩ : Date).valid = true ∧
      (⟨Yp, 2, 29⟩ : Date).ord < R.date.ord ∧ R.date.ord ≤ (⟨Yp + 4, 2, 29⟩ : Date).ord ∧
      (∀ z : Nat, Yp < z → z < Yp + 4 → isLeap z = false) := by
  obtain ⟨Yp, h1, h2⟩ := generateDates_feb29_leap R hv hl hs g1 g2
  exact ⟨Yp, by unfold monthDayNoYear; rw [h1], h2⟩

/-- Negative witness (time of day): `Feb 29` asked at 2020-02-29 14:00:00 → future 2024-02-29, past 2020-02-29. -/
theorem feb29_fails_with_time_of_day :
    monthDayNoYear ⟨⟨2020, 2, 29⟩, 50400⟩ 2 29 = (ofString "XXXX-02-29", ⟨⟨2024, 2, 29⟩, 0⟩, ⟨⟨2020, 2, 29⟩, 0⟩) := by
  decide

/-- Negative witness (century): `Feb 29` asked on 2096-03-01 → "future" 0001-01-01 (`min_value`), because 2100 is
not a leap year; asked on 2104-01-01 the "past" candidate is `min_value`. Outside the property's 1950..2090. -/
theorem feb29_fails_next_to_century :
    monthDayNoYear ⟨⟨2096, 3, 1⟩, 0⟩ 2 29 = (ofString "XXXX-02-29", minValue, ⟨⟨2096, 2, 29⟩, 0⟩) ∧
    monthDayNoYear ⟨⟨2104, 1, 1⟩, 0⟩ 2 29 = (ofString "XXXX-02-29", ⟨⟨2104, 2, 29⟩, 0⟩, minValue) := by decide

/-- Inside the property's range 1950..2090 the century guard is always met. -/
theorem feb29_guard_holds_1950_2090 : ∀ y, 1950 ≤ y → y ≤ 2090 → isLeap y = true →
    isLeap (y + 4) = true ∧ isLeap (y - 4) = true := by
  intro y h1 h2 hl
  rw [isLeap_iff] at hl ⊢
  rw [isLeap_iff]
  omega

example : monthDayNoYear ⟨⟨2021, 6, 1⟩, 777⟩ 2 29 = (ofString "XXXX-02-29", ⟨⟨2024, 2, 29⟩, 0⟩, ⟨⟨2020, 2, 29⟩, 0⟩) := by
  decide
example : monthDayNoYear ⟨⟨1900, 6, 1⟩, 777⟩ 2 29 = (ofString "XXXX-02-29", ⟨⟨1904, 2, 29⟩, 0⟩, ⟨⟨1896, 2, 29⟩, 0⟩) := by
  decide
example : monthDayNoYear ⟨⟨2101, 1, 1⟩, 0⟩ 2 29 = (ofString "XXXX-02-29", ⟨⟨2104, 2, 29⟩, 0⟩, ⟨⟨2096, 2, 29⟩, 0⟩) := by
  decide
example : monthDayNoYear ⟨⟨2020, 2, 29⟩, 0⟩ 2 29 = (ofString "XXXX-02-29", ⟨⟨2020, 2, 29⟩, 0⟩, ⟨⟨2016, 2, 29⟩, 0⟩) := by
  decide

/-! ## month + spelled-out day ("february twenty second", "mayo veintiuno": `parse_number_with_month`) -/

/-- The nearest past and the next future occurrence (time of day 00:00:00, as for `generate_dates`) — the code after
`fix: a month with a spelled-out day takes its past candidate from the previous year` (151a4ac9b). -/
theorem written_day_fixed (R : DateTime) (hv : R.date.valid = true) (m d : Nat) (he : everyYear m d)
    (hy1 : 2 ≤ R.date.y) (hy2 : R.date.y ≤ 9998) (hs : R.secs = 0) :
    ∃ Y : Nat, numberWithMonth R m d = some (luisDateNoYear m d, ⟨⟨Y + 1, m, d⟩, 0⟩, ⟨⟨Y, m, d⟩, 0⟩) ∧
      (⟨Y, m, d⟩ : Date).valid = true ∧ (⟨Y + 1, m, d⟩ : Date).valid = true ∧
      (⟨Y, m, d⟩ : Date).ord < R.date.ord ∧ R.date.ord ≤ (⟨Y + 1, m, d⟩ : Date).ord := by
  have s := numberWithMonthPreFix_both true R hv m d he hy1 hy2 hs
  by_cases c : (⟨R.date.y, m, d⟩ : Date).ord < R.date.ord
  · exact ⟨R.date.y, (s.2.2.2.2.2.1 c).2, s.1, s.2.1, c, s.2.2.2.2.1⟩
  · have e1 : R.date.y - 1 + 1 = R.date.y := by omega
    refine ⟨R.date.y - 1, ?_, s.2.2.1, by rw [e1]; exact s.1, s.2.2.2.1, by rw [e1]; omega⟩
    rw [e1]; exact (s.2.2.2.2.2.2 (by omega)).2

example : numberWithMonth ⟨⟨2020, 2, 21⟩, 0⟩ 2 22 =
    some (ofString "XXXX-02-22", ⟨⟨2020, 2, 22⟩, 0⟩, ⟨⟨2019, 2, 22⟩, 0⟩) := by decide
example : numberWithMonth ⟨⟨2020, 2, 23⟩, 0⟩ 2 22 =
    some (ofString "XXXX-02-22", ⟨⟨2021, 2, 22⟩, 0⟩, ⟨⟨2020, 2, 22⟩, 0⟩) := by decide

/-! ### REGRESSION (pre-fix code, before 151a4ac9b): the past candidate moved to `year + 1` -/

/-- The pre-fix code was right (time of day 00:00:00) only when the stated day of the reference's year lies strictly
before the reference date. -/
theorem written_day_prefix_partial (R : DateTime) (hv : R.date.valid = true) (m d : Nat) (he : everyYear m d)
    (hy1 : 2 ≤ R.date.y) (hy2 : R.date.y ≤ 9998) (hs : R.secs = 0)
    (g : (⟨R.date.y, m, d⟩ : Date).ord < R.date.ord) :
    numberWithMonthPreFix R m d = some (luisDateNoYear m d, ⟨⟨R.date.y + 1, m, d⟩, 0⟩, ⟨⟨R.date.y, m, d⟩, 0⟩) ∧
    (⟨R.date.y, m, d⟩ : Date).valid = true ∧ (⟨R.date.y + 1, m, d⟩ : Date).valid = true ∧
    R.date.ord ≤ (⟨R.date.y + 1, m, d⟩ : Date).ord := by
  have s := numberWithMonthPreFix_both true R hv m d he hy1 hy2 hs
  exact ⟨(s.2.2.2.2.2.1 g).1, s.1, s.2.1, s.2.2.2.2.1⟩

/-- Otherwise the pre-fix "past" candidate was next year's occurrence — later than the future candidate. -/
theorem written_day_prefix_past_is_next_year (R : DateTime) (hv : R.date.valid = true) (m d : Nat) (he : everyYear m d)
    (hy1 : 2 ≤ R.date.y) (hy2 : R.date.y ≤ 9998) (hs : R.secs = 0)
    (g : R.date.ord ≤ (⟨R.date.y, m, d⟩ : Date).ord) :
    numberWithMonthPreFix R m d = some (luisDateNoYear m d, ⟨⟨R.date.y, m, d⟩, 0⟩, ⟨⟨R.date.y + 1, m, d⟩, 0⟩) :=
  ((numberWithMonthPreFix_both true R hv m d he hy1 hy2 hs).2.2.2.2.2.2 g).1

/-- Regression witness: "february twenty second" asked on 2020-02-21 → pre-fix future 2020-02-22, "past" 2021-02-22. -/
theorem written_day_prefix_regression :
    numberWithMonthPreFix ⟨⟨2020, 2, 21⟩, 0⟩ 2 22 =
      some (ofString "XXXX-02-22", ⟨⟨2020, 2, 22⟩, 0⟩, ⟨⟨2021, 2, 22⟩, 0⟩) := by decide

end RTV.DateUtils
