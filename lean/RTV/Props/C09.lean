import RTV.Lemmas.DateUtils
import RTV.Lemmas.DtRes
import RTV.Props.C08
/-!
# C09 — dates without a year resolve to the nearest past and the next future occurrence

Property theorems about `RTV.Model.DateUtils.generateDates` (mirrors `DateUtils.generate_dates`) and `bareWeekday`
(the "Friday" branch of `BaseDateParser.parse_implicit_date`). For **every** reference datetime `R` (date valid in
0001..9999, any time of day unless a guard says otherwise).

"Latest occurrence strictly before `R`'s date and earliest occurrence on or after it" is stated as
`past < R.date ≤ future` together with "no occurrence strictly between past and future" — for weekdays
`future = past + 7`, for a month-day two consecutive years, for 29 February no leap year strictly in between.

Two statements fail on the faithful model:
* month-day (and 29 February from a leap year): `generate_dates` compares the *midnight* candidate with the *full*
  reference datetime, so when the stated day is the reference's own day and the reference has a time of day the
  pair is `[R.date, R.date + 1 year]` instead of `[R.date − 1 year, R.date]`
  (`monthday_fails_with_time_of_day`, `feb29_fails_with_time_of_day`); the repaired variant compares dates
  (`monthday_candidates_fixed`).
* 29 February from a leap year next to a non-leap century (1896, 1904, 2096, 2104 …): the code adds / subtracts 4
  years without checking (`feb29_fails_next_to_century`); outside 1950..2090, reported as an observation.
-/
namespace RTV.DateUtils
open RTV.Cal RTV.Py
set_option linter.unusedVariables false

/-! ## bare weekday -/

/-- A bare weekday name yields `past` and `future` with the stated weekday, `past < R.date ≤ future`, exactly one
week apart (hence `past` is the latest such day before `R.date` and `future` the earliest on or after it — also when
the stated weekday is the reference's own weekday: then `future = R.date`), at midnight, TIMEX `XXXX-WXX-d`. -/
theorem weekday_candidates (R : DateTime) (hv : R.date.valid = true) (dow : Nat) (hd : dow ≤ 7) (t : Str)
    (f p : DateTime) (h : bareWeekday R dow = some (t, f, p)) :
    f.date.valid = true ∧ p.date.valid = true ∧ f.secs = 0 ∧ p.secs = 0 ∧
    isoWeekdayOrd f.date.ord = target dow ∧ isoWeekdayOrd p.date.ord = target dow ∧
    f.date.ord = p.date.ord + 7 ∧ p.date.ord < R.date.ord ∧ R.date.ord ≤ f.date.ord ∧
    t = ofString "XXXX-WXX-" ++ natStr (target dow) :=
  bareWeekday_spec R hv dow hd t f p h

/-- Totality (audit item 15: `weekday_candidates` is conditional on `bareWeekday … = some …`; this is when it holds): `bareWeekday` answers whenever the three weeks around the reference (the week
before its Monday … the week after its Sunday) lie inside 0001-01-01..9999-12-31. -/
theorem bareWeekday_defined (R : DateTime) (hv : R.date.valid = true) (dow : Nat) (hd : dow ≤ 7)
    (h1 : 8 ≤ mondayOrd R.date.ord) (h2 : mondayOrd R.date.ord + 20 ≤ maxOrd) : ∃ r, bareWeekday R dow = some r := by
  have tr : 1 ≤ target dow ∧ target dow ≤ 7 := by unfold target; split <;> omega
  have tt : target (target dow) = target dow := by unfold target; split <;> simp <;> omega
  have wd : (if dow < 1 then 7 else dow) = target dow := by unfold target; split <;> split <;> omega
  obtain ⟨v0, h0⟩ := this_defined R hv dow (by omega)
  have s0 := this_spec R hv dow v0 h0
  obtain ⟨vn, hn⟩ := next_defined R hv (target dow) (by rw [tt]; omega)
  have sn := next_spec R hv (target dow) vn hn
  rw [tt] at sn
  unfold bareWeekday
  simp only [h0, Option.bind_some, wd]
  -- the chosen value: this week's or next week's day
  have key : ∀ value : DateTime, value.date.valid = true →
      ((value.date.ord : Int) = mondayOrd R.date.ord + (target dow : Int) - 1 ∨
       (value.date.ord : Int) = mondayOrd R.date.ord + (target dow : Int) - 1 + 7) →
      ∃ r, ((if value.lt R then addDays value 7 else some value).bind fun future =>
        (if R.le value then addDays value (-7) else some value).bind fun past =>
        some ([88, 88, 88, 88, 45, 87, 88, 88, 45] ++ natStr (target dow),
          safeCreateFromMinValue future.date.y future.date.m future.date.d,
          safeCreateFromMinValue past.date.y past.date.m past.date.d)) = some r := by
    intro value hvv ho
    obtain ⟨f, hf⟩ : ∃ f, (if value.lt R then addDays value 7 else some value) = some f := by
      split
      · exact addDays_isSome value 7 (by omega) (by omega)
      · exact ⟨_, rfl⟩
    obtain ⟨p, hp⟩ : ∃ p, (if R.le value then addDays value (-7) else some value) = some p := by
      split
      · exact addDays_isSome value (-7) (by omega) (by omega)
      · exact ⟨_, rfl⟩
    exact ⟨([88, 88, 88, 88, 45, 87, 88, 88, 45] ++ natStr (target dow), safeCreateFromMinValue f.date.y f.date.m f.date.d,
      safeCreateFromMinValue p.date.y p.date.m p.date.d), by simp only [hf, hp, Option.bind_some]⟩
  split
  · simp only [hn, Option.bind_some]
    exact key vn sn.1 (Or.inr (by omega))
  · simp only [Option.bind_some]
    exact key v0 s0.1 (Or.inl s0.2.2)

theorem weekday_candidates_total (R : DateTime) (hv : R.date.valid = true) (dow : Nat) (hd : dow ≤ 7)
    (h1 : 8 ≤ mondayOrd R.date.ord) (h2 : mondayOrd R.date.ord + 20 ≤ maxOrd) :
    ∃ t f p, bareWeekday R dow = some (t, f, p) ∧ f.date.ord = p.date.ord + 7 ∧ p.date.ord < R.date.ord ∧
      R.date.ord ≤ f.date.ord ∧ isoWeekdayOrd f.date.ord = target dow := by
  obtain ⟨⟨t, f, p⟩, h⟩ := bareWeekday_defined R hv dow hd h1 h2
  have s := weekday_candidates R hv dow hd t f p h
  exact ⟨t, f, p, h, s.2.2.2.2.2.2.1, s.2.2.2.2.2.2.2.1, s.2.2.2.2.2.2.2.2.1, s.2.2.2.2.1⟩

/-- nothing with the same weekday lies strictly between the two candidates -/
theorem weekday_candidates_adjacent (a b n : Nat) (h : b = a + 7) (h1 : a < n) (h2 : n < b) :
    isoWeekdayOrd n ≠ isoWeekdayOrd a := by
  unfold isoWeekdayOrd; omega

example : bareWeekday ⟨⟨2020, 1, 31⟩, 52200⟩ 5 =
    some (ofString "XXXX-WXX-5", ⟨⟨2020, 1, 31⟩, 0⟩, ⟨⟨2020, 1, 24⟩, 0⟩) := by decide
example : bareWeekday ⟨⟨2020, 1, 31⟩, 0⟩ 0 =
    some (ofString "XXXX-WXX-7", ⟨⟨2020, 2, 2⟩, 0⟩, ⟨⟨2020, 1, 26⟩, 0⟩) := by decide

/-! ## month and day without a year

Full statement (FAILS on the faithful model, see `monthday_fails_with_time_of_day`): for every `R` and every
`(m, d)` other than 29 February, `generateDates true R R.year m d = (⟨Y+1, m, d⟩, ⟨Y, m, d⟩)` with
`⟨Y, m, d⟩ < R.date ≤ ⟨Y+1, m, d⟩`. -/

/-- Holds under the EXACT guard: the reference's time of day is 00:00:00, OR the stated day is not the reference's own day
of the reference's year (then the midnight candidate and the reference differ in their dates and the time of day plays no
part).  Exactness: `monthday_guard_exact` — outside the guard the statement fails for every such reference. -/
theorem monthday_candidates_partial (R : DateTime) (hv : R.date.valid = true) (m d : Nat) (he : everyYear m d)
    (hy1 : 2 ≤ R.date.y) (hy2 : R.date.y ≤ 9998) (hs : R.secs = 0 ∨ (⟨R.date.y, m, d⟩ : Date).ord ≠ R.date.ord) :
    ∃ Y : Nat, monthDayNoYear R m d = (luisDateNoYear m d, ⟨⟨Y + 1, m, d⟩, 0⟩, ⟨⟨Y, m, d⟩, 0⟩) ∧
      (⟨Y, m, d⟩ : Date).valid = true ∧ (⟨Y + 1, m, d⟩ : Date).valid = true ∧
      (⟨Y, m, d⟩ : Date).ord < R.date.ord ∧ R.date.ord ≤ (⟨Y + 1, m, d⟩ : Date).ord := by
  obtain ⟨Y, h1, h2⟩ := generateDates_monthday_exact R hv m d he hy1 hy2 hs
  exact ⟨Y, by unfold monthDayNoYear; rw [h1], h2⟩

/-- NEGATIVE, for EVERY reference outside the guard: the stated day is the reference's own day and the reference has a time
of day → the pair is (next year's occurrence, the reference's own date): the "past" candidate is not strictly before the
reference date and the "future" candidate is not the earliest occurrence on or after it. -/
theorem monthday_guard_exact (R : DateTime) (hv : R.date.valid = true) (he : everyYear R.date.m R.date.d)
    (hy1 : 2 ≤ R.date.y) (hy2 : R.date.y ≤ 9998) (hs : 0 < R.secs) :
    monthDayNoYear R R.date.m R.date.d =
      (luisDateNoYear R.date.m R.date.d, ⟨⟨R.date.y + 1, R.date.m, R.date.d⟩, 0⟩, ⟨R.date, 0⟩) ∧
    ¬ ((⟨R.date, 0⟩ : DateTime).date.ord < R.date.ord) := by
  refine ⟨?_, by simp⟩
  unfold monthDayNoYear
  rw [generateDates_monthday_own_day R hv he hy1 hy2 hs]

/-- Negative witness: `May 10` asked at 2020-05-10 14:00:00 → future 2021-05-10, past 2020-05-10
(the property wants 2020-05-10 as the future and 2019-05-10 as the past candidate). -/
theorem monthday_fails_with_time_of_day :
    monthDayNoYear ⟨⟨2020, 5, 10⟩, 50400⟩ 5 10 = (ofString "XXXX-05-10", ⟨⟨2021, 5, 10⟩, 0⟩, ⟨⟨2020, 5, 10⟩, 0⟩) := by
  decide

/-- The repaired variant (compare with the reference's date) satisfies the full statement for every time of day. -/
theorem monthday_candidates_fixed (R : DateTime) (hv : R.date.valid = true) (m d : Nat) (he : everyYear m d)
    (hy1 : 2 ≤ R.date.y) (hy2 : R.date.y ≤ 9998) :
    ∃ Y : Nat, generateDatesFixed true R R.date.y m d = (⟨⟨Y + 1, m, d⟩, 0⟩, ⟨⟨Y, m, d⟩, 0⟩) ∧
      (⟨Y, m, d⟩ : Date).valid = true ∧ (⟨Y + 1, m, d⟩ : Date).valid = true ∧
      (⟨Y, m, d⟩ : Date).ord < R.date.ord ∧ R.date.ord ≤ (⟨Y + 1, m, d⟩ : Date).ord :=
  generateDates_monthday ⟨R.date, 0⟩ hv m d he hy1 hy2 rfl

example : everyYear 5 10 ∧ everyYear 2 28 ∧ everyYear 12 31 ∧ ¬ everyYear 2 29 ∧ ¬ everyYear 4 31 := by decide
example : monthDayNoYear ⟨⟨2020, 5, 10⟩, 0⟩ 5 10 = (ofString "XXXX-05-10", ⟨⟨2020, 5, 10⟩, 0⟩, ⟨⟨2019, 5, 10⟩, 0⟩) := by
  decide
example : monthDayNoYear ⟨⟨2020, 5, 10⟩, 50400⟩ 5 11 = (ofString "XXXX-05-11", ⟨⟨2020, 5, 11⟩, 0⟩, ⟨⟨2019, 5, 11⟩, 0⟩) := by
  decide
example : generateDatesFixed true ⟨⟨2020, 5, 10⟩, 50400⟩ 2020 5 10 = (⟨⟨2020, 5, 10⟩, 0⟩, ⟨⟨2019, 5, 10⟩, 0⟩) := by decide

/-! ## 29 February -/

/-- From a reference in a non-leap year (any time of day): the candidates are 29 February of the neighbouring leap
years — century rules included: no leap year lies strictly between them (1896/1904 around 1900, 2096/2104 around
2100). -/
theorem feb29_candidates_nonleap_reference (R : DateTime) (hv : R.date.valid = true) (hl : isLeap R.date.y = false)
    (h5 : 5 ≤ R.date.y) (h9 : R.date.y ≤ 9990) :
    ∃ Yp Yf : Nat, monthDayNoYear R 2 29 = (luisDateNoYear 2 29, ⟨⟨Yf, 2, 29⟩, 0⟩, ⟨⟨Yp, 2, 29⟩, 0⟩) ∧
      (⟨Yp, 2, 29⟩ : Date).valid = true ∧ (⟨Yf, 2, 29⟩ : Date).valid = true ∧
      Yp < R.date.y ∧ R.date.y < Yf ∧ (∀ z : Nat, Yp < z → z < Yf → isLeap z = false) := by
  obtain ⟨Yp, Yf, h1, h2⟩ := generateDates_feb29_nonleap R hv hl h5 h9
  exact ⟨Yp, Yf, by unfold monthDayNoYear; rw [h1], h2⟩

/-- From a reference in a leap year: holds when the time of day is 00:00:00 and the year the code jumps to
(`year + 4` after 29 February, `year − 4` up to it) is a leap year. -/
theorem feb29_candidates_leap_reference_partial (R : DateTime) (hv : R.date.valid = true)
    (hl : isLeap R.date.y = true) (hs : R.secs = 0)
    (g1 : (⟨R.date.y, 2, 29⟩ : Date).ord < R.date.ord → isLeap (R.date.y + 4) = true ∧ R.date.y + 4 ≤ 9999)
    (g2 : R.date.ord ≤ (⟨R.date.y, 2, 29⟩ : Date).ord → isLeap (R.date.y - 4) = true ∧ 5 ≤ R.date.y) :
    ∃ Yp : Nat, monthDayNoYear R 2 29 = (luisDateNoYear 2 29, ⟨⟨Yp + 4, 2, 29⟩, 0⟩, ⟨⟨Yp, 2, 29⟩, 0⟩) ∧
      (⟨Yp, 2, 29⟩ : Date).valid = true ∧ (⟨Yp + 4, 2, 29⟩ : Date).valid = true ∧
      (⟨Yp, 2, 29⟩ : Date).ord < R.date.ord ∧ R.date.ord ≤ (⟨Yp + 4, 2, 29⟩ : Date).ord ∧
      (∀ z : Nat, Yp < z → z < Yp + 4 → isLeap z = false) := by
  obtain ⟨Yp, h1, h2⟩ := generateDates_feb29_leap R hv hl hs g1 g2
  exact ⟨Yp, by unfold monthDayNoYear; rw [h1], h2⟩

/-- Negative witness (time of day): `Feb 29` asked at 2020-02-29 14:00:00 → future 2024-02-29, past 2020-02-29. -/
theorem feb29_fails_with_time_of_day :
    monthDayNoYear ⟨⟨2020, 2, 29⟩, 50400⟩ 2 29 = (ofString "XXXX-02-29", ⟨⟨2024, 2, 29⟩, 0⟩, ⟨⟨2020, 2, 29⟩, 0⟩) := by
  decide

/-- Negative witness (century): `Feb 29` asked on 2096-03-01 → "future" 0001-01-01 (`min_value`), because 2100 is
not a leap year; asked on 2104-01-01 the "past" candidate is `min_value`. Outside the property's 1950..2090. -/
theorem feb29_fails_next_to_century :
    monthDayNoYear ⟨⟨2096, 3, 1⟩, 0⟩ 2 29 = (ofString "XXXX-02-29", minValue, ⟨⟨2096, 2, 29⟩, 0⟩) ∧
    monthDayNoYear ⟨⟨2104, 1, 1⟩, 0⟩ 2 29 = (ofString "XXXX-02-29", ⟨⟨2104, 2, 29⟩, 0⟩, minValue) := by decide

/-- Inside the property's range 1950..2090 the century guard is always met. -/
theorem feb29_guard_holds_1950_2090 : ∀ y, 1950 ≤ y → y ≤ 2090 → isLeap y = true →
    isLeap (y + 4) = true ∧ isLeap (y - 4) = true := by
  intro y h1 h2 hl
  rw [isLeap_iff] at hl ⊢
  rw [isLeap_iff]
  omega

example : monthDayNoYear ⟨⟨2021, 6, 1⟩, 777⟩ 2 29 = (ofString "XXXX-02-29", ⟨⟨2024, 2, 29⟩, 0⟩, ⟨⟨2020, 2, 29⟩, 0⟩) := by
  decide
example : monthDayNoYear ⟨⟨1900, 6, 1⟩, 777⟩ 2 29 = (ofString "XXXX-02-29", ⟨⟨1904, 2, 29⟩, 0⟩, ⟨⟨1896, 2, 29⟩, 0⟩) := by
  decide
example : monthDayNoYear ⟨⟨2101, 1, 1⟩, 0⟩ 2 29 = (ofString "XXXX-02-29", ⟨⟨2104, 2, 29⟩, 0⟩, ⟨⟨2096, 2, 29⟩, 0⟩) := by
  decide
example : monthDayNoYear ⟨⟨2020, 2, 29⟩, 0⟩ 2 29 = (ofString "XXXX-02-29", ⟨⟨2020, 2, 29⟩, 0⟩, ⟨⟨2016, 2, 29⟩, 0⟩) := by
  decide

/-! ## month + spelled-out day ("february twenty second", "mayo veintiuno": `parse_number_with_month`) -/

/-- The nearest past and the next future occurrence (time of day 00:00:00, as for `generate_dates`) — the code after
`fix: a month with a spelled-out day takes its past candidate from the previous year` (151a4ac9b). -/
theorem written_day_fixed (R : DateTime) (hv : R.date.valid = true) (m d : Nat) (he : everyYear m d)
    (hy1 : 2 ≤ R.date.y) (hy2 : R.date.y ≤ 9998) (hs : R.secs = 0) :
    ∃ Y : Nat, numberWithMonth R m d = some (luisDateNoYear m d, ⟨⟨Y + 1, m, d⟩, 0⟩, ⟨⟨Y, m, d⟩, 0⟩) ∧
      (⟨Y, m, d⟩ : Date).valid = true ∧ (⟨Y + 1, m, d⟩ : Date).valid = true ∧
      (⟨Y, m, d⟩ : Date).ord < R.date.ord ∧ R.date.ord ≤ (⟨Y + 1, m, d⟩ : Date).ord := by
  have s := numberWithMonthPreFix_both true R hv m d he hy1 hy2 hs
  by_cases c : (⟨R.date.y, m, d⟩ : Date).ord < R.date.ord
  · exact ⟨R.date.y, (s.2.2.2.2.2.1 c).2, s.1, s.2.1, c, s.2.2.2.2.1⟩
  · have e1 : R.date.y - 1 + 1 = R.date.y := by omega
    refine ⟨R.date.y - 1, ?_, s.2.2.1, by rw [e1]; exact s.1, s.2.2.2.1, by rw [e1]; omega⟩
    rw [e1]; exact (s.2.2.2.2.2.2 (by omega)).2

example : numberWithMonth ⟨⟨2020, 2, 21⟩, 0⟩ 2 22 =
    some (ofString "XXXX-02-22", ⟨⟨2020, 2, 22⟩, 0⟩, ⟨⟨2019, 2, 22⟩, 0⟩) := by decide
example : numberWithMonth ⟨⟨2020, 2, 23⟩, 0⟩ 2 22 =
    some (ofString "XXXX-02-22", ⟨⟨2021, 2, 22⟩, 0⟩, ⟨⟨2020, 2, 22⟩, 0⟩) := by decide

/-! ### REGRESSION (pre-fix code, before 151a4ac9b): the past candidate moved to `year + 1` -/

/-- The pre-fix code was right (time of day 00:00:00) only when the stated day of the reference's year lies strictly
before the reference date. -/
theorem written_day_prefix_partial (R : DateTime) (hv : R.date.valid = true) (m d : Nat) (he : everyYear m d)
    (hy1 : 2 ≤ R.date.y) (hy2 : R.date.y ≤ 9998) (hs : R.secs = 0)
    (g : (⟨R.date.y, m, d⟩ : Date).ord < R.date.ord) :
    numberWithMonthPreFix R m d = some (luisDateNoYear m d, ⟨⟨R.date.y + 1, m, d⟩, 0⟩, ⟨⟨R.date.y, m, d⟩, 0⟩) ∧
    (⟨R.date.y, m, d⟩ : Date).valid = true ∧ (⟨R.date.y + 1, m, d⟩ : Date).valid = true ∧
    R.date.ord ≤ (⟨R.date.y + 1, m, d⟩ : Date).ord := by
  have s := numberWithMonthPreFix_both true R hv m d he hy1 hy2 hs
  exact ⟨(s.2.2.2.2.2.1 g).1, s.1, s.2.1, s.2.2.2.2.1⟩

/-- Otherwise the pre-fix "past" candidate was next year's occurrence — later than the future candidate. -/
theorem written_day_prefix_past_is_next_year (R : DateTime) (hv : R.date.valid = true) (m d : Nat) (he : everyYear m d)
    (hy1 : 2 ≤ R.date.y) (hy2 : R.date.y ≤ 9998) (hs : R.secs = 0)
    (g : R.date.ord ≤ (⟨R.date.y, m, d⟩ : Date).ord) :
    numberWithMonthPreFix R m d = some (luisDateNoYear m d, ⟨⟨R.date.y, m, d⟩, 0⟩, ⟨⟨R.date.y + 1, m, d⟩, 0⟩) :=
  ((numberWithMonthPreFix_both true R hv m d he hy1 hy2 hs).2.2.2.2.2.2 g).1

/-- Regression witness: "february twenty second" asked on 2020-02-21 → pre-fix future 2020-02-22, "past" 2021-02-22. -/
theorem written_day_prefix_regression :
    numberWithMonthPreFix ⟨⟨2020, 2, 21⟩, 0⟩ 2 22 =
      some (ofString "XXXX-02-22", ⟨⟨2020, 2, 22⟩, 0⟩, ⟨⟨2021, 2, 22⟩, 0⟩) := by decide

/-! ## The two models of `generate_dates` agree (audit item 15)

C06 / C07 reason about `RTV.DtRes.generateDates` (field tuples), C08 / C09 about `RTV.DateUtils.generateDates` (ordinals):
independent transcriptions of the same Python function.  They are the same function. -/


/-- a `DateUtils` datetime (date + seconds since midnight) as the field tuple of the `DtRes` layer -/
def toDT (x : DateTime) : RTV.DtRes.DT := ⟨x.date.y, x.date.m, x.date.d, x.secs / 3600, x.secs / 60 % 60, x.secs % 60⟩

theorem mk_agree (y : Int) (m d : Nat) :
    (RTV.DtRes.safeCreateFromMinValue y m d).getD RTV.DtRes.minValue = toDT (safeCreateFromMinValue y m d) := by
  unfold RTV.DtRes.safeCreateFromMinValue RTV.DtRes.safeCreateFromValue RTV.DtRes.isValidDate RTV.DtRes.isValidTime
    safeCreateFromMinValue safeCreateFromValue isValidDate
  by_cases c : 1 ≤ y ∧ y ≤ 9999 ∧ 1 ≤ (m : Int) ∧ (m : Int) ≤ 12 ∧ 1 ≤ (d : Int) ∧ (d : Int) ≤ (daysInMonth y.toNat ((m : Int).toNat) : Int)
  · have hv : (⟨y.toNat, m, d⟩ : Date).valid = true := by
      rw [valid_iff]; simp only [Int.toNat_natCast] at c; simp only; omega
    have e : RTV.DtRes.mkDateTime y m d 0 0 0 = some ⟨y.toNat, m, d, 0, 0, 0⟩ := by
      unfold RTV.DtRes.mkDateTime
      rw [if_pos (by omega)]
      simp
    simp [e, hv, c.1, c.2.1, toDT]
  · have hv : ¬ ((1 ≤ y ∧ y ≤ 9999) ∧ (⟨y.toNat, m, d⟩ : Date).valid = true) := by
      rw [valid_iff]; simp only [Int.toNat_natCast] at c; simp only; omega
    have e : RTV.DtRes.mkDateTime y m d 0 0 0 = none := by
      unfold RTV.DtRes.mkDateTime
      rw [if_neg (by omega)]
    have hv' : (decide (1 ≤ y) && decide (y ≤ 9999) && (⟨y.toNat, m, d⟩ : Date).valid) = false := by
      cases h : (decide (1 ≤ y) && decide (y ≤ 9999) && (⟨y.toNat, m, d⟩ : Date).valid) with
      | false => rfl
      | true => exfalso; apply hv; simpa [and_assoc] using h
    simp [e, hv', toDT, RTV.DtRes.minValue, minValue]

theorem lt_agree (a b : DateTime) (ha : a.date.valid = true) (hb : b.date.valid = true) :
    (toDT a).lt (toDT b) = a.lt b := by
  have hl := ord_lt_iff_lexLt a.date b.date ha hb
  have hl' := ord_lt_iff_lexLt b.date a.date hb ha
  have he : a.date.ord = b.date.ord ↔ a.date = b.date := ⟨ord_inj a.date b.date ha hb, fun h => by rw [h]⟩
  rw [Bool.eq_iff_iff, lt_iff]
  unfold RTV.DtRes.DT.lt toDT
  simp only
  unfold Date.lexLt at hl hl'
  by_cases hy : a.date.y = b.date.y
  · by_cases hm : a.date.m = b.date.m
    · by_cases hd : a.date.d = b.date.d
      · have : a.date = b.date := by cases ha' : a.date; cases hb' : b.date; simp_all
        simp only [hy, hm, hd, ne_eq, not_true_eq_false, if_false]
        have e := he.2 this
        split <;> (try split) <;> simp only [decide_eq_true_eq] <;> omega
      · simp only [hy, hm, ne_eq, not_true_eq_false, if_false, hd, not_false_eq_true, if_true, decide_eq_true_eq]
        have : a.date.ord ≠ b.date.ord := fun e => hd (by rw [he.1 e])
        simp_all
    · simp only [hy, ne_eq, not_true_eq_false, if_false, hm, not_false_eq_true, if_true, decide_eq_true_eq]
      have : a.date.ord ≠ b.date.ord := fun e => hm (by rw [he.1 e])
      simp_all
  · simp only [ne_eq, hy, not_false_eq_true, if_true, decide_eq_true_eq]
    have : a.date.ord ≠ b.date.ord := fun e => hy (by rw [he.1 e])
    simp_all

theorem safeCreate_date_valid (y : Int) (m d : Nat) : (safeCreateFromMinValue y m d).date.valid = true := by
  unfold safeCreateFromMinValue safeCreateFromValue
  split
  · rename_i h
    unfold isValidDate at h
    simp only [Bool.and_eq_true] at h
    exact h.2
  · decide

theorem le_eq_not_lt (a b : DateTime) : a.le b = !(b.lt a) := by
  rw [Bool.eq_iff_iff]
  simp only [Bool.not_eq_true', ← Bool.not_eq_true, le_iff, lt_iff]
  omega

theorem isValidDate_agree (y : Int) (m d : Nat) : RTV.DtRes.isValidDate y m d = isValidDate y m d := by
  unfold RTV.DtRes.isValidDate RTV.DtRes.mkDateTime isValidDate
  rw [Bool.eq_iff_iff]
  simp only [Bool.and_eq_true, decide_eq_true_eq, valid_iff, Int.toNat_natCast]
  constructor
  · intro h
    split at h
    · rename_i c; omega
    · simp at h
  · intro h
    rw [if_pos (by omega)]
    simp

theorem isLeapYear_agree (y : Int) : RTV.DtRes.isLeapYear y = isLeapYear y := by
  unfold RTV.DtRes.isLeapYear isLeapYear
  simp only [Int.fmod_eq_emod_of_nonneg _ (show (0 : Int) ≤ 4 by omega), Int.fmod_eq_emod_of_nonneg _ (show (0 : Int) ≤ 100 by omega),
    Int.fmod_eq_emod_of_nonneg _ (show (0 : Int) ≤ 400 by omega)]

/-- The two models of `DateUtils.generate_dates` — `RTV.DateUtils.generateDates` (C08 / C09: date + seconds, ordinals) and
`RTV.DtRes.generateDates` (C06 / C07: field tuples, CPython's tuple comparison) — compute the same pair for every flag,
every valid reference datetime, every year (any integer) and every month / day. -/
theorem generateDates_models_agree (ny : Bool) (R : DateTime) (hv : R.date.valid = true) (year : Int) (m d : Nat) :
    RTV.DtRes.generateDates ny (toDT R) year m d =
      (toDT (generateDates ny R year m d).1, toDT (generateDates ny R year m d).2) := by
  have lt1 : ∀ z : Int, (toDT (safeCreateFromMinValue z m d)).lt (toDT R) = (safeCreateFromMinValue z m d).lt R :=
    fun z => lt_agree _ R (safeCreate_date_valid z m d) hv
  have feb : ((m : Int) = 2 ∧ (d : Int) = 29) ↔ isFeb29th m d = true := by
    unfold isFeb29th; simp only [Bool.and_eq_true, beq_iff_eq]; omega
  unfold RTV.DtRes.generateDates generateDates
  simp only [mk_agree, lt1, isValidDate_agree, isLeapYear_agree, le_eq_not_lt,
    Int.fdiv_eq_ediv_of_nonneg _ (show (0 : Int) ≤ 4 by omega)]
  cases ny
  · simp
  · simp only [if_true]
    by_cases hf : isFeb29th m d = true
    · rw [if_pos (feb.2 hf), if_pos hf]
      split <;> (try split) <;> rfl
    · rw [if_neg (fun h => hf (feb.1 h)), if_neg hf]
      split <;> split <;> rfl
end RTV.DateUtils
