import RTV.Lemmas.Periods
set_option linter.unusedVariables false
set_option linter.unusedSimpArgs false
/-!
# C10 / C11 for the period parsers — what `BaseDatePeriodParser` computes is well formed

Theorems about `RTV.Model.Periods` (the computations of `base_dateperiod.py` with the regex outcomes as inputs; tied to
the real methods by `harness/lib/periodcorr.py`). For every reference and every valid input they state: both ends are
valid dates (`rangeOK`: valid, begin < end, not the marker `0001-01-01`, which is what `period_wellformed_daterange` of
Props/C11 needs to conclude `shapeOK`), and a definite `(start,end,P…)` TIMEX satisfies `RTV.WF.tripleOK`
(through `date_triple_ok`, the generalisation of `between_dates_consistent` of Props/C10). Where the code yields
begin ≥ end, the marker date, or a TIMEX that disagrees with its values, the exact condition is stated and a witness
is proved by `decide`.
-/
namespace RTV.Periods
open RTV.Cal RTV.DateUtils RTV.WF

/-! ## `__parse_month_with_year` -/

/-- "May 2020" (or "May of next year" with `year = reference.year + swift`): `[1st of the month, 1st of the next
month)`, both valid dates, begin < end, TIMEX `YYYY-MM` — for every month and every year 1..9999 except 9999-12. -/
theorem month_with_year_wellformed (R : DateTime) (m : Nat) (y : Nat) (sw : Int)
    (h1 : 1 ≤ y) (h2 : y ≤ 9999) (h3 : 1 ≤ m) (h4 : m ≤ 12) (hn : ¬ (y = 9999 ∧ m = 12)) :
    monthWithYear R m (some (y : Int)) sw =
      .ok (pad4 y ++ [45] ++ pad2 m) ⟨⟨y, m, 1⟩, 0⟩ ⟨nextFirst y m, 0⟩ ⟨⟨y, m, 1⟩, 0⟩ ⟨nextFirst y m, 0⟩ ∧
    (⟨y, m, 1⟩ : Date).valid = true ∧ (nextFirst y m).valid = true ∧ (⟨y, m, 1⟩ : Date).ord < (nextFirst y m).ord := by
  have v0 := valid_first y m h1 h2 h3 h4
  have ln := lt_of_next_first y m h1 h2 h3 h4 hn
  refine ⟨?_, v0, ln.2, ln.1⟩
  unfold monthWithYear
  simp only [mk_valid y m 1 v0]
  unfold addDelta
  simp only [addMonth_first y m h1 h2 h3 h4 hn, Option.map_some, Option.bind_some]
  have z := addDelta_zero ⟨nextFirst y m, 0⟩ ln.2
  unfold addDelta nextFirst at z
  simp only at z
  rw [z]
  simp [ofOpt, nextFirst]

/-- without a year in the text the year is `reference.year + swift`; no result unless `swift ≥ 1`. -/
theorem month_with_year_relative (R : DateTime) (m : Nat) (sw : Int) :
    monthWithYear R m none sw = (if sw < 1 then .noResult else monthWithYear R m (some ((R.date.y : Int) + sw)) sw) := by
  unfold monthWithYear
  by_cases c : sw < 1 <;> simp [c]

example : monthWithYear ⟨⟨2020, 1, 29⟩, 52200⟩ 5 none 1 =
    .ok ("2021-05".toList.map Char.toNat) ⟨⟨2021, 5, 1⟩, 0⟩ ⟨⟨2021, 6, 1⟩, 0⟩ ⟨⟨2021, 5, 1⟩, 0⟩ ⟨⟨2021, 6, 1⟩, 0⟩ := by decide

/-! ## `_parse_year` -/

/-- "2016": `[Jan 1 y, Jan 1 y+1)`, TIMEX `YYYY`, for 1 ≤ y ≤ 9998. -/
theorem parse_year_wellformed (y : Nat) (h1 : 1 ≤ y) (h2 : y ≤ 9998) :
    parseYear (y : Int) = .ok (pad4 y) ⟨⟨y, 1, 1⟩, 0⟩ ⟨⟨y + 1, 1, 1⟩, 0⟩ ⟨⟨y, 1, 1⟩, 0⟩ ⟨⟨y + 1, 1, 1⟩, 0⟩ ∧
    (⟨y, 1, 1⟩ : Date).valid = true ∧ (⟨y + 1, 1, 1⟩ : Date).valid = true ∧
    (⟨y, 1, 1⟩ : Date).ord < (⟨y + 1, 1, 1⟩ : Date).ord := by
  have v0 := valid_jan1 y h1 (by omega)
  have v1 := valid_jan1 (y + 1) (by omega) (by omega)
  refine ⟨?_, v0, v1, ord_lt_of_lexLt _ _ v0 v1 (Or.inl (by simp))⟩
  unfold parseYear
  simp only [mk_valid y 1 1 v0, int_succ, mk_valid (y + 1) 1 1 v1, Int.toNat_natCast]

/-- Where it yields begin > end: the year 9999 (the end is the marker `0001-01-01`). -/
theorem parse_year_9999_end_is_min_value :
    parseYear 9999 = .ok (pad4 9999) ⟨⟨9999, 1, 1⟩, 0⟩ DateUtils.minValue ⟨⟨9999, 1, 1⟩, 0⟩ DateUtils.minValue := by decide

/-! ## `_parse_half_year` -/

/-- "first half of 2020" (`H1 2020`): `[Jan 1, Jul 1)`; the emitted triple `(begin,end,P6M)` satisfies `tripleOK` and the
range is a well-formed date range — for every year 2..9998. -/
theorem half_year_first_ok (R : DateTime) (y : Nat) (sw : Int) (h1 : 2 ≤ y) (h2 : y ≤ 9998) :
    halfYear R (some (y : Int)) sw 1 =
      .ok (dateTriple ⟨y, 1, 1⟩ ⟨y, 7, 1⟩ 6 77) ⟨⟨y, 1, 1⟩, 0⟩ ⟨⟨y, 7, 1⟩, 0⟩ ⟨⟨y, 1, 1⟩, 0⟩ ⟨⟨y, 7, 1⟩, 0⟩ ∧
    tripleOK (dateTriple ⟨y, 1, 1⟩ ⟨y, 7, 1⟩ 6 77) (some (formatDate ⟨y, 1, 1⟩)) (some (formatDate ⟨y, 7, 1⟩)) = true ∧
    rangeOK ⟨⟨y, 1, 1⟩, 0⟩ ⟨⟨y, 7, 1⟩, 0⟩ := by
  have v11 := valid_jan1 y (by omega) (by omega)
  have v71 := valid_md y 7 1 (by omega) (by omega) (by omega) (by omega) (by omega) (by omega)
  have n6 : natStr 6 = [54] := by decide
  refine ⟨?_, date_triple_ok _ _ v11 v71 6 77 .MON (by simp) ?_, v11, v71,
    ord_lt_of_lexLt _ _ v11 v71 (Or.inr ⟨rfl, Or.inl (by simp)⟩), ne_min_of_year _ (by simp only; omega), ne_min_of_year _ (by simp only; omega)⟩
  · unfold halfYear mkOverflow
    simp only [show (((1 : Int) - 1) * 6 + 1).toNat = 1 by decide, show (((1 : Int)) * 6 + 1).toNat = 7 by decide]
    simp [mk_valid y 1 1 v11, mk_valid y 7 1 v71, dateTriple, luisOf, n6]
  · show ((y * 12 + 7 : Nat) : Int) - ((y * 12 + 1 : Nat) : Int) = ((6 : Nat) : Int) ∧ (1 : Nat) = 1
    exact ⟨by omega, rfl⟩

/-- "second half of 2020" (`H2 2020`): `[Jul 1, Jan 1 of the next year)` with `(begin,end,P6M)`. -/
theorem half_year_second_ok (R : DateTime) (y : Nat) (sw : Int) (h1 : 1 ≤ y) (h2 : y ≤ 9998) :
    halfYear R (some (y : Int)) sw 2 =
      .ok (dateTriple ⟨y, 7, 1⟩ ⟨y + 1, 1, 1⟩ 6 77) ⟨⟨y, 7, 1⟩, 0⟩ ⟨⟨y + 1, 1, 1⟩, 0⟩ ⟨⟨y, 7, 1⟩, 0⟩ ⟨⟨y + 1, 1, 1⟩, 0⟩ ∧
    tripleOK (dateTriple ⟨y, 7, 1⟩ ⟨y + 1, 1, 1⟩ 6 77) (some (formatDate ⟨y, 7, 1⟩)) (some (formatDate ⟨y + 1, 1, 1⟩)) = true ∧
    rangeOK ⟨⟨y, 7, 1⟩, 0⟩ ⟨⟨y + 1, 1, 1⟩, 0⟩ := by
  have v71 := valid_md y 7 1 h1 (by omega) (by omega) (by omega) (by omega) (by omega)
  have vn := valid_jan1 (y + 1) (by omega) (by omega)
  have n6 : natStr 6 = [54] := by decide
  refine ⟨?_, date_triple_ok _ _ v71 vn 6 77 .MON (by simp) ?_, v71, vn,
    ord_lt_of_lexLt _ _ v71 vn (Or.inl (by simp)), by simp, ne_min_of_year _ (by simp only; omega)⟩
  · unfold halfYear mkOverflow
    simp only [show (((2 : Int) - 1) * 6 + 1).toNat = 7 by decide, show (((2 : Int)) * 6 + 1).toNat = 13 by decide]
    have e13 : ((y : Int) + ((13 / 12 : Nat) : Int)) = ((y + 1 : Nat) : Int) := by omega
    simp only [show (13 : Nat) > 12 by omega, if_true, show ¬ ((7 : Nat) > 12) by omega, if_false, show (13 % 12 : Nat) = 1 by decide]
    rw [e13, mk_valid y 7 1 v71, mk_valid (y + 1) 1 1 vn]
    simp [dateTriple, luisOf, n6]
  · show (((y + 1) * 12 + 1 : Nat) : Int) - ((y * 12 + 7 : Nat) : Int) = ((6 : Nat) : Int) ∧ (1 : Nat) = 1
    exact ⟨by omega, rfl⟩

/-- without a year: `reference.year + swift` (`this / next / last year`), no result for `swift < -1`. -/
theorem half_year_relative (R : DateTime) (sw : Int) (h : Int) :
    halfYear R none sw h = (if sw < -1 then .noResult else halfYear R (some ((R.date.y : Int) + sw)) sw h) := by
  unfold halfYear
  by_cases c : sw < -1 <;> simp [c]


/-! ## `__parse_quarter` -/

def quarterBegin (y q : Nat) : Date := ⟨y, 3 * (q - 1) + 1, 1⟩
def quarterEnd (y q : Nat) : Date := if q = 4 then ⟨y + 1, 1, 1⟩ else ⟨y, 3 * q + 1, 1⟩

/-- "Q3 2020", "third quarter of 2020" (a year in the text; the quarter from a number or from the cardinal word):
`[1st of the quarter, 1st of the next quarter)`, triple `(begin,end,P3M)` consistent, well-formed range — every year
2..9998, every quarter 1..4. -/
theorem quarter_definite_ok (R : DateTime) (y q : Nat) (oq : Option Int) (os : Int) (number : Option Int) (cardinal : Int)
    (h1 : 2 ≤ y) (h2 : y ≤ 9998) (q1 : 1 ≤ q) (q4 : q ≤ 4)
    (hq : number = some (q : Int) ∨ (number = none ∧ oq = none ∧ cardinal = q)) :
    quarter R (some (y : Int)) oq os number cardinal =
      .ok (dateTriple (quarterBegin y q) (quarterEnd y q) 3 77) ⟨quarterBegin y q, 0⟩ ⟨quarterEnd y q, 0⟩
        ⟨quarterBegin y q, 0⟩ ⟨quarterEnd y q, 0⟩ ∧
    tripleOK (dateTriple (quarterBegin y q) (quarterEnd y q) 3 77) (some (formatDate (quarterBegin y q)))
      (some (formatDate (quarterEnd y q))) = true ∧
    rangeOK ⟨quarterBegin y q, 0⟩ ⟨quarterEnd y q, 0⟩ := by
  have q' : q = 1 ∨ q = 2 ∨ q = 3 ∨ q = 4 := by omega
  have vm : ∀ m, 1 ≤ m → m ≤ 12 → mk (y : Int) m 1 = ⟨⟨y, m, 1⟩, 0⟩ :=
    fun m a b => mk_valid y m 1 (valid_first y m (by omega) (by omega) a b)
  have vnext : mk ((y : Int) + 1) 1 1 = ⟨⟨y + 1, 1, 1⟩, 0⟩ := by
    rw [int_succ]; exact mk_valid (y + 1) 1 1 (valid_jan1 (y + 1) (by omega) (by omega))
  have ok1 := first_to_first_ok y 1 y 4 3 h1 (by omega) (by omega) (by omega) (by omega) (by omega) (by omega) (by omega)
  have ok2 := first_to_first_ok y 4 y 7 3 h1 (by omega) (by omega) (by omega) (by omega) (by omega) (by omega) (by omega)
  have ok3 := first_to_first_ok y 7 y 10 3 h1 (by omega) (by omega) (by omega) (by omega) (by omega) (by omega) (by omega)
  have ok4 := first_to_first_ok y 10 (y + 1) 1 3 h1 (by omega) (by omega) (by omega) (by omega) (by omega) (by omega) (by omega)
  rcases hq with hn | ⟨hn, ho, hc⟩
  · subst hn
    rcases q' with c | c | c | c <;> subst c
    · refine ⟨?_, by simpa [quarterBegin, quarterEnd] using ok1.1, by simpa [quarterBegin, quarterEnd] using ok1.2⟩
      unfold quarter
      simp [mkOverflow, quarterBegin, quarterEnd, vm 1 (by omega) (by omega), vm 4 (by omega) (by omega), dateTriple, luisOf, natStr3]
    · refine ⟨?_, by simpa [quarterBegin, quarterEnd] using ok2.1, by simpa [quarterBegin, quarterEnd] using ok2.2⟩
      unfold quarter
      simp [mkOverflow, quarterBegin, quarterEnd, vm 4 (by omega) (by omega), vm 7 (by omega) (by omega), dateTriple, luisOf, natStr3]
    · refine ⟨?_, by simpa [quarterBegin, quarterEnd] using ok3.1, by simpa [quarterBegin, quarterEnd] using ok3.2⟩
      unfold quarter
      simp [mkOverflow, quarterBegin, quarterEnd, vm 7 (by omega) (by omega), vm 10 (by omega) (by omega), dateTriple, luisOf, natStr3]
    · refine ⟨?_, by simpa [quarterBegin, quarterEnd] using ok4.1, by simpa [quarterBegin, quarterEnd] using ok4.2⟩
      unfold quarter
      simp [mkOverflow, quarterBegin, quarterEnd, vm 10 (by omega) (by omega), vnext, dateTriple, luisOf, natStr3]
  · subst hn ho hc
    rcases q' with c | c | c | c <;> subst c
    · refine ⟨?_, by simpa [quarterBegin, quarterEnd] using ok1.1, by simpa [quarterBegin, quarterEnd] using ok1.2⟩
      unfold quarter
      simp [mkOverflow, quarterBegin, quarterEnd, vm 1 (by omega) (by omega), vm 4 (by omega) (by omega), dateTriple, luisOf, natStr3]
    · refine ⟨?_, by simpa [quarterBegin, quarterEnd] using ok2.1, by simpa [quarterBegin, quarterEnd] using ok2.2⟩
      unfold quarter
      simp [mkOverflow, quarterBegin, quarterEnd, vm 4 (by omega) (by omega), vm 7 (by omega) (by omega), dateTriple, luisOf, natStr3]
    · refine ⟨?_, by simpa [quarterBegin, quarterEnd] using ok3.1, by simpa [quarterBegin, quarterEnd] using ok3.2⟩
      unfold quarter
      simp [mkOverflow, quarterBegin, quarterEnd, vm 7 (by omega) (by omega), vm 10 (by omega) (by omega), dateTriple, luisOf, natStr3]
    · refine ⟨?_, by simpa [quarterBegin, quarterEnd] using ok4.1, by simpa [quarterBegin, quarterEnd] using ok4.2⟩
      unfold quarter
      simp [mkOverflow, quarterBegin, quarterEnd, vm 10 (by omega) (by omega), vnext, dateTriple, luisOf, natStr3]


/-- "this / next / last quarter": the quarter containing the reference's month shifted by `sw`, wrapping over the year
— it is the definite quarter `(Y, Q)` with `Y * 4 + (Q − 1) = R.year * 4 + (R.month − 1) / 3 + sw` (so
`quarter_definite_ok` applies to it). -/
theorem quarter_relative (R : DateTime) (hv : R.date.valid = true) (sw : Int) (os : Int) (c : Int)
    (hsw : -1 ≤ sw ∧ sw ≤ 1) :
    ∃ Y Q : Nat, 1 ≤ Q ∧ Q ≤ 4 ∧ ((Y : Int) * 4 + ((Q : Int) - 1) = (R.date.y : Int) * 4 + ((R.date.m : Int) - 1) / 3 + sw) ∧
      quarter R none (some sw) os none c = quarter R (some (Y : Int)) none os (some (Q : Int)) c := by
  have hvy := (valid_iff R.date).1 hv
  by_cases c1 : ((R.date.m : Int) + 2) / 3 + sw ≤ 0
  · refine ⟨R.date.y - 1, (((R.date.m : Int) + 2) / 3 + sw + 4).toNat, by omega, by omega, by omega, ?_⟩
    unfold quarter
    simp only [Option.isSome_some, if_true, c1]
    have e1 : ((((R.date.m : Int) + 2) / 3 + sw + 4).toNat : Int) = ((R.date.m : Int) + 2) / 3 + sw + 4 := by omega
    have e2 : ((R.date.y - 1 : Nat) : Int) = (R.date.y : Int) - 1 := by omega
    simp [e1, e2]
  · by_cases c2 : ((R.date.m : Int) + 2) / 3 + sw > 4
    · refine ⟨R.date.y + 1, (((R.date.m : Int) + 2) / 3 + sw - 4).toNat, by omega, by omega, by omega, ?_⟩
      unfold quarter
      simp only [Option.isSome_some, if_true, c1, c2, if_false]
      have e1 : ((((R.date.m : Int) + 2) / 3 + sw - 4).toNat : Int) = ((R.date.m : Int) + 2) / 3 + sw - 4 := by omega
      simp [e1]
    · refine ⟨R.date.y, (((R.date.m : Int) + 2) / 3 + sw).toNat, by omega, by omega, by omega, ?_⟩
      unfold quarter
      simp only [Option.isSome_some, if_true, c1, c2, if_false]
      have e1 : ((((R.date.m : Int) + 2) / 3 + sw).toNat : Int) = ((R.date.m : Int) + 2) / 3 + sw := by omega
      simp [e1]

example : quarter ⟨⟨2020, 1, 29⟩, 52200⟩ none (some (-1)) 0 none 0 =
    .ok ("(2019-10-01,2020-01-01,P3M)".toList.map Char.toNat) ⟨⟨2019, 10, 1⟩, 0⟩ ⟨⟨2020, 1, 1⟩, 0⟩ ⟨⟨2019, 10, 1⟩, 0⟩ ⟨⟨2020, 1, 1⟩, 0⟩ := by
  decide
/-- "the third quarter" (no year, no order word): TIMEX with an open year, the future / past values are the quarter of
two neighbouring years. -/
example : quarter ⟨⟨2020, 1, 29⟩, 52200⟩ none none (-10) none 3 =
    .ok ("(XXXX-07-01,XXXX-10-01,P3M)".toList.map Char.toNat) ⟨⟨2020, 7, 1⟩, 0⟩ ⟨⟨2020, 10, 1⟩, 0⟩ ⟨⟨2019, 7, 1⟩, 0⟩ ⟨⟨2019, 10, 1⟩, 0⟩ := by
  decide


/-! ## `_parse_simple_case` ("from 4 to 22 January 2020", "from 4 to 22 January", "from 4 to 22 next month") -/

theorem luis_some (y m d : Nat) : luis (some (y : Int)) m d = formatDate ⟨y, m, d⟩ := by
  simp [luis, formatDate]

theorem same_month_ord (y m b e : Nat) (h : b ≤ e) : (⟨y, m, e⟩ : Date).ord - (⟨y, m, b⟩ : Date).ord = e - b := by
  simp only [Date.ord]; omega

theorem intStr_nonneg (a b : Nat) (h : a ≤ b) : intStr ((b : Int) - a) = natStr (b - a) := by
  unfold intStr
  rw [if_neg (by omega)]
  congr 1; omega

/-- Year and month named, both days exist, `begin_day ≤ end_day`: the values are those two dates (future = past), the
TIMEX is the `dayTriple` of Props/C10 and therefore satisfies `tripleOK`; with `begin_day < end_day` the range is well
formed. For every reference. -/
theorem simple_case_definite_ok (R : DateTime) (y m bd ed : Nat) (rs : Int) (rf : Bool)
    (hb : (⟨y, m, bd⟩ : Date).valid = true) (he : (⟨y, m, ed⟩ : Date).valid = true) (hle : bd ≤ ed) :
    simpleCase R bd ed (some (y : Int)) (some m) rs rf =
      .ok (dayTriple ⟨y, m, bd⟩ ⟨y, m, ed⟩) ⟨⟨y, m, bd⟩, 0⟩ ⟨⟨y, m, ed⟩, 0⟩ ⟨⟨y, m, bd⟩, 0⟩ ⟨⟨y, m, ed⟩, 0⟩ ∧
    tripleOK (dayTriple ⟨y, m, bd⟩ ⟨y, m, ed⟩) (some (formatDate ⟨y, m, bd⟩)) (some (formatDate ⟨y, m, ed⟩)) = true ∧
    (bd < ed → 2 ≤ y → rangeOK ⟨⟨y, m, bd⟩, 0⟩ ⟨⟨y, m, ed⟩, 0⟩) := by
  have hord : (⟨y, m, bd⟩ : Date).ord ≤ (⟨y, m, ed⟩ : Date).ord := by simp only [Date.ord]; omega
  refine ⟨?_, between_dates_consistent _ _ hb he hord, ?_⟩
  · unfold simpleCase
    simp only [Option.isNone_some, Bool.false_and, Bool.false_eq_true, if_false, Int.toNat_natCast, luis_some,
      mk_valid y m bd hb, mk_valid y m ed he, intStr_nonneg bd ed hle]
    simp [dayTriple, same_month_ord y m bd ed hle]
  · intro hlt hy
    exact ⟨hb, he, by simp only [Date.ord]; omega, ne_min_of_year _ hy, ne_min_of_year _ hy⟩

/-- No year in the text (month named): the future and the past value are the same days in two consecutive years —
the year of the reference and the one after it when the begin day (at midnight) lies before the reference, else the
year before and the year of the reference; both ranges are well formed when both days exist in every year and
`begin_day < end_day`. The TIMEX `(XXXX-MM-DD,XXXX-MM-DD,P<n>D)` has open years. -/
theorem simple_case_open_year (R : DateTime) (hv : R.date.valid = true) (m bd ed : Nat) (rs : Int) (rf : Bool)
    (hb : everyYear m bd) (he : everyYear m ed) (hlt : bd < ed) (hy1 : 3 ≤ R.date.y) (hy2 : R.date.y ≤ 9998) :
    ∃ Y : Nat, (Y = R.date.y ∨ Y + 1 = R.date.y) ∧
      simpleCase R bd ed none (some m) rs rf =
        .ok ([40] ++ luis none m bd ++ [44] ++ luis none m ed ++ [44, 80] ++ natStr (ed - bd) ++ [68, 41])
          ⟨⟨Y + 1, m, bd⟩, 0⟩ ⟨⟨Y + 1, m, ed⟩, 0⟩ ⟨⟨Y, m, bd⟩, 0⟩ ⟨⟨Y, m, ed⟩, 0⟩ ∧
      rangeOK ⟨⟨Y + 1, m, bd⟩, 0⟩ ⟨⟨Y + 1, m, ed⟩, 0⟩ ∧ rangeOK ⟨⟨Y, m, bd⟩, 0⟩ ⟨⟨Y, m, ed⟩, 0⟩ := by
  have vy : ∀ y d, everyYear m d → 1 ≤ y → y ≤ 9999 → (⟨y, m, d⟩ : Date).valid = true :=
    fun y d h a b => valid_everyYear y m d h a b
  have rng : ∀ y, 2 ≤ y → y ≤ 9999 → rangeOK ⟨⟨y, m, bd⟩, 0⟩ ⟨⟨y, m, ed⟩, 0⟩ := by
    intro y a b
    exact ⟨vy y bd hb (by omega) b, vy y ed he (by omega) b, by simp only [Date.ord]; omega, ne_min_of_year _ a, ne_min_of_year _ a⟩
  have v0 := vy R.date.y bd hb (by omega) (by omega)
  have istr := intStr_nonneg bd ed (by omega)
  by_cases c : (DateTime.lt ⟨⟨R.date.y, m, bd⟩, 0⟩ R) = true
  · have nle : ¬ (DateTime.le R ⟨⟨R.date.y, m, bd⟩, 0⟩ = true) := by
      rw [lt_iff] at c; rw [le_iff]; simp only at c ⊢; omega
    refine ⟨R.date.y, Or.inl rfl, ?_, rng _ (by omega) (by omega), rng _ (by omega) (by omega)⟩
    unfold simpleCase
    simp only [Option.isNone_none, Int.toNat_natCast, mk_valid R.date.y m bd v0, c, nle, Bool.true_and, if_true,
      Bool.and_false, Bool.false_eq_true, if_false, istr, int_succ,
      mk_valid (R.date.y + 1) m bd (vy _ bd hb (by omega) (by omega)),
      mk_valid (R.date.y + 1) m ed (vy _ ed he (by omega) (by omega)),
      mk_valid R.date.y m ed (vy _ ed he (by omega) (by omega))]
  · have le' : (DateTime.le R ⟨⟨R.date.y, m, bd⟩, 0⟩ = true) := by
      rw [lt_iff] at c; rw [le_iff]; simp only at c ⊢; omega
    have e1 : R.date.y - 1 + 1 = R.date.y := by omega
    refine ⟨R.date.y - 1, Or.inr e1, ?_, by rw [e1]; exact rng _ (by omega) (by omega), rng _ (by omega) (by omega)⟩
    unfold simpleCase
    simp only [Option.isNone_none, Int.toNat_natCast, mk_valid R.date.y m bd v0, c, le', Bool.true_and, if_true,
      Bool.and_false, Bool.false_eq_true, if_false, istr, int_pred _ (show 1 ≤ R.date.y by omega), e1,
      mk_valid (R.date.y - 1) m bd (vy _ bd hb (by omega) (by omega)),
      mk_valid (R.date.y - 1) m ed (vy _ ed he (by omega) (by omega)),
      mk_valid R.date.y m ed (vy _ ed he (by omega) (by omega))]

/-- Where the code yields begin > end, the marker date, or the wrong month (witnesses, as the implementation computes
them): (1) `from 22 to 4 January` → duration `P-18D`, begin after end; (2) `from 28 to 31 February` → the end is
`0001-01-01`; (3) a relative month that leaves the year: `… last month` asked in January stays in January (of the year
before), `… next month` asked in December answers December of the next year. -/
theorem simple_case_witnesses :
    simpleCase ⟨⟨2020, 1, 29⟩, 52200⟩ 22 4 none (some 1) 0 false =
      .ok ("(XXXX-01-22,XXXX-01-04,P-18D)".toList.map Char.toNat) ⟨⟨2021, 1, 22⟩, 0⟩ ⟨⟨2021, 1, 4⟩, 0⟩ ⟨⟨2020, 1, 22⟩, 0⟩ ⟨⟨2020, 1, 4⟩, 0⟩ ∧
    simpleCase ⟨⟨2020, 1, 29⟩, 52200⟩ 28 31 none (some 2) 0 false =
      .ok ("(XXXX-02-28,XXXX-02-31,P3D)".toList.map Char.toNat) ⟨⟨2020, 2, 28⟩, 0⟩ DateUtils.minValue ⟨⟨2019, 2, 28⟩, 0⟩ DateUtils.minValue ∧
    simpleCase ⟨⟨2020, 12, 15⟩, 0⟩ 4 22 none none 1 true =
      .ok ("(2021-12-04,2021-12-22,P18D)".toList.map Char.toNat) ⟨⟨2021, 12, 4⟩, 0⟩ ⟨⟨2021, 12, 22⟩, 0⟩ ⟨⟨2021, 12, 4⟩, 0⟩ ⟨⟨2021, 12, 22⟩, 0⟩ ∧
    simpleCase ⟨⟨2020, 1, 15⟩, 0⟩ 4 22 none none (-1) false =
      .ok ("(XXXX-01-04,XXXX-01-22,P18D)".toList.map Char.toNat) ⟨⟨2020, 1, 4⟩, 0⟩ ⟨⟨2020, 1, 22⟩, 0⟩ ⟨⟨2019, 1, 4⟩, 0⟩ ⟨⟨2019, 1, 22⟩, 0⟩ := by
  refine ⟨?_, ?_, ?_, ?_⟩ <;> decide +kernel


/-! ## `_parse_duration`: "past / next / in  N days | weeks | months | years" -/

/-- days per unit for the fixed-length units -/
def unitDays : PerUnit → Int
  | .D => 1 | .W => 7 | _ => 0

theorem swiftDate_fixed (x : DateTime) (hv : x.date.valid = true) (u : PerUnit) (hu : u = .D ∨ u = .W) (n : Nat) (pos : Bool)
    (r : DateTime) (h : swiftDate x u n pos = some r) :
    r.date.valid = true ∧ r.secs = x.secs ∧
    (pos = true → (r.date.ord : Int) = x.date.ord + unitDays u * n) ∧
    (pos = false → (r.date.ord : Int) = x.date.ord - unitDays u * n) := by
  unfold swiftDate at h
  by_cases c : n = 0
  · subst c; simp only [if_true, Option.some.injEq] at h; subst h
    exact ⟨hv, rfl, by simp, by simp⟩
  · rw [if_neg c] at h
    rcases hu with hu | hu <;> subst hu <;> simp only at h
    · have s := addDays_spec x hv _ r h
      refine ⟨s.1, s.2.2, ?_, ?_⟩ <;> intro hp <;> subst hp <;> rw [s.2.1] <;> simp [unitDays] <;> omega
    · have s := addDays_spec x hv _ r h
      refine ⟨s.1, s.2.2, ?_, ?_⟩ <;> intro hp <;> subst hp <;> rw [s.2.1] <;> simp [unitDays] <;> omega

/-- what `durationPeriod` computes for days and weeks, on ordinals: past = `[R − kN, R]`, next = `[R + 1, R + 1 + kN]`,
in = `[R + 1 + kN − k, R + 1 + kN]` with `k` = 1 (days) or 7 (weeks); the count written is `N`, for "in" it is 1. -/
def durBounds (R : Int) (mode : DurMode) (k : Int) (n : Int) : Int × Int × Int :=
  match mode with
  | .past => (R - k * n, R, n)
  | .next => (R + 1, R + 1 + k * n, n)
  | .inConn => (R + 1 + k * n - k, R + 1 + k * n, 1)

/-- Days and weeks, every reference, every `N ≥ 1`, all three prefixes: both ends valid, begin < end, time of day
kept, future = past, and the emitted `(begin,end,P<N>D|W)` satisfies `tripleOK`. -/
theorem duration_days_weeks_ok (R : DateTime) (hv : R.date.valid = true) (mode : DurMode) (u : PerUnit)
    (hu : u = .D ∨ u = .W) (n : Nat) (hn : 1 ≤ n) (t : Str) (b e pb pe : DateTime)
    (h : durationPeriod R mode u n = .ok t b e pb pe) :
    pb = b ∧ pe = e ∧ b.date.valid = true ∧ e.date.valid = true ∧ b.secs = R.secs ∧ e.secs = R.secs ∧
    ((b.date.ord : Int), (e.date.ord : Int)) =
      ((durBounds R.date.ord mode (unitDays u) n).1, (durBounds R.date.ord mode (unitDays u) n).2.1) ∧
    b.date.ord < e.date.ord ∧
    t = dateTriple b.date e.date (durBounds R.date.ord mode (unitDays u) n).2.2.toNat u.letter ∧
    tripleOK t (some (formatDate b.date)) (some (formatDate e.date)) = true := by
  have kn : 1 ≤ unitDays u * (n : Int) ∧ 1 ≤ unitDays u * ((1 : Nat) : Int) ∧ unitDays u * ((1 : Nat) : Int) ≤ unitDays u * (n : Int) := by
    rcases hu with c | c <;> subst c <;> simp [unitDays] <;> omega
  generalize hkn : unitDays u * (n : Int) = KN at kn
  generalize hk1 : unitDays u * ((1 : Nat) : Int) = K1 at kn
  -- one generic closing step once begin, end and the count are known
  have close : ∀ (b' e' : DateTime) (cnt : Nat), b'.date.valid = true → e'.date.valid = true →
      (e'.date.ord : Int) - b'.date.ord = unitDays u * cnt →
      tripleOK (dateTriple b'.date e'.date cnt u.letter) (some (formatDate b'.date)) (some (formatDate e'.date)) = true := by
    intro b' e' cnt vb ve hd
    rcases hu with c | c <;> subst c
    · exact date_triple_ok _ _ vb ve cnt 68 .D (by simp) (by simp only [durHolds]; simp [unitDays] at hd; omega)
    · exact date_triple_ok _ _ vb ve cnt 87 .W (by simp) (by simp only [durHolds]; simp [unitDays] at hd; omega)
  have tx : ∀ (b' e' : DateTime) (cnt : Nat),
      [40] ++ luisOf b' ++ [44] ++ luisOf e' ++ [44, 80] ++ natStr cnt ++ [u.letter, 41] = dateTriple b'.date e'.date cnt u.letter := by
    intro b' e' cnt; simp [dateTriple, luisOf]
  unfold durationPeriod at h
  cases mode with
  | past =>
    simp only at h
    cases hs : swiftDate R u n false with
    | none => simp [hs, ofOpt] at h
    | some b0 =>
      have s := swiftDate_fixed R hv u hu n false b0 hs
      have so := s.2.2.2 rfl
      rw [hkn] at so
      have hne : b0 ≠ R := by intro e0; rw [e0] at so; omega
      simp only [hs, Option.map_some, Option.bind_eq_bind, Option.bind_some, Option.pure_def, ofOpt, hne, ne_eq, not_false_eq_true, if_true,
        Option.getD_some, Res.ok.injEq, tx] at h
      obtain ⟨ht, hb, he, hpb, hpe⟩ := h
      subst hb he hpb hpe
      refine ⟨rfl, rfl, s.1, hv, s.2.1, rfl, ?_, by omega, ?_, ?_⟩
      · simp only [durBounds, hkn]; rw [so]
      · simp only [durBounds, Int.toNat_natCast]; exact ht.symm
      · rw [← ht]; exact close _ _ n s.1 hv (by rw [hkn]; omega)
  | next =>
    simp only at h
    cases h1 : DateUtils.addDays R 1 with
    | none => simp [h1, ofOpt] at h
    | some b0 =>
    have s1 := addDays_spec R hv 1 b0 h1
    cases hs : swiftDate b0 u n true with
    | none => simp [h1, hs, ofOpt] at h
    | some e0 =>
      have s := swiftDate_fixed b0 s1.1 u hu n true e0 hs
      have so := s.2.2.1 rfl
      rw [hkn] at so
      have hne : b0 ≠ e0 := by intro e'; rw [← e'] at so; omega
      simp only [h1, hs, Option.bind_eq_bind, Option.bind_some, Option.pure_def, ofOpt, hne, ne_eq, not_false_eq_true, if_true,
        Option.getD_some, Res.ok.injEq, tx] at h
      obtain ⟨ht, hb, he, hpb, hpe⟩ := h
      subst hb he hpb hpe
      refine ⟨rfl, rfl, s1.1, s.1, s1.2.2, by rw [s.2.1, s1.2.2], ?_, by omega, ?_, ?_⟩
      · simp only [durBounds, hkn]; rw [so, s1.2.1]
      · simp only [durBounds, Int.toNat_natCast]; exact ht.symm
      · rw [← ht]; exact close _ _ n s1.1 s.1 (by rw [hkn]; omega)
  | inConn =>
    simp only at h
    cases h1 : DateUtils.addDays R 1 with
    | none => simp [h1, ofOpt] at h
    | some b0 =>
    have s1 := addDays_spec R hv 1 b0 h1
    cases hs : swiftDate b0 u n true with
    | none => simp [h1, hs, ofOpt] at h
    | some e0 =>
    have s := swiftDate_fixed b0 s1.1 u hu n true e0 hs
    have so := s.2.2.1 rfl
    rw [hkn] at so
    cases hb : swiftDate e0 u 1 false with
    | none => simp [h1, hs, hb, ofOpt] at h
    | some b1 =>
      have sb := swiftDate_fixed e0 s.1 u hu 1 false b1 hb
      have sbo := sb.2.2.2 rfl
      rw [hk1] at sbo
      have hne : b1 ≠ e0 := by intro e'; rw [e'] at sbo; omega
      simp only [h1, hs, hb, Option.bind_eq_bind, Option.bind_some, Option.pure_def, ofOpt, hne, ne_eq, not_false_eq_true, if_true,
        Option.getD_some, Res.ok.injEq, tx] at h
      obtain ⟨ht, hb', he, hpb, hpe⟩ := h
      subst hb' he hpb hpe
      refine ⟨rfl, rfl, sb.1, s.1, by rw [sb.2.1, s.2.1, s1.2.2], by rw [s.2.1, s1.2.2], ?_, by omega, ?_, ?_⟩
      · simp only [durBounds, hkn]
        rw [sbo, so, s1.2.1]
        have : unitDays u = K1 := by rw [← hk1]; simp
        rw [this]
      · simp only [durBounds]; exact ht.symm
      · rw [← ht]; exact close _ _ 1 sb.1 s.1 (by rw [hk1]; omega)

/-- Months and years go through `datedelta`: the triple is consistent when the day of the month survives the shift
(first example) and is NOT when `datedelta` rolls forward into the next month (second: `next 2 months` asked on
2019-12-30 → `(2019-12-31,2020-03-01,P2M)`, three calendar months apart) or clamps to the month end (third:
`past 1 month` asked on 2020-03-31 → `(2020-02-29,2020-03-31,P1M)`, different day of the month). -/
theorem duration_months_witnesses :
    (durationPeriod ⟨⟨2020, 1, 29⟩, 0⟩ .next .M 2 =
        .ok ("(2020-01-30,2020-03-30,P2M)".toList.map Char.toNat) ⟨⟨2020, 1, 30⟩, 0⟩ ⟨⟨2020, 3, 30⟩, 0⟩ ⟨⟨2020, 1, 30⟩, 0⟩ ⟨⟨2020, 3, 30⟩, 0⟩ ∧
      tripleOK ("(2020-01-30,2020-03-30,P2M)".toList.map Char.toNat) (some ("2020-01-30".toList.map Char.toNat))
        (some ("2020-03-30".toList.map Char.toNat)) = true) ∧
    (durationPeriod ⟨⟨2019, 12, 30⟩, 0⟩ .next .M 2 =
        .ok ("(2019-12-31,2020-03-01,P2M)".toList.map Char.toNat) ⟨⟨2019, 12, 31⟩, 0⟩ ⟨⟨2020, 3, 1⟩, 0⟩ ⟨⟨2019, 12, 31⟩, 0⟩ ⟨⟨2020, 3, 1⟩, 0⟩ ∧
      tripleOK ("(2019-12-31,2020-03-01,P2M)".toList.map Char.toNat) (some ("2019-12-31".toList.map Char.toNat))
        (some ("2020-03-01".toList.map Char.toNat)) = false) ∧
    (durationPeriod ⟨⟨2020, 3, 31⟩, 0⟩ .past .M 1 =
        .ok ("(2020-02-29,2020-03-31,P1M)".toList.map Char.toNat) ⟨⟨2020, 2, 29⟩, 0⟩ ⟨⟨2020, 3, 31⟩, 0⟩ ⟨⟨2020, 2, 29⟩, 0⟩ ⟨⟨2020, 3, 31⟩, 0⟩ ∧
      tripleOK ("(2020-02-29,2020-03-31,P1M)".toList.map Char.toNat) (some ("2020-02-29".toList.map Char.toNat))
        (some ("2020-03-31".toList.map Char.toNat)) = false) := by
  refine ⟨⟨?_, ?_⟩, ⟨?_, ?_⟩, ⟨?_, ?_⟩⟩ <;> decide +kernel

example : durationPeriod ⟨⟨2020, 1, 29⟩, 52200⟩ .inConn .W 2 =
    .ok ("(2020-02-06,2020-02-13,P1W)".toList.map Char.toNat) ⟨⟨2020, 2, 6⟩, 52200⟩ ⟨⟨2020, 2, 13⟩, 52200⟩ ⟨⟨2020, 2, 6⟩, 52200⟩ ⟨⟨2020, 2, 13⟩, 52200⟩ := by
  decide +kernel


/-! ### ISO week facts used by the week parsers -/

/-- a day inside the ISO year `Y` (between its week-1 Monday and the next one) has ISO year `Y` and ISO week
`(ord − week1Monday) / 7 + 1` -/
theorem isoWeek_of_ord (x : Date) (hv : x.valid = true) (Y : Nat) (hY : 1 ≤ Y)
    (h1 : isoWeek1Monday Y ≤ x.ord) (h2 : x.ord < isoWeek1Monday (Y + 1)) :
    (isoCalendar x).1 = Y ∧ (isoCalendar x).2.1 = (x.ord - isoWeek1Monday Y) / 7 + 1 ∧
    (isoCalendar x).2.2 = (x.ord - isoWeek1Monday Y) % 7 + 1 := by
  have s := isoCalendar_spec x hv
  simp only at s
  have hy : (isoCalendar x).1 = Y :=
    isoYear_unique _ _ x.ord s.2.2.2.2.2.1 hY (by omega) s.2.2.2.2.1 h1 h2
  rw [hy] at s
  refine ⟨hy, ?_, ?_⟩ <;> omega

/-- January 1st: weekday (Monday = 0) `wd`; ISO week 1 of the year starts `wd` days earlier when `wd ≤ 3`, else
`7 − wd` days later; and `isocalendar()[1]` of January 1st is 1 exactly when `wd ≤ 3`. -/
theorem jan1_week (y : Nat) (h1 : 1 ≤ y) (h2 : y ≤ 9999) :
    let J : Date := ⟨y, 1, 1⟩
    (weekdayOrd J.ord ≤ 3 → isoWeek1Monday y + weekdayOrd J.ord = J.ord ∧ (isoCalendar J).2.1 = 1) ∧
    (3 < weekdayOrd J.ord → isoWeek1Monday y + weekdayOrd J.ord = J.ord + 7 ∧ (isoCalendar J).2.1 ≠ 1) := by
  intro J
  have vJ : J.valid = true := valid_jan1 y h1 h2
  have w := isoWeek1Monday_spec y h1
  have wn := isoWeek1Monday_succ y h1
  have jo : J.ord = daysBeforeYear y + 1 := jan1_ord y
  have wdl := weekdayOrd_lt J.ord
  have hdef : isoWeek1Monday y = (if weekdayOrd J.ord > 3 then J.ord - weekdayOrd J.ord + 7 else J.ord - weekdayOrd J.ord) := by
    unfold isoWeek1Monday weekdayOrd; simp only; rfl
  have jpos : weekdayOrd J.ord ≤ J.ord := by
    by_cases c : y = 1
    · subst c; decide
    · have := dby_ge y (by omega); omega
  constructor
  · intro hle
    rw [if_neg (by omega)] at hdef
    have a : isoWeek1Monday y + weekdayOrd J.ord = J.ord := by omega
    have k := isoWeek_of_ord J vJ y h1 (by omega) (by omega)
    exact ⟨a, by rw [k.2.1]; omega⟩
  · intro hgt
    rw [if_pos hgt] at hdef
    have a : isoWeek1Monday y + weekdayOrd J.ord = J.ord + 7 := by omega
    refine ⟨a, ?_⟩
    -- January 1st lies before week 1 of `y`: it is in the last week (52 or 53) of `y − 1`
    have y2 : 2 ≤ y := by
      by_cases c : y = 1
      · subst c; revert hgt; decide
      · omega
    have wp := isoWeek1Monday_succ (y - 1) (by omega)
    have e : y - 1 + 1 = y := by omega
    rw [e] at wp
    have k := isoWeek_of_ord J vJ (y - 1) (by omega) (by omega) (by rw [e]; omega)
    rw [k.2.1]; omega

/-- the Thursday of the week containing January 1st: its ISO week is 1 exactly when January 1st is a Monday..Thursday -/
theorem jan1_thursday_week (y : Nat) (h1 : 1 ≤ y) (h2 : y ≤ 9999) (th : Date) (hv : th.valid = true)
    (ho : (th.ord : Int) = mondayOrd (⟨y, 1, 1⟩ : Date).ord + 3) :
    (weekdayOrd (⟨y, 1, 1⟩ : Date).ord ≤ 3 → (isoCalendar th).2.1 = 1 ∧ th.ord = isoWeek1Monday y + 3) ∧
    (3 < weekdayOrd (⟨y, 1, 1⟩ : Date).ord → (isoCalendar th).2.1 ≠ 1 ∧ th.ord + 4 = isoWeek1Monday y) := by
  have jw := jan1_week y h1 h2
  simp only at jw
  have m := mondayOrd_spec (⟨y, 1, 1⟩ : Date).ord (ord_range _ (valid_jan1 y h1 h2)).1
  have wn := isoWeek1Monday_succ y h1
  constructor
  · intro hle
    have a := (jw.1 hle).1
    have k := isoWeek_of_ord th hv y h1 (by omega) (by omega)
    exact ⟨by rw [k.2.1]; omega, by omega⟩
  · intro hgt
    have a := (jw.2 hgt).1
    have y2 : 2 ≤ y := by
      by_cases c : y = 1
      · subst c; revert hgt; decide
      · omega
    have wp := isoWeek1Monday_succ (y - 1) (by omega)
    have e : y - 1 + 1 = y := by omega
    rw [e] at wp
    have k := isoWeek_of_ord th hv (y - 1) (by omega) (by omega) (by rw [e]; omega)
    exact ⟨by rw [k.2.1]; omega, by omega⟩

/-! ## `__parse_which_week` ("week 12") -/

/-- "week N" of the reference's year: `[Monday of ISO week N, + 7 days)` — the Monday is
`_isoweek1monday(year) + 7 (N − 1)` — with TIMEX `YYYY-WNN`; and whenever that Monday still lies in the ISO year
(week N exists) `isocalendar()` of the begin is exactly `(year, N, 1)`, i.e. the TIMEX names the week of the values. -/
theorem which_week_spec (R : DateTime) (hv : R.date.valid = true) (num : Nat) (hn : 1 ≤ num) (t : Str) (b e pb pe : DateTime)
    (h : whichWeek R num = .ok t b e pb pe) :
    pb = b ∧ pe = e ∧ b.date.valid = true ∧ e.date.valid = true ∧
    b.date.ord = isoWeek1Monday R.date.y + 7 * (num - 1) ∧ e.date.ord = b.date.ord + 7 ∧
    t = pad4 R.date.y ++ [45, 87] ++ pad2 num ∧
    (b.date.ord < isoWeek1Monday (R.date.y + 1) → isoCalendar b.date = (R.date.y, num, 1)) := by
  have hvy := (valid_iff R.date).1 hv
  have vJ := valid_jan1 R.date.y hvy.1 hvy.2.1
  unfold whichWeek at h
  simp only [mk_valid R.date.y 1 1 vJ, Int.toNat_natCast] at h
  cases h1 : this ⟨⟨R.date.y, 1, 1⟩, 0⟩ 4 with
  | none => simp [h1, ofOpt] at h
  | some th =>
  have s1 := this_spec ⟨⟨R.date.y, 1, 1⟩, 0⟩ vJ 4 th h1
  rw [show target 4 = 4 by decide] at s1
  have tw := jan1_thursday_week R.date.y hvy.1 hvy.2.1 th.date s1.1 (by have := s1.2.2; simp only at this; omega)
  have wdl := weekdayOrd_lt (⟨R.date.y, 1, 1⟩ : Date).ord
  -- the begin, whichever branch
  have key : ∀ r : DateTime, DateUtils.addDays th (7 * (if (isoCalendar th.date).2.1 = 1 then (num : Int) - 1 else num) - 3) = some r →
      r.date.valid = true ∧ r.date.ord = isoWeek1Monday R.date.y + 7 * (num - 1) := by
    intro r hr
    have sr := addDays_spec th s1.1 _ r hr
    refine ⟨sr.1, ?_⟩
    by_cases c : weekdayOrd (⟨R.date.y, 1, 1⟩ : Date).ord ≤ 3
    · have a := tw.1 c
      rw [if_pos a.1] at sr
      omega
    · have a := tw.2 (by omega)
      rw [if_neg a.1] at sr
      omega
  simp only [h1, Option.bind_eq_bind, Option.bind_some, Option.pure_def, beq_iff_eq] at h
  cases h2 : DateUtils.addDays th (7 * (if (isoCalendar th.date).2.1 = 1 then (num : Int) - 1 else num) - 3) with
  | none => simp [h2, ofOpt] at h
  | some r =>
  have kr := key r h2
  simp only [h2, Option.bind_some] at h
  cases h3 : DateUtils.addDays r 7 with
  | none => simp [h3, ofOpt] at h
  | some e0 =>
  have s3 := addDays_spec r kr.1 7 e0 h3
  simp only [h3, Option.bind_some, ofOpt, Option.getD_some, Res.ok.injEq] at h
  obtain ⟨ht, hb, he, hpb, hpe⟩ := h
  subst hb he hpb hpe
  refine ⟨rfl, rfl, kr.1, s3.1, kr.2, by omega, ht.symm, ?_⟩
  intro hlt
  have k := isoWeek_of_ord r.date kr.1 R.date.y hvy.1 (by omega) hlt
  have e1 : (r.date.ord - isoWeek1Monday R.date.y) / 7 + 1 = num := by omega
  have e2 : (r.date.ord - isoWeek1Monday R.date.y) % 7 + 1 = 1 := by omega
  rw [Prod.ext_iff, Prod.ext_iff]
  exact ⟨k.1, by rw [k.2.1, e1], by rw [k.2.2, e2]⟩

example : whichWeek ⟨⟨2020, 1, 29⟩, 52200⟩ 12 =
    .ok ("2020-W12".toList.map Char.toNat) ⟨⟨2020, 3, 16⟩, 0⟩ ⟨⟨2020, 3, 23⟩, 0⟩ ⟨⟨2020, 3, 16⟩, 0⟩ ⟨⟨2020, 3, 23⟩, 0⟩ := by
  decide +kernel

/-! ## `_parse_week_of_year` ("first / third week of 2020", "… of next year") -/

theorem mondayOrd_add7 (n : Nat) (h : 1 ≤ n) : mondayOrd (n + 7) = mondayOrd n + 7 := by
  unfold mondayOrd weekdayOrd; omega

/-- A numbered week of a year (not "last"): the values are `[Monday of ISO week 1 + 7 (c − 1), + 7 days)`, i.e. ISO
week `c` of that year (`isocalendar()` of the begin is `(year, c, 1)` whenever week `c` exists), and the TIMEX carries
the ISO week number of the begin — hence `YYYY-Wcc` whenever week `c` exists (current code, after the fix; `fixed = false`
gives the week number of January 1st instead). -/
theorem week_of_year_numbered_spec_g (fx : Bool) (R : DateTime) (y : Nat) (h1 : 1 ≤ y) (h2 : y ≤ 9999) (c : Nat) (hc : 1 ≤ c) (sw : Int)
    (t : Str) (b e pb pe : DateTime) (h : weekOfYearG fx R false c (some (y : Int)) sw = .ok t b e pb pe) :
    pb = b ∧ pe = e ∧ b.date.valid = true ∧ e.date.valid = true ∧
    b.date.ord = isoWeek1Monday y + 7 * (c - 1) ∧ e.date.ord = b.date.ord + 7 ∧
    t = pad4 y ++ [45, 87] ++ pad2 (if fx then (isoCalendar b.date).2.1 else (isoCalendar ⟨y, 1, 1⟩).2.1) ∧
    (b.date.ord < isoWeek1Monday (y + 1) → isoCalendar b.date = (y, c, 1)) := by
  have vJ := valid_jan1 y h1 h2
  have jw := jan1_week y h1 h2
  simp only at jw
  have wdl := weekdayOrd_lt (⟨y, 1, 1⟩ : Date).ord
  have mJ := mondayOrd_spec (⟨y, 1, 1⟩ : Date).ord (ord_range _ vJ).1
  unfold weekOfYearG at h
  simp only [mk_valid y 1 1 vJ, Int.toNat_natCast, Bool.false_eq_true, if_false, Option.bind_eq_bind, Option.pure_def] at h
  cases h0 : this ⟨⟨y, 1, 1⟩, 0⟩ 1 with
  | none => simp [h0, ofOpt] at h
  | some m0 =>
  have s0 := this_spec ⟨⟨y, 1, 1⟩, 0⟩ vJ 1 m0 h0
  rw [show target 1 = 1 by decide] at s0
  simp only [h0, Option.bind_some] at h
  -- the Monday of ISO week 1, whichever branch
  have hm : ∀ m : DateTime, (if ((isoCalendar (⟨y, 1, 1⟩ : Date)).2.1 != 1) = true then
        (addDelta ⟨⟨y, 1, 1⟩, 0⟩ 0 0 7).bind fun x => this x 1 else some m0) = some m →
      m.date.valid = true ∧ m.date.ord = isoWeek1Monday y := by
    intro m hm
    by_cases cw : weekdayOrd (⟨y, 1, 1⟩ : Date).ord ≤ 3
    · have a := jw.1 cw
      have ne : ((isoCalendar (⟨y, 1, 1⟩ : Date)).2.1 != 1) = false := by simp [a.2]
      rw [ne] at hm
      simp only [Bool.false_eq_true, if_false, Option.some.injEq] at hm
      subst hm
      exact ⟨s0.1, by have := s0.2.2; simp only at this; omega⟩
    · have a := jw.2 (by omega)
      have ne : ((isoCalendar (⟨y, 1, 1⟩ : Date)).2.1 != 1) = true := by simp [a.2]
      rw [ne] at hm
      simp only [if_true, addDelta_days ⟨⟨y, 1, 1⟩, 0⟩ vJ] at hm
      cases h7 : DateUtils.addDays ⟨⟨y, 1, 1⟩, 0⟩ 7 with
      | none => simp [h7] at hm
      | some x =>
        have s7 := addDays_spec ⟨⟨y, 1, 1⟩, 0⟩ vJ 7 x h7
        simp only [h7, Option.bind_some] at hm
        have sm := this_spec x s7.1 1 m hm
        rw [show target 1 = 1 by decide] at sm
        have e7 : x.date.ord = (⟨y, 1, 1⟩ : Date).ord + 7 := by have := s7.2.1; simp only at this; omega
        refine ⟨sm.1, ?_⟩
        have := sm.2.2
        rw [e7, mondayOrd_add7 _ (ord_range _ vJ).1] at this
        omega
  cases hm0 : (if ((isoCalendar (⟨y, 1, 1⟩ : Date)).2.1 != 1) = true then
        (addDelta ⟨⟨y, 1, 1⟩, 0⟩ 0 0 7).bind fun x => this x 1 else some m0) with
  | none => rw [hm0] at h; simp [ofOpt] at h
  | some m =>
  have km := hm m hm0
  rw [hm0] at h
  simp only [Option.bind_some, addDelta_days m km.1] at h
  cases ht : DateUtils.addDays m (7 * ((c : Int) - 1)) with
  | none => simp [ht, ofOpt] at h
  | some tm =>
  have st := addDays_spec m km.1 _ tm ht
  simp only [ht, Option.bind_some, addDelta_days tm st.1] at h
  cases he : DateUtils.addDays tm 7 with
  | none => simp [he, ofOpt] at h
  | some e0 =>
  have se := addDays_spec tm st.1 7 e0 he
  simp only [he, Option.bind_some, ofOpt, Option.getD_some, Res.ok.injEq] at h
  obtain ⟨htx, hb, he', hpb, hpe⟩ := h
  subst hb he' hpb hpe
  have bo : tm.date.ord = isoWeek1Monday y + 7 * (c - 1) := by omega
  refine ⟨rfl, rfl, st.1, se.1, bo, by omega, htx.symm, ?_⟩
  intro hlt
  have k := isoWeek_of_ord tm.date st.1 y h1 (by omega) hlt
  have e1 : (tm.date.ord - isoWeek1Monday y) / 7 + 1 = c := by omega
  have e2 : (tm.date.ord - isoWeek1Monday y) % 7 + 1 = 1 := by omega
  rw [Prod.ext_iff, Prod.ext_iff]
  exact ⟨k.1, by rw [k.2.1, e1], by rw [k.2.2, e2]⟩

/-- **Current code**: a numbered week `c` of year `y` that exists (its Monday lies before ISO week 1 of `y + 1`) is
emitted as `[Monday, Monday + 7)` with TIMEX `YYYY-Wcc` — exactly the ISO week the TIMEX names, for every year and `c`. -/
theorem week_of_year_numbered_spec (R : DateTime) (y : Nat) (h1 : 1 ≤ y) (h2 : y ≤ 9999) (c : Nat) (hc : 1 ≤ c) (sw : Int)
    (t : Str) (b e pb pe : DateTime) (h : weekOfYear R false c (some (y : Int)) sw = .ok t b e pb pe)
    (hex : isoWeek1Monday y + 7 * (c - 1) < isoWeek1Monday (y + 1)) :
    pb = b ∧ pe = e ∧ b.date.valid = true ∧ e.date.valid = true ∧
    b.date.ord = isoWeek1Monday y + 7 * (c - 1) ∧ e.date.ord = b.date.ord + 7 ∧
    isoCalendar b.date = (y, c, 1) ∧ t = pad4 y ++ [45, 87] ++ pad2 c := by
  have s := week_of_year_numbered_spec_g true R y h1 h2 c hc sw t b e pb pe h
  have ic := s.2.2.2.2.2.2.2 (by rw [s.2.2.2.2.1]; exact hex)
  refine ⟨s.1, s.2.1, s.2.2.1, s.2.2.2.1, s.2.2.2.2.1, s.2.2.2.2.2.1, ic, ?_⟩
  have := s.2.2.2.2.2.2.1
  simp only [if_true, ic] at this
  exact this

/-- Pre-fix code: the TIMEX of a numbered week was right only for the FIRST week of a year whose January 1st is a
Monday..Thursday. -/
theorem week_of_year_timex_partial (y : Nat) (h1 : 1 ≤ y) (h2 : y ≤ 9999)
    (g : weekdayOrd (⟨y, 1, 1⟩ : Date).ord ≤ 3) : (isoCalendar ⟨y, 1, 1⟩).2.1 = 1 :=
  ((jan1_week y h1 h2).1 g).2

/-- Regression witnesses of the PRE-FIX code (the current code answers `2021-W03`, `2021-W01`, `2020-W03`, see
`week_of_year_timex_fixed_instances`): "the third week of next year" asked in 2020 → `2021-W53` for 2021-01-18 .. 25 (ISO 2021-W03);
"first week of 2021" → `2021-W53` for 2021-01-04 .. 11 (ISO 2021-W01); "third week of 2020" → `2020-W01`. -/
theorem week_of_year_timex_prefix_regression :
    weekOfYearPreFix ⟨⟨2020, 1, 29⟩, 0⟩ false 3 none 1 =
      .ok ("2021-W53".toList.map Char.toNat) ⟨⟨2021, 1, 18⟩, 0⟩ ⟨⟨2021, 1, 25⟩, 0⟩ ⟨⟨2021, 1, 18⟩, 0⟩ ⟨⟨2021, 1, 25⟩, 0⟩ ∧
    isoCalendar ⟨2021, 1, 18⟩ = (2021, 3, 1) ∧
    weekOfYearPreFix ⟨⟨2020, 1, 29⟩, 0⟩ false 1 (some 2021) (-10) =
      .ok ("2021-W53".toList.map Char.toNat) ⟨⟨2021, 1, 4⟩, 0⟩ ⟨⟨2021, 1, 11⟩, 0⟩ ⟨⟨2021, 1, 4⟩, 0⟩ ⟨⟨2021, 1, 11⟩, 0⟩ ∧
    isoCalendar ⟨2021, 1, 4⟩ = (2021, 1, 1) ∧
    weekOfYearPreFix ⟨⟨2020, 1, 29⟩, 0⟩ false 3 (some 2020) (-10) =
      .ok ("2020-W01".toList.map Char.toNat) ⟨⟨2020, 1, 13⟩, 0⟩ ⟨⟨2020, 1, 20⟩, 0⟩ ⟨⟨2020, 1, 13⟩, 0⟩ ⟨⟨2020, 1, 20⟩, 0⟩ := by
  refine ⟨?_, ?_, ?_, ?_, ?_⟩ <;> decide +kernel

theorem week_of_year_timex_fixed_instances :
    weekOfYear ⟨⟨2020, 1, 29⟩, 0⟩ false 3 none 1 =
      .ok ("2021-W03".toList.map Char.toNat) ⟨⟨2021, 1, 18⟩, 0⟩ ⟨⟨2021, 1, 25⟩, 0⟩ ⟨⟨2021, 1, 18⟩, 0⟩ ⟨⟨2021, 1, 25⟩, 0⟩ ∧
    weekOfYear ⟨⟨2020, 1, 29⟩, 0⟩ false 1 (some 2021) (-10) =
      .ok ("2021-W01".toList.map Char.toNat) ⟨⟨2021, 1, 4⟩, 0⟩ ⟨⟨2021, 1, 11⟩, 0⟩ ⟨⟨2021, 1, 4⟩, 0⟩ ⟨⟨2021, 1, 11⟩, 0⟩ := by
  refine ⟨?_, ?_⟩ <;> decide +kernel

/-- "last week of 2015": by construction the TIMEX week number is `isocalendar()[1]` of the begin. -/
example : weekOfYear ⟨⟨2020, 1, 29⟩, 0⟩ true 0 (some 2015) (-10) =
    .ok ("2015-W53".toList.map Char.toNat) ⟨⟨2015, 12, 28⟩, 0⟩ ⟨⟨2016, 1, 4⟩, 0⟩ ⟨⟨2015, 12, 28⟩, 0⟩ ⟨⟨2016, 1, 4⟩, 0⟩ := by
  decide +kernel


/-! ## `_compute_date`, `_get_week_of_month`, `_parse_week_of_month` -/

/-- `_compute_date(cardinal, weekday, month, year)` is the `cardinal`-th `weekday` (1 = Monday .. 7 = Sunday) on or
after the 1st of the month: `ord(1st) + ((weekday − isoweekday(1st)) mod 7) + 7 (cardinal − 1)`, at midnight. -/
theorem compute_date_spec (c : Int) (wd m : Nat) (y : Nat) (hw1 : 1 ≤ wd) (hw7 : wd ≤ 7)
    (hv : (⟨y, m, 1⟩ : Date).valid = true) (r : DateTime) (h : computeDate c wd m (y : Int) = some r) :
    r.date.valid = true ∧ r.secs = 0 ∧
    (r.date.ord : Int) = (⟨y, m, 1⟩ : Date).ord + (((wd : Int) - isoWeekdayOrd (⟨y, m, 1⟩ : Date).ord) % 7) + 7 * (c - 1) ∧
    isoWeekdayOrd r.date.ord = wd := by
  unfold computeDate at h
  rw [isValidDate_of_valid ⟨y, m, 1⟩ hv] at h
  simp only [if_true, Int.toNat_natCast] at h
  have mF := mondayOrd_spec (⟨y, m, 1⟩ : Date).ord (ord_range _ hv).1
  have wl := weekdayOrd_lt (⟨y, m, 1⟩ : Date).ord
  have tg : target wd = wd := by unfold target; rw [if_pos (by omega)]
  have wd0 : (wd == 0) = false := by simp; omega
  cases h0 : this ⟨⟨y, m, 1⟩, 0⟩ wd with
  | none => simp [h0] at h
  | some f0 =>
  have s0 := this_spec ⟨⟨y, m, 1⟩, 0⟩ hv wd f0 h0
  rw [tg] at s0
  simp only [h0, Option.bind_some, wd0, Bool.false_eq_true, if_false] at h
  have iw : (⟨y, m, 1⟩ : Date).isoWeekday = weekdayOrd (⟨y, m, 1⟩ : Date).ord + 1 := rfl
  have iwo : isoWeekdayOrd (⟨y, m, 1⟩ : Date).ord = weekdayOrd (⟨y, m, 1⟩ : Date).ord + 1 := rfl
  have fin : ∀ fw : DateTime, fw.date.valid = true → fw.secs = 0 →
      (fw.date.ord : Int) = (⟨y, m, 1⟩ : Date).ord + (((wd : Int) - isoWeekdayOrd (⟨y, m, 1⟩ : Date).ord) % 7) →
      addDelta fw 0 0 (7 * (c - 1)) = some r →
      (r.date.valid = true ∧ r.secs = 0 ∧
      (r.date.ord : Int) = (⟨y, m, 1⟩ : Date).ord + (((wd : Int) - isoWeekdayOrd (⟨y, m, 1⟩ : Date).ord) % 7) + 7 * (c - 1) ∧
      isoWeekdayOrd r.date.ord = wd) := by
    intro fw vf sf of hr
    rw [addDelta_days fw vf] at hr
    have sr := addDays_spec fw vf _ r hr
    have ro : (r.date.ord : Int) = (⟨y, m, 1⟩ : Date).ord + (((wd : Int) - isoWeekdayOrd (⟨y, m, 1⟩ : Date).ord) % 7) + 7 * (c - 1) := by
      rw [sr.2.1, of]
    refine ⟨sr.1, by rw [sr.2.2, sf], ro, ?_⟩
    have r1 := (ord_range r.date sr.1).1
    rw [iwo] at ro
    unfold isoWeekdayOrd
    unfold weekdayOrd at ro mF wl
    omega
  by_cases cl : wd < (⟨y, m, 1⟩ : Date).isoWeekday
  · rw [if_pos cl] at h
    cases hn : next ⟨⟨y, m, 1⟩, 0⟩ wd with
    | none => simp [hn] at h
    | some f1 =>
      have s1 := next_spec ⟨⟨y, m, 1⟩, 0⟩ hv wd f1 hn
      rw [tg] at s1
      simp only [hn, Option.bind_some] at h
      refine fin f1 s1.1 s1.2.1 ?_ h
      rw [iw] at cl; rw [iwo]
      have := s1.2.2; simp only at this
      omega
  · rw [if_neg cl] at h
    simp only [Option.bind_some] at h
    refine fin f0 s0.1 s0.2.1 ?_ h
    rw [iw] at cl; rw [iwo]
    have := s0.2.2; simp only at this
    omega

/-- Whatever the inputs: when `_get_week_of_month` yields a result, both the future and the past value are
`[a Monday, that Monday + 7 days)` of valid dates at midnight (so begin < end). -/
theorem week_of_month_ranges (R : DateTime) (c : Int) (m : Nat) (y : Nat) (noYear : Bool) (h2 : 2 ≤ y) (h9 : y ≤ 9998)
    (hm1 : 1 ≤ m) (hm2 : m ≤ 12) (t : Str) (fb fe pb pe : DateTime)
    (h : getWeekOfMonth R c m (y : Int) noYear = .ok t fb fe pb pe) :
    fb.date.valid = true ∧ fe.date.valid = true ∧ pb.date.valid = true ∧ pe.date.valid = true ∧
    isoWeekdayOrd fb.date.ord = 1 ∧ isoWeekdayOrd pb.date.ord = 1 ∧
    fe.date.ord = fb.date.ord + 7 ∧ pe.date.ord = pb.date.ord + 7 := by
  have vy : ∀ y', 1 ≤ y' → y' ≤ 9999 → (⟨y', m, 1⟩ : Date).valid = true := fun y' a b => valid_first y' m a b hm1 hm2
  -- a Monday stays a Monday after stepping back one week
  have back : ∀ (d r : DateTime), d.date.valid = true → isoWeekdayOrd d.date.ord = 1 →
      (if d.date.m ≠ m then addDelta d 0 0 (-7) else some d) = some r → r.date.valid = true ∧ isoWeekdayOrd r.date.ord = 1 := by
    intro d r vd md hr
    by_cases cm : d.date.m ≠ m
    · rw [if_pos cm, addDelta_days d vd] at hr
      have s := addDays_spec d vd (-7) r hr
      refine ⟨s.1, ?_⟩
      have r1 := (ord_range r.date s.1).1
      unfold isoWeekdayOrd at md ⊢; omega
    · rw [if_neg cm] at hr; simp only [Option.some.injEq] at hr; subst hr; exact ⟨vd, md⟩
  have cd : ∀ (c' : Int) (y' : Nat) (r : DateTime), 1 ≤ y' → y' ≤ 9999 → computeDate c' 1 m (y' : Int) = some r →
      r.date.valid = true ∧ isoWeekdayOrd r.date.ord = 1 := by
    intro c' y' r a b hr
    have s := compute_date_spec c' 1 m y' (by omega) (by omega) (vy y' a b) r hr
    exact ⟨s.1, s.2.2.2⟩
  have plus7 : ∀ (d r : DateTime), d.date.valid = true → addDelta d 0 0 7 = some r → r.date.valid = true ∧ r.date.ord = d.date.ord + 7 := by
    intro d r vd hr
    rw [addDelta_days d vd] at hr
    have s := addDays_spec d vd 7 r hr
    exact ⟨s.1, by omega⟩
  unfold getWeekOfMonth at h
  simp only [Option.bind_eq_bind, Option.pure_def] at h
  cases h0 : computeDate c 1 m (y : Int) with
  | none => simp [h0, ofOpt] at h
  | some seed0 =>
  have k0 := cd c y seed0 (by omega) (by omega) h0
  simp only [h0, Option.bind_some] at h
  cases h1 : (if seed0.date.m ≠ m then Option.map (fun s => (c - 1, s)) (addDelta seed0 0 0 (-7)) else some (c, seed0)) with
  | none => rw [h1] at h; simp [ofOpt] at h
  | some cs =>
  rw [h1] at h
  simp only [Option.bind_some] at h
  have ks : cs.2.date.valid = true ∧ isoWeekdayOrd cs.2.date.ord = 1 := by
    by_cases cm : seed0.date.m ≠ m
    · rw [if_pos cm] at h1
      cases hb : addDelta seed0 0 0 (-7) with
      | none => simp [hb] at h1
      | some s =>
        simp only [hb, Option.map_some, Option.some.injEq] at h1
        subst h1
        exact back seed0 s k0.1 k0.2 (by rw [if_pos cm]; exact hb)
    · rw [if_neg cm] at h1; simp only [Option.some.injEq] at h1; subst h1; exact k0
  have year1 : ((y : Int) + 1) = ((y + 1 : Nat) : Int) := by omega
  have yearm : ((y : Int) - 1) = ((y - 1 : Nat) : Int) := by omega
  cases hf : (if (noYear && cs.2.lt R) = true then
      (computeDate cs.1 1 m ((y : Int) + 1)).bind fun d => if d.date.m ≠ m then addDelta d 0 0 (-7) else some d
      else some cs.2) with
  | none => rw [hf] at h; simp [ofOpt] at h
  | some future =>
  rw [hf] at h
  simp only [Option.bind_some] at h
  have kf : future.date.valid = true ∧ isoWeekdayOrd future.date.ord = 1 := by
    by_cases cc : (noYear && cs.2.lt R) = true
    · rw [if_pos cc] at hf
      cases hc : computeDate cs.1 1 m ((y : Int) + 1) with
      | none => rw [hc] at hf; simp at hf
      | some d =>
        rw [hc] at hf
        simp only [Option.bind_some] at hf
        have kd := cd cs.1 (y + 1) d (by omega) (by omega) (by rw [← year1]; exact hc)
        exact back d future kd.1 kd.2 hf
    · rw [if_neg cc] at hf; simp only [Option.some.injEq] at hf; subst hf; exact ks
  cases hp : (if (noYear && R.le cs.2) = true then
      (computeDate cs.1 1 m ((y : Int) - 1)).bind fun d => if d.date.m ≠ m then addDelta d 0 0 (-7) else some d
      else some cs.2) with
  | none => rw [hp] at h; simp [ofOpt] at h
  | some past =>
  rw [hp] at h
  simp only [Option.bind_some] at h
  have kp : past.date.valid = true ∧ isoWeekdayOrd past.date.ord = 1 := by
    by_cases cc : (noYear && R.le cs.2) = true
    · rw [if_pos cc] at hp
      cases hc : computeDate cs.1 1 m ((y : Int) - 1) with
      | none => rw [hc] at hp; simp at hp
      | some d =>
        rw [hc] at hp
        simp only [Option.bind_some] at hp
        have kd := cd cs.1 (y - 1) d (by omega) (by omega) (by rw [← yearm]; exact hc)
        exact back d past kd.1 kd.2 hp
    · rw [if_neg cc] at hp; simp only [Option.some.injEq] at hp; subst hp; exact ks
  cases hfe : addDelta future 0 0 7 with
  | none => simp [hfe, ofOpt] at h
  | some fe0 =>
  cases hpe : addDelta past 0 0 7 with
  | none => simp [hfe, hpe, ofOpt] at h
  | some pe0 =>
  simp only [hfe, hpe, Option.bind_some, ofOpt, Option.getD_some, Res.ok.injEq] at h
  obtain ⟨_, a1, a2, a3, a4⟩ := h
  subst a1 a2 a3 a4
  have x1 := plus7 _ _ kf.1 hfe
  have x2 := plus7 _ _ kp.1 hpe
  exact ⟨kf.1, x1.1, kp.1, x2.1, kf.2, kp.2, x1.2, x2.2⟩

/-- Witnesses: (1) a relative month is read off `reference + datedelta(months=swift)`: "first week of next month" asked
on 2020-01-31 answers **March** (`2020-03-W01`, 2020-03-02 ..), the month-end roll of `datedelta`; (2) a fifth week
that does not exist falls back to the fourth Monday while the TIMEX keeps `W05`: "fifth week of February" 2020 →
`XXXX-02-W05` with 2020-02-24. -/
theorem week_of_month_witnesses :
    weekOfMonth ⟨⟨2020, 1, 31⟩, 0⟩ 1 none 1 =
      .ok ("2020-03-W01".toList.map Char.toNat) ⟨⟨2020, 3, 2⟩, 0⟩ ⟨⟨2020, 3, 9⟩, 0⟩ ⟨⟨2020, 3, 2⟩, 0⟩ ⟨⟨2020, 3, 9⟩, 0⟩ ∧
    weekOfMonth ⟨⟨2020, 1, 29⟩, 52200⟩ 5 (some 2) 0 =
      .ok ("XXXX-02-W05".toList.map Char.toNat) ⟨⟨2020, 2, 24⟩, 0⟩ ⟨⟨2020, 3, 2⟩, 0⟩ ⟨⟨2019, 2, 25⟩, 0⟩ ⟨⟨2019, 3, 4⟩, 0⟩ := by
  refine ⟨?_, ?_⟩ <;> decide +kernel


/-! ## `_merge_two_times_points` ("from May 2 to May 7", "from 2020-01-01 to 2020-03-01") -/

theorem formatDate_not_XXXX (x : Date) : startsWithXXXX (formatDate x) = false := by
  have : (48 + x.y / 1000 % 10) ≠ 88 := by omega
  simp [startsWithXXXX, formatDate, pad4, sXXXX, this]

/-- Two fully specified dates `begin ≤ end` (future = past for each, TIMEXes = the dates): the values are those dates
and the TIMEX is the `dayTriple` of Props/C10, hence `tripleOK`; with `begin < end` the range is well formed. -/
theorem merge_definite_ok (b e : Date) (hb : b.valid = true) (he : e.valid = true) (hle : b.ord ≤ e.ord)
    (nb : b ≠ ⟨1, 1, 1⟩) (ne : e ≠ ⟨1, 1, 1⟩) :
    mergeTwoTimePoints ⟨b, 0⟩ ⟨b, 0⟩ (formatDate b) ⟨e, 0⟩ ⟨e, 0⟩ (formatDate e) =
      .ok (dayTriple b e) ⟨b, 0⟩ ⟨e, 0⟩ ⟨b, 0⟩ ⟨e, 0⟩ ∧
    tripleOK (dayTriple b e) (some (formatDate b)) (some (formatDate e)) = true ∧
    (b.ord < e.ord → rangeOK ⟨b, 0⟩ ⟨e, 0⟩) := by
  refine ⟨?_, between_dates_consistent b e hb he hle, fun h => ⟨hb, he, h, nb, ne⟩⟩
  have l1 : DateTime.lt ⟨e, 0⟩ ⟨b, 0⟩ = false := by
    rw [← Bool.not_eq_true, lt_iff]; simp only; omega
  have nbm : (⟨b, 0⟩ : DateTime) ≠ DateUtils.minValue := by
    intro h; apply nb; have := congrArg DateTime.date h; simpa [DateUtils.minValue] using this
  have nem : (⟨e, 0⟩ : DateTime) ≠ DateUtils.minValue := by
    intro h; apply ne; have := congrArg DateTime.date h; simpa [DateUtils.minValue] using this
  unfold mergeTwoTimePoints
  simp only [l1, Bool.false_eq_true, if_false, formatDate_not_XXXX, Bool.false_and]
  unfold periodTimexStr
  simp only [nbm, nem, ne_eq, not_false_eq_true, and_self, if_true]
  have : intStr ((e.ord : Int) - b.ord) = natStr (e.ord - b.ord) := by
    unfold intStr; rw [if_neg (by omega)]; congr 1; omega
  rw [this]
  simp [dayTriple]

/-- The swap rules keep each pair ordered whenever one of the two candidates for its begin is not after its end:
future: `begin := past begin` when the future begin lies after the future end; past: `end := future end` when the
past end lies before the past begin. -/
theorem merge_pairs_ordered (fb pb fe pe : DateTime) (t1 t2 t : Str) (rb re qb qe : DateTime)
    (h : mergeTwoTimePoints fb pb t1 fe pe t2 = .ok t rb re qb qe) :
    re = fe ∧ qb = pb ∧ rb = (if fe.lt fb then pb else fb) ∧ qe = (if pe.lt pb then fe else pe) ∧
    ((fe.lt fb = false ∨ fe.lt pb = false) → re.lt rb = false) ∧
    ((pe.lt pb = false ∨ fe.lt pb = false) → qe.lt qb = false) := by
  unfold mergeTwoTimePoints at h
  simp only [Res.ok.injEq] at h
  obtain ⟨_, a, b, c, d⟩ := h
  subst a b c d
  refine ⟨rfl, rfl, rfl, rfl, ?_, ?_⟩
  · intro hh
    by_cases c : fe.lt fb = true
    · rw [if_pos c]; rcases hh with x | x
      · rw [x] at c; simp at c
      · exact x
    · rw [if_neg c]; simpa using c
  · intro hh
    by_cases c : pe.lt pb = true
    · rw [if_pos c]; rcases hh with x | x
      · rw [x] at c; simp at c
      · exact x
    · rw [if_neg c]; simpa using c

/-- Witnesses: (1) two definite dates in the wrong order are NOT swapped: begin after end and a negative duration
(`from 2019-08-01 to 2016-11-07` → `P-997D`) — the shape of the recorded C10/C11 finding "from 2019-aug-1 to today";
(2) `from Feb 28 to Mar 1` without a year carries two TIMEXes (leap / non-leap year). -/
theorem merge_witnesses :
    mergeTwoTimePoints ⟨⟨2019, 8, 1⟩, 0⟩ ⟨⟨2019, 8, 1⟩, 0⟩ ("2019-08-01".toList.map Char.toNat)
        ⟨⟨2016, 11, 7⟩, 0⟩ ⟨⟨2016, 11, 7⟩, 0⟩ ("2016-11-07".toList.map Char.toNat) =
      .ok ("(2019-08-01,2016-11-07,P-997D)".toList.map Char.toNat) ⟨⟨2019, 8, 1⟩, 0⟩ ⟨⟨2016, 11, 7⟩, 0⟩ ⟨⟨2019, 8, 1⟩, 0⟩ ⟨⟨2016, 11, 7⟩, 0⟩ ∧
    mergeTwoTimePoints ⟨⟨2020, 2, 28⟩, 0⟩ ⟨⟨2019, 2, 28⟩, 0⟩ ("XXXX-02-28".toList.map Char.toNat)
        ⟨⟨2020, 3, 1⟩, 0⟩ ⟨⟨2019, 3, 1⟩, 0⟩ ("XXXX-03-01".toList.map Char.toNat) =
      .ok ("(XXXX-02-28,XXXX-03-01,P2D)|(XXXX-02-28,XXXX-03-01,P1D)".toList.map Char.toNat)
        ⟨⟨2020, 2, 28⟩, 0⟩ ⟨⟨2020, 3, 1⟩, 0⟩ ⟨⟨2019, 2, 28⟩, 0⟩ ⟨⟨2019, 3, 1⟩, 0⟩ := by
  refine ⟨?_, ?_⟩ <;> decide +kernel


end RTV.Periods
