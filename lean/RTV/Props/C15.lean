import RTV.Lemmas.TimexDur
/-!
# C15 — TIMEX resolution and constraint solving only return correct, valid values

Theorems about `RTV.Model.TimexResolve` run with `genCfg` (patterns, `Constants.DAYS` and the `TimexCreator`
strings regenerated from the working tree on every check).

The soundness / completeness theorems of `evaluate` below are stated against the ranges `daterangeFromTimex` /
`timerangeFromTimex` compute for the constraints; WHAT RANGE a constraint denotes is characterised independently, on
calendar functions, in `RTV.Props.C15Range` (`daterange_year/_month/_days/_weeks`, `timerange_hours/_minutes/
_parts_of_day`), which also holds `duration_seconds_frac`, `evaluate_collapse_never_hangs` and the statements for
time-of-day candidates (`evaluate_time_candidates_no_result`, `evaluate_time_candidates_sound`).
-/
namespace RTV.Timex
open RTV.Py RTV.Cal
set_option linter.unusedSimpArgs false

/-! ## weekdays -/

/-- `XXXX-WXX-w` -/
def weekdayStr (w : Nat) : Str := [88, 88, 88, 88, 45, 87, 88, 88, 45, 48 + w]

theorem parse_weekday : ∀ w : Fin 10, parse genCfg (weekdayStr w.val) = { dayOfWeek := some (.int w.val) } := by
  decide

theorem format_weekday : ∀ w : Fin 10, w.val ≠ 0 →
    formatT { dayOfWeek := some (.int w.val) } = .ok (weekdayStr w.val) := by
  decide

/-- the entry `resolve` builds for a weekday TIMEX and the date with ordinal `o` -/
def wdEntry (w : Nat) (o : Nat) : Entry :=
  { timex := .str (weekdayStr w), type := .str tDate, value := .str (dateValue (ymd (Date.ofOrd o))),
    start := .none, «end» := .none }

/-- C15(a) **weekday_resolve** — for every ISO weekday `w ∈ 1..7` and every reference date (from 0001-01-08 to
9999-12-24, so that both neighbours exist) `TimexResolver.resolve(['XXXX-WXX-w'], ref)` has exactly two values,
both of type `date`: the dates with ordinals `l` and `n` where `l` is the last `w` **strictly before** and `n` the
next `w` **strictly after** the reference, each at most 7 days away, each falling on the asked weekday. -/
theorem weekday_resolve (w : Fin 7) (ref : Date) (hlo : 8 ≤ ref.ord) (hhi : ref.ord + 7 ≤ maxOrd) :
    ∃ l n : Nat,
      resolve genCfg [weekdayStr (w.val + 1)] ref = .ok [wdEntry (w.val + 1) l, wdEntry (w.val + 1) n] ∧
      l < ref.ord ∧ ref.ord < n ∧ ref.ord ≤ l + 7 ∧ n ≤ ref.ord + 7 ∧
      isoWeekdayOrd l = w.val + 1 ∧ isoWeekdayOrd n = w.val + 1 := by
  have hp := parse_weekday ⟨w.val + 1, by omega⟩
  have hf := format_weekday ⟨w.val + 1, by omega⟩ (by simp)
  push_cast at hp hf
  refine ⟨ref.ord - (((6 - (w.val : Int) + weekdayOrd ref.ord) % 7) + 1).toNat,
          ref.ord + (((6 + (w.val : Int) - weekdayOrd ref.ord) % 7) + 1).toNat, ?_, ?_⟩
  · have hs : genCfg.sunday = 6 := rfl
    have hne : ¬ ((w.val : Int) + 1 = 0) := by omega
    have hday : (if (w.val : Int) + 1 = 6 then genCfg.sunday else (w.val : Int) + 1) - 1 = (w.val : Int) := by
      rw [hs]; split <;> omega
    simp only [resolve, List.foldlM, hp]
    simp [resolveTimex, infer, isDate, isDateRange, isDuration, isTime, isDefinite, truthyO, truthyS, Num.truthy,
      resolveDate, hf, lastDateValue, nextDateValue, andChainNotNone, weekdayArg, wdEntry, bind, Except.bind, pure,
      Except.pure, hne, hday, dateOfLastDay_ok _ ref hlo (by omega), dateOfNextDay_ok _ ref (by omega) hhi]
  · unfold isoWeekdayOrd weekdayOrd
    omega

example : (⟨2020, 5, 6⟩ : Date).ord = 737551 ∧ 8 ≤ 737551 ∧ 737551 + 7 ≤ maxOrd := by decide

/-! ## durations -/

/-- the entry `resolve` builds for a duration TIMEX -/
def durEntry (tv : Str) (secs : Nat) : Entry :=
  { timex := .str tv, type := .str tDuration, value := .str (nstr secs), start := .none, «end» := .none }

/-- C15(b) **duration_seconds** — a duration TIMEX with an integral amount `n` (fields as `Timex('PnU')` sets
them: `Decimal(n)`), for each of the seven units, resolves to one `duration` entry whose value is the length in
seconds `n × unit` (31536000, 2592000, 604800, 86400, 3600, 60, 1), printed as a plain integer; the products stay
below the 28 significant digits of the default Decimal context.  (Fractional amounts: `duration_seconds_frac` in
`RTV.Props.C15Range`.) -/
theorem duration_seconds (n : Nat) (hn : numDigits (31536000 * n) ≤ 28) (ref : Date)
    (h2 : numDigits (2592000 * n) ≤ 28) (h3 : numDigits (604800 * n) ≤ 28) (h4 : numDigits (86400 * n) ≤ 28)
    (h5 : numDigits (3600 * n) ≤ 28) (h6 : numDigits (60 * n) ≤ 28) :
    resolveTimex genCfg { years := some (.dec false n 0) } ref = .ok [durEntry (80 :: nstr n ++ [89]) (31536000 * n)] ∧
    resolveTimex genCfg { months := some (.dec false n 0) } ref = .ok [durEntry (80 :: nstr n ++ [77]) (2592000 * n)] ∧
    resolveTimex genCfg { weeks := some (.dec false n 0) } ref = .ok [durEntry (80 :: nstr n ++ [87]) (604800 * n)] ∧
    resolveTimex genCfg { days := some (.dec false n 0) } ref = .ok [durEntry (80 :: nstr n ++ [68]) (86400 * n)] ∧
    resolveTimex genCfg { hours := some (.dec false n 0) } ref = .ok [durEntry (80 :: 84 :: nstr n ++ [72]) (3600 * n)] ∧
    resolveTimex genCfg { minutes := some (.dec false n 0) } ref = .ok [durEntry (80 :: 84 :: nstr n ++ [77]) (60 * n)] ∧
    resolveTimex genCfg { seconds := some (.dec false n 0) } ref = .ok [durEntry (80 :: 84 :: nstr n ++ [83]) n] := by
  have g1 : ¬ (numDigits (31536000 * n) > 28) := by omega
  have g2 : ¬ (numDigits (2592000 * n) > 28) := by omega
  have g3 : ¬ (numDigits (604800 * n) > 28) := by omega
  have g4 : ¬ (numDigits (86400 * n) > 28) := by omega
  have g5 : ¬ (numDigits (3600 * n) > 28) := by omega
  have g6 : ¬ (numDigits (60 * n) > 28) := by omega
  refine ⟨?_, ?_, ?_, ?_, ?_, ?_, ?_⟩ <;>
    simp [resolveTimex, infer, isDate, isDateRange, isDuration, isTime, isDefinite, truthyO, truthyS, formatT,
      formatFuel, formatDuration, durationValue, Num.mulInt, Num.str, optStr, decStr_int, durEntry, bind, Except.bind,
      pure, Except.pure, Functor.map, Except.map, g1, g2, g3, g4, g5, g6]

example : numDigits (31536000 * 1000) ≤ 28 := by decide

/-! ## years and months -/

/-- the ISO text `YYYY-MM-DD` of a date, as `TimexValue.date_value` prints it -/
def isoDate (d : Date) : Str := dateValue (ymd d)

example : isoDate ⟨2021, 1, 1⟩ = [50, 48, 50, 49, 45, 48, 49, 45, 48, 49] := by decide

/-- C15(c) **year_range** — a year TIMEX (fields as `Timex('YYYY')` sets them, `1 ≤ y`) resolves to one
`daterange` entry `[y-01-01, (y+1)-01-01)`. -/
theorem year_range (y : Nat) (hy : 1 ≤ y) (ref : Date) :
    resolveTimex genCfg { year := some (.int y) } ref =
      .ok [{ timex := .str (fixedFormat (some (.int y)) 4), type := .str tDaterange,
             start := .str (isoDate ⟨y, 1, 1⟩), «end» := .str (isoDate ⟨y + 1, 1, 1⟩), value := .none }] := by
  have h0 : ¬ (y = 0) := by omega
  simp [resolveTimex, infer, isDate, isDateRange, isDuration, isTime, isDefinite, truthyO, truthyS, Num.truthy,
    resolveDateRange, andChainNotNone, yearDateRange, Num.add, formatT, formatFuel, formatDateRange, rangeEntry,
    isoDate, ymd, bind, Except.bind, pure, Except.pure, h0]

/-- first day of the month after `y-m` -/
def nextMonthStart (y m : Nat) : Date := if m = 12 then ⟨y + 1, 1, 1⟩ else ⟨y, m + 1, 1⟩

/-- C15(d) **month_range** — a year-month TIMEX resolves to the half-open range
`[y-m-01, first day of the next month)`, **including December** (since fix d71f0ec63). -/
theorem month_range (y m : Nat) (hy : 1 ≤ y) (hm1 : 1 ≤ m) (hm : m ≤ 12) (ref : Date) :
    resolveTimex genCfg { year := some (.int y), month := some (.int m) } ref =
      .ok [{ timex := .str (fixedFormat (some (.int y)) 4 ++ 45 :: fixedFormat (some (.int m)) 2),
             type := .str tDaterange, start := .str (isoDate ⟨y, m, 1⟩),
             «end» := .str (isoDate (nextMonthStart y m)), value := .none }] := by
  have h0 : ¬ (y = 0) := by omega
  have h1 : ¬ (m = 0) := by omega
  by_cases h2 : m = 12
  · subst h2
    simp [resolveTimex, infer, isDate, isDateRange, isDuration, isTime, isDefinite, truthyO, truthyS, Num.truthy,
      resolveDateRange, andChainNotNone, monthDateRange, optAdd, Num.add, Num.eqInt, Num.scaled, pow10, formatT,
      formatFuel, formatDateRange, rangeEntry, isoDate, ymd, nextMonthStart, bind, Except.bind, pure, Except.pure, h0]
  · have h3 : ¬ ((m : Int) = 12) := by omega
    simp [resolveTimex, infer, isDate, isDateRange, isDuration, isTime, isDefinite, truthyO, truthyS, Num.truthy,
      resolveDateRange, andChainNotNone, monthDateRange, optAdd, Num.add, Num.eqInt, Num.scaled, pow10, formatT,
      formatFuel, formatDateRange, rangeEntry, isoDate, ymd, nextMonthStart, bind, Except.bind, pure, Except.pure, h0,
      h1, h2, h3]

/-- `2020-12` -/
def s2020_12 : Str := [50, 48, 50, 48, 45, 49, 50]

/-- regression (was finding `month-range-december`): `resolve(['2020-12'])` ends at `2021-01-01`; the code before
the fix (`monthDateRangeBeforeFix`) answered the non-date `2020-13-01`. -/
theorem month_range_december :
    resolve genCfg [s2020_12] ⟨2020, 5, 6⟩ =
      .ok [{ timex := .str s2020_12, type := .str tDaterange, start := .str (isoDate ⟨2020, 12, 1⟩),
             «end» := .str (isoDate ⟨2021, 1, 1⟩), value := .none }] ∧
    monthDateRangeBeforeFix (some (.int 2020)) (some (.int 12)) =
      .ok (isoDate ⟨2020, 12, 1⟩, [50, 48, 50, 48, 45, 49, 51, 45, 48, 49]) := by
  decide

/-- `2020-W53`, `2020-W01` -/
def s2020_W53 : Str := [50, 48, 50, 48, 45, 87, 53, 51]
def s2020_W01 : Str := [50, 48, 50, 48, 45, 87, 48, 49]

/-- regression (was finding `week-range-end-month`, `[2020-12-28, 2020-12-04]`): ISO weeks that cross a month or
year end resolve to Monday … next Monday. -/
theorem week_range_across_month :
    resolve genCfg [s2020_W53] ⟨2020, 5, 6⟩ =
      .ok [{ timex := .str s2020_W53, type := .str tDaterange, start := .str (isoDate ⟨2020, 12, 28⟩),
             «end» := .str (isoDate ⟨2021, 1, 4⟩), value := .none }] ∧
    resolve genCfg [s2020_W01] ⟨2020, 5, 6⟩ =
      .ok [{ timex := .str s2020_W01, type := .str tDaterange, start := .str (isoDate ⟨2019, 12, 30⟩),
             «end» := .str (isoDate ⟨2020, 1, 6⟩), value := .none }] := by
  decide

/-- C15 **week_range** — `week_date_range(y, w)` for `2 ≤ y ≤ 9998`, `w ≤ 53` is `[s, s + 7)` for a Monday `s`
that lies `7·w` days after the Monday of the week before the week containing January 4th… stated directly: `s` is
a Monday and `s = m + 7·(w − 1)`, `m` the first day of ISO week 1 as CPython computes it (`isoWeek1Monday`). -/
theorem week_range (y w : Nat) (hy : 2 ≤ y) (hy2 : y ≤ 9998) (hw1 : 1 ≤ w) (hw : w ≤ 53) :
    ∃ s, weekDateRange genCfg (some (.int y)) (some (.int w)) =
        .ok (isoDate (Date.ofOrd s), isoDate (Date.ofOrd (s + 7))) ∧
      weekdayOrd s = 0 ∧ s = isoWeek1Monday y + 7 * (w - 1) := by
  have hv : (⟨y, 1, 1⟩ : Date).valid = true := by
    rw [valid_iff]; simp [daysInMonth]; omega
  have hr := ord_range ⟨y, 1, 1⟩ hv
  have hlo : daysBeforeYear 2 ≤ daysBeforeYear y := dby_mono (by omega) hy
  have hhi : daysBeforeYear y ≤ daysBeforeYear 9998 := dby_mono (by omega) hy2
  have e2 : daysBeforeYear 2 = 365 := by decide
  have e3 : daysBeforeYear 9998 = 3651329 := by decide
  have ho : (⟨y, 1, 1⟩ : Date).ord = daysBeforeYear y + 1 := by
    simp [Date.ord, daysBeforeMonth, daysBeforeMonthTbl]
  refine ⟨isoWeek1Monday y + 7 * (w - 1), ?_, ?_, rfl⟩
  · have hm : genCfg.monday = 0 := rfl
    have hmk : mkDate (some (.int (y : Int))) (some (.int 1)) (some (.int 1)) = .ok ⟨y, 1, 1⟩ := by
      have : (0 : Int) ≤ y := by omega
      simp [mkDate, this, hv]; rfl
    have hwd : ((⟨y, 1, 1⟩ : Date).weekday : Int) = ((daysBeforeYear y + 1 + 6) % 7 : Nat) := by
      simp [Date.weekday, weekdayOrd, ho]
    have hiso : isoWeek1Monday y = if (daysBeforeYear y + 1 + 6) % 7 > 3
        then daysBeforeYear y + 1 - (daysBeforeYear y + 1 + 6) % 7 + 7
        else daysBeforeYear y + 1 - (daysBeforeYear y + 1 + 6) % 7 := by
      simp [isoWeek1Monday, ho]
    -- first step: the Monday of ISO week 1
    have step1 : (if ((⟨y, 1, 1⟩ : Date).weekday : Int) ≤ 3 then addDays ⟨y, 1, 1⟩ (-((⟨y, 1, 1⟩ : Date).weekday : Int))
        else addDays ⟨y, 1, 1⟩ (7 - ((⟨y, 1, 1⟩ : Date).weekday : Int))) = .ok (Date.ofOrd (isoWeek1Monday y)) := by
      rw [hiso]
      split
      · rw [addDays_ok _ _ (by rw [ho, hwd]; omega) (by rw [ho, hwd]; unfold maxOrd; omega) (by rw [hwd]; omega)]
        congr 2; rw [ho, hwd]; split <;> omega
      · rw [addDays_ok _ _ (by rw [ho, hwd]; omega) (by rw [ho, hwd]; unfold maxOrd; omega) (by rw [hwd]; omega)]
        congr 2; rw [ho, hwd]; split <;> omega
    have hb : 360 ≤ isoWeek1Monday y ∧ isoWeek1Monday y ≤ 3651340 := by rw [hiso]; split <;> omega
    have hmon : weekdayOrd (isoWeek1Monday y) = 0 := by rw [hiso]; unfold weekdayOrd; split <;> omega
    have o1 := (ord_ofOrd (isoWeek1Monday y) (by omega) (by unfold maxOrd; omega)).1
    have step2 : addDays (Date.ofOrd (isoWeek1Monday y)) ((w : Int) * 7) = .ok (Date.ofOrd (isoWeek1Monday y + 7 * w)) := by
      rw [addDays_ok _ _ (by rw [o1]; omega) (by rw [o1]; unfold maxOrd; omega) (by omega)]
      congr 2; rw [o1]; omega
    have o2 := (ord_ofOrd (isoWeek1Monday y + 7 * w) (by omega) (by unfold maxOrd; omega)).1
    have step3 : dateOfLastDay 0 (Date.ofOrd (isoWeek1Monday y + 7 * w)) = .ok (Date.ofOrd (isoWeek1Monday y + 7 * (w - 1))) := by
      rw [dateOfLastDay_ok _ _ (by rw [o2]; omega) (by rw [o2]; unfold maxOrd; omega), o2]
      congr 2; unfold weekdayOrd at hmon ⊢; omega
    have step4 : addDays (Date.ofOrd (isoWeek1Monday y + 7 * w)) 7 = .ok (Date.ofOrd (isoWeek1Monday y + 7 * w + 7)) := by
      rw [addDays_ok _ _ (by rw [o2]; omega) (by rw [o2]; unfold maxOrd; omega) (by omega)]
      congr 2; rw [o2]; omega
    have o3 := (ord_ofOrd (isoWeek1Monday y + 7 * w + 7) (by omega) (by unfold maxOrd; omega)).1
    have step5 : dateOfLastDay 0 (Date.ofOrd (isoWeek1Monday y + 7 * w + 7)) = .ok (Date.ofOrd (isoWeek1Monday y + 7 * (w - 1) + 7)) := by
      rw [dateOfLastDay_ok _ _ (by rw [o3]; omega) (by rw [o3]; unfold maxOrd; omega), o3]
      congr 2; unfold weekdayOrd at hmon ⊢; omega
    by_cases hc : ((⟨y, 1, 1⟩ : Date).weekday : Int) ≤ 3
    · rw [if_pos hc] at step1
      simp only [weekDateRange, hmk, hm, bind, Except.bind, if_pos hc, step1, step2, step3, step4, step5, pure,
        Except.pure, isoDate]
    · rw [if_neg hc] at step1
      simp only [weekDateRange, hmk, hm, bind, Except.bind, if_neg hc, step1, step2, step3, step4, step5, pure,
        Except.pure, isoDate]
  · unfold weekdayOrd isoWeek1Monday
    rw [ho]
    simp only
    split <;> omega

/-! ## `TimexConstraintsHelper.collapse` terminates (since fix d3c7bf705) -/

section terminates
variable {α : Type}

theorem findJ_bounds (ov : α → α → Bool) (r : α) : ∀ (rs : List α) (k j : Nat) (r2 : α),
    findJ ov r rs k = some (j, r2) → k ≤ j ∧ j < k + rs.length := by
  intro rs
  induction rs with
  | nil => intro k j r2 h; simp [findJ] at h
  | cons a rest ih =>
    intro k j r2 h
    unfold findJ at h
    split at h
    · cases h; simp
    · have := ih (k + 1) j r2 h
      simp; omega

theorem firstPair_bounds (ov : α → α → Bool) : ∀ (rs : List α) (k i j : Nat) (r1 r2 : α),
    firstPair ov rs k = some (i, j, r1, r2) → k ≤ i ∧ i < j ∧ j < k + rs.length := by
  intro rs
  induction rs with
  | nil => intro k i j r1 r2 h; simp [firstPair] at h
  | cons a rest ih =>
    intro k i j r1 r2 h
    unfold firstPair at h
    split at h
    · rename_i j' r2' hj
      cases h
      have := findJ_bounds ov _ rest (k + 1) _ _ hj
      simp; omega
    · have := ih (k + 1) i j r1 r2 h
      simp; omega

/-- one round of `inner_collapse` that changes the list removes two ranges and appends one -/
theorem innerCollapse_length (ov : α → α → Bool) (inter : α → α → α) (rs rs' : List α)
    (h : innerCollapse ov inter rs = some rs') : rs'.length + 1 = rs.length := by
  unfold innerCollapse at h
  split at h
  · cases h
  · split at h
    · cases h
    · rename_i i j r1 r2 hp
      cases h
      have hb := firstPair_bounds ov rs 0 i j r1 r2 hp
      simp [List.length_eraseIdx]
      split <;> split <;> omega

/-- C15 **collapse_terminates** — `while self.inner_collapse(ranges)` stops after at most `len(ranges)` rounds,
for every list of ranges and whatever `is_overlapping` / `collapse_overlapping` compute. -/
theorem collapse_terminates (ov : α → α → Bool) (inter : α → α → α) :
    ∀ (n : Nat) (rs : List α), rs.length ≤ n → ∃ r, collapseLoop ov inter (n + 1) rs = some r ∧ r.length ≤ rs.length := by
  intro n
  induction n with
  | zero =>
    intro rs h
    have : rs = [] := by cases rs <;> simp_all
    subst this
    exact ⟨[], by simp [collapseLoop, innerCollapse, firstPair]⟩
  | succ n ih =>
    intro rs h
    unfold collapseLoop
    cases hc : innerCollapse ov inter rs with
    | none => exact ⟨rs, by simp⟩
    | some rs' =>
      have hl := innerCollapse_length ov inter rs rs' hc
      obtain ⟨r, hr, hlen⟩ := ih rs' (by omega)
      exact ⟨r, by simpa using hr, by omega⟩

end terminates

/-- `evaluate` therefore never answers `hang` through `collapse` when the fuel is at least the number of
constraints: here for the date ranges with fuel `len + 1`; for EVERY fuel above the number of constraints and both
kinds of ranges: `evaluate_collapse_never_hangs` in `RTV.Props.C15Range`. -/
theorem collapseDates_returns (rs : List DateRange) : ∃ r, collapseDates (rs.length + 1) rs = .ok r := by
  obtain ⟨r, hr, _⟩ := collapse_terminates DateRange.isOverlapping DateRange.collapseOverlapping rs.length rs (by omega)
  exact ⟨sortBy (fun r => (r.s : Int)) r, by simp [collapseDates, hr]; rfl⟩

/-! ### regression: the code before the fix did not terminate -/

/-- the three date-range constraints of DESIGN.md §4 #15 as ordinal pairs:
`(2010-01-01,2010-01-05,P4D)`, `(2020-01-15,2020-03-01,P46D)`, `(2020-01-01,2020-02-01,P1M)` -/
def rA : DateRange := ⟨(⟨2010, 1, 1⟩ : Date).ord, (⟨2010, 1, 5⟩ : Date).ord⟩
def rB : DateRange := ⟨(⟨2020, 1, 15⟩ : Date).ord, (⟨2020, 3, 1⟩ : Date).ord⟩
def rC : DateRange := ⟨(⟨2020, 1, 1⟩ : Date).ord, (⟨2020, 2, 1⟩ : Date).ord⟩
/-- their "collapsed" pair B ∩ C = 2020-01-15 … 2020-02-01 -/
def rX : DateRange := DateRange.collapseOverlapping rB rC

def sA : Str := [40, 50, 48, 49, 48, 45, 48, 49, 45, 48, 49, 44, 120, 44, 80, 52, 68, 41]
def sB : Str := [40, 50, 48, 50, 48, 45, 48, 49, 45, 49, 53, 44, 120, 44, 80, 52, 54, 68, 41]
def sC : Str := [40, 50, 48, 50, 48, 45, 48, 49, 45, 48, 49, 44, 120, 44, 80, 49, 77, 41]

/-- the constraint strings really denote these ranges (model of `daterange_from_timex`) -/
theorem triple_ranges :
    daterangeFromTimex (parse genCfg sA) = .ok rA ∧ daterangeFromTimex (parse genCfg sB) = .ok rB ∧
    daterangeFromTimex (parse genCfg sC) = .ok rC := by
  decide

theorem findJ_replicate_none (r x : DateRange) (h : r.isOverlapping x = false) (n k : Nat) :
    findJ DateRange.isOverlapping r (List.replicate n x) k = none := by
  induction n generalizing k with
  | zero => rfl
  | succ n ih => simp [List.replicate_succ, findJ, h, ih]

/-- **inner_collapse_before_fix_stuck** — with `del ranges[i:1]; del ranges[j-1:1]` (empty slices unless the index
is 0) one round from `[A, B, C] ++ [X]ⁿ` finds the pair `(B, C)` at indices `(1, 2)`, deletes nothing and appends
`X` again: the list strictly grows and the same pair is found next time — the loop never ends. -/
theorem inner_collapse_before_fix_stuck (n : Nat) :
    innerCollapseBeforeFix DateRange.isOverlapping DateRange.collapseOverlapping ([rA, rB, rC] ++ List.replicate n rX) =
      some ([rA, rB, rC] ++ List.replicate (n + 1) rX) := by
  have hAB : rA.isOverlapping rB = false := by decide
  have hAC : rA.isOverlapping rC = false := by decide
  have hAX : rA.isOverlapping rX = false := by decide
  have hBC : rB.isOverlapping rC = true := by decide
  have hlen : ¬ (([rA, rB, rC] ++ List.replicate n rX).length = 1) := by simp
  unfold innerCollapseBeforeFix
  rw [if_neg hlen]
  simp only [List.cons_append, List.nil_append, firstPair, findJ, hAB, hAC, hBC, Bool.false_eq_true, if_false,
    if_true, findJ_replicate_none rA rX hAX]
  simp [delTo1, List.replicate_succ', rX]

/-- regression (was finding `collapse-nonterminating`): the same call returns now — the Wednesdays of
2020-01-15 … 2020-01-31 (`B ∩ C`; `A` = 2010-01-01 … 2010-01-04 holds no Wednesday). -/
theorem evaluate_triple_returns :
    evaluate genCfg 64 [weekdayStr 3] [sA, sB, sC] =
      .ok [[50, 48, 50, 48, 45, 48, 49, 45, 49, 53], [50, 48, 50, 48, 45, 48, 49, 45, 50, 50],
           [50, 48, 50, 48, 45, 48, 49, 45, 50, 57]] := by
  decide

/-- regression (was finding `evaluate-blank-timex`): a time-only candidate against a date range gives no result,
not an empty TIMEX; (was `evaluate-feb29-raises`): `XXXX-02-29` over 2019‥2021 gives 2020-02-29. -/
theorem evaluate_regressions :
    evaluate genCfg 64 [[84, 48, 57]] [[50, 48, 50, 48]] = .ok [] ∧
    evaluate genCfg 64 [[88, 88, 88, 88, 45, 48, 50, 45, 50, 57]]
      [[40, 50, 48, 49, 57, 45, 48, 49, 45, 48, 49, 44, 120, 44, 80, 51, 89, 41]] =
      .ok [[50, 48, 50, 48, 45, 48, 50, 45, 50, 57]] := by
  decide

/-! ## `TimexRangeResolver.evaluate`: weekday candidates against date-range constraints -/

/-- the constraints are pure date ranges (years, months, `(start,end,PnD|W|M|Y)`): each has type `daterange`, none
has a time or time-range type, and `daterange_from_timex` gives `ranges` -/
structure DateOnly (cs : List Str) (ranges : List DateRange) : Prop where
  ne : cs ≠ []
  ty : ∀ t ∈ cs.map (parse genCfg), (infer t).daterange = true ∧ (infer t).time = false ∧ (infer t).timerange = false
  rng : (cs.map (parse genCfg)).mapM daterangeFromTimex = .ok ranges

example : DateOnly [[50, 48, 50, 48]] [⟨(⟨2020, 1, 1⟩ : Date).ord, (⟨2021, 1, 1⟩ : Date).ord⟩] :=
  ⟨by simp, by decide, by decide⟩

/-- with pure date-range constraints `evaluate` of a weekday candidate is its date-range stage -/
theorem evaluate_weekday_eq (w : Fin 7) (cs : List Str) (ranges : List DateRange) (h : DateOnly cs ranges)
    (fuel : Nat) :
    evaluate genCfg (fuel + 1) [weekdayStr (w.val + 1)] cs =
      resolveByDateRangeConstraints genCfg (fuel + 1) [weekdayStr (w.val + 1)] (cs.map (parse genCfg)) := by
  have hp := parse_weekday ⟨w.val + 1, by omega⟩
  simp only at hp
  have hd : resolveDurations genCfg [weekdayStr (w.val + 1)] (cs.map (parse genCfg)) = .ok [weekdayStr (w.val + 1)] := by
    simp [resolveDurations, List.foldlM, hp, infer, isDuration, bind, Except.bind, pure, Except.pure]
  unfold evaluate
  simp only [hd, bind, Except.bind]
  cases hb : resolveByDateRangeConstraints genCfg (fuel + 1) [weekdayStr (w.val + 1)] (cs.map (parse genCfg)) with
  | error e => rfl
  | ok b =>
    simp only
    rw [resolveByTimeConstraints_none genCfg b _ (fun t ht => (h.ty t ht).2.1)]
    simp only
    rw [resolveByTimerangeConstraints_none genCfg fuel b _ (fun t ht => (h.ty t ht).2.2)]

/-- C15 **evaluate_sound** (weekday candidate, any number of pure date-range constraints): every TIMEX string that
`evaluate(['XXXX-WXX-w'], constraints)` returns is the ISO text `YYYY-MM-DD` of a day `o` (so it is definite) that
falls on the asked weekday (an instance of the candidate) and lies inside at least one **supplied** date range —
whatever `is_overlapping` decides, because `collapse_overlapping` only intersects. -/
theorem evaluate_sound_weekday (w : Fin 7) (cs : List Str) (ranges : List DateRange) (h : DateOnly cs ranges)
    (fuel : Nat) (out : List Str) (hout : evaluate genCfg (fuel + 1) [weekdayStr (w.val + 1)] cs = .ok out) :
    ∀ s ∈ out, ∃ o, ∃ r0 ∈ ranges, r0.s ≤ o ∧ o < r0.e ∧ isoWeekdayOrd o = w.val + 1 ∧
      (Date.ofOrd o).valid = true ∧ s = isoDateStr (Date.ofOrd o) := by
  rw [evaluate_weekday_eq w cs ranges h fuel] at hout
  have hp := parse_weekday ⟨w.val + 1, by omega⟩
  simp only at hp
  have h1 : ((cs.map (parse genCfg)).filter fun t => (infer t).daterange).mapM daterangeFromTimex = .ok ranges := by
    rw [filter_all _ _ (fun t ht => (h.ty t ht).1), h.rng]
  have hr : ranges ≠ [] := mapM_ne_nil _ _ _ h.rng (by simpa using h.ne)
  have hb : ∀ r ∈ ranges, 1 ≤ r.s ∧ r.s ≤ maxOrd ∧ 1 ≤ r.e ∧ r.e ≤ maxOrd := by
    intro r hr
    obtain ⟨t, _, ht⟩ := (mapM_ok_mem _ _ _ h.rng r).mp hr
    exact daterangeFromTimex_bounds t r ht
  -- collapse returned (the call did)
  cases hc : collapseDates (fuel + 1) ranges with
  | error e =>
    unfold resolveByDateRangeConstraints at hout
    simp [h1, hc, bind, Except.bind] at hout
  | ok collapsed =>
    have hne := collapseDates_ne_nil _ _ _ hc hr
    have hcov := collapseDates_sound (fuel + 1) ranges collapsed hc
    intro s hs
    obtain ⟨c, hcm, k, hk, x, hx, hsx⟩ := (dateStage_mem genCfg (fuel + 1) _ _ out ranges collapsed h1 hc hne hout s).mp hs
    simp only [List.mem_singleton] at hcm
    subst hcm
    rw [hp] at hx
    -- a collapsed range may be empty or reversed, but each of its days lies in a supplied range
    by_cases hks : 1 ≤ k.s ∧ k.e ≤ maxOrd + 1
    · obtain ⟨o, ho1, ho2, ho3, rfl⟩ := (resolveWeekday_mem _ k x hks.1 hks.2 hx s).mp hsx
      obtain ⟨r0, hr0, hr1, hr2⟩ := hcov k hk o ho1 ho2
      have := hb r0 hr0
      refine ⟨o, r0, hr0, hr1, hr2, ?_, (ord_ofOrd o (by omega) (by omega)).2, rfl⟩
      unfold isoWeekdayOrd; unfold weekdayOrd at ho3; push_cast at ho3; omega
    · -- bounds of a collapsed range: it is a max of starts / min of ends of supplied ranges
      exfalso
      apply hks
      have hP : ∀ r ∈ collapsed, 1 ≤ r.s ∧ r.e ≤ maxOrd + 1 := by
        unfold collapseDates at hc
        cases hl : collapseLoop DateRange.isOverlapping DateRange.collapseOverlapping (fuel + 1) ranges with
        | none => simp [hl] at hc
        | some l =>
          simp only [hl, pure, Except.pure] at hc
          cases hc
          intro r hr'
          rw [mem_sortBy] at hr'
          refine collapseLoop_inv _ _ (fun r => 1 ≤ r.s ∧ r.e ≤ maxOrd + 1) ?_ _ _ _ hl ?_ r hr'
          · intro a b ha hb'
            simp [DateRange.collapseOverlapping]; omega
          · intro r0 hr0; have := hb r0 hr0; omega
      exact hP k hk

/-- C15 **evaluate_complete_weekday** — a single pure date-range constraint `[s, e)` and a weekday candidate: the
result holds the ISO text of **every** day of the range that falls on that weekday (and, by `evaluate_sound_weekday`,
nothing else). -/
theorem evaluate_complete_weekday (w : Fin 7) (c : Str) (r : DateRange) (h : DateOnly [c] [r]) (fuel : Nat)
    (out : List Str) (hout : evaluate genCfg (fuel + 1) [weekdayStr (w.val + 1)] [c] = .ok out) :
    ∀ o, r.s ≤ o → o < r.e → isoWeekdayOrd o = w.val + 1 → isoDateStr (Date.ofOrd o) ∈ out := by
  rw [evaluate_weekday_eq w [c] [r] h fuel] at hout
  have hp := parse_weekday ⟨w.val + 1, by omega⟩
  simp only at hp
  have h1 : (([c].map (parse genCfg)).filter fun t => (infer t).daterange).mapM daterangeFromTimex = .ok [r] := by
    rw [filter_all _ _ (fun t ht => (h.ty t ht).1), h.rng]
  have hc : collapseDates (fuel + 1) [r] = .ok [r] := by
    simp [collapseDates, collapseLoop, innerCollapse, sortBy, insertBy, pure, Except.pure]
  have hb : 1 ≤ r.s ∧ r.s ≤ maxOrd ∧ 1 ≤ r.e ∧ r.e ≤ maxOrd := by
    obtain ⟨t, _, ht⟩ := (mapM_ok_mem _ _ _ h.rng r).mp (by simp)
    exact daterangeFromTimex_bounds t r ht
  intro o ho1 ho2 ho3
  -- the candidate's resolution against the range succeeded, because the whole call did
  cases hx : resolveDateAgainstConstraint { dayOfWeek := some (Num.int ((w.val + 1 : Nat) : Int)) } r with
  | error e =>
    exfalso
    unfold resolveByDateRangeConstraints at hout
    rw [h1] at hout
    simp only [bind, Except.bind, hc, List.isEmpty_cons, Bool.false_eq_true, if_false, List.foldlM, hp, hx] at hout
    cases hout
  | ok x =>
    refine (dateStage_mem genCfg (fuel + 1) _ _ out [r] [r] h1 hc rfl hout _).mpr
      ⟨weekdayStr (w.val + 1), by simp, r, by simp, x, by rw [hp]; exact hx, ?_⟩
    refine (resolveWeekday_mem _ r x hb.1 (by omega) hx _).mpr ⟨o, ho1, ho2, ?_, rfl⟩
    unfold isoWeekdayOrd at ho3; unfold weekdayOrd; push_cast; omega

example : isoWeekdayOrd (⟨2020, 1, 1⟩ : Date).ord = 3 := by decide

/-! ### stage-wise soundness for the other candidate families (proved in `RTV/Lemmas/TimexEval.lean`)

What remains open for a single end-to-end `evaluate_sound` over all candidate families: the composition through
the re-parsing of the intermediate TIMEX strings between the stages (month-day and time-bearing candidates pass
through `Timex(...)` again in the time and time-range stages). The stages themselves are sound: -/

/-- `collapse` on date ranges returns only ranges whose days all lie in a supplied range -/
theorem collapse_sound_dates (fuel : Nat) (rs out : List DateRange) (h : collapseDates fuel rs = .ok out) :
    ∀ r ∈ out, CoveredBy rs r := collapseDates_sound fuel rs out h

/-- `collapse` on time ranges returns only ranges whose instants all lie in a supplied range -/
theorem collapse_sound_times (fuel : Nat) (rs out : List TimeRange) (h : collapseTimes fuel rs = .ok out) :
    ∀ r ∈ out, CoveredByT rs r := collapseTimes_sound fuel rs out h

/-- `dates_matching_day(day, s, e)` = exactly the days of `[s, e)` on that weekday -/
theorem dates_matching_day_spec (day : Int) (s e : Nat) (l : List Nat) (h : datesMatchingDay day s e = .ok l) (o : Nat) :
    o ∈ l ↔ s ≤ o ∧ o < e ∧ ((weekdayOrd o : Nat) : Int) = day := datesMatchingDay_spec day s e l h o

/-- month-day candidates (`XXXX-MM-DD`, with or without a time): every result of `resolve_date_against_constraint`
is the candidate with a year filled in — same month, day and time (an instance of the candidate, definite) — and that
calendar date lies inside the range -/
theorem evaluate_monthday_stage_sound (t : Timex) (c : DateRange) (out : List Str)
    (hmd : andChainNotNone [t.month, t.dayOfMonth] = true) (h : resolveDateAgainstConstraint t c = .ok out) :
    ∀ s ∈ out, ∃ (yy : Nat) (d : Date), dateFromTimex { t with year := some (.int yy) } = .ok d ∧
      c.s ≤ d.ord ∧ d.ord < c.e ∧ formatT { t with year := some (.int yy) } = .ok s :=
  resolveMonthDay_sound t c out hmd h

/-- time-range stage for a candidate with a time: every result is the candidate's own TIMEX and its time of day lies
inside one of the collapsed time ranges (each of which lies inside supplied ones by `collapse_sound_times`) -/
theorem evaluate_timerange_stage_sound (t : Timex) (ks : List TimeRange) (out : List Str)
    (h : resolveTime t ks = .ok out) :
    ∀ s ∈ out, ∃ k ∈ ks, ∃ tm ms, t.time = some tm ∧ msOf tm.hour tm.minute tm.second = .ok ms ∧
      k.s ≤ ms ∧ ms < k.e ∧ formatT t = .ok s := resolveTime_sound t ks out h

/-- `genCfg` is a configuration the grammar lemmas apply to (same statement as `genCfg_ok` of C14) -/
theorem genCfg_ok' : CfgOK genCfg := by
  constructor <;> decide

/-! ## `evaluate_sound`, end to end, for every candidate family and both kinds of constraints -/

/-- the hypotheses of `evaluate_sound`: every candidate is a weekday / month-day / time-of-day TIMEX (each of the
first two with or without a time of day); `daterange_from_timex` of the constraints with a date-range type gives
`dranges` (at least one), `timerange_from_timex` of those with a time-range type gives `tranges` (possibly none);
times of day that occur in candidates and constraints are what the patterns produce (three `int`s below 100). -/
structure EvalHyp (cands constraints : List Str) (dranges : List DateRange) (tranges : List TimeRange) : Prop where
  cand : ∀ c ∈ cands, CandKind (parse genCfg c)
  candClock : ∀ c ∈ cands, ∀ tm, (parse genCfg c).time = some tm → ClockT tm
  dr : ((constraints.map (parse genCfg)).filter fun t => (infer t).daterange).mapM daterangeFromTimex = .ok dranges
  dne : dranges ≠ []
  tr : ((constraints.map (parse genCfg)).filter fun t => (infer t).timerange).mapM (timerangeFromTimex genCfg) = .ok tranges
  conClock : ∀ t ∈ constraints.map (parse genCfg), (infer t).time = true → ClockT (timeFromTimex t)

/-- stages 2–4 of `evaluate` (date ranges, times, time ranges) on the list `a` that stage 1 hands on -/
def stages234 (cfg : Cfg) (fuel : Nat) (a constraints : List Str) : R (List Str) := do
  let tcs := constraints.map (parse cfg)
  let b ← resolveByDateRangeConstraints cfg fuel a tcs
  let c ← resolveByTimeConstraints cfg b tcs
  resolveByTimerangeConstraints cfg fuel c tcs

theorem evaluate_eq_stages (cfg : Cfg) (fuel : Nat) (cands constraints : List Str) :
    evaluate cfg fuel cands constraints =
      (do let a ← resolveDurations cfg cands (constraints.map (parse cfg))
          stages234 cfg fuel a constraints) := rfl

/-- soundness of stages 2–4 for any list `a` of strings of the families of `CandKind` (this is `evaluate_sound` with
stage 1 factored out, so that it also serves the duration candidates, whose stage-1 results are definite dates) -/
theorem stages234_sound (cands constraints : List Str) (dranges : List DateRange) (tranges : List TimeRange)
    (hyp : EvalHyp cands constraints dranges tranges) (fuel : Nat) (out : List Str)
    (hout : stages234 genCfg fuel cands constraints = .ok out) :
    ∀ s ∈ out, ∃ c ∈ cands, ∃ (d : Date) (tmo : Option Time), ∃ r0 ∈ dranges,
      d.valid = true ∧ s = isoDateStr d ++ fmtTime tmo ∧ parse genCfg s = dateTimex d tmo ∧
      r0.s ≤ d.ord ∧ d.ord < r0.e ∧ Instance (parse genCfg c) d tmo ∧
      (tranges ≠ [] → ∃ tm ms, ∃ tr0 ∈ tranges, tmo = some tm ∧ msOf tm.hour tm.minute tm.second = .ok ms ∧
        tr0.s ≤ ms ∧ ms < tr0.e) := by
  unfold stages234 at hout
  simp only [bind, Except.bind] at hout
  cases hb : resolveByDateRangeConstraints genCfg fuel cands (constraints.map (parse genCfg)) with
  | error e => simp [hb] at hout
  | ok b =>
    simp only [hb] at hout
    cases hc : resolveByTimeConstraints genCfg b (constraints.map (parse genCfg)) with
    | error e => simp [hc] at hout
    | ok c3 =>
      simp only [hc] at hout
      -- stage 2
      have h2 := dateStage_sound genCfg fuel cands _ b dranges hyp.cand hyp.dr hyp.dne hb
      have hbd : ∀ s ∈ b, ∃ d tmo, Desc s d tmo := by
        intro s hs
        obtain ⟨c, hcm, d, r0, _, hv, _, _, _, hstr⟩ := h2 s hs
        exact ⟨d, (parse genCfg c).time, hv, hyp.candClock c hcm, hstr⟩
      -- stage 3
      have h3 := timeStage_sound genCfg genCfg_ok' b _ c3 hbd hyp.conClock hc
      have hcd : ∀ s ∈ c3, ∃ d tmo, Desc s d tmo := by
        intro s hs
        obtain ⟨s0, _, d, tmo, tmo', _, hd', _⟩ := h3 s hs
        exact ⟨d, tmo', hd'⟩
      -- stage 4
      have h4 := timerangeStage_sound genCfg genCfg_ok' fuel c3 _ out tranges hcd hyp.tr hout
      intro s hs
      obtain ⟨hs3, htr⟩ := h4 s hs
      obtain ⟨s0, hs0, d, tmo, tmo', hd0, hd', hkeep⟩ := h3 s hs3
      obtain ⟨c, hcm, d2, r0, hr0, hv2, hr1, hr2, hinst, hstr⟩ := h2 s0 hs0
      -- the two descriptions of s0 agree after parsing
      have hp0 : parse genCfg s0 = dateTimex d tmo := by rw [hd0.2.2]; exact reparse genCfg genCfg_ok' d hd0.1 tmo hd0.2.1
      have hp0' : parse genCfg s0 = dateTimex d2 (parse genCfg c).time := by
        rw [hstr]; exact reparse genCfg genCfg_ok' d2 hv2 _ (hyp.candClock c hcm)
      have heq : dateTimex d tmo = dateTimex d2 (parse genCfg c).time := by rw [← hp0, hp0']
      have hdd := dateTimex_inj _ _ _ _ heq
      obtain ⟨rfl, rfl⟩ := hdd
      have hps : parse genCfg s = dateTimex d tmo' := by rw [hd'.2.2]; exact reparse genCfg genCfg_ok' d hd'.1 tmo' hd'.2.1
      refine ⟨c, hcm, d, tmo', r0, hr0, hd'.1, hd'.2.2, hps, hr1, hr2, ⟨hinst.1, hinst.2.1, fun tm htm => hkeep tm htm⟩, ?_⟩
      intro hne
      obtain ⟨tm, ms, tr0, htr0, htm, hms, h1, h2'⟩ := htr hne
      rw [hps] at htm
      exact ⟨tm, ms, tr0, htr0, by simpa [dateTimex] using htm, hms, h1, h2'⟩


/-- C15 **evaluate_sound** — for ANY list of candidates of the families weekday, month-day, time of day,
weekday + time, month-day + time and any constraints with at least one date range (and any number of time ranges,
times, …) satisfying `EvalHyp`, every TIMEX string `s` that `evaluate` returns
* is **definite**: `Timex(s)` is exactly the date `d` (a valid calendar date) with an optional time `tmo`;
* is an **instance of a candidate** `c`: same weekday / same month and day, and `c`'s own time if it has one;
* lies inside at least one **supplied** date range `r0`;
* and, when time ranges are supplied, has a time of day inside at least one **supplied** time range `tr0`.
(Stated against what `is_overlapping` / `collapse_overlapping` really compute: collapsing only intersects.)
`EvalHyp.dne` demands at least one date range; for a candidate that is ONLY a time of day the date stage then returns
nothing, so this theorem says nothing about such candidates — `evaluate_time_candidates_no_result` (result is empty)
and `evaluate_time_candidates_sound` (no date range supplied: instance of the candidate inside a supplied time range)
in `RTV.Props.C15Range` state their case. -/
theorem evaluate_sound (cands constraints : List Str) (dranges : List DateRange) (tranges : List TimeRange)
    (hyp : EvalHyp cands constraints dranges tranges) (fuel : Nat) (out : List Str)
    (hout : evaluate genCfg fuel cands constraints = .ok out) :
    ∀ s ∈ out, ∃ c ∈ cands, ∃ (d : Date) (tmo : Option Time), ∃ r0 ∈ dranges,
      d.valid = true ∧ s = isoDateStr d ++ fmtTime tmo ∧ parse genCfg s = dateTimex d tmo ∧
      r0.s ≤ d.ord ∧ d.ord < r0.e ∧ Instance (parse genCfg c) d tmo ∧
      (tranges ≠ [] → ∃ tm ms, ∃ tr0 ∈ tranges, tmo = some tm ∧ msOf tm.hour tm.minute tm.second = .ok ms ∧
        tr0.s ≤ ms ∧ ms < tr0.e) := by
  rw [evaluate_eq_stages, resolveDurations_eq,
    resolveDurations_nodur genCfg _ cands [] (fun c hc => candKind_nodur _ (hyp.cand c hc))] at hout
  simp only [List.nil_append, bind, Except.bind] at hout
  exact stages234_sound cands constraints dranges tranges hyp fuel out hout

/-- C15 **evaluate_sound_grammar** — `evaluate_sound` with the candidate hypotheses discharged for ALL candidate strings
of the grammar (`XXXX-WXX-d`, `XXXX-MM-DD`, each alone or with `Thh[:mm[:ss]]`, and `Thh[:mm[:ss]]`; digits universally
quantified, `CandForm`): only the constraints remain as hypotheses. -/
theorem evaluate_sound_grammar (ws : List CandForm) (hws : ∀ w ∈ ws, w.ok) (constraints : List Str)
    (dranges : List DateRange) (tranges : List TimeRange)
    (dr : ((constraints.map (parse genCfg)).filter fun t => (infer t).daterange).mapM daterangeFromTimex = .ok dranges)
    (dne : dranges ≠ [])
    (tr : ((constraints.map (parse genCfg)).filter fun t => (infer t).timerange).mapM (timerangeFromTimex genCfg) = .ok tranges)
    (conClock : ∀ t ∈ constraints.map (parse genCfg), (infer t).time = true → ClockT (timeFromTimex t))
    (fuel : Nat) (out : List Str) (hout : evaluate genCfg fuel (ws.map CandForm.render) constraints = .ok out) :
    ∀ s ∈ out, ∃ c ∈ ws.map CandForm.render, ∃ (d : Date) (tmo : Option Time), ∃ r0 ∈ dranges,
      d.valid = true ∧ s = isoDateStr d ++ fmtTime tmo ∧ parse genCfg s = dateTimex d tmo ∧
      r0.s ≤ d.ord ∧ d.ord < r0.e ∧ Instance (parse genCfg c) d tmo ∧
      (tranges ≠ [] → ∃ tm ms, ∃ tr0 ∈ tranges, tmo = some tm ∧ msOf tm.hour tm.minute tm.second = .ok ms ∧
        tr0.s ≤ ms ∧ ms < tr0.e) := by
  have hyp : EvalHyp (ws.map CandForm.render) constraints dranges tranges :=
    { cand := by
        intro c hc
        obtain ⟨w, hw, rfl⟩ := List.mem_map.mp hc
        exact (candKind_of_grammar genCfg genCfg_ok' w (hws w hw)).1
      candClock := by
        intro c hc
        obtain ⟨w, hw, rfl⟩ := List.mem_map.mp hc
        exact (candKind_of_grammar genCfg genCfg_ok' w (hws w hw)).2
      dr := dr, dne := dne, tr := tr, conClock := conClock }
  exact evaluate_sound _ constraints dranges tranges hyp fuel out hout

/-! ## duration candidates -/

/-- hypotheses of `evaluate_sound_durations`: each candidate is of a `CandKind` family (with a clock-like time if any)
**or a duration** in hours, minutes, days or weeks (`DurKind`); every constraint that carries a time of day is a
definite datetime `YYYY-MM-DDThh[:mm[:ss]]` (`TimedAreDatetimes` — so time ranges, if any, are parts of day);
date ranges / time ranges as in `EvalHyp`. -/
structure EvalHypDur (cands constraints : List Str) (dranges : List DateRange) (tranges : List TimeRange) : Prop where
  cand : ∀ c ∈ cands, (CandKind (parse genCfg c) ∧ ∀ tm, (parse genCfg c).time = some tm → ClockT tm) ∨
    DurKind (parse genCfg c)
  timed : TimedAreDatetimes (constraints.map (parse genCfg))
  dr : ((constraints.map (parse genCfg)).filter fun t => (infer t).daterange).mapM daterangeFromTimex = .ok dranges
  dne : dranges ≠ []
  tr : ((constraints.map (parse genCfg)).filter fun t => (infer t).timerange).mapM (timerangeFromTimex genCfg) = .ok tranges

/-- C15 **evaluate_sound_durations** — `evaluate` with duration candidates (`PTnH`, `PTnM`, `PnD`, `PnW`) next to the
other families.  Stage 1 turns a duration `D` and each datetime constraint `S = d0 Th:m:s` into the calendar sum
`S + D` (`DurSpec`: hours and minutes carry into the next days, day and week durations drop the time of day); the
later stages treat that definite date as a month-day.  Every returned TIMEX string `s` is a valid definite date `d`
(+ optional time `tmo`), lies inside a SUPPLIED date range (and time range, when given), and is either an instance of
a non-duration candidate, or has the month, day and time of `S + D` for a duration candidate `D` and a supplied
datetime constraint `S`. -/
theorem evaluate_sound_durations (cands constraints : List Str) (dranges : List DateRange) (tranges : List TimeRange)
    (hyp : EvalHypDur cands constraints dranges tranges) (fuel : Nat) (out : List Str)
    (hout : evaluate genCfg fuel cands constraints = .ok out) :
    ∀ s ∈ out, ∃ (d : Date) (tmo : Option Time), ∃ r0 ∈ dranges,
      d.valid = true ∧ s = isoDateStr d ++ fmtTime tmo ∧ parse genCfg s = dateTimex d tmo ∧
      r0.s ≤ d.ord ∧ d.ord < r0.e ∧
      (tranges ≠ [] → ∃ tm ms, ∃ tr0 ∈ tranges, tmo = some tm ∧ msOf tm.hour tm.minute tm.second = .ok ms ∧
        tr0.s ≤ ms ∧ ms < tr0.e) ∧
      ((∃ c ∈ cands, CandKind (parse genCfg c) ∧ Instance (parse genCfg c) d tmo) ∨
       (∃ c ∈ cands, DurKind (parse genCfg c) ∧ ∃ S ∈ constraints.map (parse genCfg),
          ∃ (d0 : Date) (h m sec : Nat) (d1 : Date) (tmo1 : Option Time),
            S = dateTimex d0 (some ⟨.int h, .int m, .int sec⟩) ∧ DurSpec d0 h m sec (parse genCfg c) d1 tmo1 ∧
            d.m = d1.m ∧ d.d = d1.d ∧ (∀ tm, tmo1 = some tm → tmo = some tm))) := by
  rw [evaluate_eq_stages] at hout
  simp only [bind, Except.bind] at hout
  cases ha : resolveDurations genCfg cands (constraints.map (parse genCfg)) with
  | error e => simp [ha] at hout
  | ok a =>
    simp only [ha] at hout
    have hk : ∀ c ∈ cands, (infer (parse genCfg c)).duration = false ∨ DurKind (parse genCfg c) := by
      intro c hc
      rcases hyp.cand c hc with h | h
      · exact Or.inl (candKind_nodur _ h.1)
      · exact Or.inr h
    have horig := durStage_sound genCfg cands _ a hk hyp.timed ha
    -- the list stage 1 hands on satisfies the hypotheses of stages 2–4
    have hparse : ∀ s1 ∈ a, CandKind (parse genCfg s1) ∧ ∀ tm, (parse genCfg s1).time = some tm → ClockT tm := by
      intro s1 hs1
      rcases horig s1 hs1 with ⟨hc, hnd⟩ | ⟨c, hc, hdk, S, hS, d0, h, m, sec, d1, tmo1, rfl, hv1, hc1, hspec, rfl⟩
      · rcases hyp.cand s1 hc with h | h
        · exact h
        · rw [durKind_dur _ h] at hnd; cases hnd
      · rw [reparse genCfg genCfg_ok' d1 hv1 tmo1 hc1]
        exact ⟨CandKind.definite _ _ _ _, fun tm htm => hc1 tm htm⟩
    have hyp2 : EvalHyp a constraints dranges tranges :=
      { cand := fun s1 hs1 => (hparse s1 hs1).1
        candClock := fun s1 hs1 => (hparse s1 hs1).2
        dr := hyp.dr
        dne := hyp.dne
        tr := hyp.tr
        conClock := by
          intro t ht hti
          obtain ⟨d0, h, m, sec, _, b1, b2, b3, rfl⟩ := hyp.timed t ht hti
          exact ⟨h, m, sec, b1, b2, b3, rfl⟩ }
    intro s hs
    obtain ⟨s1, hs1, d, tmo, r0, hr0, hv, hstr, hps, h1, h2, hinst, htr⟩ :=
      stages234_sound a constraints dranges tranges hyp2 fuel out hout s hs
    refine ⟨d, tmo, r0, hr0, hv, hstr, hps, h1, h2, htr, ?_⟩
    rcases horig s1 hs1 with ⟨hc, hnd⟩ | ⟨c, hc, hdk, S, hS, d0, h, m, sec, d1, tmo1, rfl, hv1, hc1, hspec, rfl⟩
    · exact Or.inl ⟨s1, hc, (hparse s1 hs1).1, hinst⟩
    · rw [reparse genCfg genCfg_ok' d1 hv1 tmo1 hc1] at hinst
      have hmd := hinst.2.1 d1.m d1.d rfl rfl
      refine Or.inr ⟨c, hc, hdk, _, hS, d0, h, m, sec, d1, tmo1, rfl, hspec, by omega, by omega, ?_⟩
      intro tm htm
      exact hinst.2.2 tm (by rw [htm]; rfl)

/-- the hypotheses of `evaluate_sound_durations` are satisfiable: candidates `PT2H`, `XXXX-WXX-3`; constraints
`2020-01-15T10` and `2020-01`; and what the model computes for them -/
example : EvalHypDur [[80, 84, 50, 72], [88, 88, 88, 88, 45, 87, 88, 88, 45, 51]]
    [[50, 48, 50, 48, 45, 48, 49, 45, 49, 53, 84, 49, 48], [50, 48, 50, 48, 45, 48, 49]]
    [⟨(⟨2020, 1, 1⟩ : Date).ord, (⟨2020, 2, 1⟩ : Date).ord⟩] [] := by
  have p1 : parse genCfg [80, 84, 50, 72] = { hours := some (.dec false 2 0) } := by decide
  have p2 : parse genCfg [88, 88, 88, 88, 45, 87, 88, 88, 45, 51] = { dayOfWeek := some (.int 3), time := none } := by decide
  have p3 : parse genCfg [50, 48, 50, 48, 45, 48, 49, 45, 49, 53, 84, 49, 48] =
      dateTimex ⟨2020, 1, 15⟩ (some ⟨.int (10 : Nat), .int (0 : Nat), .int (0 : Nat)⟩) := by decide
  refine ⟨?_, ?_, by decide, by simp, by decide⟩
  · intro c hc
    simp only [List.mem_cons, List.not_mem_nil, or_false] at hc
    rcases hc with rfl | rfl
    · right; rw [p1]; exact DurKind.hours _ (by decide)
    · left; rw [p2]; exact ⟨CandKind.weekday 3 _, fun tm h => by cases h⟩
  · intro t ht hti
    simp only [List.map_cons, List.map_nil, List.mem_cons, List.not_mem_nil, or_false] at ht
    rcases ht with rfl | rfl
    · exact ⟨⟨2020, 1, 15⟩, 10, 0, 0, by decide, by omega, by omega, by omega, p3⟩
    · exact absurd hti (by decide)

example : evaluate genCfg 64 [[80, 84, 50, 72], [88, 88, 88, 88, 45, 87, 88, 88, 45, 51]]
    [[50, 48, 50, 48, 45, 48, 49, 45, 49, 53, 84, 49, 48], [50, 48, 50, 48, 45, 48, 49]] =
    .ok [[50, 48, 50, 48, 45, 48, 49, 45, 49, 53, 84, 49, 50], [50, 48, 50, 48, 45, 48, 49, 45, 48, 49, 84, 49, 48],
         [50, 48, 50, 48, 45, 48, 49, 45, 48, 56, 84, 49, 48], [50, 48, 50, 48, 45, 48, 49, 45, 49, 53, 84, 49, 48],
         [50, 48, 50, 48, 45, 48, 49, 45, 50, 50, 84, 49, 48], [50, 48, 50, 48, 45, 48, 49, 45, 50, 57, 84, 49, 48]] := by
  decide

/-- C15 **monthday_stage_never_raises** — the general form of the `XXXX-02-29` regression: for EVERY month-day
candidate (any month and day numbers — `XXXX-02-29`, `XXXX-02-30`, `XXXX-13-01` —, with or without a time) and every
range whose start year is at most one after its end year, `resolve_date_against_constraint` returns; a date that does
not exist in some year counts as "not in the range". -/
theorem monthday_stage_never_raises (m dd : Int) (tmo : Option Time) (c : DateRange)
    (hy : (Date.ofOrd c.s).y ≤ (Date.ofOrd c.e).y + 1) :
    ∃ x, resolveDateAgainstConstraint { month := some (.int m), dayOfMonth := some (.int dd), time := tmo } c = .ok x :=
  monthday_stage_total m dd tmo c hy

/-- C15 **evaluate_complete_hours** — completeness for the duration family: an hours candidate `PTnH`, one datetime
constraint `S = d0 Th:m:s` and one pure date-range constraint `[r.s, r.e)`: if the calendar sum `S + n hours`
(date `d1`, time `(h+n) mod 24 : m : s`) lies in the range, its TIMEX is in the result. -/
theorem evaluate_complete_hours (cand Sstr cstr : Str) (x : Num) (hx : 0 ≤ x.toInt)
    (hp : parse genCfg cand = { hours := some x })
    (d0 : Date) (hv0 : d0.valid = true) (h m sec : Nat) (hh : h < 100) (hm : m < 100) (hs : sec < 100)
    (hS : parse genCfg Sstr = dateTimex d0 (some ⟨.int h, .int m, .int sec⟩))
    (r : DateRange)
    (hty : (infer (parse genCfg cstr)).daterange = true ∧ (infer (parse genCfg cstr)).time = false ∧
      (infer (parse genCfg cstr)).timerange = false)
    (hrng : daterangeFromTimex (parse genCfg cstr) = .ok r)
    (fuel : Nat) (out : List Str) (hout : evaluate genCfg (fuel + 1) [cand] [Sstr, cstr] = .ok out) :
    ∀ d1 : Date, d1.valid = true → (d1.ord : Int) = d0.ord + (h + x.toInt) / 24 → r.s ≤ d1.ord → d1.ord < r.e →
      isoDateStr d1 ++ fmtTime (some ⟨.int ((h + x.toInt) % 24), .int m, .int sec⟩) ∈ out := by
  intro d1 hv1 hord hr1 hr2
  have hdk : DurKind (parse genCfg cand) := by rw [hp]; exact DurKind.hours x hx
  have hiS := infer_dateTimex d0 (some ⟨.int h, .int m, .int sec⟩)
  have hSdt : (infer (parse genCfg Sstr)).datetime = true := by
    rw [hS]; simp [infer, dateTimex, Timex.fromDate, isDate, isTime]
  have hSdr : (infer (parse genCfg Sstr)).daterange = false := by
    rw [hS]; simp [infer, dateTimex, Timex.fromDate, isDate, isTime, isDateRange, isDuration, truthyS, truthyO]
  rw [evaluate_eq_stages] at hout
  simp only [List.map_cons, List.map_nil, bind, Except.bind] at hout
  cases ha : resolveDurations genCfg [cand] [parse genCfg Sstr, parse genCfg cstr] with
  | error e => simp [ha] at hout
  | ok a =>
    simp only [ha] at hout
    -- stage 1
    obtain ⟨r1, s1, hadd, hf, hs1⟩ := durStage_complete genCfg [cand] _ a ha cand (by simp) hdk
      (parse genCfg Sstr) (by simp) hSdt
    rw [hS, hp] at hadd
    obtain ⟨d1', tm1, rfl, hv1', hc1, ho1, htm1⟩ := datetimeAdd_hours d0 hv0 h m sec hh hm hs x hx r1 hadd
    have hdd : d1' = d1 := ord_inj d1' d1 hv1' hv1 (by omega)
    subst hdd
    rw [format_dateTimex d1' hv1'] at hf
    cases hf
    subst htm1
    -- stages 2-4
    unfold stages234 at hout
    simp only [List.map_cons, List.map_nil, bind, Except.bind] at hout
    cases hb : resolveByDateRangeConstraints genCfg (fuel + 1) a [parse genCfg Sstr, parse genCfg cstr] with
    | error e => simp [hb] at hout
    | ok b =>
      simp only [hb] at hout
      cases hc3 : resolveByTimeConstraints genCfg b [parse genCfg Sstr, parse genCfg cstr] with
      | error e => simp [hc3] at hout
      | ok c3 =>
        simp only [hc3] at hout
        have hdesc : Desc (isoDateStr d1' ++ fmtTime (some ⟨.int ((h + x.toInt) % 24), .int m, .int sec⟩)) d1'
            (some ⟨.int ((h + x.toInt) % 24), .int m, .int sec⟩) := ⟨hv1', fun tm e => by cases e; exact hc1, rfl⟩
        have hps := reparse genCfg genCfg_ok' d1' hv1' _ hdesc.2.1
        -- stage 2: the single range, the definite date as a month-day in its own year
        have h1 : ([parse genCfg Sstr, parse genCfg cstr].filter fun t => (infer t).daterange).mapM daterangeFromTimex = .ok [r] := by
          simp [List.filter, hSdr, hty.1, hrng, List.mapM_cons, List.mapM_nil, bind, Except.bind, pure, Except.pure]
        have hcol : collapseDates (fuel + 1) [r] = .ok [r] := by
          simp [collapseDates, collapseLoop, innerCollapse, sortBy, insertBy, pure, Except.pure]
        have hbnd := daterangeFromTimex_bounds _ r hrng
        have hin2 : isoDateStr d1' ++ fmtTime (some ⟨.int ((h + x.toInt) % 24), .int m, .int sec⟩) ∈ b := by
          have hdm := dateStage_mem genCfg (fuel + 1) a _ b [r] [r] h1 hcol rfl hb
            (isoDateStr d1' ++ fmtTime (some ⟨.int ((h + x.toInt) % 24), .int m, .int sec⟩))
          -- the candidate's own resolution succeeded because the stage did
          obtain ⟨xx, hxx⟩ := dateStage_each_ok genCfg (fuel + 1) a _ b [r] [r] h1 hcol rfl hb _ hs1 r (by simp)
          rw [hps] at hxx
          refine hdm.mpr ⟨_, hs1, r, by simp, xx, by rw [hps]; exact hxx, ?_⟩
          have hdf : dateFromTimex { (dateTimex d1' (some ⟨.int ((h + x.toInt) % 24), .int m, .int sec⟩)) with
              year := some (.int (d1'.y : Int)) } = .ok d1' := by
            simp [dateFromTimex, dateTimex, Timex.fromDate, toInt_int, mkDate, hv1', pure, Except.pure]
          refine resolveMonthDay_complete _ r xx hbnd.1 hbnd.2.2.2 (by simp [andChainNotNone, dateTimex, Timex.fromDate]) hxx
            d1'.y d1' _ hdf rfl hr1 hr2 ?_ ?_
          · have := format_dateTimex d1' hv1' (some ⟨.int ((h + x.toInt) % 24), .int m, .int sec⟩)
            simpa [dateTimex, Timex.fromDate] using this
          · simp [isoDateStr, d4]
        -- stage 3 keeps it, stage 4 has no time range
        have hin3 := timeStage_keep genCfg genCfg_ok' b _ c3 hc3 _ hin2 d1' _ hdesc
        rw [resolveByTimerangeConstraints_none genCfg fuel c3 _ (by
          intro t ht
          simp only [List.mem_cons, List.not_mem_nil, or_false] at ht
          rcases ht with rfl | rfl
          · rw [hS]; exact hiS.2.2
          · exact hty.2.2)] at hout
        cases hout
        exact hin3

/-- with pure date-range constraints `evaluate` of non-duration candidates is its date-range stage -/
theorem evaluate_dateOnly_eq (cands cs : List Str) (ranges : List DateRange) (h : DateOnly cs ranges)
    (hk : ∀ c ∈ cands, (infer (parse genCfg c)).duration = false) (fuel : Nat) :
    evaluate genCfg (fuel + 1) cands cs =
      resolveByDateRangeConstraints genCfg (fuel + 1) cands (cs.map (parse genCfg)) := by
  unfold evaluate
  dsimp only
  rw [resolveDurations_eq, resolveDurations_nodur genCfg _ cands [] hk]
  simp only [List.nil_append, bind, Except.bind]
  cases hb : resolveByDateRangeConstraints genCfg (fuel + 1) cands (cs.map (parse genCfg)) with
  | error e => rfl
  | ok b =>
    simp only
    rw [resolveByTimeConstraints_none genCfg b _ (fun t ht => (h.ty t ht).2.1)]
    simp only
    rw [resolveByTimerangeConstraints_none genCfg fuel b _ (fun t ht => (h.ty t ht).2.2)]

/-- C15 **evaluate_complete_monthday** — a single pure date-range constraint `[s, e)` and a month-day candidate
(`XXXX-MM-DD`, with or without a time of day): for **every** year in which that calendar date exists and lies in the
range, its TIMEX (`YYYY-MM-DD` + the candidate's time text) is in the result. -/
theorem evaluate_complete_monthday (cand : Str) (m dd : Nat) (tmo : Option Time)
    (hp : parse genCfg cand = { month := some (.int m), dayOfMonth := some (.int dd), time := tmo })
    (c : Str) (r : DateRange) (h : DateOnly [c] [r]) (fuel : Nat) (out : List Str)
    (hout : evaluate genCfg (fuel + 1) [cand] [c] = .ok out) :
    ∀ yy : Nat, (⟨yy, m, dd⟩ : Date).valid = true → r.s ≤ (⟨yy, m, dd⟩ : Date).ord → (⟨yy, m, dd⟩ : Date).ord < r.e →
      isoDateStr ⟨yy, m, dd⟩ ++ fmtTime tmo ∈ out := by
  have hnd : ∀ c' ∈ [cand], (infer (parse genCfg c')).duration = false := by
    intro c' hc'; simp at hc'; subst hc'; rw [hp]; simp [infer, isDuration]
  rw [evaluate_dateOnly_eq [cand] [c] [r] h hnd fuel] at hout
  have h1 : (([c].map (parse genCfg)).filter fun t => (infer t).daterange).mapM daterangeFromTimex = .ok [r] := by
    rw [filter_all _ _ (fun t ht => (h.ty t ht).1), h.rng]
  have hc : collapseDates (fuel + 1) [r] = .ok [r] := by
    simp [collapseDates, collapseLoop, innerCollapse, sortBy, insertBy, pure, Except.pure]
  have hb : 1 ≤ r.s ∧ r.s ≤ maxOrd ∧ 1 ≤ r.e ∧ r.e ≤ maxOrd := by
    obtain ⟨t, _, ht⟩ := (mapM_ok_mem _ _ _ h.rng r).mp (by simp)
    exact daterangeFromTimex_bounds t r ht
  intro yy hv hs he
  have hd : dateFromTimex { ({ month := some (.int m), dayOfMonth := some (.int dd), time := tmo } : Timex) with
      year := some (.int (yy : Int)) } = .ok ⟨yy, m, dd⟩ := by
    simp [dateFromTimex, toInt_int, mkDate, hv, pure, Except.pure]
  have hf : formatT { ({ month := some (.int m), dayOfMonth := some (.int dd), time := tmo } : Timex) with
      year := some (.int (yy : Int)) } = .ok (isoDateStr ⟨yy, m, dd⟩ ++ fmtTime tmo) := by
    have := format_dateTimex ⟨yy, m, dd⟩ hv tmo
    simpa [dateTimex, Timex.fromDate] using this
  cases hx : resolveDateAgainstConstraint { month := some (.int m), dayOfMonth := some (.int dd), time := tmo } r with
  | error e =>
    exfalso
    unfold resolveByDateRangeConstraints at hout
    rw [h1] at hout
    simp only [bind, Except.bind, hc, List.isEmpty_cons, Bool.false_eq_true, if_false, List.foldlM, hp, hx] at hout
    cases hout
  | ok x =>
    refine (dateStage_mem genCfg (fuel + 1) _ _ out [r] [r] h1 hc rfl hout _).mpr
      ⟨cand, by simp, r, by simp, x, by rw [hp]; exact hx, ?_⟩
    refine resolveMonthDay_complete _ r x hb.1 hb.2.2.2 (by simp [andChainNotNone]) hx yy ⟨yy, m, dd⟩ _ hd rfl hs he hf ?_
    simp [isoDateStr, d4]

/-- the hypotheses of `evaluate_sound` are satisfiable: candidates `XXXX-WXX-3T09`, `XXXX-01-15`, `T09`; constraints
`2020-01` and `(T08,T12,PT4H)` -/
example : EvalHyp
    [[88, 88, 88, 88, 45, 87, 88, 88, 45, 51, 84, 48, 57], [88, 88, 88, 88, 45, 48, 49, 45, 49, 53], [84, 48, 57]]
    [[50, 48, 50, 48, 45, 48, 49], [40, 84, 48, 56, 44, 84, 49, 50, 44, 80, 84, 52, 72, 41]]
    [⟨(⟨2020, 1, 1⟩ : Date).ord, (⟨2020, 2, 1⟩ : Date).ord⟩] [⟨28800000, 43200000⟩] := by
  have p1 : parse genCfg [88, 88, 88, 88, 45, 87, 88, 88, 45, 51, 84, 48, 57] =
      { dayOfWeek := some (.int 3), time := some ⟨.int 9, .int 0, .int 0⟩ } := by decide
  have p2 : parse genCfg [88, 88, 88, 88, 45, 48, 49, 45, 49, 53] =
      { month := some (.int 1), dayOfMonth := some (.int 15), time := none } := by decide
  have p3 : parse genCfg [84, 48, 57] = { time := some ⟨.int 9, .int 0, .int 0⟩ } := by decide
  have c9 : ClockT ⟨.int 9, .int 0, .int 0⟩ := ⟨9, 0, 0, by omega, by omega, by omega, rfl⟩
  refine ⟨?_, ?_, by decide, by simp, by decide, ?_⟩
  · intro c hc
    simp only [List.mem_cons, List.not_mem_nil, or_false] at hc
    rcases hc with rfl | rfl | rfl
    · rw [p1]; exact CandKind.weekday 3 _
    · rw [p2]; exact CandKind.monthday 1 15 none
    · rw [p3]; exact CandKind.timeonly _
  · intro c hc tm htm
    simp only [List.mem_cons, List.not_mem_nil, or_false] at hc
    rcases hc with rfl | rfl | rfl
    · rw [p1] at htm; cases htm; exact c9
    · rw [p2] at htm; cases htm
    · rw [p3] at htm; cases htm; exact c9
  · intro t ht hti
    simp only [List.map_cons, List.map_nil, List.mem_cons, List.not_mem_nil, or_false] at ht
    rcases ht with rfl | rfl
    · exact absurd hti (by decide)
    · have : timeFromTimex (parse genCfg [40, 84, 48, 56, 44, 84, 49, 50, 44, 80, 84, 52, 72, 41]) =
          ⟨.int 8, .int 0, .int 0⟩ := by decide
      rw [this]; exact ⟨8, 0, 0, by omega, by omega, by omega, rfl⟩

end RTV.Timex
