import RTV.Model.TimexCfg
/-! # C15 — TIMEX resolution and constraint solving only return correct, valid values (work in progress) -/
namespace RTV.Timex

theorem c15_placeholder : collapseFuel = 64 := rfl

end RTV.Timex
