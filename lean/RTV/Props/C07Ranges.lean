import RTV.Lemmas.DtRes
/-!
# Time ranges built from two clock times (`from 3pm to 5:30pm`, `7:30 to 5:05`) — companion of C07, feeds C10 / C11

Theorems about `mergeTwoTimePoints` (mirrors `BaseTimePeriodParser.merge_two_time_points` after both time points are
parsed) and `timeRangeResolution` (mirrors `BaseTimePeriodParser.parse` + `_date_time_resolution` / `_resolve_ampm` for a
`timerange`). Start / end are seconds from the reference midnight. Variant switches: `Uni.pmWraps` (`to_pm` as found adds 12
without wrapping — finding `timerange-pm-overflow`) and `padded` (the code prints the shifted time point without zero
padding — finding `timerange-loose-timex`).
-/
namespace RTV.DtRes
open RTV.Py RTV.Cal
set_option linter.unusedVariables false

/-- Two time points that the time parser resolved unambiguously (am / pm given, hour 0 or ≥ 13 …) whose distance is a
whole number of minutes: the range keeps both points, its TIMEX is `(tx1,tx2,PT…H…M)` with the points' own TIMEX, an end
before the start is taken on the next day, and the printed hours / minutes add up to end − start (`span_sound`). -/
theorem time_range_unambiguous (s1 s2 : Slot) (r1 r2 : Res) (h1 : s1.res = some r1) (h2 : s2.res = some r2)
    (c1 : r1.comment = []) (c2 : r2.comment = []) (padded : Bool) (fl : Nat → Str) (secs : Bool)
    (hal : ((if r2.future.secs < r1.future.secs then r2.future.secs + 86400 else r2.future.secs) - r1.future.secs) % 60 = 0) :
    mergeTwoTimePoints s1 s2 padded fl secs =
      .ok { success := true,
            timex := [40] ++ s1.timex ++ [44] ++ s2.timex ++ [44] ++
              ([80, 84] ++
                (if spanHours ((if r2.future.secs < r1.future.secs then r2.future.secs + 86400 else r2.future.secs) - r1.future.secs) > 0
                 then decStr (spanHours ((if r2.future.secs < r1.future.secs then r2.future.secs + 86400 else r2.future.secs) - r1.future.secs)) ++ [72] else []) ++
                (if 0 < spanMinutes ((if r2.future.secs < r1.future.secs then r2.future.secs + 86400 else r2.future.secs) - r1.future.secs)
                 then decStr (spanMinutes ((if r2.future.secs < r1.future.secs then r2.future.secs + 86400 else r2.future.secs) - r1.future.secs)) ++ [77] else [])) ++ [41],
            comment := [], startS := r1.future.secs,
            endS := if r2.future.secs < r1.future.secs then r2.future.secs + 86400 else r2.future.secs } := by
  simp only [mergeTwoTimePoints, h1, h2, c1, c2, List.isEmpty_nil, Bool.not_true, Bool.false_and, Bool.false_eq_true, if_false,
    spanText_whole fl secs _ hal]

/-- the printed span is end − start -/
theorem time_range_span (diff : Nat) (h : diff % 60 = 0) : spanHours diff * 3600 + spanMinutes diff * 60 = diff :=
  span_sound diff h

/-- The exact guard under which the duration part of the TIMEX is an integral `PT…H…M`, in the code as found: the span is
a whole number of minutes. Otherwise the minutes are printed as the interpreter's float `diff / 60 % 60` (`fl diff`:
`0.5`, `0.3333333333333144` — finding `timerange-float-minutes`). -/
theorem time_range_duration_guard (fl : Nat → Str) (diff : Nat) :
    (diff % 60 = 0 → spanText fl false diff =
        [80, 84] ++ (if spanHours diff > 0 then decStr (spanHours diff) ++ [72] else []) ++
          (if 0 < spanMinutes diff then decStr (spanMinutes diff) ++ [77] else [])) ∧
    (diff % 60 ≠ 0 → spanText fl false diff =
        [80, 84] ++ (if spanHours diff > 0 then decStr (spanHours diff) ++ [72] else []) ++ (fl diff ++ [77])) :=
  ⟨spanText_whole fl false diff, spanText_float fl diff⟩

/-- Repaired variant (integer minutes and a seconds component): for every span the duration is `PT[h H][m M][s S]` with
`h·3600 + m·60 + s = end − start`, whatever the float arithmetic. -/
theorem time_range_duration_repaired (fl : Nat → Str) (diff : Nat) :
    spanText fl true diff = [80, 84] ++ (if spanHours diff > 0 then decStr (spanHours diff) ++ [72] else []) ++
      ((if 0 < spanMinutes diff then decStr (spanMinutes diff) ++ [77] else []) ++
       (if 0 < spanSeconds diff then decStr (spanSeconds diff) ++ [83] else [])) ∧
    spanHours diff * 3600 + spanMinutes diff * 60 + spanSeconds diff = diff :=
  ⟨spanText_secs fl diff, span_sound3 diff⟩

/-- a range without the `ampm` comment resolves to exactly one value: its TIMEX, `start` and `end` as `hh:mm:ss` -/
theorem time_range_resolution_plain (u : Uni) (timex : Str) (st en : Nat) :
    timeRangeResolution u { success := true, timex := timex, comment := [], startS := st, endS := en } =
      .ok (some [{ timex := timex, type := sTimeRange, start := fmtSecs st, «end» := fmtSecs en }]) := by
  have : (([] : Str) = sAmPm) = False := by simp [sAmPm]
  simp [timeRangeResolution, this]

/-- a range commented `ampm` (both points ambiguous), in the variant where `to_pm` wraps: exactly two values, the second
one the same clock times twelve hours later modulo a day — both well formed (`fmtSecs` always prints an hour < 24). -/
theorem time_range_resolution_ampm (u : Uni) (ha : u.Ascii) (hw : u.pmWraps = true) (timex tx : Str) (hne : timex ≠ [])
    (htx : allStrToPm u timex = some tx) (st en : Nat) :
    timeRangeResolution u { success := true, timex := timex, comment := sAmPm, startS := st, endS := en } =
      .ok (some [{ timex := timex, type := sTimeRange, start := fmtSecs st, «end» := fmtSecs en },
                 { timex := tx, type := sTimeRange, start := fmtSecs (st + 43200), «end» := fmtSecs (en + 43200) }]) := by
  have ne : timex.isEmpty = false := by cases timex <;> simp_all
  simp [timeRangeResolution, ne, toPm_fmtSecs u ha hw, htx]

def slot730 : Slot := toSlot .time (Res.mk true [84, 48, 55, 58, 51, 48] sAmPm ⟨2016, 11, 7, 7, 30, 0⟩ ⟨2016, 11, 7, 7, 30, 0⟩)
def slot505 : Slot := toSlot .time (Res.mk true [84, 48, 53, 58, 48, 53] sAmPm ⟨2016, 11, 7, 5, 5, 0⟩ ⟨2016, 11, 7, 5, 5, 0⟩)
def slot330 : Slot := toSlot .time (Res.mk true [84, 48, 51, 58, 51, 48] sAmPm ⟨2016, 11, 7, 3, 30, 0⟩ ⟨2016, 11, 7, 3, 30, 0⟩)
def slot105 : Slot := toSlot .time (Res.mk true [84, 48, 49, 58, 48, 53] sAmPm ⟨2016, 11, 7, 1, 5, 0⟩ ⟨2016, 11, 7, 1, 5, 0⟩)

/-- Negative witness (code as found, finding `timerange-pm-overflow`): `7:30 to 5:05` — the end is moved to 17:05 by
`merge_two_time_points`, then `_resolve_ampm` adds twelve hours to both ends again: the second value ends at `29:05:00`
(TIMEX `T29:05`); with a wrapping `to_pm` it is 19:30 → 05:05. -/
theorem timerange_pm_overflow_witness :
    ((mergeTwoTimePoints slot730 slot505 true).toOption.map fun r => (timeRangeResolution asciiUni r).toOption) =
      some (some (some [{ timex := [40, 84, 48, 55, 58, 51, 48, 44, 84, 49, 55, 58, 48, 53, 44, 80, 84, 57, 72, 51, 53, 77, 41],
                           type := sTimeRange, start := [48, 55, 58, 51, 48, 58, 48, 48], «end» := [49, 55, 58, 48, 53, 58, 48, 48] },
                         { timex := [40, 84, 49, 57, 58, 51, 48, 44, 84, 50, 57, 58, 48, 53, 44, 80, 84, 57, 72, 51, 53, 77, 41],
                           type := sTimeRange, start := [49, 57, 58, 51, 48, 58, 48, 48], «end» := [50, 57, 58, 48, 53, 58, 48, 48] }])) ∧
    ((mergeTwoTimePoints slot730 slot505 true).toOption.map fun r =>
        (timeRangeResolution { asciiUni with pmWraps := true } r).toOption) =
      some (some (some [{ timex := [40, 84, 48, 55, 58, 51, 48, 44, 84, 49, 55, 58, 48, 53, 44, 80, 84, 57, 72, 51, 53, 77, 41],
                           type := sTimeRange, start := [48, 55, 58, 51, 48, 58, 48, 48], «end» := [49, 55, 58, 48, 53, 58, 48, 48] },
                         { timex := [40, 84, 49, 57, 58, 51, 48, 44, 84, 48, 53, 58, 48, 53, 44, 80, 84, 57, 72, 51, 53, 77, 41],
                           type := sTimeRange, start := [49, 57, 58, 51, 48, 58, 48, 48], «end» := [48, 53, 58, 48, 53, 58, 48, 48] }])) := by
  decide +kernel

/-- Negative witness (finding `timerange-loose-timex`): `half past 3 to 1:05` — the shifted end is printed `T13:5`;
zero-padded in the repaired variant. -/
theorem timerange_loose_timex_witness :
    ((mergeTwoTimePoints slot330 slot105 false).toOption.map (·.timex)) =
      some [40, 84, 48, 51, 58, 51, 48, 44, 84, 49, 51, 58, 53, 44, 80, 84, 57, 72, 51, 53, 77, 41] ∧
    ((mergeTwoTimePoints slot330 slot105 true).toOption.map (·.timex)) =
      some [40, 84, 48, 51, 58, 51, 48, 44, 84, 49, 51, 58, 48, 53, 44, 80, 84, 57, 72, 51, 53, 77, 41] := by
  decide +kernel

end RTV.DtRes
