import RTV.Lemmas.ZhDateTime
import RTV.Props.C10Periods
/-!
# C08 for the Chinese parsers — relative date expressions are calendar arithmetic on the reference date

The Chinese configuration does not run the Base parsers for these expressions: `chinese/date_parser.py` and
`chinese/dateperiod_parser.py` re-implement them. `RTV.Model.ZhDateTime` mirrors that code (tied to the real parser
objects by `harness/lib/zhcorr.py`); here the statements of `Props/C08.lean` are proved for the Chinese code, for
**every** reference `R` (a valid date of 0001..9999) and every `N`, the words being the ones of the culture's patterns:

* 今天 / 明天 / 后天 / 大后天 / 昨天 / 前天 / 大前天 = `R.date + 0 / 1 / 2 / 3 / −1 / −2 / −3` at midnight, TIMEX = that date
* 这|下|上 + weekday = that weekday of the current / following / preceding ISO week
* N天前 / N天后 / N周前 / N周后 = `R ∓ N` days, `R ∓ 7N` days (the code after `fix: Chinese 'N 天前 / 天后' reads the whole number`)
* 这周 / 下周 / 上周, 这个月 / 下个月 / 上个月, 明年 / 去年 / 本年 = the ISO week / month / year containing `R` shifted by 0 / ±1
  as `[start, end)` with the matching TIMEX
* 5月1日到5日 with a year: a consistent `(start,end,PnD)` triple; 前N天 / 未来N周: consistent `(start,end,PnD|W)` triples

Three statements failed on the code as it was found; each has a proposed `fix:` (findings/zhdt/*.diff), the model
carries **both variants** (the harness probes the tree on a fixed input and compares with the variant the tree follows),
the repaired variant is proved at full strength and the pre-fix variant is kept as a labelled regression with its witness:
N个月前 / N年后 did not use N (`zh_n_months_ago`, `zh_n_months_later`, `zh_n_years_ago`, `zh_n_years_later` for the repaired code;
`zh_months_years_prefix_regression`); a relative month in 这个月1日到5日 was clamped as if months were 0-based and its values
could lie in another year than its definite TIMEX (`zh_simple_cases_relative_month_fixed`; `zh_simple_cases_prefix_regression`);
the fourth quarter ended on `0001-01-01` (`zh_quarter_ok`; `zh_quarter4_prefix_regression`).
Where the Chinese code **differs** from the property and stays so a witness is proved (replayed on the implementation by
`zhcorr.witnesses`): 今年 is "year to date" (`zh_this_year_is_year_to_date`, recorded: the Specs expect it); 上上周 / 下下个月
shift by one (`zh_double_prefix_shifts_once`); 下週 passes the one-word pattern but none of the classifiers and is answered
with the current month (`zh_traditional_week_falls_through`).
-/
namespace RTV.ZhDT
open RTV.Cal RTV.DateUtils RTV.WF
set_option linter.unusedVariables false

/-! ## the words -/

/-- `get_swift_day` on every alternative of `SpecialDayRegex`. -/
theorem zh_swift_day_words :
    swiftDay [cJin, cTian] = 0 ∧ swiftDay [cJin, cRi] = 0 ∧ swiftDay [26368, 36817] = 0 ∧
    swiftDay [cMing, cTian] = 1 ∧ swiftDay [cMing, cRi] = 1 ∧
    swiftDay [cZuo, cTian] = -1 ∧ swiftDay [cZuo, cRi] = -1 ∧
    swiftDay [cHou, cTian] = 2 ∧ swiftDay [cHouT, cTian] = 2 ∧
    swiftDay [cDa, cHou, cTian] = 3 ∧ swiftDay [cDa, cHouT, cTian] = 3 ∧
    swiftDay [cQian, cTian] = -2 ∧ swiftDay [cDa, cQian, cTian] = -3 := by decide

/-- the one-word periods of the property: which branch of `_parse_one_word_period` they take and with which shift
(这周 本周 下周 上周 — 这个月 本月 下个月 上个月 — 明年 去年 本年; 前年 / 后年 shift by ∓2). -/
theorem zh_period_words :
    (∀ w ∈ [[cZhe, cZhou], [cBen, cZhou], [cXia, cZhou], [cShang, cZhou]],
      isYearToDate w = false ∧ isWeekOnly w = true) ∧
    swiftDayOrMonth [cZhe, cZhou] = 0 ∧ swiftDayOrMonth [cBen, cZhou] = 0 ∧ swiftDayOrMonth [cXia, cZhou] = 1 ∧
    swiftDayOrMonth [cShang, cZhou] = -1 ∧
    (∀ w ∈ [[cZhe, cGe, cYue], [cBen, cYue], [cXia, cGe, cYue], [cShang, cGe, cYue]],
      isYearToDate w = false ∧ isWeekOnly w = false ∧ isWeekend w = false ∧ isMonthOnly w = true) ∧
    swiftDayOrMonth [cZhe, cGe, cYue] = 0 ∧ swiftDayOrMonth [cBen, cYue] = 0 ∧ swiftDayOrMonth [cXia, cGe, cYue] = 1 ∧
    swiftDayOrMonth [cShang, cGe, cYue] = -1 ∧
    (∀ w ∈ [[cMing, cNian], [cQu, cNian], [cBen, cNian], [cQian, cNian], [cHou, cNian]],
      isYearToDate w = false ∧ isWeekOnly w = false ∧ isWeekend w = false ∧ isMonthOnly w = false ∧ isYearOnly w = true) ∧
    swiftDayOrMonth [cMing, cNian] = 1 ∧ swiftDayOrMonth [cQu, cNian] = -1 ∧ swiftDayOrMonth [cBen, cNian] = 0 ∧
    swiftDayOrMonth [cQian, cNian] = -2 ∧ swiftDayOrMonth [cHou, cNian] = 2 := by decide

/-! ## 今天 / 明天 / 后天 / 大后天 / 昨天 / 前天 / 大前天 -/

/-- A special day with swift `k` (`k = get_swift_day(word)`, see `zh_swift_day_words`): the reference's date plus `k`
days, at midnight, future = past, TIMEX = that date — for every reference and every `k`. -/
theorem zh_special_day (R : DateTime) (hv : R.date.valid = true) (k : Int) (t : Str) (f p : DateTime)
    (h : zhSpecialDay R k = .ok t f p) :
    f = p ∧ f.date.valid = true ∧ (f.date.ord : Int) = R.date.ord + k ∧ f.secs = 0 ∧ t = luisDateOf f := by
  rw [zhSpecialDay_eq_base R hv k] at h
  cases hs : DateUtils.specialDay R k with
  | none => simp [hs] at h
  | some x =>
    obtain ⟨t', v⟩ := x
    simp only [hs, DRes.ok.injEq] at h
    obtain ⟨h1, h2, h3⟩ := h
    subst h1 h2 h3
    have s := specialDay_spec R hv k _ _ hs
    exact ⟨rfl, s.1, s.2.1, s.2.2.1, s.2.2.2⟩

/-- 今天 is the reference's date at midnight. -/
theorem zh_today_is_reference_date (R : DateTime) (hv : R.date.valid = true) :
    zhSpecialDay R (swiftDay [cJin, cTian]) = .ok (luisDate R.date.y R.date.m R.date.d) ⟨R.date, 0⟩ ⟨R.date, 0⟩ := by
  rw [show swiftDay [cJin, cTian] = 0 by decide, zhSpecialDay_eq_base R hv 0, today_is_reference_date R hv]

/-- 明天 is the next day, 昨天 the previous one, 后天 / 前天 two days later / earlier. -/
theorem zh_tomorrow_yesterday (R : DateTime) (hv : R.date.valid = true) (t : Str) (f p : DateTime) :
    (zhSpecialDay R (swiftDay [cMing, cTian]) = .ok t f p → f.date.ord = R.date.ord + 1 ∧ f.secs = 0 ∧ f = p ∧ t = luisDateOf f) ∧
    (zhSpecialDay R (swiftDay [cZuo, cTian]) = .ok t f p → f.date.ord + 1 = R.date.ord ∧ f.secs = 0 ∧ f = p ∧ t = luisDateOf f) ∧
    (zhSpecialDay R (swiftDay [cHou, cTian]) = .ok t f p → f.date.ord = R.date.ord + 2 ∧ f.secs = 0 ∧ f = p ∧ t = luisDateOf f) ∧
    (zhSpecialDay R (swiftDay [cQian, cTian]) = .ok t f p → f.date.ord + 2 = R.date.ord ∧ f.secs = 0 ∧ f = p ∧ t = luisDateOf f) := by
  have w := zh_swift_day_words
  refine ⟨?_, ?_, ?_, ?_⟩ <;> intro h
  · rw [w.2.2.2.1] at h; have s := zh_special_day R hv 1 t f p h; exact ⟨by omega, s.2.2.2.1, s.1, s.2.2.2.2⟩
  · rw [w.2.2.2.2.2.1] at h; have s := zh_special_day R hv (-1) t f p h; exact ⟨by omega, s.2.2.2.1, s.1, s.2.2.2.2⟩
  · rw [w.2.2.2.2.2.2.2.1] at h; have s := zh_special_day R hv 2 t f p h; exact ⟨by omega, s.2.2.2.1, s.1, s.2.2.2.2⟩
  · rw [w.2.2.2.2.2.2.2.2.2.2.2.1] at h; have s := zh_special_day R hv (-2) t f p h; exact ⟨by omega, s.2.2.2.1, s.1, s.2.2.2.2⟩

/-- The result exists whenever the day lies inside 0001-01-01..9999-12-31. -/
theorem zh_special_day_defined (R : DateTime) (hv : R.date.valid = true) (k : Int)
    (h1 : 1 ≤ (R.date.ord : Int) + k) (h2 : (R.date.ord : Int) + k ≤ maxOrd) : ∃ t f, zhSpecialDay R k = .ok t f f := by
  obtain ⟨r, hr⟩ := addDays_isSome R k h1 h2
  exact ⟨_, _, by unfold zhSpecialDay; rw [hr]⟩

example : zhSpecialDay ⟨⟨2020, 2, 28⟩, 50000⟩ 2 = .ok (luisDate 2020 3 1) ⟨⟨2020, 3, 1⟩, 0⟩ ⟨⟨2020, 3, 1⟩, 0⟩ := by decide
example : zhSpecialDay ⟨⟨2021, 1, 1⟩, 86399⟩ (-3) = .ok (luisDate 2020 12 29) ⟨⟨2020, 12, 29⟩, 0⟩ ⟨⟨2020, 12, 29⟩, 0⟩ := by decide

/-! ## 这周三 / 下周一 / 上周五 -/

/-- 这 / 本 + weekday: that weekday of the ISO week containing `R` (time of day kept), TIMEX = its date. `dow` is the
culture's number (`ParserConfigurationDayOfWeek`: Sunday = 0). -/
theorem zh_this_weekday (R : DateTime) (hv : R.date.valid = true) (dow : Nat) (hd : dow ≤ 7) (t : Str) (f p : DateTime)
    (h : relWeekday .this R dow = .ok t f p) :
    f = p ∧ f.date.valid = true ∧ f.secs = R.secs ∧ isoWeekdayOrd f.date.ord = target dow ∧
    mondayOrd f.date.ord = mondayOrd R.date.ord ∧ t = luisDateOf f := by
  have s := relWeekday_ok .this R dow t f p h
  have w := this_in_iso_week R hv dow hd f s.2.2
  exact ⟨s.1, w.1, w.2.1, w.2.2.1, w.2.2.2, s.2.1⟩

/-- 下 + weekday: that weekday of the *following* ISO week. -/
theorem zh_next_weekday (R : DateTime) (hv : R.date.valid = true) (dow : Nat) (hd : dow ≤ 7) (t : Str) (f p : DateTime)
    (h : relWeekday .next R dow = .ok t f p) :
    f = p ∧ f.date.valid = true ∧ f.secs = R.secs ∧ isoWeekdayOrd f.date.ord = target dow ∧
    mondayOrd f.date.ord = mondayOrd R.date.ord + 7 ∧ t = luisDateOf f := by
  have s := relWeekday_ok .next R dow t f p h
  have w := next_is_following_week R hv dow hd f s.2.2
  exact ⟨s.1, w.1, w.2.1, w.2.2.1, w.2.2.2, s.2.1⟩

/-- 上 + weekday: that weekday of the *preceding* ISO week. -/
theorem zh_last_weekday (R : DateTime) (hv : R.date.valid = true) (dow : Nat) (hd : dow ≤ 7) (t : Str) (f p : DateTime)
    (h : relWeekday .last R dow = .ok t f p) :
    f = p ∧ f.date.valid = true ∧ f.secs = R.secs ∧ isoWeekdayOrd f.date.ord = target dow ∧
    mondayOrd f.date.ord + 7 = mondayOrd R.date.ord ∧ t = luisDateOf f := by
  have s := relWeekday_ok .last R dow t f p h
  have w := last_is_preceding_week R hv dow hd f s.2.2
  exact ⟨s.1, w.1, w.2.1, w.2.2.1, w.2.2.2, s.2.1⟩

example : relWeekday .next ⟨⟨2020, 12, 31⟩, 0⟩ 1 = .ok (luisDate 2021 1 4) ⟨⟨2021, 1, 4⟩, 0⟩ ⟨⟨2021, 1, 4⟩, 0⟩ := by decide
example : relWeekday .last ⟨⟨2021, 1, 3⟩, 86399⟩ 0 = .ok (luisDate 2020 12 27) ⟨⟨2020, 12, 27⟩, 86399⟩ ⟨⟨2020, 12, 27⟩, 86399⟩ := by
  decide

/-! ## N天前 / N天后 / N周前 / N周后 -/

/-- N天前 (also 以前 / 之前): the reference minus N days — for every N — time of day kept, TIMEX = that date. -/
theorem zh_n_days_ago (R : DateTime) (hv : R.date.valid = true) (n : Nat) (after : Bool) (t : Str) (f p : DateTime)
    (h : agoLater R .D n true after = .ok t f p) :
    f = p ∧ f.date.valid = true ∧ f.date.ord + n = R.date.ord ∧ f.secs = R.secs ∧ t = luisDateOf f := by
  have s := optDate_ok (DateUtils.addDays R (-(n : Int))) t f p h
  have a := addDays_spec R hv _ f s.1
  exact ⟨s.2.1, a.1, by omega, a.2.2, s.2.2⟩

/-- N天后 (also 以后 / 之后 / 後): the reference plus N days. -/
theorem zh_n_days_later (R : DateTime) (hv : R.date.valid = true) (n : Nat) (t : Str) (f p : DateTime)
    (h : agoLater R .D n false true = .ok t f p) :
    f = p ∧ f.date.valid = true ∧ f.date.ord = R.date.ord + n ∧ f.secs = R.secs ∧ t = luisDateOf f := by
  have s := optDate_ok (DateUtils.addDays R (n : Int)) t f p h
  have a := addDays_spec R hv _ f s.1
  exact ⟨s.2.1, a.1, by omega, a.2.2, s.2.2⟩

/-- N周 is 7N天, in both directions. -/
theorem zh_n_weeks_is_7n_days (R : DateTime) (n : Nat) (before after : Bool) :
    agoLater R .W n before after = agoLater R .D (7 * n : Nat) before after := by
  cases before <;> cases after <;> simp [agoLater, agoLaterPreFix] <;> congr 2 <;> omega

/-- The result exists exactly when it stays inside 0001-01-01..9999-12-31. -/
theorem zh_n_days_defined (R : DateTime) (hv : R.date.valid = true) (n : Nat) :
    (n < R.date.ord → ∃ t f, agoLater R .D n true false = .ok t f f) ∧
    (R.date.ord + n ≤ maxOrd → ∃ t f, agoLater R .D n false true = .ok t f f) := by
  have rr := ord_range R.date hv
  constructor <;> intro h
  · obtain ⟨r, hr⟩ := addDays_isSome R (-(n : Int)) (by omega) (by omega)
    exact ⟨luisDateOf r, r, by simp [agoLater, agoLaterPreFix, hr]⟩
  · obtain ⟨r, hr⟩ := addDays_isSome R (n : Int) (by omega) (by omega)
    exact ⟨luisDateOf r, r, by simp [agoLater, agoLaterPreFix, hr]⟩

/-- the recorded fix `6a59a11ef`: 100天前 asked on 2020-01-31 is 2019-10-23 (the pre-fix code read `10`). -/
example : agoLater ⟨⟨2020, 1, 31⟩, 52200⟩ .D 100 true false =
    .ok (luisDate 2019 10 23) ⟨⟨2019, 10, 23⟩, 52200⟩ ⟨⟨2019, 10, 23⟩, 52200⟩ := by decide
example : agoLater ⟨⟨2020, 1, 31⟩, 52200⟩ .W 2 false true =
    .ok (luisDate 2020 2 14) ⟨⟨2020, 2, 14⟩, 52200⟩ ⟨⟨2020, 2, 14⟩, 52200⟩ := by decide

/-! ## N个月前 / N个月后 / N年前 / N年后 (the repaired code: `reference + datedelta(months | years = ∓N)`) -/

/-- N年前: the reference moved back by exactly N years — the FULL date: year − N, same month and day, except that
29 February lands on 28 February when the target year is not a leap year (`yearStepMD`, the datedelta semantics) —
time of day kept, for every reference and every N. -/
theorem zh_n_years_ago (R : DateTime) (hv : R.date.valid = true) (n : Nat) (after : Bool) (t : Str) (f p : DateTime)
    (h : agoLater R .Y n true after = .ok t f p) :
    f = p ∧ f.date.valid = true ∧ (f.date.y : Int) = R.date.y - n ∧ (f.date.m, f.date.d) = yearStepMD R.date (-(n : Int)) ∧
    f.secs = R.secs ∧ t = luisDateOf f := by
  have s := optDate_ok (addDelta R (-(n : Int)) 0 0) t f p h
  unfold addDelta at s
  cases hd : datedeltaAdd R.date (-(n : Int)) 0 0 with
  | none => simp [hd] at s
  | some d =>
    simp only [hd, Option.map_some, Option.some.injEq] at s
    have y := datedeltaAdd_years_full R.date hv _ d hd
    obtain ⟨s1, s2, s3⟩ := s
    subst s1
    exact ⟨s2, y.1, by simp only; omega, y.2.2, rfl, s3⟩

/-- N年后: forward by exactly N years — the full date: year + N, same month and day, 29 February → 1 March when the
target year is not a leap year (`yearStepMD`). -/
theorem zh_n_years_later (R : DateTime) (hv : R.date.valid = true) (n : Nat) (t : Str) (f p : DateTime)
    (h : agoLater R .Y n false true = .ok t f p) :
    f = p ∧ f.date.valid = true ∧ (f.date.y : Int) = R.date.y + n ∧ (f.date.m, f.date.d) = yearStepMD R.date (n : Int) ∧
    f.secs = R.secs ∧ t = luisDateOf f := by
  have s := optDate_ok (addDelta R (n : Int) 0 0) t f p h
  unfold addDelta at s
  cases hd : datedeltaAdd R.date (n : Int) 0 0 with
  | none => simp [hd] at s
  | some d =>
    simp only [hd, Option.map_some, Option.some.injEq] at s
    have y := datedeltaAdd_years_full R.date hv _ d hd
    obtain ⟨s1, s2, s3⟩ := s
    subst s1
    exact ⟨s2, y.1, by simp only; omega, y.2.2, rfl, s3⟩

/-- N个月前: the FULL date — the month of the reference moved back by exactly N calendar months (`shiftMonth`), the day
kept, clamped to the target month's end when it does not exist there (`min`, datedelta semantics) — time of day kept,
for every reference and every N. -/
theorem zh_n_months_ago (R : DateTime) (hv : R.date.valid = true) (n : Nat) (after : Bool) (t : Str) (f p : DateTime)
    (h : agoLater R .MON n true after = .ok t f p) :
    f = p ∧ f.date.valid = true ∧ ((f.date.y : Int), f.date.m) = shiftMonth R.date.y R.date.m (-(n : Int)) ∧
    f.date.d = min R.date.d (daysInMonth (shiftMonth R.date.y R.date.m (-(n : Int))).1.toNat (shiftMonth R.date.y R.date.m (-(n : Int))).2) ∧
    f.secs = R.secs ∧ t = luisDateOf f := by
  have s := optDate_ok (addDelta R 0 (-(n : Int)) 0) t f p h
  unfold addDelta at s
  cases hd : datedeltaAdd R.date 0 (-(n : Int)) 0 with
  | none => simp [hd] at s
  | some d =>
    simp only [hd, Option.map_some, Option.some.injEq] at s
    have y := datedeltaAdd_months_full R.date hv _ d hd (Or.inl (by omega))
    obtain ⟨s1, s2, s3⟩ := s
    subst s1
    exact ⟨s2, y.1, by simp only; rw [Prod.ext_iff]; exact ⟨y.2.1, y.2.2.1⟩, y.2.2.2, rfl, s3⟩

/-- N个月后: the FULL date — forward by exactly N calendar months, SAME day — whenever the reference's day exists in the
target month (otherwise the datedelta semantics roll forward to the 1st of the month after: `monthStep`, example below). -/
theorem zh_n_months_later (R : DateTime) (hv : R.date.valid = true) (n : Nat) (t : Str) (f p : DateTime)
    (h : agoLater R .MON n false true = .ok t f p)
    (g : R.date.d ≤ daysInMonth (shiftMonth R.date.y R.date.m n).1.toNat (shiftMonth R.date.y R.date.m n).2) :
    f = p ∧ f.date.valid = true ∧ ((f.date.y : Int), f.date.m) = shiftMonth R.date.y R.date.m (n : Int) ∧
    f.date.d = R.date.d ∧ f.secs = R.secs ∧ t = luisDateOf f := by
  have s := optDate_ok (addDelta R 0 (n : Int) 0) t f p h
  unfold addDelta at s
  cases hd : datedeltaAdd R.date 0 (n : Int) 0 with
  | none => simp [hd] at s
  | some d =>
    simp only [hd, Option.map_some, Option.some.injEq] at s
    have y := datedeltaAdd_months_full R.date hv _ d hd (Or.inr g)
    obtain ⟨s1, s2, s3⟩ := s
    subst s1
    exact ⟨s2, y.1, by simp only; rw [Prod.ext_iff]; exact ⟨y.2.1, y.2.2.1⟩, by simp only; rw [y.2.2.2]; omega, rfl, s3⟩

/-- days and weeks are untouched by the repair -/
theorem zh_ago_later_days_weeks_unchanged (R : DateTime) (n : Int) (before after : Bool) :
    agoLater R .D n before after = agoLaterPreFix R .D n before after ∧
    agoLater R .W n before after = agoLaterPreFix R .W n before after := by
  cases before <;> cases after <;> exact ⟨rfl, rfl⟩

example : agoLater ⟨⟨2020, 1, 31⟩, 52200⟩ .MON 3 true false =
    .ok (luisDate 2019 10 31) ⟨⟨2019, 10, 31⟩, 52200⟩ ⟨⟨2019, 10, 31⟩, 52200⟩ := by decide
example : agoLater ⟨⟨2020, 1, 31⟩, 52200⟩ .MON 1 false true =
    .ok (luisDate 2020 3 1) ⟨⟨2020, 3, 1⟩, 52200⟩ ⟨⟨2020, 3, 1⟩, 52200⟩ := by decide       -- datedelta rolls forward
example : agoLater ⟨⟨2020, 2, 29⟩, 0⟩ .Y 2 true false =
    .ok (luisDate 2018 2 28) ⟨⟨2018, 2, 28⟩, 0⟩ ⟨⟨2018, 2, 28⟩, 0⟩ := by decide

/-! ### REGRESSION (pre-fix code): N个月前 / N年后 did not use N -/

/-- For months and years the pre-fix code did not use the number: N个月前 was what 1个月前 is, N年后 what 1年后 is — for
every reference and every N. -/
theorem zh_months_years_prefix_ignore_number (R : DateTime) (n : Int) (before after : Bool) :
    agoLaterPreFix R .MON n before after = agoLaterPreFix R .MON 1 before after ∧
    agoLaterPreFix R .Y n before after = agoLaterPreFix R .Y 1 before after := by
  cases before <;> cases after <;> exact ⟨rfl, rfl⟩

/-- Regression witnesses: 2年前 asked on 2020-01-31 → 2019-01-31 (repaired: 2018-01-31); 3个月前 asked in January raised
(`replace(month=0)`; repaired: 2019-10-31); 1个月后 asked on 2020-01-31 raised (February 31st); 1年后 asked on a
29 February raised. -/
theorem zh_months_years_prefix_regression :
    agoLaterPreFix ⟨⟨2020, 1, 31⟩, 52200⟩ .Y 2 true false =
      .ok (luisDate 2019 1 31) ⟨⟨2019, 1, 31⟩, 52200⟩ ⟨⟨2019, 1, 31⟩, 52200⟩ ∧
    agoLater ⟨⟨2020, 1, 31⟩, 52200⟩ .Y 2 true false =
      .ok (luisDate 2018 1 31) ⟨⟨2018, 1, 31⟩, 52200⟩ ⟨⟨2018, 1, 31⟩, 52200⟩ ∧
    agoLaterPreFix ⟨⟨2020, 1, 31⟩, 52200⟩ .MON 3 true false = .raises ∧
    agoLaterPreFix ⟨⟨2020, 1, 31⟩, 52200⟩ .MON 1 false true = .raises ∧
    agoLaterPreFix ⟨⟨2020, 2, 29⟩, 0⟩ .Y 1 false true = .raises := by
  refine ⟨?_, ?_, ?_, ?_, ?_⟩ <;> decide

/-! ## 这周 / 下周 / 上周 -/

/-- A one-word week (`is_week_only`, not 今年): `[Monday(R) + 7k, Monday(R) + 7k + 7)` with `k = get_swift_day_or_month`
of the word (0 / +1 / −1 for 这周·本周 / 下周 / 上周 by `zh_period_words`); the TIMEX `YYYY-Www` carries the ISO year and
ISO week of `isocalendar()` of the first day, a Monday. -/
theorem zh_week_period (R : DateTime) (hv : R.date.valid = true) (src : Str) (h1 : isYearToDate src = false)
    (h2 : isWeekOnly src = true) (t : Str) (b e pb pe : DateTime) (h : oneWord R src none = .ok t b e pb pe) :
    pb = b ∧ pe = e ∧ b.date.valid = true ∧ e.date.valid = true ∧
    (b.date.ord : Int) = mondayOrd R.date.ord + 7 * swiftDayOrMonth src ∧ e.date.ord = b.date.ord + 7 ∧
    weekdayOrd b.date.ord = 0 ∧ b.secs = R.secs ∧ e.secs = R.secs ∧
    t = pad 4 (isoCalendar b.date).1 ++ [45, 87] ++ pad 2 (isoCalendar b.date).2.1 ∧ (isoCalendar b.date).2.2 = 1 := by
  rw [oneWord_week R src h1 h2] at h
  have o := ofTriple_ok _ t b e pb pe h
  have s := this_week_is_monday_to_monday R hv _ t b e o.1
  have w := week_timex_matches_isocalendar R hv _ t b e o.1
  exact ⟨o.2.1, o.2.2, s.1, s.2.1, s.2.2.1, s.2.2.2.1, s.2.2.2.2.1, s.2.2.2.2.2.1, s.2.2.2.2.2.2, w.1, w.2⟩

example : oneWord ⟨⟨2020, 12, 31⟩, 0⟩ [cXia, cZhou] none =
    .ok (Py.ofString "2021-W01") ⟨⟨2021, 1, 4⟩, 0⟩ ⟨⟨2021, 1, 11⟩, 0⟩ ⟨⟨2021, 1, 4⟩, 0⟩ ⟨⟨2021, 1, 11⟩, 0⟩ := by decide
example : oneWord ⟨⟨2021, 1, 3⟩, 100⟩ [cBen, cZhou] none =
    .ok (Py.ofString "2020-W53") ⟨⟨2020, 12, 28⟩, 100⟩ ⟨⟨2021, 1, 4⟩, 100⟩ ⟨⟨2020, 12, 28⟩, 100⟩ ⟨⟨2021, 1, 4⟩, 100⟩ := by decide

/-- 周末 / 下周末: `[Saturday, Monday)` of the shifted week, TIMEX `YYYY-Www-WE` of the Saturday's ISO year and week. -/
theorem zh_weekend_period (R : DateTime) (hv : R.date.valid = true) (src : Str) (h1 : isYearToDate src = false)
    (h2 : isWeekOnly src = false) (h3 : isWeekend src = true) (t : Str) (b e pb pe : DateTime)
    (h : oneWord R src none = .ok t b e pb pe) :
    pb = b ∧ pe = e ∧ b.date.valid = true ∧ e.date.valid = true ∧
    (b.date.ord : Int) = mondayOrd R.date.ord + 5 + 7 * swiftDayOrMonth src ∧ e.date.ord = b.date.ord + 2 ∧
    t = pad 4 (isoCalendar b.date).1 ++ [45, 87] ++ pad 2 (isoCalendar b.date).2.1 ++ [45, 87, 69] := by
  rw [oneWord_weekend R src h1 h2 h3] at h
  have o := ofTriple_ok _ t b e pb pe h
  have s := weekend_timex_fixed R hv _ t b e o.1
  exact ⟨o.2.1, o.2.2, s.1, s.2.1, s.2.2.2.2.1, s.2.2.2.2.2.1, s.2.2.2.2.2.2⟩

/-! ## 这个月 / 下个月 / 上个月 -/

/-- A one-word month (`is_month_only`): `[1st of the shifted month, 1st of the month after)` with TIMEX `YYYY-MM`, for
every reference (the Base code after `fix: 'next/last month' shifts from the first of the month`, which the Chinese
configuration runs). -/
theorem zh_month_period (R : DateTime) (hv : R.date.valid = true) (src : Str) (h1 : isYearToDate src = false)
    (h2 : isWeekOnly src = false) (h3 : isWeekend src = false) (h4 : isMonthOnly src = true)
    (t : Str) (b e pb pe : DateTime) (h : oneWord R src none = .ok t b e pb pe) :
    pb = b ∧ pe = e ∧
    ∃ Y M Y2 M2 : Nat, ((Y : Int), M) = shiftMonth R.date.y R.date.m (swiftDayOrMonth src) ∧
      ((Y2 : Int), M2) = shiftMonth Y M 1 ∧
      t = pad 4 Y ++ [45] ++ pad 2 M ∧ b = ⟨⟨Y, M, 1⟩, 0⟩ ∧ e = ⟨⟨Y2, M2, 1⟩, 0⟩ := by
  rw [oneWord_month R src h1 h2 h3 h4] at h
  have o := ofTriple_ok _ t b e pb pe h
  exact ⟨o.2.1, o.2.2, month_period_fixed R hv _ t b e o.1⟩

example : oneWord ⟨⟨2020, 1, 31⟩, 0⟩ [cXia, cGe, cYue] none =
    .ok (Py.ofString "2020-02") ⟨⟨2020, 2, 1⟩, 0⟩ ⟨⟨2020, 3, 1⟩, 0⟩ ⟨⟨2020, 2, 1⟩, 0⟩ ⟨⟨2020, 3, 1⟩, 0⟩ := by decide
example : oneWord ⟨⟨2020, 1, 31⟩, 7⟩ [cShang, cGe, cYue] none =
    .ok (Py.ofString "2019-12") ⟨⟨2019, 12, 1⟩, 0⟩ ⟨⟨2020, 1, 1⟩, 0⟩ ⟨⟨2019, 12, 1⟩, 0⟩ ⟨⟨2020, 1, 1⟩, 0⟩ := by decide

/-! ## 明年 / 去年 / 本年 — and 今年 -/

/-- A one-word year (`is_year_only`, not 今年): `[Jan 1 of R.year + k, Jan 1 of R.year + k + 1)` with TIMEX `YYYY`. -/
theorem zh_year_period (R : DateTime) (hv : R.date.valid = true) (src : Str) (h1 : isYearToDate src = false)
    (h2 : isWeekOnly src = false) (h3 : isWeekend src = false) (h4 : isMonthOnly src = false) (h5 : isYearOnly src = true)
    (t : Str) (b e pb pe : DateTime) (h : oneWord R src none = .ok t b e pb pe) :
    pb = b ∧ pe = e ∧
    ∃ Y : Nat, (Y : Int) = R.date.y + swiftDayOrMonth src ∧ t = pad 4 Y ∧ b = ⟨⟨Y, 1, 1⟩, 0⟩ ∧ e = ⟨⟨Y + 1, 1, 1⟩, 0⟩ := by
  rw [oneWord_year R src h1 h2 h3 h4 h5] at h
  have o := ofTriple_ok _ t b e pb pe h
  exact ⟨o.2.1, o.2.2, year_period R hv _ t b e o.1⟩

/-- **Where the Chinese code differs from the property**: 今年 ("this year") is classified by `is_year_to_date` and
resolves to `[1 January of R's year, R]` — "year to date" — for every reference, not to the whole year. (The
cross-platform Specs expect exactly this: `我今年18周岁了` at 2018-07-16 → 2018-01-01 .. 2018-07-16.) -/
theorem zh_this_year_is_year_to_date (R : DateTime) (hv : R.date.valid = true) (mg : Option Nat) :
    oneWord R [cJin, cNian] mg = .ok (pad 4 R.date.y) ⟨⟨R.date.y, 1, 1⟩, 0⟩ R ⟨⟨R.date.y, 1, 1⟩, 0⟩ R := by
  unfold oneWord
  rw [show isYearToDate [cJin, cNian] = true by decide]
  simp only [if_true, yearToDate_spec R hv]

/-- Witness: asked on 2020-01-31 14:30:00, 今年 ends at the reference while 本年 / 这一年 is the whole year 2020. -/
theorem zh_this_year_witness :
    oneWord ⟨⟨2020, 1, 31⟩, 52200⟩ [cJin, cNian] none =
      .ok (Py.ofString "2020") ⟨⟨2020, 1, 1⟩, 0⟩ ⟨⟨2020, 1, 31⟩, 52200⟩ ⟨⟨2020, 1, 1⟩, 0⟩ ⟨⟨2020, 1, 31⟩, 52200⟩ ∧
    oneWord ⟨⟨2020, 1, 31⟩, 52200⟩ [cBen, cNian] none =
      .ok (Py.ofString "2020") ⟨⟨2020, 1, 1⟩, 0⟩ ⟨⟨2021, 1, 1⟩, 0⟩ ⟨⟨2020, 1, 1⟩, 0⟩ ⟨⟨2021, 1, 1⟩, 0⟩ := by
  constructor <;> decide

/-- 上上周 / 下下个月 (admitted by `OneWordPeriodRegex`) shift by one week / month, not two: the swift only looks for
one occurrence of 上 / 下. -/
theorem zh_double_prefix_shifts_once :
    swiftDayOrMonth [cShang, cShang, cZhou] = -1 ∧ swiftDayOrMonth [cXia, cXia, cGe, cYue] = 1 ∧
    oneWord ⟨⟨2020, 1, 31⟩, 0⟩ [cShang, cShang, cZhou] none = oneWord ⟨⟨2020, 1, 31⟩, 0⟩ [cShang, cZhou] none := by
  refine ⟨?_, ?_, ?_⟩ <;> decide

/-- 下週 (traditional character, admitted by `OneWordPeriodRegex`) is none of week / weekend / month / year for the
classifiers (`is_week_only` knows 周 and 星期 only): the code falls through to the current month, with no TIMEX. -/
theorem zh_traditional_week_falls_through :
    oneWord ⟨⟨2020, 1, 31⟩, 52200⟩ [cXia, 36913] none =
      .ok [] ⟨⟨2020, 1, 1⟩, 0⟩ ⟨⟨2020, 2, 1⟩, 0⟩ ⟨⟨2020, 1, 1⟩, 0⟩ ⟨⟨2020, 2, 1⟩, 0⟩ := by decide

/-! ## 5月1日到5日 (`_parse_simple_cases`) -/

/-- Month named and a year in the text, both days exist, `begin_day ≤ end_day`: the values are those two dates
(future = past), the TIMEX is the `dayTriple` of Props/C10 and satisfies `tripleOK`; with `begin_day < end_day` the range
is well formed — for every reference, in both variants of the
code (`fx`). -/
theorem zh_simple_cases_definite_ok (fx : Bool) (R : DateTime) (y m bd ed : Nat) (rs : Int) (fu : Bool)
    (hb : (⟨y, m, bd⟩ : Date).valid = true) (he : (⟨y, m, ed⟩ : Date).valid = true) (hle : bd ≤ ed) :
    simpleCasesG fx R bd ed (some m) rs fu (some (y : Int)) =
      .ok (dayTriple ⟨y, m, bd⟩ ⟨y, m, ed⟩) ⟨⟨y, m, bd⟩, 0⟩ ⟨⟨y, m, ed⟩, 0⟩ ⟨⟨y, m, bd⟩, 0⟩ ⟨⟨y, m, ed⟩, 0⟩ ∧
    tripleOK (dayTriple ⟨y, m, bd⟩ ⟨y, m, ed⟩) (some (formatDate ⟨y, m, bd⟩)) (some (formatDate ⟨y, m, ed⟩)) = true ∧
    (bd < ed → 2 ≤ y → Periods.rangeOK ⟨⟨y, m, bd⟩, 0⟩ ⟨⟨y, m, ed⟩, 0⟩) := by
  have hord : (⟨y, m, bd⟩ : Date).ord ≤ (⟨y, m, ed⟩ : Date).ord := by simp only [Date.ord]; omega
  refine ⟨?_, between_dates_consistent _ _ hb he hord, ?_⟩
  · unfold simpleCasesG generateDates
    cases fx
    all_goals simp only [Option.getD_some, Option.isSome_some, Bool.true_or, if_true, Bool.not_true, Bool.false_eq_true, if_false, Bool.false_and,
      Periods.luis_some, safeCreate_ymd y m bd hb, safeCreate_ymd y m ed he, Periods.intStr_nonneg bd ed hle]
    all_goals simp [dayTriple, Periods.same_month_ord y m bd ed hle]
  · intro hlt hy
    exact ⟨hb, he, by simp only [Date.ord]; omega, Periods.ne_min_of_year _ hy, Periods.ne_min_of_year _ hy⟩

example : simpleCases ⟨⟨2020, 1, 31⟩, 52200⟩ 1 5 (some 5) 0 false none =
    .ok (Py.ofString "(XXXX-05-01,XXXX-05-05,P4D)") ⟨⟨2020, 5, 1⟩, 0⟩ ⟨⟨2020, 5, 5⟩, 0⟩ ⟨⟨2019, 5, 1⟩, 0⟩ ⟨⟨2019, 5, 5⟩, 0⟩ := by
  decide +kernel

/-- A relative month (这个月 / 下个月 / 上个月 D1日到D2日, `rs` = 0 / +1 / −1) in the repaired code: the month is the
reference's month shifted by `rs` (`shiftMonth`, over the year boundary), the values are the two days of that month
(future = past), for every reference; with a this- / next-prefix (`fu`) the TIMEX is the definite `dayTriple` of those
very dates and satisfies `tripleOK` (with 上个月 the TIMEX has an open year and demands nothing). -/
theorem zh_simple_cases_relative_month_fixed (R : DateTime) (hv : R.date.valid = true) (rs : Int) (hrs : -1 ≤ rs ∧ rs ≤ 1)
    (bd ed : Nat) (fu : Bool) (Y M : Nat) (hYM : ((Y : Int), M) = shiftMonth R.date.y R.date.m rs)
    (hb : (⟨Y, M, bd⟩ : Date).valid = true) (he : (⟨Y, M, ed⟩ : Date).valid = true) (hle : bd ≤ ed) :
    simpleCases R bd ed none rs fu none =
      .ok ([40] ++ Periods.luis (if fu then some (Y : Int) else none) M bd ++ [44] ++
            Periods.luis (if fu then some (Y : Int) else none) M ed ++ [44, 80] ++ natStr (ed - bd) ++ [68, 41])
        ⟨⟨Y, M, bd⟩, 0⟩ ⟨⟨Y, M, ed⟩, 0⟩ ⟨⟨Y, M, bd⟩, 0⟩ ⟨⟨Y, M, ed⟩, 0⟩ ∧
    (fu = true →
      [40] ++ Periods.luis (some (Y : Int)) M bd ++ [44] ++ Periods.luis (some (Y : Int)) M ed ++ [44, 80] ++ natStr (ed - bd) ++
        [68, 41] = dayTriple ⟨Y, M, bd⟩ ⟨Y, M, ed⟩ ∧
      tripleOK (dayTriple ⟨Y, M, bd⟩ ⟨Y, M, ed⟩) (some (formatDate ⟨Y, M, bd⟩)) (some (formatDate ⟨Y, M, ed⟩)) = true) := by
  have hvy := (valid_iff R.date).1 hv
  have hord : (⟨Y, M, bd⟩ : Date).ord ≤ (⟨Y, M, ed⟩ : Date).ord := by simp only [Date.ord]; omega
  unfold shiftMonth at hYM
  simp only [Prod.mk.injEq] at hYM
  have hwin : (if (R.date.m : Int) + rs < 1 then ((R.date.y : Int) - 1, 12)
      else if (R.date.m : Int) + rs > 12 then ((R.date.y : Int) + 1, 1) else ((R.date.y : Int), ((R.date.m : Int) + rs).toNat)) =
      ((Y : Int), M) := by
    by_cases c1 : (R.date.m : Int) + rs < 1
    · rw [if_pos c1, Prod.mk.injEq]; omega
    · rw [if_neg c1]
      by_cases c2 : (R.date.m : Int) + rs > 12
      · rw [if_pos c2, Prod.mk.injEq]; omega
      · rw [if_neg c2, Prod.mk.injEq]; omega
  refine ⟨?_, fun _ => ⟨?_, between_dates_consistent _ _ hb he hord⟩⟩
  · unfold simpleCases simpleCasesG generateDates
    simp only [if_true, hwin, Option.getD_none, Option.isSome_none, Bool.false_or, Bool.not_false, Bool.and_false,
      Bool.false_eq_true, if_false, safeCreate_ymd Y M bd hb, safeCreate_ymd Y M ed he, Periods.intStr_nonneg bd ed hle]
  · simp [dayTriple, Periods.luis_some, Periods.same_month_ord Y M bd ed hle]

example : simpleCases ⟨⟨2020, 12, 15⟩, 0⟩ 1 5 none 0 true none =
    .ok (Py.ofString "(2020-12-01,2020-12-05,P4D)") ⟨⟨2020, 12, 1⟩, 0⟩ ⟨⟨2020, 12, 5⟩, 0⟩ ⟨⟨2020, 12, 1⟩, 0⟩ ⟨⟨2020, 12, 5⟩, 0⟩ := by
  decide +kernel
example : simpleCases ⟨⟨2020, 12, 15⟩, 0⟩ 1 5 none 1 true none =
    .ok (Py.ofString "(2021-01-01,2021-01-05,P4D)") ⟨⟨2021, 1, 1⟩, 0⟩ ⟨⟨2021, 1, 5⟩, 0⟩ ⟨⟨2021, 1, 1⟩, 0⟩ ⟨⟨2021, 1, 5⟩, 0⟩ := by
  decide +kernel
example : simpleCases ⟨⟨2020, 1, 31⟩, 52200⟩ 1 5 none (-1) false none =
    .ok (Py.ofString "(XXXX-12-01,XXXX-12-05,P4D)") ⟨⟨2019, 12, 1⟩, 0⟩ ⟨⟨2019, 12, 5⟩, 0⟩ ⟨⟨2019, 12, 1⟩, 0⟩ ⟨⟨2019, 12, 5⟩, 0⟩ := by
  decide +kernel

/-! ### REGRESSION (pre-fix code): the relative month of a simple range -/

/-- Regression witnesses — the pre-fix month window was `< 0 → 0`, `> 11 → 11` (0-based months on 1-based values) and the
year of the values was moved by `generate_dates` although the TIMEX was definite: (1) 这个月1日到5日 asked on 2020-12-15 →
November 2021 / November 2020; (2) 上个月… asked in January → month 0, values `0001-01-01`; (3) 下个月1日到5日 asked on
2020-01-31 → TIMEX `(2020-02-01,2020-02-05,P4D)` with past value 2019-02-01..05, which `tripleOK` rejects. -/
theorem zh_simple_cases_prefix_regression :
    simpleCasesPreFix ⟨⟨2020, 12, 15⟩, 0⟩ 1 5 none 0 true none =
      .ok (Py.ofString "(2021-11-01,2021-11-05,P4D)") ⟨⟨2021, 11, 1⟩, 0⟩ ⟨⟨2021, 11, 5⟩, 0⟩ ⟨⟨2020, 11, 1⟩, 0⟩ ⟨⟨2020, 11, 5⟩, 0⟩ ∧
    simpleCasesPreFix ⟨⟨2020, 1, 31⟩, 52200⟩ 1 5 none (-1) false none =
      .ok (Py.ofString "(XXXX-00-01,XXXX-00-05,P4D)") DateUtils.minValue DateUtils.minValue DateUtils.minValue DateUtils.minValue ∧
    simpleCasesPreFix ⟨⟨2020, 1, 31⟩, 52200⟩ 1 5 none 1 true none =
      .ok (Py.ofString "(2020-02-01,2020-02-05,P4D)") ⟨⟨2020, 2, 1⟩, 0⟩ ⟨⟨2020, 2, 5⟩, 0⟩ ⟨⟨2019, 2, 1⟩, 0⟩ ⟨⟨2019, 2, 5⟩, 0⟩ ∧
    tripleOK (Py.ofString "(2020-02-01,2020-02-05,P4D)") (some (Py.ofString "2019-02-01")) (some (Py.ofString "2019-02-05")) = false := by
  refine ⟨?_, ?_, ?_, ?_⟩ <;> decide +kernel

/-! ## 前N天 / 过去N周 / 未来N天 / 后N周 (`__parse_common_duration_with_unit`) -/

def unitDays : Periods.PerUnit → Int
  | .D => 1 | .W => 7 | _ => 0

/-- 前 / 过去 / 近 / 上 + N days | weeks: `[R − kN, R]` (k = 1 or 7), time of day kept, future = past, and the emitted
`(begin,end,P<N>D|W)` satisfies `tripleOK` — for every reference and every N. -/
theorem zh_past_n_days_weeks_ok (R : DateTime) (hv : R.date.valid = true) (u : Periods.PerUnit) (hu : u = .D ∨ u = .W)
    (n : Nat) (t : Str) (b e pb pe : DateTime) (h : commonDuration R (some u) n true false = .ok t b e pb pe) :
    pb = b ∧ pe = e ∧ e = R ∧ b.date.valid = true ∧ b.secs = R.secs ∧
    (b.date.ord : Int) = R.date.ord - unitDays u * n ∧
    t = dateTriple b.date e.date n u.letter ∧
    tripleOK t (some (formatDate b.date)) (some (formatDate e.date)) = true := by
  have key : ∀ k : Int, k = unitDays u * n → ∀ b0, DateUtils.addDays R (-k) = some b0 →
      commonDuration R (some u) n true false = .ok (dateTriple b0.date R.date n u.letter) b0 R b0 R := by
    intro k hk b0 hb0
    rcases hu with c | c <;> subst c <;> simp only [unitDays] at hk
    · have e1 : -(n : Int) = -k := by omega
      simp [commonDuration, e1, hb0]
      rw [← triple_text]; simp
    · have e1 : 7 * -(n : Int) = -k := by omega
      simp [commonDuration, e1, hb0]
      rw [← triple_text]; simp
  cases hb0 : DateUtils.addDays R (-(unitDays u * n)) with
  | none =>
    exfalso
    rcases hu with c | c <;> subst c <;> simp only [unitDays] at hb0
    · have e1 : -(n : Int) = -(1 * (n : Int)) := by omega
      simp [commonDuration, e1, hb0] at h
    · have e1 : 7 * -(n : Int) = -(7 * (n : Int)) := by omega
      simp [commonDuration, e1, hb0] at h
  | some b0 =>
    rw [key _ rfl b0 hb0] at h
    simp only [Periods.Res.ok.injEq] at h
    obtain ⟨ht, h1, h2, h3, h4⟩ := h
    subst h1 h2 h3 h4
    have s := addDays_spec R hv _ b0 hb0
    refine ⟨rfl, rfl, rfl, s.1, s.2.2, by rw [s.2.1]; omega, ht.symm, ?_⟩
    rw [← ht]
    rcases hu with c | c <;> subst c
    · exact date_triple_ok _ _ s.1 hv n 68 .D (by simp) (by simp only [durHolds]; simp [unitDays] at s; omega)
    · exact date_triple_ok _ _ s.1 hv n 87 .W (by simp) (by simp only [durHolds]; simp [unitDays] at s; omega)

/-- 未来 / 后 / 之后 / 下 + N days | weeks: `[R + 1, R + 1 + kN]`, consistent triple. -/
theorem zh_next_n_days_weeks_ok (R : DateTime) (hv : R.date.valid = true) (u : Periods.PerUnit) (hu : u = .D ∨ u = .W)
    (n : Nat) (t : Str) (b e pb pe : DateTime) (h : commonDuration R (some u) n false true = .ok t b e pb pe) :
    pb = b ∧ pe = e ∧ b.date.valid = true ∧ e.date.valid = true ∧ b.secs = R.secs ∧ e.secs = R.secs ∧
    b.date.ord = R.date.ord + 1 ∧ (e.date.ord : Int) = R.date.ord + 1 + unitDays u * n ∧
    t = dateTriple b.date e.date n u.letter ∧
    tripleOK t (some (formatDate b.date)) (some (formatDate e.date)) = true := by
  have core : ∀ k : Int, k = unitDays u * n →
      (∀ b0 e1, DateUtils.addDays R 1 = some b0 → (DateUtils.addDays R k).bind (DateUtils.addDays · 1) = some e1 →
        commonDuration R (some u) n false true = .ok (dateTriple b0.date e1.date n u.letter) b0 e1 b0 e1) ∧
      ((DateUtils.addDays R 1 = none ∨ (DateUtils.addDays R k).bind (DateUtils.addDays · 1) = none) →
        commonDuration R (some u) n false true = .raises) := by
    intro k hk
    rcases hu with c | c <;> subst c <;> simp only [unitDays] at hk
    · have hk' : k = (n : Int) := by omega
      subst hk'
      refine ⟨fun b0 e1' hb he => ?_, fun hn => ?_⟩
      · simp [commonDuration, hb, he]
        rw [← triple_text]; simp
      · rcases hn with hn | hn <;> simp [commonDuration, hn]
        all_goals (try (cases DateUtils.addDays R 1 <;> simp))
    · subst hk
      refine ⟨fun b0 e1' hb he => ?_, fun hn => ?_⟩
      · simp [commonDuration, hb, he]
        rw [← triple_text]; simp
      · rcases hn with hn | hn <;> simp [commonDuration, hn]
        all_goals (try (cases DateUtils.addDays R 1 <;> simp))
  have cr := core _ rfl
  cases hb : DateUtils.addDays R 1 with
  | none => rw [cr.2 (Or.inl hb)] at h; simp at h
  | some b0 =>
    cases he0 : DateUtils.addDays R (unitDays u * n) with
    | none => rw [cr.2 (Or.inr (by simp [he0]))] at h; simp at h
    | some e0 =>
      have se0 := addDays_spec R hv _ e0 he0
      cases he1 : DateUtils.addDays e0 1 with
      | none => rw [cr.2 (Or.inr (by simp [he0, he1]))] at h; simp at h
      | some e1 =>
        rw [cr.1 b0 e1 hb (by simp [he0, he1])] at h
        simp only [Periods.Res.ok.injEq] at h
        obtain ⟨ht, h1, h2, h3, h4⟩ := h
        subst h1 h2 h3 h4
        have sb := addDays_spec R hv 1 b0 hb
        have se1 := addDays_spec e0 se0.1 1 e1 he1
        refine ⟨rfl, rfl, sb.1, se1.1, sb.2.2, by rw [se1.2.2, se0.2.2], by omega, by omega, ht.symm, ?_⟩
        rw [← ht]
        rcases hu with c | c <;> subst c
        · exact date_triple_ok _ _ sb.1 se1.1 n 68 .D (by simp) (by simp only [durHolds]; simp [unitDays] at se0; omega)
        · exact date_triple_ok _ _ sb.1 se1.1 n 87 .W (by simp) (by simp only [durHolds]; simp [unitDays] at se0; omega)

example : commonDuration ⟨⟨2020, 1, 31⟩, 52200⟩ (some .D) 3 true false =
    .ok (Py.ofString "(2020-01-28,2020-01-31,P3D)") ⟨⟨2020, 1, 28⟩, 52200⟩ ⟨⟨2020, 1, 31⟩, 52200⟩ ⟨⟨2020, 1, 28⟩, 52200⟩
      ⟨⟨2020, 1, 31⟩, 52200⟩ := by decide +kernel
example : commonDuration ⟨⟨2020, 1, 31⟩, 52200⟩ (some .W) 2 false true =
    .ok (Py.ofString "(2020-02-01,2020-02-15,P2W)") ⟨⟨2020, 2, 1⟩, 52200⟩ ⟨⟨2020, 2, 15⟩, 52200⟩ ⟨⟨2020, 2, 1⟩, 52200⟩
      ⟨⟨2020, 2, 15⟩, 52200⟩ := by decide +kernel

/-! ## years: 2019年, 98年, 二零一九年; quarters -/

/-- `_parse_year` with a four-character year: `[Jan 1 y, Jan 1 y+1)`, TIMEX `YYYY`, for 1 ≤ y ≤ 9998. -/
theorem zh_parse_year_wellformed (len : Nat) (hl : len ≠ 2) (y : Nat) (h1 : 1 ≤ y) (h2 : y ≤ 9998) :
    zhParseYear len (y : Int) = .ok (pad 4 y) ⟨⟨y, 1, 1⟩, 0⟩ ⟨⟨y + 1, 1, 1⟩, 0⟩ ⟨⟨y, 1, 1⟩, 0⟩ ⟨⟨y + 1, 1, 1⟩, 0⟩ := by
  have v0 := valid_jan1 y h1 (by omega)
  have v1 := valid_jan1 (y + 1) (by omega) (by omega)
  unfold zhParseYear
  simp only [hl, if_false, Periods.mk_valid y 1 1 v0, int_succ, Periods.mk_valid (y + 1) 1 1 v1, fmt04]
  rw [if_neg (by omega)]
  simp

/-- a two-character year: 30..99 → 19xx, 0..29 → 20xx (the pivot of `_parse_year`; `_parse_year_and_month`,
`_parse_quarter`, `_parse_season`, `_parse_year_to_year` use 90 / 20 and leave 20..89 untouched: `adjust9020`). -/
theorem zh_two_digit_year (y : Nat) (hy : y < 100) :
    zhParseYear 2 (y : Int) = zhParseYear 4 (if 30 ≤ y then (1900 + y : Nat) else (2000 + y : Nat)) ∧
    adjust9020 (y : Int) = (if 90 ≤ y then (1900 + y : Int) else if y < 20 then 2000 + y else y) := by
  constructor
  · unfold zhParseYear
    by_cases c : 30 ≤ y
    · have e : (30 : Int) ≤ y ∧ (y : Int) < 100 := by omega
      have e3 : ((1900 + y : Nat) : Int) = (y : Int) + 1900 := by omega
      simp [c, e, e3]
    · have e : ¬ ((30 : Int) ≤ y ∧ (y : Int) < 100) := by omega
      have e2 : (y : Int) < 30 := by omega
      have e3 : ((2000 + y : Nat) : Int) = (y : Int) + 2000 := by omega
      simp [c, e, e2, e3]
  · unfold adjust9020
    by_cases c : 90 ≤ y
    · rw [if_pos (by omega), if_pos c]; omega
    · rw [if_neg (by omega), if_neg c]
      by_cases c2 : y < 20
      · rw [if_pos (by omega), if_pos c2]; omega
      · rw [if_neg (by omega), if_neg c2]

/-- 二零一九 read digit by digit: four numerals `d1 d2 d3 d4` (the whole-number reading is below 10, as it is for a
digit string) give `d1·1000 + d2·100 + d3·10 + d4`; a result below 10 is "no year" (−1). -/
theorem zh_convert_year_digits (whole : Int) (hw : whole < 10) (d1 d2 d3 d4 : Nat) :
    convertYearDate whole [some (d1 : Int), some (d2 : Int), some (d3 : Int), some (d4 : Int)] =
      (if d1 * 1000 + d2 * 100 + d3 * 10 + d4 < 10 then -1 else ((d1 * 1000 + d2 * 100 + d3 * 10 + d4 : Nat) : Int)) := by
  unfold convertYearDate digitFold
  simp only [hw, if_true, List.foldl, Option.getD_some]
  by_cases c : d1 * 1000 + d2 * 100 + d3 * 10 + d4 < 10
  · rw [if_pos (by omega), if_pos c]
  · rw [if_neg (by omega), if_neg c]; omega

example : convertYearDate 0 [some 2, some 0, some 1, some 9] = 2019 := by decide
example : convertYearDate 2001 [some 2, none, some 0, some 1] = 2001 := by decide      -- 二千零一

/-- 2019年第N季度 (a year 100..9998 in the text, N = 1..4) in the repaired code: `[1st of the quarter, 1st of the next
quarter)` — the fourth quarter ends on 1 January of the next year —, the triple `(begin,end,P3M)` is consistent and the
range well formed. -/
theorem zh_quarter_ok (y q : Nat) (h1 : 100 ≤ y) (h2 : y ≤ 9998) (q1 : 1 ≤ q) (q4 : q ≤ 4) :
    zhQuarter (y : Int) q =
      .ok (dateTriple (Periods.quarterBegin y q) (Periods.quarterEnd y q) 3 77) ⟨Periods.quarterBegin y q, 0⟩
        ⟨Periods.quarterEnd y q, 0⟩ ⟨Periods.quarterBegin y q, 0⟩ ⟨Periods.quarterEnd y q, 0⟩ ∧
    tripleOK (dateTriple (Periods.quarterBegin y q) (Periods.quarterEnd y q) 3 77) (some (formatDate (Periods.quarterBegin y q)))
      (some (formatDate (Periods.quarterEnd y q))) = true ∧
    Periods.rangeOK ⟨Periods.quarterBegin y q, 0⟩ ⟨Periods.quarterEnd y q, 0⟩ := by
  have hadj : adjust9020 (y : Int) = y := by unfold adjust9020; rw [if_neg (by omega), if_neg (by omega)]
  have q' : q = 1 ∨ q = 2 ∨ q = 3 ∨ q = 4 := by omega
  have core : ∀ (m Y M : Nat), 1 ≤ m → m ≤ 12 → q * 3 - 2 = m → ((Y : Int), M) = shiftMonth y m 3 → 1 ≤ M → M ≤ 12 →
      Y * 12 + M = y * 12 + m + 3 → Y ≤ 9999 → Periods.quarterBegin y q = ⟨y, m, 1⟩ → Periods.quarterEnd y q = ⟨Y, M, 1⟩ →
      zhQuarter (y : Int) q =
        .ok (dateTriple ⟨y, m, 1⟩ ⟨Y, M, 1⟩ 3 77) ⟨⟨y, m, 1⟩, 0⟩ ⟨⟨Y, M, 1⟩, 0⟩ ⟨⟨y, m, 1⟩, 0⟩ ⟨⟨Y, M, 1⟩, 0⟩ ∧
      tripleOK (dateTriple ⟨y, m, 1⟩ ⟨Y, M, 1⟩ 3 77) (some (formatDate ⟨y, m, 1⟩)) (some (formatDate ⟨Y, M, 1⟩)) = true ∧
      Periods.rangeOK ⟨⟨y, m, 1⟩, 0⟩ ⟨⟨Y, M, 1⟩, 0⟩ := by
    intro m Y M a1 a2 hm hYM b1 b2 hsum hY _ _
    have v1 := valid_first y m (by omega) (by omega) a1 a2
    have ok := Periods.first_to_first_ok y m Y M 3 (by omega) hY a1 a2 b1 b2 (by omega) hsum
    refine ⟨?_, ok.1, ok.2⟩
    have am := addMonths_first y m 3 (by omega) a1 a2 Y M hYM (by omega) hY
    unfold zhQuarter zhQuarterG
    simp only [hadj, hm, if_true, Periods.mk_valid y m 1 v1, addDelta, am, Option.map_some]
    simp [dateTriple, Periods.luisOf, Periods.natStr3]
  rcases q' with c | c | c | c <;> subst c
  · have r := core 1 y 4 (by omega) (by omega) rfl (by unfold shiftMonth; simp only [Prod.mk.injEq]; omega) (by omega) (by omega)
      (by omega) (by omega) (by simp [Periods.quarterBegin]) (by simp [Periods.quarterEnd])
    simpa [Periods.quarterBegin, Periods.quarterEnd] using r
  · have r := core 4 y 7 (by omega) (by omega) rfl (by unfold shiftMonth; simp only [Prod.mk.injEq]; omega) (by omega) (by omega)
      (by omega) (by omega) (by simp [Periods.quarterBegin]) (by simp [Periods.quarterEnd])
    simpa [Periods.quarterBegin, Periods.quarterEnd] using r
  · have r := core 7 y 10 (by omega) (by omega) rfl (by unfold shiftMonth; simp only [Prod.mk.injEq]; omega) (by omega) (by omega)
      (by omega) (by omega) (by simp [Periods.quarterBegin]) (by simp [Periods.quarterEnd])
    simpa [Periods.quarterBegin, Periods.quarterEnd] using r
  · have r := core 10 (y + 1) 1 (by omega) (by omega) rfl (by unfold shiftMonth; simp only [Prod.mk.injEq]; omega) (by omega) (by omega)
      (by omega) (by omega) (by simp [Periods.quarterBegin]) (by simp [Periods.quarterEnd])
    simpa [Periods.quarterBegin, Periods.quarterEnd] using r

example : zhQuarter 2019 4 = .ok (Py.ofString "(2019-10-01,2020-01-01,P3M)") ⟨⟨2019, 10, 1⟩, 0⟩ ⟨⟨2020, 1, 1⟩, 0⟩ ⟨⟨2019, 10, 1⟩, 0⟩
    ⟨⟨2020, 1, 1⟩, 0⟩ := by decide +kernel

/-! ### REGRESSION (pre-fix code): the fourth quarter -/

/-- Regression witness: the pre-fix end of the fourth quarter was `safe_create_from_min_value(year, 13, 1)` =
`0001-01-01` (the entity was "not resolved"); quarters 1..3 were right. -/
theorem zh_quarter4_prefix_regression :
    zhQuarterPreFix 2019 4 = .ok (Py.ofString "(2019-10-01,0001-01-01,P3M)") ⟨⟨2019, 10, 1⟩, 0⟩ DateUtils.minValue
      ⟨⟨2019, 10, 1⟩, 0⟩ DateUtils.minValue ∧
    zhQuarterPreFix 2019 3 = zhQuarter 2019 3 := by
  constructor <;> decide +kernel

end RTV.ZhDT
