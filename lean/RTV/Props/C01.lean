import RTV.Lemmas.Span
import RTV.Lemmas.Preprocess
import RTV.Lemmas.Merged
import RTV.Gen.CharTables
import RTV.Gen.Preprocess
/-!
# C01 — entity spans point at the text they claim to have recognised

Property theorems about `RTV.Model.Preprocess` and `RTV.Model.Span`. The regex engine is a parameter (any list
of match spans), the Unicode tables are the regenerated ones (`RTV.Gen`).

The chain the property rests on:  `preprocess` keeps the length of the query  →  every sweep / merge emits
`(start, length, text)` with `start + length ≤ |query|`, `text = slice`, and `0 < length`  →  `Model.parse` turns
that into `end = start + length − 1`, hence `0 ≤ start ≤ end < |query|` (`model_end`, which NEEDS `0 < length`).
* The first link was false for the code as found (whole-string `str.lower()` expands U+0130): negative theorem
  `preprocess_length_current_fails`; it holds for the repaired variant (`preprocess_length`); which variant the tree
  follows is decided by the unit correspondence each run.
* `0 < length` is PROVED for the sequence / number / IP sweeps (`sweep_spans*`: maximal runs are non-empty).  On the
  date-time path it is NOT a property of the merge code: `Token` / `Tok.Inside` / `merge_all_tokens` allow an empty token,
  which comes out as an ExtractResult of length 0 with `end = start − 1` (`mergeAllTokens_empty_token_witness`).  What is
  proved: non-empty tokens give non-empty results (`mergeAllTokens_nonempty`), the merged extractor never shrinks an
  entity (`mergedExtract_nonempty`), and the whole chain in one statement (`datetime_path_span`).  That the sub-extractors'
  tokens ARE non-empty is a fact about their regexes, monitored on every recorded call (`mat.nonempty_tokens`,
  `mext.inputs_nonempty`, `mext.nonempty_out`) and, at the output, by the pipeline oracle itself (`0 ≤ start ≤ end`).
  A percentage result can be empty (`percent_restore_may_be_empty`).
* "text equals the normalised slice": `spanOK` / `norm` (Model/Preprocess.lean) are the predicate the pipeline oracle
  evaluates (driver op `sp.ok`, compared with the Python predicate on every entity); `spanOK_of_preprocessed_slice`
  derives it from what the text theorems give (`text = slice of the preprocessed query`, inside, non-empty) under ONE
  table hypothesis — the normalisation absorbs the preprocessing code point by code point — which the unit
  correspondence checks for all 1 112 064 code points each run (`preprocess:norm-absorbs-preprocess`).
-/
namespace RTV.Preprocess
open RTV.Py

/-- C01 `QueryProcessor.preprocess` keeps the length — for **every** query, every recode table that replaces
single code points by single code points, every per-code-point lower-casing that yields one code point, in both
the case-insensitive and the case-sensitive (`to_lower_term_sensitive`) path, for any special-token matches
inside the string. -/
theorem preprocess_length_of (pairs : List (Str × Str)) (hp : AllSingle pairs) (lowerC : Nat → Str)
    (hl : ∀ c, (lowerC c).length = 1) (cs : Bool) (ms : List (Nat × Nat)) (q : Str)
    (hm : ∀ m ∈ ms, m.1 ≤ m.2 ∧ m.2 ≤ q.length) :
    ∃ r, preprocess pairs lowerC cs ms q = some r ∧ r.length = q.length := by
  unfold preprocess
  simp only
  cases cs
  · exact ⟨_, rfl, by rw [lowerWith_length lowerC hl, recode_length pairs hp]⟩
  · simp only [Bool.not_true, Bool.false_eq_true, ↓reduceIte]
    have := toLowerTermSensitive_length lowerC hl (recode pairs q) ms
      (by intro m h; rw [recode_length pairs hp]; exact hm m h)
    rw [recode_length pairs hp] at this
    exact this

/-- the 24 recodes in the working tree's source are one-for-one (re-checked whenever the source changes) -/
theorem recodePairs_single : AllSingle RTV.Gen.recodePairs := by decide

/-- C01, repaired variant (lower-casing per character, keeping a code point whose lower-casing is not a
single code point), with the working tree's recode table and the interpreter's case table. -/
theorem preprocess_length (cs : Bool) (ms : List (Nat × Nat)) (q : Str) (hm : ∀ m ∈ ms, m.1 ≤ m.2 ∧ m.2 ≤ q.length) :
    ∃ r, preprocess RTV.Gen.recodePairs (lowerKeep RTV.Gen.lowerPairs) cs ms q = some r ∧ r.length = q.length :=
  preprocess_length_of _ recodePairs_single _ (fun _ => rfl) cs ms q hm

/-
Full-strength statement for the current code, which does not hold:
  theorem preprocess_length_current (q) :
    ∃ r, preprocess recodePairs (lowerFull lowerPairs lowerExpanding) false [] q = some r ∧ r.length = q.length
-/

/-- C01 negative: the **current** code (`result.lower()` on the whole string = full case mapping) turns the
one-code-point query `İ` (U+0130) into two code points, so every offset behind an `İ` is shifted. -/
theorem preprocess_length_current_fails :
    preprocess RTV.Gen.recodePairs (lowerFull RTV.Gen.lowerPairs RTV.Gen.lowerExpanding) false [] [304]
      = some [105, 775] := by decide

/-- … and it is exactly the listed expanding code points that break it: with the current lower-casing the
length is kept for every query that contains none of them. -/
theorem preprocess_length_current_partial (cs : Bool) (ms : List (Nat × Nat)) (q : Str)
    (hm : ∀ m ∈ ms, m.1 ≤ m.2 ∧ m.2 ≤ q.length)
    (hq : ∀ c ∈ recode RTV.Gen.recodePairs q, RTV.Gen.lowerExpanding.lookup c = none) :
    ∃ r, preprocess RTV.Gen.recodePairs (lowerFull RTV.Gen.lowerPairs RTV.Gen.lowerExpanding) cs ms q = some r ∧
      r.length = q.length := by
  -- on such a query `lowerFull` and `lowerKeep` coincide
  have hEq : lowerWith (lowerFull RTV.Gen.lowerPairs RTV.Gen.lowerExpanding) (recode RTV.Gen.recodePairs q) =
      lowerWith (lowerKeep RTV.Gen.lowerPairs) (recode RTV.Gen.recodePairs q) := by
    unfold lowerWith
    have : ∀ l : Str, (∀ c ∈ l, RTV.Gen.lowerExpanding.lookup c = none) →
        l.flatMap (lowerFull RTV.Gen.lowerPairs RTV.Gen.lowerExpanding) = l.flatMap (lowerKeep RTV.Gen.lowerPairs) := by
      intro l
      induction l with
      | nil => intro _; rfl
      | cons c r ih =>
        intro h
        simp only [List.flatMap_cons]
        rw [ih (fun x hx => h x (by simp [hx]))]
        congr 1
        unfold lowerFull lowerKeep
        rw [h c (by simp)]
    exact this _ hq
  have h := preprocess_length cs ms q hm
  unfold preprocess toLowerTermSensitive at h ⊢
  simp only at h ⊢
  rw [hEq]
  exact h

example : ∀ c ∈ recode RTV.Gen.recodePairs [65297, 65325, 32, 73], RTV.Gen.lowerExpanding.lookup c = none := by decide

end RTV.Preprocess

namespace RTV.Span
open RTV.Py

/-- C01 `SequenceExtractor.extract`: every result is non-empty, inside the source, its text is the (stripped)
slice at its offsets, and its span is exactly one of the regex matches — for any match list. -/
theorem sweep_spans (sp : Nat → Bool) (src : Str) (ms : List M) :
    ∀ e ∈ seqExtract sp src ms, 0 < e.len ∧ e.start + e.len ≤ src.length ∧
      e.text = strip sp (sl src e.start e.len) ∧ ∃ m ∈ ms, m.start = e.start ∧ m.len = e.len ∧ m.tag = e.tag := by
  intro e he
  rw [seqExtract_eq] at he
  split at he
  · cases he
  · obtain ⟨p, hp, hg⟩ := filterMap_runs_mem _ _ e he
    have hb := runs_bounds _ _ p hp
    obtain ⟨h1, h2, h3, m, hm, h4, h5, h6⟩ := seqOne_span sp src ms p e hg
    rw [h1, h2]
    exact ⟨hb.1, hb.2, h3, m, hm, h4, h5, h6⟩

/-- C01 `BaseIpExtractor.extract` (any `::` guard). -/
theorem sweep_spans_ip (sp : Nat → Bool) (skip : Nat → Nat → Bool) (src : Str) (ms : List M) :
    ∀ e ∈ ipExtractWith sp skip src ms, 0 < e.len ∧ e.start + e.len ≤ src.length ∧
      e.text = strip sp (sl src e.start e.len) ∧ ∃ m ∈ ms, m.start = e.start ∧ m.len = e.len ∧ m.tag = e.tag := by
  intro e he
  rw [ipExtractWith_eq] at he
  split at he
  · cases he
  · obtain ⟨p, hp, hg⟩ := filterMap_runs_mem _ _ e he
    have hb := runs_bounds _ _ p hp
    split at hg
    · cases hg
    · obtain ⟨h1, h2, h3, m, hm, h4, h5, h6⟩ := seqOne_span sp src ms p e hg
      rw [h1, h2]
      exact ⟨hb.1, hb.2, h3, m, hm, h4, h5, h6⟩

/-- C01 `BaseNumberExtractor.extract`, including the negative-term widening and the ambiguity filter: every
result is non-empty, inside the source, and its text is the stripped slice at its offsets — for any matches
and any negative-term search results lying in `source[0:start]`. -/
theorem sweep_spans_number (sp : Nat → Bool) (src : Str) (ms : List M) (neg : Nat → Option (Nat × Nat))
    (ambs : List (List (Nat × Nat))) (hneg : NegInside neg) :
    ∀ e ∈ numExtract sp src ms neg ambs, 0 < e.len ∧ e.start + e.len ≤ src.length ∧
      e.text = strip sp (sl src e.start e.len) := by
  intro e he
  have he' := (numExtract_sublist sp src ms neg ambs).subset he
  obtain ⟨p, hp, hg⟩ := filterMap_runs_mem _ _ e he'
  have hb := runs_bounds _ _ p hp
  have h := numOne_span sp src ms neg hneg p hb e hg
  exact ⟨h.1, by omega, h.2.2.2.1⟩

/-- C01 the percentage position map is monotone, one entry per masked position plus the end sentinel, and
stays inside the original string — for any number results and any dummy token. -/
theorem percent_posmap_monotone (src : Str) (nums : List ER) (tok : Str) :
    (maskNumbers src nums tok).2.length = (maskNumbers src nums tok).1.length + 1 ∧
    (maskNumbers src nums tok).2.Pairwise (· ≤ ·) ∧ ∀ x ∈ (maskNumbers src nums tok).2, x ≤ src.length :=
  maskNumbers_spec src nums tok

/-- C01 `__post_processing`: every restored percentage result lies inside the **original** string and its text
is the stripped original slice at the restored offsets. -/
theorem percent_restore_span (sp : Nat → Bool) (origin : Str) (nums : List ER) (tok : Str) (ms : List M) :
    ∀ e ∈ pctExtract sp origin nums tok ms, e.start + e.len ≤ origin.length ∧
      e.text = strip sp (sl origin e.start e.len) := by
  intro e he
  rw [pctExtract_eq] at he
  simp only [List.mem_map] at he
  obtain ⟨r, hr, rfl⟩ := he
  have hm := maskNumbers_spec origin nums tok
  have hb := (pctRaw_spec sp _ ms).1 r hr
  obtain ⟨os, oe, _, _, h3, h4, h5⟩ := restore_spec sp origin _ hm.2.1 hm.2.2 r (by omega)
  rw [h5]
  exact ⟨by simp only; omega, rfl⟩

/-- a restored result can be **empty** when a percentage regex matches strictly inside the dummy token (no
shipped regex does; the pipeline oracle `start ≤ end` watches it). -/
theorem percent_restore_may_be_empty :
    (pctExtract (fun c => c == 32) [53] [⟨0, 1, [53], 0⟩] [64, 110, 117, 109] [⟨1, 2, 0⟩]).map (fun e => (e.start, e.len))
      = [(0, 0)] := by decide

/-- C01 `merge_all_tokens`: every result carries the offsets of one of the input tokens, `Token.length`, and
the slice of the source at those offsets; it is inside the source when the token is. -/
theorem mergeAllTokens_text (src : Str) (ts : List Tk) :
    ∀ e ∈ mergeAllTokens src ts, ∃ t ∈ ts, e.start = t.start ∧ e.len = t.length ∧ e.tag = t.id ∧
      e.text = sl src e.start e.len ∧ (t.start ≤ t.stop → t.stop ≤ src.length → e.start + e.len ≤ src.length) := by
  intro e he
  unfold mergeAllTokens at he
  simp only [List.mem_map] at he
  obtain ⟨t, ht, rfl⟩ := he
  refine ⟨t, mergeTokens_mem ts t ht, rfl, rfl, rfl, rfl, ?_⟩
  intro h1 h2
  unfold Tk.length
  simp only
  split <;> omega

/-- `Model.parse`: `end = start + length − 1` turns "non-empty and inside the query" into the range condition
of C01. -/
theorem model_end (start len n : Int) (h0 : 0 ≤ start) (h1 : 0 < len) (h2 : start + len ≤ n) :
    0 ≤ start ∧ start ≤ modelEnd start len ∧ modelEnd start len < n ∧ modelEnd start len - start + 1 = len := by
  unfold modelEnd; omega

theorem sliceI_nonneg (s : Str) (a b : Nat) : sliceI s (a : Int) (b : Int) = (s.drop (min a s.length)).take (min b s.length - min a s.length) := by
  unfold sliceI
  have h1 : ¬ ((a : Int) < 0) := by omega
  have h2 : ¬ ((b : Int) < 0) := by omega
  simp only [h1, h2, ↓reduceIte]
  have e1 : (min (a : Int) (s.length : Int)).toNat = min a s.length := by omega
  have e2 : (min (b : Int) (s.length : Int)).toNat = min b s.length := by omega
  rw [e1, e2]

/-- C01 `try_merge_modifier_token` (prefix branch): for an entity inside the source and a token index inside
`before_str`, the widened entity starts at `token.index`, ends where it ended, and its text is the slice. -/
theorem mergeModPrefix_span (src : Str) (e : Sp) (k : Nat) (h0 : 0 ≤ e.start) (h1 : 0 ≤ e.len)
    (h2 : e.start + e.len ≤ src.length) (hk : (k : Int) ≤ e.start) :
    let r := mergeModPrefix src e k
    r.start = k ∧ r.start ≤ e.start ∧ r.start + r.len = e.start + e.len ∧ r.text = sliceI src r.start (r.start + r.len) := by
  have hlen : ((sliceI src 0 e.start).length : Int) = e.start := by
    obtain ⟨a, ha⟩ : ∃ a : Nat, e.start = a := ⟨e.start.toNat, by omega⟩
    rw [ha]
    have := sliceI_nonneg src 0 a
    simp only [Int.natCast_zero] at this
    rw [this]
    simp
    omega
  unfold mergeModPrefix
  simp only [hlen]
  refine ⟨by omega, by omega, by omega, ?_⟩
  first | rfl | trivial

/-- … but `token.index` is an index into `before_str.strip()`, not into the source: with leading blanks in the
query the widened entity starts too early (`"   3pm before 5pm"`: the modifier `before` begins at 7, the index
of `before` in the stripped prefix `3pm before` is 4, and the entity becomes `[4, 17)` = `pm before 5pm`,
overlapping the entity `3pm` at `[3, 6)`). -/
theorem mergeModPrefix_leading_blank :
    mergeModPrefix [32, 32, 32, 51, 112, 109, 32, 98, 101, 102, 111, 114, 101, 32, 53, 112, 109] ⟨14, 3, [53, 112, 109]⟩ 4
      = ⟨4, 13, [112, 109, 32, 98, 101, 102, 111, 114, 101, 32, 53, 112, 109]⟩ := by decide

/-- C01 modifier push / pop of `BaseMergedParser.parse`, modifier at the beginning of the text (match index 0):
popping what was pushed restores `(start, length, text)`. -/
theorem modifier_push_pop (e : Sp) (mLen : Nat) (hl : e.len = e.text.length) (hm : mLen ≤ e.text.length) :
    popPrefix (pushPrefix e 0 mLen).1 (pushPrefix e 0 mLen).2 = e := by
  unfold popPrefix pushPrefix sl
  simp only
  have h1 := sliceI_nonneg e.text mLen e.text.length
  rw [h1]
  have hmin : min mLen e.text.length = mLen := by omega
  simp only [hmin, Nat.min_self, List.drop_zero, List.length_take]
  cases e with
  | mk s l t =>
    simp only at hl hm ⊢
    congr 1
    · omega
    · omega
    · have : List.take (t.length - mLen) (List.drop mLen t) = List.drop mLen t :=
        List.take_of_length_le (by simp)
      rw [this, List.take_append_drop]

/-- same for a modifier at the end of the text (`match_is_after`, `has_date_after`). -/
theorem modifier_push_pop_suffix (e : Sp) (mLen : Nat) (hl : e.len = e.text.length) (hm : mLen ≤ e.text.length) :
    popSuffix (pushSuffix e (e.text.length - mLen) mLen).1 (pushSuffix e (e.text.length - mLen) mLen).2 = e := by
  unfold popSuffix pushSuffix sl
  simp only
  cases e with
  | mk s l t =>
    simp only at hl hm ⊢
    have h1 := sliceI_nonneg t 0 (t.length - mLen)
    have e1 : (l - (mLen : Int)) = ((t.length - mLen : Nat) : Int) := by omega
    rw [e1]
    simp only [Int.natCast_zero] at h1
    rw [h1]
    have hmin : min (t.length - mLen) t.length = t.length - mLen := by omega
    simp only [hmin, Nat.zero_min, List.drop_zero, Nat.sub_zero]
    congr 1
    · simp [List.length_take, List.length_drop]; omega
    · have : List.take mLen (List.drop (t.length - mLen) t) = List.drop (t.length - mLen) t :=
        List.take_of_length_le (by simp; omega)
      rw [this, List.take_append_drop]

/-- the code adds only `match.length` when pushing, so a modifier **not** at index 0 (text with leading blanks)
is not restored: `" before 3pm"`, match `before ` at index 1. -/
theorem modifier_push_pop_index_counterexample :
    let e : Sp := ⟨0, 11, [32, 98, 101, 102, 111, 114, 101, 32, 51, 112, 109]⟩
    popPrefix (pushPrefix e 1 7).1 (pushPrefix e 1 7).2 ≠ e := by decide

/-- phone-number prefix re-spanning: text is the stripped slice at the new offsets, which end where the
number ended (`front = source[0:start-1]`, match `[ms, me)` with `me = start - 1`). -/
theorem phoneRespan_span (sp : Nat → Bool) (src : Str) (e : ER) (ms me : Nat) (h1 : ms ≤ me) (h2 : me + 1 = e.start) :
    let r := phoneRespan sp src e ms me
    r.start = ms ∧ r.start + r.len = e.start + e.len ∧ r.text = strip sp (sl src r.start r.len) := by
  unfold phoneRespan
  simp only
  refine ⟨trivial, by omega, trivial⟩

end RTV.Span

namespace RTV.Merged
open RTV.Py RTV.Span

/-- C01 `BaseMergedExtractor.extract`: every returned entity is one of the sub-extractors' entities (same tag),
possibly widened by modifier merges; it lies inside the query and its text is the slice at its offsets — provided
the sub-extractor outputs do (`mergeAllTokens_text`) and each merge is well formed (`ModsOK`). -/
theorem mergedExtract_spans (src : Str) (inputs : List (List ER)) (unspecific ambiguous : ER → Bool)
    (ops : Nat → List ModOp) (calendar : ER → Bool)
    (hin : ∀ l ∈ inputs, ∀ e ∈ l, e.start + e.len ≤ src.length ∧ e.text = sl src e.start e.len)
    (hok : ∀ l ∈ inputs, ∀ e ∈ l, ModsOK src e (ops e.tag)) :
    ∀ o ∈ mergedExtract src inputs unspecific ambiguous ops calendar,
      o.start + o.len ≤ src.length ∧ o.text = sl src o.start o.len ∧
      ∃ l ∈ inputs, ∃ e ∈ l, o.tag = e.tag ∧ o.start ≤ e.start ∧ e.start + e.len ≤ o.start + o.len := by
  intro o ho
  unfold mergedExtract at ho
  simp only at ho
  rw [(sortByStart_spec Disjoint (fun _ _ h => h.symm) _).1 o] at ho
  have ho := (List.mem_filter.1 ho).1
  unfold addMods at ho
  simp only [List.mem_map] at ho
  obtain ⟨e, he, rfl⟩ := ho
  have he1 := (List.mem_filter.1 he).1
  have he2 := (removeIter_sublist unspecific _).subset he1
  obtain ⟨l, hl, hel⟩ := addChain_mem inputs e he2
  have hb := hin l hl e hel
  have h := applyMods_span src (ops e.tag) e (hok l hl e hel) hb.1 hb.2
  exact ⟨h.1, h.2.1, l, hl, e, hel, h.2.2.2.2, h.2.2.1, h.2.2.2.1⟩

/-- C01 `BaseMergedParser.parse`, modifier(s) at the beginning of the entity text: whatever combination the
`if / elif` chain and the `around` block select — none, `around` alone, before / after / since alone, each of
them followed by `around` (`since around 2010`), `equal` alone — popping after the sub-parser restores exactly the
`(start, length, text)` that was pushed: every modifier is restored once. -/
theorem parser_push_pop (f : Facts) (e : Sp) (hl : e.len = e.text.length) (hA : f.isAfter = false)
    (hk : f.kind = .none ∨
      ((f.kind = .before ∨ f.kind = .after ∨ f.kind = .since) ∧ f.kindBegin = true ∧ f.kindM.1 = 0) ∨
      (f.kind = .equal ∧ f.around = false ∧ f.kindM.1 = 0))
    (hfit : preLength f + (if f.around then f.aroundM.1 + f.aroundM.2 else 0) ≤ e.text.length ∧
      (f.kind ≠ .none → f.kindM.2 ≤ e.text.length)) :
    pop f true true (push f e).e (push f e).modStr = e := by
  obtain ⟨kind, ⟨ki, kl⟩, kb, ar, ⟨ai, al⟩, ia⟩ := f
  simp only at hA hk hfit
  subst hA
  have hsl : sliceI e.text ((0 : Nat) : Int) (e.text.length : Int) = e.text := by
    rw [sliceI_drop e.text 0 (by omega)]; rfl
  rcases hk with rfl | ⟨hkind, rfl, rfl⟩ | ⟨rfl, rfl, rfl⟩
  · -- no prefix modifier
    cases ar
    · simp [pop, push]
    · have hp : preLength ⟨.none, (ki, kl), kb, true, (ai, al), false⟩ = 0 := by simp [preLength]
      simp only [hp, ↓reduceIte, Nat.zero_add] at hfit
      simp only [pop, push, hp, Nat.zero_add, Bool.not_true, Bool.false_eq_true, ↓reduceIte]
      exact restore_cut e (ai + al) hfit.1 hl _ (by rw [hsl, sl_zero])
  · -- before / after / since at index 0
    have hp : preLength ⟨kind, (0, kl), true, ar, (ai, al), false⟩ = kl := by
      rcases hkind with rfl | rfl | rfl <;> simp [preLength]
    rw [hp] at hfit
    cases ar
    · simp only [Bool.false_eq_true, ↓reduceIte, Nat.add_zero] at hfit
      have key : pop ⟨kind, (0, kl), true, false, (ai, al), false⟩ true true
          (push ⟨kind, (0, kl), true, false, (ai, al), false⟩ e).e
          (push ⟨kind, (0, kl), true, false, (ai, al), false⟩ e).modStr =
          (⟨(cutFront e kl).start - ((e.text.take kl).length : Int), (cutFront e kl).len + ((e.text.take kl).length : Int),
            e.text.take kl ++ (cutFront e kl).text⟩ : Sp) := by
        rcases hkind with rfl | rfl | rfl <;> simp [pop, push, sl_zero]
      rw [key]
      exact restore_cut e kl hfit.1 hl _ rfl
    · simp only [↓reduceIte] at hfit
      have hmod : e.text.take kl ++ ((sliceI e.text (kl : Int) (e.text.length : Int)).take (ai + al)) =
          e.text.take (kl + (ai + al)) := by
        rw [sliceI_drop e.text kl (by omega), take_take_drop]
      have key : pop ⟨kind, (0, kl), true, true, (ai, al), false⟩ true true
          (push ⟨kind, (0, kl), true, true, (ai, al), false⟩ e).e
          (push ⟨kind, (0, kl), true, true, (ai, al), false⟩ e).modStr =
          (⟨(cutFront e (kl + ai + al)).start - ((e.text.take (kl + (ai + al))).length : Int),
            (cutFront e (kl + ai + al)).len + ((e.text.take (kl + (ai + al))).length : Int),
            e.text.take (kl + (ai + al)) ++ (cutFront e (kl + ai + al)).text⟩ : Sp) := by
        rcases hkind with rfl | rfl | rfl <;> simp [pop, push, sl_zero, hp, hmod]
      rw [key]
      exact restore_cut e (kl + ai + al) (by omega) hl _ (by rw [Nat.add_assoc])
  · -- equal at index 0, no around
    have hkl := hfit.2 (by simp)
    simp only [pop, push, sl_zero, Bool.not_true, Bool.false_eq_true, ↓reduceIte, beq_self_eq_true]
    have := restore_cut e kl hkl hl _ rfl
    simpa using this

/-- the seeded defect shape: if a restore block does **not** clear `has_around`, `since around 2010` is restored
twice — start `-12`, text `since aroundsince around 2010`. -/
theorem parser_pop_without_reset_restores_twice :
    let t : Str := [115, 105, 110, 99, 101, 32, 97, 114, 111, 117, 110, 100, 32, 50, 48, 49, 48]
    let f : Facts := ⟨.since, (0, 5), true, true, (1, 6), false⟩
    let e : Sp := ⟨0, 17, t⟩
    pop f true true (push f e).e (push f e).modStr = e ∧
    (pop f true false (push f e).e (push f e).modStr).start = -12 ∧
    (pop f true false (push f e).e (push f e).modStr).text =
      [115, 105, 110, 99, 101, 32, 97, 114, 111, 117, 110, 100] ++ [115, 105, 110, 99, 101, 32, 97, 114, 111, 117, 110, 100] ++
        [32, 50, 48, 49, 48] := by decide

/-- outside the guard 1: `equal` overwrites `mod_str`, so with an `around` the approximate part is lost and the
equal modifier is put back twice (`= around 3pm` shaped facts). -/
theorem parser_push_pop_equal_around_counterexample :
    let t : Str := [61, 32, 97, 114, 111, 117, 110, 100, 32, 51, 112, 109]
    let f : Facts := ⟨.equal, (0, 1), true, true, (1, 6), false⟩
    let e : Sp := ⟨0, 12, t⟩
    pop f true true (push f e).e (push f e).modStr ≠ e := by decide

/-- outside the guard 2: the push removes `match.length` characters, not `index + length`, so a modifier that
does not start at index 0 of the text (leading blank) is not restored. -/
theorem parser_push_pop_index_counterexample :
    let t : Str := [32, 98, 101, 102, 111, 114, 101, 32, 51, 112, 109]
    let f : Facts := ⟨.before, (1, 7), true, false, (0, 0), false⟩
    let e : Sp := ⟨0, 11, t⟩
    pop f true true (push f e).e (push f e).modStr ≠ e := by decide

example : ∃ f : Facts, f.kind = .since ∧ f.around = true ∧ f.kindBegin = true ∧ f.kindM.1 = 0 ∧ f.isAfter = false :=
  ⟨⟨.since, (0, 5), true, true, (1, 6), false⟩, rfl, rfl, rfl, rfl, rfl⟩

/-- date-time path, non-emptiness (1): `merge_all_tokens` keeps the length of the surviving token, so its results are
non-empty exactly as far as the tokens are: every result of non-empty tokens (`start < end`) has `0 < length`. -/
theorem mergeAllTokens_nonempty (src : Str) (ts : List Tk) (hne : ∀ t ∈ ts, t.start < t.stop) :
    ∀ e ∈ mergeAllTokens src ts, 0 < e.len := by
  intro e he
  obtain ⟨t, ht, -, hl, -, -, -⟩ := mergeAllTokens_text src ts e he
  have := hne t ht
  rw [hl]; unfold Tk.length; split <;> omega

/-- … and an EMPTY token (`Token(3, 3)`: nothing in `Token`, `merge_all_tokens` or `Tok.Inside` forbids it) comes out as
an ExtractResult of length 0 with the empty text, for which `Model.parse` would report `end = start − 1 < start`: the
range condition of C01 fails.  Non-emptiness on the date-time path is therefore a property of the sub-extractors'
regexes (none of them matches the empty string; monitored per recorded call: `mat.nonempty_tokens`, `mext.nonempty_out`,
and by the pipeline oracle `0 ≤ start ≤ end`), not of the merge code. -/
theorem mergeAllTokens_empty_token_witness :
    mergeAllTokens [97, 98, 99, 100, 101] [⟨3, 3, 0⟩] = [⟨3, 0, [], 0⟩] ∧ modelEnd 3 0 = 2 ∧ ¬ ((3 : Int) ≤ modelEnd 3 0) := by
  decide

/-- date-time path, non-emptiness (2): the merged extractor never shrinks an entity (`add_mod` only widens), so its
results are non-empty when the sub-extractors' results are. -/
theorem mergedExtract_nonempty (src : Str) (inputs : List (List ER)) (unspecific ambiguous : ER → Bool)
    (ops : Nat → List ModOp) (calendar : ER → Bool)
    (hin : ∀ l ∈ inputs, ∀ e ∈ l, e.start + e.len ≤ src.length ∧ e.text = sl src e.start e.len)
    (hok : ∀ l ∈ inputs, ∀ e ∈ l, ModsOK src e (ops e.tag)) (hp : ∀ l ∈ inputs, ∀ e ∈ l, 0 < e.len) :
    ∀ o ∈ mergedExtract src inputs unspecific ambiguous ops calendar, 0 < o.len := by
  intro o ho
  obtain ⟨-, -, l, hl, e, he, -, h1, h2⟩ := mergedExtract_spans src inputs unspecific ambiguous ops calendar hin hok o ho
  have := hp l hl e he
  omega

/-- C01 on the date-time path, the chain in ONE statement: sub-extractor tokens that are non-empty and inside the
(preprocessed) query → `merge_all_tokens` → the `add_to` chain, filters, `add_mod` (well-formed merges), sort → `Model.parse`'s
`end = start + length − 1`: every entity satisfies `0 ≤ start ≤ end < |query|`, its text is the slice at its offsets. -/
theorem datetime_path_span (src : Str) (toks : List (List Tk)) (unspecific ambiguous : ER → Bool)
    (ops : Nat → List ModOp) (calendar : ER → Bool)
    (ht : ∀ ts ∈ toks, ∀ t ∈ ts, t.start < t.stop ∧ t.stop ≤ src.length)
    (hok : ∀ ts ∈ toks, ∀ e ∈ mergeAllTokens src ts, ModsOK src e (ops e.tag)) :
    ∀ o ∈ mergedExtract src (toks.map (mergeAllTokens src)) unspecific ambiguous ops calendar,
      (0 : Int) ≤ o.start ∧ (o.start : Int) ≤ modelEnd o.start o.len ∧ modelEnd o.start o.len < src.length ∧
      o.text = sl src o.start o.len := by
  have hin : ∀ l ∈ toks.map (mergeAllTokens src), ∀ e ∈ l, e.start + e.len ≤ src.length ∧ e.text = sl src e.start e.len := by
    intro l hl e he
    obtain ⟨ts, hts, rfl⟩ := List.mem_map.1 hl
    obtain ⟨t, htm, -, -, -, htx, hb⟩ := mergeAllTokens_text src ts e he
    exact ⟨hb (by have := (ht ts hts t htm).1; omega) (ht ts hts t htm).2, htx⟩
  have hok' : ∀ l ∈ toks.map (mergeAllTokens src), ∀ e ∈ l, ModsOK src e (ops e.tag) := by
    intro l hl e he
    obtain ⟨ts, hts, rfl⟩ := List.mem_map.1 hl
    exact hok ts hts e he
  have hp : ∀ l ∈ toks.map (mergeAllTokens src), ∀ e ∈ l, 0 < e.len := by
    intro l hl e he
    obtain ⟨ts, hts, rfl⟩ := List.mem_map.1 hl
    exact mergeAllTokens_nonempty src ts (fun t h => (ht ts hts t h).1) e he
  intro o ho
  obtain ⟨hb, htx, -⟩ := mergedExtract_spans src _ unspecific ambiguous ops calendar hin hok' o ho
  have hl := mergedExtract_nonempty src _ unspecific ambiguous ops calendar hin hok' hp o ho
  have := model_end o.start o.len src.length (by omega) (by omega) (by omega)
  exact ⟨this.1, this.2.1, this.2.2.1, htx⟩

/-- C01's predicate `spanOK` (Model/Preprocess.lean; the pipeline oracle evaluates it through the driver, `sp.ok`) CONNECTED
with the text theorems: the extractors work on the preprocessed query `q.map g` (`g` = recode + lower-casing of one code
point: the repaired, length-preserving `preprocess`) and emit `text = slice of the preprocessed query` with `0 < length`,
inside the query; whenever the normalisation `f` of the property absorbs the preprocessing (`f (g c) = f c`: a fact about
the tables) the reported `(start, end = start + length − 1, text)` satisfies `spanOK` on the ORIGINAL query. -/
theorem spanOK_of_preprocessed_slice (f g : Nat → Nat) (sp : Nat → Bool) (q : Str) (start len : Nat) (text : Str)
    (habs : ∀ c, f (g c) = f c) (h1 : 0 < len) (h2 : start + len ≤ q.length)
    (ht : text = sl (q.map g) start len) :
    RTV.Preprocess.spanOK (List.map f) sp q start (modelEnd start len) text = true := by
  have e1 : sliceI q (start : Int) (modelEnd start len + 1) = sl q start len := by
    have : modelEnd (start : Int) (len : Int) + 1 = ((start + len : Nat) : Int) := by unfold modelEnd; omega
    rw [this, sliceI_nonneg]
    have a : min start q.length = start := by omega
    have b : min (start + len) q.length = start + len := by omega
    rw [a, b]; unfold sl; congr 1; omega
  have e2 : (sl (q.map g) start len).map f = (sl q start len).map f := by
    unfold sl
    rw [← List.map_drop, ← List.map_take, List.map_map]
    congr 1
    funext c; exact habs c
  unfold RTV.Preprocess.spanOK
  rw [e1, ht, e2]
  have : (0 : Int) ≤ start ∧ (start : Int) ≤ modelEnd start len ∧ modelEnd (start : Int) len < q.length := by
    unfold modelEnd; omega
  simp [this]

end RTV.Merged
