import RTV.Props.C06FrontX
import RTV.Lemmas.DateFrontEvPtAll
import RTV.Gen.DtMapsX1
import RTV.Gen.DtMapsX2
/-!
# C06, front end — pt-br: from the TEXT of a date to TIMEX = value = that date, by theorem

(Skeleton written by harness/lib/datefrontcert.py pt-br, witnesses by hand; see Props/C06FrontX.lean for the method.)
`parse_basic_regex_match` of the Portuguese configuration — the regenerated `date_regex` list (RTV/Gen/DateRegexPt.lean, 10
patterns, token prefix `em `) — applied to the text of a date in ANY layout of `contracts/C06.json["layouts"]["pt-br"]`
(RTV/Gen/DateLayoutsPt.lean; the day comes first: `5/12/2010` is 5 December) hands `match_to_date` the year / month / day
the text was rendered from, and the entity is that date — every year 1900..2099 (digits symbolic), every month, every day.
The evaluated part: RTV/Lemmas/DateFrontEvPt*.lean (acceptance: abstract texts; rejection by the earlier regexes: start
position by start position).  `token_tables_pt`: the month / day tokens of the layouts are keys of the regenerated
`MonthOfYear` / `DayOfMonth` of the culture with the right numbers.
-/
namespace RTV.DateFront
open RTV.Re RTV.Py RTV.DtRes RTV.Gen.DateRegexPt RTV.Gen.DateLayoutsPt RTV.Gen.DtMaps

/-- the month tokens (`3`, `03`, month name) / day tokens (with the literal suffix the day group takes along) of every layout
are keys of the regenerated `MonthOfYear` / `DayOfMonth` of pt-br with that month / day -/
theorem token_tables_pt :
    ((layoutsPt.zip (EvPt.dexts.take layoutsPt.length)).all fun p =>
      monthToksOK namesPt monthOfYear_pt p.1 && dayToksOK namesPt dayOfMonth_pt p.1 p.2 days31) = true := by
  decide +kernel

/-- every layout of the contract has its evaluated facts and its token checks -/
theorem layouts_have_facts_pt : ∀ L ∈ layoutsPt, ∃ dext k,
    LayoutFactsL namesPt dateRegexes dateTokenPrefix days31 L dext k ∧
    monthToksOK namesPt monthOfYear_pt L = true ∧ dayToksOK namesPt dayOfMonth_pt L dext days31 = true := by
  intro L hL
  simp only [layoutsPt, List.mem_cons, List.mem_nil_iff, or_false] at hL
  rcases hL with rfl | rfl | rfl | rfl | rfl | rfl | rfl
  · exact ⟨_, _, EvPt.facts0, by decide +kernel, by decide +kernel⟩
  · exact ⟨_, _, EvPt.facts1, by decide +kernel, by decide +kernel⟩
  · exact ⟨_, _, EvPt.facts2, by decide +kernel, by decide +kernel⟩
  · exact ⟨_, _, EvPt.facts3, by decide +kernel, by decide +kernel⟩
  · exact ⟨_, _, EvPt.facts4, by decide +kernel, by decide +kernel⟩
  · exact ⟨_, _, EvPt.facts5, by decide +kernel, by decide +kernel⟩
  · exact ⟨_, _, EvPt.facts6, by decide +kernel, by decide +kernel⟩

/-- the contract has these layouts, and which regex accepts each -/
theorem layouts_count_pt : layoutsPt.length = 7 ∧ EvPt.acceptingRegex = [9, 3, 3, 3, 3, 1, 1] := by decide

/-- FRONT END → DECODE (pt-br): the groups the front end yields on a rendered date satisfy `Decodes` for that date. -/
theorem front_decodes_pt {T : Tables} (hT : LatinAgree T) {u : Uni} (hu : TextUni u) (L : List Tok) (hL : L ∈ layoutsPt)
    (y m d : Nat) (hy : 1900 ≤ y ∧ y ≤ 2099) (hm : 1 ≤ m ∧ m ≤ 12) (hd : 1 ≤ d ∧ d ≤ 31) :
    ∃ h g, parseBasic T u dateTokenPrefix dateRegexes (renderL namesPt L y m d) = some (some (h, g)) ∧
      Decodes u (genCfg monthOfYear_pt dayOfMonth_pt) g y m d := by
  obtain ⟨dext, k, hf, hmt, hdt⟩ := layouts_have_facts_pt L hL
  obtain ⟨h, g, hp, _, hdec⟩ := front_decodes_gen hT hu hf hmt hdt y m d hy hm ((mem_days31 d).2 hd)
  exact ⟨h, g, hp, hdec⟩

/-- C06 FOR THE TEXT (pt-br). A fully specified date `y-m-d`, 1900 ≤ y ≤ 2099, that exists in the calendar, written in ANY
layout of the contract: `parse_basic_regex_match` on the regenerated regexes, `match_to_date`, `BaseDateParser.parse` and
`_date_time_resolution` yield exactly one value of type `date` whose TIMEX and value are `YYYY-MM-DD` — for every reference
`R`, every written-year oracle `wy`, every engine table that agrees with `latinTables` below 256. -/
theorem front_abs_date_pt {T : Tables} (hT : LatinAgree T) {u : Uni} (hu : TextUni u) (L : List Tok) (hL : L ∈ layoutsPt)
    (y m d : Nat) (hy : 1900 ≤ y ∧ y ≤ 2099) (hv : (⟨y, m, d⟩ : RTV.Cal.Date).valid = true) (wy : Int) (R : DT) :
    frontResolve T u (genCfg monthOfYear_pt dayOfMonth_pt) dateTokenPrefix dateRegexes (renderL namesPt L y m d) wy R =
      .ok (some [{ timex := ymd y m d, type := sDate, value := some (ymd y m d) }]) := by
  obtain ⟨dext, k, hf, hmt, hdt⟩ := layouts_have_facts_pt L hL
  exact front_abs_date_gen hT hu hf hmt hdt y m d hy hv (valid_day31 y m d hv) wy R

/-- … with the tables of the running `regex` module -/
theorem front_abs_date_engine_pt {u : Uni} (hu : TextUni u) (L : List Tok) (hL : L ∈ layoutsPt)
    (y m d : Nat) (hy : 1900 ≤ y ∧ y ≤ 2099) (hv : (⟨y, m, d⟩ : RTV.Cal.Date).valid = true) (wy : Int) (R : DT) :
    frontResolve RTV.Gen.reTables u (genCfg monthOfYear_pt dayOfMonth_pt) dateTokenPrefix dateRegexes
        (renderL namesPt L y m d) wy R =
      .ok (some [{ timex := ymd y m d, type := sDate, value := some (ymd y m d) }]) :=
  front_abs_date_pt retables_latin hu L hL y m d hy hv wy R

/-! ## instances and witnesses (concrete texts, Latin-1 tables) -/

/-- `5 de março de 2019` is the text of 2019-03-05 in layout 5 -/
example : layout5 ∈ layoutsPt ∧ renderL namesPt layout5 2019 3 5 = [53, 32, 100, 101, 32, 109, 97, 114, 231, 111, 32, 100, 101, 32, 50, 48, 49, 57] := by decide

/-- the DAY comes first: `5/12/2010` is day 5, month 12 -/
theorem front_day_first_pt :
    (parseBasic latinTables asciiUni dateTokenPrefix dateRegexes [53, 47, 49, 50, 47, 50, 48, 49, 48]).map
        (·.map fun p => gtuple p.2) = some (some ([50, 48, 49, 48], [49, 50], [53], [])) := by
  decide +kernel

/-- near miss: a 13th month is not a month — `5/13/2019` is accepted month-first (date_regex[4]): month 5, day 13 -/
theorem front_month13_falls_to_month_first_pt :
    (parseBasic latinTables asciiUni dateTokenPrefix dateRegexes [53, 47, 49, 51, 47, 50, 48, 49, 57]).map
        (·.map fun p => gtuple p.2) = some (some ([50, 48, 49, 57], [53], [49, 51], [])) := by
  decide +kernel

/-- … by date_regex[4] -/
theorem front_month13_regex_pt :
    (parseBasic latinTables asciiUni dateTokenPrefix dateRegexes [53, 47, 49, 51, 47, 50, 48, 49, 57]).map
        (·.map fun p => p.1.idx) = some (some 4) := by
  decide +kernel

/-- near miss: day 32 is no day — `32/3/2019` is accepted by no regex -/
theorem front_day32_rejected_pt :
    (parseBasic latinTables asciiUni dateTokenPrefix dateRegexes [51, 50, 47, 51, 47, 50, 48, 49, 57]).map (·.isNone) = some true := by
  decide +kernel

/-- an impossible day is still handed on: `30 de fevereiro de 2019` -/
theorem front_invalid_day_groups_pt :
    (parseBasic latinTables asciiUni dateTokenPrefix dateRegexes [51, 48, 32, 100, 101, 32, 102, 101, 118, 101, 114, 101, 105, 114, 111, 32, 100, 101, 32, 50, 48, 49, 57]).map
        (·.map fun p => gtuple p.2) = some (some ([50, 48, 49, 57], [102, 101, 118, 101, 114, 101, 105, 114, 111], [51, 48], [])) := by
  decide +kernel

/-- a two-digit year reaches `match_to_date` as two digits: `5/3/30` -/
theorem front_two_digit_year_groups_pt :
    (parseBasic latinTables asciiUni dateTokenPrefix dateRegexes [53, 47, 51, 47, 51, 48]).map
        (·.map fun p => gtuple p.2) = some (some ([51, 48], [51], [53], [])) := by
  decide +kernel

end RTV.DateFront
