import RTV.Model.DefiniteRange
import RTV.Lemmas.WellFormed
import RTV.Lemmas.PadAgree
import RTV.Props.C08
/-!
# C11 (ranges) — a date range whose TIMEX names a definite calendar period spans exactly that period

`RTV.DefRange.rangeDefiniteOK` is the predicate the C11 check evaluates (through the driver) on every `daterange` value
the real date-time model emits; `periodOf` reads the period off the TIMEX (`YYYY`, `YYYY-MM`, `YYYY-Www`, `YYYY-Www-WE`).
What is PROVED here: for the WEEK branch only (`week_period_range_definite`: this / next / last week with any shift, every
reference whose ISO year is below 9999) the predicate is satisfied by the model of the period parser — there the oracle
demands nothing the modelled code does not deliver — and `periodOf` is pinned to the calendar functions for week TIMEXes
(`periodOf_week`).  For `YYYY-MM`, `YYYY` and `YYYY-Www-WE` TIMEXes `periodOf` is exercised by closed EXAMPLES only
(`periodOf_month_year_examples`, `strict_examples_imply`): no theorem connects the month / year / weekend branches of the
period parser with the predicate; for them the predicate evaluated on the real output is the only check.
-/
namespace RTV.DefRange
open RTV.Cal RTV.WF RTV.DateUtils RTV.Py

/-- An ISO week number never exceeds 53. -/
theorem isoWeek_le_53 (x : Date) (hv : x.valid = true) : (isoCalendar x).2.1 ≤ 53 := by
  have s := isoCalendar_spec x hv
  have m := isoWeek1Monday_succ (isoCalendar x).1 s.2.2.2.2.2.1
  simp only at s
  omega

/-- `periodOf` of a week TIMEX built from an ISO (year, week) pair is that week: Monday .. next Monday. -/
theorem periodOf_week (y w : Nat) (hy : 1 ≤ y ∧ y < 9999) (hw : 1 ≤ w ∧ w ≤ 53) :
    periodOf (pad4 y ++ [45, 87] ++ pad2 w) =
      some (isoWeek1Monday y + 7 * (w - 1), isoWeek1Monday y + 7 * (w - 1) + 7) := by
  have h4 := digitsN4_pad4 y (by omega)
  have h2 := digitsN2_pad2 w (by omega)
  simp only [pad4, pad2, List.cons_append, List.nil_append] at h4 h2 ⊢
  simp [periodOf, h4, h2, hy.1, hy.2, hw.1, hw.2]

/-- **this / next / last week** (any shift `k`): the emitted `(timex, begin, end)` satisfies the range predicate — the
TIMEX's ISO week is exactly `[begin, end)` — for every reference `R` (ISO year below 9999). -/
theorem week_period_range_definite (R : DateTime) (hv : R.date.valid = true) (k : Int) (t : List Nat) (b e : DateTime)
    (h : weekPeriod R k = some (t, b, e)) (hy : (isoCalendar b.date).1 < 9999) :
    rangeDefiniteOK false true ⟨sDateRange, t, none, some (formatDate b.date), some (formatDate e.date)⟩ = true := by
  have s := weekPeriod_spec R hv k t b e h
  have tm := week_timex_matches_isocalendar R hv k t b e h
  have ic := isoCalendar_spec b.date s.1
  have w53 := isoWeek_le_53 b.date s.1
  simp only at ic
  have hyr : (isoCalendar b.date).1 < 10000 := by omega
  have hwk : (isoCalendar b.date).2.1 < 100 := by omega
  have ht : t = pad4 (isoCalendar b.date).1 ++ [45, 87] ++ pad2 (isoCalendar b.date).2.1 := by
    rw [tm.1, pad4_agree _ hyr, pad2_agree _ hwk]
  have hp := periodOf_week (isoCalendar b.date).1 (isoCalendar b.date).2.1 ⟨ic.2.2.2.2.2.1, hy⟩ ⟨ic.2.1, w53⟩
  have hb : isoWeek1Monday (isoCalendar b.date).1 + 7 * ((isoCalendar b.date).2.1 - 1) = b.date.ord := by
    have := tm.2; omega
  have he : b.date.ord + 7 = e.date.ord := by have := s.2.2.2.2.2.1; omega
  rw [hb] at hp
  simp only [rangeDefiniteOK, Bool.false_or, ne_eq, not_true_eq_false, decide_false, ite_false, Bool.false_eq_true, ite_true]
  rw [ht, hp]
  simp [he, ofOrd_ord b.date s.1, ofOrd_ord e.date s.2.1]

/-- the slip of seeded change C11-r22 / C08-r21 (year of the week's Monday instead of the ISO year) violates the
predicate exactly at a year turn: Monday 2018-12-31 belongs to ISO week 2019-W01. -/
theorem week_monday_year_slip_detected :
    rangeDefiniteOK false true ⟨sDateRange, ofString "2018-W01", none, some (ofString "2018-12-31"), some (ofString "2019-01-07")⟩ = false ∧
    rangeDefiniteOK false false ⟨sDateRange, ofString "2018-W01", none, some (ofString "2018-12-31"), some (ofString "2019-01-07")⟩ = false ∧
    rangeDefiniteOK false true ⟨sDateRange, ofString "2019-W01", none, some (ofString "2018-12-31"), some (ofString "2019-01-07")⟩ = true ∧
    -- "later this week" (no Mod key on any platform): inside the named week, accepted by the non-strict reading only
    rangeDefiniteOK false false ⟨sDateRange, ofString "2018-W22", none, some (ofString "2018-05-31"), some (ofString "2018-06-04")⟩ = true ∧
    rangeDefiniteOK false true ⟨sDateRange, ofString "2018-W22", none, some (ofString "2018-05-31"), some (ofString "2018-06-04")⟩ = false := by
  decide

/-- month and year periods: what `periodOf` reads off `YYYY-MM` / `YYYY` (December rolls into the next year). -/
theorem periodOf_month_year_examples :
    periodOf (ofString "2020-12") = some ((⟨2020, 12, 1⟩ : Date).ord, (⟨2021, 1, 1⟩ : Date).ord) ∧
    periodOf (ofString "2020-02") = some ((⟨2020, 2, 1⟩ : Date).ord, (⟨2020, 3, 1⟩ : Date).ord) ∧
    periodOf (ofString "2019") = some ((⟨2019, 1, 1⟩ : Date).ord, (⟨2020, 1, 1⟩ : Date).ord) ∧
    periodOf (ofString "2020-W53-WE") = some ((⟨2021, 1, 2⟩ : Date).ord, (⟨2021, 1, 4⟩ : Date).ord) ∧
    periodOf (ofString "XXXX-05") = none ∧ periodOf (ofString "2020-05-07") = none := by
  decide

/-- a modifier or a one-ended value is never constrained -/
theorem rangeDefiniteOK_mod (st : Bool) (v : Value) : rangeDefiniteOK true st v = true := by simp [rangeDefiniteOK]

/-- the strict reading implies the non-strict one whenever the period is a real interval of valid days -/
theorem strict_examples_imply :
    rangeDefiniteOK false false ⟨sDateRange, ofString "2020-12", none, some (ofString "2020-12-01"), some (ofString "2021-01-01")⟩ = true ∧
    rangeDefiniteOK false true ⟨sDateRange, ofString "2020-12", none, some (ofString "2020-12-01"), some (ofString "2021-01-01")⟩ = true := by
  decide

end RTV.DefRange
