import RTV.Lemmas.SpellBigFr
import RTV.Lemmas.SpellBigIt
import RTV.Lemmas.SpellOrdEs
import RTV.Lemmas.SpellOrdPt
import RTV.Lemmas.SpellOrdDe
import RTV.Lemmas.SpellOrdNl
import RTV.Lemmas.SpellOrdFr
import RTV.Lemmas.SpellOrdIt
import RTV.Lemmas.SpellOrdDeBig
/-!
# C04 — French and Italian cardinals at and above 1000; ordinals below 1000 of six European cultures

Specification: `RTV.Num.spellTop frTop frScales n` (n < 10^12) and `spellTop itTop itScales n` (n < 10^15) — the
standard written-out cardinal (`quatre-vingt mille`, `deux cents millions`, `un milliard un million vingt et un`;
`ventitremila`, `due milioni trecentomilaquattrocentocinque`, `un bilione`) — and `spellOrdEu <c>Ord n` (1 ≤ n < 1000),
the standard ordinal (`centésimo vigésimo tercero`, `quadringentésimo décimo quarto`, `zweihundertdreiundvierzigste`,
`honderdeerste`, `quatre-vingt-unième`, `ventitreesimo`), each with the token list `text_number_regex` yields for the
surface string (`RTV/Model/SpellEu.lean`; the harness takes its inputs from these very functions — driver ops
`no.spell`, `no.ord` — and checks the tokenisation tie on every run).

Model: `RTV.Num.getIntValue` = `BaseNumberParser.__get_int_value` with the culture's **regenerated** maps and its own
`resolve_composite_number`.

Proof shape, cardinals (`Lemmas/SpellBigG`): the guarded lift `top_value` — induction over the scale words, each scale
group and the thousand group one application of the round-number step `good_step`; per culture the kernel evaluates only
facts about the groups 1..999 (last position / in front of the thousand word / in front of a scale noun) and the
scale-word table on the regenerated maps. French `un million` / `un milliard` are single tokens (keys of the French
CardinalNumberMap) and therefore cardinal words, not end words: `Lemmas/SpellBigFr` treats them separately.
Ordinals: kernel evaluation of all 999 numerals per culture on the regenerated maps.

What the real parser does NOT read back is stated as an exact guard plus negative witnesses (replayed on the
implementation by `harness/lib/numordcorr.py`).
-/
namespace RTV.Num
open RTV.Py

/-! ### French cardinals, `n < 10^12` -/

/- French, full statement (fails): ∀ n < 10^12, getIntValue fr (spellTop frTop frScales n).2 = n.
   (a) the plural `cents` of a round hundred 200 … 900 is not a key: as last group (`mille deux cents`) and in front of
       the nouns `millions` / `milliards` (`deux cents millions`) the tokeniser drops it;
   (b) `un million` / `un milliard` are tokenised as ONE cardinal word each; any end word after it (`cent`, `mille`,
       `millions`) multiplies it: `un million cent` = 10^8, `un million deux mille` = 1 000 002 000. -/
/-- **C04 (French cardinals)**, exact guard `frBigGuard`: every `n < 10^12` in which no last group / multiplier of
`millions` / `milliards` is a round hundred from 200, after a group of exactly one million only a remainder below 100
follows, and after exactly one milliard only `un million` and a remainder below 100. -/
theorem french_cardinal_partial (n : Nat) (hn : n < 10 ^ 12) (hg : frBigGuard n = true) :
    getIntValue true asciiDigits fr.lang (spellTop frTop frScales n).2 = .ok n :=
  fr_big n (by simpa using hn) hg

/-- the guard in plain arithmetic -/
theorem frBigGuard_iff (n : Nat) :
    frBigGuard n = true ↔
      ¬ (n % 1000 % 100 = 0 ∧ 200 ≤ n % 1000) ∧ ¬ (n / 1000000 % 1000 % 100 = 0 ∧ 200 ≤ n / 1000000 % 1000) ∧
      ¬ (n / 1000000000 % 100 = 0 ∧ 200 ≤ n / 1000000000) ∧
      (n / 1000000 % 1000 = 1 → n / 1000 % 1000 = 0 ∧ n % 1000 < 100) ∧
      (n / 1000000000 = 1 → n / 1000000 % 1000 ≤ 1 ∧ n / 1000 % 1000 = 0 ∧ n % 1000 < 100) := by
  simp only [frBigGuard, frGuard, Bool.and_eq_true, Bool.or_eq_true, Bool.not_eq_true', Bool.and_eq_false_iff,
    bne_iff_ne, ne_eq, beq_iff_eq, beq_eq_false_iff_ne, decide_eq_true_eq, decide_eq_false_iff_not]
  constructor
  · rintro ⟨⟨⟨⟨a, b⟩, c⟩, d⟩, e⟩
    refine ⟨by omega, by omega, by omega, fun h => ?_, fun h => ?_⟩
    · rcases d with d | d
      · exact absurd h d
      · exact d
    · rcases e with e | e
      · exact absurd h e
      · exact ⟨e.1.1, e.1.2, e.2⟩
  · rintro ⟨a, b, c, d, e⟩
    refine ⟨⟨⟨⟨by omega, by omega⟩, by omega⟩, ?_⟩, ?_⟩
    · by_cases h : n / 1000000 % 1000 = 1
      · exact Or.inr (d h)
      · exact Or.inl h
    · by_cases h : n / 1000000000 = 1
      · exact Or.inr ⟨⟨(e h).1, (e h).2.1⟩, (e h).2.2⟩
      · exact Or.inl h

/-- negative witness (finding `fr-fr:cardinal-scale:plural-cents:span`): `deux cents millions` is tokenised to
`deux`, `millions` and read as 2 000 000 -/
theorem french_cents_millions_witness :
    (spellTop frTop frScales 200000000).2 = [[100, 101, 117, 120], [109, 105, 108, 108, 105, 111, 110, 115]] ∧
    getIntValue true asciiDigits fr.lang (spellTop frTop frScales 200000000).2 = .ok 2000000 ∧
    frBigGuard 200000000 = false := by decide +kernel

/-- negative witnesses (finding `fr-fr:cardinal-scale:un-million:value`): `un million cent` is read as 10^8,
`un million deux mille` as 1 000 002 000, `un million vingt et un mille un` as 1 000 021 001 -/
theorem french_un_million_witness :
    getIntValue true asciiDigits fr.lang (spellTop frTop frScales 1000100).2 = .ok 100000000 ∧
    getIntValue true asciiDigits fr.lang (spellTop frTop frScales 1002000).2 = .ok 1000002000 ∧
    getIntValue true asciiDigits fr.lang (spellTop frTop frScales 1021001).2 = .ok 1000021001 ∧
    frBigGuard 1000100 = false ∧ frBigGuard 1002000 = false ∧ frBigGuard 1021001 = false := by decide +kernel

/-- negative witness (same finding, `un milliard`): `un milliard deux millions` is read as (10^9 + 2) · 10^6 -/
theorem french_un_milliard_witness :
    (spellTop frTop frScales 1002000000).2 = [[117, 110, 32, 109, 105, 108, 108, 105, 97, 114, 100], [100, 101, 117, 120],
      [109, 105, 108, 108, 105, 111, 110, 115]] ∧
    getIntValue true asciiDigits fr.lang (spellTop frTop frScales 1002000000).2 = .ok 1000000002000000 ∧
    frBigGuard 1002000000 = false := by decide +kernel

/-- below 10^6 the guard is the one of `french_sub1000_partial` on the last three digits: the thousand multiplier is
free (`deux cent mille`, `quatre-vingt mille`) -/
theorem french_sub1e6_partial (n : Nat) (hn : n < 1000000) (hg : ¬ (n % 1000 % 100 = 0 ∧ 200 ≤ n % 1000)) :
    getIntValue true asciiDigits fr.lang (spellTop frTop frScales n).2 = .ok n := by
  refine french_cardinal_partial n (by omega) ((frBigGuard_iff n).mpr ⟨hg, ?_, ?_, ?_, ?_⟩)
  · have : n / 1000000 = 0 := by omega
    simp [this]
  · have : n / 1000000000 = 0 := by omega
    simp [this]
  · have : n / 1000000 = 0 := by omega
    simp [this]
  · have : n / 1000000000 = 0 := by omega
    simp [this]

/-! ### Italian cardinals, `n < 10^15` -/

/- Italian, full statement (fails): ∀ n < 10^15, getIntValue it (spellTop itTop itScales n).2 = n.
   The accented `-tré` of 23, 33, …, 93 is not a key; it is written at the end of a word: in the last group
   (`duemilaventitré`) and in the multipliers of `milioni` / `miliardi` / `bilioni` (`ventitré milioni`). -/
/-- **C04 (Italian cardinals)**, exact guard `itBigGuard`: every `n < 10^15` whose last group and whose multipliers of
`milioni`, `miliardi`, `bilioni` do not end in 23, 33, …, 93 (the multiplier of `-mila` is free: `ventitremila`). -/
theorem italian_cardinal_partial (n : Nat) (hn : n < 10 ^ 15) (hg : itBigGuard n = true) :
    getIntValue true asciiDigits it.lang (spellTop itTop itScales n).2 = .ok n :=
  it_big n (by simpa using hn) hg

/-- negative witness (recorded finding `it-it:cardinal:accented-tre:*`, here in front of a noun): `ventitré milioni` is
tokenised to `venti`, `milioni` and read as 20 000 000; `ventitremila` is read correctly -/
theorem italian_tre_milioni_witness :
    (spellTop itTop itScales 23000000).2 = [[118, 101, 110, 116, 105], [109, 105, 108, 105, 111, 110, 105]] ∧
    getIntValue true asciiDigits it.lang (spellTop itTop itScales 23000000).2 = .ok 20000000 ∧
    itBigGuard 23000000 = false ∧
    getIntValue true asciiDigits it.lang (spellTop itTop itScales 23000).2 = .ok 23000 := by decide +kernel

/-- **Table sanity on the regenerated maps**: the French / Italian scale nouns the specification uses are keys of
`RoundNumberMap` with the stated values (10^6, 10^9; Italian also 10^12), `un` is worth 1, the thousand words are
worth 1000. -/
theorem scale_words_in_maps_fr_it :
    scales2OK fr.lang (10 ^ 12) frScalesReg = true ∧ scales2OK it.lang (10 ^ 15) itScales = true ∧
    lookup fr.lang.round frTop.wordK = some 1000 ∧ lookup it.lang.round itTop.wordK = some 1000 ∧
    lookup it.lang.round [109, 105, 108, 108, 101] = some 1000 :=
  ⟨fr_scales_reg, it_scales, fr_word_mille, it_word_mila, it_word_mille⟩

/-- the French single tokens: `un million`, `un milliard` are cardinal words (10^6, 10^9) and no round words -/
theorem french_fused_tokens :
    lookup fr.lang.cardinal [117, 110, 32, 109, 105, 108, 108, 105, 111, 110] = some 1000000 ∧
    lookup fr.lang.cardinal [117, 110, 32, 109, 105, 108, 108, 105, 97, 114, 100] = some 1000000000 ∧
    lookup fr.lang.round [117, 110, 32, 109, 105, 108, 108, 105, 111, 110] = none ∧
    lookup fr.lang.round [117, 110, 32, 109, 105, 108, 108, 105, 97, 114, 100] = none := by decide +kernel

/-! closed instances: the specification says what one expects, the hypotheses are satisfiable -/

/-- `deux cent quatre-vingt mille quatre-vingts` = 280 080 -/
example : (spellTop frTop frScales 280080).1 = [100, 101, 117, 120, 32, 99, 101, 110, 116, 32, 113, 117, 97, 116, 114,
    101, 45, 118, 105, 110, 103, 116, 32, 109, 105, 108, 108, 101, 32, 113, 117, 97, 116, 114, 101, 45, 118, 105, 110,
    103, 116, 115] := by decide +kernel

example : getIntValue true asciiDigits fr.lang (spellTop frTop frScales 280080).2 = .ok 280080 :=
  french_cardinal_partial _ (by decide) (by decide +kernel)

/-- `un milliard un million vingt et un` = 1 001 000 021 -/
example : (spellTop frTop frScales 1001000021).2 = [[117, 110, 32, 109, 105, 108, 108, 105, 97, 114, 100],
    [117, 110, 32, 109, 105, 108, 108, 105, 111, 110], [118, 105, 110, 103, 116], [101, 116], [117, 110]] := by
  decide +kernel

example : getIntValue true asciiDigits fr.lang (spellTop frTop frScales 1001000021).2 = .ok 1001000021 :=
  french_cardinal_partial _ (by decide) (by decide +kernel)

/-- `due milioni trecentomilaquattrocentocinque` = 2 300 405 -/
example : (spellTop itTop itScales 2300405).1 = [100, 117, 101, 32, 109, 105, 108, 105, 111, 110, 105, 32, 116, 114, 101,
    99, 101, 110, 116, 111, 109, 105, 108, 97, 113, 117, 97, 116, 116, 114, 111, 99, 101, 110, 116, 111, 99, 105, 110,
    113, 117, 101] := by decide +kernel

example : getIntValue true asciiDigits it.lang (spellTop itTop itScales 2300405).2 = .ok 2300405 :=
  italian_cardinal_partial _ (by decide) (by decide +kernel)

/-! ### Ordinals below 1000 -/

/-- **C04 (German ordinals)** `erste` … `neunhundertneunundneunzigste`: every `1 ≤ n < 1000`: the value of the TOKEN LIST
the tokeniser yields for the written ordinal is `n`.  For a simple ordinal (`zweite`, `zwanzigste`) that list is the
ordinal word; inside a compound the tokeniser drops the ordinal ending (`hundertzweite` → `hundert`, `zwei`;
`RTV.Props.C04TextEu.german_ordinal_ending_lost_by_tokeniser`, `de_ord_tokens_sample`), so for compounds this is the value
of the CARDINAL stems — the ordinal reading of the ending plays no part.  (The extraction regex
misspells `vierzigst…` as `vierziegt…`: 40th–49th of every hundred are never extracted — pipeline finding
`de-de:ordinal:vierzig:no-entity`; `__get_int_value` on their tokens is right.) -/
theorem german_ordinal_sub1000 (n : Nat) (h1 : 1 ≤ n) (h : n < 1000) :
    getIntValue true asciiDigits de.lang (spellOrdEu deOrd n).2 = .ok n := de_ord_all n h1 h rfl

/-- **C04 (German ordinals), every `1 ≤ n < 10^6`** — value of the token list of the written compound (cardinal stems, see
`german_ordinal_sub1000`) (`spellOrdDe`: `eintausendste`, `zweitausenderste`,
`einundzwanzigtausendeinhundertdreiundvierzigste`): the thousands by the structural `thousand_group`, the remainder as it
is written (and tokenised) inside the compound by kernel evaluation. -/
theorem german_ordinal_sub1e6 (n : Nat) (h1 : 1 ≤ n) (h : n < 1000000) :
    getIntValue true asciiDigits de.lang (spellOrdDe n).2 = .ok n := by
  by_cases hs : n < 1000
  · have : spellOrdDe n = spellOrdEu deOrd n := by simp [spellOrdDe, hs]
    rw [this]; exact german_ordinal_sub1000 n h1 hs
  · exact de_ord_big n (by omega) h

/-- `zweitausendeinhundertdreiundvierzigste` = 2143rd, tokens `zwei tausend ein hundert drei und vierzig` -/
example : (spellOrdDe 2143).1 = [122, 119, 101, 105, 116, 97, 117, 115, 101, 110, 100, 101, 105, 110, 104, 117, 110, 100,
    101, 114, 116, 100, 114, 101, 105, 117, 110, 100, 118, 105, 101, 114, 122, 105, 103, 115, 116, 101] ∧
    (spellOrdDe 2143).2.length = 7 := by decide +kernel

/-- **C04 (Dutch ordinals)** `eerste` … `negenhonderdnegenennegentigste`: as for German, the value of the token list the
tokeniser yields (`honderdtweede` → `honderd`, `twee`: cardinal stems inside a compound; the tie of `.2` to the written
form is checked against the real tokeniser by harness/lib/numordcorr.py — the Dutch tokeniser is not modelled). -/
theorem dutch_ordinal_sub1000 (n : Nat) (h1 : 1 ≤ n) (h : n < 1000) :
    getIntValue true asciiDigits nl.lang (spellOrdEu nlOrd n).2 = .ok n := nl_ord_all n h1 h rfl

/-- **C04 (Portuguese ordinals)** `primeiro` … `noningentésimo nonagésimo nono` (the extraction regex spells
`cuadringentésimo`: 400th–499th are not extracted whole — pipeline finding `pt-br:ordinal:quadringentesimo:*`) -/
theorem portuguese_ordinal_sub1000 (n : Nat) (h1 : 1 ≤ n) (h : n < 1000) :
    getIntValue true asciiDigits pt.lang (spellOrdEu ptOrd n).2 = .ok n := pt_ord_all n h1 h rfl

/-- **C04 (French ordinals)** `premier`, `deuxième` … `neuf cent quatre-vingt-dix-neuvième` -/
theorem french_ordinal_sub1000 (n : Nat) (h1 : 1 ≤ n) (h : n < 1000) :
    getIntValue true asciiDigits fr.lang (spellOrdEu frOrd n).2 = .ok n := fr_ord_all n h1 h rfl

/- Spanish, full statement (fails): ∀ 1 ≤ n < 1000, getIntValue es (spellOrdEu esOrd n).2 = n. -/
/-- **C04 (Spanish ordinals)**, exact guard: every `1 ≤ n < 1000` whose last two digits are not 17 -/
theorem spanish_ordinal_sub1000_partial (n : Nat) (h1 : 1 ≤ n) (h : n < 1000) (hg : n % 100 ≠ 17) :
    getIntValue true asciiDigits es.lang (spellOrdEu esOrd n).2 = .ok n :=
  es_ord_all n h1 h (by simp [esOrdGuard, hg])

/-- negative witness (finding `es-es:ordinal:decimoseptimo:value`): `decimoséptimo` is no key of the Spanish maps —
no token at all; `centésimo decimoséptimo` is read as 100 -/
theorem spanish_decimoseptimo_witness :
    (spellOrdEu esOrd 17).2 = [] ∧ getIntValue true asciiDigits es.lang (spellOrdEu esOrd 17).2 ≠ .ok 17 ∧
    getIntValue true asciiDigits es.lang (spellOrdEu esOrd 117).2 = .ok 100 := by decide +kernel

/- Italian, full statement (fails): ∀ 1 ≤ n < 1000, getIntValue it (spellOrdEu itOrd n).2 = n. -/
/-- **C04 (Italian ordinals)**, exact guard: every `1 ≤ n < 1000` that is not a round hundred from 200 and, above 100,
does not end in 11 or 13 -/
theorem italian_ordinal_sub1000_partial (n : Nat) (h1 : 1 ≤ n) (h : n < 1000)
    (hg1 : ¬ ((n % 100 = 11 ∨ n % 100 = 13) ∧ 100 ≤ n)) (hg2 : ¬ (n % 100 = 0 ∧ 200 ≤ n)) :
    getIntValue true asciiDigits it.lang (spellOrdEu itOrd n).2 = .ok n :=
  it_ord_all n h1 h (by
    simp only [itOrdGuard, Bool.and_eq_true, Bool.not_eq_true', Bool.and_eq_false_iff, Bool.or_eq_false_iff,
      beq_eq_false_iff_ne, ne_eq, decide_eq_false_iff_not]
    constructor
    · by_cases a : 100 ≤ n
      · left; constructor <;> omega
      · right; exact a
    · by_cases a : 200 ≤ n
      · left; omega
      · right; exact a)

/-- negative witnesses (recorded finding `it-it:ordinal:hundreds:value` and `it-it:ordinal:compound-teen:value`):
`duecentesimo` is read as 102 (`due` + `cent` + `e`), `centoundicesimo` as 101, `centotredicesimo` as 103 -/
theorem italian_ordinal_witness :
    getIntValue true asciiDigits it.lang (spellOrdEu itOrd 200).2 = .ok 102 ∧
    getIntValue true asciiDigits it.lang (spellOrdEu itOrd 111).2 = .ok 101 ∧
    getIntValue true asciiDigits it.lang (spellOrdEu itOrd 113).2 = .ok 103 := by decide +kernel

/-- inside a German / Dutch compound the tokeniser drops the ordinal ending: `hundertzweite` is read through the
cardinal stem `zwei`, `honderdtweede` through `twee` -/
example : (spellOrdEu deOrd 102).2 = [[104, 117, 110, 100, 101, 114, 116], [122, 119, 101, 105]] ∧
    (spellOrdEu nlOrd 102).2 = [[104, 111, 110, 100, 101, 114, 100], [116, 119, 101, 101]] := by decide +kernel

/-- `zweihundertdreiundvierzigste` -/
example : (spellOrdEu deOrd 243).1 = [122, 119, 101, 105, 104, 117, 110, 100, 101, 114, 116, 100, 114, 101, 105, 117,
    110, 100, 118, 105, 101, 114, 122, 105, 103, 115, 116, 101] := by decide +kernel

end RTV.Num
