import RTV.Props.C03Extract
/-!
# C03 extraction front end — plain integers and plain decimals, by kernel evaluation on bounded instances

The regexes responsible for these two shapes (NumbersWithPlaceHolder, DoubleDecimalPointRegex) differ per culture in
their sign prefix and look-aheads; `RTV.Props.C03ExtractPlain` proves the universal statement for the cultures whose
regex has the common form (not en-us, not it-it plain integers, not de-de / nl-nl decimals).  Here, for ALL sixteen
configurations, the MODEL extractor run with the DIGIT FAMILY of the list (the regenerated `IntegerNum` / `DoubleNum`
regexes that consume digits, blanks and punctuation only — 8 of the 23 English entries — with negative terms and
ambiguity filters) is evaluated by the kernel on every configuration x sign x boundary lengths, standing alone and inside
the carrier `a … zq.`.  The carrier's right part ` zq.` satisfies the carrier contract `PostOK` of every configuration
(`bounded_carrier_admissible`: `zq` continues a literal in no culture); the former carrier `a … b` did not (`b` is the
billion suffix: the real list reports `7777 b`, `RTV.Props.C03Extract.post_b_excluded`).  That the entries outside the
family add nothing on exactly these texts is checked on the real extractor objects by harness/lib/numextractcorr.py
(`bounded` tie: the texts of this file are rebuilt there and the full list must report what the family reports).
The matcher only looks at the CLASS of a character, so one digit stands for all.  What an induction would add (and
`rep_det_cons` + `chain_digits` provide the step for): the greedy `\d+` takes a run of ANY length first.
-/
namespace RTV.Props.C03Extract
open RTV.Py RTV.Re RTV.Span RTV.Num RTV.NumExtract RTV.Gen.NumRegex

set_option maxRecDepth 100000

def digitsN (n : Nat) : Str := List.replicate n 55

/-- the carrier of the bounded theorems: `a ` … ` zq.` -/
def carrierPre : Str := [97, 32]
def carrierPost : Str := [32, 122, 113, 46]

/-- the literal alone and in the carrier `a <literal> zq.`: exactly one result, the whole literal -/
def wholeOK (e : Ext) (t : Str) : Bool :=
  spans (extract RTV.Gen.reTables spB e t) == [(0, t.length)] &&
  spans (extract RTV.Gen.reTables spB e (carrierPre ++ t ++ carrierPost)) == [(2, t.length)]

def plainText (n : Nat) (neg : Bool) : Str := (if neg then [45] else []) ++ digitsN n
def decimalText (d : Nat) (n f : Nat) (neg : Bool) : Str := (if neg then [45] else []) ++ digitsN n ++ d :: digitsN f

/-- the carrier is inside the contract of the universal theorems, for every configuration -/
theorem bounded_carrier_admissible : ∀ c ∈ allCfgs,
    PreOK RTV.Gen.reTables carrierPre ∧ PostOK RTV.Gen.reTables (folOf c.follow) carrierPost := by
  intro c hc
  refine ⟨⟨Or.inr rfl, by decide +kernel⟩, ?_⟩
  exact (post_ordinary_ok c hc).2.1

/-- plain integers of 1 and 4 digits, both signs, all sixteen configurations (digit family) -/
theorem plain_bounded :
    (allCfgs.all fun c => [1, 4].all fun n => wholeOK c.ext (plainText n false) && wholeOK c.ext (plainText n true)) = true := by
  decide +kernel

/-- plain decimals written with the culture's decimal mark, positive, `7.7` and `777.77`: all sixteen configurations
(digit family) -/
theorem decimal_bounded :
    (allCfgs.all fun c => wholeOK c.ext (decimalText c.d 1 1 false) && wholeOK c.ext (decimalText c.d 3 2 false)) = true := by
  decide +kernel

/-- the configurations whose DoubleDecimalPointRegex has a sign branch and an unbounded integer part: all but de-de /
nl-nl (the last four of `allCfgs`) -/
def signedDecimalCfgs : List Cfg := allCfgs.take 12

/-- … `-7.7`, `7777.7`, `-7777.7`: every configuration but de-de / nl-nl (witnesses
`de_plain_decimal_split_witness`, `nl_plain_decimal_split_witness`) -/
theorem decimal_bounded_signed :
    (signedDecimalCfgs.all fun c => wholeOK c.ext (decimalText c.d 1 1 true) &&
      wholeOK c.ext (decimalText c.d 4 1 false) && wholeOK c.ext (decimalText c.d 4 1 true)) = true := by
  decide +kernel

end RTV.Props.C03Extract
