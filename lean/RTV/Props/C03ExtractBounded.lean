import RTV.Props.C03Extract
/-!
# C03 extraction front end — plain integers and plain decimals, by kernel evaluation on bounded instances

The regexes responsible for these two shapes (NumbersWithPlaceHolder, DoubleDecimalPointRegex) differ per culture in
their sign prefix and look-aheads; `RTV.Props.C03ExtractPlain` proves the universal statement for the cultures whose
regex has the common form (not en-us, not it-it plain integers, not de-de / nl-nl decimals).  Here, for ALL sixteen
configurations, the MODEL extractor — the regenerated regexes, all of them,
with negative terms and ambiguity filters — is evaluated by the kernel on every configuration x sign x boundary
lengths, standing alone and inside the carrier `a … b`.  The matcher only looks at the CLASS of a character, so one
digit stands for all.  What an induction would add (and `rep_det_cons` + `chain_digits` provide the step for): the
greedy `\d+` takes a run of ANY length first.
-/
namespace RTV.Props.C03Extract
open RTV.Py RTV.Re RTV.Span RTV.Num RTV.NumExtract RTV.Gen.NumRegex

set_option maxRecDepth 100000

def digitsN (n : Nat) : Str := List.replicate n 55

/-- the literal alone and in the carrier `a <literal> b`: exactly one result, the whole literal -/
def wholeOK (e : Ext) (t : Str) : Bool :=
  spans (extract RTV.Gen.reTables spB e t) == [(0, t.length)] &&
  spans (extract RTV.Gen.reTables spB e ([97, 32] ++ t ++ [32, 98])) == [(2, t.length)]

def plainText (n : Nat) (neg : Bool) : Str := (if neg then [45] else []) ++ digitsN n
def decimalText (d : Nat) (n f : Nat) (neg : Bool) : Str := (if neg then [45] else []) ++ digitsN n ++ d :: digitsN f

/-- plain integers of 1 and 4 digits, both signs, all sixteen configurations -/
theorem plain_bounded :
    (allCfgs.all fun c => [1, 4].all fun n => wholeOK c.ext (plainText n false) && wholeOK c.ext (plainText n true)) = true := by
  decide +kernel

/-- plain decimals written with the culture's decimal mark, positive, `7.7` and `777.77`: all sixteen configurations -/
theorem decimal_bounded :
    (allCfgs.all fun c => wholeOK c.ext (decimalText c.d 1 1 false) && wholeOK c.ext (decimalText c.d 3 2 false)) = true := by
  decide +kernel

/-- the configurations whose DoubleDecimalPointRegex has a sign branch and an unbounded integer part: all but de-de /
nl-nl (the last four of `allCfgs`) -/
def signedDecimalCfgs : List Cfg := allCfgs.take 12

/-- … `-7.7`, `7777.7`, `-7777.7`: every configuration but de-de / nl-nl (witnesses
`de_plain_decimal_split_witness`, `nl_plain_decimal_split_witness`) -/
theorem decimal_bounded_signed :
    (signedDecimalCfgs.all fun c => wholeOK c.ext (decimalText c.d 1 1 true) &&
      wholeOK c.ext (decimalText c.d 4 1 false) && wholeOK c.ext (decimalText c.d 4 1 true)) = true := by
  decide +kernel

end RTV.Props.C03Extract
