import RTV.Drv.Proto
import RTV.Model.Durations
/-! Driver handlers for L5 `Durations` (BaseDurationParser / BaseSetParser; C10 / C11). Strings are code points (`-` = empty),
an absent optional is `none`. Configuration fields: `culture` (cps, optionally followed by `/uvw` = the variant switches fixUnit, fixValue, fixUnitExact; rows of `RTV.Gen.durationRows`), `extra` = `none` or
rows `spelling|code|secs-or-none` joined by `;` (rows of the real `unit_map` the regenerated table does not hold), `dn` =
`none` or rows `key|num|den` joined by `;` (`double_numbers`, floats as exact ratios).
Answers: `ok TAB timex TAB str(value)` | `fail` | `err:Other`.
  du.fdec neg coeff exp                 -> num/den of float(Decimal)            | err:Other
  du.fstr text                          -> num/den of float(text)               | err:Other
  du.repr neg num den                   -> repr(float) (cps)
  du.mul neg num den k                  -> str(float_or_int(x * k))             | err:Other
  du.mulx neg num den k                 -> str(float_or_int(float(Fraction(repr(x)) * k)))   (repaired variant)
  du.space culture extra dn ersCount neg coeff exp fu fuSuf
  du.comb culture extra dn numText|none unit sufNum
  du.an culture extra dn half(0/1)|none unit sufNum
  du.inexact culture extra dn unit|none
  du.regex culture extra dn unit|none half(0/1)
  du.parse culture extra dn ersCount neg coeff exp fu fuSuf combNum combUnit anHalf anUnit inexact srcSuf allUnit halfUnit fuWhole
                                        -> timex TAB value|none                 | err:Other
  ds.eachunit periodic(none|nomatch|cps) each(none | full|unit|inUnitMap|unitTimex-or-nomatch|other)
  ds.eachdur ersCount afterEmpty prefixMatch durTimex
  ds.everyday ersCount eachDayMatch timeTimex
  ds.each each(none | n|full|timex) weekday(none | n|full|timex)
                                        -> success TAB timex TAB future TAB past | err:Other -/
namespace RTV.Drv.DurationsH
open RTV.Drv RTV.Durations

def optCps (f : String) : Option (List Nat) := if f == "none" then none else some (parseCps f)

def parseExtra (f : String) : List (List Nat × List Nat × Option Nat) :=
  if f == "none" then []
  else (f.splitOn ";").filterMap fun row =>
    match row.splitOn "|" with
    | [a, b, c] => some (parseCps a, parseCps b, if c == "none" then none else some (parseNat c))
    | _ => none

def parseDn (f : String) : List (List Nat × Dbl) :=
  if f == "none" then []
  else (f.splitOn ";").filterMap fun row =>
    match row.splitOn "|" with
    | [a, n, d] => some (parseCps a, ⟨false, parseNat n, parseNat d⟩)
    | _ => none

def mkCfg (cul extra dn : String) : Cfg :=
  -- the culture field is `cps` or `cps/uvw` with u, v, w ∈ {0,1}: the variant switches (fixUnit, fixValue, fixUnitExact)
  match cul.splitOn "/" with
  | [c, v] =>
    let bit (i : Nat) : Bool := v.toList[i]? == some '1'
    cfgOf (parseCps c) (parseExtra extra) (parseDn dn) (bit 0) (bit 1) (bit 2)
  | _ => cfgOf (parseCps cul) (parseExtra extra) (parseDn dn)

def showRes : Res → String
  | .fail => "fail"
  | .raises => "err:Other"
  | .ok t v => s!"ok\t{showCps t}\t{RTV.Py.toString' (numStr v)}"

def showRatio : Option Dbl → String
  | none => "err:Other"
  | some x => s!"{if x.neg && x.num != 0 then "-" else ""}{x.num / Nat.gcd x.num x.den}/{x.den / Nat.gcd x.num x.den}"

def mkDec (neg coeff exp : String) : Dec := ⟨parseBool neg, parseNat coeff, parseInt exp⟩

def showSet : Option SetRes → String
  | none => "err:Other"
  | some r => s!"{showBool r.success}\t{showCps r.timex}\t{showCps r.future}\t{showCps r.past}"

def parseTriple (f : String) : Option (Nat × Bool × List Nat) :=
  match f.splitOn "|" with
  | [n, full, t] => some (parseNat n, parseBool full, parseCps t)
  | _ => none

def parseEachUnitArg (f : String) : Option EachUnit :=
  match f.splitOn "|" with
  | [full, u, inMap, t, other] =>
    some ⟨parseBool full, parseCps u, parseBool inMap, if t == "nomatch" then none else some (parseCps t), parseBool other⟩
  | _ => none

def optPair (a b : String) : Option (List Nat × List Nat) := if a == "none" then none else some (parseCps a, parseCps b)
def optHalf (a b : String) : Option (Bool × List Nat) := if a == "none" then none else some (parseBool a, parseCps b)

end RTV.Drv.DurationsH
namespace RTV.Drv
open RTV.Drv.DurationsH RTV.Durations in
def dispatchDurations (op : String) (args : List String) : Option String :=
  match op, args with
  | "du.fdec", [neg, c, e] => some (showRatio (Dbl.ofDec (mkDec neg c e)))
  | "du.fstr", [t] => some (showRatio (floatOfStr (parseCps t)))
  | "du.repr", [neg, n, d] => some (showCps (reprDbl ⟨parseBool neg, parseNat n, parseNat d⟩))
  | "du.mul", [neg, n, d, k] =>
    some (match mulNum (floatOrInt ⟨parseBool neg, parseNat n, parseNat d⟩) (parseNat k) with
      | some v => RTV.Py.toString' (numStr v) | none => "err:Other")
  | "du.mulx", [neg, n, d, k] =>
    some (match mulNumFixed (floatOrInt ⟨parseBool neg, parseNat n, parseNat d⟩) (parseNat k) with
      | some v => RTV.Py.toString' (numStr v) | none => "err:Other")
  | "du.space", [cul, ex, dn, cnt, neg, c, e, fu, fuSuf] =>
    some (showRes (numberSpaceUnit (mkCfg cul ex dn) (parseNat cnt) (mkDec neg c e) (optCps fu) (optCps fuSuf)))
  | "du.comb", [cul, ex, dn, numText, unit, suf] =>
    some (showRes (numberCombinedUnit (mkCfg cul ex dn) (optPair numText unit) (optCps suf)))
  | "du.an", [cul, ex, dn, half, unit, suf] =>
    some (showRes (anUnit (mkCfg cul ex dn) (optHalf half unit) (optCps suf)))
  | "du.inexact", [cul, ex, dn, unit] => some (showRes (inexactNumberUnit (mkCfg cul ex dn) (optCps unit)))
  | "du.regex", [cul, ex, dn, unit, half] => some (showRes (resultFromRegex (mkCfg cul ex dn) (optCps unit) (parseBool half)))
  | "du.parse", [cul, ex, dn, cnt, neg, c, e, fu, fuSuf, cn, cu, ah, au, ie, ss, al, hu, fw] =>
    let f : Front := ⟨parseNat cnt, mkDec neg c e, optCps fu, optCps fuSuf, optPair cn cu, optHalf ah au, optCps ie, optCps ss,
      optCps al, optCps hu, optCps fw⟩
    some (match parse (mkCfg cul ex dn) f with
      | none => "err:Other"
      | some (t, v) => s!"{showCps t}\t{match v with | some s => RTV.Py.toString' s | none => "none"}")
  | "ds.eachunit", [p, e] =>
    let periodic : Option (Option (List Nat)) := if p == "none" then none else if p == "nomatch" then some none else some (some (parseCps p))
    some (showSet (parseEachUnit periodic (if e == "none" then none else parseEachUnitArg e)))
  | "ds.eachdur", [n, a, p, t] => some (showSet (some (parseEachDuration (parseNat n) (parseBool a) (parseBool p) (parseCps t))))
  | "ds.everyday", [n, m, t] => some (showSet (some (parseTimeEveryday (parseNat n) (parseBool m) (parseCps t))))
  | "ds.each", [a, b] =>
    some (showSet (parseEach (if a == "none" then none else parseTriple a) (if b == "none" then none else parseTriple b)))
  | _, _ => none

end RTV.Drv
