import RTV.Drv.Proto
import RTV.Drv.DtRes
import RTV.Model.DateFront
import RTV.Gen.DateRegexEn
import RTV.Gen.ReTables
/-! Driver handlers for L6 `DateFront` (C06 front end: `parse_basic_regex_match` of the English date parser).
  df.parse <real|ascii> <cps>              -> idx|prefixed|start|stop|year|month|day|fullyear|weekday  (cps each) | none | unsupported
  df.search <k> <real|ascii> <cps>         -> start|stop|year|month|day|fullyear|weekday as a:b or -   | none | unsupported
  df.todate <ref> <cps>                    -> res  (frontToDate, the engine's tables, written year 0)  | err:<Kind>
  df.resolve <ref> <cps>                   -> values (frontResolve)
  df.abs <k|all> <c c c;c;c c;…>           -> abstract evaluation (candidates per position), ASCII tables:
                                              `unk`, else as df.parse (all) / df.search (k) with spans instead of texts
-/
namespace RTV.Drv
open RTV.Py RTV.Re RTV.DateFront RTV.Gen.DateRegexEn

def dfTables (w : String) : Tables := if w == "ascii" then asciiTables else RTV.Gen.reTables

def showSpanOpt : Option (Nat × Nat) → String
  | some (a, b) => s!"{a}:{b}"
  | none => "-"

def showEnvSpans (env : Env) : String :=
  "|".intercalate ([1, 2, 3, 4, 5].map fun g => showSpanOpt (capOf env g))

def showEnvTexts (s : Str) (env : Env) : String :=
  "|".intercalate ([1, 2, 3, 4, 5].map fun g => showCps (groupText s env g))

def hDfParse : Handler
  | [w, s] =>
    let T := dfTables w
    let src := parseCps s
    let t := strip drvUni0.isSpace src
    match parseBasicO (conc T t.toArray) (conc T (dateTokenPrefix ++ t).toArray) dateTokenPrefix.length dateRegexes 0 with
    | none => "unsupported"
    | some none => "none"
    | some (some h) =>
      let txt := if h.prefixed then dateTokenPrefix ++ t else t
      s!"{h.idx}|{showBool h.prefixed}|{h.m.start}|{h.m.stop}|{showEnvTexts txt h.m.env}"
  | _ => "bad-op"

def hDfSearch : Handler
  | [k, w, s] =>
    match dateRegexes[parseNat k]? with
    | some (some r) =>
      match searchO (conc (dfTables w) (parseCps s).toArray) r with
      | some (some m) => s!"{m.start}|{m.stop}|{showEnvSpans m.env}"
      | _ => "none"
    | _ => "unsupported"
  | _ => "bad-op"

def dfCfg : RTV.DtRes.DateCfg :=
  { monthOfYear := RTV.Gen.DtMaps.monthOfYear_en, dayOfMonth := RTV.Gen.DtMaps.dayOfMonth_en,
    minTwoDigitYearPast := RTV.Gen.DtMaps.minTwoDigitYearPastNum,
    maxTwoDigitYearFuture := RTV.Gen.DtMaps.maxTwoDigitYearFutureNum }

def hDfToDate : Handler
  | [ref, s] =>
    showExcept showRes (frontToDate RTV.Gen.reTables drvUni0 dfCfg dateTokenPrefix dateRegexes (parseCps s) 0 (parseDT ref))
  | _ => "bad-op"

def hDfResolve : Handler
  | [ref, s] =>
    showExcept showValues (frontResolve RTV.Gen.reTables drvUni0 dfCfg dateTokenPrefix dateRegexes (parseCps s) 0 (parseDT ref))
  | _ => "bad-op"

def parseAbs (f : String) : List (List Nat) :=
  if f == "-" || f == "" then [] else (f.splitOn ";").map parseCps

def hDfAbs : Handler
  | [k, a] =>
    let A := parseAbs a
    let OT := absO asciiTables A.toArray
    let OP := absO asciiTables ((dateTokenPrefix.map fun c => [c]) ++ A).toArray
    if k == "all" then
      match parseBasicO OT OP dateTokenPrefix.length dateRegexes 0 with
      | none => "unk"
      | some none => "none"
      | some (some h) => s!"{h.idx}|{showBool h.prefixed}|{h.m.start}|{h.m.stop}|{showEnvSpans h.m.env}"
    else
      match dateRegexes[parseNat k]? with
      | some (some r) =>
        match stepO OT OP dateTokenPrefix.length r with
        | none => "unk"
        | some none => "none"
        | some (some (p, m)) => s!"{showBool p}|{m.start}|{m.stop}|{showEnvSpans m.env}"
      | _ => "unsupported"
  | _ => "bad-op"

def dispatchDateFront (op : String) (args : List String) : Option String :=
  match op with
  | "df.parse" => some (hDfParse args)
  | "df.search" => some (hDfSearch args)
  | "df.todate" => some (hDfToDate args)
  | "df.resolve" => some (hDfResolve args)
  | "df.abs" => some (hDfAbs args)
  | _ => none

end RTV.Drv
