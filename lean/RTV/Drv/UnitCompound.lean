import RTV.Drv.Unit
import RTV.Model.UnitCompound
/-! Driver handlers for L10b `UnitCompound` (C05: `BaseCurrencyParser.__merge_compound_unit`).
  uc.merge <p> <lf: none | g,d> <table nameToIso> <table fractionMapping> <table fractionCodeList> <table fractionNumMap>
           <nItems> (<isCurrency 0|1> <isNum 0|1> <start> <len> <hasValue 0|1> <unit cps|none> <number s,c,e|none> <plain s,c,e|none>)*
       -> `;`-joined `start:len:<number cps|None>:<unit cps|None>:<iso cps|none>` | err:TypeError | err:AttributeError | …
  uc.amount <p> <n s,c,e> <m s,c,e> <ratio>   -> `s c e` | err:ZeroDivisionError      Decimal(N) + Decimal(M) / Decimal(ratio)
a table is `<nRows> (<key cps> <value cps>)*`; the values of fractionNumMap are decimal digit strings (cps). -/
namespace RTV.Drv.Uc
open RTV.Drv RTV.Py RTV.Unit RTV.Dec

def parseDec3 (f : String) : Option Dec :=
  if f == "none" then none else
  match f.splitOn "," with
  | [s, c, e] => some ⟨s == "1", parseNat c, parseInt e⟩
  | _ => none

def parseLf (f : String) : Option (Nat × Nat) :=
  match f.splitOn "," with
  | [g, d] => some (parseNat g, parseNat d)
  | _ => none

def optCps (f : String) : Option (List Nat) := if f == "none" then none else some (parseCps f)

def natOfDigits (s : List Nat) : Nat := s.foldl (fun a c => a * 10 + (c - 48)) 0

def showErr : CErr → String
  | .typeError => "err:TypeError"
  | .attributeError => "err:AttributeError"
  | .zeroDiv => "err:ZeroDivisionError"
  | .fuel => "err:Other"

def showRes (r : CResult) : String :=
  s!"{r.start}:{r.len}:" ++ (match r.number with | some n => showCps n | none => "None") ++ ":" ++
    (match r.unit with | some u => showCps u | none => "None") ++ ":" ++ (match r.iso with | some c => showCps c | none => "none")

def takeItems : Nat → List String → List CItem → List CItem
  | n + 1, ic :: isn :: st :: ln :: hv :: u :: nb :: pl :: more, acc =>
    takeItems n more (⟨ic == "1", isn == "1", parseNat st, parseNat ln, hv == "1", optCps u, parseDec3 nb, parseDec3 pl⟩ :: acc)
  | _, _, acc => acc.reverse

def hMerge : Handler
  | p :: lf :: rest =>
    let (t1, rest) := takeTable (parseNat (rest.headD "0")) (rest.drop 1)
    let (t2, rest) := takeTable (parseNat (rest.headD "0")) (rest.drop 1)
    let (t3, rest) := takeTable (parseNat (rest.headD "0")) (rest.drop 1)
    let (t4, rest) := takeTable (parseNat (rest.headD "0")) (rest.drop 1)
    match rest with
    | n :: items =>
      let cfg : CCfg := ⟨t1, t2, t3, t4.map fun kv => (kv.1, natOfDigits kv.2), parseLf lf, pySpace⟩
      match mergeCompound (parseNat p) cfg (takeItems (parseNat n) items []) with
      | .ok rs => ";".intercalate (rs.map showRes)
      | .error e => showErr e
    | _ => "bad-op"
  | _ => "bad-op"

def hAmount : Handler
  | [p, n, m, r] =>
    match parseDec3 n, parseDec3 m with
    | some a, some b => match mergeAmount (parseNat p) a b (parseNat r) with
      | some d => s!"{if d.neg then 1 else 0} {d.coeff} {d.exp}"
      | none => "err:ZeroDivisionError"
    | _, _ => "bad-op"
  | _ => "bad-op"

end RTV.Drv.Uc

namespace RTV.Drv
def dispatchUnitCompound (op : String) (args : List String) : Option String :=
  match op with
  | "uc.merge" => some (Uc.hMerge args)
  | "uc.amount" => some (Uc.hAmount args)
  | _ => none
end RTV.Drv
