import RTV.Drv.Proto
import RTV.Model.DtRes
import RTV.Gen.CharTables
import RTV.Gen.DtMaps
import RTV.Gen.DtMapsX1
import RTV.Gen.DtMapsX2
/-! Driver handlers for L6 `DtRes` (C06, C07). Datetimes travel as `y,m,d,h,mi,s`; strings as code points.
(every op is prefixed `dt.` on the wire)
  dtfmt luisdate y m d | luistime h mi s/none | shorttime h mi/none s/none | fmtdate dt | fmttime dt | fmtdt dt
        | topm cps | allpm cps | int cps | fmtd w i          -> cps   or err:ValueError
  gendates noYear ref y m d                                  -> future|past
  m2t ref culture variant(1 = `if not hour`, 0 = repaired `is None`) elsePm(1 = adjust_by_suffix has the closing else) <19 group fields>
      ltohMatched deltamin deltaminnum tokenFlags full oclock am pm lunch night   -> res or err:<Kind>
  wordhour ref source                                        -> res or none
  m2d culture ref year fullYear month day writtenYear        -> res or err:<Kind>
  res dtype ok timex comment future past                     -> values or none or err:<Kind>
  merge variant(1 = word shift only for an ambiguous time) dOk dTimex dFuture dPast tOk tTimex tComment tFuture pm am   -> res or err:<Kind>
  rdate culture ref year fullYear month day writtenYear      -> values (resolveDate)
  rtime ref <m2t fields>                                     -> values (resolveTime)
  rdt culture ref year fullYear month day writtenYear pm am <m2t fields>   -> values (resolveDateAtTime)
res    = success(0/1)|timex|comment|future|past
values = timex~type~value;…  (value `none` when the entry has no value key) -/
namespace RTV.Drv
open RTV.Py RTV.DtRes

def drvUni0 : Uni where
  isSpace c := inRangesArr RTV.Gen.spaceRanges c
  isNumericCh c := inRangesArr RTV.Gen.DtMaps.numericRanges c
  digitVal c := (RTV.Gen.DtMaps.ndZeros.find? (fun z => z ≤ c && c ≤ z + 9)).map (fun z => c - z)

-- the handlers below take the `Uni` (base tables + the `to_pm` variant chosen per operation by an op-name suffix `+w`)
variable (drvUni : Uni)

def parseDT (f : String) : DT :=
  match (f.splitOn ",").map parseNat with
  | [y, m, d, h, mi, s] => ⟨y, m, d, h, mi, s⟩
  | _ => minValue

def showDT (x : DT) : String := s!"{x.y},{x.m},{x.d},{x.hh},{x.mi},{x.ss}"

def parseOptInt (f : String) : Option Int := if f == "none" then none else some (parseInt f)

def showRes (r : Res) : String :=
  s!"{showBool r.success}|{showCps r.timex}|{showCps r.comment}|{showDT r.future}|{showDT r.past}"

def showExcept (f : α → String) : Except String α → String
  | .ok a => f a
  | .error k => "err:" ++ k

def showValue (v : Value) : String :=
  s!"{showCps v.timex}~{showCps v.type}~{showOpt showCps v.value}"

def showValues : Option (List Value) → String
  | none => "none"
  | some vs => ";".intercalate (vs.map showValue)

def hDtFmt : Handler
  | ["luisdate", y, m, d] => showCps (luisDate (parseInt y) (parseInt m) (parseInt d))
  | ["luistime", h, mi, s] => showCps (luisTime (parseInt h) (parseInt mi) (parseOptInt s))
  | ["shorttime", h, mi, s] =>
    showCps (shortTime RTV.Gen.DtMaps.invalidMinute (parseInt h) (parseOptInt mi) (parseOptInt s))
  | ["fmtdate", x] => showCps (formatDate (parseDT x))
  | ["fmttime", x] => showCps (formatTime (parseDT x))
  | ["fmtdt", x] => showCps (formatDateTime (parseDT x))
  | ["topm", s] => (match toPm drvUni (parseCps s) with | some r => showCps r | none => "err:ValueError")
  | ["allpm", s] => (match allStrToPm drvUni (parseCps s) with | some r => showCps r | none => "err:ValueError")
  | ["int", s] => (match pyInt drvUni (parseCps s) with | some r => toString r | none => "err:ValueError")
  | ["fmtd", w, i] => showCps (fmtD (parseNat w) (parseInt i))
  | _ => "bad-op"

def hGenDates : Handler
  | [ny, ref, y, m, d] =>
    let (f, p) := generateDates (parseBool ny) (parseDT ref) (parseInt y) (parseInt m) (parseInt d)
    s!"{showDT f}|{showDT p}"
  | _ => "bad-op"

/-- numbers table, prefix style and suffix style of a culture's TimeParserConfiguration -/
def timeStyleOf (tag : String) (elsePm : Bool) : Option (List (List Nat × Nat) × PrefixStyle × SuffixStyle) :=
  open RTV.Gen.DtMaps in
  match tag with
  | "en" => some (numbers_en, enPrefixStyle, enSuffixStyle elsePm)
  | "es" => some (numbers_es, esPrefixStyle, simpleSuffixStyle)
  | "esmx" => some (numbers_esmx, esPrefixStyle, simpleSuffixStyle)
  | "fr" => some (numbers_fr, frPrefixStyle, simpleSuffixStyle)
  | "pt" => some (numbers_pt, ptPrefixStyle, nightSuffixStyle elsePm)
  | "it" => some (numbers_it, itPrefixStyle, nightSuffixStyle elsePm)
  | "de" => some (numbers_de, dePrefixStyle, nightSuffixStyle elsePm)
  | "nl" => some (numbers_nl, nlPrefixStyle, nlSuffixStyle)
  | _ => none

def parseFlags (f : String) : List Bool := f.toList.map (· == '1')

/-- culture tag, hour-0 variant, suffix `else` variant, the 19 group fields, 3 prefix-regex fields, the token-regex
flags (a string of 0/1), 6 suffix-regex fields of a `match_to_time` call -/
def parseTimeCall (fs : List String) : Option (TimeGroups × TimeCfg) :=
  match fs with
  | [tag, variant, elsePm, wt, hn, mn, tens, mid, mnt, mmo, maf, mdy, hour, min, sec, amD, ampmD, pmD, iam, ipm, pfx, sfx,
     ltohM, dm, dmn, flags, full, oclock, am, pm, lunch, night] =>
    match timeStyleOf tag (parseBool elsePm) with
    | none => none
    | some (numbers, pst, sst) =>
      let g : TimeGroups := {
        writtenTime := parseCps wt, hourNum := parseCps hn, minNum := parseCps mn, tens := parseCps tens,
        mid := parseCps mid, midNight := parseCps mnt, midMorning := parseCps mmo, midAfternoon := parseCps maf,
        midDay := parseCps mdy, hour := parseCps hour, min := parseCps min, sec := parseCps sec,
        amDesc := parseBool amD, amPmDesc := parseBool ampmD, pmDesc := parseBool pmD,
        implAm := parseCps iam, implPm := parseCps ipm, pfx := parseCps pfx, sfx := parseCps sfx }
      let ltoh := if parseBool ltohM then some (parseCps dm, parseCps dmn) else none
      let si : SuffixInfo := { full := parseBool full, oclock := parseCps oclock, am := parseCps am, pm := parseCps pm,
                               lunch := parseBool lunch, night := parseBool night }
      let cfg : TimeCfg := {
        numbers := numbers
        zeroHourIsNone := parseBool variant
        adjustByPrefix := adjustByPrefixG drvUni numbers pst (parseFlags flags) ltoh
        adjustBySuffix := fun _ a => .ok (adjustBySuffixG sst si a) }
      some (g, cfg)
  | _ => none

def enTimeCfgPlain : TimeCfg := {
  numbers := RTV.Gen.DtMaps.numbers_en
  adjustByPrefix := enAdjustByPrefix drvUni RTV.Gen.DtMaps.numbers_en none
  adjustBySuffix := fun _ a => .ok (enAdjustBySuffix {} a) }

def hM2T : Handler
  | ref :: fs =>
    match parseTimeCall drvUni fs with
    | some (g, cfg) => showExcept showRes (matchToTime drvUni cfg g (parseDT ref))
    | none => "bad-op"
  | _ => "bad-op"

def hWordHour : Handler
  | [ref, src] => showOpt showRes (wordHourToTime (enTimeCfgPlain drvUni) (parseCps src) (parseDT ref))
  | _ => "bad-op"

def dateCfgOf (tag : String) : Option DateCfg :=
  let mk (a b : List (List Nat × Nat)) : Option DateCfg :=
    some { monthOfYear := a, dayOfMonth := b,
           minTwoDigitYearPast := RTV.Gen.DtMaps.minTwoDigitYearPastNum,
           maxTwoDigitYearFuture := RTV.Gen.DtMaps.maxTwoDigitYearFutureNum }
  open RTV.Gen.DtMaps in
  match tag with
  | "en" => mk monthOfYear_en dayOfMonth_en
  | "es" => mk monthOfYear_es dayOfMonth_es
  | "esmx" => mk monthOfYear_esmx dayOfMonth_esmx
  | "fr" => mk monthOfYear_fr dayOfMonth_fr
  | "pt" => mk monthOfYear_pt dayOfMonth_pt
  | "it" => mk monthOfYear_it dayOfMonth_it
  | "de" => mk monthOfYear_de dayOfMonth_de
  | "nl" => mk monthOfYear_nl dayOfMonth_nl
  | "zh" => mk monthOfYear_zh dayOfMonth_zh
  | _ => none

def parseDateGroups (y fy m d : String) : DateGroups :=
  { year := parseCps y, fullYear := parseCps fy, month := parseCps m, day := parseCps d }

def hM2D : Handler
  | [tag, ref, y, fy, m, d, wy] =>
    match dateCfgOf tag with
    | some cfg => showExcept showRes (matchToDate drvUni cfg (parseDateGroups y fy m d) (parseInt wy) (parseDT ref))
    | none => "bad-op"
  | _ => "bad-op"

def parseDType (f : String) : DType := if f == "date" then .date else if f == "time" then .time else .datetime

def hRes : Handler
  | [dt, ok, timex, comment, fut, past] =>
    let r : Res := { success := parseBool ok, timex := parseCps timex, comment := parseCps comment,
                     future := parseDT fut, past := parseDT past }
    showExcept showValues (dateTimeResolution drvUni (toSlot (parseDType dt) r))
  | _ => "bad-op"

def hMerge : Handler
  | [variant, dOk, dTimex, dFut, dPast, tOk, tTimex, tComment, tFut, pm, am] =>
    let dr : Res := { success := parseBool dOk, timex := parseCps dTimex, future := parseDT dFut, past := parseDT dPast }
    let tr : Res := { success := parseBool tOk, timex := parseCps tTimex, comment := parseCps tComment,
                      future := parseDT tFut, past := parseDT tFut }
    showExcept showRes (mergeDateAndTime (toSlot .date dr) (toSlot .time tr) (parseBool pm) (parseBool am) (parseBool variant))
  | _ => "bad-op"

def hRDate : Handler
  | [tag, ref, y, fy, m, d, wy] =>
    match dateCfgOf tag with
    | some cfg => showExcept showValues (resolveDate drvUni cfg (parseDateGroups y fy m d) (parseInt wy) (parseDT ref))
    | none => "bad-op"
  | _ => "bad-op"

def hRTime : Handler
  | ref :: fs =>
    match parseTimeCall drvUni fs with
    | some (g, cfg) => showExcept showValues (resolveTime drvUni cfg g (parseDT ref))
    | none => "bad-op"
  | _ => "bad-op"

def hRDt : Handler
  | tag :: ref :: y :: fy :: m :: d :: wy :: pm :: am :: fs =>
    match dateCfgOf tag, parseTimeCall drvUni fs with
    | some dcfg, some (g, tcfg) =>
      showExcept showValues (resolveDateAtTime drvUni dcfg (parseDateGroups y fy m d) (parseInt wy) tcfg g
        (parseBool pm) (parseBool am) (parseDT ref))
    | _, _ => "bad-op"
  | _ => "bad-op"

def zhCfgOf (anyHour : Bool) : ZhCfg :=
  { numbersMap := RTV.Gen.DtMaps.timeNumbers_zh, lowBound := RTV.Gen.DtMaps.timeLowBound_zh, ampmAnyHour := anyHour }

/-- zhtime ref variant(1 = ampm for any hour) chinese(0/1) hour min sec quarter half daydesc -> res -/
def hZhTime : Handler
  | [ref, variant, chinese, hour, min, sec, quarter, half, daydesc] =>
    let cfg := zhCfgOf (parseBool variant)
    let g : ZhGroups := { hour := parseCps hour, min := parseCps min, sec := parseCps sec, quarter := parseCps quarter,
                          half := parseCps half, daydesc := parseCps daydesc }
    showExcept showRes (do zhPackTime drvUni cfg g (← zhHandle drvUni cfg (parseBool chinese) g) (parseDT ref))
  | _ => "bad-op"

/-- m2dzh ref year fullYear(unused) month day chsYear -> res (ChineseDateParser.match_to_date) -/
def hM2DZh : Handler
  | [ref, y, fy, m, d, cy] =>
    match dateCfgOf "zh" with
    | some cfg => showExcept showRes (matchToDateZh drvUni cfg (parseDateGroups y fy m d) (parseInt cy) (parseDT ref))
    | none => "bad-op"
  | _ => "bad-op"

def enTodCfg : TodCfg :=
  { numbers := RTV.Gen.DtMaps.numbers_en, getSwiftDay := enGetSwiftDay drvUni, getHour := enGetHour drvUni }

/-- tod ref kind(whole|parsed|nothing) hourGroup(`none` = absent) hourNumGroup tOk tTimex tFuture matched matchStr -> res -/
def hTod : Handler
  | [ref, kind, hourG, hourNum, tOk, tTimex, tFut, matched, ms] =>
    let t : TodTime :=
      if kind == "whole" then .whole (if hourG == "none" then none else some (parseCps hourG)) (parseCps hourNum)
      else if kind == "parsed" then
        .parsed (toSlot .time { success := parseBool tOk, timex := parseCps tTimex, future := parseDT tFut, past := parseDT tFut })
      else .nothing
    showExcept showRes (parseTimeOfToday drvUni (enTodCfg drvUni) t (if parseBool matched then some (parseCps ms) else none) (parseDT ref))
  | _ => "bad-op"

/-! The entity-level compositions the C06 / C07 theorems are stated about (audit item 35: they had no correspondence op; only
their parts `zhtime`, `m2dzh`, `tod`, `res` had):  rtimezh / rdatezh / rtod take the fields of zhtime / m2dzh / tod and answer
the `values` of `resolveTimeZh` / `resolveDateZh` / `resolveTimeOfToday`. -/
def hRTimeZh : Handler
  | [ref, variant, chinese, hour, min, sec, quarter, half, daydesc] =>
    let cfg := zhCfgOf (parseBool variant)
    let g : ZhGroups := { hour := parseCps hour, min := parseCps min, sec := parseCps sec, quarter := parseCps quarter,
                          half := parseCps half, daydesc := parseCps daydesc }
    showExcept showValues (resolveTimeZh drvUni cfg (parseBool chinese) g (parseDT ref))
  | _ => "bad-op"

def hRDateZh : Handler
  | [ref, y, fy, m, d, cy] =>
    match dateCfgOf "zh" with
    | some cfg => showExcept showValues (resolveDateZh drvUni cfg (parseDateGroups y fy m d) (parseInt cy) (parseDT ref))
    | none => "bad-op"
  | _ => "bad-op"

def hRTod : Handler
  | [ref, kind, hourG, hourNum, tOk, tTimex, tFut, matched, ms] =>
    let t : TodTime :=
      if kind == "whole" then .whole (if hourG == "none" then none else some (parseCps hourG)) (parseCps hourNum)
      else if kind == "parsed" then
        .parsed (toSlot .time { success := parseBool tOk, timex := parseCps tTimex, future := parseDT tFut, past := parseDT tFut })
      else .nothing
    showExcept showValues (resolveTimeOfToday drvUni (enTodCfg drvUni) t (if parseBool matched then some (parseCps ms) else none) (parseDT ref))
  | _ => "bad-op"

def showPRes (r : PRes) : String :=
  s!"{showBool r.success}|{showCps r.timex}|{showCps r.comment}|{r.startS}|{r.endS}"

def showPValues : Option (List PValue) → String
  | none => "none"
  | some vs => ";".intercalate (vs.map fun v => s!"{showCps v.timex}~{showCps v.type}~{showCps v.start}~{showCps v.«end»}")

/-- m2tp padded(1 = repaired zero-padded timex) secs(1 = repaired integer minutes + seconds; 0 = float minutes, printed as the
    marker `{<diff>}` that the harness replaces by the interpreter's repr of diff / 60 % 60) ok1 timex1 comment1 future1 ok2 timex2 comment2 future2 -> pres (merge_two_time_points)
    tpres ok timex comment startS endS -> pvalues (time-range resolution) -/
def hM2TP : Handler
  | [padded, secs, ok1, tx1, c1, f1, ok2, tx2, c2, f2] =>
    let mk (ok tx c f : String) : Slot :=
      toSlot .time { success := parseBool ok, timex := parseCps tx, comment := parseCps c, future := parseDT f, past := parseDT f }
    showExcept showPRes (mergeTwoTimePoints (mk ok1 tx1 c1 f1) (mk ok2 tx2 c2 f2) (parseBool padded)
      (fun diff => [123] ++ RTV.DtRes.decStr diff ++ [125]) (parseBool secs))
  | _ => "bad-op"

def hTPRes : Handler
  | [ok, tx, c, st, en] =>
    showExcept showPValues (timeRangeResolution drvUni
      { success := parseBool ok, timex := parseCps tx, comment := parseCps c, startS := parseNat st, endS := parseNat en })
  | _ => "bad-op"

def dispatchDtRes (op0 : String) (args : List String) : Option String :=
  let wraps := op0.endsWith "+w"
  let op := if wraps then (op0.dropEnd 2).toString else op0
  let u : Uni := { drvUni0 with pmWraps := wraps }
  match op with
  | "dt.m2tp" => some (hM2TP args)
  | "dt.tpres" => some (hTPRes u args)
  | "dt.tod" => some (hTod u args)
  | "dt.m2dzh" => some (hM2DZh u args)
  | "dt.zhtime" => some (hZhTime u args)
  | "dt.dtfmt" => some (hDtFmt u args)
  | "dt.gendates" => some (hGenDates args)
  | "dt.m2t" => some (hM2T u args)
  | "dt.wordhour" => some (hWordHour u args)
  | "dt.m2d" => some (hM2D u args)
  | "dt.res" => some (hRes u args)
  | "dt.merge" => some (hMerge args)
  | "dt.rdate" => some (hRDate u args)
  | "dt.rtime" => some (hRTime u args)
  | "dt.rdt" => some (hRDt u args)
  | "dt.rtimezh" => some (hRTimeZh u args)
  | "dt.rdatezh" => some (hRDateZh u args)
  | "dt.rtod" => some (hRTod u args)
  | _ => none

end RTV.Drv
