import RTV.Drv.Proto
import RTV.Drv.Periods
import RTV.Model.Periods2
/-! Driver handlers for L5 `Periods2` (DateContext, merge with year context, complex date period, parse order / assembly,
decades, inclusive-end variants; C10 / C11 / C08). A reference is four fields `Y M D secs`; a datetime is `Y-M-D@secs`; a
TIMEX is plain text (`-` = empty); a context year is an integer (`-2147483648` = empty).
An `Out` argument is one field: `R` (raises) | `N` (no result) | `O~timex~fb~fe~pb~pe~mod` | `O~timex~-~mod` (no values).
  p2.fold years,…|-                               -> year
  p2.settimex timex year                          -> timex
  p2.swift b e                                    -> datetime | err:Other
  p2.setdate ctxYear x year                       -> datetime
  p2.procdate ctxYear timex f p                   -> timex TAB f TAB p
  p2.procperiod ctxYear out                       -> out TAB dict | err:Other
  p2.sync ctxYear t1 f1 p1 t2 f2 p2               -> f1 p1 f2 p2
  p2.merge futureMatch ctxYear t1 f1 p1 t2 f2 p2  -> Res
  p2.mergenow Y M D secs dateFirst t f p          -> Res
  p2.gentimex b e ty ab ae                        -> timex
  p2.complex matched ctxYear sKind st sf sp sOut eKind et ef ep eOut   -> Res   (kind: n | w | v | d)
  p2.chain ctx|none out1 … outN                   -> index|- TAB out TAB dict | err:Other
  p2.parse typeOK base complex                    -> Parsed | err:Other
  p2.decade a b                                   -> out
  p2.decadefix Y M D secs kind a b                -> Res   (kind: c firstTwo decade | b decade 0 | s value 0 | r swift 0)
  p2.weekof incl t f p / p2.monthof t f p         -> Res
  p2.mwyi incl Y M D secs month year|- swift ; p2.yeari incl year ; p2.womi incl Y M D secs cardinal month year noYear ;
  p2.duri incl Y M D secs mode unit n             -> Res -/
namespace RTV.Drv.Periods2H
open RTV.Drv RTV.Py RTV.Cal RTV.DateUtils RTV.Periods RTV.Periods2 RTV.Drv.PeriodsH

def tx (f : String) : Str := if f == "-" then [] else str f
def showTx (t : Str) : String := if t.isEmpty then "-" else toString' t

def parseOut (f : String) : Out :=
  match f.splitOn "~" with
  | ["R"] => .raises
  | ["N"] => .noResult
  | ["O", t, fb, fe, pb, pe, m] => .ok (tx t) (some ⟨parseDT fb, parseDT fe, parseDT pb, parseDT pe⟩) (tx m)
  | ["O", t, "-", m] => .ok (tx t) none (tx m)
  | _ => .raises

def showOut : Out → String
  | .raises => "err:Other"
  | .noResult => "none"
  | .ok t (some v) m => s!"{showTx t}\t{showDT v.fb}\t{showDT v.fe}\t{showDT v.pb}\t{showDT v.pe}\t{showTx m}"
  | .ok t none m => s!"{showTx t}\t-\t{showTx m}"

def showOutDict : Option (Out × Bool) → String
  | none => "err:Other"
  | some (o, d) => s!"{showOut o}\t{showBool d}"

def parseSingle (k t f p : String) : SingleIn :=
  match k with
  | "n" => .noDate
  | "w" => .weekMatch
  | "v" => .noValue
  | _ => .date ⟨tx t, parseDT f, parseDT p⟩

def showParsed : Option Parsed → String
  | none => "err:Other"
  | some p =>
    let pr (o : Option (Str × Str)) : String := match o with | none => "{}" | some (a, b) => s!"{toString' a},{toString' b}"
    s!"{showBool p.hasValue}\t{showTx p.timexStr}\t{pr p.future}\t{pr p.past}\t{showTx p.mod}"

def parseDecadeIn (k a b : String) : DecadeIn :=
  match k with
  | "c" => .century (parseNat a) (parseNat b)
  | "b" => .bare (parseNat a)
  | "s" => .special (parseNat a)
  | _ => .relative (parseInt a)

end RTV.Drv.Periods2H
namespace RTV.Drv
open RTV.Drv.PeriodsH RTV.Drv.Periods2H RTV.Periods RTV.Periods2 RTV.Py in
def dispatchPeriods2 (op : String) (args : List String) : Option String :=
  match op, args with
  | "p2.fold", [ys] =>
    some (toString (yearContextFold (if ys == "-" then [] else (ys.splitOn ",").map parseInt)))
  | "p2.settimex", [t, y] => some (showTx (setTimexWithContext (tx t) (parseInt y)))
  | "p2.swift", [b, e] => some (match swiftDateObject (parseDT b) (parseDT e) with | some x => showDT x | none => "err:Other")
  | "p2.setdate", [c, x, y] => some (showDT (setDateWithContext (parseInt c) (parseDT x) (parseInt y)))
  | "p2.procdate", [c, t, f, p] =>
    let r := processDateEntity (parseInt c) ⟨tx t, parseDT f, parseDT p⟩
    some s!"{showTx r.timex}\t{showDT r.future}\t{showDT r.past}"
  | "p2.procperiod", [c, o] =>
    some (match parseOut o with
      | .ok t v m => showOutDict (processDatePeriod (parseInt c) t v m)
      | _ => "err:Other")
  | "p2.sync", [c, t1, f1, p1, t2, f2, p2] =>
    let r := syncYear (parseInt c) ⟨tx t1, parseDT f1, parseDT p1⟩ ⟨tx t2, parseDT f2, parseDT p2⟩
    some s!"{showDT r.1.future}\t{showDT r.1.past}\t{showDT r.2.future}\t{showDT r.2.past}"
  | "p2.merge", [fm, c, t1, f1, p1, t2, f2, p2] =>
    some (showRes (mergeCtx (parseBool fm) (parseInt c) ⟨tx t1, parseDT f1, parseDT p1⟩ ⟨tx t2, parseDT f2, parseDT p2⟩))
  | "p2.mergenow", [y, m, d, s, df, t, f, p] =>
    some (showRes (mergeWithNow (mkDT y m d s) (parseBool df) ⟨tx t, parseDT f, parseDT p⟩))
  | "p2.gentimex", [b, e, ty, ab, ae] =>
    some (toString' (generateDatePeriodTimex (parseDT b) (parseDT e) (parseNat ty) (parseDT ab) (parseDT ae)))
  | "p2.complex", [ma, c, sk, st, sf, sp, so, ek, et, ef, ep, eo] =>
    some (showRes (complexDatePeriod (parseBool ma) (parseInt c) ⟨parseSingle sk st sf sp, parseOut so⟩
      ⟨parseSingle ek et ef ep, parseOut eo⟩))
  | "p2.chain", c :: outs =>
    let os := outs.map parseOut
    let idx := match answerIndex os with | some i => toString i | none => "-"
    some s!"{idx}\t{showOutDict (parseBaseDatePeriod os (if c == "none" then none else some (parseInt c)))}"
  | "p2.parse", [ty, b, c] => some (showParsed (parseTop (parseBool ty) (parseOut b) (parseOut c)))
  | "p2.decade", [a, b] => some (showOut (parseDecade (parseBool a) (parseBool b)))
  | "p2.decadefix", [y, m, d, s, k, a, b] => some (showRes (decadeFixed (mkDT y m d s) (parseDecadeIn k a b)))
  | "p2.weekof", [i, t, f, p] => some (showRes (weekOfDate (parseBool i) ⟨tx t, parseDT f, parseDT p⟩))
  | "p2.monthof", [t, f, p] => some (showRes (monthOfDate ⟨tx t, parseDT f, parseDT p⟩))
  | "p2.mwyi", [i, y, m, d, s, mo, yr, sw] =>
    some (showRes (monthWithYearI (parseBool i) (mkDT y m d s) (parseNat mo) (optInt yr) (parseInt sw)))
  | "p2.yeari", [i, yr] => some (showRes (parseYearI (parseBool i) (parseInt yr)))
  | "p2.womi", [i, y, m, d, s, c, mo, yr, ny] =>
    some (showRes (getWeekOfMonthI (parseBool i) (mkDT y m d s) (parseInt c) (parseNat mo) (parseInt yr) (parseBool ny)))
  | "p2.duri", [i, y, m, d, s, mo, u, n] =>
    some (showRes (durationPeriodI (parseBool i) (mkDT y m d s) (parseMode mo) (parsePerUnit u) (parseNat n)))
  | _, _ => none

end RTV.Drv
