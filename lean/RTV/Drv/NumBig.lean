import RTV.Drv.Proto
import RTV.Model.SpellEu
/-! Driver handlers for the numerals above 10^6 of Spanish, Portuguese, German, Dutch (C04, `RTV.Num.spellHuge`).
  nb.spell <es|pt|de|nl> <n>   (n < 10^15)          -> text cps | tok;tok;...
  nb.mult  <es|pt|de|nl> <g>   (multiplier in front of a scale noun; g < 1000, es: g < 10^6) -> text cps | tok;tok;... -/
namespace RTV.Drv.NumBigD
open RTV.Py RTV.Num RTV.Drv

def hugeOf : String → Option EuHuge
  | "es" => some esHuge | "pt" => some ptHuge | "de" => some deHuge | "nl" => some nlHuge | _ => none

def showPair (r : Str × List Str) : String := showCps r.1 ++ "|" ++ ";".intercalate (r.2.map showCps)

def hSpell : Handler
  | [cu, n] => match hugeOf cu with
    | some h => showPair (spellHuge h (parseNat n))
    | none => "bad-culture"
  | _ => "bad-op"

def hMult : Handler
  | [cu, g] => match hugeOf cu with
    | some h => showPair (hugeMult h (parseNat g))
    | none => "bad-culture"
  | _ => "bad-op"

def dispatch (op : String) (args : List String) : Option String :=
  match op with
  | "nb.spell" => some (hSpell args)
  | "nb.mult" => some (hMult args)
  | _ => none

end RTV.Drv.NumBigD

namespace RTV.Drv
def dispatchNumBig (op : String) (args : List String) : Option String := NumBigD.dispatch op args
end RTV.Drv
