import RTV.Drv.Proto
import RTV.Model.NumExtract
import RTV.Gen.NumRegexIndex
import RTV.Gen.ReTables
import RTV.Gen.CharTables
import RTV.Gen.NumFollow
import RTV.Model.Preprocess
/-! Driver handlers for `NumExtract` (C03, the extraction front end for digit literals).
`<ext>` = `<lang>/<Default|Pure>` (a key of `RTV.Gen.NumRegex.allExt`).
  nx.extract <ext> <cps>        -> start:len:tag:textcps;…   `BaseNumberExtractor.extract`, regexes = the digit family
  nx.core <ext> <cps>           -> start:len:tag:textcps;…   the sweep alone (no negative terms, no ambiguity filters)
  nx.find <ext> <idx> <cps>     -> a:b;a:b                   `finditer` spans of family regex number idx | err:KeyError
  nx.fam <ext>                  -> idx,idx,…                 indices of the family regexes
  nx.follower <lang> <cps>      -> 1 | 0 | err:KeyError      `isFollower` of the text after a literal (follower list of <lang>)
-/
namespace RTV.Drv.Nx
open RTV.Drv RTV.Py RTV.Re RTV.Span RTV.NumExtract

def lookupExt (n : String) : Option Ext := (RTV.Gen.NumRegex.allExt.find? (·.1 == n)).map (·.2)

def isSpace (c : Nat) : Bool := inRangesArr RTV.Gen.spaceRanges c

def showER (e : Ext) (r : ER) : String :=
  s!"{r.start}:{r.len}:{e.tags.getD r.tag "?"}:{showCps r.text}"

def showERs (e : Ext) (l : List ER) : String := ";".intercalate (l.map (showER e))

def hExtract : Handler
  | [n, s] => match lookupExt n with
    | some e => showERs e (extract RTV.Gen.reTables isSpace e (parseCps s))
    | none => "err:KeyError"
  | _ => "bad-op"

def hCore : Handler
  | [n, s] => match lookupExt n with
    | some e => showERs e (extractCore RTV.Gen.reTables isSpace e.fam (parseCps s))
    | none => "err:KeyError"
  | _ => "bad-op"

def hFind : Handler
  | [n, i, s] => match lookupExt n with
    | some e => match e.fam.find? (·.1 == parseNat i) with
      | some p => ";".intercalate ((findAll RTV.Gen.reTables (parseCps s).toArray p.2).map fun ab => s!"{ab.1}:{ab.2}")
      | none => "err:KeyError"
    | none => "err:KeyError"
  | _ => "bad-op"

def hFam : Handler
  | [n] => match lookupExt n with
    | some e => ",".intercalate (e.fam.map fun p => toString p.1)
    | none => "err:KeyError"
  | _ => "bad-op"

def hFollower : Handler
  | [l, s] => match RTV.Gen.NumFollow.all.find? (·.1 == l) with
    | some p => if isFollower RTV.Gen.reTables (RTV.Preprocess.lowerSimple RTV.Gen.lowerPairs) p.2 (parseCps s) then "1" else "0"
    | none => "err:KeyError"
  | _ => "bad-op"

end RTV.Drv.Nx

namespace RTV.Drv
def dispatchNumExtract (op : String) (args : List String) : Option String :=
  match op with
  | "nx.extract" => some (Nx.hExtract args)
  | "nx.core" => some (Nx.hCore args)
  | "nx.find" => some (Nx.hFind args)
  | "nx.fam" => some (Nx.hFam args)
  | "nx.follower" => some (Nx.hFollower args)
  | _ => none
end RTV.Drv
