import RTV.Drv.Proto
import RTV.Model.Factory
import RTV.Model.Conc
import RTV.Gen.CharTables
import RTV.Gen.Factory
/-! Driver handlers for L9 `Factory` (C17, C02).
  fmap <repaired 0|1> <culture|none>                     -> cps | none
  fspec <culture|none>                                   -> cps | none        (the property's reading, `specCulture`)
  fhist <repaired 0|1> <op> <op> ...                     -> out;out;...
      op fields are separated by `|`, cultures are code points or `none`:
        C|kind|target|options|lazy|identical     G|kind|target|options|type|culture|fb
        W|kind|target|options|type|cjk|culture|fb     F|kind|type|culture|fb|options
        T|kind|type|culture|options              I|kind|target|options|identical
      out: m:<kind>:<type>:<culture>:<options>:<serial> | none | err:ValueError | ok
  froute <repaired> <op>                                 -> cold answer of the request: m:<kind>:<type>:<culture>:<options> | err:ValueError | -
  freg <type> <culture> <type1> <culture1> ...           -> ok:<n> | err:ValueError
  fconc <repaired> <sched: space separated thread ids> <thread0 requests: F-ops separated by `,` or `-`> <thread1 …> ...
                                                         -> thread0 outs (`;`) / thread1 outs / … # <left todo counts>
  fprec <path d|u> <ambient>                             -> effective precision
-/
namespace RTV.Drv
open RTV.Py RTV.Factory RTV.Conc

/-- binary search in a table sorted by key -/
def lookupPairArr (r : Array (Nat × Nat)) (c : Nat) : Option Nat :=
  let rec go (fuel lo hi : Nat) : Option Nat :=
    match fuel with
    | 0 => none
    | fuel + 1 =>
      if lo ≥ hi then none
      else
        let mid := (lo + hi) / 2
        let (a, b) := r[mid]!
        if c < a then go fuel lo mid else if c > a then go fuel (mid + 1) hi else some b
  go (r.size + 1) 0 r.size

/-- `str.lower()` code point by code point from the exported tables (the context rule for U+03A3 is not
modelled; the correspondence does not send it). -/
def lowerCp (c : Nat) : List Nat :=
  match lookupPairArr RTV.Gen.lowerPairs c with
  | some l => [l]
  | none =>
    match RTV.Gen.lowerExpanding.find? (·.1 == c) with
    | some (_, l) => l
    | none => [c]

def pyStrTables : PyStr where
  lower s := s.flatMap lowerCp
  isSpace c := inRangesArr RTV.Gen.spaceRanges c

def drvCfg (repaired : Bool) : Cfg := genCfg pyStrTables repaired

def parseOptStr (f : String) : Option Str := if f == "none" then none else some (parseCps f)
def showOptStr : Option Str → String
  | none => "none"
  | some s => showCps s

def parseOp (f : String) : Option Op :=
  match f.splitOn "|" with
  | ["C", k, tg, o, lz, idn] => some (.construct ⟨parseNat k, parseOptStr tg, parseInt o⟩ (parseBool lz) (parseBool idn))
  | ["G", k, tg, o, t, c, fb] => some (.get ⟨parseNat k, parseOptStr tg, parseInt o⟩ (parseCps t) (parseOptStr c) (parseBool fb))
  | ["W", k, tg, o, t, cjk, c, fb] =>
    some (.getW ⟨parseNat k, parseOptStr tg, parseInt o⟩ (parseCps t) (parseBool cjk) (parseOptStr c) (parseBool fb))
  | ["F", k, t, c, fb, o] => some (.factoryGet (parseNat k) (parseCps t) (parseOptStr c) (parseBool fb) (parseInt o))
  | ["T", k, t, c, o] => some (.tryGet (parseNat k) (parseCps t) (parseOptStr c) (parseInt o))
  | ["I", k, tg, o, idn] => some (.init ⟨parseNat k, parseOptStr tg, parseInt o⟩ (parseBool idn))
  | _ => none

def showId (m : ModelId) : String := s!"m:{m.kind}:{showCps m.type}:{showCps m.culture}:{m.options}"

def showOut : Out → String
  | .model m => s!"{showId m.id}:{m.serial}"
  | .none => "none"
  | .err .valueError => "err:ValueError"
  | .unit => "ok"

def hMap : Handler
  | [r, c] => showOptStr (mapToNearest (parseBool r) pyStrTables RTV.Gen.supportedCultures (parseOptStr c))
  | _ => "bad-op"

def hSpec : Handler
  | [c] => showOptStr (specCulture pyStrTables RTV.Gen.supportedCultures (parseOptStr c))
  | _ => "bad-op"

def hHist : Handler
  | r :: ops =>
    match ops.mapM parseOp with
    | none => "bad-op"
    | some l => ";".intercalate ((run (drvCfg (parseBool r)) State.init l).2.map showOut)
  | _ => "bad-op"

def hRoute : Handler
  | [r, op] =>
    let cfg := drvCfg (parseBool r)
    match parseOp op with
    | none => "bad-op"
    | some o =>
      match request cfg o with
      | none => "-"
      | some (k, t, c, fb, opt) =>
        match route cfg k t c fb opt with
        | .ok m => showId m
        | .error _ => "err:ValueError"
  | _ => "bad-op"

def regPairs : List String → List (Str × Str)
  | t :: c :: rest => (parseCps t, parseCps c) :: regPairs rest
  | _ => []

def hReg : Handler
  | t :: c :: rest =>
    match register (regPairs rest) (parseCps t) (parseCps c) with
    | none => "err:ValueError"
    | some l => s!"ok:{l.length}"
  | _ => "bad-op"

def parseReq (f : String) : Option Req :=
  match f.splitOn "|" with
  | ["F", k, t, c, fb, o] => some ⟨parseNat k, parseCps t, parseOptStr c, parseBool fb, parseInt o⟩
  | _ => none

def hConc : Handler
  | r :: sched :: threads =>
    let cfg := drvCfg (parseBool r)
    let reqLists : List (List Req) := threads.map fun f =>
      if f == "-" || f == "" then [] else (f.splitOn ",").filterMap parseReq
    let reqs : Nat → List Req := fun i => reqLists.getD i []
    let sch := (sched.splitOn " ").filterMap fun x => x.toNat?
    let s := runSched cfg (Sys.start [] 0 reqs) sch
    let n := reqLists.length
    let outs := (List.range n).map fun i => ";".intercalate ((s.threads i).outs.map showOut)
    let left := (List.range n).map fun i => toString (s.threads i).todo.length
    "/".intercalate outs ++ "#" ++ " ".intercalate left
  | _ => "bad-op"

def hPrec : Handler
  | [p, a] => toString (effectivePrec (if p == "d" then .decorated else .undecorated) (parseNat a))
  | _ => "bad-op"

/-- fthreadprec <isImportingThread 0|1> -> `threadPrec`; frununder / fparsevia <path d|u> <ambient> -> the precision the wrapped
computation sees (`runUnder path ambient id`, `parseVia path (fun _ _ p => p) …`): the definitions themselves, not only
`effectivePrec` (audit item 35: no correspondence op; tied in c02 to the real `@precision` decorator and to real threads) -/
def hThreadPrec : Handler
  | [b] => toString (threadPrec (parseBool b))
  | _ => "bad-op"

def hRunUnder : Handler
  | [p, a] => toString (runUnder (if p == "d" then .decorated else .undecorated) (parseNat a) id)
  | _ => "bad-op"

def hParseVia : Handler
  | [p, a] =>
    let f : ModelId → Unit → Nat → Nat := fun _ _ prec => prec
    toString (parseVia (if p == "d" then .decorated else .undecorated) f ⟨0, [], [], 0⟩ () (parseNat a))
  | _ => "bad-op"

def dispatchFactory (op : String) (args : List String) : Option String :=
  match op with
  | "fmap" => some (hMap args)
  | "fspec" => some (hSpec args)
  | "fhist" => some (hHist args)
  | "froute" => some (hRoute args)
  | "freg" => some (hReg args)
  | "fconc" => some (hConc args)
  | "fprec" => some (hPrec args)
  | "fthreadprec" => some (hThreadPrec args)
  | "frununder" => some (hRunUnder args)
  | "fparsevia" => some (hParseVia args)
  | _ => none

end RTV.Drv
