import RTV.Drv.Proto
import RTV.Model.NumCjk
/-! Driver handlers for `RTV.NumCjk` (the whole `CJKNumberParser`; C04 / C03). Prefix `cj.`; `<w>` = `zh` | `ja` | `zhfx` | `jafx` (fx = the repaired point-value variant).
Values on the wire: `i <int>` | `f <sign> <num> <den>` (binary64 as an exact fraction in lowest terms, sign 1 = negative)
| `d <sign> <coeff> <exp>` (Decimal.as_tuple()); errors `err:<Kind>`.
  parse <w> <data cps> <text cps>      (CJKNumberParser.parse)            -> value|resolution cps
  per <w> <data cps> <text cps>        (per_parse)                        -> value|resolution cps
  frac | dou | intp | ord <w> <text>   (frac_parse, dou_parse, int_parse, ord_parse) -> value|resolution cps
  num <w> <text>                       (the 'Num' branch of parse)        -> value|resolution cps
  int <w> <cps>                        (get_int_value)                    -> value
  digit <w> <cps> <power>              (get_digit_value)                  -> value
  point <w> <cps>                      (get_point_value)                  -> value
  part <w> <cps>                       (get_value_from_part)              -> value
  trad | full | unit <w> <cps>         (the three string rewrites)        -> cps
  re <w> <name> <search|find|split> <cps>   (the configuration's regexes) -> i,j;i,j… | none | piece;piece…
  frepr <sign> <num> <den>             (repr(float))                      -> cps
  fop <add|mul|div> <sign num den> <sign num den>                         -> f … | err:OverflowError
  fdec <sign> <num> <den>              (Decimal(float))                   -> d …
  ffromdec <sign> <coeff> <exp>        (float(Decimal))                   -> f … -/
namespace RTV.Drv.NumCjkD
open RTV.Py RTV.Dec RTV.NumCjk RTV.Drv
open RTV.NumCjk (Err)

/-- `zh` / `ja`: the code as first found; `zhfx` / `jafx`: the repaired `add_point_value` variant -/
def cfgOf (w : String) : Cfg :=
  if w == "ja" then jaCfg else if w == "jafx" then jaCfgFx else if w == "zhfx" then zhCfgFx else zhCfg

def showErr : NumCjk.Err → String
  | .keyError => "err:KeyError"
  | .indexError => "err:IndexError"
  | .attributeError => "err:AttributeError"
  | .typeError => "err:TypeError"
  | .zeroDivision => "err:ZeroDivisionError"
  | .decimal => "err:Decimal"
  | .unboundLocal => "err:UnboundLocalError"
  | .overflow => "err:OverflowError"
  | .unmodelled => "err:Unmodelled"

def showF (x : F64) : String := s!"f {if x.neg then 1 else 0} {x.num} {x.den}"

def showN : PyN → String
  | .int v => s!"i {v}"
  | .flt x => showF x

def showV : Val → String
  | .n a => showN a
  | .d x => s!"d {if x.neg then 1 else 0} {x.coeff} {x.exp}"

def showRes : Except NumCjk.Err (Val × Str) → String
  | .ok (v, r) => showV v ++ "|" ++ showCps r
  | .error e => showErr e

def showNRes : Except NumCjk.Err PyN → String
  | .ok v => showN v
  | .error e => showErr e

def parseF (s n d : String) : F64 := ⟨s == "1", parseNat n, parseNat d⟩

def hParse : Handler
  | [w, data, text] => showRes (parse (cfgOf w) (parseCps data) (parseCps text))
  | _ => "bad-op"

def hPer : Handler
  | [w, data, text] => showRes (perParse (cfgOf w) (parseCps data) (parseCps text))
  | _ => "bad-op"

def hText (f : Cfg → Str → Except NumCjk.Err (Val × Str)) : Handler
  | [w, text] => showRes (f (cfgOf w) (parseCps text))
  | _ => "bad-op"

def hN (f : Cfg → Str → Except NumCjk.Err PyN) : Handler
  | [w, text] => showNRes (f (cfgOf w) (parseCps text))
  | _ => "bad-op"

def hDigit : Handler
  | [w, text, power] => showNRes (getDigitValue (cfgOf w) (parseCps text) (parseNat power))
  | _ => "bad-op"

def hStr (f : Cfg → Str → Str) : Handler
  | [w, text] => showCps (f (cfgOf w) (parseCps text))
  | _ => "bad-op"

def reOf (c : Cfg) (name : String) : Option (Option RTV.Re.RE) :=
  match name with
  | "negSign" => some c.negSign
  | "dozen" => some c.dozen
  | "pair" => some c.pair
  | "digitNum" => some c.digitNum
  | "percentage" => some c.percentage
  | "percentageNum" => some c.percentageNum
  | "doubleAndRound" => some c.doubleAndRound
  | "fracSplit" => some c.fracSplit
  | "point" => some c.point
  | "speGetNumber" => some c.speGetNumber
  | "digitalNumber" => some c.digitalNumber
  | _ => none

def hRe : Handler
  | [w, name, how, text] =>
    let c := cfgOf w
    let s := parseCps text
    match reOf c name with
    | none => "bad-op"
    | some r =>
      match how with
      | "search" =>
        match search c r s with
        | .ok (some (i, j)) => s!"{i},{j}"
        | .ok none => "none"
        | .error e => showErr e
      | "find" =>
        match r with
        | none => showErr .attributeError
        | some re => ";".intercalate ((RTV.Re.findAll c.T s.toArray re).map fun m => s!"{m.1},{m.2}")
      | "split" =>
        match split c r s with
        | .ok l => ";".intercalate (l.map showCps)
        | .error e => showErr e
      | _ => "bad-op"
  | _ => "bad-op"

def hFrepr : Handler
  | [s, n, d] => showCps (parseF s n d).repr
  | _ => "bad-op"

def hFop : Handler
  | [op, s1, n1, d1, s2, n2, d2] =>
    let a := parseF s1 n1 d1
    let b := parseF s2 n2 d2
    let r := match op with
      | "add" => F64.add a b
      | "mul" => F64.mul a b
      | _ => F64.div a b
    match r with
    | some x => showF x
    | none => "err:OverflowError"
  | _ => "bad-op"

def hFdec : Handler
  | [s, n, d] => showV (.d (parseF s n d).toDec)
  | _ => "bad-op"

def hFfromdec : Handler
  | [s, c, e] =>
    match F64.ofDec ⟨s == "1", parseNat c, parseInt e⟩ with
    | some x => showF x
    | none => "err:OverflowError"
  | _ => "bad-op"

def dispatch (op : String) (args : List String) : Option String :=
  match op with
  | "cj.parse" => some (hParse args)
  | "cj.per" => some (hPer args)
  | "cj.frac" => some (hText fracParse args)
  | "cj.dou" => some (hText douParse args)
  | "cj.intp" => some (hText intParse args)
  | "cj.ord" => some (hText ordParse args)
  | "cj.num" => some (hText numParse args)
  | "cj.int" => some (hN getIntValue args)
  | "cj.digit" => some (hDigit args)
  | "cj.point" => some (hN getPointValue args)
  | "cj.part" => some (hN getValueFromPart args)
  | "cj.trad" => some (hStr replaceTrad args)
  | "cj.full" => some (hStr replaceFull args)
  | "cj.unit" => some (hStr replaceUnit args)
  | "cj.re" => some (hRe args)
  | "cj.frepr" => some (hFrepr args)
  | "cj.fop" => some (hFop args)
  | "cj.fdec" => some (hFdec args)
  | "cj.ffromdec" => some (hFfromdec args)
  | _ => none

end RTV.Drv.NumCjkD

namespace RTV.Drv
def dispatchNumCjk (op : String) (args : List String) : Option String := NumCjkD.dispatch op args
end RTV.Drv
