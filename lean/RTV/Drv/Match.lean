import RTV.Drv.Proto
import RTV.Model.Match
import RTV.Gen.CharTables
/-! Driver handlers for L8 `Match` (C16, C05).
  tok <simple|nwu> <cps>                        -> start:len:cps;...
  match <simple|nwu> <n> <phrase cps> <id cps> ... <query cps>   -> start:len:text:id|id;...  or err:IndexError -/
namespace RTV.Drv
open RTV.Py RTV.Match

def pyClass : CharClass where
  isSpace c := inRangesArr RTV.Gen.spaceRanges c
  isDigit c := inRangesArr RTV.Gen.digitRanges c
  isAlpha c := inRangesArr RTV.Gen.alphaRanges c

def pickTok (w : String) : List Nat → List Tok :=
  if w == "nwu" then tokenizeNWU pyClass else tokenizeSimple pyClass

def showTok (t : Tok) : String := s!"{t.start}:{t.len}:{showCps t.text}"

def hTok : Handler
  | [w, s] => ";".intercalate ((pickTok w (parseCps s)).map showTok)
  | _ => "bad-op"

def pairs : List String → List (Str × Str)
  | p :: i :: rest => (parseCps p, parseCps i) :: pairs rest
  | _ => []

def hMatch : Handler
  | w :: n :: rest =>
    let k := parseNat n
    let dict := pairs (rest.take (2 * k))
    match rest.drop (2 * k) with
    | [q] =>
      match matcherRun (pickTok w) dict (parseCps q) with
      | none => "err:IndexError"
      | some rs => ";".intercalate (rs.map fun r =>
          s!"{r.start}:{r.len}:{showCps r.text}:{"|".intercalate (r.ids.map showCps)}")
    | _ => "bad-op"
  | _ => "bad-op"

def dispatchMatch (op : String) (args : List String) : Option String :=
  match op with
  | "tok" => some (hTok args)
  | "match" => some (hMatch args)
  | _ => none

end RTV.Drv
