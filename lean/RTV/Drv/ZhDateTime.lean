import RTV.Drv.Proto
import RTV.Drv.Periods
import RTV.Model.ZhDateTime
/-! Driver handlers for L5 `ZhDateTime` (the Chinese date-time parsers; C08 / C10). A reference is four fields
`Y M D secs`, an absent optional is `-`, a datetime argument is `Y-M-D@secs`, Chinese text is space-separated code points.
Date answer: `timex TAB future TAB past` | `none` | `err:Other`; range answer as `pd.*`
(`timex TAB futureBegin TAB futureEnd TAB pastBegin TAB pastEnd`).
  zh.swiftday cps | zh.sdm cps | zh.sy cps            -> int
  zh.cls cps                                          -> ytd week weekend month year future (six 0/1 flags)
  zh.special Y M D secs swift
  zh.wd this|next|last Y M D secs dow
  zh.bare Y M D secs dow
  zh.sdate Y M D secs day monthRel|- yearRel|-
  zh.ago | zh.agoprefix Y M D secs D|W|MON|Y|O number before after      (prefix = the labelled pre-fix variant)
  zh.cyd | zh.cyp whole d1,d2,…  (a digit `x` = the character is no numeral)   -> int
  zh.oneword Y M D secs cps month|-
  zh.simple | zh.simpleprefix Y M D secs beginDay endDay month|- relSwift isFuture year|-
  zh.dur Y M D secs D|W|M|Y|O num hasPast hasFuture
  zh.year len year0 | zh.y2y begin end | zh.ym year0 monthVal | zh.quarter | zh.quarterprefix year0 q
  zh.season year0|- season                            -> timex
  zh.wom Y M D secs cardinal month year noYear
  zh.dval number unitSeconds -> nat | zh.dtimex lessThanDay numberText letter -> timex
  zh.merge future past hour minute second pm am       -> future TAB past | err:Other
  zh.tot Y M D secs swift hour minute second          -> timexDate TAB value | err:Other -/
namespace RTV.Drv.ZhH
open RTV.Drv RTV.Py RTV.Cal RTV.ZhDT RTV.Drv.PeriodsH

def showD : DRes → String
  | .raises => "err:Other"
  | .noResult => "none"
  | .ok t f p => s!"{toString' t}\t{showDT f}\t{showDT p}"

def parseRel (r : String) : Rel :=
  match r with
  | "this" => .this | "next" => .next | _ => .last

def parseAUnit (u : String) : AUnit :=
  match u with
  | "D" => .D | "W" => .W | "MON" => .MON | "Y" => .Y | _ => .other

def parsePUnit (u : String) : Option RTV.Periods.PerUnit :=
  match u with
  | "D" => some .D | "W" => some .W | "M" => some .M | "Y" => some .Y | _ => none

def parseDigits (f : String) : List (Option Int) :=
  if f == "-" || f == "" then [] else (f.splitOn ",").map fun x => if x == "x" then none else some (parseInt x)

end RTV.Drv.ZhH
namespace RTV.Drv
open RTV.Drv.ZhH RTV.Drv.PeriodsH RTV.ZhDT RTV.Py in
def dispatchZhDateTime (op : String) (args : List String) : Option String :=
  match op, args with
  | "zh.swiftday", [s] => some (toString (swiftDay (parseCps s)))
  | "zh.sdm", [s] => some (toString (swiftDayOrMonth (parseCps s)))
  | "zh.sy", [s] => some (toString (swiftYear (parseCps s)))
  | "zh.cls", [s] =>
    let x := parseCps s
    some (" ".intercalate ([isYearToDate x, isWeekOnly x, isWeekend x, isMonthOnly x, isYearOnly x, isFuture x].map showBool))
  | "zh.special", [y, m, d, s, sw] => some (showD (zhSpecialDay (mkDT y m d s) (parseInt sw)))
  | "zh.wd", [r, y, m, d, s, dow] => some (showD (relWeekday (parseRel r) (mkDT y m d s) (parseNat dow)))
  | "zh.bare", [y, m, d, s, dow] => some (showD (zhBareWeekday (mkDT y m d s) (parseNat dow)))
  | "zh.sdate", [y, m, d, s, day, mr, yr] => some (showD (specialDate (mkDT y m d s) (parseNat day) (optInt mr) (optInt yr)))
  | "zh.ago", [y, m, d, s, u, n, b, a] =>
    some (showD (agoLater (mkDT y m d s) (parseAUnit u) (parseInt n) (parseBool b) (parseBool a)))
  | "zh.agoprefix", [y, m, d, s, u, n, b, a] =>
    some (showD (agoLaterPreFix (mkDT y m d s) (parseAUnit u) (parseInt n) (parseBool b) (parseBool a)))
  | "zh.cyd", [w, ds] => some (toString (convertYearDate (parseInt w) (parseDigits ds)))
  | "zh.cyp", [w, ds] => some (toString (convertYearPeriod (parseInt w) (parseDigits ds)))
  | "zh.oneword", [y, m, d, s, src, mo] => some (showRes (oneWord (mkDT y m d s) (parseCps src) (optNat mo)))
  | "zh.simple", [y, m, d, s, b, e, mo, rs, fu, yr] =>
    some (showRes (simpleCases (mkDT y m d s) (parseNat b) (parseNat e) (optNat mo) (parseInt rs) (parseBool fu) (optInt yr)))
  | "zh.simpleprefix", [y, m, d, s, b, e, mo, rs, fu, yr] =>
    some (showRes (simpleCasesPreFix (mkDT y m d s) (parseNat b) (parseNat e) (optNat mo) (parseInt rs) (parseBool fu) (optInt yr)))
  | "zh.dur", [y, m, d, s, u, n, p, f] =>
    some (showRes (commonDuration (mkDT y m d s) (parsePUnit u) (parseInt n) (parseBool p) (parseBool f)))
  | "zh.year", [l, yr] => some (showRes (zhParseYear (parseNat l) (parseInt yr)))
  | "zh.y2y", [b, e] => some (showRes (yearToYear (parseInt b) (parseInt e)))
  | "zh.ym", [yr, mo] => some (showRes (yearAndMonth (parseInt yr) (parseNat mo)))
  | "zh.quarter", [yr, q] => some (showRes (zhQuarter (parseInt yr) (parseNat q)))
  | "zh.quarterprefix", [yr, q] => some (showRes (zhQuarterPreFix (parseInt yr) (parseNat q)))
  | "zh.season", [yr, se] => some (toString' (zhSeasonTimex (optInt yr) (str se)))
  | "zh.wom", [y, m, d, s, c, mo, yr, ny] =>
    some (showRes (zhGetWeekOfMonth (mkDT y m d s) (parseInt c) (parseNat mo) (parseInt yr) (parseBool ny)))
  | "zh.dval", [n, u] => some (toString (durationValue (parseNat n) (parseNat u)))
  | "zh.dtimex", [lt, n, l] => some (toString' (durationTimexZh (parseBool lt) (str n) (parseNat l)))
  | "zh.merge", [f, p, h, mi, se, pm, am] =>
    some (match mergeDateAndTime (parseDT f) (parseDT p) (parseNat h) (parseNat mi) (parseNat se) (parseBool pm) (parseBool am) with
          | none => "err:Other"
          | some (a, b) => s!"{showDT a}\t{showDT b}")
  | "zh.tot", [y, m, d, s, sw, h, mi, se] =>
    some (match timeOfToday (mkDT y m d s) (parseInt sw) (parseNat h) (parseNat mi) (parseNat se) with
          | none => "err:Other"
          | some (t, v) => s!"{toString' t}\t{showDT v}")
  | _, _ => none

end RTV.Drv
