import RTV.Drv.Proto
import RTV.Model.Cal
import RTV.Model.DateUtils
/-! Driver handlers for L5 `Cal` / `DateUtils` (C08, C09). Dates travel as `Y-M-D`, datetimes as `Y-M-D@secs`,
exceptions as `err:Other` (OverflowError / ValueError of date arithmetic).
  cal.ord Y M D                    -> valid(0/1) TAB ordinal
  cal.oford N                      -> Y-M-D TAB weekday TAB isoweekday TAB isoYear,isoWeek,isoDay
  cal.dd Y M D years months days   -> Y-M-D | err:Other
  du.this|du.next|du.last Y M D secs dow          -> Y-M-D@secs | err:Other
  du.gen|du.genfixed noYear Y M D secs year m d   -> future;past   (genfixed = repaired variant: compares dates)
  du.ago D|W|MON|Y num Y M D secs isFuture        -> timex TAB value | err:Other
  du.special Y M D secs swift                     -> timex TAB value | err:Other
  du.wd next|this|last Y M D secs dow             -> timex TAB value | err:Other
  du.bare Y M D secs dow                          -> timex TAB future TAB past | err:Other
  du.week|du.month|du.year|du.monthprefix Y M D secs swift  -> timex TAB begin TAB end | err:Other
        (du.month = current code, du.monthprefix = the code before d8aa8bf73, du.monthfixed = alias of du.month)
  du.hms H|M|S num Y M D secs isFuture            -> timex TAB value | err:Other
  du.weekp Y M D secs swift early mid late        -> timex TAB begin TAB end | err:Other
  du.weekend|du.weekendprefix Y M D secs swift    -> timex TAB begin TAB end | err:Other   (prefix = before 10db50e3c)
  du.monthp|du.yearp Y M D secs swift early late  -> timex TAB begin TAB end | err:Other
  du.ytd Y M D secs                               -> timex TAB begin TAB end
  du.mtd|du.mtdprefix Y M D secs                  -> timex TAB futureBegin TAB pastBegin TAB end  (prefix = before f19a69b3f)
  du.restof W|MON|Y Y M D secs                    -> timex TAB begin TAB end | none | err:Other
  du.md Y M D secs m d                            -> timex TAB future TAB past
  du.nwm|du.nwmprefix Y M D secs m d (prefix = before 151a4ac9b)                        -> timex TAB future TAB past | err:Other  (parse_number_with_month)
  du.mdfixed Y M D secs m d                       -> future;past (repaired generate_dates) -/
namespace RTV.Drv.CalH
open RTV.Drv RTV.Py RTV.Cal RTV.DateUtils

def showDate (x : Date) : String := s!"{x.y}-{x.m}-{x.d}"
def showDT (x : DateTime) : String := s!"{x.date.y}-{x.date.m}-{x.date.d}@{x.secs}"
def showStr (s : Str) : String := toString' s
def mkDT (y m d s : String) : DateTime := ⟨⟨parseNat y, parseNat m, parseNat d⟩, parseNat s⟩
def errOther : String := "err:Other"

def hCalOrd : Handler
  | [y, m, d] =>
    let x : Date := ⟨parseNat y, parseNat m, parseNat d⟩
    s!"{showBool x.valid}\t{x.ord}"
  | _ => "bad-op"

def hCalOfOrd : Handler
  | [n] =>
    let n := parseNat n
    let x := Date.ofOrd n
    let (iy, iw, id) := isoCalendar x
    s!"{showDate x}\t{weekdayOrd n}\t{isoWeekdayOrd n}\t{iy},{iw},{id}"
  | _ => "bad-op"

def hCalDD : Handler
  | [y, m, d, ys, ms, ds] =>
    match datedeltaAdd ⟨parseNat y, parseNat m, parseNat d⟩ (parseInt ys) (parseInt ms) (parseInt ds) with
    | some r => showDate r
    | none => errOther
  | _ => "bad-op"

def hThisNextLast (f : DateTime → Nat → Option DateTime) : Handler
  | [y, m, d, s, dow] =>
    match f (mkDT y m d s) (parseNat dow) with
    | some r => showDT r
    | none => errOther
  | _ => "bad-op"

def hGen : Handler
  | [ny, y, m, d, s, yr, mm, dd] =>
    let (f, p) := generateDates (parseBool ny) (mkDT y m d s) (parseInt yr) (parseNat mm) (parseNat dd)
    s!"{showDT f};{showDT p}"
  | _ => "bad-op"

def hGenFixed : Handler
  | [ny, y, m, d, s, yr, mm, dd] =>
    let (f, p) := generateDatesFixed (parseBool ny) (mkDT y m d s) (parseInt yr) (parseNat mm) (parseNat dd)
    s!"{showDT f};{showDT p}"
  | _ => "bad-op"

def parseUnit (u : String) : Option DUnit :=
  match u with
  | "D" => some .D | "W" => some .W | "MON" => some .MON | "Y" => some .Y | _ => none

def show2 : Option (Str × DateTime) → String
  | some (t, v) => s!"{showStr t}\t{showDT v}"
  | none => errOther

def show3 : Option (Str × DateTime × DateTime) → String
  | some (t, a, b) => s!"{showStr t}\t{showDT a}\t{showDT b}"
  | none => errOther

def hAgo : Handler
  | [u, num, y, m, d, s, fut] =>
    match parseUnit u with
    | some u => show2 (getDateResult u (parseNat num) (mkDT y m d s) (parseBool fut))
    | none => "bad-op"
  | _ => "bad-op"

def hSpecial : Handler
  | [y, m, d, s, sw] => show2 (specialDay (mkDT y m d s) (parseInt sw))
  | _ => "bad-op"

def hWd : Handler
  | [k, y, m, d, s, dow] =>
    let r := mkDT y m d s
    let w := parseNat dow
    match k with
    | "next" => show2 (nextWeekday r w)
    | "this" => show2 (thisWeekday r w)
    | "last" => show2 (lastWeekday r w)
    | _ => "bad-op"
  | _ => "bad-op"

def hBare : Handler
  | [y, m, d, s, dow] => show3 (bareWeekday (mkDT y m d s) (parseNat dow))
  | _ => "bad-op"

def hPeriod (f : DateTime → Int → Option (Str × DateTime × DateTime)) : Handler
  | [y, m, d, s, sw] => show3 (f (mkDT y m d s) (parseInt sw))
  | _ => "bad-op"

def hHms : Handler
  | [u, num, y, m, d, s, fut] =>
    let r := mkDT y m d s
    match u with
    | "H" => show2 (getDateTimeResult .H (parseNat num) r (parseBool fut))
    | "M" => show2 (getDateTimeResult .M (parseNat num) r (parseBool fut))
    | "S" => show2 (getDateTimeResult .S (parseNat num) r (parseBool fut))
    | _ => "bad-op"
  | _ => "bad-op"

def hWeekP : Handler
  | [y, m, d, s, sw, e, mi, l] => show3 (weekPeriodP (mkDT y m d s) (parseInt sw) (parseBool e) (parseBool mi) (parseBool l))
  | _ => "bad-op"

def hPeriodEL (f : DateTime → Int → Bool → Bool → Option (Str × DateTime × DateTime)) : Handler
  | [y, m, d, s, sw, e, l] => show3 (f (mkDT y m d s) (parseInt sw) (parseBool e) (parseBool l))
  | _ => "bad-op"

def hYtd : Handler
  | [y, m, d, s] => show3 (some (yearToDate (mkDT y m d s)))
  | _ => "bad-op"

def hMtd (f : DateTime → Str × DateTime × DateTime × DateTime) : Handler
  | [y, m, d, s] =>
    let (t, f, p, e) := f (mkDT y m d s)
    s!"{showStr t}\t{showDT f}\t{showDT p}\t{showDT e}"
  | _ => "bad-op"

def hRestOf : Handler
  | [u, y, m, d, s] =>
    let r := mkDT y m d s
    let res := match u with
      | "W" => some (restOf .W r) | "MON" => some (restOf .MON r) | "Y" => some (restOf .Y r) | _ => none
    match res with
    | none => "bad-op"
    | some none => errOther
    | some (some none) => "none"
    | some (some (some x)) => show3 (some x)
  | _ => "bad-op"

def hMd : Handler
  | [y, m, d, s, mm, dd] => show3 (some (monthDayNoYear (mkDT y m d s) (parseNat mm) (parseNat dd)))
  | _ => "bad-op"

def hNwm : Handler
  | [y, m, d, s, mm, dd] => show3 (numberWithMonthPreFix (mkDT y m d s) (parseNat mm) (parseNat dd))
  | _ => "bad-op"

def hNwmFixed : Handler
  | [y, m, d, s, mm, dd] => show3 (numberWithMonth (mkDT y m d s) (parseNat mm) (parseNat dd))
  | _ => "bad-op"

def hMdFixed : Handler
  | [y, m, d, s, mm, dd] =>
    let r := mkDT y m d s
    let (f, p) := generateDatesFixed true r r.date.y (parseNat mm) (parseNat dd)
    s!"{showDT f};{showDT p}"
  | _ => "bad-op"

end RTV.Drv.CalH
namespace RTV.Drv
open RTV.Drv.CalH RTV.DateUtils in
def dispatchCal (op : String) (args : List String) : Option String :=
  match op with
  | "cal.ord" => some (hCalOrd args)
  | "cal.oford" => some (hCalOfOrd args)
  | "cal.dd" => some (hCalDD args)
  | "du.this" => some (hThisNextLast DateUtils.this args)
  | "du.next" => some (hThisNextLast DateUtils.next args)
  | "du.last" => some (hThisNextLast DateUtils.last args)
  | "du.gen" => some (hGen args)
  | "du.genfixed" => some (hGenFixed args)
  | "du.ago" => some (hAgo args)
  | "du.special" => some (hSpecial args)
  | "du.wd" => some (hWd args)
  | "du.bare" => some (hBare args)
  | "du.week" => some (hPeriod weekPeriod args)
  | "du.month" => some (hPeriod monthPeriod args)
  | "du.monthfixed" => some (hPeriod monthPeriod args)
  | "du.monthprefix" => some (hPeriod monthPeriodPreFix args)
  | "du.hms" => some (hHms args)
  | "du.weekp" => some (hWeekP args)
  | "du.weekend" => some (hPeriod weekendPeriod args)
  | "du.weekendfixed" => some (hPeriod weekendPeriod args)
  | "du.weekendprefix" => some (hPeriod weekendPeriodPreFix args)
  | "du.monthp" => some (hPeriodEL monthPeriodP args)
  | "du.yearp" => some (hPeriodEL yearPeriodP args)
  | "du.ytd" => some (hYtd args)
  | "du.mtd" => some (hMtd monthToDate args)
  | "du.mtdprefix" => some (hMtd monthToDatePreFix args)
  | "du.restof" => some (hRestOf args)
  | "du.year" => some (hPeriod yearPeriod args)
  | "du.md" => some (hMd args)
  | "du.mdfixed" => some (hMdFixed args)
  | "du.nwm" => some (hNwmFixed args)
  | "du.nwmfixed" => some (hNwmFixed args)
  | "du.nwmprefix" => some (hNwm args)
  | _ => none

end RTV.Drv
