import RTV.Drv.Proto
import RTV.Model.NumCfg
import RTV.Model.Spell
import RTV.Model.SpellEu
import RTV.Model.SpellCjk
import RTV.Gen.NumDigits
import RTV.Gen.CharTables
/-! Driver handlers for L3 `Dec` and L4 `Num` (C03, C04). Every operation name carries the prefix `n.`
  dec <add|mul|div> <p> <neg> <coeff> <exp> <neg> <coeff> <exp>   -> neg coeff exp | err:ZeroDivisionError
  decstr <neg> <coeff> <exp>                                      -> cps of str(Decimal)
  fmt <culture> <cps of str(value)>                               -> cps of CultureInfo.format
  dv <culture> <p> <cps> <power>                                  -> neg coeff exp | err:<Kind>
  dres <culture> <p> <cps>      (digit literal -> resolution)     -> cps | err:<Kind>
  pres <culture> <p> <cps>      (percentage parser, number text)  -> cps | err:<Kind>
  cjkpres <culture> <p> <cps>   (CJK per_parse 'Num', text before %) -> cps | err:<Kind>
  floatrepr <neg> <coeff> <exp> (repr(float(d)), <= 15 digits)   -> cps
  giv <culture> <fx> <tok cps>...  (__get_int_value; fx = 1: index-0 scan variant) -> n | err:<Kind>
  tres <culture> <fx> <p> <tok cps>...                                 -> cps | err:<Kind>
  rcn <culture> <cps>           (resolve_composite_number)        -> n
  nts <tok cps>...              (English normalize_token_set)     -> tok;tok;...
  spell <n> <andHundred> <andFinal> <hyphen> <ord>                -> text cps | tok;tok;...
  spelleu <es|fr|pt|de|it|nl> <n>  (n < 1000; es pt de nl: n < 10^6)                  -> text cps | tok;tok;...
  spellcjk <zh|ja> <n>          (n < 10000)                       -> text cps
  cjk <zh|ja> <cps>             (CJK get_int_value core)          -> n
  cfg <culture>                                                   -> decSep nonDecSep multiDec nonStd lf -/
namespace RTV.Drv.NumD
open RTV.Py RTV.Dec RTV.Num RTV.Drv

def pyDigits : DigitTab where
  isDigit c := inRangesArr RTV.Gen.digitRanges c
  value c := (RTV.Gen.NumDigits.table.find? fun (lo, hi, _) => lo ≤ c && c ≤ hi).bind fun (_, _, b) => b.map (c - ·)

def pySpace (c : Nat) : Bool := inRangesArr RTV.Gen.spaceRanges c

def showDec (d : Dec) : String := s!"{if d.neg then 1 else 0} {d.coeff} {d.exp}"

def parseDec (n c e : String) : Dec := ⟨n == "1", parseNat c, parseInt e⟩

def showErr : Err → String
  | .indexError => "err:IndexError"
  | .zeroDiv => "err:ZeroDivisionError"
  | .invalid => "err:ValueError"
  | .keyError => "err:KeyError"

def showRes : Res → String
  | .ok n => toString n
  | .err e => showErr e
  | .fuel => "err:Other"

def withCulture (code : String) (f : Culture → String) : String :=
  match cultureOf (parseCps code) with
  | some c => f c
  | none => "bad-culture"

def hDec : Handler
  | [op, p, an, ac, ae, bn, bc, be] =>
    let a := parseDec an ac ae
    let b := parseDec bn bc be
    let p := parseNat p
    match op with
    | "add" => showDec (Dec.add p a b)
    | "mul" => showDec (Dec.mul p a b)
    | "div" => match Dec.div p a b with
      | some d => showDec d
      | none => "err:ZeroDivisionError"
    | _ => "bad-op"
  | _ => "bad-op"

def hDecStr : Handler
  | [n, c, e] => showCps (Dec.toStr (parseDec n c e))
  | _ => "bad-op"

def hFmt : Handler
  | [cu, s] => withCulture cu fun c => showCps (Dec.formatStr c.longFormat (parseCps s))
  | _ => "bad-op"

def hDv : Handler
  | [cu, p, s, pw] => withCulture cu fun c =>
    match digitalValue (parseNat p) pyDigits c.sep (parseCps s) (parseNat pw) with
    | .ok d => showDec d
    | .error e => showErr e
  | _ => "bad-op"

def hDres : Handler
  | [cu, p, s] => withCulture cu fun c =>
    match digitResolution (parseNat p) pyDigits c.sep c.longFormat (parseCps s) with
    | .ok r => showCps r
    | .error e => showErr e
  | _ => "bad-op"

def hPres : Handler
  | [cu, p, s] => withCulture cu fun c =>
    match percentResolution (parseNat p) pyDigits c.sep c.longFormat pySpace (parseCps s) with
    | .ok r => showCps r
    | .error e => showErr e
  | _ => "bad-op"

def hCjkPres : Handler
  | [cu, p, s] => withCulture cu fun c =>
    match cjkPercentResolution (parseNat p) pyDigits c.sep c.longFormat [45, 0xFF0D, 0x8D1F, 0x8CA0] (parseCps s) with
    | .ok r => showCps r
    | .error e => showErr e
  | _ => "bad-op"

def hFloatRepr : Handler
  | [n, c, e] => showCps (Dec.floatRepr (parseDec n c e))
  | _ => "bad-op"

def hGiv : Handler
  | cu :: fx :: toks => withCulture cu fun c => showRes (getIntValue (parseBool fx) pyDigits c.lang (toks.map parseCps))
  | _ => "bad-op"

def hTres : Handler
  | cu :: fx :: p :: toks => withCulture cu fun c =>
    match textResolution (parseBool fx) (parseNat p) pyDigits c.lang c.longFormat (toks.map parseCps) with
    | (.ok _, s) => showCps s
    | (r, _) => showRes r
  | _ => "bad-op"

def hRcn : Handler
  | [cu, s] => withCulture cu fun c => toString (resolveComposite c.lang (parseCps s))
  | _ => "bad-op"

def hNts : Handler
  | toks =>
    let ts := toks.map parseCps
    ";".intercalate ((normalizeTokenSetEn en.lang.ordinal (ts.length + 1) ts).map showCps)

def hSpell : Handler
  | [n, a, f, h, o] =>
    let v : Variant := ⟨parseBool a, parseBool f, parseBool h⟩
    let ps := pieces v (parseBool o) (parseNat n)
    -- the token list through the very functions the C04 theorems name (`spell` / `spellOrd`; audit item 35)
    let toks := if parseBool o then spellOrd (parseNat n) v else spell (parseNat n) v
    showCps (joinPieces ps) ++ "|" ++ ";".intercalate (toks.map showCps)
  | _ => "bad-op"

def hSpellEu : Handler
  | [cu, n] =>
    let sp : Option EuSpell := match cu with
      | "es" => some esSpell | "fr" => some frSpell | "pt" => some ptSpell
      | "de" => some deSpell | "it" => some itSpell | "nl" => some nlSpell | _ => none
    let big : Option EuBig := match cu with
      | "es" => some esBig | "pt" => some ptBig | "de" => some deBig | "nl" => some nlBig | _ => none
    match sp, big with
    | _, some b => let r := spellEuAll b (parseNat n); showCps r.1 ++ "|" ++ ";".intercalate (r.2.map showCps)
    | some s, none => let r := spellEu s (parseNat n); showCps r.1 ++ "|" ++ ";".intercalate (r.2.map showCps)
    | none, none => "bad-culture"
  | _ => "bad-op"

def hSpellCjk : Handler
  | [w, n] => showCps (if w == "ja" then spellJa (parseNat n) else spellZh (parseNat n))
  | _ => "bad-op"

def hCjk : Handler
  | [w, s] => toString (cjkIntValue pyDigits (if w == "ja" then jaCjk else zhCjk) (parseCps s))
  | _ => "bad-op"

def hCfg : Handler
  | [cu] => withCulture cu fun c =>
    s!"{c.sep.decSep} {c.sep.nonDecSep} {showBool c.sep.multiDec} {showBool c.sep.nonStdVariant} {showOpt (fun (a, b) => s!"{a},{b}") c.longFormat}"
  | _ => "bad-op"

def dispatch (op : String) (args : List String) : Option String :=
  match op with
  | "n.dec" => some (hDec args)
  | "n.decstr" => some (hDecStr args)
  | "n.fmt" => some (hFmt args)
  | "n.dv" => some (hDv args)
  | "n.dres" => some (hDres args)
  | "n.pres" => some (hPres args)
  | "n.cjkpres" => some (hCjkPres args)
  | "n.floatrepr" => some (hFloatRepr args)
  | "n.giv" => some (hGiv args)
  | "n.tres" => some (hTres args)
  | "n.rcn" => some (hRcn args)
  | "n.nts" => some (hNts args)
  | "n.spell" => some (hSpell args)
  | "n.spelleu" => some (hSpellEu args)
  | "n.spellcjk" => some (hSpellCjk args)
  | "n.cjk" => some (hCjk args)
  | "n.cfg" => some (hCfg args)
  | _ => none

end RTV.Drv.NumD

namespace RTV.Drv
def dispatchNum (op : String) (args : List String) : Option String := NumD.dispatch op args
end RTV.Drv
