import RTV.Drv.Proto
import RTV.Model.WellFormed
import RTV.Model.Assemble
/-! Driver handlers for the C10/C11 spec predicates.
  wf <typeName cps> <n> (<type> <timex> <value|?> <start|?> <end|?>)*
      -> `<typeNameOK>` then per value ` <shapeOK><definiteOK><tripleOK><sentinelOK>` (bits)
  fmtdate y m d -> cps ; fmttime h m s -> cps ; tspan secs -> cps
  assemble <dtype> <timex> <mod> <hasMod 0|1> <past: single|? start|? end|? duration|?> <future: the same four>
      -> `err:KeyError` | <type name cps> TAB (<type>~<timex>~<value>~<start>~<end>) joined by `;` (a field: `absent` | `null` | cps) -/
namespace RTV.Drv
open RTV.WF RTV.Cal

def optField (f : String) : Option Str := if f == "?" then none else some (parseCps f)

def takeValues : Nat → List String → List Value
  | n + 1, t :: x :: v :: s :: e :: rest =>
    ⟨parseCps t, parseCps x, optField v, optField s, optField e⟩ :: takeValues n rest
  | _, _ => []

def bit (b : Bool) : String := if b then "1" else "0"

def showAValue (v : AValue) : String :=
  let f (o : Option (Option Str)) : String := match o with
    | none => "absent" | some none => "null" | some (some s) => showCps s
  "~".intercalate [showCps v.type, showCps v.timex, f v.value, f v.start, f v.stop]

def dispatchWF (op : String) (args : List String) : Option String :=
  match op, args with
  | "assemble", [t, x, m, hm, p1, p2, p3, p4, f1, f2, f3, f4] =>
    let slot : ASlot := ⟨parseCps t, parseCps x, parseCps m, ⟨optField p1, optField p2, optField p3, optField p4⟩,
                         ⟨optField f1, optField f2, optField f3, optField f4⟩⟩
    (match resolveSlot slot (hm == "1") with
     | none => some "err:KeyError"
     | some vs => some (showCps (slotTypeName slot (hm == "1")) ++ "\t" ++ ";".intercalate (vs.map showAValue)))
  | "wf", tn :: n :: rest =>
    let vs := takeValues (parseNat n) rest
    let head := bit (typeNameOK (parseCps tn) vs)
    some (head ++ String.join (vs.map fun v => " " ++ bit (shapeOK v) ++ bit (definiteOK v) ++ bit (tripleOK v.timex v.start v.stop) ++ bit (sentinelOK v)))
  | "fmtdate", [y, m, d] => some (showCps (formatDate ⟨parseNat y, parseNat m, parseNat d⟩))
  | "fmttime", [h, m, s] => some (showCps (formatTime (parseNat h) (parseNat m) (parseNat s)))
  | "fmtdt", [y, mo, d, h, m, s] => some (showCps (formatDateTime ⟨parseNat y, parseNat mo, parseNat d⟩ (parseNat h) (parseNat m) (parseNat s)))
  | "tspan", [secs] => some (showCps (luisTimeSpan (parseNat secs)))
  | "durtimex", [n, code] => some (showCps (durationTimex (parseNat n) (parseCps code)) ++ " " ++
      (match codeSeconds (parseCps code) with | some k => toString (parseNat n * k) | none => "none"))
  | "addperiod", [m, a, b] =>
    let show2 (o : Option (Option Str)) : String := match o with
      | none => "absent" | some none => "null" | some (some s) => showCps s
    let (s, e) := addPeriod (parseCps m) (optField a) (optField b)
    some (show2 s ++ "\t" ++ show2 e)
  -- periodvalue <type> <timex> <mod> <start|?> <end|?> -> none | type~timex~start~end (a field: `absent` | cps): `periodValue`,
  -- the value a period slot contributes (audit item 35: no correspondence op; tied to `_generate_from_resolution` in c11)
  | "periodvalue", [t, x, m, a, b] =>
    some (match periodValue (parseCps t) (parseCps x) (parseCps m) (optField a) (optField b) with
      | none => "none"
      | some v =>
        let f (o : Option Str) : String := match o with | none => "absent" | some s => showCps s
        "~".intercalate [showCps v.type, showCps v.timex, f v.start, f v.stop])
  | "dettype", [t, m] => some (showCps (determineType (parseCps t) (m == "1")))
  | "ressingle", [t, x, p, f] => some (";".intercalate ((resolveSingle (parseCps t) (parseCps x) (parseCps p) (parseCps f)).map
      fun v => showCps (v.value.getD [])))
  | _, _ => none

end RTV.Drv
