import RTV.Drv.DtExtract
import RTV.Model.DtExtract2
/-! Driver handlers for L2c `DtExtract2` (C01, C12); same encoding as `RTV.Drv.DtExtract` (`dx.*`): lists `,`, fields `:`,
`-` = empty, optional match `k:s:e`, optional ConditionalMatch `k:idx:len:succ`, records with sub-lists use `/`, lists of
records `|`. `<v>` = `basicMatchStart:mdtLenFixed:rangeRstrip`, `<w>` = `yearPeriodEnd:centuryOffset:dtpDurShift`.
  dy.century <w> <n> <start:len:ws:k:s:e:first,..>
  dy.year    <w> <s:e:keep,..>
  dy.single  <dates> <ords> <calls|calls..>   calls = <k:s:e:edge:rfind:inPrefix,..> per point   -> tokens | err:AttributeError
  dy.complex <start:len,..> <start:len,..>                                      -> start:len,..
  dy.first   <idx:s:e:keep,..>
  dy.tppoints <times> <nums> <ending> <c,..>                                    -> start:len,..
  dy.tpmerge <v> <times> <nums> <ending> <c,..> <pair facts as dx.range>
  dy.dtp2    <dates> <periods> <ok,..>
  dy.dtpdur  <w> <lead> <f|f..>   f = start/len/bothEmpty/k:s:e/seg/first/unit/cm/cm/nums/plen/nid/dateUnitAfter/cm/cm/cm
  dy.tod     <n> <spec> <tod|..> <adjB|..> <adjA|..>   tod = start/len/k:s:e/todS/todLen/blank1/pause1/k:s:e/k:s:e/k:s:e/rest2Blank/mid2Space/pause2
                                            adjB = key/<start:len:gap:ok,..>   adjA = key/<start:len:ok,..>
  dy.rel     <rel> <rest>
  dy.prefix  <start:len:k:s:e,..>          dy.eachdur <start:len:k:s:e,..>
  dy.dws     <n> <dates> <times> <ok,..> <k:s:e,..>                              -> tokens | err:IndexError
  dy.everyday <start:len:useBefore:k:s:e,..>
  dy.each    <cut|..> <wd|..>   cut = s:e/<start:len,..>   wd = s:e/plen/<start:len:inText,..> -/
namespace RTV.Drv.Dy
open RTV.Drv RTV.Py RTV.DtExtract RTV.DtExtract2 RTV.Drv.Dx

def pV2 (f : String) : V2 :=
  match f.splitOn ":" with
  | [a, b, c] => ⟨pB a, pB b, pB c⟩
  | _ => V2.current

def pEnts (f : String) : List Ent :=
  (items f).filterMap fun
    | [s, l] => some ⟨parseInt s, parseInt l⟩
    | _ => none

def pBools (f : String) : List Bool :=
  (items f).filterMap fun
    | [x] => some (pB x)
    | _ => none

def pPairFacts (f : String) : List PairFact :=
  (items f).filterMap fun
    | [t, c, fm, fi, bm, bi, am, ai, ld] =>
      some (⟨pB t, pB c, ⟨pB fm, parseInt fi⟩, ⟨pB bm, parseInt bi⟩, ⟨pB am, parseInt ai⟩, parseInt ld⟩ : PairFact)
    | _ => none

def hCentury : Handler
  | [w, n, fs] =>
    showToks (centurySuffix (pV2 w) (parseInt n) ((items fs).filterMap fun
      | [start, len, ws, k, s, e, first] => some ⟨⟨parseInt start, parseInt len⟩, parseInt ws, optMt k s e, parseInt first⟩
      | _ => none))
  | _ => "bad-op"

def hYear : Handler
  | [w, ms] =>
    showToks (yearPeriod (pV2 w) ((items ms).filterMap fun
      | [s, e, k] => some (⟨parseInt s, parseInt e⟩, pB k)
      | _ => none))
  | _ => "bad-op"

def pCalls (f : String) : List RegexTokFact :=
  (items f).filterMap fun
    | [k, s, e, edge, rfind, ip] => some ⟨optMt k s e, pB edge, parseInt rfind, pB ip⟩
    | _ => none

/-- `dy.single <dates> <ords> <calls|calls..>`: the i-th `calls` segment belongs to the i-th point. -/
def hSingle : Handler
  | [d, o, segs] =>
    let pts := singlePoints (pEnts d) (pEnts o)
    let cs := (recs segs).map pCalls
    if pts.length != cs.length then s!"bad-segments:{pts.length}:{cs.length}"
    else
      match singleTimePoint (pts.zip cs) with
      | some ts => showToks ts
      | none => "err:AttributeError"
  | _ => "bad-op"

def hComplex : Handler
  | [d, s] => showEnts (complexInputs (pEnts d) (pEnts s))
  | _ => "bad-op"

def hFirst : Handler
  | [fs] =>
    showToks (firstOccToks ((items fs).filterMap fun
      | [idx, s, e, k] => some (parseInt idx, ⟨parseInt s, parseInt e⟩, pB k)
      | _ => none))
  | _ => "bad-op"

def hTpPoints : Handler
  | [t, nu, e, c] => showEnts (tpPoints (pEnts t) (pEnts nu) (pB e) (pBools c))
  | _ => "bad-op"

def hTpMerge : Handler
  | [v, t, nu, e, c, fs] =>
    showToks (tpMergeTwoTimePoints (pVariant v) (pEnts t) (pEnts nu) (pB e) (pBools c) (pPairFacts fs))
  | _ => "bad-op"

def hDtp2 : Handler
  | [d, p, oks] =>
    let l := pBools oks
    showToks (dtpDateWithTimePeriod (pEnts d) (pEnts p) (fun i => l.getD i false))
  | _ => "bad-op"

def pDtpDur (f : String) : Option DtpDurFact :=
  match f.splitOn "/" with
  | [start, len, be, wm, seg, first, unit, prev, next, nums, plen, nid, dua, ps, ns, fs] =>
    some ⟨⟨parseInt start, parseInt len⟩, pB be, fOptMt wm, pB seg, parseInt first, pB unit, fOptCM prev, fOptCM next,
      pEnts nums, parseInt plen, pB nid, pB dua, fOptCM ps, fOptCM ns, fOptCM fs⟩
  | _ => none

def hDtpDur : Handler
  | [w, lead, fs] =>
    let l := (recs fs).map pDtpDur
    if l.any Option.isNone then "bad-op" else showToks (dtpMatchDurationV (pV2 w) (parseInt lead) (l.filterMap id))
  | _ => "bad-op"

def pTod (f : String) : Option TodFact :=
  match f.splitOn "/" with
  | [start, len, m1, todS, todLen, b1, p1, am, pm, m2, r2, ms2, p2] =>
    some ⟨⟨parseInt start, parseInt len⟩, fOptMt m1, parseInt todS, parseInt todLen, pB b1, pB p1, fOptMt am, fOptMt pm,
      fOptMt m2, pB r2, pB ms2, pB p2⟩
  | _ => none

/-- `adjB` = `key/start:len:gap:ok,..` records, `adjA` = `key/start:len:ok,..` records -/
def pAdjB (f : String) : List (Int × List (Ent × Int × Bool)) :=
  (recs f).filterMap fun r =>
    match r.splitOn "/" with
    | [k, l] => some (parseInt k, (items l).filterMap fun
        | [s, ln, g, ok] => some ((⟨parseInt s, parseInt ln⟩ : Ent), parseInt g, pB ok)
        | _ => none)
    | _ => none

def pAdjA (f : String) : List (Int × List (Ent × Bool)) :=
  (recs f).filterMap fun r =>
    match r.splitOn "/" with
    | [k, l] => some (parseInt k, (items l).filterMap fun
        | [s, ln, ok] => some ((⟨parseInt s, parseInt ln⟩ : Ent), pB ok)
        | _ => none)
    | _ => none

def hTod : Handler
  | [n, spec, tods, ab, aa] =>
    let t := (recs tods).map pTod
    if t.any Option.isNone then "bad-op"
    else showToks (dtpTimeOfDay (parseInt n) (pMts spec) (t.filterMap id) ⟨pAdjB ab, pAdjA aa⟩)
  | _ => "bad-op"

def hRel : Handler
  | [a, b] => showToks (dtpRelativeUnit (pMts a) (pMts b))
  | _ => "bad-op"

def pEntMt (f : String) : List (Ent × Option Mt) :=
  (items f).filterMap fun
    | [start, len, k, s, e] => some (⟨parseInt start, parseInt len⟩, optMt k s e)
    | _ => none

def hPrefix : Handler
  | [fs] => showToks (dtpPeriodPrefix (pEntMt fs))
  | _ => "bad-op"

def hEachDur : Handler
  | [fs] => showToks (setEachDuration (pEntMt fs))
  | _ => "bad-op"

def hDws : Handler
  | [n, d, t, valid, wid] =>
    let w := (items wid).filterMap fun
      | [k, s, e] => some (optMt k s e)
      | _ => none
    match dtpDateWithSuffix (parseInt n) (pEnts d) (pEnts t) (pBools valid) w with
    | some ts => showToks ts
    | none => "err:IndexError"
  | _ => "bad-op"

def hEveryday : Handler
  | [fs] =>
    showToks (setTimeEveryday ((items fs).filterMap fun
      | [start, len, ub, k, s, e] => some (⟨parseInt start, parseInt len⟩, pB ub, optMt k s e)
      | _ => none))
  | _ => "bad-op"

def pMt1 (f : String) : Mt :=
  match f.splitOn ":" with
  | [s, e] => ⟨parseInt s, parseInt e⟩
  | _ => ⟨0, 0⟩

def hEach : Handler
  | [cuts, wds] =>
    let c := (recs cuts).filterMap fun r =>
      match r.splitOn "/" with
      | [m, ers] => some (pMt1 m, pEnts ers)
      | _ => none
    let w := (recs wds).filterMap fun r =>
      match r.splitOn "/" with
      | [m, plen, ers] =>
        some (pMt1 m, parseInt plen, (items ers).filterMap fun
          | [s, l, it] => some ((⟨parseInt s, parseInt l⟩ : Ent), pB it)
          | _ => none)
      | _ => none
    showToks (setMatchEach c w)
  | _ => "bad-op"

end RTV.Drv.Dy

namespace RTV.Drv
open RTV.Drv.Dy

def dispatchDtExtract2 (op : String) (args : List String) : Option String :=
  match op with
  | "dy.century" => some (hCentury args)
  | "dy.year" => some (hYear args)
  | "dy.single" => some (hSingle args)
  | "dy.complex" => some (hComplex args)
  | "dy.first" => some (hFirst args)
  | "dy.tppoints" => some (hTpPoints args)
  | "dy.tpmerge" => some (hTpMerge args)
  | "dy.dtp2" => some (hDtp2 args)
  | "dy.dtpdur" => some (hDtpDur args)
  | "dy.tod" => some (hTod args)
  | "dy.rel" => some (hRel args)
  | "dy.prefix" => some (hPrefix args)
  | "dy.eachdur" => some (hEachDur args)
  | "dy.dws" => some (hDws args)
  | "dy.everyday" => some (hEveryday args)
  | "dy.each" => some (hEach args)
  | _ => none

end RTV.Drv
