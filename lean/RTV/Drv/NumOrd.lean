import RTV.Drv.Proto
import RTV.Model.SpellEu
/-! Driver handlers for the French / Italian numerals at and above 1000 (`RTV.Num.spellTop`) and the ordinals below
1000 of es pt de nl fr it (`RTV.Num.spellOrdEu`), C04 / builder X2.
  no.spell <fr|it> <n>      (fr: n < 10^12, it: n < 10^15)        -> text cps | tok;tok;...
  no.multk <fr|it> <k>      (2..999 in front of the thousand word) -> text cps | tok;tok;...
  no.ord <es|pt|de|nl|fr|it> <n>   (1 ≤ n < 1000)                  -> text cps | tok;tok;...
  no.ordde <n>              (German ordinals, 1 ≤ n < 10^6)        -> text cps | tok;tok;... -/
namespace RTV.Drv.NumOrdD
open RTV.Py RTV.Num RTV.Drv

def topOf : String → Option (EuTop × List EuScale2)
  | "fr" => some (frTop, frScales) | "it" => some (itTop, itScales) | _ => none

def ordOf : String → Option EuOrd
  | "es" => some esOrd | "pt" => some ptOrd | "de" => some deOrd | "nl" => some nlOrd
  | "fr" => some frOrd | "it" => some itOrd | _ => none

def showPair (r : Str × List Str) : String := showCps r.1 ++ "|" ++ ";".intercalate (r.2.map showCps)

def hSpell : Handler
  | [cu, n] => match topOf cu with
    | some (h, ss) => showPair (spellTop h ss (parseNat n))
    | none => "bad-culture"
  | _ => "bad-op"

def hMultK : Handler
  | [cu, k] => match topOf cu with
    | some (h, _) => showPair (h.multK (parseNat k))
    | none => "bad-culture"
  | _ => "bad-op"

def hOrd : Handler
  | [cu, n] => match ordOf cu with
    | some s => showPair (spellOrdEu s (parseNat n))
    | none => "bad-culture"
  | _ => "bad-op"

def hOrdDe : Handler
  | [n] => showPair (spellOrdDe (parseNat n))
  | _ => "bad-op"

def dispatch (op : String) (args : List String) : Option String :=
  match op with
  | "no.spell" => some (hSpell args)
  | "no.multk" => some (hMultK args)
  | "no.ord" => some (hOrd args)
  | "no.ordde" => some (hOrdDe args)
  | _ => none

end RTV.Drv.NumOrdD

namespace RTV.Drv
def dispatchNumOrd (op : String) (args : List String) : Option String := NumOrdD.dispatch op args
end RTV.Drv
