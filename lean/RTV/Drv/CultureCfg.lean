import RTV.Drv.Proto
import RTV.Model.CultureCfg
import RTV.Gen.CultureCfg
/-! Driver operations of the translated culture configuration methods.

  cc.eval <index> <method name> <nStr> <str>… <int>…   -> value     (`err:KeyError` when index / name do not agree)
  cc.count                                              -> number of translated methods
  cc.name <index>                                       -> method name

values: `i:<int>`  `b:<0|1>`  `s:<code points>`  `n`  `r:<atom>|<atom>|…` -/
namespace RTV.Drv
open RTV.Py RTV.CultureCfg

/-- the tables of the running interpreter / regex engine, regenerated on every run -/
def ccTabs : Tabs := RTV.Gen.CC.tabs

def ccShowAtom : Atom → String
  | .int i => s!"i:{i}"
  | .bool b => "b:" ++ showBool b
  | .str s => "s:" ++ showCps s
  | .none => "n"

def ccShowVal : Val → String
  | .one a => ccShowAtom a
  | .record fs => "r:" ++ "|".intercalate (fs.map ccShowAtom)

def hCcEval : Handler
  | idx :: name :: nstr :: rest =>
    match RTV.Gen.CC.allMethods[parseNat idx]? with
    | some m =>
      if m.name != name then "err:KeyError" else
      let k := parseNat nstr
      let strs := (rest.take k).map parseCps
      let ints := (rest.drop k).map parseInt
      ccShowVal (m.run ccTabs strs ints)
    | none => "err:KeyError"
  | _ => "err:Other"

def dispatchCultureCfg (op : String) (args : List String) : Option String :=
  match op with
  | "cc.eval" => some (hCcEval args)
  | "cc.count" => some (toString RTV.Gen.CC.allMethods.size)
  | "cc.name" => some (match RTV.Gen.CC.allMethods[parseNat (args.headD "0")]? with | some m => m.name | none => "err:KeyError")
  | _ => none

end RTV.Drv
