import RTV.Drv.Proto
import RTV.Drv.DtRes
import RTV.Drv.DateFront
import RTV.Model.TimeFront
import RTV.Model.Preprocess
import RTV.Gen.TimeRegexEn
import RTV.Gen.ReTables
import RTV.Gen.CharTables
/-! Driver handlers for L6 `TimeFront` (C07 front end: `parse_basic_regex_match` of the English time parser).
  tf.search <at|am|pm|ampm|k> <real|ascii> <cps>  -> start|stop|<17 group spans a:b or ->            | none | unsupported
  tf.parse <real|ascii> <cps>                     -> at|prefixed|start|stop|<17 group texts>|am ampm pm flags
                                                     rx|k|start|stop|…  | word | none | unsupported
  tf.totime <ref> <variant> <elsePm> <ltohM dm dmn flags full oclock am pm lunch night> <cps>
                                                  -> res (frontToTime, engine tables; the ten fields are the outcomes of
                                                     the regexes adjust_by_prefix / adjust_by_suffix search, as in dt.m2t)
  tf.resolve <ref> <variant> <cps>                -> values (frontResolveTime, no prefix / suffix regex outcome)
  tf.abs <at|k> <c c;c;…>                         -> abstract evaluation (candidates per position), ASCII tables:
                                                     `unk` | none | [prefixed|]start|stop|<17 spans>
-/
namespace RTV.Drv
open RTV.Py RTV.Re RTV.DateFront RTV.TimeFront RTV.Gen.TimeRegexEn

def tfCfg : RTV.TimeFront.Cfg :=
  { pre := timeTokenPrefix, atRe := atRegex, rs := timeRegexes, amDesc := amDescRegex, pmDesc := pmDescRegex,
    amPmDesc := amPmDescRegex }

def tfLower : Nat → Str := RTV.Preprocess.lowerFull RTV.Gen.lowerPairs RTV.Gen.lowerExpanding

def tfGroups : List Nat := [1, 2, 3, 4, 5, 6, 7, 8, 9, 10, 11, 12, 13, 14, 15, 16, 17]

def tfSpans (env : Env) : String := "|".intercalate (tfGroups.map fun g => showSpanOpt (capOf env g))

def tfTexts (g : RTV.DtRes.TimeGroups) (desc : Str) : String :=
  "|".intercalate ([g.writtenTime, g.hourNum, g.minNum, g.tens, g.mid, g.midNight, g.midMorning, g.midAfternoon, g.midDay,
    g.hour, g.min, g.sec, desc, g.implAm, g.implPm, g.pfx, g.sfx].map showCps) ++
  s!"|{showBool g.amDesc}{showBool g.amPmDesc}{showBool g.pmDesc}"

def tfRegexOf (k : String) : Option RE :=
  if k == "at" then atRegex else if k == "am" then amDescRegex else if k == "pm" then pmDescRegex
  else if k == "ampm" then amPmDescRegex else (timeRegexes[parseNat k]?).join

def hTfSearch : Handler
  | [k, w, s] =>
    match tfRegexOf k with
    | some r =>
      match searchO (conc (dfTables w) (parseCps s).toArray) r with
      | some (some m) => s!"{m.start}|{m.stop}|{tfSpans m.env}"
      | _ => "none"
    | none => "unsupported"
  | _ => "bad-op"

def hTfParse : Handler
  | [w, s] =>
    let T := dfTables w
    let src := parseCps s
    let t := prep drvUni0 tfLower src
    match parseTime T drvUni0 tfLower tfCfg RTV.Gen.DtMaps.numbers_en src with
    | none => "unsupported"
    | some .nothing => "none"
    | some .word => "word"
    | some (.toTime (.at p) m g) =>
      s!"at|{showBool p}|{m.start}|{m.stop}|{tfTexts g (groupText (if p then timeTokenPrefix ++ t else t) m.env 13)}"
    | some (.toTime (.rx k) m g) => s!"rx|{k}|{m.start}|{m.stop}|{tfTexts g (groupText t m.env 13)}"
  | _ => "bad-op"

/-- the English `TimeCfg` for given outcomes of the prefix / suffix regexes (the `dt.m2t` wire format, group fields blank) -/
def tfTimeCfg (variant elsePm : String) (rxo : List String) : Option RTV.DtRes.TimeCfg :=
  (parseTimeCall drvUni0 (["en", variant, elsePm] ++ List.replicate 19 "-" ++ rxo)).map (·.2)

def hTfToTime : Handler
  | ref :: variant :: elsePm :: rest =>
    match rest.reverse with
    | s :: rxoRev =>
      match tfTimeCfg variant elsePm rxoRev.reverse with
      | some cfg => showExcept showRes (frontToTime RTV.Gen.reTables drvUni0 tfLower tfCfg cfg (parseCps s) (parseDT ref))
      | none => "bad-op"
    | [] => "bad-op"
  | _ => "bad-op"

def tfNoRx : List String := ["0", "-", "-", "-", "0", "-", "-", "-", "0", "0"]

def hTfResolve : Handler
  | [ref, variant, s] =>
    match tfTimeCfg variant "1" tfNoRx with
    | some cfg =>
      showExcept showValues (frontResolveTime RTV.Gen.reTables drvUni0 tfLower tfCfg cfg (parseCps s) (parseDT ref))
    | none => "bad-op"
  | _ => "bad-op"

def hTfAbs : Handler
  | [k, a] =>
    let A := parseAbs a
    let OT := absO asciiTables A.toArray
    if k == "at" then
      match atRegex with
      | some r =>
        let OP := absO asciiTables ((timeTokenPrefix.map fun c => [c]) ++ A).toArray
        match stepO OT OP timeTokenPrefix.length r with
        | none => "unk"
        | some none => "none"
        | some (some (p, m)) => s!"{showBool p}|{m.start}|{m.stop}|{tfSpans m.env}"
      | none => "unsupported"
    else
      match (timeRegexes[parseNat k]?).join with
      | some r =>
        match exactO OT A.length r with
        | none => "unk"
        | some none => "none"
        | some (some m) => s!"{m.start}|{m.stop}|{tfSpans m.env}"
      | none => "unsupported"
  | _ => "bad-op"

def dispatchTimeFront (op : String) (args : List String) : Option String :=
  match op with
  | "tf.parse" => some (hTfParse args)
  | "tf.search" => some (hTfSearch args)
  | "tf.totime" => some (hTfToTime args)
  | "tf.resolve" => some (hTfResolve args)
  | "tf.abs" => some (hTfAbs args)
  | _ => none

end RTV.Drv
