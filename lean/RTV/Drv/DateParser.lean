import RTV.Drv.Proto
import RTV.Model.DateParser
/-! Driver handlers for L5 `DateParser` (the remaining branches of BaseDateParser; C09 / C08 / C11). A reference is four
fields `Y M D secs`; an absent optional is `-`; an optional inside a tuple is `~` when absent; tuples are comma
separated; a datetime is `Y-M-D@secs`; TIMEX strings are plain ASCII text.
Answer of a `Res`: `timex TAB future TAB past` | `none` (success = False) | `err:Other`.
  dk.on Y M D secs day
  dk.sdn Y M D secs num|- swift
  dk.rel Y M D secs num|- dow
  dk.forthe Y M D secs day
  dk.wdom Y M D secs day
  dk.wdd Y M D secs unitAfter day dow
  dk.wom Y M D secs cardinal dow month|- swift
  dk.single Y M D secs day
  dk.cd cardinal dow month year                      -> Y-M-D@secs | err:Other
  dk.implicit Y M D secs on special sdn rel next this last bare forthe wdom wdd
        on/next/this/last/bare/forthe/wdom: n|-   special: swift|-   sdn: num|~,swift|-   rel: num|~,dow|-
        wdd: unitAfter,day,dow|-
  dk.parse Y M D secs basic <11 implicit fields> wom agolater nwm single
        basic/agolater/nwm: `raises` | `none` | timex|future|past      wom: cardinal,dow,month|~,swift|-
        -> timex TAB futureResolution TAB pastResolution TAB future TAB past | none | err:Other -/
namespace RTV.Drv.DateParserH
open RTV.Drv RTV.Py RTV.Cal RTV.DateUtils RTV.DateParser

def showDT (x : DateTime) : String := s!"{x.date.y}-{x.date.m}-{x.date.d}@{x.secs}"
def mkDT (y m d s : String) : DateTime := ⟨⟨parseNat y, parseNat m, parseNat d⟩, parseNat s⟩
def optInt (f : String) : Option Int := if f == "-" || f == "~" then none else some (parseInt f)
def optNat (f : String) : Option Nat := if f == "-" || f == "~" then none else some (parseNat f)
def str (f : String) : Str := f.toList.map Char.toNat

def parseDT (f : String) : DateTime :=
  match f.splitOn "@" with
  | [d, s] =>
    match d.splitOn "-" with
    | [y, m, dd] => mkDT y m dd s
    | _ => default
  | _ => default

def showRes : Res → String
  | .raises => "err:Other"
  | .noResult => "none"
  | .ok t f p => s!"{toString' t}\t{showDT f}\t{showDT p}"

def parseRes (f : String) : Res :=
  if f == "raises" then .raises
  else if f == "none" then .noResult
  else
    match f.splitOn "|" with
    | [t, a, b] => .ok (str t) (parseDT a) (parseDT b)
    | _ => .raises

def parseMatches (fs : List String) : Matches :=
  match fs with
  | [on, sp, sdn, rel, nx, th, la, ba, ft, wdom, wdd] =>
    { on := optNat on
      special := optInt sp
      specialNum := if sdn == "-" then none else
        (match sdn.splitOn "," with
         | [n, sw] => some (optInt n, parseInt sw)
         | _ => none)
      relWeekday := if rel == "-" then none else
        (match rel.splitOn "," with
         | [n, dow] => some (optInt n, parseNat dow)
         | _ => none)
      next := optNat nx
      this := optNat th
      last := optNat la
      bare := optNat ba
      forThe := optNat ft
      wdDayOfMonth := optNat wdom
      wdDay := if wdd == "-" then none else
        (match wdd.splitOn "," with
         | [u, d, dow] => some (parseBool u, parseNat d, parseNat dow)
         | _ => none) }
  | _ => {}

def parseWom (f : String) : Option (Int × Nat × Option Nat × Int) :=
  if f == "-" then none else
    match f.splitOn "," with
    | [c, dow, mo, sw] => some (parseInt c, parseNat dow, optNat mo, parseInt sw)
    | _ => none

def showParse : Option (Option (Str × Str × Str × DateTime × DateTime)) → String
  | none => "err:Other"
  | some none => "none"
  | some (some (t, fr, pr, f, p)) => s!"{toString' t}\t{toString' fr}\t{toString' pr}\t{showDT f}\t{showDT p}"

end RTV.Drv.DateParserH
namespace RTV.Drv
open RTV.Drv.DateParserH RTV.DateParser RTV.Py in
def dispatchDateParser (op : String) (args : List String) : Option String :=
  match op, args with
  | "dk.on", [y, m, d, s, day] => some (showRes (onDay (mkDT y m d s) (parseNat day)))
  | "dk.sdn", [y, m, d, s, n, sw] => some (showRes (specialDayWithNum (mkDT y m d s) (optInt n) (parseInt sw)))
  | "dk.rel", [y, m, d, s, n, dow] => some (showRes (relativeWeekday (mkDT y m d s) (optInt n) (parseNat dow)))
  | "dk.forthe", [y, m, d, s, day] => some (showRes (forThe (mkDT y m d s) (parseNat day)))
  | "dk.wdom", [y, m, d, s, day] => some (showRes (weekdayAndDayOfMonth (mkDT y m d s) (parseNat day)))
  | "dk.wdd", [y, m, d, s, u, day, dow] =>
    some (showRes (weekdayAndDay (mkDT y m d s) (parseBool u) (parseNat day) (parseNat dow)))
  | "dk.wom", [y, m, d, s, c, dow, mo, sw] =>
    some (showRes (weekdayOfMonth (mkDT y m d s) (parseInt c) (parseNat dow) (optNat mo) (parseInt sw)))
  | "dk.single", [y, m, d, s, day] => some (showRes (singleNumber (mkDT y m d s) (parseNat day)))
  | "dk.cd", [c, dow, mo, yr] =>
    some (match computeDateR (parseInt c) (parseNat dow) (parseNat mo) (parseInt yr) with
          | none => "err:Other"
          | some v => showDT v)
  | "dk.implicit", y :: m :: d :: s :: rest => some (showRes (implicitDate (mkDT y m d s) (parseMatches rest)))
  | "dk.parse", [y, m, d, s, basic, f1, f2, f3, f4, f5, f6, f7, f8, f9, f10, f11, wom, ago, nwm, single] =>
    some (showParse (parseDate (mkDT y m d s)
      { basic := parseRes basic
        implicit := parseMatches [f1, f2, f3, f4, f5, f6, f7, f8, f9, f10, f11]
        wom := parseWom wom
        agoLater := parseRes ago
        numberWithMonth := parseRes nwm
        single := optNat single }))
  | _, _ => none

end RTV.Drv
