import RTV.Drv.Proto
import RTV.Model.Span
import RTV.Model.Merged
import RTV.Model.Preprocess
import RTV.Gen.CharTables
import RTV.Gen.Preprocess
/-! Driver handlers for L2 `Span` / `Preprocess` (C01, C12). Lists: items joined by `,`, fields of an item by `:`,
`-` = empty list; lists of lists joined by `|`, `_` = no list at all.
  sp.num  <src> <ms s:l:t,..> <negs s:a:b,..> <ambs a:b,..|a:b,..>   -> s:l:t:text;...
  sp.seq  <src> <ms>        sp.ip <src> <ms>                           -> s:l:t:text;...
  sp.pct  <origin> <nums s:l,..> <tok> <ms>                            -> masked|pm|s:l:t:text;...
  sp.grp  <src> <ers s:l:t,..> <joins 0/1,..>                          -> s:l:t:text;...
  sp.mat  <src> <tokens s:e:id,..>                                     -> s:l:id:text;...
  sp.addto <dst s:l:t,..> <src s:l:t,..>                               -> s:l:t;...|noCrossingAll|disjointBefore|disjointAfter
  sp.nwu  <items s:e:id,..|..>                                         -> id,id,...
  sp.pre  <keep|full> <cs 0/1> <ms a:b,..> <q>                         -> cps | err:IndexError
  sp.ok   <q> <start> <end> <text>                                     -> 1/0
  sp.disj <s:e,..> (inclusive ends)                                    -> 1/0
  sp.modp <src> <start> <len> <k>                                      -> start:len:text
  sp.phone <src> <start> <len> <ms> <me>                               -> start:len:text -/
namespace RTV.Drv.Sp
open RTV.Drv RTV.Py RTV.Span RTV.Preprocess RTV.Merged

def spClass : RTV.Match.CharClass where
  isSpace c := inRangesArr RTV.Gen.spaceRanges c
  isDigit c := inRangesArr RTV.Gen.digitRanges c
  isAlpha c := inRangesArr RTV.Gen.alphaRanges c

def items (f : String) : List (List String) :=
  if f == "-" || f == "" then [] else (f.splitOn ",").map fun x => x.splitOn ":"

def lists (f : String) : List String := if f == "_" || f == "" then [] else f.splitOn "|"

def parseMs (f : String) : List M :=
  (items f).filterMap fun
    | [a, b, c] => some ⟨parseNat a, parseNat b, parseNat c⟩
    | _ => none

def parsePairs (f : String) : List (Nat × Nat) :=
  (items f).filterMap fun
    | [a, b] => some (parseNat a, parseNat b)
    | _ => none

def parseERs (f : String) : List ER :=
  (items f).filterMap fun
    | [a, b, c] => some ⟨parseNat a, parseNat b, [], parseNat c⟩
    | [a, b] => some ⟨parseNat a, parseNat b, [], 0⟩
    | _ => none

def showER (e : ER) : String := s!"{e.start}:{e.len}:{e.tag}:{showCps e.text}"
def showERs (l : List ER) : String := ";".intercalate (l.map showER)

def hNum : Handler
  | [src, ms, negs, ambs] =>
    let negL := (items negs).filterMap fun
      | [s, a, b] => some (parseNat s, parseNat a, parseNat b)
      | _ => none
    let neg := fun s => (negL.find? fun x => x.1 == s).map (·.2)
    showERs (numExtract spClass.isSpace (parseCps src) (parseMs ms) neg ((lists ambs).map parsePairs))
  | _ => "bad-op"

def hSeq : Handler
  | [src, ms] => showERs (seqExtract spClass.isSpace (parseCps src) (parseMs ms))
  | _ => "bad-op"

def hIp : Handler
  | [src, ms] => showERs (ipExtract spClass (parseCps src) (parseMs ms))
  | _ => "bad-op"

def hPct : Handler
  | [origin, nums, tok, ms] =>
    let o := parseCps origin
    let n := parseERs nums
    let t := parseCps tok
    let (masked, pm) := maskNumbers o n t
    s!"{showCps masked}|{",".intercalate (pm.map toString)}|{showERs (pctExtract spClass.isSpace o n t (parseMs ms))}"
  | _ => "bad-op"

def hGrp : Handler
  | [src, ers, joins] =>
    let s := parseCps src
    let js := (items joins).map fun x => x == ["1"]
    let es := (parseERs ers).map fun e => { e with text := sl s e.start e.len }
    showERs (mergedNumberGroups s (fun i => js.getD i false) es)
  | _ => "bad-op"

def hMat : Handler
  | [src, toks] =>
    let ts := (items toks).filterMap fun
      | [a, b, c] => some (⟨parseNat a, parseNat b, parseNat c⟩ : Tk)
      | _ => none
    showERs (mergeAllTokens (parseCps src) ts)
  | _ => "bad-op"

def hAddTo : Handler
  | [dst, src] =>
    let d := parseERs dst
    let s := parseERs src
    let r := addTo (fun _ => false) d s
    let sh := ";".intercalate (r.map fun e => s!"{e.start}:{e.len}:{e.tag}")
    s!"{sh}|{showBool (decide (NoCrossingAll (fun _ => false) d s))}|{showBool (decide (d.Pairwise Disjoint))}|{showBool (decide (r.Pairwise Disjoint))}"
  | _ => "bad-op"

def hNwu : Handler
  | [its] =>
    let ls := (lists its).map fun f => (items f).filterMap fun
      | [a, b, c] => some (⟨parseInt a, parseInt b, parseNat c⟩ : MR)
      | _ => none
    ",".intercalate ((nwuParse ls).map fun m => toString m.id)
  | _ => "bad-op"

def hNwuSym : Handler
  | [its] =>
    let ls := (lists its).map fun f => (items f).filterMap fun
      | [a, b, c] => some (⟨parseInt a, parseInt b, parseNat c⟩ : MR)
      | _ => none
    ",".intercalate ((nwuParseSym ls).map fun m => toString m.id)
  | _ => "bad-op"

def hPre : Handler
  | [variant, cs, ms, q] =>
    let lowerC := if variant == "keep" then lowerKeep RTV.Gen.lowerPairs
      else lowerFull RTV.Gen.lowerPairs RTV.Gen.lowerExpanding
    match preprocess RTV.Gen.recodePairs lowerC (parseBool cs) (parsePairs ms) (parseCps q) with
    | some r => showCps r
    | none => "err:IndexError"
  | _ => "bad-op"

def hOk : Handler
  | [q, a, b, t] =>
    showBool (spanOK (norm RTV.Gen.recodePairs RTV.Gen.lowerPairs RTV.Gen.lowerExpanding) spClass.isSpace
      (parseCps q) (parseInt a) (parseInt b) (parseCps t))
  | _ => "bad-op"

def hDisj : Handler
  | [spans] =>
    let ss := (items spans).filterMap fun
      | [a, b] => some (parseInt a, parseInt b)
      | _ => none
    showBool (decide (ss.Pairwise fun a b => ¬ (a.1 ≤ b.2 ∧ b.1 ≤ a.2)))
  | _ => "bad-op"

def hModP : Handler
  | [src, a, b, k] =>
    let r := mergeModPrefix (parseCps src) ⟨parseInt a, parseInt b, []⟩ (parseNat k)
    s!"{r.start}:{r.len}:{showCps r.text}"
  | _ => "bad-op"

def hPhone : Handler
  | [src, a, b, ms, me] =>
    let r := phoneRespan spClass.isSpace (parseCps src) ⟨parseNat a, parseNat b, [], 0⟩ (parseNat ms) (parseNat me)
    s!"{r.start}:{r.len}:{showCps r.text}"
  | _ => "bad-op"


/-! merged extractor / parser (RTV.Model.Merged)
  mg.ext <src> <inputs s:l:tag,..|..> <unspecific tags> <ambiguous tags> <ops tag:p:k,tag:e:m,..> <calendar tags>
        -> s:l:tag:text;...|chainNoCrossing|disjoint|extClear   (the two hypotheses of `mergedExtract_disjoint_monitored`
           and its conclusion, on this call)
  mg.pp  <kind> <ki> <kl> <kbegin> <around> <ai> <al> <isAfter> <hasValue> <reset> <start> <len> <text> <rstart> <rlen> <rtext>
        -> pushed start:len:text|mod|popped start:len:text      (pop applied to the given inner result r)
  mg.zh  <dst s:l:tag,..> <src s:l:tag,..> <includes v:d,..>    -> s:l:tag;...  -/
def tagSet (f : String) : List Nat := (items f).filterMap fun | [a] => some (parseNat a) | _ => none

def hMgExt : Handler
  | [src, inputs, unspec, amb, ops, cal] =>
    let s := parseCps src
    let ins := (lists inputs).map fun f => (parseERs f).map fun e => { e with text := sl s e.start e.len }
    let us := tagSet unspec
    let am := tagSet amb
    let ca := tagSet cal
    let opl : List (Nat × ModOp) := (items ops).filterMap fun
      | [t, "p", k] => some (parseNat t, ModOp.pre (parseNat k))
      | [t, "e", m] => some (parseNat t, ModOp.ext (parseNat m))
      | _ => none
    let opf := fun t => (opl.filter fun x => x.1 == t).map (·.2)
    let r := mergedExtract s ins (fun e => us.contains e.tag) (fun e => am.contains e.tag) opf (fun e => ca.contains e.tag)
    let xc := extClearB s opf (beforeMods ins (fun e => us.contains e.tag) (fun e => am.contains e.tag))
    s!"{showERs r}|{showBool (decide (ChainNoCrossing [] ins))}|{showBool (decide (r.Pairwise Disjoint))}|{showBool xc}"
  | _ => "bad-op"

def parseKind (k : String) : Kind :=
  match k with
  | "before" => .before | "after" => .after | "since" => .since | "equal" => .equal | "dateAfter" => .dateAfter
  | _ => .none

def showSp (x : Sp) : String := s!"{x.start}:{x.len}:{showCps x.text}"

def hMgPp : Handler
  | [k, ki, kl, kb, ar, ai, al, ia, hv, rs, st, ln, tx, rst, rln, rtx] =>
    let f : Facts := ⟨parseKind k, (parseNat ki, parseNat kl), parseBool kb, parseBool ar, (parseNat ai, parseNat al), parseBool ia⟩
    let e : Sp := ⟨parseInt st, parseInt ln, parseCps tx⟩
    let p := push f e
    let r : Sp := ⟨parseInt rst, parseInt rln, parseCps rtx⟩
    s!"{showSp p.e}|{showCps p.modStr}|{showSp (pop f (parseBool hv) (parseBool rs) r p.modStr)}"
  | _ => "bad-op"

/-- `sp.pushpop <isAfter> <mIndex> <mLen> <start> <len> <text> <rstart> <rlen> <rtext>`: the single-modifier push / pop of
`RTV.Span` (`pushPrefix` / `popPrefix`, `pushSuffix` / `popSuffix`: the functions the C01 push/pop theorems are about), same
answer format as `mg.pp`; `sp.mend <start> <len>` = `modelEnd` (audit item 35: no correspondence op). -/
def hPushPop : Handler
  | [ia, mi, ml, st, ln, tx, rst, rln, rtx] =>
    let e : Sp := ⟨parseInt st, parseInt ln, parseCps tx⟩
    let r : Sp := ⟨parseInt rst, parseInt rln, parseCps rtx⟩
    if parseBool ia then
      let p := pushSuffix e (parseNat mi) (parseNat ml)
      s!"{showSp p.1}|{showCps p.2}|{showSp (popSuffix r p.2)}"
    else
      let p := pushPrefix e (parseNat mi) (parseNat ml)
      s!"{showSp p.1}|{showCps p.2}|{showSp (popPrefix r p.2)}"
  | _ => "bad-op"

def hModelEnd : Handler
  | [st, ln] => toString (modelEnd (parseInt st) (parseInt ln))
  | _ => "bad-op"

def hMgZh : Handler
  | [dst, src, incl] =>
    let inc := parsePairs incl
    let r := zhAddTo (fun v d => inc.contains (v.tag, d.tag)) (parseERs dst) (parseERs src)
    ";".intercalate (r.map fun e => s!"{e.start}:{e.len}:{e.tag}")
  | _ => "bad-op"

end RTV.Drv.Sp

namespace RTV.Drv
open RTV.Drv.Sp

def dispatchSpan (op : String) (args : List String) : Option String :=
  match op with
  | "sp.num" => some (hNum args)
  | "sp.seq" => some (hSeq args)
  | "sp.ip" => some (hIp args)
  | "sp.pct" => some (hPct args)
  | "sp.grp" => some (hGrp args)
  | "sp.mat" => some (hMat args)
  | "sp.addto" => some (hAddTo args)
  | "sp.nwu" => some (hNwu args)
  | "sp.nwusym" => some (hNwuSym args)
  | "sp.pre" => some (hPre args)
  | "sp.ok" => some (hOk args)
  | "sp.disj" => some (hDisj args)
  | "sp.modp" => some (hModP args)
  | "sp.phone" => some (hPhone args)
  | "mg.ext" => some (hMgExt args)
  | "mg.pp" => some (hMgPp args)
  | "sp.pushpop" => some (hPushPop args)
  | "sp.mend" => some (hModelEnd args)
  | "mg.zh" => some (hMgZh args)
  | _ => none

end RTV.Drv
