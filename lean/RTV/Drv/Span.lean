import RTV.Drv.Proto
import RTV.Model.Span
import RTV.Model.Preprocess
import RTV.Gen.CharTables
import RTV.Gen.Preprocess
/-! Driver handlers for L2 `Span` / `Preprocess` (C01, C12). Lists: items joined by `,`, fields of an item by `:`,
`-` = empty list; lists of lists joined by `|`, `_` = no list at all.
  sp.num  <src> <ms s:l:t,..> <negs s:a:b,..> <ambs a:b,..|a:b,..>   -> s:l:t:text;...
  sp.seq  <src> <ms>        sp.ip <src> <ms>                           -> s:l:t:text;...
  sp.pct  <origin> <nums s:l,..> <tok> <ms>                            -> masked|pm|s:l:t:text;...
  sp.grp  <src> <ers s:l:t,..> <joins 0/1,..>                          -> s:l:t:text;...
  sp.mat  <src> <tokens s:e:id,..>                                     -> s:l:id:text;...
  sp.addto <dst s:l:t,..> <src s:l:t,..>                               -> s:l:t;...|noCrossingAll|disjointBefore|disjointAfter
  sp.nwu  <items s:e:id,..|..>                                         -> id,id,...
  sp.pre  <keep|full> <cs 0/1> <ms a:b,..> <q>                         -> cps | err:IndexError
  sp.ok   <q> <start> <end> <text>                                     -> 1/0
  sp.disj <s:e,..> (inclusive ends)                                    -> 1/0
  sp.modp <src> <start> <len> <k>                                      -> start:len:text
  sp.phone <src> <start> <len> <ms> <me>                               -> start:len:text -/
namespace RTV.Drv.Sp
open RTV.Drv RTV.Py RTV.Span RTV.Preprocess

def spClass : RTV.Match.CharClass where
  isSpace c := inRangesArr RTV.Gen.spaceRanges c
  isDigit c := inRangesArr RTV.Gen.digitRanges c
  isAlpha c := inRangesArr RTV.Gen.alphaRanges c

def items (f : String) : List (List String) :=
  if f == "-" || f == "" then [] else (f.splitOn ",").map fun x => x.splitOn ":"

def lists (f : String) : List String := if f == "_" || f == "" then [] else f.splitOn "|"

def parseMs (f : String) : List M :=
  (items f).filterMap fun
    | [a, b, c] => some ⟨parseNat a, parseNat b, parseNat c⟩
    | _ => none

def parsePairs (f : String) : List (Nat × Nat) :=
  (items f).filterMap fun
    | [a, b] => some (parseNat a, parseNat b)
    | _ => none

def parseERs (f : String) : List ER :=
  (items f).filterMap fun
    | [a, b, c] => some ⟨parseNat a, parseNat b, [], parseNat c⟩
    | [a, b] => some ⟨parseNat a, parseNat b, [], 0⟩
    | _ => none

def showER (e : ER) : String := s!"{e.start}:{e.len}:{e.tag}:{showCps e.text}"
def showERs (l : List ER) : String := ";".intercalate (l.map showER)

def hNum : Handler
  | [src, ms, negs, ambs] =>
    let negL := (items negs).filterMap fun
      | [s, a, b] => some (parseNat s, parseNat a, parseNat b)
      | _ => none
    let neg := fun s => (negL.find? fun x => x.1 == s).map (·.2)
    showERs (numExtract spClass.isSpace (parseCps src) (parseMs ms) neg ((lists ambs).map parsePairs))
  | _ => "bad-op"

def hSeq : Handler
  | [src, ms] => showERs (seqExtract spClass.isSpace (parseCps src) (parseMs ms))
  | _ => "bad-op"

def hIp : Handler
  | [src, ms] => showERs (ipExtract spClass (parseCps src) (parseMs ms))
  | _ => "bad-op"

def hPct : Handler
  | [origin, nums, tok, ms] =>
    let o := parseCps origin
    let n := parseERs nums
    let t := parseCps tok
    let (masked, pm) := maskNumbers o n t
    s!"{showCps masked}|{",".intercalate (pm.map toString)}|{showERs (pctExtract spClass.isSpace o n t (parseMs ms))}"
  | _ => "bad-op"

def hGrp : Handler
  | [src, ers, joins] =>
    let s := parseCps src
    let js := (items joins).map fun x => x == ["1"]
    let es := (parseERs ers).map fun e => { e with text := sl s e.start e.len }
    showERs (mergedNumberGroups s (fun i => js.getD i false) es)
  | _ => "bad-op"

def hMat : Handler
  | [src, toks] =>
    let ts := (items toks).filterMap fun
      | [a, b, c] => some (⟨parseNat a, parseNat b, parseNat c⟩ : Tk)
      | _ => none
    showERs (mergeAllTokens (parseCps src) ts)
  | _ => "bad-op"

def hAddTo : Handler
  | [dst, src] =>
    let d := parseERs dst
    let s := parseERs src
    let r := addTo (fun _ => false) d s
    let sh := ";".intercalate (r.map fun e => s!"{e.start}:{e.len}:{e.tag}")
    s!"{sh}|{showBool (decide (NoCrossingAll (fun _ => false) d s))}|{showBool (decide (d.Pairwise Disjoint))}|{showBool (decide (r.Pairwise Disjoint))}"
  | _ => "bad-op"

def hNwu : Handler
  | [its] =>
    let ls := (lists its).map fun f => (items f).filterMap fun
      | [a, b, c] => some (⟨parseInt a, parseInt b, parseNat c⟩ : MR)
      | _ => none
    ",".intercalate ((nwuParse ls).map fun m => toString m.id)
  | _ => "bad-op"

def hPre : Handler
  | [variant, cs, ms, q] =>
    let lowerC := if variant == "keep" then lowerKeep RTV.Gen.lowerPairs
      else lowerFull RTV.Gen.lowerPairs RTV.Gen.lowerExpanding
    match preprocess RTV.Gen.recodePairs lowerC (parseBool cs) (parsePairs ms) (parseCps q) with
    | some r => showCps r
    | none => "err:IndexError"
  | _ => "bad-op"

def hOk : Handler
  | [q, a, b, t] =>
    showBool (spanOK (norm RTV.Gen.recodePairs RTV.Gen.lowerPairs RTV.Gen.lowerExpanding) spClass.isSpace
      (parseCps q) (parseInt a) (parseInt b) (parseCps t))
  | _ => "bad-op"

def hDisj : Handler
  | [spans] =>
    let ss := (items spans).filterMap fun
      | [a, b] => some (parseInt a, parseInt b)
      | _ => none
    showBool (decide (ss.Pairwise fun a b => ¬ (a.1 ≤ b.2 ∧ b.1 ≤ a.2)))
  | _ => "bad-op"

def hModP : Handler
  | [src, a, b, k] =>
    let r := mergeModPrefix (parseCps src) ⟨parseInt a, parseInt b, []⟩ (parseNat k)
    s!"{r.start}:{r.len}:{showCps r.text}"
  | _ => "bad-op"

def hPhone : Handler
  | [src, a, b, ms, me] =>
    let r := phoneRespan spClass.isSpace (parseCps src) ⟨parseNat a, parseNat b, [], 0⟩ (parseNat ms) (parseNat me)
    s!"{r.start}:{r.len}:{showCps r.text}"
  | _ => "bad-op"

end RTV.Drv.Sp

namespace RTV.Drv
open RTV.Drv.Sp

def dispatchSpan (op : String) (args : List String) : Option String :=
  match op with
  | "sp.num" => some (hNum args)
  | "sp.seq" => some (hSeq args)
  | "sp.ip" => some (hIp args)
  | "sp.pct" => some (hPct args)
  | "sp.grp" => some (hGrp args)
  | "sp.mat" => some (hMat args)
  | "sp.addto" => some (hAddTo args)
  | "sp.nwu" => some (hNwu args)
  | "sp.pre" => some (hPre args)
  | "sp.ok" => some (hOk args)
  | "sp.disj" => some (hDisj args)
  | "sp.modp" => some (hModP args)
  | "sp.phone" => some (hPhone args)
  | _ => none

end RTV.Drv
