import RTV.Drv.Proto
import RTV.Model.TimexConvert
/-! Driver handlers for L7 `Timex` (C14, C15). All run `genCfg` (patterns and constants regenerated from the tree).
  tx.parse <cps>                       -> fields ## types ## timex_value
  tx.fromdate y m d | tx.fromdt y m d h mi s | tx.fromtime h m s   -> fields ## types ## timex_value
  tx.resolve <cps> y m d               -> entry;entry…   (entry = timex,type,value,start,end; U unset, N None, S<cps>)
  tx.eval <fuel> <n> c1…cn <k> k1…kk   -> ok <value>;<value>…
  tx.collapseD <fuel> <n> s1 e1 …      -> s:e;…   | hang
  tx.collapseT <fuel> <n> s1 e1 …      -> s:e;…   | hang
  tx.daterange <cps> | tx.timerange <cps>    -> s:e
  tx.expand <cps>                      -> start|end|duration (timex values; N when no duration)
  tx.lastday d y m d | tx.nextday d y m d    -> y-m-d
  tx.matching d s e                    -> ord,ord,…
  tx.weekrange y w | tx.monthrange y m | tx.yearrange y   -> S<cps>,S<cps>
  tx.dateadd <cps> <cps> | tx.timeadd <cps> <cps>         -> fields ## types ## timex_value
  tx.durvalue <cps>                    -> S<cps>
errors: err:TypeError err:AttributeError err:ValueError err:OverflowError hang unmodelled -/
namespace RTV.Drv
open RTV.Py RTV.Timex RTV.Cal

def showErr : Err → String
  | .typeError => "err:TypeError"
  | .attributeError => "err:AttributeError"
  | .valueError => "err:ValueError"
  | .overflowError => "err:OverflowError"
  | .hang => "hang"
  | .unmodelled => "unmodelled"

def showR (f : α → String) : R α → String
  | .ok a => f a
  | .error e => showErr e

def showNum : Num → String
  | .int i => s!"i{i}"
  | .dec n c e => s!"d{if n then 1 else 0}:{c}:{e}"
  | .flt i => s!"f{i}"

def showON : Option Num → String
  | none => "N"
  | some x => showNum x

def showOS : Option Str → String
  | none => "N"
  | some s => "S" ++ showCps s

def showTypes (t : Types) : String :=
  ",".intercalate ([("date", t.date), ("daterange", t.daterange), ("datetime", t.datetime),
    ("datetimerange", t.datetimerange), ("definite", t.definite), ("duration", t.duration),
    ("present", t.present), ("time", t.time), ("timerange", t.timerange)].filterMap fun p =>
      if p.2 then some p.1 else none)

def showTimex (t : Timex) : String :=
  let time := match t.time with
    | none => "N"
    | some tm => s!"{showNum tm.hour},{showNum tm.minute},{showNum tm.second}"
  let we := match t.weekend with
    | none => "N"
    | some true => "T"
    | some false => "F"
  "|".intercalate [if t.now then "T" else "F", showON t.years, showON t.months, showON t.weeks, showON t.days,
    showON t.hours, showON t.minutes, showON t.seconds, showON t.year, showON t.month, showON t.dayOfMonth,
    showON t.dayOfWeek, showOS t.season, showON t.weekOfYear, we, showON t.weekOfMonth, showOS t.partOfDay, time]
  ++ " ## " ++ showTypes (infer t) ++ " ## " ++ showR (fun s => "S" ++ showCps s) (formatT t)

def showPV : PV → String
  | .unset => "U"
  | .none => "N"
  | .str s => "S" ++ showCps s

def showEntry (e : Entry) : String :=
  ",".intercalate [showPV e.timex, showPV e.type, showPV e.value, showPV e.start, showPV e.end]

def hParse : Handler
  | [s] => showTimex (parse genCfg (parseCps s))
  | _ => "bad-op"

def hFromDate : Handler
  | [y, m, d] => showTimex (Timex.fromDate ⟨parseNat y, parseNat m, parseNat d⟩)
  | _ => "bad-op"

def hFromDt : Handler
  | [y, m, d, h, mi, s] =>
    showTimex (Timex.fromDateTime ⟨parseNat y, parseNat m, parseNat d⟩ (parseNat h) (parseNat mi) (parseNat s))
  | _ => "bad-op"

def hFromTime : Handler
  | [h, m, s] => showTimex (Timex.fromTime ⟨.int (parseInt h), .int (parseInt m), .int (parseInt s)⟩)
  | _ => "bad-op"

def hResolve : Handler
  | [s, y, m, d] =>
    showR (fun es => ";".intercalate (es.map showEntry))
      (resolve genCfg [parseCps s] ⟨parseNat y, parseNat m, parseNat d⟩)
  | _ => "bad-op"

def hEval : Handler
  | fuel :: n :: rest =>
    let n := parseNat n
    let cands := (rest.take n).map parseCps
    match rest.drop n with
    | _ :: ks =>
      let r : R (List String) := do
        let out ← evaluate genCfg (parseNat fuel) cands (ks.map parseCps)
        out.mapM fun s => do
          let v ← formatT (parse genCfg s)
          pure ("S" ++ showCps v)
      showR (fun vs => "ok " ++ ";".intercalate vs) r
    | [] => "bad-op"
  | _ => "bad-op"

def pairsNat : List String → List (Nat × Nat)
  | a :: b :: r => (parseNat a, parseNat b) :: pairsNat r
  | _ => []

def pairsInt : List String → List (Int × Int)
  | a :: b :: r => (parseInt a, parseInt b) :: pairsInt r
  | _ => []

def hCollapseD : Handler
  | fuel :: _ :: rest =>
    showR (fun rs => ";".intercalate (rs.map fun r => s!"{r.s}:{r.e}"))
      (collapseDates (parseNat fuel) ((pairsNat rest).map fun p => ⟨p.1, p.2⟩))
  | _ => "bad-op"

def hCollapseT : Handler
  | fuel :: _ :: rest =>
    showR (fun rs => ";".intercalate (rs.map fun r => s!"{r.s}:{r.e}"))
      (collapseTimes (parseNat fuel) ((pairsInt rest).map fun p => ⟨p.1, p.2⟩))
  | _ => "bad-op"

def hDateRange : Handler
  | [s] => showR (fun r => s!"{r.s}:{r.e}") (daterangeFromTimex (parse genCfg (parseCps s)))
  | _ => "bad-op"

def hTimeRange : Handler
  | [s] => showR (fun r => s!"{r.s}:{r.e}") (timerangeFromTimex genCfg (parse genCfg (parseCps s)))
  | _ => "bad-op"

def hExpand : Handler
  | [s] =>
    let r : R String := do
      let x ← expandDatetimeRange (parse genCfg (parseCps s))
      let a ← formatT x.start
      let b ← formatT x.end
      let c ← match x.duration with
        | some d => (formatT d).map fun v => "S" ++ showCps v
        | none => pure "N"
      pure s!"S{showCps a}|S{showCps b}|{c}"
    showR id r
  | _ => "bad-op"

def showDate (d : Date) : String := s!"{d.y}-{d.m}-{d.d}"

def hLastDay : Handler
  | [day, y, m, d] => showR showDate (dateOfLastDay (parseInt day) ⟨parseNat y, parseNat m, parseNat d⟩)
  | _ => "bad-op"

def hNextDay : Handler
  | [day, y, m, d] => showR showDate (dateOfNextDay (parseInt day) ⟨parseNat y, parseNat m, parseNat d⟩)
  | _ => "bad-op"

def hMatching : Handler
  | [day, s, e] => showR (fun l => ",".intercalate (l.map toString))
      (datesMatchingDay (parseInt day) (parseNat s) (parseNat e))
  | _ => "bad-op"

def showPair (p : Str × Str) : String := s!"S{showCps p.1},S{showCps p.2}"

def hWeekRange : Handler
  | [y, w] => showR showPair (weekDateRange genCfg (some (.int (parseInt y))) (some (.int (parseInt w))))
  | _ => "bad-op"

def hMonthRange : Handler
  | [y, m] => showR showPair (monthDateRange (some (.int (parseInt y))) (some (.int (parseInt m))))
  | _ => "bad-op"

def hYearRange : Handler
  | [y] => showR showPair (yearDateRange (.int (parseInt y)))
  | _ => "bad-op"

def hDateAdd : Handler
  | [a, b] => showR showTimex (timexDateAdd (parse genCfg (parseCps a)) (parse genCfg (parseCps b)))
  | _ => "bad-op"

def hTimeAdd : Handler
  | [a, b] => showR showTimex (timexTimeAdd (parse genCfg (parseCps a)) (parse genCfg (parseCps b)))
  | _ => "bad-op"

def hDurValue : Handler
  | [s] => showR (fun v => "S" ++ showCps v) (durationValue (parse genCfg (parseCps s)))
  | _ => "bad-op"

def showCErr : CErr → String
  | .typeError => "err:TypeError"
  | .keyError => "err:KeyError"
  | .indexError => "err:IndexError"
  | .valueError => "err:ValueError"
  | .notImplemented => "err:NotImplementedError"
  | .overflowError => "err:OverflowError"
  | .unmodelled => "unmodelled"

def showC : C Str → String
  | .ok s => "S" ++ showCps s
  | .error e => showCErr e

/-- tx.tostr <cps> | tx.settostr <cps> | tx.torel <cps> y m d secs | tx.creator <name> y m d [n] -/
def hToStr : Handler
  | [s] => showC (timexToString genEng (parse genCfg (parseCps s)))
  | _ => "bad-op"

def hSetToStr : Handler
  | [s] => showC (timexSetToString genEng (parse genCfg (parseCps s)))
  | _ => "bad-op"

def hToRel : Handler
  | [s, y, m, d, secs] =>
    showC (timexToRelative genEng (parse genCfg (parseCps s)) ⟨parseNat y, parseNat m, parseNat d⟩ (parseNat secs))
  | _ => "bad-op"

def hCreator : Handler
  | name :: y :: m :: d :: rest =>
    let dt : Date := ⟨parseNat y, parseNat m, parseNat d⟩
    match name with
    | "yesterday" => showC (creatorYesterday dt)
    | "week_from_today" => showC (creatorWeekFromToday dt)
    | "week_back_today" => showC (creatorWeekBackToday dt)
    | "this_week" => showC (creatorThisWeek genCfg dt)
    | "next_week" => showC (creatorNextWeek genCfg dt)
    | "last_week" => showC (creatorLastWeek genCfg dt)
    | "next_weeks_from_today" => showC (creatorNextWeeksFromToday genCfg (parseInt (rest.headD "0")) dt)
    | _ => "bad-op"
  | _ => "bad-op"

def dispatchTimex (op : String) (args : List String) : Option String :=
  match op with
  | "tx.parse" => some (hParse args)
  | "tx.fromdate" => some (hFromDate args)
  | "tx.fromdt" => some (hFromDt args)
  | "tx.fromtime" => some (hFromTime args)
  | "tx.resolve" => some (hResolve args)
  | "tx.eval" => some (hEval args)
  | "tx.collapseD" => some (hCollapseD args)
  | "tx.collapseT" => some (hCollapseT args)
  | "tx.daterange" => some (hDateRange args)
  | "tx.timerange" => some (hTimeRange args)
  | "tx.expand" => some (hExpand args)
  | "tx.lastday" => some (hLastDay args)
  | "tx.nextday" => some (hNextDay args)
  | "tx.matching" => some (hMatching args)
  | "tx.weekrange" => some (hWeekRange args)
  | "tx.monthrange" => some (hMonthRange args)
  | "tx.yearrange" => some (hYearRange args)
  | "tx.dateadd" => some (hDateAdd args)
  | "tx.timeadd" => some (hTimeAdd args)
  | "tx.durvalue" => some (hDurValue args)
  | "tx.tostr" => some (hToStr args)
  | "tx.settostr" => some (hSetToStr args)
  | "tx.torel" => some (hToRel args)
  | "tx.creator" => some (hCreator args)
  | _ => none

end RTV.Drv
