import RTV.Drv.Proto
import RTV.Model.DtExtract
/-! Driver handlers for L2c `DtExtract` (C01, C12). Integers are decimal (may be negative). Lists: items joined by
`,`, fields of an item by `:`, `-` = empty list. An optional match inside an item is `k:s:e` (`k` = 0/1), an optional
ConditionalMatch `k:idx:len:succ`, a MatchedIndex `matched:index`. Records with sub-lists use `/` between parts and
`;` inside an `ExtFacts` part; lists of such records use `|`. Answers: tokens `s:e,s:e` (`-` = none),
`err:TypeError` where the code raises.
  (<v> = variant flags `basicMatchStart:mdtLenFixed:rangeRstrip`, each 0/1)
  dx.basic  <v> <idx:ms:me:k:ci:cl:cs,..>
  dx.toks   <s:e,..>                   dx.kept <s:e:keep,..>
  dx.ext    <si> <ei> <ext>                                     -> si:ei
  dx.nwm    <n> <iter|iter..>    iter = num/start/len/isOrd/invalid/monthEnd/ext1/forThe/wdDom/wdDay/relMonth/spaceLen/prefixArt/weekDay/weekDayOK/ofMonth/ext2
  dx.ago    <n> <ago|ago..>      ago = start/len/isTime/m:i:day/m:i:day/inIdx/inUnit/withinIdx/withinUnit
  dx.reldur <n> <dur|dur..> <inp|inp..>   dur = multi/hasDate/<ago parts>; inp = start/len/bothBlank/cm/rangeUnit/sinceYear
  dx.nwu    <start:len:k:s:e,..> <combined> <anUnit> <inexact>
  dx.suffix <start:stop:k:s:e,..>
  dx.mmd    <start:len:unit:conn,..>  (unit -1 = none)          -> start:len,..
  dx.tag    <start> <len> <k:idx:len:succ:first> <k:idx:len:succ:first>   -> start:len
  dx.mdt    <v> <start:len:isDate,..> <sufAfter:restEmpty:conn:yext,..> <k:s:e:k:s:e,..>
  dx.todb   <n> <start:len:k:s:e:k:s:e,..> <simple>            dx.toda <n> <start:len:k:s:e,..> <simple>
  dx.special <start:len:k:i:l:s:k:i:l:s,..> <eod>
  dx.range  <v> <d|t|dt> <start:len,..> <i,..> <till:conn:fm:fi:bm:bi:am:ai:lead,..>  (fi / bi = source offsets)
  dx.mdur   <md|md..>  md = start/len/empty/cm/withinDate/cm/cm/nums/prefixLen/numInDur/cm/cm
  dx.inside <n> <s:e,..>                                        -> 1/0  (every token `Tok.Inside n`) -/
namespace RTV.Drv.Dx
open RTV.Drv RTV.Py RTV.DtExtract

def items (f : String) : List (List String) :=
  if f == "-" || f == "" then [] else (f.splitOn ",").map fun x => x.splitOn ":"

def recs (f : String) : List String := if f == "-" || f == "" || f == "_" then [] else f.splitOn "|"

def pB (f : String) : Bool := f == "1"

def optMt (k s e : String) : Option Mt := if pB k then some ⟨parseInt s, parseInt e⟩ else none
def optCM (k i l s : String) : Option CM := if pB k then some ⟨parseInt i, parseInt l, pB s⟩ else none

/-- `k:s:e` as a stand-alone field -/
def fOptMt (f : String) : Option Mt :=
  match f.splitOn ":" with
  | [k, s, e] => optMt k s e
  | _ => none

def fOptCM (f : String) : Option CM :=
  match f.splitOn ":" with
  | [k, i, l, s] => optCM k i l s
  | _ => none

def fMI (f : String) : MI :=
  match f.splitOn ":" with
  | [m, i] => ⟨pB m, parseInt i⟩
  | _ => ⟨false, -1⟩

def pMts (f : String) : List Mt :=
  (items f).filterMap fun
    | [s, e] => some ⟨parseInt s, parseInt e⟩
    | _ => none

def showToks (l : List Tok) : String :=
  if l.isEmpty then "-" else ",".intercalate (l.map fun t => s!"{t.start}:{t.stop}")

def showOptToks : Option (List Tok) → String
  | some l => showToks l
  | none => "err:TypeError"

def showEnts (l : List Ent) : String :=
  if l.isEmpty then "-" else ",".intercalate (l.map fun t => s!"{t.start}:{t.len}")

def pYear (m ok al sl : String) : YearIdx := ⟨fOptMt m, pB ok, parseInt al, parseInt sl⟩

def pExt (f : String) : ExtFacts :=
  match f.splitOn ";" with
  | [m1, ok1, al1, sl1, cb, m2, ok2, al2, sl2, we, ws, ag] =>
    ⟨pYear m1 ok1 al1 sl1, pB cb, pYear m2 ok2 al2 sl2, fOptMt we, fOptMt ws, pB ag⟩
  | _ => default

def pNwm (f : String) : Option NwmFacts :=
  match f.splitOn "/" with
  | [num, start, len, isOrd, invalid, monthEnd, ext1, forThe, wdDom, wdDay, relMonth, spaceLen, prefixArt, weekDay,
      weekDayOK, ofMonth, ext2] =>
    some {
      num := parseInt num, start := parseInt start, len := parseInt len, isOrd := pB isOrd, invalidPrefix := pB invalid,
      monthEnd := fOptMt monthEnd, ext1 := pExt ext1,
      forThe := (items forThe).filterMap fun
        | [s, e, l, q] => some (⟨parseInt s, parseInt e⟩, parseInt l, pB q)
        | _ => none,
      wdDom := (items wdDom).filterMap fun
        | [s, e, q] => some (⟨parseInt s, parseInt e⟩, pB q)
        | _ => none,
      wdDay := pMts wdDay, relMonth := fOptMt relMonth, spaceLen := parseInt spaceLen, prefixArt := fOptMt prefixArt,
      weekDay := fOptMt weekDay, weekDayOK := pB weekDayOK, ofMonth := fOptMt ofMonth, ext2 := pExt ext2 }
  | _ => none

def pMIb (f : String) : MI × Bool :=
  match f.splitOn ":" with
  | [m, i, d] => (⟨pB m, parseInt i⟩, pB d)
  | _ => (⟨false, -1⟩, false)

def pAgoParts : List String → Option AgoFacts
  | [start, len, isTime, ago, later, inIdx, inUnit, withinIdx, withinUnit] =>
    some ⟨⟨parseInt start, parseInt len⟩, pB isTime, pMIb ago, pMIb later, parseInt inIdx, pB inUnit, parseInt withinIdx,
      pB withinUnit⟩
  | _ => none

def pAgo (f : String) : Option AgoFacts := pAgoParts (f.splitOn "/")

def pDur (f : String) : Option DurFact :=
  match f.splitOn "/" with
  | multi :: hasDate :: rest => (pAgoParts rest).map fun a => ⟨pB multi, pB hasDate, a⟩
  | _ => none

def pInp (f : String) : Option InPrefFact :=
  match f.splitOn "/" with
  | [start, len, bb, cm, ru, sy] => some ⟨⟨parseInt start, parseInt len⟩, pB bb, fOptCM cm, pB ru, pB sy⟩
  | _ => none

def pMd (f : String) : Option MdFact :=
  match f.splitOn "/" with
  | [start, len, empty, within, wd, past, future, nums, plen, nid, ps, fs] =>
    some ⟨⟨parseInt start, parseInt len⟩, pB empty, fOptCM within, pB wd, fOptCM past, fOptCM future,
      (items nums).filterMap (fun
        | [s, l] => some ⟨parseInt s, parseInt l⟩
        | _ => none),
      parseInt plen, pB nid, fOptCM ps, fOptCM fs⟩
  | _ => none

def pVariant (f : String) : Variant :=
  match f.splitOn ":" with
  | [a, b, c] => ⟨pB a, pB b, pB c⟩
  | _ => Variant.current

def hBasic : Handler
  | [v, fs] =>
    showToks (dateBasicV (pVariant v) ((items fs).filterMap fun
      | [idx, ms, me, k, ci, cl, cs] => some ⟨parseInt idx, ⟨parseInt ms, parseInt me⟩, optCM k ci cl cs⟩
      | _ => none))
  | _ => "bad-op"

def hToks : Handler
  | [ms] => showToks (tokensOf (pMts ms))
  | _ => "bad-op"

def hKept : Handler
  | [ms] =>
    showToks (tokensOfKept ((items ms).filterMap fun
      | [s, e, k] => some (⟨parseInt s, parseInt e⟩, pB k)
      | _ => none))
  | _ => "bad-op"

def hExt : Handler
  | [si, ei, ext] =>
    let r := extendWdYear (parseInt si) (parseInt ei) (pExt ext)
    s!"{r.1}:{r.2}"
  | _ => "bad-op"

def hNwm : Handler
  | [n, its] =>
    let fs := (recs its).map pNwm
    if fs.any Option.isNone then "bad-op" else showToks (numberWithMonth (parseInt n) (fs.filterMap id))
  | _ => "bad-op"

def hAgo : Handler
  | [n, fs] =>
    let l := (recs fs).map pAgo
    if l.any Option.isNone then "bad-op" else showToks (durationWithBeforeAndAfter (parseInt n) (l.filterMap id))
  | _ => "bad-op"

def hRelDur : Handler
  | [n, ds, ps] =>
    let d := (recs ds).map pDur
    let p := (recs ps).map pInp
    if d.any Option.isNone || p.any Option.isNone then "bad-op"
    else showOptToks (relativeDurationDate (parseInt n) (d.filterMap id) (p.filterMap id))
  | _ => "bad-op"

def hNwu : Handler
  | [cs, a, b, c] =>
    let l := (items cs).filterMap fun
      | [start, len, k, s, e] => some ((⟨parseInt start, parseInt len⟩ : Ent), optMt k s e)
      | _ => none
    showToks (numberWithUnit l (pMts a) (pMts b) (pMts c))
  | _ => "bad-op"

def hSuffix : Handler
  | [ts] =>
    showToks (numberWithUnitAndSuffix ((items ts).filterMap fun
      | [start, stop, k, s, e] => some ((⟨parseInt start, parseInt stop⟩ : Tok), optMt k s e)
      | _ => none))
  | _ => "bad-op"

def hMmd : Handler
  | [its] =>
    showEnts (mergeMultipleDuration ((items its).filterMap fun
      | [start, len, u, c] =>
        let ui := parseInt u
        some ⟨⟨parseInt start, parseInt len⟩, if ui < 0 then none else some ui.toNat, pB c⟩
      | _ => none))
  | _ => "bad-op"

def pCMf (f : String) : Option (CM × Int) :=
  match f.splitOn ":" with
  | [k, i, l, s, first] => if pB k then some (⟨parseInt i, parseInt l, pB s⟩, parseInt first) else none
  | _ => none

def hTag : Handler
  | [start, len, more, less] =>
    let r := tagInequality ⟨parseInt start, parseInt len⟩ (pCMf more) (pCMf less)
    s!"{r.start}:{r.len}"
  | _ => "bad-op"

def hMdt : Handler
  | [v, ers, gates, wid] =>
    let e := (items ers).filterMap fun
      | [start, len, d] => some ((⟨parseInt start, parseInt len⟩ : Ent), pB d)
      | _ => none
    let g := (items gates).filterMap fun
      | [sa, re, c, y] => some (⟨pB sa, pB re, pB c, parseInt y⟩ : Gate)
      | _ => none
    let w := (items wid).filterMap fun
      | [k1, s1, e1, k2, s2, e2] => some (optMt k1 s1 e1, optMt k2 s2 e2)
      | _ => none
    showOptToks (mergeDateAndTime (pVariant v) e g w)
  | _ => "bad-op"

def hTodB : Handler
  | [n, fs, simple] =>
    let l := (items fs).filterMap fun
      | [start, len, k1, s1, e1, k2, s2, e2] => some ((⟨parseInt start, parseInt len⟩ : Ent), optMt k1 s1 e1, optMt k2 s2 e2)
      | _ => none
    showToks (timeOfTodayBefore (parseInt n) l (pMts simple))
  | _ => "bad-op"

def hTodA : Handler
  | [n, fs, simple] =>
    let l := (items fs).filterMap fun
      | [start, len, k, s, e] => some ((⟨parseInt start, parseInt len⟩ : Ent), optMt k s e)
      | _ => none
    showToks (timeOfTodayAfter (parseInt n) l (pMts simple))
  | _ => "bad-op"

def hSpecial : Handler
  | [fs, eod] =>
    let l := (items fs).filterMap fun
      | [start, len, k1, i1, l1, s1, k2, i2, l2, s2] =>
        some ((⟨parseInt start, parseInt len⟩ : Ent), optCM k1 i1 l1 s1, optCM k2 i2 l2 s2)
      | _ => none
    showToks (specialTimeOfDate l (pMts eod))
  | _ => "bad-op"

def hRange : Handler
  | [v, kind, ers, skips, facts] =>
    let k : RangeKind := if kind == "d" then .datePeriod else if kind == "t" then .timePeriod else .dateTimePeriod
    let e := (items ers).filterMap fun
      | [start, len] => some (⟨parseInt start, parseInt len⟩ : Ent)
      | _ => none
    let sk := (items skips).filterMap fun
      | [i] => some (parseNat i)
      | _ => none
    let fs := (items facts).filterMap fun
      | [t, c, fm, fi, bm, bi, am, ai, ld] =>
        some (⟨pB t, pB c, ⟨pB fm, parseInt fi⟩, ⟨pB bm, parseInt bi⟩, ⟨pB am, parseInt ai⟩, parseInt ld⟩ : PairFact)
      | _ => none
    showToks (rangeMerge (pVariant v) k e (fun i => sk.contains i) fs)
  | _ => "bad-op"

def hMdur : Handler
  | [fs] =>
    let l := (recs fs).map pMd
    if l.any Option.isNone then "bad-op" else showToks (matchDuration (l.filterMap id))
  | _ => "bad-op"

def hInside : Handler
  | [n, ts] =>
    let nn := parseInt n
    showBool ((pMts ts).all fun m => decide ((⟨m.s, m.e⟩ : Tok).Inside nn))
  | _ => "bad-op"

end RTV.Drv.Dx

namespace RTV.Drv
open RTV.Drv.Dx

def dispatchDtExtract (op : String) (args : List String) : Option String :=
  match op with
  | "dx.basic" => some (hBasic args)
  | "dx.toks" => some (hToks args)
  | "dx.kept" => some (hKept args)
  | "dx.ext" => some (hExt args)
  | "dx.nwm" => some (hNwm args)
  | "dx.ago" => some (hAgo args)
  | "dx.reldur" => some (hRelDur args)
  | "dx.nwu" => some (hNwu args)
  | "dx.suffix" => some (hSuffix args)
  | "dx.mmd" => some (hMmd args)
  | "dx.tag" => some (hTag args)
  | "dx.mdt" => some (hMdt args)
  | "dx.todb" => some (hTodB args)
  | "dx.toda" => some (hTodA args)
  | "dx.special" => some (hSpecial args)
  | "dx.range" => some (hRange args)
  | "dx.mdur" => some (hMdur args)
  | "dx.inside" => some (hInside args)
  | _ => none

end RTV.Drv
