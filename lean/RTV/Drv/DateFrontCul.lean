import RTV.Drv.DateFront
import RTV.Model.DateFrontX
import RTV.Gen.DateRegexEs
import RTV.Gen.DateRegexFr
import RTV.Gen.DateRegexPt
import RTV.Gen.DateRegexDe
import RTV.Gen.DateRegexIt
import RTV.Gen.DateRegexNl
import RTV.Gen.DtMapsX1
import RTV.Gen.DtMapsX2
/-! Driver handlers for L6 `DateFront` with a CULTURE argument (C06 front end of every BaseDateParser culture whose
`date_regex` list is regenerated: en-us, es-es, es-mx, fr-fr, pt-br, de-de, it-it, nl-nl). Same answers as the `df.*` operations of
RTV/Drv/DateFront.lean (which stay: English), the culture tag comes first:
  dfc.parse <cul> <real|ascii|latin> <cps>        -> idx|prefixed|start|stop|year|month|day|fullyear|weekday | none | unsupported
  dfc.search <cul> <k> <real|ascii|latin> <cps>   -> start|stop|spans | none | unsupported
  dfc.todate <cul> <ref> <cps>                    -> res  (frontToDate, the engine's tables, written year 0) | err:<Kind>
  dfc.resolve <cul> <ref> <cps>                   -> values (frontResolve)
  dfc.abs <cul> <k|all> <c c c;c;c c;…>           -> abstract evaluation (candidates per position), Latin-1 tables
                                                     (= the ASCII tables on ASCII candidates)
  dfc.abspos <cul> <k> <abs>                      -> one letter per start position of the text, `|`, one per start position
                                                     of prefix + text: f fail, b match that is not the whole text at the
                                                     offset, g accepting match, u unknown
-/
namespace RTV.Drv
open RTV.Py RTV.Re RTV.DateFront

/-- what the front end of one culture consists of -/
structure CulFront where
  pre : Str
  regexes : List (Option RE)
  cfg : RTV.DtRes.DateCfg

def mkCfg (moy dom : List (Str × Nat)) : RTV.DtRes.DateCfg :=
  { monthOfYear := moy, dayOfMonth := dom,
    minTwoDigitYearPast := RTV.Gen.DtMaps.minTwoDigitYearPastNum,
    maxTwoDigitYearFuture := RTV.Gen.DtMaps.maxTwoDigitYearFutureNum }

def culFront (tag : String) : Option CulFront :=
  if tag == "en-us" then some ⟨RTV.Gen.DateRegexEn.dateTokenPrefix, RTV.Gen.DateRegexEn.dateRegexes, dfCfg⟩
  else if tag == "es-es" then
    some ⟨RTV.Gen.DateRegexEs.dateTokenPrefix, RTV.Gen.DateRegexEs.dateRegexes,
      mkCfg RTV.Gen.DtMaps.monthOfYear_es RTV.Gen.DtMaps.dayOfMonth_es⟩
  else if tag == "es-mx" then
    some ⟨RTV.Gen.DateRegexEs.dateTokenPrefix, RTV.Gen.DateRegexEs.dateRegexes,
      mkCfg RTV.Gen.DtMaps.monthOfYear_esmx RTV.Gen.DtMaps.dayOfMonth_esmx⟩
  else if tag == "fr-fr" then
    some ⟨RTV.Gen.DateRegexFr.dateTokenPrefix, RTV.Gen.DateRegexFr.dateRegexes,
      mkCfg RTV.Gen.DtMaps.monthOfYear_fr RTV.Gen.DtMaps.dayOfMonth_fr⟩
  else if tag == "pt-br" then
    some ⟨RTV.Gen.DateRegexPt.dateTokenPrefix, RTV.Gen.DateRegexPt.dateRegexes,
      mkCfg RTV.Gen.DtMaps.monthOfYear_pt RTV.Gen.DtMaps.dayOfMonth_pt⟩
  else if tag == "de-de" then
    some ⟨RTV.Gen.DateRegexDe.dateTokenPrefix, RTV.Gen.DateRegexDe.dateRegexes,
      mkCfg RTV.Gen.DtMaps.monthOfYear_de RTV.Gen.DtMaps.dayOfMonth_de⟩
  else if tag == "it-it" then
    some ⟨RTV.Gen.DateRegexIt.dateTokenPrefix, RTV.Gen.DateRegexIt.dateRegexes,
      mkCfg RTV.Gen.DtMaps.monthOfYear_it RTV.Gen.DtMaps.dayOfMonth_it⟩
  else if tag == "nl-nl" then
    some ⟨RTV.Gen.DateRegexNl.dateTokenPrefix, RTV.Gen.DateRegexNl.dateRegexes,
      mkCfg RTV.Gen.DtMaps.monthOfYear_nl RTV.Gen.DtMaps.dayOfMonth_nl⟩
  else none

/-- `real` = the tables of the running `regex` module, `ascii`, `latin` (ASCII + the Latin-1 letters as `\w`) -/
def dfcTables (w : String) : Tables :=
  if w == "ascii" then asciiTables else if w == "latin" then latinTables else RTV.Gen.reTables

def hDfcParse : Handler
  | [c, w, s] =>
    match culFront c with
    | none => "bad-culture"
    | some F =>
      let T := dfcTables w
      let src := parseCps s
      let t := strip drvUni0.isSpace src
      match parseBasicO (conc T t.toArray) (conc T (F.pre ++ t).toArray) F.pre.length F.regexes 0 with
      | none => "unsupported"
      | some none => "none"
      | some (some h) =>
        let txt := if h.prefixed then F.pre ++ t else t
        s!"{h.idx}|{showBool h.prefixed}|{h.m.start}|{h.m.stop}|{showEnvTexts txt h.m.env}"
  | _ => "bad-op"

def hDfcSearch : Handler
  | [c, k, w, s] =>
    match culFront c with
    | none => "bad-culture"
    | some F =>
      match F.regexes[parseNat k]? with
      | some (some r) =>
        match searchO (conc (dfcTables w) (parseCps s).toArray) r with
        | some (some m) => s!"{m.start}|{m.stop}|{showEnvSpans m.env}"
        | _ => "none"
      | _ => "unsupported"
  | _ => "bad-op"

def hDfcToDate : Handler
  | [c, ref, s] =>
    match culFront c with
    | none => "bad-culture"
    | some F => showExcept showRes (frontToDate RTV.Gen.reTables drvUni0 F.cfg F.pre F.regexes (parseCps s) 0 (parseDT ref))
  | _ => "bad-op"

def hDfcResolve : Handler
  | [c, ref, s] =>
    match culFront c with
    | none => "bad-culture"
    | some F => showExcept showValues (frontResolve RTV.Gen.reTables drvUni0 F.cfg F.pre F.regexes (parseCps s) 0 (parseDT ref))
  | _ => "bad-op"

def hDfcAbs : Handler
  | [c, k, a] =>
    match culFront c with
    | none => "bad-culture"
    | some F =>
      let A := parseAbs a
      let OT := absO latinTables A.toArray
      let OP := absO latinTables ((F.pre.map fun c => [c]) ++ A).toArray
      if k == "all" then
        match parseBasicO OT OP F.pre.length F.regexes 0 with
        | none => "unk"
        | some none => "none"
        | some (some h) => s!"{h.idx}|{showBool h.prefixed}|{h.m.start}|{h.m.stop}|{showEnvSpans h.m.env}"
      else
        match F.regexes[parseNat k]? with
        | some (some r) =>
          match stepO OT OP F.pre.length r with
          | none => "unk"
          | some none => "none"
          | some (some (p, m)) => s!"{showBool p}|{m.start}|{m.stop}|{showEnvSpans m.env}"
        | _ => "unsupported"
  | _ => "bad-op"

def posLetter (off n p : Nat) (x : R) : String :=
  match x with
  | .unk => "u"
  | .fail => "f"
  | .found j _ => if p == off && j - p == n then "g" else "b"

def hDfcAbsPos : Handler
  | [c, k, a] =>
    match culFront c with
    | none => "bad-culture"
    | some F =>
      let A := parseAbs a
      let OT := absO latinTables A.toArray
      let OP := absO latinTables ((F.pre.map fun c => [c]) ++ A).toArray
      match F.regexes[parseNat k]? with
      | some (some r) =>
        let ts := (List.range (A.length + 1)).map fun p => posLetter 0 A.length p (attempt OT r p)
        let ps := (List.range (F.pre.length + A.length + 1)).map fun p => posLetter F.pre.length A.length p (attempt OP r p)
        String.join ts ++ "|" ++ String.join ps
      | _ => "unsupported"
  | _ => "bad-op"

def dispatchDateFrontCul (op : String) (args : List String) : Option String :=
  match op with
  | "dfc.parse" => some (hDfcParse args)
  | "dfc.search" => some (hDfcSearch args)
  | "dfc.todate" => some (hDfcToDate args)
  | "dfc.resolve" => some (hDfcResolve args)
  | "dfc.abs" => some (hDfcAbs args)
  | "dfc.abspos" => some (hDfcAbsPos args)
  | _ => none

end RTV.Drv
