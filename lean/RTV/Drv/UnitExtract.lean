import RTV.Drv.Proto
import RTV.Drv.Unit
import RTV.Model.UnitExtract
/-! Driver handlers for L10b `UnitExtract` (C05, the NumberWithUnit extractor). Lists are `;`-joined items with
`:`-separated sub-fields, `_` = empty list; strings are code points.
  ux.extract <stage pre|full> <src> <connector> <maxPrefixLen> <isCurrency> <isDimension>
             <pm start:len:text;..> <sm ..> <nums1 start:len:text;..> <nums2 ..> <cuts n|k,..> <nonUnit start:len;..>
             <hasSeparate> <sep start:text;..> <ambTerm> <filt1> <filt2> <half 0101..> <pristineHalf 0|1> <lockstep 0|1>
             filt = `<scu hit texts t,t,..|_>|<key hit texts t,t,..|_>~<value matches start:len;..|_>|…` (one `~` group per
             dictionary entry, in order)
        -> `<results start:len:rel|n:text;..>#<unit_is_prefix flags as passed to _select_candidates>#<source after the comma rewrite>`  or err:IndexError
  ux.select <srcLen> <ers start:len:rel|n:text;..> <flags>      -> results or err:IndexError
  ux.maxsuffix <src> <connector> <firstIndex> <sm>              -> max_len
  ux.bestprefix <src> <start> <pm>                              -> start:len or none
  ux.merge <src> <ers start:len:isNum:typ:nonInt:text;..> <nums ..> <gaps b:e;.. (pairs with gapOK)>
        -> `start:len:members:text;..` or err:IndexError      (BaseMergedUnitExtractor.__merged_compound_units) -/
namespace RTV.Drv
open RTV.UnitExtract
namespace UX

def splitList (f : String) : List String := if f == "_" || f == "" then [] else f.splitOn ";"

def parseMRs (f : String) : List MR :=
  (splitList f).filterMap fun it =>
    match it.splitOn ":" with
    | [s, l, t] => some ⟨parseNat s, parseNat l, parseCps t⟩
    | _ => none

def parseNums (f : String) : List Num :=
  (splitList f).filterMap fun it =>
    match it.splitOn ":" with
    | [s, l, t] => some ⟨parseNat s, parseNat l, parseCps t⟩
    | _ => none

def parsePairs (f : String) : List (Nat × Nat) :=
  (splitList f).filterMap fun it =>
    match it.splitOn ":" with
    | [s, l] => some (parseNat s, parseNat l)
    | _ => none

def parseSeps (f : String) : List (Nat × List Nat) :=
  (splitList f).filterMap fun it =>
    match it.splitOn ":" with
    | [s, t] => some (parseNat s, parseCps t)
    | _ => none

def parseCuts (f : String) : List (Option Nat) :=
  if f == "_" || f == "" then [] else (f.splitOn ",").map fun x => if x == "n" then none else some (parseNat x)

def parseMask (f : String) : List Bool :=
  if f == "_" then [] else f.toList.map (· == '1')

def parseTexts (f : String) : List (List Nat) :=
  if f == "_" || f == "" then [] else (f.splitOn ",").map parseCps

def parseFilterSpec (f : String) : FilterSpec :=
  match f.splitOn "|" with
  | scu :: fs =>
    let scuHits := parseTexts scu
    { scu := fun t => scuHits.contains t,
      filters := fs.filterMap fun g =>
        match g.splitOn "~" with
        | [k, v] => let hits := parseTexts k; some { keyHit := fun t => hits.contains t, valMatches := parsePairs v }
        | _ => none }
  | [] => { scu := fun _ => false, filters := [] }

def showMask (l : List Bool) : String := if l.isEmpty then "_" else String.ofList (l.map fun b => if b then '1' else '0')

def showERs (l : List ER) : String :=
  if l.isEmpty then "_" else
  ";".intercalate (l.map fun e =>
    s!"{e.start}:{e.len}:" ++ (match e.data with | some d => toString d.start | none => "n") ++ ":" ++ showCps e.text)

/-- results carry the number's length and text too when they come back in (for `noSpaceUnit` only `data.start` is read) -/
def parseERs (f : String) : List ER :=
  (splitList f).filterMap fun it =>
    match it.splitOn ":" with
    | [s, l, r, t] =>
      some ⟨parseNat s, parseNat l, parseCps t, if r == "n" then none else some ⟨parseNat r, 0, []⟩⟩
    | _ => none

def hUxExtract : Handler
  | [stage, src, conn, mpl, isCur, isDim, pm, sm, n1, n2, cuts, nonUnit, hasSep, sep, amb, m1, m2, half, pristine, lockstep] =>
    let c : Cfg := ⟨pySpace, parseCps conn, parseNat mpl, parseBool isCur, parseBool isDim⟩
    let i : Inputs := ⟨parseCps src, parseMRs pm, parseMRs sm, parseNums n1, parseNums n2, parseCuts cuts,
      parsePairs nonUnit, parseBool hasSep, parseSeps sep, parseCps amb, parseFilterSpec m1, parseFilterSpec m2, parseMask half,
      parseBool pristine, parseBool lockstep⟩
    let r := if stage == "full" then extract c i else extractPre c i
    match r with
    | none => "err:IndexError"
    | some rs => showERs rs ++ "#" ++ showMask (selectFlags c i) ++ "#" ++ showCps (fixedSource c i)
  | _ => "bad-op"

def hUxSelect : Handler
  | [srcLen, ers, flags] =>
    match selectCandidates pySpace (parseNat srcLen) (parseERs ers) (parseMask flags) with
    | none => "err:IndexError"
    | some rs => showERs rs
  | _ => "bad-op"

def hUxMaxSuffix : Handler
  | [src, conn, fi, sm] =>
    let c : Cfg := ⟨pySpace, parseCps conn, 0, false, false⟩
    toString (maxSuffix c (parseCps src) (parseNat fi) (parseMRs sm))
  | _ => "bad-op"

def hUxBestPrefix : Handler
  | [src, start, pm] =>
    match bestPrefix pySpace (parseCps src) (parseNat start) (parseMRs pm) with
    | none => "none"
    | some m => s!"{m.start}:{m.len}"
  | _ => "bad-op"

def parseItems (f : String) : List Item :=
  (splitList f).filterMap fun it =>
    match it.splitOn ":" with
    | [s, l, n, ty, ni, t] => some ⟨parseNat s, parseNat l, parseCps t, parseBool n, parseNat ty, parseBool ni⟩
    | _ => none

def hUxMerge : Handler
  | [src, ers, nums, gaps] =>
    let gs := parsePairs gaps
    let gapOK := fun b e => gs.any fun p => p.1 == b && p.2 == e
    match mergedCompoundUnits pySpace (parseCps src) gapOK (parseItems ers) (parseItems nums) with
    | none => "err:IndexError"
    | some rs =>
      if rs.isEmpty then "_" else
      ";".intercalate (rs.map fun g => s!"{g.start}:{g.len}:{g.members}:" ++ showCps g.text)
  | _ => "bad-op"

end UX
open UX in
def dispatchUnitExtract (op : String) (args : List String) : Option String :=
  match op with
  | "ux.extract" => some (hUxExtract args)
  | "ux.select" => some (hUxSelect args)
  | "ux.maxsuffix" => some (hUxMaxSuffix args)
  | "ux.bestprefix" => some (hUxBestPrefix args)
  | "ux.merge" => some (hUxMerge args)
  | _ => none

end RTV.Drv
