import RTV.Drv.Proto
import RTV.Drv.Periods
import RTV.Model.DtPeriod
/-! Driver handlers for L5 `DtPeriod` (BaseDateTimePeriodParser computations; C10 / C11). A reference is four fields
`Y M D secs`, a datetime argument is `Y-M-D@secs`, a TIMEX argument is plain text (`-` = empty), a flag is `0`/`1`.
Answer: `timex TAB futureBegin TAB futureEnd TAB pastBegin TAB pastEnd` | `none` | `err:Other`, followed by
`TAB ampm-flag` for the operations marked (+c).
  dp.merge both|begin|end fb pb timex1 fe pe timex2 c1 c2 fixes                 (+c)   fixes = three flags `bep` (e.g. `101`)
  dp.datetp fd pd dateTimex tpTimex beginTime endTime tpAmPm fixes              (+c)
  dp.simple beginHour endHour isAm isPm fd pd dateTimex                        (+c)
  dp.tod Y M D secs swift morning|afternoon|evening|night early late
  dp.datetod fd pd dateTimex tod early late
  dp.datetodp fd pd dateTimex tod early late pfb pfe ppb ppe
  dp.dur Y M D secs swiftSeconds durTimex prevBefore withinBefore withinAfter futureBefore prevAfter futureAfter futureSuffixAfter
  dp.rel Y M D secs D|H|M|S past
  dp.table tod                          -> timeStr beginHour endHour endMin
  dp.span diffSeconds                   -> luis_time_span text -/
namespace RTV.Drv.DtPeriodH
open RTV.Drv RTV.Py RTV.Cal RTV.DateUtils RTV.Periods RTV.DtPeriod RTV.Drv.PeriodsH

def tx (f : String) : Str := if f == "-" then [] else str f

def parseTod (f : String) : Tod :=
  match f with
  | "morning" => .morning | "afternoon" => .afternoon | "evening" => .evening | _ => .night

def parseEnds (f : String) : Ends :=
  match f with
  | "both" => .both | "begin" => .beginHasDate | _ => .endHasDate

def parseRel (f : String) : RelUnit :=
  match f with
  | "D" => .D | "H" => .H | "M" => .M | _ => .S

def parseFixes (f : String) : Fixes :=
  match f.toList with
  | [a, b, c] => ⟨a == '1', b == '1', c == '1'⟩
  | _ => ⟨false, false, false⟩

def showC (r : Res × Bool) : String := s!"{showRes r.1}\t{showBool r.2}"

end RTV.Drv.DtPeriodH
namespace RTV.Drv
open RTV.Drv.PeriodsH RTV.Drv.DtPeriodH RTV.DtPeriod RTV.Py in
def dispatchDtPeriod (op : String) (args : List String) : Option String :=
  match op, args with
  | "dp.merge", [k, fb, pb, t1, fe, pe, t2, c1, c2, fx] =>
    some (showC (mergeTwoTimePointsV (parseFixes fx) (parseEnds k) (parseDT fb) (parseDT pb) (tx t1) (parseDT fe) (parseDT pe) (tx t2)
      (parseBool c1) (parseBool c2)))
  | "dp.datetp", [fd, pd, dt, tt, bt, et, c, fx] =>
    some (showC (mergeDateAndTimePeriodV (parseFixes fx) (parseDT fd) (parseDT pd) (tx dt) (tx tt) (parseDT bt) (parseDT et) (parseBool c)))
  | "dp.simple", [bh, eh, am, pm, fd, pd, dt] =>
    some (showC (simpleCases (parseNat bh) (parseNat eh) (parseBool am) (parseBool pm) (parseDT fd) (parseDT pd) (tx dt)))
  | "dp.tod", [y, m, d, s, sw, tod, e, l] =>
    some (showRes (specificTimeOfDay (mkDT y m d s) (parseInt sw) (parseTod tod) (parseBool e) (parseBool l)))
  | "dp.datetod", [fd, pd, dt, tod, e, l] =>
    some (showRes (dateTimeOfDay (parseDT fd) (parseDT pd) (tx dt) (parseTod tod) (parseBool e) (parseBool l)))
  | "dp.datetodp", [fd, pd, dt, tod, e, l, a, b, c, d] =>
    some (showRes (dateTimeOfDayPeriod (parseDT fd) (parseDT pd) (tx dt) (parseTod tod) (parseBool e) (parseBool l)
      (parseDT a) (parseDT b) (parseDT c) (parseDT d)))
  | "dp.dur", [y, m, d, s, sw, dt, f1, f2, f3, f4, f5, f6, f7] =>
    some (showRes (parseDuration (mkDT y m d s) (parseNat sw) (tx dt)
      ⟨parseBool f1, parseBool f2, parseBool f3, parseBool f4, parseBool f5, parseBool f6, parseBool f7⟩))
  | "dp.rel", [y, m, d, s, u, p] => some (showRes (relativeUnit (mkDT y m d s) (parseRel u) (parseBool p)))
  | "dp.table", [tod] =>
    let v := (parseTod tod).range
    some s!"{toString' v.timeStr}\t{v.beginHour}\t{v.endHour}\t{v.endMin}"
  | "dp.span", [t] => some (toString' (luisTimeSpanI (parseInt t)))
  | _, _ => none

end RTV.Drv
