import RTV.Drv.Proto
import RTV.Model.Unit
import RTV.Gen.CharTables
/-! Driver handlers for L10 `Unit` (C05). Fields are TAB separated; a table is sent as
`<nRows> (<key cps> <value cps>)*`.
  bindall <nTables> <table>*                      -> bound unit map in insertion order: `form cps=unit cps;...`
  parseunits <connector cps> <nTables> <table>* <nQ> (<text cps> <numStart> <numLen>)*
                                                  -> `;`-joined units (cps) or `none`
  parsefulls <connector cps> <nTables> <table>* <nQ> (<text cps> <numStart> <numLen> <numRes cps|none> <half text:len:res|none>)*
                                                  -> `;`-joined `u:<unit>:<number|None>:<resolution>` | `novalue` | err:IndexError | err:TypeError
  ukeys <text cps> <numStart> <numLen>            -> `;`-joined keys (cps)
  iso <nRows> (<name> <code>)* <unit cps>         -> `nokey` | `null` | code cps
  compound <nNum> <nScale> <mNum> <mScale> <k>    -> `<num> <scale>` -/
namespace RTV.Drv
open RTV.Py RTV.Unit

def pySpace (c : Nat) : Bool := inRangesArr RTV.Gen.spaceRanges c

def lowerLookup (c : Nat) : List Nat :=
  match RTV.Gen.lowerExpanding.find? (fun p => p.1 == c) with
  | some (_, l) => l
  | none =>
    let arr := RTV.Gen.lowerPairs
    let rec go (fuel lo hi : Nat) : List Nat :=
      match fuel with
      | 0 => [c]
      | fuel + 1 =>
        if lo ≥ hi then [c]
        else
          let mid := (lo + hi) / 2
          let (a, b) := arr[mid]!
          if c < a then go fuel lo mid else if c > a then go fuel (mid + 1) hi else [b]
    go (arr.size + 1) 0 arr.size

/-- `str.lower()` per code point (the context-sensitive final-sigma rule is not modelled). -/
def pyLower (s : List Nat) : List Nat := s.flatMap lowerLookup

def takeTable (n : Nat) (fs : List String) : Dict × List String :=
  let rec go (n : Nat) (fs : List String) (acc : Dict) : Dict × List String :=
    match n, fs with
    | 0, fs => (acc.reverse, fs)
    | n + 1, k :: v :: rest => go n rest ((parseCps k, parseCps v) :: acc)
    | _, _ => (acc.reverse, [])
  go n fs []

def takeTables (n : Nat) (fs : List String) : List Dict × List String :=
  let rec go (n : Nat) (fs : List String) (acc : List Dict) : List Dict × List String :=
    match n, fs with
    | 0, fs => (acc.reverse, fs)
    | n + 1, cnt :: rest =>
      let (t, rest') := takeTable (parseNat cnt) rest
      go n rest' (t :: acc)
    | _, _ => (acc.reverse, [])
  go n fs []

def hBindAll : Handler
  | n :: rest =>
    let (tables, _) := takeTables (parseNat n) rest
    ";".intercalate ((buildUnitMap pySpace tables).map fun (k, v) => showCps k ++ "=" ++ showCps v)
  | _ => "bad-op"

def hParseUnits : Handler
  | conn :: n :: rest =>
    let (tables, rest) := takeTables (parseNat n) rest
    let um := buildUnitMap pySpace tables
    match rest with
    | nq :: qs =>
      let rec go (n : Nat) (qs : List String) (acc : List String) : List String :=
        match n, qs with
        | n + 1, t :: s :: l :: more =>
          let r := parseUnit pySpace pyLower um (parseCps conn) (parseCps t) (parseInt s) (parseNat l)
          go n more ((showOpt showCps r) :: acc)
        | _, _ => acc.reverse
      ";".intercalate (go (parseNat nq) qs [])
    | _ => "bad-op"
  | _ => "bad-op"

def parseHalf (f : String) : Option Half :=
  if f == "none" then none else
  match f.splitOn ":" with
  | [t, l, r] => some ⟨parseCps t, parseNat l, if r == "none" then none else some (parseCps r)⟩
  | _ => none

def showParseOut : ParseOut → String
  | .noValue => "novalue"
  | .indexError => "err:IndexError"
  | .typeError => "err:TypeError"
  | .unitValue n u r => "u:" ++ showCps u ++ ":" ++ (match n with | some x => showCps x | none => "None") ++ ":" ++ showCps r

def hParseFulls : Handler
  | conn :: n :: rest =>
    let (tables, rest) := takeTables (parseNat n) rest
    let um := buildUnitMap pySpace tables
    match rest with
    | nq :: qs =>
      let rec go (n : Nat) (qs : List String) (acc : List String) : List String :=
        match n, qs with
        | n + 1, t :: s :: l :: nr :: h :: more =>
          let r := parseFull pySpace pyLower um (parseCps conn) (parseCps t) (parseInt s) (parseNat l)
            (if nr == "none" then none else some (parseCps nr)) (parseHalf h)
          go n more (showParseOut r :: acc)
        | _, _ => acc.reverse
      ";".intercalate (go (parseNat nq) qs [])
    | _ => "bad-op"
  | _ => "bad-op"

def hUKeys : Handler
  | [t, s, l] => ";".intercalate ((unitKeys pySpace (parseCps t) (parseInt s) (parseNat l)).map showCps)
  | _ => "bad-op"

def hIso : Handler
  | n :: rest =>
    let (tbl, rest) := takeTable (parseNat n) rest
    match rest with
    | [u] => match isoOf tbl (parseCps u) with
      | none => "nokey"
      | some none => "null"
      | some (some c) => showCps c
    | _ => "bad-op"
  | _ => "bad-op"

def hCompound : Handler
  | [a, b, c, d, k] =>
    let r := addFraction ⟨parseNat a, parseNat b⟩ ⟨parseNat c, parseNat d⟩ (parseNat k)
    s!"{r.num} {r.scale}"
  | _ => "bad-op"

def dispatchUnit (op : String) (args : List String) : Option String :=
  match op with
  | "bindall" => some (hBindAll args)
  | "parseunits" => some (hParseUnits args)
  | "parsefulls" => some (hParseFulls args)
  | "ukeys" => some (hUKeys args)
  | "iso" => some (hIso args)
  | "compound" => some (hCompound args)
  | _ => none

end RTV.Drv
