import RTV.Drv.Proto
import RTV.Model.ResGen
import RTV.Model.ResGenEmit
/-! Driver handlers for L12 `ResGen` (C18):
  sanitize <cps>        -> cps of sanitize(value, None, None)
  sanitizet <cps> <tok cps>... -> cps of sanitize(value, None, tokens)
  centry <cps>          -> cps of create_entry(value, 'string')
  rg.mod <HEADER_COMMENT> <header> <footer> <nenv> (<name> <value>)* <ndefs> <def>*
        -> for every definition: <emitted text> <value tokens>, then <assembled module text>
     a definition is one of
        S <name> <def>                         !simpleRegex
        N <name> <def> <k> <ref>*k             !nestedRegex
        P <name> <def> <k> <param>*k <arg>*k   !paramsRegex (+ the arguments to call it with)
        D <name> <keyType> <valueType> <n> (<key> (s <value> | l <m> <item>*m))*n     !dictionary
        L <name> <type> <n> <entry>*n          !list
        A <name> <n> <entry>*n                 untagged sequence
        B <name> <0|1>                         bool
        T <name> <text>                        untagged str scalar
        I <name> <int>                         untagged int scalar
     value tokens: x (not evaluable) | s <cps> | b <0|1> | n <mantissa> <decimals> | l <n> <cps>*n | o <cps>
        | d <n> (<value> <value>)*n | f (s <cps> | x)
  rg.evalf <body> <nenv> (<name> <value>)*     -> value of f'<body>' (cps) or none
  rg.evalsq <body>     -> value of '<body>' or none
  rg.evalraw <body>    -> value of r'<body>' or none
  rg.subst <def> <k> <ref>*k <nenv> (<name> <value>)*   -> the specification `subst`
  rg.split <text>      -> str.splitlines(): <n> <line>*n -/
namespace RTV.Drv
open RTV.ResGen

def takeStrs : Nat → List String → Option (List Str × List String)
  | 0, r => some ([], r)
  | _ + 1, [] => none
  | n + 1, x :: r => (takeStrs n r).map fun p => (parseCps x :: p.1, p.2)

def takePairs : Nat → List String → Option (List (Str × Str) × List String)
  | 0, r => some ([], r)
  | n + 1, a :: b :: r => (takePairs n r).map fun p => ((parseCps a, parseCps b) :: p.1, p.2)
  | _ + 1, _ => none

def takeDictEntries : Nat → List String → Option (List (Str × DictVal) × List String)
  | 0, r => some ([], r)
  | n + 1, k :: "s" :: v :: r => (takeDictEntries n r).map fun p => ((parseCps k, .scalar (parseCps v)) :: p.1, p.2)
  | n + 1, k :: "l" :: m :: r =>
    match takeStrs (parseNat m) r with
    | some (items, r') => (takeDictEntries n r').map fun p => ((parseCps k, .list items) :: p.1, p.2)
    | none => none
  | _ + 1, _ => none

structure DefIn where
  name : Str
  tok : Token
  args : List Str := []

def takeDef : List String → Option (DefIn × List String)
  | "S" :: name :: d :: r => some ({ name := parseCps name, tok := .simpleRegex (parseCps d) }, r)
  | "N" :: name :: d :: k :: r =>
    (takeStrs (parseNat k) r).map fun p => ({ name := parseCps name, tok := .nestedRegex (parseCps d) p.1 }, p.2)
  | "P" :: name :: d :: k :: r =>
    match takeStrs (parseNat k) r with
    | some (ps, r1) =>
      (takeStrs (parseNat k) r1).map fun p => ({ name := parseCps name, tok := .paramsRegex (parseCps d) ps, args := p.1 }, p.2)
    | none => none
  | "D" :: name :: kt :: vt :: n :: r =>
    (takeDictEntries (parseNat n) r).map fun p =>
      ({ name := parseCps name, tok := .dictionary (parseCps kt) (parseCps vt) p.1 }, p.2)
  | "L" :: name :: t :: n :: r =>
    (takeStrs (parseNat n) r).map fun p => ({ name := parseCps name, tok := .list (parseCps t) p.1 }, p.2)
  | "A" :: name :: n :: r =>
    (takeStrs (parseNat n) r).map fun p => ({ name := parseCps name, tok := .plainList p.1 }, p.2)
  | "B" :: name :: b :: r => some ({ name := parseCps name, tok := .bool (parseBool b) }, r)
  | "T" :: name :: s :: r => some ({ name := parseCps name, tok := .defaultStr (parseCps s) }, r)
  | "I" :: name :: i :: r => some ({ name := parseCps name, tok := .defaultInt (parseInt i) }, r)
  | _ => none

def takeDefs : Nat → List String → Option (List DefIn × List String)
  | 0, r => some ([], r)
  | n + 1, r =>
    match takeDef r with
    | some (d, r1) => (takeDefs n r1).map fun p => (d :: p.1, p.2)
    | none => none

def showVal : Val → List String
  | .str s => ["s", showCps s]
  | .bool b => ["b", showBool b]
  | .num m d => ["n", toString m, toString d]
  | .list xs => ["l", toString xs.length] ++ xs.map showCps
  | .other t => ["o", showCps t]

def showDefVal (args : List Str) : DefVal → List String
  | .val v => showVal v
  | .dict es => ["d", toString es.length] ++ es.flatMap fun kv => showVal kv.1 ++ showVal kv.2
  | .func ps body =>
    match callFunc ps body args with
    | some v => ["f", "s", showCps v]
    | none => ["f", "x"]

/-- emit + evaluate the definitions in order; the environment grows by every string-valued definition -/
def runDefs : List DefIn → List (Str × Str) → List Str → List String → List Str × List String
  | [], _, texts, out => (texts.reverse, out.reverse)
  | d :: rest, env, texts, out =>
    let text := writeToken d.name d.tok
    match evalBlock (lookup env) text with
    | some (n, v) =>
      if n = d.name then
        let env' := match v with
          | .val (.str s) => (n, s) :: env
          | _ => env
        runDefs rest env' (text :: texts) ((showDefVal d.args v).reverse ++ (showCps text :: out))
      else runDefs rest env (text :: texts) ("x" :: showCps text :: out)
    | none => runDefs rest env (text :: texts) ("x" :: showCps text :: out)

def hMod (args : List String) : String :=
  match args with
  | hc :: header :: footer :: nenv :: r =>
    match takePairs (parseNat nenv) r with
    | some (env, ndefs :: r1) =>
      match takeDefs (parseNat ndefs) r1 with
      | some (defs, []) =>
        let (texts, out) := runDefs defs env.reverse [] []
        "\t".intercalate (out ++ [showCps (assemble (parseCps hc) (parseCps header) (parseCps footer) texts)])
      | _ => "err:Other"
    | _ => "err:Other"
  | _ => "err:Other"

def showOptCps : Option Str → String
  | some s => showCps s
  | none => "none"

def dispatchResGen (op : String) (args : List String) : Option String :=
  match op, args with
  | "sanitize", [s] => some (showCps (sanitize (parseCps s) []))
  | "sanitizet", s :: toks => some (showCps (sanitize (parseCps s) (toks.map parseCps)))
  | "centry", [s] => some (showCps (createEntryString (parseCps s)))
  | "rg.mod", args => some (hMod args)
  | "rg.evalf", body :: nenv :: r =>
    match takePairs (parseNat nenv) r with
    | some (env, _) => some (showOptCps (evalFE (lookup env) (parseCps body)))
    | none => some "err:Other"
  | "rg.evalsq", [body] => some (showOptCps (evalSQ (parseCps body)))
  | "rg.evalraw", [body] =>
    some (match pRaw 39 false (parseCps body ++ [39]) with
      | some (v, []) => showCps v
      | _ => "none")
  | "rg.subst", d :: k :: r =>
    match takeStrs (parseNat k) r with
    | some (refs, nenv :: r1) =>
      match takePairs (parseNat nenv) r1 with
      | some (env, _) => some (showOptCps (subst (lookup env) refs (parseCps d)))
      | none => some "err:Other"
    | _ => some "err:Other"
  | "rg.split", [s] =>
    let ls := splitlines (parseCps s)
    some ("\t".intercalate (toString ls.length :: ls.map showCps))
  | _, _ => none

end RTV.Drv
