import RTV.Drv.Proto
import RTV.Model.ResGen
/-! Driver handlers for L12 `ResGen` (C18):
  sanitize <cps>        -> cps of sanitize(value, None, None)
  sanitizet <cps> <tok cps>... -> cps of sanitize(value, None, tokens)
  centry <cps>          -> cps of create_entry(value, 'string') -/
namespace RTV.Drv
open RTV.ResGen

def dispatchResGen (op : String) (args : List String) : Option String :=
  match op, args with
  | "sanitize", [s] => some (showCps (sanitize (parseCps s) []))
  | "sanitizet", s :: toks => some (showCps (sanitize (parseCps s) (toks.map parseCps)))
  | "centry", [s] => some (showCps (createEntryString (parseCps s)))
  | _, _ => none

end RTV.Drv
