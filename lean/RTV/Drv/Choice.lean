import RTV.Drv.Proto
import RTV.Model.Choice
import RTV.Model.ChoiceEnv
import RTV.Model.Preprocess
import RTV.Gen.RegexesChoice
import RTV.Gen.CharTables
import RTV.Gen.Emoji
/-! Driver handlers for L11 `Choice` (C20).
  bool.rec <fixed|prefix> <cps>                          -> start:stop:textcps:0|1:num/den;…  (recognize_boolean; the reported score)  | err:Other
  bool.extract <fixed|prefix> <cps>                      -> start:len:textcps:0|1:num/den;…                  | err:Other
  bool.tok <cps>                          -> cps;cps;…   (`-` for none: `none`)
  bool.mv <miss> <start> <n> <src tok>… <match tok>…   -> num/den | err:ZeroDivisionError
  bool.rewrite <fixed|prefix> <cps>                      -> cps   (remove_unicode_matches on the pattern text)
-/
namespace RTV.Drv
open RTV.Py RTV.Re RTV.Choice

def boolEnv : Env := RTV.Choice.genEnv

/-- variant string: any of `prefix` (span offset), `miss1` (index_of answers 1), `noinit` (parse_results unbound),
`pscore0` (the parser reports the default score 0.0), joined by `+`; `fixed` = current code -/
def pickEnv (w : String) : Env :=
  let ps := w.splitOn "+"
  { RTV.Choice.genEnv with
    useMatchOffset := !ps.contains "prefix"
    missIndex := if ps.contains "miss1" then 1 else -1
    parseInit := !ps.contains "noinit"
    parserKeepsScore := !ps.contains "pscore0" }

def showScore (s : Score) : String := s!"{s.num}/{s.den}"

def hBoolRec : Handler
  | [w, q] => match recognise (pickEnv w) (parseCps q) with
    | some rs => ";".intercalate (rs.map fun r => s!"{r.start}:{r.stop}:{showCps r.text}:{showBool r.value}:{showScore r.score}")
    | none => "err:Other"
  | _ => "bad-op"

def hBoolExtract : Handler
  | [w, q] => match extract (pickEnv w) (parseCps q) with
    | some rs => ";".intercalate (rs.map fun r =>
        s!"{r.start}:{r.len}:{showCps r.text}:{showBool r.value}:{showScore r.score}")
    | none => "err:Other"
  | _ => "bad-op"

def hBoolTok : Handler
  | [q] =>
    let ts := tokenize boolEnv (parseCps q)
    if ts.isEmpty then "none" else ";".intercalate (ts.map showCps)
  | _ => "bad-op"

def hBoolMv : Handler
  | ms :: st :: n :: rest =>
    let k := parseNat n
    let src := (rest.take k).map parseCps
    let m := (rest.drop k).map parseCps
    match matchValue (parseInt ms) src m (parseInt st) with
    | some sc => showScore sc
    | none => "err:ZeroDivisionError"
  | _ => "bad-op"

def hBoolRewrite : Handler
  | [w, p] => showCps (if w == "prefix" then removeUnicodeMatchesPreFix (parseCps p) else removeUnicodeMatches (parseCps p))
  | _ => "bad-op"

def dispatchChoice (op : String) (args : List String) : Option String :=
  match op with
  | "bool.rec" => some (hBoolRec args)
  | "bool.extract" => some (hBoolExtract args)
  | "bool.tok" => some (hBoolTok args)
  | "bool.mv" => some (hBoolMv args)
  | "bool.rewrite" => some (hBoolRewrite args)
  | _ => none

end RTV.Drv
