import RTV.Drv.Proto
import RTV.Drv.Periods
import RTV.Model.ZhTimePeriod
/-! Driver handlers for L5 `ZhTimePeriod` (the remaining Chinese date-time parsers; C10 / C11 / C07). A reference is four
fields `Y M D secs`, a datetime argument is `Y-M-D@secs`, Chinese text is space-separated code points, a TIMEX argument is
plain text. A `TimeResult` argument is four fields `hour minute second desc` with `desc` = `n` (no day description) | `-`
(a description that is not in `low_bound_map`) | the low bound. Range answer as `pd.*`:
`timex TAB futureBegin TAB futureEnd TAB pastBegin TAB pastEnd` | `none` | `err:Other`.
  zt.less hour quarter half second less                         -> all minute second
  zt.tp | zt.tpfixed Y M D secs F|S lh lm ls ldesc rh rm rs rdesc   (S = short left: lm ls ignored; fixed = the repaired variant)
  zt.tod Y M D secs cps
  zt.mdtp | zt.mdtpfixed fd pd dateTimex tpTimex bt et
  zt.m2tp Y M D secs both|begin|end fb pb t1 leftComment fe pe t2 rightAmPm
  zt.night Y M D secs cps
  zt.pod cps                                                    -> mo|mi|af|ev|ni|none
  zt.dtod fd pd dateTimex pod
  zt.hms Y M D secs H|M|S|O numText n hasPast hasFuture
  zt.setunit cps|? inMap                                        -> timex | none
  zt.set unitT durT everydayT dateTimeT dateT   (`?` = absent)  -> timex TAB value | none
  zt.hol Y M D secs keycps A|D|C|R arg                          -> ok <timex> TAB F-Y-M-D TAB P-Y-M-D | none | raises
  zt.holfixed Y M D secs keycps A|D|C|R arg cjkDigits           (the repaired year reading)
  zt.holfn keycps year                                          -> Y-M-D | err:raises | nokey
  zt.lunar keycps -> 0|1      zt.swiftyear cps -> int -/
namespace RTV.Drv.ZhTPH
open RTV.Drv RTV.Py RTV.Cal RTV.ZhTP RTV.Drv.PeriodsH

def parseDesc (d : String) : Option (Option Int) :=
  if d == "n" then none else if d == "-" then some none else some (some (parseInt d))

def mkTR (h m s d : String) : TR := parsedTime (parseInt h) (parseInt m) (parseInt s) (parseDesc d)

def parseEnds (k : String) : RTV.DtPeriod.Ends :=
  match k with
  | "both" => .both | "begin" => .beginHasDate | _ => .endHasDate

def parsePod (p : String) : Pod :=
  match p with
  | "mo" => .mo | "mi" => .mi | "af" => .af | "ev" => .ev | _ => .ni

def showPod : Option Pod → String
  | some .mo => "mo" | some .mi => "mi" | some .af => "af" | some .ev => "ev" | some .ni => "ni" | none => "none"

def parseTUnit (u : String) : Option RTV.DateUtils.TUnit :=
  match u with
  | "H" => some .H | "M" => some .M | "S" => some .S | _ => none

def optStr (f : String) : Option Str := if f == "?" then none else some (str f)

def showDate (x : Date) : String := s!"{x.y}-{x.m}-{x.d}"

def showOut : RTV.Holiday.Out → String
  | .raises => "raises"
  | .noResult => "none"
  | .ok r => s!"ok {toString' r.timex}\t{showDate r.future}\t{showDate r.past}"

end RTV.Drv.ZhTPH
namespace RTV.Drv
open RTV.Drv.ZhTPH RTV.Drv.PeriodsH RTV.ZhTP RTV.Py in
def dispatchZhTimePeriod (op : String) (args : List String) : Option String :=
  match op, args with
  | "zt.less", [h, q, hf, s, l] =>
    let r := handleLess (parseInt h) (parseInt q) (parseBool hf) (parseInt s) (parseInt l)
    some s!"{r.1} {r.2.1} {r.2.2}"
  | "zt.tp", [y, m, d, s, k, lh, lm, ls, ld, rh, rm, rs, rd] =>
    let l := if k == "S" then getShortLeft (parseInt lh) ((parseDesc ld).getD none) else mkTR lh lm ls ld
    some (showRes (parseTimePeriod l (mkTR rh rm rs rd) (mkDT y m d s)))
  | "zt.tpfixed", [y, m, d, s, k, lh, lm, ls, ld, rh, rm, rs, rd] =>
    let l := if k == "S" then getShortLeft (parseInt lh) ((parseDesc ld).getD none) else mkTR lh lm ls ld
    some (showRes (parseTimePeriodFixed l (mkTR rh rm rs rd) (mkDT y m d s)))
  | "zt.tod", [y, m, d, s, t] => some (showRes (timeOfDay (parseCps t) (mkDT y m d s)))
  | "zt.mdtp", [fd, pd, dt, tt, bt, et] =>
    some (showRes (mergeDateAndTimePeriods (parseDT fd) (parseDT pd) (str dt) (str tt) (parseDT bt) (parseDT et)))
  | "zt.mdtpfixed", [fd, pd, dt, tt, bt, et] =>
    some (showRes (mergeDateAndTimePeriodsFixed (parseDT fd) (parseDT pd) (str dt) (str tt) (parseDT bt) (parseDT et)))
  | "zt.m2tp", [y, m, d, s, k, fb, pb, t1, lc, fe, pe, t2, ra] =>
    some (showRes (mergeTwoTimePoints (mkDT y m d s) (parseEnds k) (parseDT fb) (parseDT pb) (str t1) (parseBool lc)
      (parseDT fe) (parseDT pe) (str t2) (parseBool ra)))
  | "zt.night", [y, m, d, s, w] => some (showRes (specificNight (mkDT y m d s) (parseCps w)))
  | "zt.pod", [t] => some (showPod (podOfText (parseCps t)))
  | "zt.dtod", [fd, pd, dt, p] => some (showRes (dateTimeOfDay (parseDT fd) (parseDT pd) (str dt) (parsePod p)))
  | "zt.hms", [y, m, d, s, u, nt, n, p, f] =>
    some (showRes (commonDurationHMS (mkDT y m d s) (parseTUnit u) (str nt) (parseNat n) (parseBool p) (parseBool f)))
  | "zt.setunit", [u, im] =>
    some (match eachUnit (if u == "?" then none else some (parseCps u)) (parseBool im) with
          | some t => toString' t | none => "none")
  | "zt.set", [a, b, c, d, e] =>
    some (match setParse (optStr a) (optStr b) (optStr c) (optStr d) (optStr e) with
          | some (t, v) => s!"{toString' t}\t{toString' v}" | none => "none")
  | "zt.hol", [y, m, d, s, k, kind, arg] =>
    let yi : YearIn := match kind with
      | "D" => .digits (parseNat arg) | "C" => .cjk (parseInt arg) | "R" => .rel (parseInt arg) | _ => .absent
    some (showOut (zhMatch2date (mkDT y m d s) (parseCps k) yi))
  | "zt.holfixed", [y, m, d, s, k, kind, arg, cj] =>
    let yi : YearIn := match kind with
      | "D" => .digits (parseNat arg) | "C" => .cjk (parseInt arg) | "R" => .rel (parseInt arg) | _ => .absent
    some (showOut (zhMatch2dateFixed (mkDT y m d s) (parseCps k) yi (parseInt cj)))
  | "zt.holfn", [k, yr] =>
    some (match RTV.Holiday.dictGet holidayTable (parseCps k) with
          | none => "nokey"
          | some f => match f.eval (parseInt yr) with | some x => showDate x | none => "err:raises")
  | "zt.lunar", [k] => some (showBool (lunarKeys.contains (parseCps k)))
  | "zt.swiftyear", [t] => some (toString (swiftYear (parseCps t)))
  | _, _ => none

end RTV.Drv
