import RTV.Drv.Proto
import RTV.Model.Periods
/-! Driver handlers for L5 `Periods` (BaseDatePeriodParser computations; C10 / C11 / C08). A reference is four fields
`Y M D secs`, an absent optional is `-`, a datetime argument is `Y-M-D@secs`, a TIMEX argument is plain text.
Answer: `timex TAB futureBegin TAB futureEnd TAB pastBegin TAB pastEnd` | `none` (success = False) | `err:Other`.
  pd.mwy Y M D secs month year|- swift
  pd.simple Y M D secs beginDay endDay year|- month|- relSwift relFuture
  pd.year year
  pd.wom Y M D secs cardinal month|- swift
  pd.woy Y M D secs isLast cardinal year|- swift
  pd.which Y M D secs num
  pd.quarter Y M D secs year|- orderQuarter|- orderSwift number|- cardinal
  pd.half Y M D secs year|- orderSwift half
  pd.merge fb pb timex1 fe pe timex2
  pd.dur Y M D secs past|next|in D|W|M|Y n
  pd.season Y M D secs yearText|- swift season      -> timex -/
namespace RTV.Drv.PeriodsH
open RTV.Drv RTV.Py RTV.Cal RTV.DateUtils RTV.Periods

def showDT (x : DateTime) : String := s!"{x.date.y}-{x.date.m}-{x.date.d}@{x.secs}"
def mkDT (y m d s : String) : DateTime := ⟨⟨parseNat y, parseNat m, parseNat d⟩, parseNat s⟩
def optInt (f : String) : Option Int := if f == "-" then none else some (parseInt f)
def optNat (f : String) : Option Nat := if f == "-" then none else some (parseNat f)
def str (f : String) : Str := f.toList.map Char.toNat

def parseDT (f : String) : DateTime :=
  match f.splitOn "@" with
  | [d, s] =>
    match d.splitOn "-" with
    | [y, m, dd] => mkDT y m dd s
    | _ => default
  | _ => default

def showRes : Res → String
  | .raises => "err:Other"
  | .noResult => "none"
  | .ok t fb fe pb pe => s!"{toString' t}\t{showDT fb}\t{showDT fe}\t{showDT pb}\t{showDT pe}"

def parsePerUnit (u : String) : PerUnit :=
  match u with
  | "D" => .D | "W" => .W | "M" => .M | _ => .Y

def parseMode (m : String) : DurMode :=
  match m with
  | "past" => .past | "next" => .next | _ => .inConn

end RTV.Drv.PeriodsH
namespace RTV.Drv
open RTV.Drv.PeriodsH RTV.Periods RTV.Py in
def dispatchPeriods (op : String) (args : List String) : Option String :=
  match op, args with
  | "pd.mwy", [y, m, d, s, mo, yr, sw] => some (showRes (monthWithYear (mkDT y m d s) (parseNat mo) (optInt yr) (parseInt sw)))
  | "pd.simple", [y, m, d, s, b, e, yr, mo, rs, rf] =>
    some (showRes (simpleCase (mkDT y m d s) (parseNat b) (parseNat e) (optInt yr) (optNat mo) (parseInt rs) (parseBool rf)))
  | "pd.year", [yr] => some (showRes (parseYear (parseInt yr)))
  | "pd.wom", [y, m, d, s, c, mo, sw] => some (showRes (weekOfMonth (mkDT y m d s) (parseInt c) (optNat mo) (parseInt sw)))
  | "pd.woy", [y, m, d, s, l, c, yr, sw] =>
    some (showRes (weekOfYear (mkDT y m d s) (parseBool l) (parseInt c) (optInt yr) (parseInt sw)))
  | "pd.which", [y, m, d, s, n] => some (showRes (whichWeek (mkDT y m d s) (parseInt n)))
  | "pd.quarter", [y, m, d, s, yr, oq, os, nu, c] =>
    some (showRes (quarter (mkDT y m d s) (optInt yr) (optInt oq) (parseInt os) (optInt nu) (parseInt c)))
  | "pd.half", [y, m, d, s, yr, os, h] => some (showRes (halfYear (mkDT y m d s) (optInt yr) (parseInt os) (parseInt h)))
  | "pd.merge", [fb, pb, t1, fe, pe, t2] =>
    some (showRes (mergeTwoTimePoints (parseDT fb) (parseDT pb) (str t1) (parseDT fe) (parseDT pe) (str t2)))
  | "pd.dur", [y, m, d, s, mo, u, n] => some (showRes (durationPeriod (mkDT y m d s) (parseMode mo) (parsePerUnit u) (parseNat n)))
  | "pd.season", [y, m, d, s, yt, sw, se] =>
    some (toString' (seasonTimex (mkDT y m d s) (if yt == "-" then none else some (str yt)) (parseInt sw) (str se)))
  | _, _ => none

end RTV.Drv
